import Lattigo.Proofs.NTTSem

/-!
  # `INTT (NTT a) = a`  (property C01, WP-N)

  `invZ_fwdZ`: over any commutative ring, the Gentleman–Sande network with twiddles `ρ'` undoes the
  Cooley–Tukey network with twiddles `ρ` up to the factor `2^k` as soon as `ρ_j ρ'_j = 1` on the
  nodes used (one inverse stage undoes one forward stage up to the factor 2).  Together with the
  stage-wise exactness of `NTTSem.lean` and `nInv = N⁻¹` this gives `intt_ntt` for the Model's
  `inttStd`/`nttStd`.
-/
namespace Lattigo.NTT
open Lattigo Lattigo.Gen

section
variable {F : Type} [CommRing F]

theorem fwdZ_length (ρ : ℕ → F) : ∀ (k j : ℕ) (a : List F), a.length = 2 ^ k →
    (fwdZ ρ k j a).length = 2 ^ k
  | 0, _, _, h => h
  | k + 1, j, a, h => by
    have h2 : a.length / 2 = 2 ^ k := by rw [h, Nat.pow_succ]; omega
    have hl : (a.take (a.length / 2)).length = 2 ^ k := by
      rw [List.length_take, h2, h, Nat.pow_succ]; omega
    have hr : (a.drop (a.length / 2)).length = 2 ^ k := by
      rw [List.length_drop, h2, h, Nat.pow_succ]; omega
    simp only [fwdZ, List.length_append]
    rw [fwdZ_length ρ k _ _ (by rw [List.length_zipWith, hl, hr, Nat.min_self]),
      fwdZ_length ρ k _ _ (by rw [List.length_zipWith, hl, hr, Nat.min_self]), Nat.pow_succ]
    omega

theorem zipWith_recombine_left {α β : Type} (f1 f2 : α → α → β) (g : β → β → α) (m : α → α)
    (h : ∀ u v, g (f1 u v) (f2 u v) = m u) :
    ∀ (U V : List α), U.length = V.length →
      List.zipWith g (List.zipWith f1 U V) (List.zipWith f2 U V) = U.map m
  | [], _, _ => by simp
  | _ :: _, [], hl => by simp at hl
  | u :: U, v :: V, hl => by
    simp only [List.zipWith_cons_cons, List.map_cons, h]
    rw [zipWith_recombine_left f1 f2 g m h U V (by simpa using hl)]

theorem zipWith_recombine_right {α β : Type} (f1 f2 : α → α → β) (g : β → β → α) (m : α → α)
    (h : ∀ u v, g (f1 u v) (f2 u v) = m v) :
    ∀ (U V : List α), U.length = V.length →
      List.zipWith g (List.zipWith f1 U V) (List.zipWith f2 U V) = V.map m
  | [], [], _ => by simp
  | [], _ :: _, hl => by simp at hl
  | _ :: _, [], hl => by simp at hl
  | u :: U, v :: V, hl => by
    simp only [List.zipWith_cons_cons, List.map_cons, h]
    rw [zipWith_recombine_right f1 f2 g m h U V (by simpa using hl)]

/-- **One inverse stage undoes one forward stage up to the factor 2**, hence
`invZ ρ⁻¹ (fwdZ ρ a) = 2^k · a`.  Only `ρ_i · ρ'_i = 1` on the nodes of the subtree is needed
(no table invariant). -/
theorem invZ_fwdZ (ρ ρ' : ℕ → F) (M : ℕ) (hinv : ∀ i, 1 ≤ i → i < M → ρ i * ρ' i = 1) :
    ∀ (k j : ℕ) (a : List F), a.length = 2 ^ k → 1 ≤ j → (j + 1) * 2 ^ k ≤ 2 * M →
      invZ ρ' k j (fwdZ ρ k j a) = a.map (fun x => 2 ^ k * x)
  | 0, _, a, _, _, _ => by simp [invZ, fwdZ]
  | k + 1, j, a, h, hj0, hj => by
    have h2 : a.length / 2 = 2 ^ k := by rw [h, Nat.pow_succ]; omega
    have hl : (a.take (a.length / 2)).length = 2 ^ k := by
      rw [List.length_take, h2, h, Nat.pow_succ]; omega
    have hr : (a.drop (a.length / 2)).length = 2 ^ k := by
      rw [List.length_drop, h2, h, Nat.pow_succ]; omega
    have hjM : j < M := by
      have : 2 ≤ 2 ^ (k + 1) := by
        calc 2 = 2 ^ 1 := rfl
          _ ≤ 2 ^ (k + 1) := Nat.pow_le_pow_right (by decide) (by omega)
      have : (j + 1) * 2 ≤ (j + 1) * 2 ^ (k + 1) := Nat.mul_le_mul_left _ this
      omega
    have hρ := hinv j hj0 hjM
    have hj1 : (2 * j + 1) * 2 ^ k ≤ 2 * M := by
      have : (2 * j + 1) * 2 ^ k ≤ (2 * j + 2) * 2 ^ k := Nat.mul_le_mul_right _ (by omega)
      have e : (2 * j + 2) * 2 ^ k = (j + 1) * 2 ^ (k + 1) := by rw [Nat.pow_succ]; ring
      omega
    have hj2 : (2 * j + 1 + 1) * 2 ^ k ≤ 2 * M := by
      have e : (2 * j + 1 + 1) * 2 ^ k = (j + 1) * 2 ^ (k + 1) := by rw [Nat.pow_succ]; ring
      omega
    set U := a.take (a.length / 2) with hU
    set V := a.drop (a.length / 2) with hV
    have hX : (List.zipWith (fun u v => u + ρ j * v) U V).length = 2 ^ k := by
      rw [List.length_zipWith, hl, hr, Nat.min_self]
    have hY : (List.zipWith (fun u v => u - ρ j * v) U V).length = 2 ^ k := by
      rw [List.length_zipWith, hl, hr, Nat.min_self]
    have hlenX := fwdZ_length ρ k (2 * j) _ hX
    have hlenY := fwdZ_length ρ k (2 * j + 1) _ hY
    have hlen : (fwdZ ρ (k + 1) j a).length / 2 = 2 ^ k := by
      rw [fwdZ_length ρ (k + 1) j a h, Nat.pow_succ]; omega
    have hfw : fwdZ ρ (k + 1) j a
        = fwdZ ρ k (2 * j) (List.zipWith (fun u v => u + ρ j * v) U V)
          ++ fwdZ ρ k (2 * j + 1) (List.zipWith (fun u v => u - ρ j * v) U V) := rfl
    have htake : (fwdZ ρ (k + 1) j a).take ((fwdZ ρ (k + 1) j a).length / 2)
        = fwdZ ρ k (2 * j) (List.zipWith (fun u v => u + ρ j * v) U V) := by
      rw [hlen, hfw, List.take_left' hlenX]
    have hdrop : (fwdZ ρ (k + 1) j a).drop ((fwdZ ρ (k + 1) j a).length / 2)
        = fwdZ ρ k (2 * j + 1) (List.zipWith (fun u v => u - ρ j * v) U V) := by
      rw [hlen, hfw, List.drop_left' hlenX]
    show List.zipWith (fun u v => u + v)
        (invZ ρ' k (2 * j) ((fwdZ ρ (k + 1) j a).take ((fwdZ ρ (k + 1) j a).length / 2)))
        (invZ ρ' k (2 * j + 1) ((fwdZ ρ (k + 1) j a).drop ((fwdZ ρ (k + 1) j a).length / 2)))
      ++ List.zipWith (fun u v => (u - v) * ρ' j)
        (invZ ρ' k (2 * j) ((fwdZ ρ (k + 1) j a).take ((fwdZ ρ (k + 1) j a).length / 2)))
        (invZ ρ' k (2 * j + 1) ((fwdZ ρ (k + 1) j a).drop ((fwdZ ρ (k + 1) j a).length / 2)))
      = a.map (fun x => 2 ^ (k + 1) * x)
    rw [htake, hdrop, invZ_fwdZ ρ ρ' M hinv k (2 * j) _ hX (by omega) hj1,
      invZ_fwdZ ρ ρ' M hinv k (2 * j + 1) _ hY (by omega) hj2, List.zipWith_map, List.zipWith_map]
    have hUV : U.length = V.length := by rw [hl, hr]
    rw [zipWith_recombine_left (fun u v => u + ρ j * v) (fun u v => u - ρ j * v)
        (fun x y => 2 ^ k * x + 2 ^ k * y) (fun x => 2 ^ (k + 1) * x)
        (by intro u v; ring) U V hUV,
      zipWith_recombine_right (fun u v => u + ρ j * v) (fun u v => u - ρ j * v)
        (fun x y => (2 ^ k * x - 2 ^ k * y) * ρ' j) (fun x => 2 ^ (k + 1) * x)
        (by intro u v
            have : (2 ^ k * (u + ρ j * v) - 2 ^ k * (u - ρ j * v)) * ρ' j
                = 2 ^ (k + 1) * v * (ρ j * ρ' j) := by ring
            rw [this, hρ, mul_one]) U V hUV,
      ← List.map_append, hU, hV, List.take_append_drop]

end

/-! ### the table hypotheses -/

/-- Hypotheses on a `Tables` value for the standard ring of degree `n = 2^K` (all decidable, stated
with `%` on ℕ so that concrete tables can be checked by evaluation):
`q` prime, `8q ≤ 2^64`, Montgomery and Barrett constants, all roots `< q`,
`rootsF[j]·rootsB[j] ≡ W²` (i.e. `ρF_j·ρB_j = 1` after stripping the Montgomery factors) for the
node indices `1 ≤ j < n`, and `nInv ≡ n⁻¹·W`, `nInv < q`. -/
structure Valid (T : Tables) (K : ℕ) : Prop where
  n_eq : T.n = 2 ^ K
  prime : T.q.Prime
  h8 : 8 * T.q ≤ W
  mont : MontConst T.q T.qinv
  bred : T.bred = brc T.q
  rootsF_lt : RootsLt T.rootsF T.q
  rootsB_lt : RootsLt T.rootsB T.q
  roots_inv : ∀ j, 1 ≤ j → j < 2 ^ K → (T.rootsF[j]! * T.rootsB[j]!) % T.q = (W * W) % T.q
  nInv_lt : T.nInv < T.q
  nInv_eq : (T.nInv * T.n) % T.q = W % T.q

theorem map_cast_inj {q : ℕ} : ∀ (l1 l2 : List ℕ), (∀ x ∈ l1, x < q) → (∀ x ∈ l2, x < q) →
    l1.map (Nat.cast : ℕ → ZMod q) = l2.map (Nat.cast : ℕ → ZMod q) → l1 = l2
  | [], [], _, _, _ => rfl
  | [], _ :: _, _, _, h => by simp at h
  | _ :: _, [], _, _, h => by simp at h
  | x :: l1, y :: l2, h1, h2, h => by
    simp only [List.map_cons, List.cons.injEq] at h
    have hx := h1 x (List.mem_cons_self ..)
    have hy := h2 y (List.mem_cons_self ..)
    have hxy : x = y := by
      have := (ZMod.natCast_eq_natCast_iff' x y q).1 h.1
      rwa [Nat.mod_eq_of_lt hx, Nat.mod_eq_of_lt hy] at this
    rw [hxy, map_cast_inj l1 l2 (fun z hz => h1 z (List.mem_cons_of_mem _ hz))
      (fun z hz => h2 z (List.mem_cons_of_mem _ hz)) h.2]

section
variable {T : Tables} {K : ℕ}

theorem Valid.q_pos (hT : Valid T K) : 0 < T.q := hT.prime.pos

theorem Valid.rho_inv (hT : Valid T K) [Fact T.q.Prime] (j : ℕ) (h1 : 1 ≤ j) (h2 : j < 2 ^ K) :
    rho T.q T.rootsF j * rho T.q T.rootsB j = 1 := by
  have h := (ZMod.natCast_eq_natCast_iff' _ _ T.q).2 (hT.roots_inv j h1 h2)
  simp only [Nat.cast_mul] at h
  have hW := W_ne_zero (q := T.q) hT.mont.odd
  unfold rho
  calc (T.rootsF[j]! : ZMod T.q) * (W : ZMod T.q)⁻¹ * ((T.rootsB[j]! : ZMod T.q) * (W : ZMod T.q)⁻¹)
      = ((T.rootsF[j]! : ZMod T.q) * (T.rootsB[j]! : ZMod T.q)) * ((W : ZMod T.q)⁻¹ * (W : ZMod T.q)⁻¹) := by ring
    _ = 1 := by
        rw [h, mul_assoc, ← mul_assoc (W : ZMod T.q) (W : ZMod T.q)⁻¹, mul_inv_cancel₀ hW, one_mul,
          mul_inv_cancel₀ hW]

/-- `nttStd`, read in `Z_q`, is the exact network on the input read in `Z_q`; its entries are `< q`. -/
theorem nttStd_cast (hT : Valid T K) [Fact T.q.Prime] (a : List ℕ) (ha : ∀ x ∈ a, x < T.q) :
    (nttStd T a).map (Nat.cast : ℕ → ZMod T.q)
      = fwdZ (rho T.q T.rootsF) K 1 (a.map (Nat.cast : ℕ → ZMod T.q))
    ∧ ∀ y ∈ nttStd T a, y < T.q := by
  have hq1 : 1 < T.q := hT.prime.one_lt
  have ha' : ∀ x ∈ a, x < BStd T.n 1 0 * T.q := by
    rw [BStd_zero _ _ (by omega), Nat.one_mul]; exact ha
  have hB : BoundOK (flagStd T.n) (BStd T.n 1) K := by rw [hT.n_eq]; exact BStd_ok K 1 (by omega)
  have ok := fwdRec_ok T.rootsF T.q T.qinv (flagStd T.n) (BStd T.n 1) K hT.h8 hT.mont hT.rootsF_lt
    hB K 0 1 a (by omega) ha'
  have hc := fwdRec_cast T.rootsF T.qinv (flagStd T.n) (BStd T.n 1) K hT.h8 hT.mont hT.rootsF_lt
    hB K 0 1 a (by omega) ha'
  have e : nttCoreLazy T a = fwdRec T.rootsF T.q T.qinv (flagStd T.n) K 0 1 a := by
    unfold nttCoreLazy; rw [hT.n_eq, log2n_two_pow]
  have hlt : ∀ y ∈ nttCoreLazy T a, y < W := by
    intro y hy
    rw [e] at hy
    have h1 := fwdRec_out_lt _ _ _ _ _ K 0 1 a ok y hy
    have h2 : BStd T.n 1 (0 + K) * T.q ≤ 8 * T.q := by
      apply Nat.mul_le_mul_right
      rcases Nat.eq_zero_or_pos K with h0 | h0
      · subst h0; rw [BStd_zero _ _ (by omega)]; omega
      · have := BStd_last K 1 h0 (by omega)
        rw [hT.n_eq, Nat.zero_add]; omega
    have := hT.h8
    omega
  have hred : ∀ y ∈ nttCoreLazy T a, BRedAdd y T.q T.bred = y % T.q := by
    intro y hy
    rw [hT.bred]; exact BRedAdd_spec y T.q hq1 (hlt y hy)
  constructor
  · rw [← hc, ← e]
    unfold nttStd
    rw [List.map_map]
    apply List.map_congr_left
    intro y hy
    simp only [Function.comp, hred y hy]
    exact ZMod.natCast_mod y T.q
  · intro y hy
    unfold nttStd at hy
    rw [List.mem_map] at hy
    obtain ⟨x, hx, rfl⟩ := hy
    rw [hred x hx]; exact Nat.mod_lt _ hT.q_pos

theorem fwdRec_length (roots : Array ℕ) (q qinv : ℕ) (flag : ℕ → Bool) :
    ∀ (k d j : ℕ) (a : List ℕ), a.length = 2 ^ k → (fwdRec roots q qinv flag k d j a).length = 2 ^ k
  | 0, _, _, _, h => h
  | k + 1, d, j, a, h => by
    have h2 : a.length / 2 = 2 ^ k := by rw [h, Nat.pow_succ]; omega
    have hl : (a.take (a.length / 2)).length = 2 ^ k := by
      rw [List.length_take, h2, h, Nat.pow_succ]; omega
    have hr : (a.drop (a.length / 2)).length = 2 ^ k := by
      rw [List.length_drop, h2, h, Nat.pow_succ]; omega
    have hs : (fwdStage roots q qinv flag d j a).length = 2 ^ k := by
      unfold fwdStage; rw [List.length_zipWith, hl, hr, Nat.min_self]
    rw [fwdRec_succ, List.length_append,
      fwdRec_length roots q qinv flag k _ _ _ (by rw [List.length_map, hs]),
      fwdRec_length roots q qinv flag k _ _ _ (by rw [List.length_map, hs]), Nat.pow_succ]
    omega

theorem MRed_cast {q : ℕ} [Fact q.Prime] (x y qinv : ℕ) (hq : 2 * q ≤ W) (hm : MontConst q qinv)
    (hxy : x * y < q * W) :
    ((MRed x y q qinv : ℕ) : ZMod q) = (x : ZMod q) * (y : ZMod q) * (W : ZMod q)⁻¹ := by
  obtain ⟨h, _⟩ := MRed_spec x y q qinv hq hm hxy
  have hW := W_ne_zero (q := q) hm.odd
  have := (ZMod.natCast_eq_natCast_iff' _ _ q).2 h
  simp only [Nat.cast_mul] at this
  rw [← this, mul_assoc, mul_inv_cancel₀ hW, mul_one]

/-- **intt_ntt**: `inttStd T (nttStd T a) = a` for every `a` of length `n` with entries `< q`. -/
theorem inttStd_nttStd (hT : Valid T K) (a : List ℕ) (hlen : a.length = T.n)
    (ha : ∀ x ∈ a, x < T.q) : inttStd T (nttStd T a) = a := by
  have : Fact T.q.Prime := ⟨hT.prime⟩
  have hq0 := hT.q_pos
  have h8 := hT.h8
  have hW := W_ne_zero (q := T.q) hT.mont.odd
  obtain ⟨hfc, hflt⟩ := nttStd_cast hT a ha
  have hb2 : ∀ x ∈ nttStd T a, x < 2 * T.q := fun x hx => by have := hflt x hx; omega
  have h6 : 6 * T.q ≤ W := by omega
  have e : inttCoreLazy T (nttStd T a) = invRec T.rootsB T.q T.qinv K 1 (nttStd T a) := by
    unfold inttCoreLazy; rw [hT.n_eq, log2n_two_pow]
  obtain ⟨_, hilt⟩ := invRec_ok T.rootsB T.q T.qinv h6 hT.mont hT.rootsB_lt K 1 _ hb2
  have hic := invRec_cast T.rootsB T.qinv h6 hT.mont hT.rootsB_lt K 1 _ hb2
  rw [hfc, invZ_fwdZ (rho T.q T.rootsF) (rho T.q T.rootsB) (2 ^ K)
    (fun i h1 h2 => hT.rho_inv i h1 h2) K 1 _ (by rw [List.length_map, hlen, hT.n_eq]) (by omega)
    (by omega)] at hic
  -- the final multiplication by `nInv`
  have hn : ((T.nInv : ZMod T.q)) * ((2 : ZMod T.q) ^ K) * (W : ZMod T.q)⁻¹ = 1 := by
    have h := (ZMod.natCast_eq_natCast_iff' _ _ T.q).2 hT.nInv_eq
    rw [hT.n_eq] at h
    simp only [Nat.cast_mul, Nat.cast_pow, Nat.cast_ofNat] at h
    rw [h]; exact mul_inv_cancel₀ hW
  apply map_cast_inj (q := T.q) _ _ _ ha
  · unfold inttStd
    rw [List.map_map]
    have hstep : ∀ x ∈ invRec T.rootsB T.q T.qinv K 1 (nttStd T a),
        ((Nat.cast : ℕ → ZMod T.q) ∘ fun x => MRed x T.nInv T.q T.qinv) x
          = ((fun z : ZMod T.q => z * (T.nInv : ZMod T.q) * (W : ZMod T.q)⁻¹) ∘ (Nat.cast : ℕ → ZMod T.q)) x := by
      intro x hx
      have hxW : x < W := by have := hilt x hx; omega
      exact MRed_cast x T.nInv T.qinv (by omega) hT.mont
        (by rw [Nat.mul_comm T.q W]; exact Nat.mul_lt_mul'' hxW hT.nInv_lt)
    rw [e, List.map_congr_left hstep, ← List.map_map, hic, List.map_map, List.map_map]
    apply List.map_congr_left
    intro x _
    simp only [Function.comp]
    calc (2 : ZMod T.q) ^ K * (x : ZMod T.q) * (T.nInv : ZMod T.q) * (W : ZMod T.q)⁻¹
        = (x : ZMod T.q) * ((T.nInv : ZMod T.q) * (2 : ZMod T.q) ^ K * (W : ZMod T.q)⁻¹) := by ring
      _ = x := by rw [hn, mul_one]
  · intro y hy
    unfold inttStd at hy
    rw [List.mem_map] at hy
    obtain ⟨x, hx, rfl⟩ := hy
    rw [e] at hx
    have hxW : x < W := by have := hilt x hx; omega
    exact (MRed_spec x T.nInv T.q T.qinv (by omega) hT.mont
      (by rw [Nat.mul_comm T.q W]; exact Nat.mul_lt_mul'' hxW hT.nInv_lt)).2

end
end Lattigo.NTT
