/-
  C08 — lemmas about the codec combinators of `Model/Codec.lean`.
  Everything is proved by structural induction on `Fmt`, hence for every lattigo type.
-/
import Lattigo.Model.Codec

namespace Lattigo.Codec

/-! ### little-endian integers and hex digits -/

theorem leBytes_length (w n : Nat) : (leBytes w n).length = w := by
  induction w generalizing n with
  | zero => rfl
  | succ w ih => simp [leBytes, ih]

theorem leVal_leBytes (w n : Nat) (h : n < 256 ^ w) : leVal (leBytes w n) = n := by
  induction w generalizing n with
  | zero => simp at h; subst h; rfl
  | succ w ih =>
    have h' : n / 256 < 256 ^ w := by
      rw [Nat.div_lt_iff_lt_mul (by decide)]
      rw [Nat.pow_succ] at h; exact h
    simp only [leBytes, leVal, ih _ h']
    omega

theorem leBytes_isBytes (w n : Nat) : IsBytes (leBytes w n) := by
  induction w generalizing n with
  | zero => intro b hb; simp [leBytes] at hb
  | succ w ih =>
    intro b hb
    simp only [leBytes, List.mem_cons] at hb
    cases hb with
    | inl h => omega
    | inr h => exact ih _ b h

theorem unhex_hexDigit (d : Nat) (h : d < 16) : unhex (hexDigit d) = some d := by
  unfold hexDigit unhex
  by_cases h10 : d < 10
  · simp only [h10, if_true]
    have : 48 ≤ 48 + d ∧ 48 + d ≤ 57 := by omega
    simp only [this, and_self, if_true]
    congr 1; omega
  · simp only [h10, if_false]
    have h1 : ¬ (48 ≤ 87 + d ∧ 87 + d ≤ 57) := by omega
    have h2 : 97 ≤ 87 + d ∧ 87 + d ≤ 102 := by omega
    simp only [h1, if_false, h2, and_self, if_true]
    congr 1; omega

/-! ### signed bytes -/

theorem toByte_lt (z : Int) : toByte z < 256 := by
  unfold toByte; omega

/-- the two's-complement byte represents exactly the signed values `[-128, 127]`. -/
theorem fromByte_toByte (z : Int) (h1 : -128 ≤ z) (h2 : z ≤ 127) : fromByte (toByte z) = z := by
  unfold fromByte toByte; split <;> omega

theorem toByte_fromByte (n : Nat) (h : n < 256) : toByte (fromByte n) = n := by
  unfold fromByte toByte; split <;> omega

theorem fromByte_range (n : Nat) (h : n < 256) : -128 ≤ fromByte n ∧ fromByte n ≤ 127 := by
  unfold fromByte; split <;> omega

/-! ### reading from a flat list -/

theorem readFlat_append (xs rest : List Nat) :
    readFlat xs.length (xs ++ rest) = some (xs, rest) := by
  simp [readFlat]

theorem readFlat_append' (n : Nat) (xs rest : List Nat) (h : xs.length = n) :
    readFlat n (xs ++ rest) = some (xs, rest) := by
  subst h; exact readFlat_append xs rest

theorem readFlat_short (n : Nat) (bs : List Nat) (h : bs.length < n) : readFlat n bs = none := by
  simp [readFlat]; omega

/-! ### `decN` -/

theorem decN_flatten (d : List Nat → Option (Val × List Nat)) (e : Val → List Nat)
    (vs : List Val)
    (h : ∀ x ∈ vs, ∀ rest, d (e x ++ rest) = some (x, rest)) (rest : List Nat) :
    decN d vs.length ((vs.map e).flatten ++ rest) = some (vs, rest) := by
  induction vs with
  | nil => simp [decN]
  | cons x xs ih =>
    have hx := h x (List.mem_cons_self ..) ((xs.map e).flatten ++ rest)
    have ih' := ih (fun y hy => h y (List.mem_cons_of_mem _ hy))
    simp only [List.map_cons, List.flatten_cons, List.length_cons, List.append_assoc, decN, hx,
      ih']

theorem decN_trunc (d : List Nat → Option (Val × List Nat)) (e : Val → List Nat)
    (vs : List Val)
    (hrt : ∀ x ∈ vs, ∀ rest, d (e x ++ rest) = some (x, rest))
    (htr : ∀ x ∈ vs, ∀ k, k < (e x).length → d ((e x).take k) = none)
    (k : Nat) (hk : k < ((vs.map e).flatten).length) :
    decN d vs.length (((vs.map e).flatten).take k) = none := by
  induction vs generalizing k with
  | nil => simp at hk
  | cons x xs ih =>
    simp only [List.map_cons, List.flatten_cons, List.length_cons, List.length_append] at hk ⊢
    rw [List.take_append]
    by_cases hlt : k < (e x).length
    · have h0 : k - (e x).length = 0 := by omega
      simp only [h0, List.take_zero, List.append_nil, decN,
        htr x (List.mem_cons_self ..) k hlt]
    · have hfull : (e x).take k = e x := List.take_of_length_le (by omega)
      rw [hfull]
      simp only [decN, hrt x (List.mem_cons_self ..)]
      rw [ih (fun y hy => hrt y (List.mem_cons_of_mem _ hy))
            (fun y hy => htr y (List.mem_cons_of_mem _ hy)) _ (by omega)]

/-! ### size -/

theorem length_flatten_map (e : Val → List Nat) (s : Val → Nat) (vs : List Val)
    (h : ∀ x ∈ vs, (e x).length = s x) :
    ((vs.map e).flatten).length = sumL (vs.map s) := by
  induction vs with
  | nil => rfl
  | cons x xs ih =>
    simp only [List.map_cons, List.flatten_cons, List.length_append, sumL,
      h x (List.mem_cons_self ..), ih (fun y hy => h y (List.mem_cons_of_mem _ hy))]

/-- a well-typed value has the shape of its format. -/
theorem WT_shape (f : Fmt) : ∀ v, WT f v → Shape f v := by
  induction f with
  | unit => intro v _; trivial
  | uint w => intro v ⟨n, hv, _⟩; exact ⟨n, hv⟩
  | raw n => intro v h; exact h
  | hex2 st => intro v ⟨n, hv, _⟩; exact ⟨n, hv⟩
  | shex2 => intro v ⟨z, hv, _⟩; exact ⟨z, hv⟩
  | framed pre f post ih => intro v h; exact ih v h
  | pair a b iha ihb => intro v ⟨x, y, hv, hx, hy⟩; exact ⟨x, y, hv, iha x hx, ihb y hy⟩
  | vec mg w f ih => intro v ⟨vs, hv, _, _, hall⟩; exact ⟨vs, hv, fun x hx => ih x (hall x hx)⟩
  | opt kp ru f ih =>
    intro v h
    rcases h with hv | ⟨x, hv, hx⟩
    · exact Or.inl hv
    · exact Or.inr ⟨x, hv, ih x hx⟩
  | tailIf kp a p b iha ihb =>
    intro v ⟨x, y, hv, hx, hy⟩
    refine ⟨x, y, hv, iha x hx, ?_⟩
    rcases hy with ⟨_, s, hs, hws⟩ | ⟨_, hs⟩
    · exact Or.inr ⟨s, hs, ihb s hws⟩
    · exact Or.inl hs

/-- **size_exact**: every value that has the shape of the format (no range condition, any
    combination of optional fields — e.g. a key that still carries a seed it does not write)
    encodes to exactly `size f v` bytes. -/
theorem size_exact_shape (f : Fmt) : ∀ v, Shape f v → (enc f v).length = size f v := by
  induction f with
  | unit => intro v h; simp [enc, size]
  | uint w => intro v ⟨n, hv⟩; subst hv; simp [enc, size, leBytes_length]
  | raw n => intro v ⟨bs, hv, hl⟩; subst hv; simp [enc, size, hl]
  | hex2 st => intro v ⟨n, hv⟩; subst hv; simp [enc, size]
  | shex2 => intro v ⟨z, hv⟩; subst hv; simp [enc, size]
  | framed pre f post ih =>
    intro v h
    simp only [enc, size, List.length_append, ih v h]
  | pair a b iha ihb =>
    intro v ⟨x, y, hv, hx, hy⟩; subst hv
    simp only [enc, size, List.length_append, iha x hx, ihb y hy]
  | vec mg w f ih =>
    intro v ⟨vs, hv, hall⟩; subst hv
    simp only [enc, size, List.length_append, leBytes_length]
    rw [length_flatten_map (enc f) (size f) vs (fun x hx => ih x (hall x hx))]
  | opt kp ru f ih =>
    intro v h
    rcases h with hv | ⟨x, hv, hx⟩
    · subst hv; simp [enc, size]
    · subst hv; simp only [enc, size, List.length_cons, ih x hx]; omega
  | tailIf kp a p b iha ihb =>
    intro v ⟨x, y, hv, hx, hy⟩; subst hv
    rcases hy with hs | ⟨s, hs, hws⟩
    · subst hs; by_cases hp : p x = true <;> simp [enc, size, hp, iha x hx]
    · subst hs; by_cases hp : p x = true <;> simp [enc, size, hp, iha x hx, ihb s hws]

/-- `size_exact` for well-typed values. -/
theorem size_exact (f : Fmt) (v : Val) (h : WT f v) : (enc f v).length = size f v :=
  size_exact_shape f v (WT_shape f v h)

/-! ### round trip -/

/-- **roundtrip** (flat list): decoding an encoding followed by anything returns the value
    and exactly the rest. -/
theorem roundtrip (f : Fmt) :
    ∀ v rest, WT f v → dec f (enc f v ++ rest) = some (v, rest) := by
  unfold dec
  induction f with
  | unit => intro v rest h; simp only [WT] at h; subst h; simp [enc, decG]
  | uint w =>
    intro v rest ⟨n, hv, hn⟩; subst hv
    simp only [enc, decG, readFlat_append' w _ rest (leBytes_length w n), leVal_leBytes w n hn]
  | raw n =>
    intro v rest ⟨bs, hv, hl⟩; subst hv
    simp only [enc, decG, readFlat_append' n _ rest hl]
  | hex2 st =>
    intro v rest ⟨n, hv, hn⟩; subst hv
    have h1 : n / 16 % 16 < 16 := Nat.mod_lt _ (by decide)
    have h2 : n % 16 < 16 := Nat.mod_lt _ (by decide)
    have hr : readFlat 2 ([hexDigit (n / 16 % 16), hexDigit (n % 16)] ++ rest)
        = some ([hexDigit (n / 16 % 16), hexDigit (n % 16)], rest) :=
      readFlat_append' 2 _ rest rfl
    have hn256 : n < 256 := by cases st <;> simp [hexBound] at hn <;> omega
    have hp : hexPair (hexDigit (n / 16 % 16)) (hexDigit (n % 16)) = some n := by
      simp only [hexPair, unhex_hexDigit _ h1, unhex_hexDigit _ h2]
      congr 1; omega
    have hv : hexVal st n = n := by
      cases st <;> simp only [hexVal, hexBound] at hn ⊢ <;> split <;> omega
    simp only [enc, decG, hr, hp, hv]
  | shex2 =>
    intro v rest ⟨z, hv, hz1, hz2⟩; subst hv
    have hlt := toByte_lt z
    have h1 : toByte z / 16 % 16 < 16 := Nat.mod_lt _ (by decide)
    have h2 : toByte z % 16 < 16 := Nat.mod_lt _ (by decide)
    have hr : readFlat 2 ([hexDigit (toByte z / 16 % 16), hexDigit (toByte z % 16)] ++ rest)
        = some ([hexDigit (toByte z / 16 % 16), hexDigit (toByte z % 16)], rest) :=
      readFlat_append' 2 _ rest rfl
    have hp : hexPair (hexDigit (toByte z / 16 % 16)) (hexDigit (toByte z % 16)) = some (toByte z) := by
      simp only [hexPair, unhex_hexDigit _ h1, unhex_hexDigit _ h2]
      congr 1; omega
    simp only [enc, decG, hr, hp, fromByte_toByte z hz1 hz2]
  | framed pre f post ih =>
    intro v rest h
    simp only [WT] at h
    simp only [enc, decG, List.append_assoc, readFlat_append, if_true, ih v _ h]
  | pair a b iha ihb =>
    intro v rest ⟨x, y, hv, hx, hy⟩; subst hv
    simp only [enc, decG, List.append_assoc, iha x _ hx, ihb y _ hy]
  | vec mg w f ih =>
    intro v rest ⟨vs, hv, hlen, hblk, hall⟩; subst hv
    have hnb : ¬ (mg = VecKind.block ∧ blockMax < vs.length) := by
      intro ⟨h1, h2⟩; have := hblk h1; omega
    simp only [enc, decG, List.append_assoc,
      readFlat_append' w _ _ (leBytes_length w vs.length), leVal_leBytes w _ hlen, hnb, if_false]
    rw [decN_flatten (decG readFlat f) (enc f) vs (fun x hx r => ih x r (hall x hx))]
  | opt kp ru f ih =>
    intro v rest h
    rcases h with hv | ⟨x, hv, hx⟩
    · subst hv
      have hr : readFlat 1 ([0] ++ rest) = some ([0], rest) := readFlat_append' 1 _ rest rfl
      simp only [enc, decG, hr]; simp
    · subst hv
      have hr : readFlat 1 ([1] ++ (enc f x ++ rest)) = some ([1], enc f x ++ rest) :=
        readFlat_append' 1 _ _ rfl
      have : (1 :: enc f x) ++ rest = [1] ++ (enc f x ++ rest) := rfl
      simp only [enc, decG, this, hr, if_true, ih x _ hx]
  | tailIf kp a p b iha ihb =>
    intro v rest ⟨x, y, hv, hx, hy⟩; subst hv
    rcases hy with ⟨hp, s, hs, hws⟩ | ⟨hp, hs⟩
    · subst hs
      simp only [enc, decG, hp, if_true, List.append_assoc, iha x _ hx, ihb s _ hws]
    · subst hs
      simp only [enc, decG, hp, List.append_assoc, iha x _ hx]; simp

/-- exact consumption with nothing after. -/
theorem roundtrip_nil (f : Fmt) (v : Val) (h : WT f v) : dec f (enc f v) = some (v, []) := by
  have := roundtrip f v [] h
  simpa using this

/-! ### truncation -/

/-- **trunc_err**: every proper prefix of an encoding is rejected. -/
theorem trunc_err (f : Fmt) :
    ∀ v k, WT f v → k < (enc f v).length → dec f ((enc f v).take k) = none := by
  induction f with
  | unit => intro v k _ hk; simp [enc] at hk
  | uint w =>
    intro v k ⟨n, hv, _⟩ hk; subst hv
    simp only [enc, leBytes_length] at hk
    simp only [dec, decG, enc]
    rw [readFlat_short]; simp [leBytes_length]; omega
  | raw n =>
    intro v k ⟨bs, hv, hl⟩ hk; subst hv
    simp only [enc] at hk
    simp only [dec, decG, enc]
    rw [readFlat_short]; simp; omega
  | hex2 st =>
    intro v k ⟨n, hv, _⟩ hk; subst hv
    simp only [enc, List.length_cons, List.length_nil] at hk
    simp only [dec, decG, enc]
    rw [readFlat_short]; simp; omega
  | shex2 =>
    intro v k ⟨z, hv, _⟩ hk; subst hv
    simp only [enc, List.length_cons, List.length_nil] at hk
    simp only [dec, decG, enc]
    rw [readFlat_short]; simp; omega
  | framed pre f post ih =>
    intro v k h hk
    simp only [WT] at h
    simp only [enc, List.length_append] at hk
    simp only [dec, decG, enc, List.append_assoc]
    rw [List.take_append]
    by_cases h1 : k < pre.length
    · rw [readFlat_short]; simp; omega
    · have hp : pre.take k = pre := List.take_of_length_le (by omega)
      rw [hp, readFlat_append]
      simp only [if_true]
      rw [List.take_append]
      by_cases h2 : k - pre.length < (enc f v).length
      · have h0 : k - pre.length - (enc f v).length = 0 := by omega
        have := ih v _ h h2
        simp only [dec] at this
        simp only [h0, List.take_zero, List.append_nil, this]
      · have hf : (enc f v).take (k - pre.length) = enc f v :=
          List.take_of_length_le (by omega)
        have hrt := roundtrip f v (post.take (k - pre.length - (enc f v).length)) h
        simp only [dec] at hrt
        rw [hf, hrt]
        simp only []
        rw [readFlat_short]; simp; omega
  | pair a b iha ihb =>
    intro v k ⟨x, y, hv, hx, hy⟩ hk; subst hv
    simp only [enc, List.length_append] at hk
    simp only [dec, decG, enc]
    rw [List.take_append]
    by_cases h1 : k < (enc a x).length
    · have h0 : k - (enc a x).length = 0 := by omega
      have := iha x k hx h1
      simp only [dec] at this
      simp only [h0, List.take_zero, List.append_nil, this]
    · have hf : (enc a x).take k = enc a x := List.take_of_length_le (by omega)
      have hrt := roundtrip a x ((enc b y).take (k - (enc a x).length)) hx
      simp only [dec] at hrt
      have := ihb y (k - (enc a x).length) hy (by omega)
      simp only [dec] at this
      rw [hf, hrt]
      simp only [this]
  | vec mg w f ih =>
    intro v k ⟨vs, hv, hlen, _, hall⟩ hk; subst hv
    simp only [enc, List.length_append, leBytes_length] at hk
    simp only [dec, decG, enc]
    rw [List.take_append]
    by_cases h1 : k < w
    · rw [readFlat_short]; simp [leBytes_length]; omega
    · have hf : (leBytes w vs.length).take k = leBytes w vs.length :=
        List.take_of_length_le (by simp [leBytes_length]; omega)
      rw [hf, readFlat_append' w _ _ (leBytes_length w vs.length)]
      simp only [leVal_leBytes w _ hlen, leBytes_length]
      have := decN_trunc (decG readFlat f) (enc f) vs
        (fun x hx r => roundtrip f x r (hall x hx))
        (fun x hx k hk => ih x k (hall x hx) hk) (k - w) (by omega)
      rw [this]
      split <;> rfl
  | opt kp ru f ih =>
    intro v k h hk
    rcases h with hv | ⟨x, hv, hx⟩
    · subst hv
      simp only [enc, List.length_cons, List.length_nil] at hk
      have : k = 0 := by omega
      subst this
      simp [dec, decG, enc, readFlat]
    · subst hv
      simp only [enc, List.length_cons] at hk
      simp only [dec, decG, enc]
      cases k with
      | zero => simp [readFlat]
      | succ k =>
        have hr : readFlat 1 ([1] ++ (enc f x).take k) = some ([1], (enc f x).take k) :=
          readFlat_append' 1 _ _ rfl
        have : (1 :: enc f x).take (k + 1) = [1] ++ (enc f x).take k := rfl
        have hi := ih x k hx (by omega)
        simp only [dec] at hi
        simp only [this, hr, if_true, hi]
  | tailIf kp a p b iha ihb =>
    intro v k ⟨x, y, hv, hx, hy⟩ hk; subst hv
    rcases hy with ⟨hp, s, hs, hws⟩ | ⟨hp, hs⟩
    · subst hs
      simp only [enc, hp, if_true, List.length_append] at hk
      simp only [dec, decG, enc, hp, if_true]
      rw [List.take_append]
      by_cases h1 : k < (enc a x).length
      · have h0 : k - (enc a x).length = 0 := by omega
        have := iha x k hx h1
        simp only [dec] at this
        simp only [h0, List.take_zero, List.append_nil, this]
      · have hf : (enc a x).take k = enc a x := List.take_of_length_le (by omega)
        have hrt := roundtrip a x ((enc b s).take (k - (enc a x).length)) hx
        simp only [dec] at hrt
        have := ihb s (k - (enc a x).length) hws (by omega)
        simp only [dec] at this
        rw [hf, hrt]
        simp only [hp, if_true, this]
    · subst hs
      have he : enc (.tailIf kp a p b) (.pair x .none) = enc a x := by simp [enc, hp]
      rw [he] at hk ⊢
      have := iha x k hx hk
      simp only [dec] at this
      simp only [dec, decG, this]

/-! ### independence of the chunking -/

/-- A decoder run over two sources related by a map `h` that commutes with reading
    gives related results. -/
theorem decN_hom {σ τ : Type} (d₁ : σ → Option (Val × σ)) (d₂ : τ → Option (Val × τ))
    (h : σ → τ)
    (hd : ∀ s, (d₁ s).map (fun p => (p.1, h p.2)) = d₂ (h s)) :
    ∀ n s, (decN d₁ n s).map (fun p => (p.1, h p.2)) = decN d₂ n (h s) := by
  intro n
  induction n with
  | zero => intro s; simp [decN]
  | succ n ih =>
    intro s
    have h1 := hd s
    cases hs : d₁ s with
    | none => rw [hs] at h1; simp only [Option.map_none] at h1; simp [decN, hs, ← h1]
    | some p =>
      obtain ⟨v, s'⟩ := p
      rw [hs] at h1; simp only [Option.map_some] at h1
      have h2 := ih s'
      cases hs' : decN d₁ n s' with
      | none =>
        rw [hs'] at h2; simp only [Option.map_none] at h2
        simp [decN, hs, ← h1, hs', ← h2]
      | some q =>
        obtain ⟨vs, s''⟩ := q
        rw [hs'] at h2; simp only [Option.map_some] at h2
        simp [decN, hs, ← h1, hs', ← h2]

theorem decG_hom {σ τ : Type} (rd₁ : Nat → σ → Option (List Nat × σ))
    (rd₂ : Nat → τ → Option (List Nat × τ)) (h : σ → τ)
    (hrd : ∀ n s, (rd₁ n s).map (fun p => (p.1, h p.2)) = rd₂ n (h s)) (f : Fmt) :
    ∀ s, (decG rd₁ f s).map (fun p => (p.1, h p.2)) = decG rd₂ f (h s) := by
  induction f with
  | unit => intro s; simp [decG]
  | uint w =>
    intro s
    have h1 := hrd w s
    cases hs : rd₁ w s with
    | none => rw [hs] at h1; simp at h1; simp [decG, hs, ← h1]
    | some p => obtain ⟨bs, s'⟩ := p; rw [hs] at h1; simp at h1; simp [decG, hs, ← h1]
  | raw n =>
    intro s
    have h1 := hrd n s
    cases hs : rd₁ n s with
    | none => rw [hs] at h1; simp at h1; simp [decG, hs, ← h1]
    | some p => obtain ⟨bs, s'⟩ := p; rw [hs] at h1; simp at h1; simp [decG, hs, ← h1]
  | hex2 st =>
    intro s
    have h1 := hrd 2 s
    cases hs : rd₁ 2 s with
    | none => rw [hs] at h1; simp at h1; simp [decG, hs, ← h1]
    | some p =>
      obtain ⟨bs, s'⟩ := p; rw [hs] at h1; simp at h1
      simp only [decG, hs, ← h1]
      match bs with
      | [] => simp
      | [_] => simp
      | [a, b] =>
        cases hp : hexPair a b <;> simp [hp]
      | _ :: _ :: _ :: _ => simp
  | shex2 =>
    intro s
    have h1 := hrd 2 s
    cases hs : rd₁ 2 s with
    | none => rw [hs] at h1; simp at h1; simp [decG, hs, ← h1]
    | some p =>
      obtain ⟨bs, s'⟩ := p; rw [hs] at h1; simp at h1
      simp only [decG, hs, ← h1]
      match bs with
      | [] => simp
      | [_] => simp
      | [a, b] =>
        cases hp : hexPair a b <;> simp [hp]
      | _ :: _ :: _ :: _ => simp
  | framed pre f post ih =>
    intro s
    have h1 := hrd pre.length s
    cases hs : rd₁ pre.length s with
    | none => rw [hs] at h1; simp at h1; simp [decG, hs, ← h1]
    | some p =>
      obtain ⟨bs, s1⟩ := p; rw [hs] at h1; simp at h1
      simp only [decG, hs, ← h1]
      by_cases hb : bs = pre
      · simp only [hb, if_true]
        have h2 := ih s1
        cases hs1 : decG rd₁ f s1 with
        | none => rw [hs1] at h2; simp at h2; simp [← h2]
        | some q =>
          obtain ⟨v, s2⟩ := q; rw [hs1] at h2; simp at h2
          simp only [← h2]
          have h3 := hrd post.length s2
          cases hs2 : rd₁ post.length s2 with
          | none => rw [hs2] at h3; simp at h3; simp [← h3]
          | some r =>
            obtain ⟨cs, s3⟩ := r; rw [hs2] at h3; simp at h3
            simp only [← h3]
            by_cases hc : cs = post <;> simp [hc]
      · simp [hb]
  | pair a b iha ihb =>
    intro s
    have h1 := iha s
    cases hs : decG rd₁ a s with
    | none => rw [hs] at h1; simp at h1; simp [decG, hs, ← h1]
    | some p =>
      obtain ⟨x, s1⟩ := p; rw [hs] at h1; simp at h1
      have h2 := ihb s1
      cases hs1 : decG rd₁ b s1 with
      | none => rw [hs1] at h2; simp at h2; simp [decG, hs, ← h1, hs1, ← h2]
      | some q =>
        obtain ⟨y, s2⟩ := q; rw [hs1] at h2; simp at h2
        simp [decG, hs, ← h1, hs1, ← h2]
  | vec mg w f ih =>
    intro s
    have h1 := hrd w s
    cases hs : rd₁ w s with
    | none => rw [hs] at h1; simp at h1; simp [decG, hs, ← h1]
    | some p =>
      obtain ⟨bs, s1⟩ := p; rw [hs] at h1; simp at h1
      have h2 := decN_hom (decG rd₁ f) (decG rd₂ f) h ih (leVal bs) s1
      by_cases hb : mg = VecKind.block ∧ blockMax < leVal bs
      · simp [decG, hs, ← h1, hb]
      · cases hs1 : decN (decG rd₁ f) (leVal bs) s1 with
        | none => rw [hs1] at h2; simp at h2; simp [decG, hs, ← h1, hs1, ← h2, hb]
        | some q =>
          obtain ⟨vs, s2⟩ := q; rw [hs1] at h2; simp at h2
          simp [decG, hs, ← h1, hs1, ← h2, hb]
  | opt kp ru f ih =>
    intro s
    have h1 := hrd 1 s
    cases hs : rd₁ 1 s with
    | none => rw [hs] at h1; simp at h1; simp [decG, hs, ← h1]
    | some p =>
      obtain ⟨bs, s1⟩ := p; rw [hs] at h1; simp at h1
      simp only [decG, hs, ← h1]
      match bs with
      | [] => simp
      | _ :: _ :: _ => simp
      | [b] =>
        by_cases hb : b = 1
        · simp only [hb, if_true]
          have h2 := ih s1
          cases hs1 : decG rd₁ f s1 with
          | none => rw [hs1] at h2; simp at h2; simp [← h2]
          | some q => obtain ⟨v, s2⟩ := q; rw [hs1] at h2; simp at h2; simp [← h2]
        · simp [hb]
  | tailIf kp a p b iha ihb =>
    intro s
    have h1 := iha s
    cases hs : decG rd₁ a s with
    | none => rw [hs] at h1; simp at h1; simp [decG, hs, ← h1]
    | some q =>
      obtain ⟨x, s1⟩ := q; rw [hs] at h1; simp at h1
      simp only [decG, hs, ← h1]
      by_cases hp : p x = true
      · simp only [hp, if_true]
        have h2 := ihb s1
        cases hs1 : decG rd₁ b s1 with
        | none => rw [hs1] at h2; simp at h2; simp [← h2]
        | some r => obtain ⟨y, s2⟩ := r; rw [hs1] at h2; simp at h2; simp [← h2]
      · simp [hp]

theorem readChunks_flatten (n : Nat) (cs : List (List Nat)) :
    (readChunks n cs).map (fun p => (p.1, p.2.flatten)) = readFlat n cs.flatten := by
  induction cs generalizing n with
  | nil =>
    cases n with
    | zero => simp [readChunks, readFlat]
    | succ n => simp [readChunks, readFlat]
  | cons c cs ih =>
    induction c generalizing n with
    | nil =>
      cases n with
      | zero => simp [readChunks, readFlat]
      | succ n => simp only [readChunks, List.flatten_cons, List.nil_append]; exact ih (n + 1)
    | cons b c ihc =>
      cases n with
      | zero => simp [readChunks, readFlat]
      | succ n =>
        have h1 := ihc n
        simp only [readChunks]
        cases hs : readChunks n (c :: cs) with
        | none =>
          rw [hs] at h1; simp only [Option.map_none] at h1
          simp only [Option.map_none]
          simp only [readFlat, List.flatten_cons, List.length_append, List.cons_append,
            List.length_cons] at h1 ⊢
          split at h1
          · simp at h1
          · rename_i hlt; rw [if_neg (by omega)]
        | some p =>
          obtain ⟨bs, cs'⟩ := p
          rw [hs] at h1; simp only [Option.map_some] at h1
          simp only [Option.map_some]
          simp only [readFlat, List.flatten_cons, List.length_append, List.cons_append,
            List.length_cons] at h1 ⊢
          split at h1
          · rename_i hle
            rw [if_pos (by omega)]
            simp only [Option.some.injEq, Prod.mk.injEq] at h1
            simp only [List.take_succ_cons, List.drop_succ_cons, Option.some.injEq,
              Prod.mk.injEq, List.cons.injEq, true_and]
            exact h1
          · simp at h1

/-- the chunked decoder computes what the flat decoder computes on the concatenation. -/
theorem decC_eq_dec (f : Fmt) (cs : List (List Nat)) :
    (decC f cs).map (fun p => (p.1, p.2.flatten)) = dec f cs.flatten :=
  decG_hom readChunks readFlat List.flatten readChunks_flatten f cs

/-! ### encodings are byte strings -/

/-- literals of a format are bytes -/
def FmtBytes : Fmt → Prop
  | .framed pre f post => IsBytes pre ∧ FmtBytes f ∧ IsBytes post
  | .pair a b => FmtBytes a ∧ FmtBytes b
  | .vec _ _ f => FmtBytes f
  | .opt _ _ f => FmtBytes f
  | .tailIf _ a _ b => FmtBytes a ∧ FmtBytes b
  | _ => True

/-- opaque blocks of a value are bytes -/
def ValBytes : Fmt → Val → Prop
  | .raw _, .bytes bs => IsBytes bs
  | .framed _ f _, v => ValBytes f v
  | .pair a b, .pair x y => ValBytes a x ∧ ValBytes b y
  | .vec _ _ f, .list vs => ∀ x ∈ vs, ValBytes f x
  | .opt _ _ f, .some x => ValBytes f x
  | .tailIf _ a _ b, .pair x (.some s) => ValBytes a x ∧ ValBytes b s
  | .tailIf _ a _ _, .pair x _ => ValBytes a x
  | _, _ => True

theorem isBytes_append {a b : List Nat} (ha : IsBytes a) (hb : IsBytes b) : IsBytes (a ++ b) := by
  intro x hx
  rcases List.mem_append.mp hx with h | h
  · exact ha x h
  · exact hb x h

theorem hexDigit_lt (d : Nat) (h : d < 16) : hexDigit d < 256 := by
  unfold hexDigit; split <;> omega

theorem isBytes_nil : IsBytes [] := by intro b hb; simp at hb

theorem enc_isBytes (f : Fmt) : ∀ v, FmtBytes f → ValBytes f v → IsBytes (enc f v) := by
  induction f with
  | unit => intro v _ _; simpa [enc] using isBytes_nil
  | uint w =>
    intro v _ _
    cases v with
    | num n => exact leBytes_isBytes _ _
    | _ => simpa [enc] using isBytes_nil
  | raw n =>
    intro v _ hv
    cases v with
    | bytes bs => simpa [enc, ValBytes] using hv
    | _ => simpa [enc] using isBytes_nil
  | hex2 st =>
    intro v _ _
    cases v with
    | num n =>
      intro b hb
      simp only [enc, List.mem_cons, List.not_mem_nil, or_false] at hb
      rcases hb with h | h
      · rw [h]; exact hexDigit_lt _ (Nat.mod_lt _ (by decide))
      · rw [h]; exact hexDigit_lt _ (Nat.mod_lt _ (by decide))
    | _ => simpa [enc] using isBytes_nil
  | shex2 =>
    intro v _ _
    cases v with
    | int z =>
      intro b hb
      simp only [enc, List.mem_cons, List.not_mem_nil, or_false] at hb
      rcases hb with h | h
      · rw [h]; exact hexDigit_lt _ (Nat.mod_lt _ (by decide))
      · rw [h]; exact hexDigit_lt _ (Nat.mod_lt _ (by decide))
    | _ => simpa [enc] using isBytes_nil
  | framed pre f post ih =>
    intro v ⟨h1, h2, h3⟩ hv
    simp only [enc]
    exact isBytes_append (isBytes_append h1 (ih v h2 hv)) h3
  | pair a b iha ihb =>
    intro v ⟨h1, h2⟩ hv
    cases v with
    | pair x y =>
      simp only [enc]
      exact isBytes_append (iha x h1 hv.1) (ihb y h2 hv.2)
    | _ => simpa [enc] using isBytes_nil
  | vec mg w f ih =>
    intro v h1 hv
    cases v with
    | list vs =>
      simp only [enc]
      apply isBytes_append (leBytes_isBytes _ _)
      intro b hb
      simp only [List.mem_flatten, List.mem_map] at hb
      obtain ⟨l, ⟨x, hx, hl⟩, hbl⟩ := hb
      subst hl
      exact ih x h1 (hv x hx) b hbl
    | _ => simpa [enc] using isBytes_nil
  | opt kp ru f ih =>
    intro v h1 hv
    cases v with
    | none => intro b hb; simp [enc] at hb; omega
    | some x =>
      intro b hb
      simp only [enc, List.mem_cons] at hb
      rcases hb with h | h
      · omega
      · exact ih x h1 hv b h
    | _ => simpa [enc] using isBytes_nil
  | tailIf kp a p b iha ihb =>
    intro v ⟨h1, h2⟩ hv
    cases v with
    | pair x y =>
      simp only [enc]
      cases y with
      | some s =>
        simp only [ValBytes] at hv
        apply isBytes_append (iha x h1 hv.1)
        split
        · exact ihb s h2 hv.2
        · exact isBytes_nil
      | _ =>
        simp only [ValBytes] at hv
        apply isBytes_append (iha x h1 hv)
        split <;> exact isBytes_nil
    | _ => simpa [enc] using isBytes_nil

/-! ### `wtb` decides `WT` -/

theorem wtb_sound (f : Fmt) : ∀ v, wtb f v = true → WT f v := by
  induction f with
  | unit => intro v h; cases v <;> simp_all [wtb, WT]
  | uint w => intro v h; cases v <;> simp_all [wtb, WT]
  | raw n => intro v h; cases v <;> simp_all [wtb, WT]
  | hex2 st => intro v h; cases v <;> simp_all [wtb, WT]
  | shex2 => intro v h; cases v <;> simp_all [wtb, WT]
  | framed pre f post ih => intro v h; exact ih v (by simpa [wtb] using h)
  | pair a b iha ihb =>
    intro v h
    cases v <;> simp [wtb] at h
    rename_i x y
    exact ⟨x, y, rfl, iha x h.1, ihb y h.2⟩
  | vec mg w f ih =>
    intro v h
    cases v <;> simp [wtb] at h
    rename_i vs
    refine ⟨vs, rfl, h.1.1, ?_, fun x hx => ih x (h.2 x hx)⟩
    intro hk; rcases h.1.2 with h' | h'
    · exact absurd hk h'
    · exact h'
  | opt kp ru f ih =>
    intro v h
    cases v <;> simp [wtb] at h
    · exact Or.inl rfl
    · rename_i x; exact Or.inr ⟨x, rfl, ih x h⟩
  | tailIf kp a p b iha ihb =>
    intro v h
    cases v <;> simp [wtb] at h
    rename_i x y
    refine ⟨x, y, rfl, iha x h.1, ?_⟩
    have h2 := h.2
    cases y <;> simp at h2
    · exact Or.inr ⟨h2, rfl⟩
    · rename_i s; exact Or.inl ⟨h2.1, s, rfl, ihb s h2.2⟩

end Lattigo.Codec
