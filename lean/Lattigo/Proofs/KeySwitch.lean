/-
  C04 — lemmas about key switching (Model/KeySwitch.lean), for every commutative ring:
  the inner product with a generated key has phase `(Σ d·Pg)·s_in + Σ d·e`; division by `P`;
  relinearisation; automorphisms; hoisted = plain.
-/
import Lattigo.Model.KeySwitch
import Lattigo.Proofs.Gadget
import Mathlib.Tactic.Ring
import Mathlib.Algebra.Ring.Hom.Defs
import Mathlib.Algebra.Group.Hom.Defs

set_option linter.unusedSectionVars false

namespace Lattigo.KS

section ring
variable {α : Type} [CommRing α]

/-! ### phase of an inner product -/

theorem phase_dotRow (s : α) : ∀ (d : List α) (k : List (α × α)),
    phase (dotRow 0 d k) s = wsumRow 0 d (k.map fun r => phase r s)
  | [], _ => by simp [dotRow, wsumRow, phase]
  | _ :: _, [] => by simp [dotRow, wsumRow, phase]
  | x :: xs, (b, a) :: ks => by
      have ih := phase_dotRow s xs ks
      simp only [dotRow, wsumRow, List.map_cons, phase] at ih ⊢
      rw [← ih]; ring

theorem phase_dotMat (s : α) : ∀ (d : List (List α)) (k : List (List (α × α))),
    phase (dotMat 0 d k) s = wsumMat 0 d (k.map fun r => r.map fun e => phase e s)
  | [], _ => by simp [dotMat, wsumMat, phase]
  | _ :: _, [] => by simp [dotMat, wsumMat, phase]
  | di :: ds, ei :: es => by
      have ih := phase_dotMat s ds es
      have hr := phase_dotRow s di ei
      simp only [dotMat, wsumMat, List.map_cons, phase] at ih hr ⊢
      rw [← ih, ← hr]; ring

/-! ### the rows of a generated key -/

theorem genRowFrom_phase (pg : Nat → Nat → α) (sIn sOut : α) (i : Nat) :
    ∀ (j : Nat) (row : List (α × α)) (d : List α),
      wsumRow 0 d ((genRowFrom pg sIn sOut i j row).map fun r => phase r sOut)
        = wsumRow 0 d (idxRowFrom pg i j row) * sIn + wsumRow 0 d (row.map Prod.snd)
  | _, [], d => by cases d <;> simp [genRowFrom, idxRowFrom, wsumRow]
  | _, _ :: _, [] => by simp [wsumRow]
  | j, (a, e) :: rest, x :: xs => by
      have ih := genRowFrom_phase pg sIn sOut i (j + 1) rest xs
      simp only [genRowFrom, idxRowFrom, List.map_cons, wsumRow, gadget_row] at ih ⊢
      rw [ih]; ring

theorem genFrom_phase (pg : Nat → Nat → α) (sIn sOut : α) :
    ∀ (i : Nat) (samples : List (List (α × α))) (d : List (List α)),
      wsumMat 0 d ((genFrom pg sIn sOut i samples).map fun r => r.map fun e => phase e sOut)
        = wsumMat 0 d (idxMatFrom pg i samples) * sIn + wsumMat 0 d (eMat samples)
  | _, [], d => by cases d <;> simp [genFrom, idxMatFrom, eMat, wsumMat]
  | _, _ :: _, [] => by simp [wsumMat]
  | i, row :: rest, di :: ds => by
      have ih := genFrom_phase pg sIn sOut (i + 1) rest ds
      have hr := genRowFrom_phase pg sIn sOut i 0 row di
      simp only [genFrom, idxMatFrom, eMat, List.map_cons, wsumMat] at ih hr ⊢
      rw [ih, hr]; ring

/-- **keyswitch_phase (level QP)**: the inner product of ANY digit matrix `d` with a key generated from
    `(a_{ij}, e_{ij})` for `s_in → s_out` has, under `s_out`, the phase
    `(Σ d_{ij}·P·g_{ij})·s_in + Σ d_{ij}·e_{ij}` — the masks `a_{ij}` cancel identically. -/
theorem keyswitch_phase_sum (pg : Nat → Nat → α) (sIn sOut : α) (samples : List (List (α × α)))
    (d : List (List α)) :
    phase (dotMat 0 d (genEvaluationKey pg sIn sOut samples)) sOut
      = wsumMat 0 d (pgMat pg samples) * sIn + wsumMat 0 d (eMat samples) := by
  rw [phase_dotMat]
  exact genFrom_phase pg sIn sOut 0 samples d

/-- under the digit-recombination hypothesis `Σ d_{ij}·(P·g_{ij}) = P·c` (gadget identity):
    `phase = P·c·s_in + Σ d_{ij}·e_{ij}` -/
theorem keyswitch_phase_QP (pg : Nat → Nat → α) (P c sIn sOut : α) (samples : List (List (α × α)))
    (d : List (List α)) (hg : wsumMat 0 d (pgMat pg samples) = P * c) :
    phase (dotMat 0 d (genEvaluationKey pg sIn sOut samples)) sOut
      = P * c * sIn + wsumMat 0 d (eMat samples) := by
  rw [keyswitch_phase_sum, hg]

/-! ### division by P -/

theorem modDown_spec (P pinv xQ rho : α) (h : P * pinv = 1) :
    P * modDown pinv xQ rho = xQ - rho := by
  simp only [modDown]
  calc P * ((xQ - rho) * pinv) = (xQ - rho) * (P * pinv) := by ring
    _ = xQ - rho := by rw [h]; ring

/-- phase after `ModDown`, multiplied back by `P` (no invertibility needed beyond `P·P⁻¹ = 1` in the
    target ring): `P·phase(ks) = phase(x) − (ρ₀ + ρ₁·s)` where `ρ_k` are the centred remainders. -/
theorem modDown_phase (P pinv s x0 x1 rho0 rho1 : α) (h : P * pinv = 1) :
    P * phase (modDown pinv x0 rho0, modDown pinv x1 rho1) s
      = phase (x0, x1) s - (rho0 + rho1 * s) := by
  simp only [phase]
  calc P * (modDown pinv x0 rho0 + modDown pinv x1 rho1 * s)
      = P * modDown pinv x0 rho0 + (P * modDown pinv x1 rho1) * s := by ring
    _ = (x0 - rho0) + (x1 - rho1) * s := by rw [modDown_spec _ _ _ _ h, modDown_spec _ _ _ _ h]
    _ = x0 + x1 * s - (rho0 + rho1 * s) := by ring

end ring

section twoRings
variable {A B : Type} [CommRing A] [CommRing B]

theorem map_phase (π : A →+* B) (ct : A × A) (s : A) :
    π (phase ct s) = phase (π ct.1, π ct.2) (π s) := by
  simp [phase]

/-- **keyswitch_phase**: `A = R_{QP}`, `B = R_Q`, `π` the reduction.  `x` is the lazy gadget product in
    `A`; the key-switched ciphertext is `ks = ((π x₀ − ρ₀)·P⁻¹, (π x₁ − ρ₁)·P⁻¹)` in `B`.  Then
      `P·phase(ks, s_out) = P·c·s_in + (E − ρ₀ − ρ₁·s_out)`   (E = Σ d_{ij} e_{ij}),
    and if that bracket is `P·ν` (the explicit rounding term: `ν = (E − ρ₀ − ρ₁ s)/P`) then
      `phase(ks, s_out) = c·s_in + ν`. -/
theorem keyswitch_phase_modDown (π : A →+* B) (pg : Nat → Nat → A) (P c sIn sOut : A)
    (samples : List (List (A × A))) (d : List (List A)) (pinv rho0 rho1 : B)
    (hg : wsumMat 0 d (pgMat pg samples) = P * c) (hP : π P * pinv = 1) :
    let x := dotMat 0 d (genEvaluationKey pg sIn sOut samples)
    π P * phase (modDown pinv (π x.1) rho0, modDown pinv (π x.2) rho1) (π sOut)
      = π P * (π c * π sIn) + (π (wsumMat 0 d (eMat samples)) - (rho0 + rho1 * π sOut)) := by
  intro x
  rw [modDown_phase _ _ _ _ _ _ _ hP, ← map_phase π x sOut]
  have := keyswitch_phase_QP pg P c sIn sOut samples d hg
  simp only [x] at this ⊢
  rw [this]
  simp only [map_add, map_mul]
  ring

theorem keyswitch_phase (π : A →+* B) (pg : Nat → Nat → A) (P c sIn sOut : A)
    (samples : List (List (A × A))) (d : List (List A)) (pinv rho0 rho1 ν : B)
    (hg : wsumMat 0 d (pgMat pg samples) = P * c) (hP : π P * pinv = 1)
    (hν : π (wsumMat 0 d (eMat samples)) - (rho0 + rho1 * π sOut) = π P * ν) :
    let x := dotMat 0 d (genEvaluationKey pg sIn sOut samples)
    phase (modDown pinv (π x.1) rho0, modDown pinv (π x.2) rho1) (π sOut) = π c * π sIn + ν := by
  intro x
  have h := keyswitch_phase_modDown π pg P c sIn sOut samples d pinv rho0 rho1 hg hP
  simp only at h
  rw [hν] at h
  -- cancel π P using pinv
  have hc : ∀ y z : B, π P * y = π P * z → y = z := by
    intro y z hyz
    calc y = (π P * pinv) * y := by rw [hP]; ring
      _ = pinv * (π P * y) := by ring
      _ = pinv * (π P * z) := by rw [hyz]
      _ = (π P * pinv) * z := by ring
      _ = z := by rw [hP]; ring
  apply hc
  rw [h]; ring

end twoRings

section users
variable {α : Type} [CommRing α]

/-- `applyEvaluationKey`: if the gadget product of `c1` re-encrypts `c1·s_in` under `s_out` up to `ν`, the
    output decrypts under `s_out` to the input's phase under `s_in`, plus `ν`. -/
theorem applyEvaluationKey_phase (ks ct : α × α) (sIn sOut ν : α)
    (hks : phase ks sOut = ct.2 * sIn + ν) :
    phase (applyEvaluationKey ks ct) sOut = phase ct sIn + ν := by
  simp only [phase, applyEvaluationKey] at hks ⊢
  calc ct.1 + ks.1 + ks.2 * sOut = ct.1 + (ks.1 + ks.2 * sOut) := by ring
    _ = ct.1 + ct.2 * sIn + ν := by rw [hks]; ring

/-- **relin_phase**: with a key from `s²` to `s`, the relinearised ciphertext decrypts under `s` to the
    degree-2 phase `c0 + c1·s + c2·s²`, plus `ν`. -/
theorem relin_phase (ks : α × α) (ct : α × α × α) (s ν : α)
    (hks : phase ks s = ct.2.2 * (s * s) + ν) :
    phase (relinearize ks ct) s = ct.1 + ct.2.1 * s + ct.2.2 * (s * s) + ν := by
  simp only [phase, relinearize] at hks ⊢
  calc ct.1 + ks.1 + (ct.2.1 + ks.2) * s = ct.1 + ct.2.1 * s + (ks.1 + ks.2 * s) := by ring
    _ = ct.1 + ct.2.1 * s + ct.2.2 * (s * s) + ν := by rw [hks]; ring

/-- **automorphism_phase**: the Galois key for `g` re-encrypts from `s` to `σ⁻¹(s)` (`GenGaloisKey`);
    applying `σ` afterwards gives a ciphertext under `s` of `σ(phase(ct, s))`, the key-switch noise
    being mapped by `σ` too.  `σ` any ring endomorphism with `σ (σinv s) = s`. -/
theorem automorphism_phase (σ : α →+* α) (σinv : α → α) (ks ct : α × α) (s ν : α)
    (hinv : σ (σinv s) = s)
    (hks : phase ks (σinv s) = ct.2 * s + ν) :
    phase (automorphism σ ks ct) s = σ (phase ct s) + σ ν := by
  simp only [phase, automorphism] at hks ⊢
  calc σ (ks.1 + ct.1) + σ ks.2 * s
      = σ (ks.1 + ct.1) + σ ks.2 * σ (σinv s) := by rw [hinv]
    _ = σ (ct.1 + (ks.1 + ks.2 * σinv s)) := by simp only [map_add, map_mul]; ring
    _ = σ (ct.1 + ct.2 * s) + σ ν := by rw [hks]; simp only [map_add, map_mul]; ring

/-- `AutomorphismHoistedLazy` (level QP, scaled by `P`): `phase = σ(P·phase(ct, s) + E)` -/
theorem automorphismHoistedLazy_phase (σ : α →+* α) (σinv : α → α) (x : α × α) (P c0 c1 s E : α)
    (hinv : σ (σinv s) = s)
    (hx : phase x (σinv s) = P * c1 * s + E) :
    phase (automorphismHoistedLazy σ x (P * c0)) s = σ (P * phase (c0, c1) s + E) := by
  simp only [phase, automorphismHoistedLazy] at hx ⊢
  calc σ (x.1 + P * c0) + σ x.2 * s
      = σ (x.1 + P * c0) + σ x.2 * σ (σinv s) := by rw [hinv]
    _ = σ (P * c0 + (x.1 + x.2 * σinv s)) := by simp only [map_add, map_mul]; ring
    _ = σ (P * (c0 + c1 * s) + E) := by rw [hx]; congr 1; ring

end users

/-! ### ring-degree switch -/

section degree
variable {A β : Type} [CommRing A] [CommRing β]

/-- small → large: `ι : Y ↦ X^{N/n}` is a ring homomorphism; the output decrypts under `s_large` to the
    embedded phase of the input. -/
theorem applyEvaluationKeyUp_phase (ι : β →+* A) (ksOf : A → A × A) (ct : β × β) (sS : β) (sL ν : A)
    (hks : phase (ksOf (ι ct.2)) sL = ι ct.2 * ι sS + ν) :
    phase (applyEvaluationKeyUp ι ksOf ct) sL = ι (phase ct sS) + ν := by
  simp only [applyEvaluationKeyUp]
  rw [applyEvaluationKey_phase (ksOf (ι ct.2)) (ι ct.1, ι ct.2) (ι sS) sL ν hks]
  simp [phase]

/-- large → small: `ρ` (keep the coefficients of `X^{k·N/n}`) is additive and `R_small`-linear
    (`ρ(x·ι(s)) = ρ(x)·s`); the output decrypts under `s_small` to `ρ` of the input's phase. -/
theorem applyEvaluationKeyDown_phase (ι : β → A) (ρ : A →+ β) (hρ : ∀ x s, ρ (x * ι s) = ρ x * s)
    (ks ct : A × A) (sL : A) (sS : β) (ν : A)
    (hks : phase ks (ι sS) = ct.2 * sL + ν) :
    phase (applyEvaluationKeyDown ρ ks ct) sS = ρ (phase ct sL) + ρ ν := by
  have h := applyEvaluationKey_phase ks ct sL (ι sS) ν hks
  simp only [applyEvaluationKeyDown]
  simp only [phase] at h ⊢
  rw [← hρ, ← map_add, h, map_add]

end degree

/-! ### hoisted = plain -/

section hoisted
variable {α : Type} [Add α] [Mul α] [Neg α] [Sub α]

theorem take_one_of_length_one {β : Type} : ∀ (r : List β), r.length = 1 → r.take 1 = r
  | [_], _ => rfl
  | [], h => by simp at h
  | _ :: _ :: _, h => by simp at h

theorem map_take_one_eq {β : Type} (m : List (List β)) (h : ∀ r ∈ m, r.length = 1) :
    m.map (fun r => r.take 1) = m := by
  induction m with
  | nil => rfl
  | cons r rest ih =>
    simp only [List.map_cons]
    rw [take_one_of_length_one r (h r (by simp)), ih (fun r' hr' => h r' (by simp [hr']))]

/-- **hoisted_eq_plain** (generic form): when every key row has exactly one entry (the only case the
    code accepts: `BaseTwoDecomposition = 0`), the hoisted product is the plain inner product with the
    singleton digit rows. -/
theorem gadgetProductHoistedLazy_eq (z : α) (decomp : List α) (evk : List (List (α × α)))
    (h : ∀ r ∈ evk, r.length = 1) :
    gadgetProductHoistedLazy z decomp evk = dotMat z (decomp.map fun d => [d]) evk := by
  simp only [gadgetProductHoistedLazy]
  rw [map_take_one_eq evk h]

end hoisted

end Lattigo.KS
