/-
  C11 proofs: the hoisted-lazy rotation (`AutomorphismHoistedLazy` + `ModDown`, the path of
  `RotateHoistedLazyNew` and of the linear transformations) on the executable `RPoly` model of C04
  (`KS.scaleByP`, `KS.modDownR`, `KS.automorphismHoistedLazy`, `KS.automorphism`).

  `AutomorphismHoistedLazy` adds `F·c0` to the Q rows of the (undivided) gadget product, which lives modulo
  `Q·P_key` where `P_key = Π ps` is the product of the auxiliary primes OF THE KEY (`evk.LevelP()`), and the
  caller divides by `P_key` (`ModDown`).  Here: for every factor `F`
      ModDown (x + F·c0 on the Q rows) = ModDown x + (F·P_key⁻¹)·c0,
  so the result contains `c0` itself exactly when `F = P_key` — the factor of the key's own level, not the
  product of all auxiliary primes of the parameters.
-/
import Lattigo.Proofs.StackKSNoise
import Lattigo.Proofs.KeySwitch

namespace Lattigo.Proofs.HoistedLazy
open Lattigo Lattigo.RPolyRing Lattigo.Transport Lattigo.KS Lattigo.StackKS

variable {qs ps : List ℕ} {n : ℕ}

/-- `MulScalarBigint(ctIn.Value[0], F, ctTmp.Value[1].Q)` followed by the addition on the Q rows only:
    `F·c0` on the rows of `Q`, zero on the rows of `P_key`. -/
def scaleQRows (F : ℕ) (ps : List ℕ) (c0 : RPoly) : RPoly :=
  let n := (c0.c.headD []).length
  let s := c0.scale F
  { qs := s.qs ++ ps, c := s.c ++ ps.map fun _ => List.replicate n 0 }

/-- the model's `scaleByP` (what the driver executes) is the instance `F = Π ps` -/
theorem scaleQRows_prod (ps : List ℕ) (c0 : RPoly) : scaleQRows (RPoly.prod ps) ps c0 = KS.scaleByP ps c0 := rfl

theorem scale_headD (c0 : RPoly) (h : WFq qs n c0) (hqs : qs ≠ []) :
    (c0.c.headD []).length = n := headD_length h hqs

theorem scaleQRows_eq_extZ [Good qs n] (F : ℕ) {c0 : RPoly} (h : WFq qs n c0) (hqs : qs ≠ []) :
    scaleQRows F ps c0 = extZ ps n (c0.scale F) := by
  unfold scaleQRows extZ zeroRow
  simp only [headD_length h hqs]

theorem scaleQRows_wf [Good qs n] [Good (qs ++ ps) n] (F : ℕ) {c0 : RPoly} (h : WFq qs n c0) (hqs : qs ≠ []) :
    WFq (qs ++ ps) n (scaleQRows F ps c0) := by
  rw [scaleQRows_eq_extZ F h hqs]; exact extZ_wf ps (h.scale F)

theorem takeRows_scaleQRows [Good qs n] (F : ℕ) {c0 : RPoly} (h : WFq qs n c0) (hqs : qs ≠ []) :
    takeRows qs.length (scaleQRows F ps c0) = c0.scale F := by
  rw [scaleQRows_eq_extZ F h hqs]; exact takeRows_extZ ps (h.scale F)

theorem partP_scaleQRows [Good qs n] (F : ℕ) {c0 : RPoly} (h : WFq qs n c0) (hqs : qs ≠ []) :
    KS.partP qs.length (scaleQRows F ps c0) = RPoly.zero ps n := by
  rw [scaleQRows_eq_extZ F h hqs]
  have hl : (c0.scale F).c.length = qs.length := by
    have := (h.scale F); rw [this.2.1, this.1]
  have hq : (c0.scale F).qs = qs := (h.scale F).1
  unfold extZ KS.partP RPoly.zero zeroRow
  simp only [hq, List.drop_left' rfl]
  rw [← hl, List.drop_left' rfl]

/-- **the P-factor of the lazy automorphism.**  For well-formed `x ∈ R_{Q·P_key}` and `c0 ∈ R_Q`, every `F`:
    `ModDown(x + F·c0|_Q) = ModDown(x) + (F·c0)·P_key⁻¹`. -/
theorem modDown_add_scaleQRows [Good qs n] [Good (qs ++ ps) n] (hqs : qs ≠ []) (hps : ps ≠ [])
    (F : ℕ) {x c0 : RPoly} (hx : WFq (qs ++ ps) n x) (hc : WFq qs n c0) :
    KS.modDownR qs.length (x + scaleQRows F ps c0)
      = KS.modDownR qs.length x + c0.scale F * KS.pinvElt qs ps n := by
  have hs := scaleQRows_wf (ps := ps) F hc hqs
  rw [modDownR_eq hqs hps (hx.add hs), modDownR_eq hqs hps hx]
  rw [(takeRows_hom qs.length).add, (partP_hom qs.length).add, takeRows_scaleQRows F hc hqs,
    partP_scaleQRows F hc hqs]
  -- the P part is unchanged
  have hP0 : KS.partP qs.length x + RPoly.zero ps n = KS.partP qs.length x := by
    have : Good ps n := ⟨(inferInstance : Good (qs ++ ps) n).n_pos,
      fun q hq => (inferInstance : Good (qs ++ ps) n).q_ge q (List.mem_append_right _ hq)⟩
    obtain ⟨y, hy⟩ := exists_lift _ (partP_wf hx)
    rw [← hy]
    show val y + val (0 : WFPoly ps n) = val y
    rw [← val_add, add_zero]
  rw [hP0]
  -- ring algebra in R_Q
  obtain ⟨a, ha⟩ := exists_lift _ (takeRows_wf hx)
  obtain ⟨ρ, hρ⟩ := exists_lift _ (modUpPtoQ_wf (qs := qs) hx hps)
  obtain ⟨s, hs'⟩ := exists_lift _ (hc.scale F)
  obtain ⟨I, hI⟩ := exists_lift _ (pinvElt_wf (qs := qs) (n := n) ps)
  rw [← ha, ← hρ, ← hs', ← hI]
  show val ((a + s - ρ) * I) = val ((a - ρ) * I + s * I)
  congr 1; ring

/-- **`F = P_key`: the key's own level.**  `ModDown(x + scaleByP ps c0) = ModDown(x) + c0`:
    the lazy path returns exactly what the non-lazy path (`ModDown` first, then `+ c0`) returns. -/
theorem modDown_add_scaleByP [Good qs n] [Good (qs ++ ps) n] (hqs : qs ≠ []) (hps : ps ≠ [])
    (hcop : ∀ q ∈ qs, Nat.Coprime (RPoly.prod ps) q) {x c0 : RPoly} (hx : WFq (qs ++ ps) n x)
    (hc : WFq qs n c0) :
    KS.modDownR qs.length (x + KS.scaleByP ps c0) = KS.modDownR qs.length x + c0 := by
  rw [← scaleQRows_prod, modDown_add_scaleQRows hqs hps _ hx hc]
  congr 1
  obtain ⟨c, hc'⟩ := exists_lift _ hc
  have h1 := pinvElt_mul_constQ (qs := qs) (n := n) hcop
  obtain ⟨I, hI⟩ := exists_lift _ (pinvElt_wf (qs := qs) (n := n) ps)
  rw [constQ_eq, ← hI] at h1
  have h1' : I * WFPoly.constNat (fun _ => RPoly.prod ps) = 1 := val_injective h1
  have hcn : (WFPoly.constNat (qs := qs) (n := n) fun _ => RPoly.prod ps) = ((RPoly.prod ps : ℕ) : WFPoly qs n) := by
    apply WFPoly.toProd_injective
    funext i
    rw [WFPoly.toProd_constNat]
    have h2 : WFPoly.toProd ((RPoly.prod ps : ℕ) : WFPoly qs n) = ((RPoly.prod ps : ℕ) : WFPoly.Prod qs n) :=
      map_natCast WFPoly.toProdHom _
    rw [h2]; rfl
  rw [← hc', ← hI]
  show val (c.scale (RPoly.prod ps) * I) = val c
  congr 1
  rw [WFPoly.scale_eq_mul_natCast, ← hcn, mul_assoc, mul_comm _ I, h1', mul_one]

/-- **a different factor is wrong.**  If `AutomorphismHoistedLazy` scales `c0` by `F = P_key·P'`
    (e.g. the product of ALL auxiliary primes of the parameters while the key has fewer), `ModDown` returns
    `ModDown(x) + P'·c0` instead of `ModDown(x) + c0`. -/
theorem modDown_add_scaleQRows_mul [Good qs n] [Good (qs ++ ps) n] (hqs : qs ≠ []) (hps : ps ≠ [])
    (hcop : ∀ q ∈ qs, Nat.Coprime (RPoly.prod ps) q) (P' : ℕ) {x c0 : RPoly} (hx : WFq (qs ++ ps) n x)
    (hc : WFq qs n c0) :
    KS.modDownR qs.length (x + scaleQRows (RPoly.prod ps * P') ps c0)
      = KS.modDownR qs.length x + c0.scale P' := by
  have h1 := modDown_add_scaleByP hqs hps hcop hx (hc.scale P')
  have e : scaleQRows (RPoly.prod ps * P') ps c0 = KS.scaleByP ps (c0.scale P') := by
    rw [← scaleQRows_prod]
    have hh : ((c0.scale P').c.headD []).length = (c0.c.headD []).length := by
      rw [headD_length (hc.scale P') hqs, headD_length hc hqs]
    have hsc : (c0.scale P').scale (RPoly.prod ps) = c0.scale (RPoly.prod ps * P') := by
      obtain ⟨c, hc'⟩ := exists_lift _ hc
      rw [← hc']
      show val ((c.scale P').scale (RPoly.prod ps)) = val (c.scale (RPoly.prod ps * P'))
      congr 1
      rw [WFPoly.scale_eq_mul_natCast, WFPoly.scale_eq_mul_natCast, WFPoly.scale_eq_mul_natCast]
      push_cast; ring
    unfold scaleQRows
    simp only [hh, hsc]
  rw [e, h1]

/-! ### with the automorphism -/

/-- **lazy + `ModDown` = hoisted.**  `AutomorphismHoistedLazy` (model: `σ` applied after adding
    `scaleByP ps c0`) followed by `ModDown` of both components equals `Automorphism{,Hoisted}` applied to the
    `ModDown`-ed gadget product, provided `ModDown` commutes with `σ` on the two polynomials at hand
    (pointwise hypotheses `h0`, `h1`; `σ'` is `σ` at level `Q`).  No hypothesis for `σ = id`. -/
theorem hoistedLazy_modDown [Good qs n] [Good (qs ++ ps) n] (hqs : qs ≠ []) (hps : ps ≠ [])
    (hcop : ∀ q ∈ qs, Nat.Coprime (RPoly.prod ps) q) (σ σ' : RPoly → RPoly) {x0 x1 c0 : RPoly}
    (hx0 : WFq (qs ++ ps) n x0) (hc : WFq qs n c0)
    (h0 : KS.modDownR qs.length (σ (x0 + KS.scaleByP ps c0)) = σ' (KS.modDownR qs.length (x0 + KS.scaleByP ps c0)))
    (h1 : KS.modDownR qs.length (σ x1) = σ' (KS.modDownR qs.length x1)) :
    (let r := KS.automorphismHoistedLazy σ (x0, x1) (KS.scaleByP ps c0)
     (KS.modDownR qs.length r.1, KS.modDownR qs.length r.2))
      = KS.automorphism σ' (KS.modDownR qs.length x0, KS.modDownR qs.length x1) (c0, c0) := by
  simp only [KS.automorphismHoistedLazy, KS.automorphism]
  rw [h0, h1, modDown_add_scaleByP hqs hps hcop hx0 hc]

end Lattigo.Proofs.HoistedLazy
