/-
  C15 — the regenerated tie for the RNS-scalar arithmetic: the definitions of
  `Lattigo/Gen/Scalar.lean` (printed by tools/go2lean from ring/utils.go `ModexpMontgomery` and the
  per-modulus loop bodies of ring/scalar.go on every run) against the residue-level functions of the
  hand-written model `Model/Shamir.lean`, via the word-level specifications of C01
  (`MRed_spec`, `MRedLazy_spec`, `MForm_spec`).

  The model works on canonical residues, the code on (lazily reduced) Montgomery words; the
  refinement relation is  `word % q = (residue · 2^64) % q`  (`Mont q a x`).
-/
import Lattigo.Gen.Scalar
import Lattigo.Model.Shamir
import Lattigo.Proofs.ModRed
import Lattigo.Proofs.LoopWhile
import Mathlib.FieldTheory.Finite.Basic

namespace Lattigo.Proofs.GenScalar
open Lattigo Lattigo.Model.Shamir Lattigo.Proofs.LoopWhile

/-- `x` is a Montgomery representative of the residue `a` modulo `q`. -/
def Mont (q a x : Nat) : Prop := x % q = (a * W) % q

theorem cast_of_mod {q A B : Nat} (h : A % q = B % q) : (A : ZMod q) = (B : ZMod q) :=
  (ZMod.natCast_eq_natCast_iff' A B q).mpr h

theorem mod_of_cast {q A B : Nat} (h : (A : ZMod q) = (B : ZMod q)) : A % q = B % q :=
  (ZMod.natCast_eq_natCast_iff' A B q).mp h

theorem Mont.cast {q a x : Nat} (h : Mont q a x) : (x : ZMod q) = (a : ZMod q) * (W : ZMod q) := by
  have := cast_of_mod h; rwa [Nat.cast_mul] at this

theorem Mont.of_cast {q a x : Nat} (h : (x : ZMod q) = (a : ZMod q) * (W : ZMod q)) : Mont q a x := by
  apply mod_of_cast; rw [Nat.cast_mul]; exact h

theorem W_unit {q qinv : Nat} (hm : MontConst q qinv) : IsUnit ((W : Nat) : ZMod q) :=
  (ZMod.isUnit_iff_coprime W q).mpr hm.coprime.symm

/-! ### word primitives -/

theorem u64sub_two (q : Nat) (h2 : 2 ≤ q) (hW : q ≤ W) : u64sub q 2 = q - 2 := by
  unfold u64sub; unfold W at *; omega

theorem i64gt_zero (i : Nat) (hi : i < 2 ^ 63) : i64gt i 0 = decide (0 < i) := by
  have h : i64toInt i = (i : Int) := by unfold i64toInt; rw [if_pos (by omega)]
  have h0 : i64toInt 0 = 0 := by unfold i64toInt; simp
  simp only [i64gt, h, h0]
  congr 1
  exact propext Int.natCast_pos

theorem i64gt_zero_neg (i : Nat) (hi : 2 ^ 63 ≤ i) (hW : i < W) : i64gt i 0 = false := by
  have h : i64toInt i = (i : Int) - 18446744073709551616 := by unfold i64toInt; rw [if_neg (by omega)]
  have h0 : i64toInt 0 = 0 := by unfold i64toInt; simp
  simp only [i64gt, h, h0, decide_eq_false_iff_not]
  unfold W at hW
  omega

theorem i64shr_one (i : Nat) (hi : i < 2 ^ 63) : i64shr i 1 = i / 2 := by
  unfold i64shr; rw [if_pos (by omega)]

theorem and_one (i : Nat) : u64and i 1 = i % 2 := by
  unfold u64and; exact Nat.and_one_is_mod i

/-! ### C01's word-level specifications, read in `ZMod q` -/

theorem MRed_cast (x y q qinv : Nat) (h2q : 2 * q ≤ W) (hm : MontConst q qinv) (hxy : x * y < q * W) :
    ((Gen.MRed x y q qinv : Nat) : ZMod q) * (W : ZMod q) = (x : ZMod q) * (y : ZMod q) := by
  have := cast_of_mod (MRed_spec x y q qinv h2q hm hxy).1
  rwa [Nat.cast_mul, Nat.cast_mul] at this

theorem MRedLazy_cast (x y q qinv : Nat) (h2q : 2 * q ≤ W) (hm : MontConst q qinv) (hxy : x * y < q * W) :
    ((Gen.MRedLazy x y q qinv : Nat) : ZMod q) * (W : ZMod q) = (x : ZMod q) * (y : ZMod q) := by
  have := cast_of_mod (MRedLazy_spec x y q qinv h2q hm hxy).1
  rwa [Nat.cast_mul, Nat.cast_mul] at this

theorem mul_lt_of_lt {x y q : Nat} (hx : x < q) (hy : y < W) : x * y < q * W :=
  Nat.mul_lt_mul_of_lt_of_le hx (Nat.le_of_lt hy) (by unfold W; omega)

/-! ### `ring.ModexpMontgomery` -/

/-- condition of `for i := e; i > 0; i >>= 1` with `i` a Go `int`, on the state `(i, result, x)`. -/
def mexpCond : Nat × Nat × Nat → Bool := fun st => i64gt st.1 0

/-- body (+ post statement) of the loop of `ring.ModexpMontgomery`. -/
def mexpBody (q qinv : Nat) : Nat × Nat × Nat → Nat × Nat × Nat := fun st =>
  (i64shr st.1 1,
   if u64eq (u64and st.1 1) 1 then Gen.MRed st.2.1 st.2.2 q qinv else st.2.1,
   Gen.MRed st.2.2 st.2.2 q qinv)

/-- the generated `ModexpMontgomery` is this loop (definitional unfolding of the printed `let`s). -/
theorem Modexp_unfold (x e q qinv : Nat) (bc : Nat × Nat) :
    Gen.ModexpMontgomery x e q qinv bc
      = (loopWhile 64 mexpCond (mexpBody q qinv) (e, Gen.MForm 1 q bc, x)).2.1 := rfl

/-- loop invariant: the final `result` `R` satisfies `R·W^i = r·x^i` (mod `q`), and is reduced. -/
theorem mexp_loop (q qinv : Nat) (h2q : 2 * q ≤ W) (hm : MontConst q qinv) :
    ∀ fuel i r x, i < 2 ^ fuel → i < 2 ^ 63 → r < q → x < q →
      (loopWhile fuel mexpCond (mexpBody q qinv) (i, r, x)).2.1 < q ∧
      (((loopWhile fuel mexpCond (mexpBody q qinv) (i, r, x)).2.1 : Nat) : ZMod q) * (W : ZMod q) ^ i
        = (r : ZMod q) * (x : ZMod q) ^ i := by
  intro fuel
  induction fuel with
  | zero =>
    intro i r x hi _ hr _
    have : i = 0 := by simpa using hi
    subst this
    exact ⟨hr, by simp [loopWhile]⟩
  | succ f ih =>
    intro i r x hi hi63 hr hx
    rw [loopWhile_succ]
    have hqW : q < W := by omega
    by_cases h0 : i = 0
    · subst h0
      have : mexpCond (0, r, x) = false := by simp [mexpCond, i64gt_zero 0 (by norm_num)]
      rw [this]
      exact ⟨hr, by simp⟩
    · have hc : mexpCond (i, r, x) = true := by
        simp only [mexpCond, i64gt_zero i hi63, decide_eq_true_eq]; omega
      rw [hc, if_pos rfl]
      have hb : mexpBody q qinv (i, r, x)
          = (i / 2, (if i % 2 = 1 then Gen.MRed r x q qinv else r), Gen.MRed x x q qinv) := by
        simp only [mexpBody, and_one, i64shr_one i hi63, decide_eq_true_eq]
      rw [hb]
      have hxx := MRed_spec x x q qinv h2q hm (mul_lt_of_lt hx (by omega))
      have hrx := MRed_spec r x q qinv h2q hm (mul_lt_of_lt hr (by omega))
      have cxx := MRed_cast x x q qinv h2q hm (mul_lt_of_lt hx (by omega))
      have crx := MRed_cast r x q qinv h2q hm (mul_lt_of_lt hr (by omega))
      have hr' : (if i % 2 = 1 then Gen.MRed r x q qinv else r) < q := by
        split
        · exact hrx.2
        · exact hr
      obtain ⟨hlt, heq⟩ := ih (i / 2) _ _ (by rw [Nat.pow_succ] at hi; omega) (by omega) hr' hxx.2
      refine ⟨hlt, ?_⟩
      generalize ((loopWhile f mexpCond (mexpBody q qinv)
        (i / 2, (if i % 2 = 1 then Gen.MRed r x q qinv else r), Gen.MRed x x q qinv)).2.1 : Nat) = R at heq ⊢
      have hi2 : i = 2 * (i / 2) + i % 2 := by omega
      -- multiply the induction hypothesis by W^(i/2): (x'·W)^(i/2) = x^(2·(i/2))
      have key : (R : ZMod q) * (W : ZMod q) ^ (2 * (i / 2))
          = ((if i % 2 = 1 then Gen.MRed r x q qinv else r : Nat) : ZMod q) * (x : ZMod q) ^ (2 * (i / 2)) := by
        calc (R : ZMod q) * (W : ZMod q) ^ (2 * (i / 2))
            = ((R : ZMod q) * (W : ZMod q) ^ (i / 2)) * (W : ZMod q) ^ (i / 2) := by ring
          _ = ((if i % 2 = 1 then Gen.MRed r x q qinv else r : Nat) : ZMod q)
                * (((Gen.MRed x x q qinv : Nat) : ZMod q) * (W : ZMod q)) ^ (i / 2) := by rw [heq]; ring
          _ = _ := by rw [cxx]; ring
      by_cases hodd : i % 2 = 1
      · rw [if_pos hodd] at key
        conv_lhs => rw [hi2, hodd, pow_succ]
        conv_rhs => rw [hi2, hodd, pow_succ]
        calc (R : ZMod q) * ((W : ZMod q) ^ (2 * (i / 2)) * (W : ZMod q))
            = ((R : ZMod q) * (W : ZMod q) ^ (2 * (i / 2))) * (W : ZMod q) := by ring
          _ = (((Gen.MRed r x q qinv : Nat) : ZMod q) * (W : ZMod q)) * (x : ZMod q) ^ (2 * (i / 2)) := by
              rw [key]; ring
          _ = _ := by rw [crx]; ring
      · have hev : i % 2 = 0 := by omega
        rw [if_neg hodd] at key
        conv_lhs => rw [hi2, hev, Nat.add_zero]
        conv_rhs => rw [hi2, hev, Nat.add_zero]
        exact key

/-- **word-level specification of the regenerated `ModexpMontgomery`** (exponent a non-negative
    Go `int`): the result `R` is reduced and `R·W^e ≡ W·x^e (mod q)`. -/
theorem Modexp_spec (x e q qinv : Nat) (hq : 1 < q) (h2q : 2 * q ≤ W) (hm : MontConst q qinv)
    (hx : x < q) (he : e < 2 ^ 63) :
    Gen.ModexpMontgomery x e q qinv (brc q) < q ∧
    (Gen.ModexpMontgomery x e q qinv (brc q) * W ^ e) % q = (W * x ^ e) % q := by
  rw [Modexp_unfold]
  have h1 : Gen.MForm 1 q (brc q) = (1 * W) % q := MForm_spec 1 q hq h2q (by unfold W; omega)
  have hr : Gen.MForm 1 q (brc q) < q := by rw [h1]; exact Nat.mod_lt _ (by omega)
  obtain ⟨hlt, heq⟩ := mexp_loop q qinv h2q hm 64 e _ x (by omega) he hr hx
  refine ⟨hlt, ?_⟩
  apply mod_of_cast
  simp only [Nat.cast_mul, Nat.cast_pow]
  rw [heq, h1, Nat.one_mul, ZMod.natCast_mod]

/-- a negative exponent (word `≥ 2^63`): the loop does not run, the result is `MForm(1)`. -/
theorem Modexp_neg (x e q qinv : Nat) (bc : Nat × Nat) (he : 2 ^ 63 ≤ e) (heW : e < W) :
    Gen.ModexpMontgomery x e q qinv bc = Gen.MForm 1 q bc := by
  rw [Modexp_unfold, loopWhile_of_false]
  simp only [mexpCond, i64gt_zero_neg e he heW]

/-- rule S of the printer, checked for this loop: every fuel `≥ 64` gives the same final state. -/
theorem Modexp_fuel (q qinv e r x : Nat) (he : e < W) (m : Nat) (hm64 : 64 ≤ m) :
    loopWhile m mexpCond (mexpBody q qinv) (e, r, x) = loopWhile 64 mexpCond (mexpBody q qinv) (e, r, x) := by
  by_cases hneg : 2 ^ 63 ≤ e
  · rw [loopWhile_of_false m, loopWhile_of_false 64] <;>
      simp only [mexpCond, i64gt_zero_neg e hneg he]
  · refine loopWhile_fuel mexpCond (mexpBody q qinv) (fun n st => st.1 < 2 ^ n ∧ st.1 < 2 ^ 63) ?_ ?_ 64
      (e, r, x) ⟨by simpa [W] using he, by omega⟩ m hm64
    · intro s hs
      have : s.1 = 0 := by simpa using hs.1
      simp [mexpCond, this, i64gt_zero 0 (by norm_num)]
    · intro n s hs _
      simp only [mexpBody, i64shr_one s.1 hs.2]
      have := hs.1
      rw [Nat.pow_succ] at this
      omega

/-! ### the model's `powLoop` / `powMod` in `ZMod q` (no primality needed) -/

theorem cast_powLoop' (q : Nat) : ∀ fuel e x r, e ≤ fuel →
    ((powLoop q fuel e x r : Nat) : ZMod q) = (r : ZMod q) * (x : ZMod q) ^ e := by
  intro fuel
  induction fuel with
  | zero => intro e x r hf; have : e = 0 := by omega
            subst this; simp [powLoop]
  | succ f ih =>
    intro e x r hf
    rw [powLoop]
    split
    · next h => subst h; simp
    · next h =>
      rw [ih _ _ _ (by omega)]
      have he : e = 2 * (e / 2) + e % 2 := by omega
      have hx : ((x * x % q : Nat) : ZMod q) = (x : ZMod q) ^ 2 := by
        rw [ZMod.natCast_mod, Nat.cast_mul, sq]
      rw [hx, ← pow_mul]
      split
      · next h1 =>
        rw [ZMod.natCast_mod, Nat.cast_mul]
        conv_rhs => rw [he, h1, pow_add, pow_one]
        ring
      · next h1 =>
        have h0 : e % 2 = 0 := by omega
        conv_rhs => rw [he, h0, add_zero]

theorem cast_powMod' (q x e : Nat) : ((powMod q x e : Nat) : ZMod q) = (x : ZMod q) ^ e := by
  unfold powMod
  rw [cast_powLoop' q _ _ _ _ (Nat.le_refl e), ZMod.natCast_mod, Nat.cast_one, one_mul]

/-- **`powMod` refined by the regenerated `ModexpMontgomery`**: on a Montgomery representative `x`
    of `a`, the result is the (reduced) Montgomery representative of `powMod q a e`. -/
theorem powMod_refines (x a e q qinv : Nat) (hq : 1 < q) (h2q : 2 * q ≤ W) (hm : MontConst q qinv)
    (hx : x < q) (he : e < 2 ^ 63) (hxa : Mont q a x) :
    Gen.ModexpMontgomery x e q qinv (brc q) < q ∧
    Mont q (powMod q a e) (Gen.ModexpMontgomery x e q qinv (brc q)) := by
  obtain ⟨hlt, hs⟩ := Modexp_spec x e q qinv hq h2q hm hx he
  refine ⟨hlt, Mont.of_cast ?_⟩
  have hs' := cast_of_mod hs
  simp only [Nat.cast_mul, Nat.cast_pow] at hs'
  rw [cast_powMod']
  have hu : IsUnit (((W : Nat) : ZMod q) ^ e) := (W_unit hm).pow e
  apply hu.mul_right_cancel
  rw [hs', hxa.cast]
  ring

/-! ### the per-modulus bodies of ring/scalar.go -/

/-- `NewRNSScalarFromUInt64`: `rns[i] = v % s.Modulus`. -/
theorem NewRNSScalarFromUInt64_body_eq (q mrc : Nat) (bc : Nat × Nat) (v : Nat) :
    Gen.NewRNSScalarFromUInt64_body q mrc bc v = v % q := rfl

/-- **`subMod` = the regenerated body of `SubRNSScalar`** on reduced operands (any previous `sout[i]`). -/
theorem SubRNSScalar_body_eq (q mrc : Nat) (bc : Nat × Nat) (a b o : Nat) (hqW : q ≤ W) (ha : a < q) (hb : b < q) :
    Gen.SubRNSScalar_body q mrc bc a b o = subMod q a b := by
  unfold Gen.SubRNSScalar_body subMod
  simp only [u64sub, u64add, decide_eq_true_eq]
  unfold W at *
  split <;> omega

/-- `NegRNSScalar`: `s2[i] = s.Modulus - s1[i]` (note `0 ↦ q`, not reduced). -/
theorem NegRNSScalar_body_eq (q mrc : Nat) (bc : Nat × Nat) (a o : Nat) (hqW : q < W) (ha : a ≤ q) :
    Gen.NegRNSScalar_body q mrc bc a o = q - a := by
  unfold Gen.NegRNSScalar_body
  simp only [u64sub]
  unfold W at *
  omega

/-- `MFormRNSScalar`: `s2[i] = MForm(s1[i])`, the reduced Montgomery representative of `s1[i]`. -/
theorem MFormRNSScalar_body_spec (q mrc : Nat) (a o : Nat) (hq : 1 < q) (h2q : 2 * q ≤ W) (ha : a < W) :
    Gen.MFormRNSScalar_body q mrc (brc q) a o < q ∧ Mont q a (Gen.MFormRNSScalar_body q mrc (brc q) a o) := by
  have h : Gen.MFormRNSScalar_body q mrc (brc q) a o = (a * W) % q := MForm_spec a q hq h2q ha
  rw [h]
  exact ⟨Nat.mod_lt _ (by omega), by unfold Mont; rw [Nat.mod_mod]⟩

/-- `MulRNSScalar`: `sout[i] = MRedLazy(s1[i], s2[i])` — C01's `MRedLazy_spec` read on the body. -/
theorem MulRNSScalar_body_spec (q qinv : Nat) (bc : Nat × Nat) (s1 s2 o : Nat) (h2q : 2 * q ≤ W)
    (hm : MontConst q qinv) (h : s1 * s2 < q * W) :
    (Gen.MulRNSScalar_body q qinv bc s1 s2 o * W) % q = (s1 * s2) % q
    ∧ Gen.MulRNSScalar_body q qinv bc s1 s2 o < 2 * q ∧ 0 < Gen.MulRNSScalar_body q qinv bc s1 s2 o :=
  MRedLazy_spec s1 s2 q qinv h2q hm h

/-- **`mulScalars` (one entry `a·b % q`) refined by the regenerated body of `MulRNSScalar`**: on
    lazily reduced (`< 2q`) Montgomery representatives the result is a lazily reduced Montgomery
    representative of the model's product. -/
theorem mulScalars_refines (q qinv : Nat) (bc : Nat × Nat) (s1 s2 o a b : Nat) (h4q : 4 * q ≤ W)
    (hm : MontConst q qinv) (h1 : s1 < 2 * q) (h2 : s2 < 2 * q) (ha : Mont q a s1) (hb : Mont q b s2) :
    Gen.MulRNSScalar_body q qinv bc s1 s2 o < 2 * q ∧
    Mont q (a * b % q) (Gen.MulRNSScalar_body q qinv bc s1 s2 o) := by
  have hq0 := hm.pos
  have hlt : s1 * s2 < q * W := by
    have : s1 * s2 < (2 * q) * (2 * q) := Nat.mul_lt_mul'' h1 h2
    have : (2 * q) * (2 * q) = q * (4 * q) := by ring
    have : q * (4 * q) ≤ q * W := Nat.mul_le_mul_left q h4q
    omega
  obtain ⟨hs, hr, _⟩ := MulRNSScalar_body_spec q qinv bc s1 s2 o (by omega) hm hlt
  refine ⟨hr, Mont.of_cast ?_⟩
  have hs' := cast_of_mod hs
  simp only [Nat.cast_mul] at hs'
  apply (W_unit hm).mul_right_cancel
  rw [hs', ha.cast, hb.cast, ZMod.natCast_mod, Nat.cast_mul]
  ring

/-- the list-level statement for `mulScalars`: entrywise refinement. -/
theorem mulScalars_entry (ms a b : List Nat) (i : Nat) (h : i < (mulScalars ms a b).length) :
    ∃ (hm : i < ms.length) (ha : i < a.length) (hb : i < b.length),
      (mulScalars ms a b)[i] = a[i] * b[i] % ms[i] := by
  unfold mulScalars at h ⊢
  simp only [List.length_zipWith, List.length_zip] at h
  refine ⟨by omega, by omega, by omega, ?_⟩
  simp [List.getElem_zipWith, List.getElem_zip]

/-- **`inverse` refined by the regenerated body of `Inverse`** (`a[i] = ModexpMontgomery(a[i], int(q-2), …)`). -/
theorem inverse_refines (x a q qinv : Nat) (hq : 2 ≤ q) (h2q : 2 * q ≤ W) (hm : MontConst q qinv)
    (hx : x < q) (hxa : Mont q a x) :
    Gen.Inverse_body q qinv (brc q) x < q ∧ Mont q (inverse q a) (Gen.Inverse_body q qinv (brc q) x) := by
  have hq1 : 1 < q := by
    have := hm.odd
    omega
  have h : Gen.Inverse_body q qinv (brc q) x = Gen.ModexpMontgomery x (q - 2) q qinv (brc q) := by
    unfold Gen.Inverse_body
    rw [u64sub_two q hq (by omega)]
  rw [h]
  exact powMod_refines x a (q - 2) q qinv hq1 h2q hm hx (by unfold W at h2q; omega) hxa

/-- `Inverse` applied to ANY reduced word `d` (Montgomery or not), word-level: `R·W^(q-2) ≡ W·d^(q-2)`. -/
theorem Inverse_body_spec (d q qinv : Nat) (hq : 2 ≤ q) (h2q : 2 * q ≤ W) (hm : MontConst q qinv) (hd : d < q) :
    Gen.Inverse_body q qinv (brc q) d < q ∧
    (Gen.Inverse_body q qinv (brc q) d * W ^ (q - 2)) % q = (W * d ^ (q - 2)) % q := by
  have hq1 : 1 < q := by
    have := hm.odd
    omega
  have h : Gen.Inverse_body q qinv (brc q) d = Gen.ModexpMontgomery d (q - 2) q qinv (brc q) := by
    unfold Gen.Inverse_body
    rw [u64sub_two q hq (by omega)]
  rw [h]
  exact Modexp_spec d (q - 2) q qinv hq1 h2q hm hd (by unfold W at h2q; omega)

/-! ### the composition `Combiner.lagrangeCoeff` performs -/

/-- the word `Combiner.lagrangeCoeff(thisKey, thatKey)` stores for one modulus, composed from the
    regenerated bodies exactly as multiparty/threshold.go calls them:
    `this, that := NewRNSScalarFromUInt64(…)`; `SubRNSScalar(that, this, lagCoeff)`;
    `Inverse(lagCoeff)`; `MulRNSScalar(lagCoeff, that, lagCoeff)`.  (`lagCoeff` is a fresh zero
    scalar.) -/
def lagrangeCoeffWord (q qinv : Nat) (bc : Nat × Nat) (thisKey thatKey : Nat) : Nat :=
  let this := Gen.NewRNSScalarFromUInt64_body q qinv bc thisKey
  let that := Gen.NewRNSScalarFromUInt64_body q qinv bc thatKey
  let l := Gen.SubRNSScalar_body q qinv bc that this 0
  let l := Gen.Inverse_body q qinv bc l
  Gen.MulRNSScalar_body q qinv bc l that l

/-- **`lagrangeCoeff` refined by the regenerated code**: for a prime `q`, the stored word is a lazily
    reduced Montgomery representative of the model's `lagrangeCoeff q thisKey thatKey`
    (`= that/(that − this)` when the points differ mod `q`, `0` when they collide). -/
theorem lagrangeCoeff_refines (q qinv : Nat) [hp : Fact q.Prime] (h2 : 2 < q) (h2q : 2 * q ≤ W)
    (hm : MontConst q qinv) (thisKey thatKey : Nat) :
    lagrangeCoeffWord q qinv (brc q) thisKey thatKey < 2 * q ∧
    Mont q (lagrangeCoeff q thisKey thatKey) (lagrangeCoeffWord q qinv (brc q) thisKey thatKey) := by
  have hq0 : 0 < q := by omega
  unfold lagrangeCoeffWord lagrangeCoeff
  simp only [NewRNSScalarFromUInt64_body_eq]
  have hthis : thisKey % q < q := Nat.mod_lt _ hq0
  have hthat : thatKey % q < q := Nat.mod_lt _ hq0
  rw [SubRNSScalar_body_eq q qinv (brc q) _ _ 0 (by omega) hthat hthis]
  have hd : subMod q (thatKey % q) (thisKey % q) < q := by unfold subMod; split <;> omega
  generalize subMod q (thatKey % q) (thisKey % q) = d at hd ⊢
  obtain ⟨hil, his⟩ := Inverse_body_spec d q qinv (by omega) h2q hm hd
  generalize Gen.Inverse_body q qinv (brc q) d = inv at hil his ⊢
  obtain ⟨hs, hr, _⟩ := MulRNSScalar_body_spec q qinv (brc q) inv (thatKey % q) inv h2q hm
    (mul_lt_of_lt hil (by omega))
  refine ⟨hr, Mont.of_cast ?_⟩
  have hs' := cast_of_mod hs
  have his' := cast_of_mod his
  simp only [Nat.cast_mul, Nat.cast_pow] at hs' his'
  -- Fermat for W
  have hW0 : ((W : Nat) : ZMod q) ≠ 0 := (W_unit hm).ne_zero
  have hF : ((W : Nat) : ZMod q) ^ (q - 1) = 1 := ZMod.pow_card_sub_one_eq_one hW0
  have hq1 : q - 1 = (q - 2) + 1 := by omega
  have hu : IsUnit (((W : Nat) : ZMod q) ^ (q - 1)) := (W_unit hm).pow _
  apply hu.mul_right_cancel
  unfold inverse
  rw [ZMod.natCast_mod, Nat.cast_mul, cast_powMod', ZMod.natCast_mod]
  calc ((Gen.MulRNSScalar_body q qinv (brc q) inv (thatKey % q) inv : Nat) : ZMod q) * (W : ZMod q) ^ (q - 1)
      = (((Gen.MulRNSScalar_body q qinv (brc q) inv (thatKey % q) inv : Nat) : ZMod q) * (W : ZMod q))
          * (W : ZMod q) ^ (q - 2) := by rw [hq1, pow_succ]; ring
    _ = ((inv : ZMod q) * (W : ZMod q) ^ (q - 2)) * ((thatKey % q : Nat) : ZMod q) := by rw [hs']; ring
    _ = ((W : ZMod q) * (d : ZMod q) ^ (q - 2)) * (thatKey : ZMod q) := by rw [his', ZMod.natCast_mod]
    _ = (d : ZMod q) ^ (q - 2) * (thatKey : ZMod q) * (W : ZMod q) * (W : ZMod q) ^ (q - 1) := by
        rw [hF]; ring

end Lattigo.Proofs.GenScalar
