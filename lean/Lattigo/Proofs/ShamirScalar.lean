/-
  C15: the scalar functions of `Lattigo.Model.Shamir` (one prime modulus, canonical residues)
  seen in the field `ZMod q`, and the reconstruction identity for them.
-/
import Lattigo.Model.Shamir
import Lattigo.Proofs.ShamirField
import Mathlib.FieldTheory.Finite.Basic

namespace Lattigo.Proofs.Shamir
open Polynomial Lattigo.Model.Shamir

variable {q : ℕ} [hq : Fact q.Prime]

local notation "ι" => (Nat.cast : ℕ → ZMod q)

theorem q_pos : 0 < q := hq.out.pos

/-! ### casts of the scalar model functions -/

theorem cast_subMod (a b : ℕ) (_ha : a < q) (hb : b < q) :
    ((subMod q a b : ℕ) : ZMod q) = (a : ZMod q) - b := by
  unfold subMod
  split
  · have : b ≤ a + q := by omega
    rw [Nat.cast_sub this, Nat.cast_add, ZMod.natCast_self, add_zero]
  · have : b ≤ a := by omega
    rw [Nat.cast_sub this]

theorem cast_powLoop (fuel e x r : ℕ) (hf : e ≤ fuel) :
    ((powLoop q fuel e x r : ℕ) : ZMod q) = (r : ZMod q) * (x : ZMod q) ^ e := by
  induction fuel generalizing e x r with
  | zero =>
    have : e = 0 := by omega
    subst this; simp [powLoop]
  | succ fuel ih =>
    rw [powLoop]
    split
    · next h => subst h; simp
    · next h =>
      have hlt : e / 2 ≤ fuel := by omega
      rw [ih _ _ _ hlt]
      have he : e = 2 * (e / 2) + e % 2 := by omega
      have hx : ((x * x % q : ℕ) : ZMod q) = (x : ZMod q) ^ 2 := by
        rw [ZMod.natCast_mod, Nat.cast_mul, sq]
      rw [hx, ← pow_mul]
      split
      · next h1 =>
        rw [ZMod.natCast_mod, Nat.cast_mul]
        conv_rhs => rw [he, h1, pow_add, pow_one]
        ring
      · next h1 =>
        have h0 : e % 2 = 0 := by omega
        conv_rhs => rw [he, h0, add_zero]

theorem cast_powMod (x e : ℕ) : ((powMod q x e : ℕ) : ZMod q) = (x : ZMod q) ^ e := by
  unfold powMod
  rw [cast_powLoop _ _ _ _ (Nat.le_refl e), ZMod.natCast_mod, Nat.cast_one, one_mul]

theorem cast_inverse (a : ℕ) (ha : (a : ZMod q) ≠ 0) :
    ((inverse q a : ℕ) : ZMod q) = (a : ZMod q)⁻¹ := by
  unfold inverse
  rw [cast_powMod]
  have h2 : 2 ≤ q := hq.out.two_le
  have h := ZMod.pow_card_sub_one_eq_one ha
  have : q - 1 = (q - 2) + 1 := by omega
  rw [this, pow_succ] at h
  exact eq_inv_of_mul_eq_one_left h

/-- `lagrangeCoeff(this, that) = that/(that − this)` in `ZMod q`, when the two points differ
modulo `q`. -/
theorem cast_lagrangeCoeff (this that : ℕ) (hne : (that : ZMod q) ≠ (this : ZMod q)) :
    ((lagrangeCoeff q this that : ℕ) : ZMod q) = (that : ZMod q) / ((that : ZMod q) - this) := by
  unfold lagrangeCoeff
  simp only
  have hd : ((subMod q (that % q) (this % q) : ℕ) : ZMod q) = (that : ZMod q) - this := by
    rw [cast_subMod _ _ (Nat.mod_lt _ q_pos) (Nat.mod_lt _ q_pos), ZMod.natCast_mod, ZMod.natCast_mod]
  have hd0 : ((subMod q (that % q) (this % q) : ℕ) : ZMod q) ≠ 0 := by
    rw [hd]; exact sub_ne_zero.mpr hne
  rw [ZMod.natCast_mod, Nat.cast_mul, cast_inverse _ hd0, hd, ZMod.natCast_mod, div_eq_mul_inv, mul_comm]

/-- `Inverse(0) = 0`: when the two points coincide modulo `q > 2` the factor is `0`. -/
theorem lagrangeCoeff_collide (this that : ℕ) (h2 : 2 < q) (h : that % q = this % q) :
    lagrangeCoeff q this that = 0 := by
  have hz : ((lagrangeCoeff q this that : ℕ) : ZMod q) = 0 := by
    unfold lagrangeCoeff
    simp only
    have hd : subMod q (that % q) (this % q) = 0 := by
      unfold subMod; rw [h]; simp
    rw [hd, ZMod.natCast_mod, Nat.cast_mul]
    unfold inverse
    rw [cast_powMod, Nat.cast_zero, zero_pow (by omega), zero_mul]
  have hlt : lagrangeCoeff q this that < q := by
    unfold lagrangeCoeff; exact Nat.mod_lt _ q_pos
  rw [ZMod.natCast_eq_zero_iff] at hz
  exact Nat.eq_zero_of_dvd_of_lt hz hlt

theorem cast_horner (x : ℕ) (cs : List ℕ) :
    ((horner q x cs : ℕ) : ZMod q) = eval (x : ZMod q) (ofList (cs.map ι)) := by
  induction cs with
  | nil => simp [horner, ofList]
  | cons c rest ih =>
    cases rest with
    | nil => simp [horner, ofList]
    | cons d rest =>
      rw [horner, List.map_cons, eval_ofList_cons, ← ih]
      rw [ZMod.natCast_mod, Nat.cast_add, ZMod.natCast_mod, Nat.cast_mul, ZMod.natCast_mod]
      ring

/-! ### the product loop of `GenAdditiveShare`, one modulus -/

/-- `for active in actives { if active != own { prod = prod · lagrangeCoeff(own, active) } }`. -/
def lagProdScalar (q own : ℕ) : List ℕ → ℕ → ℕ
  | [], p => p
  | a :: rest, p =>
    if a ≠ own then lagProdScalar q own rest (p * lagrangeCoeff q own a % q)
    else lagProdScalar q own rest p

theorem cast_lagProdScalar (own : ℕ) (acts : List ℕ) (p : ℕ) :
    ((lagProdScalar q own acts p : ℕ) : ZMod q) =
      (p : ZMod q) * ((acts.filter (· ≠ own)).map fun a => ((lagrangeCoeff q own a : ℕ) : ZMod q)).prod := by
  induction acts generalizing p with
  | nil => simp [lagProdScalar]
  | cons a rest ih =>
    unfold lagProdScalar
    by_cases h : a ≠ own
    · rw [if_pos h, ih, List.filter_cons_of_pos (by simpa using h), List.map_cons, List.prod_cons,
        ZMod.natCast_mod, Nat.cast_mul, mul_assoc]
    · rw [if_neg h, ih, List.filter_cons_of_neg (by simpa using h)]

/-- pairwise distinct modulo `q` (the hypothesis the proof forces). -/
def DistinctMod (q : ℕ) (S : List ℕ) : Prop := (S.map (· % q)).Nodup

instance (q : ℕ) (S : List ℕ) : Decidable (DistinctMod q S) := by unfold DistinctMod; infer_instance

theorem DistinctMod.cast_nodup {S : List ℕ} (h : DistinctMod q S) : (S.map ι).Nodup := by
  unfold DistinctMod at h
  have : S.map ι = (S.map (· % q)).map ι := by
    rw [List.map_map]; apply List.map_congr_left; intro a _; simp [ZMod.natCast_mod]
  rw [this]
  apply List.Nodup.map_on _ h
  intro a ha b hb hab
  rw [List.mem_map] at ha hb
  obtain ⟨a', _, rfl⟩ := ha
  obtain ⟨b', _, rfl⟩ := hb
  have := (ZMod.natCast_eq_natCast_iff' _ _ q).mp hab
  simpa using this

theorem DistinctMod.cast_ne {S : List ℕ} (h : DistinctMod q S) {a b : ℕ} (ha : a ∈ S) (hb : b ∈ S)
    (hab : a ≠ b) : (a : ZMod q) ≠ (b : ZMod q) := by
  intro hc
  exact hab (List.inj_on_of_nodup_map h.cast_nodup ha hb hc)

/-- the product loop computes the Lagrange weight of `own` among the active points. -/
theorem cast_lagProdScalar_weight {S : List ℕ} (hS : DistinctMod q S) (own : ℕ) (hown : own ∈ S)
    (acts : List ℕ) (hperm : acts.Perm S) :
    ((lagProdScalar q own acts (1 % q) : ℕ) : ZMod q) = weight (S.map ι) (own : ZMod q) := by
  rw [cast_lagProdScalar, ZMod.natCast_mod, Nat.cast_one, one_mul]
  unfold weight
  have hfil : (S.map ι).filter (· ≠ (own : ZMod q)) = (S.filter (· ≠ own)).map ι := by
    rw [List.filter_map]
    congr 1
    apply List.filter_congr
    intro a ha
    by_cases h : a = own
    · subst h; simp
    · have := hS.cast_ne ha hown h
      simp [h, this]
  rw [hfil, List.map_map]
  have hp : ((acts.filter (· ≠ own)).map fun a => ((lagrangeCoeff q own a : ℕ) : ZMod q)).Perm
      ((S.filter (· ≠ own)).map fun a => ((lagrangeCoeff q own a : ℕ) : ZMod q)) :=
    (hperm.filter _).map _
  rw [hp.prod_eq]
  congr 1
  apply List.map_congr_left
  intro a ha
  rw [List.mem_filter] at ha
  have hne : a ≠ own := by simpa using ha.2
  simp only [Function.comp]
  exact cast_lagrangeCoeff own a (hS.cast_ne ha.1 hown hne)

/-! ### sums modulo `q` as the code computes them -/

/-- `acc = (acc + s) mod q` for each `s` in turn (`ring.Add` word-wise, repeated). -/
def sumMod (q : ℕ) (a : ℕ) (l : List ℕ) : ℕ := l.foldl (fun acc s => (acc + s) % q) a

theorem cast_sumMod (a : ℕ) (l : List ℕ) :
    ((sumMod q a l : ℕ) : ZMod q) = (a : ZMod q) + (l.map ι).sum := by
  unfold sumMod
  induction l generalizing a with
  | nil => simp
  | cons s rest ih =>
    rw [List.foldl_cons, ih, ZMod.natCast_mod, Nat.cast_add, List.map_cons, List.sum_cons, add_assoc]

theorem sumMod_zero_lt (l : List ℕ) : sumMod q 0 l < q := by
  unfold sumMod
  induction l using List.reverseRecOn with
  | nil => exact q_pos
  | append_singleton l s _ => rw [List.foldl_append]; exact Nat.mod_lt _ q_pos

theorem nat_eq_of_cast_eq {a b : ℕ} (ha : a < q) (hb : b < q) (h : (a : ZMod q) = (b : ZMod q)) :
    a = b := by
  have := (ZMod.natCast_eq_natCast_iff' _ _ q).mp h
  rwa [Nat.mod_eq_of_lt ha, Nat.mod_eq_of_lt hb] at this

/-! ### reconstruction, one modulus, one coefficient slot -/

/-- One dealer: `Σ_{x ∈ S} λ_x · f(x) = f(0)` in `ZMod q`.  `P` lists the active parties as
(own point, active points as that party lists them). -/
theorem scalar_reconstruct_field (P : List (ℕ × List ℕ)) (hS : DistinctMod q (P.map Prod.fst))
    (cs : List ℕ) (hlen : cs.length ≤ P.length) (hacts : ∀ p ∈ P, p.2.Perm (P.map Prod.fst)) :
    (P.map fun p => ((horner q p.1 cs : ℕ) : ZMod q) * ((lagProdScalar q p.1 p.2 (1 % q) : ℕ) : ZMod q)).sum
      = eval 0 (ofList (cs.map ι)) := by
  have hdeg : (ofList (cs.map ι)).degree < (((P.map Prod.fst).map ι).length : WithBot ℕ) := by
    refine lt_of_lt_of_le (degree_ofList_lt _) ?_
    rw [List.length_map, List.length_map, List.length_map]
    exact_mod_cast hlen
  rw [← lagrange_zero_list ((P.map Prod.fst).map ι) hS.cast_nodup _ hdeg, List.map_map, List.map_map]
  congr 1
  apply List.map_congr_left
  intro p hp
  simp only [Function.comp]
  rw [cast_horner, cast_lagProdScalar_weight hS p.1 (List.mem_map_of_mem hp) _ (hacts p hp)]

/-- The identity behind C15, in exactly the arithmetic the model performs: each active party
`p = (x, actives)` holds `tsks_x = Σ_dealers f_d(x)` (summed mod `q` in the order the shares
arrived), multiplies it by the product loop over its active list, and the results are summed
mod `q`; the total is the sum (mod `q`, same order) of the dealers' constant terms. -/
theorem scalar_reconstruct_nat (P : List (ℕ × List ℕ)) (hS : DistinctMod q (P.map Prod.fst))
    (fs : List (List ℕ)) (hfs : ∀ cs ∈ fs, cs.length ≤ P.length)
    (hacts : ∀ p ∈ P, p.2.Perm (P.map Prod.fst)) :
    sumMod q 0 (P.map fun p => sumMod q 0 (fs.map (horner q p.1)) * lagProdScalar q p.1 p.2 (1 % q) % q)
      = sumMod q 0 (fs.map fun cs => cs.headD 0) := by
  apply nat_eq_of_cast_eq (sumMod_zero_lt _) (sumMod_zero_lt _)
  rw [cast_sumMod, cast_sumMod, Nat.cast_zero, zero_add, zero_add, List.map_map, List.map_map]
  induction fs with
  | nil =>
    simp [sumMod, Function.comp_def]
  | cons cs rest ih =>
    have ih' := ih (fun c hc => hfs c (List.mem_cons_of_mem _ hc))
    have h1 := scalar_reconstruct_field P hS cs (hfs cs (List.mem_cons_self)) hacts
    have hsplit : ∀ x : ℕ, ((sumMod q 0 ((cs :: rest).map (horner q x)) : ℕ) : ZMod q)
        = ((horner q x cs : ℕ) : ZMod q) + ((sumMod q 0 (rest.map (horner q x)) : ℕ) : ZMod q) := by
      intro x
      rw [cast_sumMod, cast_sumMod]; simp
    have hL : (P.map (ι ∘ fun p => sumMod q 0 ((cs :: rest).map (horner q p.1)) * lagProdScalar q p.1 p.2 (1 % q) % q)).sum
        = (P.map fun p => ((horner q p.1 cs : ℕ) : ZMod q) * ((lagProdScalar q p.1 p.2 (1 % q) : ℕ) : ZMod q)).sum
        + (P.map (ι ∘ fun p => sumMod q 0 (rest.map (horner q p.1)) * lagProdScalar q p.1 p.2 (1 % q) % q)).sum := by
      rw [← List.sum_map_add]
      congr 1
      apply List.map_congr_left
      intro p _
      simp only [Function.comp]
      rw [ZMod.natCast_mod, Nat.cast_mul, hsplit, ZMod.natCast_mod, Nat.cast_mul]
      ring
    rw [hL, h1, ih']
    simp only [List.map_cons, List.sum_cons, Function.comp]
    congr 1
    cases cs with
    | nil => simp [ofList]
    | cons c cs' => simp [ofList]

theorem lagProdScalar_lt (own : ℕ) (l : List ℕ) (p : ℕ) (hp : p < q) : lagProdScalar q own l p < q := by
  induction l generalizing p with
  | nil => exact hp
  | cons x rest ih =>
    unfold lagProdScalar
    split
    · exact ih _ (Nat.mod_lt _ q_pos)
    · exact ih _ hp

/-- order independence of the product loop: it only depends on the active points as a multiset. -/
theorem lagProdScalar_perm (own : ℕ) {a b : List ℕ} (h : a.Perm b) (p : ℕ) (hp : p < q) :
    lagProdScalar q own a p = lagProdScalar q own b p := by
  apply nat_eq_of_cast_eq (lagProdScalar_lt own a p hp) (lagProdScalar_lt own b p hp)
  rw [cast_lagProdScalar, cast_lagProdScalar, ((h.filter _).map _).prod_eq]

/-- an active point that differs from `own` as an integer but not modulo `q > 2` makes the whole
product `0`. -/
theorem lagProdScalar_collide (own : ℕ) (acts : List ℕ) (p : ℕ) (hp : p < q) (h2 : 2 < q)
    (a : ℕ) (ha : a ∈ acts) (hne : a ≠ own) (hcol : a % q = own % q) :
    lagProdScalar q own acts p = 0 := by
  have hz : ((lagProdScalar q own acts p : ℕ) : ZMod q) = 0 := by
    rw [cast_lagProdScalar]
    apply mul_eq_zero_of_right
    apply List.prod_eq_zero
    rw [List.mem_map]
    refine ⟨a, List.mem_filter.mpr ⟨ha, by simpa using hne⟩, ?_⟩
    rw [lagrangeCoeff_collide own a h2 hcol, Nat.cast_zero]
  rw [ZMod.natCast_eq_zero_iff] at hz
  exact Nat.eq_zero_of_dvd_of_lt hz (lagProdScalar_lt own acts p hp)

end Lattigo.Proofs.Shamir
