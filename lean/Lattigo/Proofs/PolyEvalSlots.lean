/-
  C13 — slots outside every mapping evaluate to zero: machine level.  For a vector of polynomials under a
  slot mapping, every value the evaluator builds (baby steps, giant steps, the result) is 0 in a slot that
  no mapping list contains — whatever the powers of the input hold there.
-/
import Lattigo.Proofs.PolyEvalScale

namespace Lattigo.Model.PolyEval

theorem getD_zipV (f : Int → Int → Int) (a b : List Int) (j : Nat) :
    (zipV f a b).getD j 0 = match a[j]?, b[j]? with
      | some x, some y => f x y
      | _, _ => 0 := by
  unfold zipV
  rw [List.getD_eq_getElem?_getD, List.getElem?_zipWith]
  cases a[j]? <;> cases b[j]? <;> rfl

theorem getD_zero_cases (a : List Int) (j : Nat) (h : a.getD j 0 = 0) : a[j]? = none ∨ a[j]? = some 0 := by
  rw [List.getD_eq_getElem?_getD] at h
  cases ha : a[j]? with
  | none => left; rfl
  | some v => right; rw [ha] at h; simp at h; rw [h]

theorem redV_zero (e : Env) : redV e 0 = 0 := by unfold redV; split <;> simp

/-- the value of operand `o` in slot `j` is 0 -/
def ZeroAt (j : Nat) (o : Opd) : Prop := o.val.getD j 0 = 0

section slots
variable (e : Env) (j : Nat)

theorem zeroAt_add (f : Int → Int → Int) (hf : f 0 0 = 0) (a b : List Int)
    (ha : a.getD j 0 = 0) (hb : b.getD j 0 = 0) : (zipV f a b).getD j 0 = 0 := by
  rw [getD_zipV]
  rcases getD_zero_cases a j ha with h1 | h1 <;> rcases getD_zero_cases b j hb with h2 | h2 <;> simp [h1, h2, hf]

theorem zeroAt_mul_left (f : Int → Int → Int) (hf : ∀ y, f 0 y = 0) (a b : List Int)
    (ha : a.getD j 0 = 0) : (zipV f a b).getD j 0 = 0 := by
  rw [getD_zipV]
  rcases getD_zero_cases a j ha with h1 | h1
  · simp [h1]
  · cases hb : b[j]? <;> simp [h1, hf]

theorem zeroAt_mul_right (f : Int → Int → Int) (hf : ∀ x, f x 0 = 0) (a b : List Int)
    (hb : b.getD j 0 = 0) : (zipV f a b).getD j 0 = 0 := by
  rw [getD_zipV]
  rcases getD_zero_cases b j hb with h1 | h1
  · cases ha : a[j]? <;> simp [h1]
  · cases ha : a[j]? <;> simp [h1, hf]

theorem coeffVec_getD_unmapped (m : List (List Nat)) (coeffs : List (List Int)) (k : Nat)
    (hun : ∀ l ∈ m, j ∉ l) : (coeffVec e (some m) coeffs k).getD j 0 = 0 := by
  by_cases hj : j < e.slots
  · exact coeffVec_unmapped e m coeffs k j hj hun
  · rw [List.getD_eq_getElem?_getD]
    have : (coeffVec e (some m) coeffs k).length = e.slots := by simp [coeffVec]
    rw [List.getElem?_eq_none (by omega)]
    rfl

theorem post_addConst_Z (a : Opd) (c : List Int) (ha : ZeroAt j a) (hc : c.getD j 0 = 0) :
    Post (addConst e a c) (ZeroAt j) := by
  unfold addConst
  apply post_bind (post_true _); intro _ _
  exact post_pure (zeroAt_add j _ (by simp [redV_zero]) _ _ ha hc)

theorem post_mulThenAddConst_Z (x : Opd) (c : List Int) (r : Opd) (hr : ZeroAt j r) (hc : c.getD j 0 = 0) :
    Post (mulThenAddConst e x c r) (ZeroAt j) := by
  unfold mulThenAddConst
  apply post_bind (post_true _); intro _ _
  exact post_pure (zeroAt_add j _ (by simp [redV_zero]) _ _ hr (zeroAt_mul_right j _ (by simp) _ _ hc))

variable (m : List (List Nat)) (hun : ∀ l ∈ m, j ∉ l)
include hun

/-- a baby step is 0 in an uncovered slot -/
theorem post_evalFromPowerBasis_Z (T : Int) (p : SubPoly) (sc : Nat) :
    Post (evalFromPowerBasis e (some m) T p sc) (ZeroAt j) := by
  have hz : (List.replicate e.slots (0 : Int)).getD j 0 = 0 := by
    rw [List.getD_eq_getElem?_getD]
    by_cases h : j < e.slots
    · rw [List.getElem?_replicate, if_pos h]; rfl
    · rw [List.getElem?_eq_none (by simp; omega)]; rfl
  unfold evalFromPowerBasis
  apply post_bind (post_true _); intro st _
  apply post_ite
  · intro _
    apply post_ite
    · intro _; exact post_addConst_Z e j _ _ hz (coeffVec_getD_unmapped e j m _ _ hun)
    · intro _; exact post_pure hz
  · intro _
    apply post_bind (Qa := ZeroAt j)
    · apply post_ite
      · intro _; exact post_addConst_Z e j _ _ hz (coeffVec_getD_unmapped e j m _ _ hun)
      · intro _; exact post_pure hz
    · intro r hr
      apply post_foldlM _ _ _ r hr
      intro b i hb
      apply post_ite
      · intro _
        apply post_bind (post_true _); intro x _
        exact post_mulThenAddConst_Z e j _ _ _ hb (coeffVec_getD_unmapped e j m _ _ hun)
      · intro _; exact post_pure hb

omit hun in
theorem post_relinOp_Z (o : Opd) (h : ZeroAt j o) : Post (relinOp e o) (ZeroAt j) := by
  unfold relinOp
  exact post_bind (post_true _) (fun _ _ => post_pure h)

omit hun in
theorem post_rescaleOp_Z (o : Opd) (h : ZeroAt j o) : Post (rescaleOp e o) (ZeroAt j) := by
  unfold rescaleOp
  apply post_bind (post_true _); intro _ _
  apply post_ite
  · intro _; exact post_pure h
  · intro _
    apply post_ite
    · intro _; constructor; intro s o' s' hex; rw [ex_bind] at hex; simp at hex
    · intro _; exact post_pure h

omit hun in
theorem post_mulOp_Z (name : String) (relin : Bool) (a b : Opd) (ha : ZeroAt j a) :
    Post (mulOp e name relin a b) (ZeroAt j) := by
  unfold mulOp
  apply post_bind (post_true _); intro _ _
  apply post_ite
  · intro _; constructor; intro s o' s' hex; rw [ex_bind] at hex; simp at hex
  · intro _
    apply post_ite
    · intro _; constructor; intro s o' s' hex; rw [ex_bind] at hex; simp at hex
    · intro _
      exact post_pure (zeroAt_mul_left j _ (by simp [redV_zero]) _ _ ha)

omit hun in
theorem post_addCt_Z (name : String) (sub : Bool) (a b : Opd) (ha : ZeroAt j a) (hb : ZeroAt j b) :
    Post (addCt e name sub a b) (ZeroAt j) := by
  unfold addCt
  apply post_bind (post_true _); intro _ _
  exact post_pure (zeroAt_add j _ (by cases sub <;> simp [redV_zero]) _ _ ha hb)

omit hun in
/-- `a + Rescale(b)·X^pow`: 0 wherever `a` and `b` are 0, whatever the power holds -/
theorem post_evalMonomial_Z (a b x : Opd) (ha : ZeroAt j a) (hb : ZeroAt j b) :
    Post (evalMonomial e a b x) (ZeroAt j) := by
  unfold evalMonomial
  apply post_bind (Qa := ZeroAt j)
  · apply post_ite
    · intro _; exact post_relinOp_Z e j b hb
    · intro _; exact post_pure hb
  · intro b1 h1
    apply post_bind (post_rescaleOp_Z e j b1 h1); intro b2 h2
    apply post_bind (post_mulOp_Z e j _ _ b2 x h2); intro b3 h3
    apply post_ite
    · intro _; exact post_throw _
    · intro _; exact post_addCt_Z e j _ _ b3 a h3 ha

omit hun in
theorem post_giantPass_Z (fuel : Nat) : ∀ (prev : Option Nat) (l : List (Nat × Opd)), (∀ p ∈ l, ZeroAt j p.2) →
    Post (giantPass e fuel prev l) (fun l' => ∀ p ∈ l', ZeroAt j p.2) := by
  induction fuel with
  | zero => intro prev l hl; rw [giantPass]; exact post_pure hl
  | succ fuel ih =>
    intro prev l hl
    match l with
    | [] => simp only [giantPass]; exact post_pure (by simp)
    | [(d, v)] =>
      simp only [giantPass]
      exact post_pure (by intro p hp; simp at hp; rw [hp]; exact hl (d, v) (by simp))
    | (d0, v0) :: (d1, v1) :: rest =>
      rw [giantPass]
      apply post_ite
      · intro _
        simp only []
        apply post_bind (post_true _); intro xp _
        apply post_bind (post_evalMonomial_Z e j v0 v1 xp (hl (d0, v0) (by simp)) (hl (d1, v1) (by simp))); intro b hb
        apply post_bind (ih _ rest (fun p hp => hl p (by simp [hp]))); intro tl htl
        exact post_pure (by
          intro p hp
          rcases List.mem_cons.1 hp with h | h
          · rw [h]; exact hb
          · exact htl p h)
      · intro _
        apply post_bind (ih _ ((d1, v1) :: rest) (fun p hp => hl p (List.mem_cons_of_mem _ hp))); intro tl htl
        exact post_pure (by
          intro p hp
          rcases List.mem_cons.1 hp with h | h
          · rw [h]; exact hl (d0, v0) (by simp)
          · exact htl p h)

omit hun in
theorem post_giantLoop_Z (fuel : Nat) : ∀ (l : List (Nat × Opd)), (∀ p ∈ l, ZeroAt j p.2) →
    Post (giantLoop e fuel l) (fun l' => ∀ p ∈ l', ZeroAt j p.2) := by
  induction fuel with
  | zero => intro l hl; rw [giantLoop]; exact post_pure hl
  | succ fuel ih =>
    intro l hl
    rw [giantLoop]
    apply post_ite
    · intro _; exact post_pure hl
    · intro _
      apply post_bind (post_giantPass_Z e j _ none l hl); intro l2 h2
      exact ih l2 h2

omit hun in
theorem post_finish_Z (fin : List (Nat × Opd)) (h : ∀ p ∈ fin, ZeroAt j p.2) : Post (finish e fin) (ZeroAt j) := by
  match fin with
  | [] => unfold finish; exact post_throw _
  | [(d, v)] =>
    unfold finish
    simp only
    apply post_bind (Qa := ZeroAt j)
    · apply post_ite
      · intro _; exact post_relinOp_Z e j v (h (d, v) (by simp))
      · intro _; exact post_pure (h (d, v) (by simp))
    · intro v1 hv1; exact post_rescaleOp_Z e j v1 hv1
  | _ :: _ :: _ => unfold finish; exact post_throw _

theorem post_evalSubs_Z (subs : List SubPoly) : Post (evalSubs e (some m) subs) (ZeroAt j) := by
  unfold evalSubs
  apply post_bind (Qa := fun (bs : List (Nat × Opd)) => ∀ p ∈ bs, ZeroAt j p.2)
  · apply post_foldlM (Q := fun (bs : List (Nat × Opd)) => ∀ p ∈ bs, ZeroAt j p.2) _ _ subs [] (by simp)
    intro bs sp hbs
    apply post_bind (post_evalFromPowerBasis_Z e j m hun sp.level sp sp.scale); intro v hv
    exact post_pure (by
      intro p hp
      rcases List.mem_cons.1 hp with h | h
      · rw [h]; exact hv
      · exact hbs p h)
  · intro bs hbs
    apply post_bind (post_giantLoop_Z e j _ bs hbs); intro fin hfin
    exact post_finish_Z e j fin hfin

theorem post_evaluateFrom_Z (polys : List (List Int)) (lazy : Bool) (ts : Nat) :
    Post (evaluateFrom e polys (some m) lazy ts) (ZeroAt j) := by
  unfold evaluateFrom
  simp only []
  apply post_bind (post_true _); intro x1 _
  apply post_ite
  · intro _; exact post_evalFromPowerBasis_Z e j m hun _ _ _
  · intro _
    apply post_ite
    · intro _; exact post_throw _
    · intro _
      apply post_bind (post_true _); intro _ _
      split
      · exact post_throw _
      · exact post_evalSubs_Z e j m hun _

/-- **unmapped_slot_evaluates_to_zero** (machine level, every degree, basis, mode, flags, level, scale):
    the result of evaluating a vector of polynomials under the mapping `m` is 0 in every slot `j` that no
    list of `m` contains — whatever the input holds in that slot -/
theorem run_unmapped_zero (polys : List (List Int)) (lazy : Bool) (L is ts : Nat) (x : List Int)
    (tr : List String) (o : Opd) (hrun : run e polys (some m) lazy L is ts x = (tr, "ok", some o)) :
    o.val.getD j 0 = 0 := by
  rw [run_eq] at hrun
  cases hex : ex (evaluate e polys (some m) lazy L is ts x) {} with
  | mk r st =>
    rw [hex] at hrun
    cases r with
    | error er => simp only [Prod.mk.injEq] at hrun; exact absurd hrun.2.2 (by simp)
    | ok o' =>
      simp only [Prod.mk.injEq, Option.some.injEq] at hrun
      obtain ⟨_, _, rfl⟩ := hrun
      have hp : Post (evaluate e polys (some m) lazy L is ts x) (ZeroAt j) := by
        unfold evaluate
        exact post_bind (post_true _) (fun _ _ => post_evaluateFrom_Z e j m hun polys lazy ts)
      exact hp.out _ _ _ hex

end slots

end Lattigo.Model.PolyEval
