/-
  Stack closure, part 5: the bridge between the integer ring `Z[X]/(X^n+1)` on coefficient lists (`Lattigo.ZPoly`,
  where `Props/C04Noise`, `C03`, `C20Noise` state the noise bounds) and the executable carrier `RPoly`:

      `RPoly.ofInts qs : ZPoly → R_qs` preserves `+ − * k·` on lists of length `n`

  (`ofInts_add`, `ofInts_sub`, `ofInts_mul`, `ofInts_smul`, `ofInts_zero`), hence the weighted sums
  (`wsumMat_ofInts`: `Σ d_ij·e_ij` of reductions = reduction of `ZPoly.dotMatZ`).  Proof: row by row through
  `toQuot` (`zq`: the class of `Σ v_t X^t` in `Z_q[X]/(X^n+1)`), the product through `NTT.negacyclic_eval`.
-/
import Lattigo.Proofs.StackKS
import Lattigo.Proofs.NoiseNorm
import Lattigo.Proofs.KeySwitchDigits

set_option linter.unusedSectionVars false

namespace Lattigo.StackKS
open Lattigo Lattigo.RPolyRing Lattigo.Transport Lattigo.ZPoly Finset Polynomial

section zq
variable {q n : ℕ}

/-- the class of `Σ_{t<n} v_t X^t` in `Z_q[X]/(X^n+1)` -/
noncomputable def zq (q n : ℕ) (v : List ℤ) : Rq q n :=
  ∑ t ∈ range n, ((v.getD t 0 : ℤ) : Rq q n) * (AdjoinRoot.root (X ^ n + 1 : (ZMod q)[X])) ^ t

theorem intCast_q_Rq : (((q : ℕ) : ℤ) : Rq q n) = 0 := by
  rw [Int.cast_natCast]; exact natCast_q_Rq

theorem cast_emod_toNat (hq : 0 < q) (x : ℤ) : (((x % (q : ℤ)).toNat : ℕ) : Rq q n) = ((x : ℤ) : Rq q n) := by
  have h0 : 0 ≤ x % (q : ℤ) := Int.emod_nonneg _ (by omega)
  have e : (((x % (q : ℤ)).toNat : ℕ) : ℤ) = x % (q : ℤ) := Int.toNat_of_nonneg h0
  have h1 : (((x % (q : ℤ)).toNat : ℕ) : Rq q n) = ((x % (q : ℤ) : ℤ) : Rq q n) := by
    rw [← Int.cast_natCast, e]
  rw [h1]
  conv_rhs => rw [← Int.mul_ediv_add_emod x (q : ℤ)]
  rw [Int.cast_add, Int.cast_mul, intCast_q_Rq, zero_mul, zero_add]

/-- the row of `ofInts` for the modulus `q` represents `zq` -/
theorem toQuot_reduce (hq : 0 < q) (v : List ℤ) :
    toQuot q n (v.map fun (x : ℤ) => (x % (q : ℤ)).toNat) = zq q n v := by
  rw [toQuot_eq_evalRow]
  unfold evalRow zq
  apply sum_congr rfl
  intro t _
  congr 1
  by_cases ht : t < v.length
  · have : (v.map fun (x : ℤ) => (x % (q : ℤ)).toNat).getD t 0 = (v.getD t 0 % (q : ℤ)).toNat := by
      simp [List.getD_eq_getElem?_getD, ht]
    rw [this, cast_emod_toNat hq]
  · have h1 : (v.map fun (x : ℤ) => (x % (q : ℤ)).toNat).getD t 0 = 0 := by
      simp [List.getD_eq_getElem?_getD, Nat.le_of_not_lt ht]
    have h2 : v.getD t 0 = 0 := by simp [List.getD_eq_getElem?_getD, Nat.le_of_not_lt ht]
    rw [h1, h2, Nat.cast_zero, Int.cast_zero]

theorem zq_add (a b : List ℤ) (ha : a.length = n) (hb : b.length = n) :
    zq q n (ZPoly.add a b) = zq q n a + zq q n b := by
  unfold zq ZPoly.add
  rw [← sum_add_distrib]
  apply sum_congr rfl
  intro t ht
  have ht' := mem_range.1 ht
  have : (List.zipWith (· + ·) a b).getD t 0 = a.getD t 0 + b.getD t 0 := by
    simp [List.getD_eq_getElem?_getD, (by omega : t < a.length), (by omega : t < b.length)]
  rw [this, Int.cast_add, add_mul]

theorem zq_sub (a b : List ℤ) (ha : a.length = n) (hb : b.length = n) :
    zq q n (ZPoly.sub a b) = zq q n a - zq q n b := by
  unfold zq ZPoly.sub
  rw [← sum_sub_distrib]
  apply sum_congr rfl
  intro t ht
  have ht' := mem_range.1 ht
  have : (List.zipWith (· - ·) a b).getD t 0 = a.getD t 0 - b.getD t 0 := by
    simp [List.getD_eq_getElem?_getD, (by omega : t < a.length), (by omega : t < b.length)]
  rw [this, Int.cast_sub, sub_mul]

theorem zq_smul (k : ℤ) (a : List ℤ) : zq q n (ZPoly.smul k a) = (k : Rq q n) * zq q n a := by
  unfold zq ZPoly.smul
  rw [mul_sum]
  apply sum_congr rfl
  intro t _
  have : (a.map (k * ·)).getD t 0 = k * a.getD t 0 := by
    by_cases ht : t < a.length
    · simp [List.getD_eq_getElem?_getD, ht]
    · simp [List.getD_eq_getElem?_getD, Nat.le_of_not_lt ht]
  rw [this, Int.cast_mul, mul_assoc]

theorem zq_zero : zq q n (ZPoly.zero n) = 0 := by
  unfold zq ZPoly.zero
  apply sum_eq_zero
  intro t _
  have : (List.replicate n (0 : ℤ)).getD t 0 = 0 := by
    by_cases ht : t < n
    · simp [List.getD_eq_getElem?_getD, ht]
    · simp [List.getD_eq_getElem?_getD, Nat.le_of_not_lt ht]
  rw [this, Int.cast_zero, zero_mul]

/-- a sum along `zipIdx` as a sum over `range` -/
theorem sum_zipIdx (g : ℤ × ℕ → ℤ) : ∀ (a : List ℤ) (s : ℕ),
    ((a.zipIdx s).map g).sum = ∑ i ∈ range a.length, g (a.getD i 0, s + i)
  | [], s => by simp
  | x :: a, s => by
    rw [List.zipIdx_cons, List.map_cons, List.sum_cons, sum_zipIdx g a (s + 1), List.length_cons,
      sum_range_succ']
    simp only [List.getD_cons_succ, List.getD_cons_zero, Nat.add_zero]
    rw [add_comm]
    congr 1
    apply sum_congr rfl
    intro i _
    rw [show s + 1 + i = s + (i + 1) by omega]

/-- coefficient `k` of the integer negacyclic product, in the form of `NTT.negacyclic_eval` -/
theorem mulCoeff_eq (a b : List ℤ) (k : ℕ) (hk : k < a.length) :
    ZPoly.mulCoeff a b k
      = ∑ i ∈ range (k + 1), a.getD i 0 * b.getD (k - i) 0
        - ∑ j ∈ range (a.length - 1 - k), a.getD (k + 1 + j) 0 * b.getD (a.length + k - (k + 1 + j)) 0 := by
  unfold ZPoly.mulCoeff
  rw [sum_zipIdx _ a 0]
  have e : a.length = (k + 1) + (a.length - 1 - k) := by omega
  conv_lhs => rw [e, sum_range_add]
  rw [sub_eq_add_neg, ← sum_neg_distrib]
  congr 1
  · apply sum_congr rfl
    intro i hi
    have : i ≤ k := by have := mem_range.1 hi; omega
    simp only [ZPoly.mulTerm, ZPoly.coeff, Nat.zero_add, this, if_true]
  · apply sum_congr rfl
    intro j _
    have : ¬ k + 1 + j ≤ k := by omega
    simp only [ZPoly.mulTerm, ZPoly.coeff, Nat.zero_add, this, if_false, ← e]

/-- **the integer negacyclic product reduces to the product of `Z_q[X]/(X^n+1)`** -/
theorem zq_mul (a b : List ℤ) (ha : a.length = n) : zq q n (ZPoly.mul a b) = zq q n a * zq q n b := by
  unfold zq
  rw [← NTT.negacyclic_eval (fun i => ((a.getD i 0 : ℤ) : Rq q n)) (fun j => ((b.getD j 0 : ℤ) : Rq q n)) n _
    root_pow_n]
  apply sum_congr rfl
  intro k hk
  have hk' : k < a.length := by rw [ha]; exact mem_range.1 hk
  congr 1
  have : (ZPoly.mul a b).getD k 0 = ZPoly.mulCoeff a b k := by
    unfold ZPoly.mul
    simp [List.getD_eq_getElem?_getD, hk']
  rw [this, mulCoeff_eq a b k hk', ha]
  push_cast
  rfl

end zq

/-! ## `RPoly.ofInts` is a homomorphism `Z[X]/(X^n+1) → R_qs` -/

section rp
variable {qs : List ℕ} {n : ℕ} [hg : Good qs n]

theorem toProd_ofInts (v : List ℤ) (hv : v.length = n) (k : Fin qs.length) :
    WFPoly.toProd (lift (RPoly.ofInts qs v) (ofInts_wf v hv)) k = zq (qs.get k) n v := by
  show toQuot (qs.get k) n ((RPoly.ofInts qs v).c.getD k []) = _
  have e : qs.getD k 1 = qs.get k := by
    rw [List.getD_eq_getElem?_getD, List.getElem?_eq_getElem k.2]; rfl
  rw [KS.ofInts_row qs v k k.2, e]
  exact toQuot_reduce (by have := hg.q_ge _ (List.get_mem qs k); omega) v

/-- to show `ofInts qs v = val x` it suffices to compare the classes row by row -/
theorem ofInts_ext (v : List ℤ) (hv : v.length = n) (x : WFPoly qs n)
    (h : ∀ k : Fin qs.length, WFPoly.toProd x k = zq (qs.get k) n v) : RPoly.ofInts qs v = val x := by
  have : lift (RPoly.ofInts qs v) (ofInts_wf v hv) = x :=
    WFPoly.toProd_injective (funext fun k => by rw [toProd_ofInts v hv, h k])
  rw [← this]; rfl

theorem add_length (a b : List ℤ) (ha : a.length = n) (hb : b.length = n) : (ZPoly.add a b).length = n := by
  simp [ZPoly.add, ha, hb]

theorem sub_length (a b : List ℤ) (ha : a.length = n) (hb : b.length = n) : (ZPoly.sub a b).length = n := by
  simp [ZPoly.sub, ha, hb]

theorem mul_length (a b : List ℤ) : (ZPoly.mul a b).length = a.length := by simp [ZPoly.mul]

theorem smul_length (k : ℤ) (a : List ℤ) : (ZPoly.smul k a).length = a.length := by simp [ZPoly.smul]

theorem ofInts_add (a b : List ℤ) (ha : a.length = n) (hb : b.length = n) :
    RPoly.ofInts qs (ZPoly.add a b) = RPoly.ofInts qs a + RPoly.ofInts qs b :=
  ofInts_ext _ (add_length a b ha hb) ((lift (RPoly.ofInts qs a) (ofInts_wf a ha) : WFPoly qs n) + lift (RPoly.ofInts qs b) (ofInts_wf b hb)) (fun k => by
    rw [WFPoly.toProd_add, Pi.add_apply, toProd_ofInts a ha, toProd_ofInts b hb, zq_add a b ha hb])

theorem ofInts_sub (a b : List ℤ) (ha : a.length = n) (hb : b.length = n) :
    RPoly.ofInts qs (ZPoly.sub a b) = RPoly.ofInts qs a - RPoly.ofInts qs b :=
  ofInts_ext _ (sub_length a b ha hb) ((lift (RPoly.ofInts qs a) (ofInts_wf a ha) : WFPoly qs n) - lift (RPoly.ofInts qs b) (ofInts_wf b hb)) (fun k => by
    rw [WFPoly.toProd_sub, Pi.sub_apply, toProd_ofInts a ha, toProd_ofInts b hb, zq_sub a b ha hb])

/-- **`ofInts` of the integer negacyclic product is the product of the model** -/
theorem ofInts_mul (a b : List ℤ) (ha : a.length = n) (hb : b.length = n) :
    RPoly.ofInts qs (ZPoly.mul a b) = RPoly.ofInts qs a * RPoly.ofInts qs b :=
  ofInts_ext _ (by rw [mul_length a b, ha]) ((lift (RPoly.ofInts qs a) (ofInts_wf a ha) : WFPoly qs n) * lift (RPoly.ofInts qs b) (ofInts_wf b hb)) (fun k => by
    rw [WFPoly.toProd_mul, Pi.mul_apply, toProd_ofInts a ha, toProd_ofInts b hb, zq_mul a b ha])

theorem ofInts_zero : RPoly.ofInts qs (ZPoly.zero n) = RPoly.zero qs n :=
  ofInts_ext _ (by simp [ZPoly.zero]) (0 : WFPoly qs n) (fun k => by
    rw [WFPoly.toProd_zero, Pi.zero_apply, zq_zero])

/-- multiplication by a natural constant -/
theorem ofInts_smul (k : ℕ) (a : List ℤ) (ha : a.length = n) :
    RPoly.ofInts qs (ZPoly.smul (k : ℤ) a) = constQ qs n k * RPoly.ofInts qs a := by
  rw [constQ_eq]
  exact ofInts_ext _ (by rw [smul_length (k : ℤ) a, ha]) ((WFPoly.constNat (fun _ => k) : WFPoly qs n) * lift (RPoly.ofInts qs a) (ofInts_wf a ha)) (fun i => by
    rw [WFPoly.toProd_mul, Pi.mul_apply, toProd_ofInts a ha, WFPoly.toProd_constNat, zq_smul, Int.cast_natCast])

/-! ### the weighted sums -/

theorem dotZ_nil_left (es : List (List ℤ)) : dotZ n [] es = ZPoly.zero n := by simp [dotZ, sumZ]
theorem dotZ_nil_right (ds : List (List ℤ)) : dotZ n ds [] = ZPoly.zero n := by simp [dotZ, sumZ]

theorem wsumRow_ofInts : ∀ (ds es : List (List ℤ)), (∀ d ∈ ds, d.length = n) → (∀ e ∈ es, e.length = n) →
    KS.wsumRow (RPoly.zero qs n) (ds.map (RPoly.ofInts qs)) (es.map (RPoly.ofInts qs))
        = RPoly.ofInts qs (dotZ n ds es)
      ∧ (dotZ n ds es).length = n
  | [], es, _, _ => by
    rw [dotZ_nil_left]; exact ⟨by simp [KS.wsumRow, ofInts_zero], by simp [ZPoly.zero]⟩
  | d :: ds, [], _, _ => by
    rw [dotZ_nil_right]; exact ⟨by simp [KS.wsumRow, ofInts_zero], by simp [ZPoly.zero]⟩
  | d :: ds, e :: es, hd, he => by
    obtain ⟨ih1, ih2⟩ := wsumRow_ofInts ds es (fun x hx => hd x (by simp [hx])) (fun x hx => he x (by simp [hx]))
    have hdl := hd d (by simp)
    have hel := he e (by simp)
    rw [dotZ_cons]
    refine ⟨?_, add_length _ _ (by rw [mul_length d e, hdl]) ih2⟩
    simp only [List.map_cons, KS.wsumRow]
    rw [ih1, ofInts_add _ _ (by rw [mul_length d e, hdl]) ih2, ofInts_mul d e hdl hel]

theorem dotMatZ_nil_left (es : List (List (List ℤ))) : dotMatZ n [] es = ZPoly.zero n := by simp [dotMatZ, sumZ]
theorem dotMatZ_nil_right (ds : List (List (List ℤ))) : dotMatZ n ds [] = ZPoly.zero n := by simp [dotMatZ, sumZ]

/-- **`Σ_{i,j} d_ij·e_ij` of reductions is the reduction of the integer sum** -/
theorem wsumMat_ofInts : ∀ (ds es : List (List (List ℤ))), (∀ r ∈ ds, ∀ d ∈ r, d.length = n) →
    (∀ r ∈ es, ∀ e ∈ r, e.length = n) →
    KS.wsumMat (RPoly.zero qs n) (ds.map (List.map (RPoly.ofInts qs))) (es.map (List.map (RPoly.ofInts qs)))
        = RPoly.ofInts qs (dotMatZ n ds es)
      ∧ (dotMatZ n ds es).length = n
  | [], es, _, _ => by
    rw [dotMatZ_nil_left]; exact ⟨by simp [KS.wsumMat, ofInts_zero], by simp [ZPoly.zero]⟩
  | d :: ds, [], _, _ => by
    rw [dotMatZ_nil_right]; exact ⟨by simp [KS.wsumMat, ofInts_zero], by simp [ZPoly.zero]⟩
  | d :: ds, e :: es, hd, he => by
    obtain ⟨ih1, ih2⟩ := wsumMat_ofInts ds es (fun x hx => hd x (by simp [hx])) (fun x hx => he x (by simp [hx]))
    obtain ⟨hr1, hr2⟩ := wsumRow_ofInts (qs := qs) d e (hd d (by simp)) (he e (by simp))
    rw [dotMatZ_cons]
    refine ⟨?_, add_length _ _ hr2 ih2⟩
    simp only [List.map_cons, KS.wsumMat]
    rw [ih1, hr1, ofInts_add _ _ hr2 ih2]

end rp

end Lattigo.StackKS
