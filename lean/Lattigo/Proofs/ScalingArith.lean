/-
  Scaling (ring/scaling.go), arithmetic background for the integer level:
  `NTT.modExp` is `x^e mod p`, the Fermat inverse `invMod`, `prodN`, and CRT uniqueness for
  pairwise coprime chains.
-/
import Lattigo.Model.Scaling
import Mathlib.FieldTheory.Finite.Basic
import Mathlib.Data.Nat.ChineseRemainder
import Mathlib.Tactic.Ring
import Mathlib.Tactic.Linarith
import Mathlib.Tactic.NormNum.Prime

namespace Lattigo.Scaling
open Lattigo

/-! ## `NTT.modExp` -/

theorem modExp_go_lt (p : Nat) : ∀ (fuel x e r : Nat), r < p → NTT.modExp.go p fuel x e r < p := by
  intro fuel
  induction fuel with
  | zero => intro x e r hr; simpa [NTT.modExp.go] using hr
  | succ n ih =>
    intro x e r hr
    rw [NTT.modExp.go]
    split
    · exact hr
    · apply ih
      split
      · exact Nat.mod_lt _ (by omega)
      · exact hr

theorem modExp_go_eq (p : Nat) : ∀ (fuel x e r : Nat), e < 2 ^ fuel → r < p →
    NTT.modExp.go p fuel x e r = (r * x ^ e) % p := by
  intro fuel
  induction fuel with
  | zero =>
    intro x e r he hr
    have h0 : e = 0 := by simpa using he
    subst h0
    simp [NTT.modExp.go, Nat.mod_eq_of_lt hr]
  | succ n ih =>
    intro x e r he hr
    rw [NTT.modExp.go]
    split
    · next h0 => subst h0; simp [Nat.mod_eq_of_lt hr]
    · have hp : 0 < p := by omega
      have he2 : e / 2 < 2 ^ n := by
        rw [Nat.pow_succ] at he; omega
      have hx : x ^ e = (x * x) ^ (e / 2) * x ^ (e % 2) := by
        rw [← pow_two, ← pow_mul, ← pow_add, Nat.div_add_mod]
      split
      · next h1 =>
        rw [ih _ _ _ he2 (Nat.mod_lt _ hp), hx, h1]
        have : (r * x % p) * (x * x % p) ^ (e / 2) ≡ (r * x) * (x * x) ^ (e / 2) [MOD p] :=
          Nat.ModEq.mul (Nat.mod_modEq _ _) ((Nat.mod_modEq _ _).pow _)
        have h2 : r * ((x * x) ^ (e / 2) * x ^ 1) = (r * x) * (x * x) ^ (e / 2) := by ring
        rw [h2]; exact this
      · next h1 =>
        have h0 : e % 2 = 0 := by omega
        rw [ih _ _ _ he2 hr, hx, h0]
        have : r * (x * x % p) ^ (e / 2) ≡ r * (x * x) ^ (e / 2) [MOD p] :=
          Nat.ModEq.mul rfl ((Nat.mod_modEq _ _).pow _)
        simp only [pow_zero, Nat.mul_one]; exact this

/-- the 64-iteration square-and-multiply computes `x^e mod p` for every exponent below `2^64` -/
theorem modExp_eq (x e p : Nat) (hp : 0 < p) (he : e < 2 ^ 64) : NTT.modExp x e p = x ^ e % p := by
  unfold NTT.modExp
  by_cases h1 : p = 1
  · subst h1
    rw [modExp_go_eq 1 64 _ _ _ he (by simp)]
    simp [Nat.mod_one]
  · have hp1 : 1 < p := by omega
    rw [modExp_go_eq p 64 _ _ _ he (Nat.mod_lt _ hp), Nat.mod_eq_of_lt hp1, Nat.one_mul,
      ← Nat.pow_mod]

theorem modExp_lt (x e p : Nat) (hp : 0 < p) : NTT.modExp x e p < p := by
  unfold NTT.modExp
  exact modExp_go_lt p 64 _ _ _ (Nat.mod_lt _ hp)

/-! ## the Fermat inverse -/

theorem invMod_lt (a q : Nat) (hq : 0 < q) : invMod a q < q := modExp_lt _ _ _ hq

theorem invMod_eq (a q : Nat) (hq : 0 < q) (hq64 : q < 2 ^ 64) : invMod a q = a ^ (q - 2) % q := by
  unfold invMod
  exact modExp_eq _ _ _ hq (by omega)

theorem invMod_spec (a q : Nat) (hq : Nat.Prime q) (hq64 : q < 2 ^ 64) (ha : ¬ q ∣ a) :
    (a * invMod a q) % q = 1 := by
  have h2 : 2 ≤ q := hq.two_le
  rw [invMod_eq a q (by omega) hq64, Nat.mul_mod_mod]
  have hcop : Nat.Coprime a q := ((Nat.Prime.coprime_iff_not_dvd hq).2 ha).symm
  have hf : a ^ (q - 1) ≡ 1 [MOD q] := Nat.ModEq.pow_card_sub_one_eq_one hq hcop
  have hpw : a * a ^ (q - 2) = a ^ (q - 1) := by
    rw [← pow_succ']; congr 1; omega
  rw [hpw]
  have := hf
  unfold Nat.ModEq at this
  rw [this]
  exact Nat.mod_eq_of_lt (by omega)

-- test (non-vacuity): 257 is invertible modulo the prime 97
example : (257 * invMod 257 97) % 97 = 1 :=
  invMod_spec 257 97 (by norm_num) (by norm_num) (by norm_num)
example : invMod 257 97 = 77 := by decide

/-! ## `prodN` -/

theorem prodN_eq_prod (qs : List Nat) : prodN qs = qs.prod := by
  induction qs with
  | nil => rfl
  | cons q qs ih => simp [prodN, ih]

theorem prodN_pos (qs : List Nat) (h : ∀ q ∈ qs, 0 < q) : 0 < prodN qs := by
  induction qs with
  | nil => simp [prodN]
  | cons q qs ih =>
    simp only [prodN]
    exact Nat.mul_pos (h q (by simp)) (ih fun q' hq' => h q' (by simp [hq']))

theorem prodN_append (a b : List Nat) : prodN (a ++ b) = prodN a * prodN b := by
  simp [prodN_eq_prod]

theorem dvd_prodN_of_mem (qs : List Nat) (q : Nat) (h : q ∈ qs) : q ∣ prodN qs := by
  rw [prodN_eq_prod]; exact List.dvd_prod h

/-! ## CRT uniqueness -/

theorem modEq_prodN (qs : List Nat) (hc : qs.Pairwise Nat.Coprime) (a b : Nat)
    (h : ∀ q ∈ qs, a % q = b % q) : a % prodN qs = b % prodN qs := by
  induction qs with
  | nil => simp [prodN, Nat.mod_one]
  | cons q qs ih =>
    rw [List.pairwise_cons] at hc
    have h1 : a ≡ b [MOD q] := h q (by simp)
    have h2 : a ≡ b [MOD prodN qs] := ih hc.2 fun q' hq' => h q' (by simp [hq'])
    have hcop : Nat.Coprime q (prodN qs) := by
      rw [prodN_eq_prod]
      exact Nat.coprime_list_prod_right_iff.2 hc.1
    exact (Nat.modEq_and_modEq_iff_modEq_mul hcop).1 ⟨h1, h2⟩

theorem residues_inj (qs : List Nat) (hc : qs.Pairwise Nat.Coprime) (a b : Nat)
    (ha : a < prodN qs) (hb : b < prodN qs) (h : residues qs a = residues qs b) : a = b := by
  have h' : ∀ q ∈ qs, a % q = b % q := by
    unfold residues at h
    exact List.map_inj_left.1 h
  have := modEq_prodN qs hc a b h'
  rwa [Nat.mod_eq_of_lt ha, Nat.mod_eq_of_lt hb] at this

theorem pairwise_coprime_of_primes (qs : List Nat) (hp : ∀ q ∈ qs, Nat.Prime q) (hd : qs.Nodup) :
    qs.Pairwise Nat.Coprime :=
  List.Pairwise.imp_of_mem
    (fun {a b} ha hb hne => (Nat.coprime_primes (hp a ha) (hp b hb)).2 hne) hd

-- test (non-vacuity): distinct primes, CRT uniqueness below 97·193
example : [97, 193].Pairwise Nat.Coprime :=
  pairwise_coprime_of_primes [97, 193] (by simp only [List.mem_cons, List.not_mem_nil, or_false, forall_eq_or_imp, forall_eq]; norm_num) (by decide)
example : residues [97, 193] 12345 = [26, 186] ∧ 12345 < prodN [97, 193] := by decide

end Lattigo.Scaling

#print axioms Lattigo.Scaling.modExp_eq
#print axioms Lattigo.Scaling.modExp_lt
#print axioms Lattigo.Scaling.invMod_lt
#print axioms Lattigo.Scaling.invMod_eq
#print axioms Lattigo.Scaling.invMod_spec
#print axioms Lattigo.Scaling.prodN_eq_prod
#print axioms Lattigo.Scaling.prodN_pos
#print axioms Lattigo.Scaling.prodN_append
#print axioms Lattigo.Scaling.dvd_prodN_of_mem
#print axioms Lattigo.Scaling.modEq_prodN
#print axioms Lattigo.Scaling.residues_inj
#print axioms Lattigo.Scaling.pairwise_coprime_of_primes
