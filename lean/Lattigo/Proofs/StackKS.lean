/-
  Stack closure C02 → C03/C04/C20, part 2: POLYNOMIAL level (`RPoly` / `WFPoly`).

  * constants: `KS.constPoly qs n (qs.map f) = val (WFPoly.constNat f)` (`constPoly_map`), `constQ qs n k` the constant
    `k` of `R_qs`, `takeRows_constQ`;
  * (1) `hP_closed` : `constQ qs n P · pinvElt qs ps n = 1` for `P = Π ps` coprime to every `q ∈ qs`
    (from `RPolyRing.modInv_spec`);
  * `RPoly.ofInts`: rows, `takeRows`, `KS.partP`, well-formedness;
  * (2) the model's centred remainder of C04: `remZ xP` (the signed coefficient list `KS.modUpPtoQ` reduces modulo
    the `q_k`), `rem_partP` (`rem x ≡ x` on the rows of `P`, EVERY IEEE index), `remZ_bound` (`2‖remZ‖∞ ≤ P`
    under the named hypothesis `FloatExactPoly`), `modDownR_closed` (`P · modDownR x = π x − π(rem x)`).
-/
import Lattigo.Proofs.StackKSInt
import Lattigo.Proofs.RPolyTransport

set_option linter.unusedSectionVars false

namespace Lattigo.StackKS
open Lattigo Lattigo.RPolyRing Lattigo.Transport Lattigo.Scaling Lattigo.BasisExt

/-! ## constants -/

theorem scalarRow_eq (q n k : ℕ) (hn : 1 ≤ n) :
    scalarRow q n k = (k % q) :: List.replicate (n - 1) 0 := by
  obtain ⟨m, rfl⟩ : ∃ m, n = m + 1 := ⟨n - 1, by omega⟩
  unfold scalarRow
  rw [List.range_succ_eq_map]
  simp only [List.map_cons, List.map_map, if_true, Nat.add_sub_cancel]
  congr 1
  rw [List.eq_replicate_iff]
  refine ⟨by simp, fun b hb => ?_⟩
  simp only [List.mem_map, List.mem_range, Function.comp] at hb
  obtain ⟨a, _, rfl⟩ := hb
  simp

theorem zip_map_self {α β γ : Type} (f : α → β) (h : α × β → γ) : ∀ l : List α,
    (l.zip (l.map f)).map h = l.map fun a => h (a, f a)
  | [] => rfl
  | a :: l => by simp only [List.map_cons, List.zip_cons_cons, zip_map_self f h l]

section consts
variable {qs : List ℕ} {n : ℕ} [hg : Good qs n]

/-- the model's constant polynomials (`KS.constPoly`, values given per modulus) are the ring's `constNat` -/
theorem constPoly_map (f : ℕ → ℕ) : KS.constPoly qs n (qs.map f) = val (WFPoly.constNat (qs := qs) (n := n) f) := by
  show _ = ({ qs := qs, c := qs.map fun q => scalarRow q n (f q) } : RPoly)
  unfold KS.constPoly
  rw [zip_map_self]
  congr 1
  apply List.map_congr_left
  intro q _
  rw [scalarRow_eq _ _ _ hg.n_pos]

theorem constPoly_map_wf (f : ℕ → ℕ) : WFq qs n (KS.constPoly qs n (qs.map f)) := by
  rw [constPoly_map]; exact val_wf _

end consts

/-- the constant `k` of `R_qs` -/
def constQ (qs : List ℕ) (n k : ℕ) : RPoly := KS.constPoly qs n (qs.map fun _ => k)

theorem constQ_eq {qs : List ℕ} {n : ℕ} [Good qs n] (k : ℕ) :
    constQ qs n k = val (WFPoly.constNat (qs := qs) (n := n) fun _ => k) := constPoly_map _

theorem constQ_wf {qs : List ℕ} {n : ℕ} [Good qs n] (k : ℕ) : WFq qs n (constQ qs n k) := constPoly_map_wf _

theorem takeRows_constQ (qs ps : List ℕ) (n k : ℕ) :
    takeRows qs.length (constQ (qs ++ ps) n k) = constQ qs n k := by
  unfold constQ KS.constPoly takeRows
  rw [zip_map_self, zip_map_self, List.map_append, List.take_left' (by simp)]
  simp

/-! ## (1) `P · P⁻¹ = 1` -/

theorem pinvElt_eq {qs : List ℕ} {n : ℕ} [Good qs n] (ps : List ℕ) :
    KS.pinvElt qs ps n = val (WFPoly.constNat (qs := qs) (n := n) fun q => RPoly.modInv (RPoly.prod ps % q) q) :=
  constPoly_map _

theorem pinvElt_wf {qs : List ℕ} {n : ℕ} [Good qs n] (ps : List ℕ) : WFq qs n (KS.pinvElt qs ps n) :=
  constPoly_map_wf _

theorem mul_modInv_mod (P q : ℕ) (hq : 2 ≤ q) (hc : Nat.Coprime P q) :
    (P * RPoly.modInv (P % q) q) % q = 1 := by
  have h := modInv_spec (P % q) q hq (by rw [Nat.Coprime, ← Nat.gcd_rec]; exact Nat.Coprime.symm hc)
  rwa [Nat.mod_mul_mod] at h

/-- **(1) `hP`**: the constant `P = Π ps` of `R_Q` times the model's `pinvElt` is `1`, whenever `P` is coprime to
every modulus of `Q` (in particular for pairwise distinct primes `qs ++ ps`). -/
theorem hP_closed {qs : List ℕ} {n : ℕ} [hg : Good qs n] (ps : List ℕ)
    (hcop : ∀ q ∈ qs, Nat.Coprime (RPoly.prod ps) q) :
    constQ qs n (RPoly.prod ps) * KS.pinvElt qs ps n = rpOne qs n := by
  rw [constQ_eq, pinvElt_eq]
  exact congrArg val (WFPoly.constNat_mul_eq_one (qs := qs) (n := n) (fun _ => RPoly.prod ps)
    (fun q => RPoly.modInv (RPoly.prod ps % q) q)
    (fun q hq => mul_modInv_mod _ _ (hg.q_ge q hq) (hcop q hq)))

/-- coprimality of `Π ps` with the moduli of `Q` from pairwise coprimality of the whole chain -/
theorem coprime_prod_of_pairwise {qs ps : List ℕ} (hc : (qs ++ ps).Pairwise Nat.Coprime) :
    ∀ q ∈ qs, Nat.Coprime (RPoly.prod ps) q := by
  intro q hq
  rw [prod_eq_prodN]
  exact (coprime_prodN (fun p hp => (List.pairwise_append.mp hc).2.2 q hq p hp)).symm

theorem pairwise_right {qs ps : List ℕ} (hc : (qs ++ ps).Pairwise Nat.Coprime) : ps.Pairwise Nat.Coprime :=
  (List.pairwise_append.mp hc).2.1

theorem pairwise_left {qs ps : List ℕ} (hc : (qs ++ ps).Pairwise Nat.Coprime) : qs.Pairwise Nat.Coprime :=
  (List.pairwise_append.mp hc).1

/-- distinct primes are pairwise coprime -/
theorem pairwise_coprime_of_primes {l : List ℕ} (hp : ∀ q ∈ l, Nat.Prime q) (hnd : l.Nodup) :
    l.Pairwise Nat.Coprime := by
  refine List.Pairwise.imp_of_mem ?_ hnd
  intro a b ha hb hab
  exact (Nat.coprime_primes (hp a ha) (hp b hb)).mpr hab

/-! ## `ofInts` -/

theorem takeRows_ofInts (qs ps : List ℕ) (v : List ℤ) :
    takeRows qs.length (RPoly.ofInts (qs ++ ps) v) = RPoly.ofInts qs v := by
  simp [takeRows, RPoly.ofInts]

theorem partP_ofInts (qs ps : List ℕ) (v : List ℤ) :
    KS.partP qs.length (RPoly.ofInts (qs ++ ps) v) = RPoly.ofInts ps v := by
  simp [KS.partP, RPoly.ofInts]

theorem good_right {qs ps : List ℕ} {n : ℕ} (hg : Good (qs ++ ps) n) : Good ps n :=
  ⟨hg.n_pos, fun q hq => hg.q_ge q (List.mem_append_right _ hq)⟩

theorem good_left {qs ps : List ℕ} {n : ℕ} (hg : Good (qs ++ ps) n) : Good qs n :=
  ⟨hg.n_pos, fun q hq => hg.q_ge q (List.mem_append_left _ hq)⟩

/-- the `P` rows of a well-formed element of `R_{QP}` are a well-formed element of `R_P` -/
theorem partP_wf {qs ps : List ℕ} {n : ℕ} {x : RPoly} (h : WFq (qs ++ ps) n x) :
    WFq ps n (KS.partP qs.length x) := by
  obtain ⟨h1, h2, h3⟩ := h
  refine ⟨by simp [KS.partP, h1], by simp [KS.partP, h1, h2], fun i hi => ?_⟩
  have hi' : i < ps.length := by simpa [KS.partP, h1] using hi
  have hi'' : qs.length + i < x.qs.length := by rw [h1, List.length_append]; omega
  have := h3 (qs.length + i) hi''
  have e1 : (KS.partP qs.length x).qs[i] = x.qs[qs.length + i] := by simp [KS.partP]
  have e2 : (KS.partP qs.length x).c.getD i [] = x.c.getD (qs.length + i) [] := by
    simp [KS.partP, List.getD_eq_getElem?_getD]
  rw [e1, e2]; exact this

theorem headD_length {ps : List ℕ} {n : ℕ} {x : RPoly} (h : WFq ps n x) (hne : ps ≠ []) :
    (x.c.headD []).length = n := by
  obtain ⟨h1, h2, h3⟩ := h
  have hpos : 0 < x.qs.length := by rw [h1]; exact List.length_pos_of_ne_nil hne
  have := (h3 0 hpos).len
  have e : x.c.headD [] = x.c.getD 0 [] := by cases x.c <;> rfl
  rw [e]; exact this

/-- entry `(k, t)` of a well-formed polynomial -/
theorem wf_entry_lt {ps : List ℕ} {n : ℕ} {x : RPoly} (h : WFq ps n x) (k : ℕ) (hk : k < ps.length) (t : ℕ)
    (ht : t < n) : (x.c.getD k []).length = n ∧ (x.c.getD k []).getD t 0 < ps.getD k 0 := by
  obtain ⟨h1, h2, h3⟩ := h
  have hk' : k < x.qs.length := by rw [h1]; exact hk
  have hw := h3 k hk'
  have e : x.qs[k] = ps.getD k 0 := by
    simp [List.getD_eq_getElem?_getD, h1, hk]
  rw [e] at hw
  exact ⟨hw.len, getD_lt_of_mem hw.lt t (by rw [hw.len]; exact ht)⟩

/-! ## (2) the centred remainder modulo `P` of the key-switching model (C04) -/

/-- the signed coefficients `KS.modUpPtoQ` reduces modulo the `q_k`: the model's centred lift (`KS.centerHalf`: the
HPS formula with the IEEE index) of the residues modulo `P`, coefficient by coefficient -/
def remZ (xP : RPoly) : List ℤ :=
  (List.range (xP.c.headD []).length).map fun t => KS.centerHalf xP.qs (KS.colOf xP.c t)

theorem modUpPtoQ_eq (qs : List ℕ) (xP : RPoly) : KS.modUpPtoQ qs xP = RPoly.ofInts qs (remZ xP) := rfl

/-- the centred remainder as an element of `R_{QP}` -/
def rem (qs ps : List ℕ) (x : RPoly) : RPoly := RPoly.ofInts (qs ++ ps) (remZ (KS.partP qs.length x))

theorem takeRows_rem (qs ps : List ℕ) (x : RPoly) :
    takeRows qs.length (rem qs ps x) = KS.modUpPtoQ qs (KS.partP qs.length x) := takeRows_ofInts _ _ _

theorem remZ_length {ps : List ℕ} {n : ℕ} {xP : RPoly} (h : WFq ps n xP) (hne : ps ≠ []) :
    (remZ xP).length = n := by
  unfold remZ
  rw [List.length_map, List.length_range]
  exact headD_length h hne

theorem rem_wf {qs ps : List ℕ} {n : ℕ} [hg : Good (qs ++ ps) n] {x : RPoly} (h : WFq (qs ++ ps) n x)
    (hne : ps ≠ []) : WFq (qs ++ ps) n (rem qs ps x) :=
  ofInts_wf _ (remZ_length (partP_wf h) hne)

theorem modUpPtoQ_wf {qs ps : List ℕ} {n : ℕ} [hgq : Good qs n] {x : RPoly} (h : WFq (qs ++ ps) n x)
    (hne : ps ≠ []) : WFq qs n (KS.modUpPtoQ qs (KS.partP qs.length x)) := by
  rw [modUpPtoQ_eq]; exact ofInts_wf _ (remZ_length (partP_wf h) hne)

/-- the residues of coefficient `t` of a well-formed `xP` are the residues of some `X < P` -/
theorem col_residues {ps : List ℕ} {n : ℕ} {xP : RPoly} (h : WFq ps n xP) (hc : ps.Pairwise Nat.Coprime)
    (hge : ∀ p ∈ ps, 2 ≤ p) (t : ℕ) :
    ∃ X, X < prodN ps ∧ List.Forall₂ (fun m r => r % m = X % m) ps (KS.colOf xP.c t) :=
  crt_exists ps _ hc (pos_of_ge2 hge) (by simp [KS.colOf, h.2.1, h.1])

theorem forall₂_getD {R : ℕ → ℕ → Prop} {l r : List ℕ} (h : List.Forall₂ R l r) (k : ℕ) (hk : k < l.length) :
    R (l.getD k 0) (r.getD k 0) := by
  have hl := h.length_eq
  have := (List.forall₂_iff_get.mp h).2 k hk (by omega)
  simpa [List.getD_eq_getElem?_getD, hk, (by omega : k < r.length)] using this

theorem colOf_getD (rows : List (List ℕ)) (t k : ℕ) (hk : k < rows.length) :
    (KS.colOf rows t).getD k 0 = (rows.getD k []).getD t 0 := by
  simp [KS.colOf, List.getD_eq_getElem?_getD, hk]

/-- **`rem x ≡ x (mod P)`, for every value of the IEEE index**: reducing the model's centred lift modulo the `p_k`
gives back the `P` rows. -/
theorem ofInts_remZ {ps : List ℕ} {n : ℕ} {xP : RPoly} (h : WFq ps n xP) (hne : ps ≠ [])
    (hc : ps.Pairwise Nat.Coprime) (hge : ∀ p ∈ ps, 2 ≤ p) : RPoly.ofInts ps (remZ xP) = xP := by
  have hhead : (xP.c.headD []).length = n := headD_length h hne
  have h1 : xP.qs = ps := h.1
  have h2 : xP.c.length = ps.length := by rw [h.2.1, h1]
  have hgoal : (RPoly.ofInts ps (remZ xP)).c = xP.c := by
    show ps.map (fun (q : ℕ) => (remZ xP).map fun (x : ℤ) => (x % (q : ℤ)).toNat) = xP.c
    apply List.ext_getElem (by rw [List.length_map, h2])
    intro k hk1 hk2
    have hk : k < ps.length := by rw [← h2]; exact hk2
    have erow : xP.c[k] = xP.c.getD k [] := List.getElem_eq_getD []
    have hlen : (xP.c.getD k []).length = n := by
      have := (h.2.2 k (by rw [h1]; exact hk)).len
      exact this
    rw [List.getElem_map, erow]
    apply List.ext_getElem (by rw [List.length_map, remZ_length h hne, hlen])
    intro t ht1 ht2
    have ht : t < n := by rw [← hlen]; exact ht2
    obtain ⟨_, hlt⟩ := wf_entry_lt h k hk t ht
    obtain ⟨X, hX, hres⟩ := col_residues h hc hge t
    have hmem : ps[k] ∈ ps := List.getElem_mem hk
    have hem := centerHalf_emod ps (KS.colOf xP.c t) X hc hge hres ps[k] hmem
    have hr := forall₂_getD hres k hk
    rw [colOf_getD _ _ _ hk2] at hr
    have eqk : ps.getD k 0 = ps[k] := by simp [List.getD_eq_getElem?_getD, hk]
    rw [eqk] at hr hlt
    have e2 : (xP.c.getD k [])[t] = (xP.c.getD k []).getD t 0 := List.getElem_eq_getD 0
    have e3 : (remZ xP)[t]'(by rw [remZ_length h hne]; exact ht) = KS.centerHalf ps (KS.colOf xP.c t) := by
      simp only [remZ, List.getElem_map, List.getElem_range, h1]
    rw [List.getElem_map, e3, e2, hem]
    rw [Nat.mod_eq_of_lt hlt] at hr
    rw [hr]
    have : ((X : ℤ) % (ps[k] : ℤ)) = ((X % ps[k] : ℕ) : ℤ) := by push_cast; rfl
    rw [this, Int.toNat_natCast]
  obtain ⟨xqs, xc⟩ := xP
  simp only at h1
  subst h1
  exact congrArg (RPoly.mk xqs) hgoal

theorem partP_rem {qs ps : List ℕ} {n : ℕ} {x : RPoly} (h : WFq (qs ++ ps) n x) (hne : ps ≠ [])
    (hc : ps.Pairwise Nat.Coprime) (hge : ∀ p ∈ ps, 2 ≤ p) :
    KS.partP qs.length (rem qs ps x) = KS.partP qs.length x := by
  unfold rem
  rw [partP_ofInts]
  exact ofInts_remZ (partP_wf h) hne hc hge

/-- **the named IEEE hypothesis on a polynomial**: for every coefficient, the IEEE index of the HPS reconstruction of
its residues modulo the moduli of `xP` is the exact one (`FloatExact`, i.e. C02's `fidx … = hpsV …`) -/
def FloatExactPoly (xP : RPoly) : Prop :=
  ∀ t, t < (xP.c.headD []).length →
    FloatExact xP.qs (KS.reconY xP.qs (KS.colOf xP.c t) (prodN xP.qs / 2))

/-- **`‖rem‖∞ ≤ P/2`** (as `2|c| ≤ P`, `P` odd) under the named IEEE hypothesis -/
theorem remZ_bound {ps : List ℕ} {n : ℕ} {xP : RPoly} (h : WFq ps n xP) (hc : ps.Pairwise Nat.Coprime)
    (hge : ∀ p ∈ ps, 2 ≤ p) (hodd : prodN ps % 2 = 1) (hf : FloatExactPoly xP) :
    ∀ c ∈ remZ xP, 2 * c.natAbs ≤ prodN ps := by
  intro c hcm
  simp only [remZ, List.mem_map, List.mem_range] at hcm
  obtain ⟨t, ht, rfl⟩ := hcm
  have h1 : xP.qs = ps := h.1
  obtain ⟨X, _, hres⟩ := col_residues h hc hge t
  have hf' := hf t ht
  rw [h1] at hf' ⊢
  exact centerHalf_natAbs_le ps _ X hc hge hres hf' hodd

/-- the value: under the named hypothesis coefficient `t` of `remZ` is C02's `centeredRep P X_t` for every `X_t`
with the residues of column `t` -/
theorem remZ_getD {ps : List ℕ} {n : ℕ} {xP : RPoly} (h : WFq ps n xP) (hc : ps.Pairwise Nat.Coprime)
    (hge : ∀ p ∈ ps, 2 ≤ p) (hf : FloatExactPoly xP) (t : ℕ) (ht : t < (xP.c.headD []).length) (X : ℕ)
    (hres : List.Forall₂ (fun m r => r % m = X % m) ps (KS.colOf xP.c t)) :
    (remZ xP).getD t 0 = centeredRep (prodN ps) X := by
  have h1 : xP.qs = ps := h.1
  have hf' := hf t ht
  rw [h1] at hf'
  have : (remZ xP).getD t 0 = KS.centerHalf xP.qs (KS.colOf xP.c t) := by
    have hl : t < (remZ xP).length := by unfold remZ; rw [List.length_map, List.length_range]; exact ht
    rw [← List.getElem_eq_getD (h := hl) 0]
    simp only [remZ, List.getElem_map, List.getElem_range]
  rw [this, h1]
  exact centerHalf_exact ps _ X hc hge hres hf'

/-! ## (2) `P · ModDown x = π x − π(rem x)` for the key-switching model -/

/-- ring algebra: `P·((a − ρ)·P⁻¹) = a − ρ` on well-formed values -/
theorem mul_modDown_cancel {qs : List ℕ} {n : ℕ} [Good qs n] {P pinv a ρ : RPoly} (hPw : WFq qs n P)
    (hpw : WFq qs n pinv) (ha : WFq qs n a) (hρ : WFq qs n ρ) (hP : P * pinv = rpOne qs n) :
    P * KS.modDown pinv a ρ = a - ρ := by
  obtain ⟨P, rfl⟩ := exists_lift P hPw
  obtain ⟨pinv, rfl⟩ := exists_lift pinv hpw
  obtain ⟨a, rfl⟩ := exists_lift a ha
  obtain ⟨ρ, rfl⟩ := exists_lift ρ hρ
  have hP' : P * pinv = 1 := val_injective hP
  show val (P * ((a - ρ) * pinv)) = val (a - ρ)
  congr 1
  calc P * ((a - ρ) * pinv) = (a - ρ) * (P * pinv) := by ring
    _ = a - ρ := by rw [hP', mul_one]

theorem modDown_wf {qs : List ℕ} {n : ℕ} [Good qs n] {pinv a ρ : RPoly}
    (hpw : WFq qs n pinv) (ha : WFq qs n a) (hρ : WFq qs n ρ) : WFq qs n (KS.modDown pinv a ρ) :=
  (ha.sub hρ).mul hpw

/-- the driver's `Evaluator.ModDown` on a well-formed element of `R_{QP}` (`P ≠ ∅`) in closed form -/
theorem modDownR_eq {qs ps : List ℕ} {n : ℕ} (hqs : qs ≠ []) (hps : ps ≠ []) {x : RPoly}
    (hx : WFq (qs ++ ps) n x) :
    KS.modDownR qs.length x
      = KS.modDown (KS.pinvElt qs ps n) (takeRows qs.length x) (KS.modUpPtoQ qs (KS.partP qs.length x)) := by
  have hxq : x.qs = qs ++ ps := hx.1
  have hdrop : (x.qs.drop qs.length).isEmpty = false := by
    rw [hxq, List.drop_left']
    · cases ps with
      | nil => exact absurd rfl hps
      | cons _ _ => rfl
    · rfl
  have hn : ((x.c.take qs.length).headD []).length = n := headD_length (takeRows_wf hx) hqs
  have ht : takeRows qs.length x = { qs := qs, c := x.c.take qs.length } := by
    unfold takeRows; rw [hxq, List.take_left' rfl]
  unfold KS.modDownR
  simp only [KS.partQ, KS.partP, hdrop, Bool.false_eq_true, if_false, hn]
  rw [ht, hxq, List.take_left' rfl, List.drop_left' rfl]

/-- **(2) for C04**: `P · modDownR x = π x − π(rem x)`, `modDownR x` well formed -/
theorem modDownR_closed {qs ps : List ℕ} {n : ℕ} [hgq : Good qs n] [Good (qs ++ ps) n] (hqs : qs ≠ [])
    (hps : ps ≠ []) (hcop : ∀ q ∈ qs, Nat.Coprime (RPoly.prod ps) q) {x : RPoly} (hx : WFq (qs ++ ps) n x) :
    constQ qs n (RPoly.prod ps) * KS.modDownR qs.length x
        = takeRows qs.length x - takeRows qs.length (rem qs ps x)
      ∧ WFq qs n (KS.modDownR qs.length x) := by
  rw [modDownR_eq hqs hps hx, takeRows_rem]
  exact ⟨mul_modDown_cancel (constQ_wf _) (pinvElt_wf ps) (takeRows_wf hx) (modUpPtoQ_wf hx hps)
      (hP_closed ps hcop),
    modDown_wf (pinvElt_wf ps) (takeRows_wf hx) (modUpPtoQ_wf hx hps)⟩

/-! ## the exact centred remainder (C03 `RLWE.RQ.modDown`, C20 `RGSW.modDown`) -/

/-- C02's centred representative of the CRT value of every coefficient of `xP` -/
def cenZ (xP : RPoly) : List ℤ :=
  (List.range (xP.c.headD []).length).map fun t =>
    centeredRep (prodN xP.qs) (RPoly.crt xP.qs (KS.colOf xP.c t))

/-- the exact centred remainder as an element of `R_{QP}` -/
def remC (qs ps : List ℕ) (x : RPoly) : RPoly := RPoly.ofInts (qs ++ ps) (cenZ (KS.partP qs.length x))

theorem cenZ_length {ps : List ℕ} {n : ℕ} {xP : RPoly} (h : WFq ps n xP) (hne : ps ≠ []) :
    (cenZ xP).length = n := by
  unfold cenZ
  rw [List.length_map, List.length_range]
  exact headD_length h hne

theorem remC_wf {qs ps : List ℕ} {n : ℕ} [hg : Good (qs ++ ps) n] {x : RPoly} (h : WFq (qs ++ ps) n x)
    (hne : ps ≠ []) : WFq (qs ++ ps) n (remC qs ps x) :=
  ofInts_wf _ (cenZ_length (partP_wf h) hne)

/-- **`‖remC‖∞ ≤ P/2`** (no hypothesis on any index: the CRT reconstruction of these models is exact) -/
theorem cenZ_bound (xP : RPoly) (hpos : 0 < prodN xP.qs) (hodd : prodN xP.qs % 2 = 1) :
    ∀ c ∈ cenZ xP, 2 * c.natAbs ≤ prodN xP.qs := by
  intro c hc
  simp only [cenZ, List.mem_map, List.mem_range] at hc
  obtain ⟨t, _, rfl⟩ := hc
  exact centeredRep_natAbs_le _ _ hpos hodd

/-- **all three models compute the same remainder**: under the named IEEE hypothesis the key-switching model's
`remZ` is the exact `cenZ` -/
theorem remZ_eq_cenZ {ps : List ℕ} {n : ℕ} {xP : RPoly} (h : WFq ps n xP) (hc : ps.Pairwise Nat.Coprime)
    (hge : ∀ p ∈ ps, 2 ≤ p) (hf : FloatExactPoly xP) : remZ xP = cenZ xP := by
  have h1 : xP.qs = ps := h.1
  unfold remZ cenZ
  apply List.map_congr_left
  intro t ht
  obtain ⟨X, hX, hres⟩ := col_residues h hc hge t
  have hf' := hf t (List.mem_range.mp ht)
  rw [h1] at hf' ⊢
  rw [crt_eq ps _ X hc hge hX hres]
  exact centerHalf_exact ps _ X hc hge hres hf'

/-- `remC x ≡ x (mod P)` -/
theorem ofInts_cenZ {ps : List ℕ} {n : ℕ} {xP : RPoly} (h : WFq ps n xP) (hne : ps ≠ [])
    (hc : ps.Pairwise Nat.Coprime) (hge : ∀ p ∈ ps, 2 ≤ p) : RPoly.ofInts ps (cenZ xP) = xP := by
  have hhead : (xP.c.headD []).length = n := headD_length h hne
  have h1 : xP.qs = ps := h.1
  have h2 : xP.c.length = ps.length := by rw [h.2.1, h1]
  have hgoal : (RPoly.ofInts ps (cenZ xP)).c = xP.c := by
    show ps.map (fun (q : ℕ) => (cenZ xP).map fun (x : ℤ) => (x % (q : ℤ)).toNat) = xP.c
    apply List.ext_getElem (by rw [List.length_map, h2])
    intro k hk1 hk2
    have hk : k < ps.length := by rw [← h2]; exact hk2
    have erow : xP.c[k] = xP.c.getD k [] := List.getElem_eq_getD []
    have hlen : (xP.c.getD k []).length = n := (h.2.2 k (by rw [h1]; exact hk)).len
    rw [List.getElem_map, erow]
    apply List.ext_getElem (by rw [List.length_map, cenZ_length h hne, hlen])
    intro t ht1 ht2
    have ht : t < n := by rw [← hlen]; exact ht2
    obtain ⟨_, hlt⟩ := wf_entry_lt h k hk t ht
    obtain ⟨X, hX, hres⟩ := col_residues h hc hge t
    have hmem : ps[k] ∈ ps := List.getElem_mem hk
    have hr := forall₂_getD hres k hk
    rw [colOf_getD _ _ _ hk2] at hr
    have eqk : ps.getD k 0 = ps[k] := by simp [List.getD_eq_getElem?_getD, hk]
    rw [eqk] at hr hlt
    have e2 : (xP.c.getD k [])[t] = (xP.c.getD k []).getD t 0 := List.getElem_eq_getD 0
    have e3 : (cenZ xP)[t]'(by rw [cenZ_length h hne]; exact ht) = centeredRep (prodN ps) X := by
      simp only [cenZ, List.getElem_map, List.getElem_range, h1]
      rw [crt_eq ps _ X hc hge hX hres]
    have hd : (ps[k] : ℤ) ∣ (prodN ps : ℤ) := by exact_mod_cast dvd_prodN ps _ hmem
    rw [List.getElem_map, e3, e2, ← Int.emod_emod_of_dvd _ hd, centeredRep_emod, Int.emod_emod_of_dvd _ hd]
    rw [Nat.mod_eq_of_lt hlt] at hr
    rw [hr]
    have : ((X : ℤ) % (ps[k] : ℤ)) = ((X % ps[k] : ℕ) : ℤ) := by push_cast; rfl
    rw [this, Int.toNat_natCast]
  obtain ⟨xqs, xc⟩ := xP
  simp only at h1
  subst h1
  exact congrArg (RPoly.mk xqs) hgoal

theorem partP_remC {qs ps : List ℕ} {n : ℕ} {x : RPoly} (h : WFq (qs ++ ps) n x) (hne : ps ≠ [])
    (hc : ps.Pairwise Nat.Coprime) (hge : ∀ p ∈ ps, 2 ≤ p) :
    KS.partP qs.length (remC qs ps x) = KS.partP qs.length x := by
  unfold remC
  rw [partP_ofInts]
  exact ofInts_cenZ (partP_wf h) hne hc hge

/-! ### the common shape of the two exact `ModDown`s -/

/-- rows of `(x_Q − lift)·P⁻¹`, as both `RLWE.RQ.modDown` and `RGSW.modDown` write them -/
def mdRows (qs : List ℕ) (P : ℕ) (rowsQ : List (List ℕ)) (lift : List ℤ) : List (List ℕ) :=
  (qs.zip rowsQ).map fun (qr : ℕ × List ℕ) =>
    (qr.2.zip lift).map fun (vl : ℕ × ℤ) =>
      (((vl.1 : ℤ) - vl.2) % (qr.1 : ℤ)).toNat * RPoly.modInv (P % qr.1) qr.1 % qr.1

theorem md_point (q : ℕ) (hq : 0 < q) (v : ℕ) (l : ℤ) :
    (v + q - (l % (q : ℤ)).toNat % q) % q = (((v : ℤ) - l) % (q : ℤ)).toNat := by
  have hq' : (0 : ℤ) < q := by exact_mod_cast hq
  have h0 : 0 ≤ l % (q : ℤ) := Int.emod_nonneg _ (by omega)
  have h1 : l % (q : ℤ) < q := Int.emod_lt_of_pos _ hq'
  obtain ⟨r, hr⟩ := Int.eq_ofNat_of_zero_le h0
  have hrq : r < q := by rw [hr] at h1; exact_mod_cast h1
  rw [hr, Int.toNat_natCast, Nat.mod_eq_of_lt hrq]
  have e : ((v : ℤ) - l) % (q : ℤ) = (((v + q - r) % q : ℕ) : ℤ) := by
    have hc : ((v + q - r : ℕ) : ℤ) = (v : ℤ) + q - r := by omega
    have hl : (q : ℤ) * (l / q) + r = l := by rw [← hr]; exact Int.mul_ediv_add_emod l q
    have : (v : ℤ) - l = ((v + q - r : ℕ) : ℤ) + (q : ℤ) * (-(l / q) - 1) := by
      rw [hc]; linarith
    rw [this, Int.add_mul_emod_self_left, Int.natCast_mod]
  rw [e, Int.toNat_natCast]

theorem md_row (q inv : ℕ) (hq : 0 < q) : ∀ (row : List ℕ) (lift : List ℤ),
    RPoly.rowScale inv q (RPoly.rowSub q row (lift.map fun (x : ℤ) => (x % (q : ℤ)).toNat))
      = (row.zip lift).map fun (vl : ℕ × ℤ) => (((vl.1 : ℤ) - vl.2) % (q : ℤ)).toNat * inv % q
  | [], _ => by simp [RPoly.rowScale, RPoly.rowSub]
  | _ :: _, [] => by simp [RPoly.rowScale, RPoly.rowSub]
  | v :: row, l :: lift => by
    have ih := md_row q inv hq row lift
    simp only [RPoly.rowScale, RPoly.rowSub, List.map_cons, List.zipWith_cons_cons, List.zip_cons_cons] at ih ⊢
    rw [ih, md_point q hq]

theorem md_rows_list (P : ℕ) (k : ℕ → ℕ) (hk : ∀ q, k q = RPoly.modInv (P % q) q) (lift : List ℤ) :
    ∀ (qs : List ℕ) (rowsQ : List (List ℕ)), (∀ q ∈ qs, 0 < q) →
      (qs.zip ((qs.zip (rowsQ.zip (qs.map fun (q : ℕ) => lift.map fun (x : ℤ) => (x % (q : ℤ)).toNat))).map
          fun (qxy : ℕ × List ℕ × List ℕ) => RPoly.rowSub qxy.1 qxy.2.1 qxy.2.2)).map
        (fun (qx : ℕ × List ℕ) => RPoly.rowScale (k qx.1) qx.1 qx.2)
      = mdRows qs P rowsQ lift
  | [], _, _ => by simp [mdRows]
  | _ :: _, [], _ => by simp [mdRows]
  | q :: qs, row :: rowsQ, hpos => by
    have ih := md_rows_list P k hk lift qs rowsQ (fun a ha => hpos a (by simp [ha]))
    simp only [mdRows, List.map_cons, List.zip_cons_cons] at ih ⊢
    rw [ih, md_row _ _ (hpos q (by simp)), hk]

/-- **the exact `ModDown` rows are `(x_Q − ofInts lift)·pinvElt`** on well-formed `x_Q` -/
theorem mdRows_eq {qs : List ℕ} {n : ℕ} [hg : Good qs n] (ps : List ℕ) {a : RPoly} (ha : WFq qs n a)
    (lf : List ℤ) (hl : lf.length = n) :
    ({ qs := qs, c := mdRows qs (RPoly.prod ps) a.c lf } : RPoly)
      = KS.modDown (KS.pinvElt qs ps n) a (RPoly.ofInts qs lf) := by
  have ho : WFq qs n (RPoly.ofInts qs lf) := ofInts_wf _ hl
  rw [pinvElt_eq]
  unfold KS.modDown
  show _ = val ((lift a ha - lift _ ho) * WFPoly.constNat _)
  rw [← WFPoly.scaleBy_eq_mul]
  show _ = RPoly.mapRows (fun q x => RPoly.rowScale (RPoly.modInv (RPoly.prod ps % q) q) q x)
    (RPoly.zipRows RPoly.rowSub a (RPoly.ofInts qs lf))
  unfold RPoly.mapRows RPoly.zipRows
  have haq : a.qs = qs := ha.1
  simp only [haq]
  congr 1
  exact (md_rows_list (RPoly.prod ps) _ (fun _ => rfl) lf qs a.c
    (fun q hq => by have := hg.q_ge q hq; omega)).symm

end Lattigo.StackKS
