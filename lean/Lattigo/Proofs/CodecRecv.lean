/-
  C08 — the receiver of the Go decoders (`decInto` of `Model/Codec.lean`).
    * `decInto_fresh` : with a fresh receiver `decInto` is `dec`;
    * `decInto_clean` : for a format without sticky flags / kept optionals / maps / conditional
      suffix the receiver is irrelevant — so those four constructs are the ONLY places where
      state of the receiver can leak into the decoded value.
-/
import Lattigo.Model.Codec

namespace Lattigo.Codec

theorem decNI_const (d : Val → List Nat → Option (Val × List Nat))
    (d' : List Nat → Option (Val × List Nat)) (rs : List Val)
    (h : ∀ r ∈ Val.unit :: rs, ∀ s, d r s = d' s) :
    ∀ n s, decNI d rs n s = decN d' n s := by
  intro n
  induction n generalizing rs with
  | zero => intro s; simp [decNI, decN]
  | succ n ih =>
    intro s
    have hh : d (rs.headD .unit) s = d' s := by
      cases rs with
      | nil => exact h _ (List.mem_cons_self ..) s
      | cons r rs' => exact h r (by simp) s
    have ht : ∀ r ∈ Val.unit :: rs.tail, ∀ s, d r s = d' s := by
      intro r hr
      cases rs with
      | nil => simpa using h r (by simpa using hr)
      | cons r0 rs' =>
        simp only [List.tail_cons, List.mem_cons] at hr
        rcases hr with hr | hr
        · subst hr; exact h _ (List.mem_cons_self ..)
        · exact h r (by simp [hr])
    simp only [decNI, decN, hh, ih rs.tail ht]
    (repeat' split) <;> simp_all

theorem mergeMap_nil (vs : List Val) : mergeMap [] vs = vs := by
  simp [mergeMap]

/-- **recv_indep (fresh)**: decoding into a freshly allocated object is `dec`. -/
theorem decInto_fresh (f : Fmt) : ∀ bs, decInto f .unit bs = dec f bs := by
  unfold dec
  induction f with
  | unit => intro bs; simp [decInto, decG]
  | uint w => intro bs; simp only [decInto, decG]; (repeat' split) <;> simp_all
  | raw n => intro bs; simp only [decInto, decG]; (repeat' split) <;> simp_all
  | hex2 m =>
    intro bs
    simp only [decInto, decG]
    cases m <;> (repeat' split) <;> simp_all [hexVal, flagOf]
  | shex2 =>
    intro bs
    simp only [decInto, decG]
    (repeat' split) <;> simp_all
  | framed pre f post ih =>
    intro bs
    simp only [decInto, decG, ih]
    (repeat' split) <;> simp_all
  | pair a b iha ihb =>
    intro bs
    simp only [decInto, decG, fstR, sndR, iha, ihb]
    (repeat' split) <;> simp_all
  | vec mg w f ih =>
    intro bs
    have hN : ∀ n s, decNI (decInto f) [] n s = decN (decG readFlat f) n s :=
      decNI_const (decInto f) (decG readFlat f) [] (by
        intro r hr s
        simp only [List.mem_cons, List.not_mem_nil, or_false] at hr
        subst hr; exact ih s)
    simp only [decInto, decG, asList, List.length_nil, hN, mergeMap_nil]
    cases mg <;> (repeat' split) <;> simp_all <;> omega
  | opt kp ru f ih =>
    intro bs
    simp only [decInto, decG, optInner, asOpt, ite_self, ih]
    cases kp <;> (repeat' split) <;> simp_all
  | tailIf kp a p b iha ihb =>
    intro bs
    simp only [decInto, decG, fstR, sndR, asOpt, iha, ihb]
    cases kp <;> (repeat' split) <;> simp_all

/-- **recv_indep (clean formats)**: without sticky flags, kept optionals, maps and
    conditional suffixes the decoded value does not depend on the receiver. -/
theorem decInto_clean (f : Fmt) : Clean f → ∀ r bs, decInto f r bs = dec f bs := by
  unfold dec
  induction f with
  | unit => intro _ r bs; simp [decInto, decG]
  | uint w => intro _ r bs; simp only [decInto, decG]; (repeat' split) <;> simp_all
  | raw n => intro _ r bs; simp only [decInto, decG]; (repeat' split) <;> simp_all
  | hex2 m =>
    intro hc r bs
    simp only [decInto, decG]
    cases m <;> simp only [Clean, ne_eq, not_true_eq_false, reduceCtorEq, not_false_eq_true] at hc <;>
      (repeat' split) <;> simp_all [hexVal]
  | shex2 =>
    intro _ r bs
    simp only [decInto, decG]
    (repeat' split) <;> simp_all
  | framed pre f post ih =>
    intro hc r bs
    simp only [Clean] at hc
    simp only [decInto, decG, ih hc]
    (repeat' split) <;> simp_all
  | pair a b iha ihb =>
    intro hc r bs
    simp only [Clean] at hc
    simp only [decInto, decG, iha hc.1, ihb hc.2]
    (repeat' split) <;> simp_all
  | vec mg w f ih =>
    intro hc r bs
    simp only [Clean] at hc
    obtain ⟨hm, hf⟩ := hc
    have hN : ∀ rs n s, decNI (decInto f) rs n s = decN (decG readFlat f) n s :=
      fun rs => decNI_const (decInto f) (decG readFlat f) rs (fun r _ s => ih hf r s)
    simp only [decInto, decG, hN]
    cases mg <;> simp only [ne_eq, not_true_eq_false, reduceCtorEq, not_false_eq_true] at hm <;>
      (repeat' split) <;> simp_all <;> omega
  | opt kp ru f ih =>
    intro hc r bs
    simp only [Clean] at hc
    obtain ⟨hk, hf⟩ := hc
    subst hk
    simp only [decInto, decG, ih hf]
    (repeat' split) <;> simp_all
  | tailIf kp a p b iha ihb =>
    intro hc r bs
    simp only [Clean] at hc
    obtain ⟨hk, ha, hb⟩ := hc
    subst hk
    simp only [decInto, decG, iha ha, ihb hb]
    (repeat' split) <;> simp_all

/-! Every lattigo format is clean. -/

theorem clean_poly : Clean poly := by simp [poly, matOf, u64, Clean]
theorem clean_polyQP : Clean polyQP := by simp [polyQP, clean_poly, Clean]
theorem clean_vectorQP : Clean vectorQP := by simp [vectorQP, vecOf, clean_polyQP, Clean]
theorem clean_gadget : Clean gadget := by
  simp [gadget, matOf, u64, Clean]; exact clean_vectorQP
theorem clean_scale : Clean scale := by simp [scale, Clean]
theorem clean_ptMeta : Clean ptMeta := by simp [ptMeta, clean_scale, Clean]
theorem clean_ctMeta : Clean ctMeta := by simp [ctMeta, Clean]
theorem clean_metaData : Clean metaData := by simp [metaData, clean_ptMeta, clean_ctMeta, Clean]
theorem clean_element (t : Fmt) (h : Clean t) : Clean (element t) := by
  simp [element, optFlag, vecOf, clean_metaData, h, Clean]
theorem clean_evalKey : Clean evalKey := by simp [evalKey, clean_gadget, Clean]
theorem clean_galoisKey : Clean galoisKey := by simp [galoisKey, u64, clean_evalKey, Clean]
theorem clean_evalKeySet : Clean evalKeySet := by
  simp [evalKeySet, optFlag, relinKey, mapOf, u64, clean_evalKey, clean_galoisKey, Clean]
theorem clean_paramsBlock : Clean paramsBlock := by simp [paramsBlock, u8, Clean]

/-- every format of the type table is clean. -/
theorem fmtOf_clean (name : String) (f : Fmt) (h : fmtOf name = some f) : Clean f := by
  unfold fmtOf at h
  split at h <;> simp only [Option.some.injEq, reduceCtorEq] at h <;> subst h
  all_goals first
    | exact clean_poly | exact clean_polyQP | exact clean_vectorQP | exact clean_gadget
    | exact clean_scale | exact clean_ptMeta | exact clean_ctMeta | exact clean_metaData
    | exact clean_evalKey | exact clean_galoisKey | exact clean_evalKeySet
    | exact clean_paramsBlock
    | exact clean_element _ clean_poly | exact clean_element _ clean_polyQP
    | simp [u8, u16, u32, u64, vecOf, Clean]
    | simp [mapOf, u64, clean_poly, Clean]
    | simp [relinKey, clean_evalKey]
    | simp [publicKey, secretKey, clean_vectorQP, clean_polyQP]
    | simp [rgswCiphertext, clean_gadget, Clean]
    | simp [powerBasis, mapOf, u8, u64, ciphertext, clean_element _ clean_poly, Clean]
    | simp [btpKeys, optReset, optKeepFresh, clean_evalKey, clean_evalKeySet, Clean]
    | simp [publicKeyGenShare, shamirSecretShare, clean_polyQP]
    | simp [evalKeyGenShare, relinKeyGenShare, clean_gadget]
    | simp [galoisKeyGenShare, u64, clean_gadget, Clean]
    | simp [keySwitchShare, clean_poly]
    | simp [publicKeySwitchShare, clean_element _ clean_poly]
    | simp [refreshShare, clean_metaData, clean_poly, Clean]

end Lattigo.Codec
