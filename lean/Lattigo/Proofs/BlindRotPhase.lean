/-
  C20 — blind rotation: the loop invariant at the level of phases (any commutative ring with
  monomials and automorphisms), the keys a schedule requests, and the look-up in the test polynomial.
-/
import Lattigo.Proofs.BlindRot

namespace Lattigo.RGSW.BlindRot

/-! ## The accumulator decrypts to `φ_t(F)·X^u` -/

section phase
variable {m : Nat} {R γ : Type} [CommRing R]
variable (mono : ZMod m → R) (φ : ZMod m → R → R)
variable (ph : γ → R) (autOp : Nat → γ → γ) (mulOp : Nat → γ → γ) (s : Nat → ZMod m)

/-- what `Automorphism(acc, g)` adds to the phase beyond `φ_g` (the key-switching error) -/
def errAut (g : Nat) (x : γ) : R := ph (autOp g x) - φ (g : ZMod m) (ph x)
/-- what the external product by the key of index `j` adds beyond the multiplication by `X^{s_j}`
    (the term `Σ d·e` + rounding of `extprod_phase_div`) -/
def errMul (j : Nat) (x : γ) : R := ph (mulOp j x) - ph x * mono (s j)

/-- the accumulated noise: automorphisms permute it, external products rotate it, each adds its own -/
def noiseRun : List Step → γ → R → R
  | [], _, n => n
  | Step.aut g :: rest, x, n =>
      noiseRun rest (autOp g x) (φ (g : ZMod m) n + errAut φ ph autOp g x)
  | Step.mul j :: rest, x, n =>
      noiseRun rest (mulOp j x) (n * mono (s j) + errMul mono ph mulOp s j x)

/-- `blindrot_invariant` (loop invariant, by induction over the schedule): if the accumulator decrypts to
    `φ_t(F)·X^u + n`, then after the operations `st` it decrypts to `φ_{t'}(F)·X^{u'} + n'` with `(t', u')` the
    exponents `runZ` computes and `n'` the accumulated noise.

    The hypotheses on the automorphisms are required only on a multiplicatively closed set `U` of indices that
    contains the Galois elements of the schedule and the initial index `t` (in `Z_q[X]/(X^N+1)`, `m = 2N`: the odd
    residues).  Quantifying them over ALL `g : ZMod m` would make the statement vacuous for the ring the code
    works in: for `g = 2`, `φ_2(X^N) = φ_2(−1) = −1` but `φ_2(X^N) = X^{2N} = 1`
    (`Props/C20Ring.blindrot_hyps_unsatisfiable`). -/
theorem blindrot_phase (U : ZMod m → Prop) (hU : ∀ g t, U g → U t → U (g * t))
    (hmono : ∀ u v, mono (u + v) = mono u * mono v)
    (hφadd : ∀ g, U g → ∀ x y, φ g (x + y) = φ g x + φ g y)
    (hφmul : ∀ g, U g → ∀ x y, φ g (x * y) = φ g x * φ g y)
    (hφφ : ∀ g t, U g → U t → ∀ x, φ g (φ t x) = φ (g * t) x)
    (hφmono : ∀ g, U g → ∀ u, φ g (mono u) = mono (g * u))
    (F : R) : ∀ (st : List Step) (_ : ∀ g, Step.aut g ∈ st → U (g : ZMod m)) (x : γ) (t u : ZMod m) (_ : U t)
      (n : R), ph x = φ t F * mono u + n →
      ph (runSteps autOp mulOp st x) =
        φ (runZ s st (t, u)).1 F * mono (runZ s st (t, u)).2 + noiseRun mono φ ph autOp mulOp s st x n
  | [], _, x, t, u, _, n, h => by simpa [runSteps, runZ, noiseRun] using h
  | Step.aut g :: rest, hst, x, t, u, ht, n, h => by
      have hg : U (g : ZMod m) := hst g (by simp)
      simp only [runSteps, runZ, noiseRun]
      apply blindrot_phase U hU hmono hφadd hφmul hφφ hφmono F rest
        (fun g' hg' => hst g' (List.mem_cons_of_mem _ hg')) _ _ _ (hU _ _ hg ht)
      have : ph (autOp g x) = φ (g : ZMod m) (ph x) + errAut φ ph autOp g x := by
        simp only [errAut]; ring
      rw [this, h, hφadd _ hg, hφmul _ hg, hφφ _ _ hg ht, hφmono _ hg]; ring
  | Step.mul j :: rest, hst, x, t, u, ht, n, h => by
      simp only [runSteps, runZ, noiseRun]
      apply blindrot_phase U hU hmono hφadd hφmul hφφ hφmono F rest
        (fun g' hg' => hst g' (List.mem_cons_of_mem _ hg')) _ _ _ ht
      have : ph (mulOp j x) = ph x * mono (s j) + errMul mono ph mulOp s j x := by
        simp only [errMul]; ring
      rw [this, h, hmono]; ring

end phase

/-! ## The keys a schedule requests -/

/-- an operation is served by the generated key set: an automorphism by `5^v`, `1 ≤ v ≤ 10`, or by
    `2N − 5`; an external product by a key of index `< n` -/
def stepOk (N n : Nat) : Step → Prop
  | Step.aut g => (∃ v, 1 ≤ v ∧ v ≤ windowSize ∧ g = galEl N v) ∨ g = 2 * N - galoisGen
  | Step.mul j => j < n

theorem evalLevel_ok (N : Nat) (a : List Nat) (k : Int) (v : Nat) (hv : v < windowSize) :
    (∀ st ∈ (evalLevel N a k v).1, stepOk N a.length st) ∧ (evalLevel N a k v).2 < windowSize := by
  have hmul : ∀ st ∈ (setOf N a k).map Step.mul, stepOk N a.length st := by
    intro st hst
    simp only [List.mem_map] at hst
    obtain ⟨j, hj, rfl⟩ := hst
    simp only [setOf, List.mem_filter, List.mem_range] at hj
    exact hj.1.1
  by_cases hset : setOf N a k = []
  · rw [evalLevel_empty N a k v hset]
    by_cases hc : v + 1 = windowSize ∨ k = 1
    · simp only [hc, if_true, List.mem_singleton, forall_eq]
      refine ⟨Or.inl ⟨v + 1, by omega, by omega, rfl⟩, by simp [windowSize]⟩
    · simp only [hc, if_false, List.not_mem_nil, false_imp_iff, implies_true, true_and]
      have : v + 1 ≠ windowSize := fun h => hc (Or.inl h)
      omega
  · rw [evalLevel_nonempty N a k v hset]
    have hpre : ∀ st ∈ (if v ≠ 0 then [Step.aut (galEl N v)] else []) ++ (setOf N a k).map Step.mul,
        stepOk N a.length st := by
      intro st hst
      rcases List.mem_append.mp hst with h1 | h1
      · by_cases hv0 : v = 0
        · simp [hv0] at h1
        · simp only [ne_eq, hv0, not_false_eq_true, if_true, List.mem_singleton] at h1
          subst h1
          exact Or.inl ⟨v, by omega, by omega, rfl⟩
      · exact hmul st h1
    by_cases hc : 0 + 1 = windowSize ∨ k = 1
    · simp only [hc, if_true]
      refine ⟨?_, by simp [windowSize]⟩
      intro st hst
      rcases List.mem_append.mp hst with h1 | h1
      · exact hpre st h1
      · simp only [List.mem_singleton] at h1
        subst h1
        exact Or.inl ⟨1, by omega, by simp [windowSize], rfl⟩
    · simp only [hc, if_false]
      exact ⟨hpre, by simp [windowSize]⟩

theorem loopLevels_ok (N : Nat) (a : List Nat) (sgn : Int) : ∀ (i v : Nat), v < windowSize →
    (∀ st ∈ (loopLevels N a sgn i v).1, stepOk N a.length st) ∧ (loopLevels N a sgn i v).2 < windowSize
  | 0, v, hv => by simp [loopLevels, hv]
  | i + 1, v, hv => by
      simp only [loopLevels]
      have h1 := evalLevel_ok N a (sgn * ((i : Int) + 1)) v hv
      have h2 := loopLevels_ok N a sgn i _ h1.2
      refine ⟨?_, h2.2⟩
      intro st hst
      rcases List.mem_append.mp hst with h | h
      · exact h1.1 st h
      · exact h2.1 st h

theorem midLevel_ok (N : Nat) (a : List Nat) (v : Nat) (hv : v < windowSize) :
    (∀ st ∈ (midLevel N a v).1, stepOk N a.length st) ∧ (midLevel N a v).2 < windowSize := by
  unfold midLevel
  by_cases hset : (setOf N a ((2 * N : Nat) : Int)).isEmpty = true
  · simp only [hset, if_true, List.not_mem_nil, false_imp_iff, implies_true, true_and]; exact hv
  · simp only [hset, Bool.false_eq_true, if_false]
    refine ⟨?_, by simp [windowSize]⟩
    intro st hst
    rcases List.mem_append.mp hst with h1 | h1
    · by_cases hv0 : v = 0
      · simp [hv0] at h1
      · simp only [ne_eq, hv0, not_false_eq_true, if_true, List.mem_singleton] at h1
        subst h1
        exact Or.inl ⟨v, by omega, by omega, rfl⟩
    · simp only [List.mem_map] at h1
      obtain ⟨j, hj, rfl⟩ := h1
      simp only [setOf, List.mem_filter, List.mem_range] at hj
      exact hj.1.1

/-- `keys_exact`, inclusion: every operation of `BlindRotateCore` is served by a key
    `GenEvaluationKeyNew` generates (Galois elements `5^1 … 5^10`, `2N − 5`; one RGSW key per LWE
    secret coefficient). -/
theorem coreSchedule_ok (N : Nat) (a : List Nat) : ∀ st ∈ coreSchedule N a, stepOk N a.length st := by
  have hw : 0 < windowSize := by simp [windowSize]
  have hneg := loopLevels_ok N a (-1) (N / 2 - 1) 0 hw
  have hmid := midLevel_ok N a _ hneg.2
  have hpos := loopLevels_ok N a 1 (N / 2 - 1) _ hmid.2
  have hlast := evalLevel_ok N a 0 0 hw
  intro st hst
  simp only [coreSchedule, List.mem_append, List.mem_singleton] at hst
  rcases hst with (((h | h) | h) | h) | h
  · exact hneg.1 st h
  · exact hmid.1 st h
  · subst h; exact Or.inr rfl
  · exact hpos.1 st h
  · exact hlast.1 st h

/-! ## The look-up -/

theorem getD_range_map (N : Nat) (f : Nat → Int) (i : Nat) (hi : i < N) :
    ((List.range N).map f).getD i 0 = f i := by
  simp [List.getD, hi]

/-- `InitTestPolynomial` / constant coefficient of `F·X^e`: for an exponent `e ∈ [−N/2, N/2)` the
    look-up returns the table value `y e`. -/
theorem lookup_testPoly (h : Nat) (hh : 0 < h) (y : Int → Int) (e : Int)
    (h1 : -(h : Int) ≤ e) (h2 : e < h) :
    lookup (2 * h) (testPolyInts (2 * h) y) e = y e := by
  have hNh : 2 * h / 2 = h := by omega
  unfold lookup
  simp only
  by_cases he0 : e = 0
  · subst he0
    simp only [Int.zero_emod, Int.toNat_zero, if_true, testPolyInts]
    rw [getD_range_map _ _ 0 (by omega)]
    simp
  · by_cases hpos : 0 < e
    · -- r = e, 0 < e < h
      have hr : (e % ((2 * (2 * h) : Nat) : Int)).toNat = e.toNat := by
        rw [Int.emod_eq_of_lt (by omega) (by push_cast; omega)]
      have het : e.toNat < h := by omega
      have het0 : e.toNat ≠ 0 := by omega
      rw [hr]
      simp only [het0, if_false, show e.toNat ≤ 2 * h from by omega, if_true, testPolyInts]
      rw [getD_range_map _ _ (2 * h - e.toNat) (by omega)]
      have : ¬ (2 * h - e.toNat ≤ 2 * h / 2) := by omega
      simp only [this, if_false, neg_neg]
      congr 1
      have : ((2 * h - e.toNat : Nat) : Int) = 2 * (h : Int) - e := by
        rw [Nat.cast_sub (by omega)]; push_cast; omega
      rw [this]; push_cast; ring
    · -- e < 0 : r = 4h + e
      have hneg : e < 0 := by omega
      have hr : (e % ((2 * (2 * h) : Nat) : Int)).toNat = (4 * h - (-e).toNat) := by
        have : e % ((2 * (2 * h) : Nat) : Int) = e + 4 * h := by
          rw [← Int.add_mul_emod_self_left e ((2 * (2 * h) : Nat) : Int) 1]
          rw [Int.emod_eq_of_lt (by push_cast; omega) (by push_cast; omega)]
          push_cast; ring
        rw [this]; omega
      rw [hr]
      have ht : (-e).toNat ≤ h := by omega
      have ht0 : 0 < (-e).toNat := by omega
      have c1 : ¬ (4 * h - (-e).toNat = 0) := by omega
      have c2 : ¬ (4 * h - (-e).toNat ≤ 2 * h) := by omega
      simp only [c1, c2, if_false, testPolyInts]
      have : 2 * (2 * h) - (4 * h - (-e).toNat) = (-e).toNat := by omega
      rw [this, getD_range_map _ _ _ (by omega)]
      have : (-e).toNat ≤ 2 * h / 2 := by omega
      simp only [this, if_true]
      congr 1
      omega

/-- the right end point of the documented interval: the exponent `N/2` reads `−y(−N/2)`, the NEGATED
    value at the LEFT end point, not `y(N/2)` -/
theorem lookup_endpoint (h : Nat) (hh : 0 < h) (y : Int → Int) :
    lookup (2 * h) (testPolyInts (2 * h) y) (h : Int) = -(y (-(h : Int))) := by
  unfold lookup
  simp only
  have hr : ((h : Int) % ((2 * (2 * h) : Nat) : Int)).toNat = h := by
    rw [Int.emod_eq_of_lt (by omega) (by push_cast; omega)]; simp
  rw [hr]
  have c1 : ¬ (h = 0) := by omega
  simp only [c1, if_false, show h ≤ 2 * h from by omega, if_true, testPolyInts]
  have : 2 * h - h = h := by omega
  rw [this, getD_range_map _ _ h (by omega)]
  have : h ≤ 2 * h / 2 := by omega
  simp only [this, if_true]

/-- **the look-up at EVERY exponent** (`N = 2h`, `e` any integer, `r = e mod 2N ∈ [0, 4h)`): both halves of the table and
    the negacyclic sign: `y r` for `r < h`, `−y(r − N)` for `h ≤ r < 3h` (the wrapped half: `X^r = −X^{r−N}`), `y(r − 2N)`
    for `r ≥ 3h`.  In centred terms: `y e'` for `e' ∈ [−N/2, N/2)`, `−y(e' ∓ N)` outside. -/
theorem lookup_all (h : Nat) (hh : 0 < h) (y : Int → Int) (e : Int) :
    let r := (e % ((2 * (2 * h) : Nat) : Int)).toNat
    lookup (2 * h) (testPolyInts (2 * h) y) e =
      if r < h then y r else if r < 3 * h then -(y ((r : Int) - (2 * h : Nat))) else y ((r : Int) - (4 * h : Nat)) := by
  intro r
  have hr4 : r < 4 * h := by
    have h1 : e % ((2 * (2 * h) : Nat) : Int) < ((2 * (2 * h) : Nat) : Int) := Int.emod_lt_of_pos _ (by push_cast; omega)
    have h2 : 0 ≤ e % ((2 * (2 * h) : Nat) : Int) := Int.emod_nonneg _ (by push_cast; omega)
    show (e % ((2 * (2 * h) : Nat) : Int)).toNat < 4 * h
    omega
  have hNh : 2 * h / 2 = h := by omega
  unfold lookup
  simp only
  show (if r = 0 then (testPolyInts (2 * h) y).getD 0 0
        else if r ≤ 2 * h then -((testPolyInts (2 * h) y).getD (2 * h - r) 0)
        else (testPolyInts (2 * h) y).getD (2 * (2 * h) - r) 0) = _
  by_cases h0 : r = 0
  · simp only [h0, if_true, testPolyInts, hh, Nat.cast_zero]
    rw [getD_range_map _ _ 0 (by omega)]
    simp
  · simp only [h0, if_false]
    by_cases h1 : r ≤ 2 * h
    · simp only [h1, if_true, testPolyInts]
      rw [getD_range_map _ _ (2 * h - r) (by omega)]
      by_cases h2 : r < h
      · have c : ¬ (2 * h - r ≤ 2 * h / 2) := by omega
        simp only [c, if_false, h2, if_true, neg_neg]
        congr 1
        omega
      · have c : 2 * h - r ≤ 2 * h / 2 := by omega
        have c3 : r < 3 * h := by omega
        simp only [c, if_true, h2, if_false, c3]
        congr 2
        omega
    · simp only [h1, if_false, testPolyInts]
      rw [getD_range_map _ _ (2 * (2 * h) - r) (by omega)]
      have c0 : ¬ r < h := by omega
      by_cases h3 : r < 3 * h
      · have c : ¬ (2 * (2 * h) - r ≤ 2 * h / 2) := by omega
        simp only [c, if_false, c0, h3, if_true]
        congr 2
        omega
      · have c : 2 * (2 * h) - r ≤ 2 * h / 2 := by omega
        simp only [c, if_true, c0, h3, if_false]
        congr 1
        omega

end Lattigo.RGSW.BlindRot
