import Lattigo.Proofs.NTTInv
import Lattigo.Model.RPoly
import Mathlib.Algebra.BigOperators.Ring.Finset
import Mathlib.Algebra.BigOperators.Group.Finset.Sigma

/-!
  # Evaluation semantics of the forward NTT and `NTT(a ⊛ b) = NTT a ⊙ NTT b` (property C01, WP-N)

  * `fwdZ_eval` (**fwd_sem**): under the table invariant `ρ_1² = −1, ρ_{2j}² = ρ_j, ρ_{2j+1}² = −ρ_j`,
    node `(k,j)` of the exact network computes `a mod (X^{2^k} − c_j)`: leaf `t` holds `a(pt t)` with
    `pt t ^ 2^k = c_j` (`pt_pow`); at the root `c_1 = −1`, so every point is a root of `X^N + 1`.
  * `negacyclic_eval`, `rowMul_eval`: evaluation at such a point is multiplicative on the schoolbook
    negacyclic product `RPoly.rowMul`.
  * `nttStd_mul` (**ntt_mul**) for the Model's `nttStd`.
-/
namespace Lattigo.NTT
open Lattigo Lattigo.Gen

section
variable {F : Type} [CommRing F]

/-- `evalL a x = Σ a_i x^i` (Horner) -/
def evalL : List F → F → F
  | [], _ => 0
  | a :: l, x => a + x * evalL l x

theorem evalL_append (x : F) : ∀ (l1 l2 : List F),
    evalL (l1 ++ l2) x = evalL l1 x + x ^ l1.length * evalL l2 x
  | [], l2 => by simp [evalL]
  | a :: l1, l2 => by
    simp only [List.cons_append, evalL, evalL_append x l1 l2, List.length_cons, pow_succ]
    ring

theorem evalL_zipWith_add (x r : F) : ∀ (U V : List F), U.length = V.length →
    evalL (List.zipWith (fun u v => u + r * v) U V) x = evalL U x + r * evalL V x
  | [], [], _ => by simp [evalL]
  | [], _ :: _, h => by simp at h
  | _ :: _, [], h => by simp at h
  | u :: U, v :: V, h => by
    simp only [List.zipWith_cons_cons, evalL, evalL_zipWith_add x r U V (by simpa using h)]
    ring

theorem evalL_zipWith_sub (x r : F) : ∀ (U V : List F), U.length = V.length →
    evalL (List.zipWith (fun u v => u - r * v) U V) x = evalL U x - r * evalL V x
  | [], [], _ => by simp [evalL]
  | [], _ :: _, h => by simp at h
  | _ :: _, [], h => by simp at h
  | u :: U, v :: V, h => by
    simp only [List.zipWith_cons_cons, evalL, evalL_zipWith_sub x r U V (by simpa using h)]
    ring

/-- the constant `c_j` of node `j`: the node holds its input modulo `X^len − c_j`;
`c_1 = −1`, `c_{2j} = ρ_j`, `c_{2j+1} = −ρ_j`. -/
def cnode (ρ : ℕ → F) (j : ℕ) : F :=
  if j = 1 then -1 else if j % 2 = 0 then ρ (j / 2) else -ρ (j / 2)

/-- **Table invariant** on the node indices `1 ≤ j < M`: `ρ_j² = c_j`, i.e.
`ρ_1² = −1`, `ρ_{2j}² = ρ_j`, `ρ_{2j+1}² = −ρ_j`. -/
def TableInv (ρ : ℕ → F) (M : ℕ) : Prop := ∀ j, 1 ≤ j → j < M → ρ j ^ 2 = cnode ρ j

theorem cnode_one (ρ : ℕ → F) : cnode ρ 1 = -1 := by simp [cnode]
theorem cnode_even (ρ : ℕ → F) (j : ℕ) (_hj : 1 ≤ j) : cnode ρ (2 * j) = ρ j := by
  have h1 : ¬ 2 * j = 1 := by omega
  have h2 : 2 * j % 2 = 0 := by omega
  have h3 : 2 * j / 2 = j := by omega
  unfold cnode; rw [if_neg h1, if_pos h2, h3]
theorem cnode_odd (ρ : ℕ → F) (j : ℕ) (hj : 1 ≤ j) : cnode ρ (2 * j + 1) = -ρ j := by
  have h1 : ¬ 2 * j + 1 = 1 := by omega
  have h2 : ¬ (2 * j + 1) % 2 = 0 := by omega
  have h3 : (2 * j + 1) / 2 = j := by omega
  unfold cnode; rw [if_neg h1, if_neg h2, h3]

/-- the evaluation point of leaf `t` below node `(k,j)` -/
def pt (ρ : ℕ → F) : (k : ℕ) → (j : ℕ) → (t : ℕ) → F
  | 0, j, _ => cnode ρ j
  | k + 1, j, t => if t < 2 ^ k then pt ρ k (2 * j) t else pt ρ k (2 * j + 1) (t - 2 ^ k)

theorem node_bounds {j k M : ℕ} (hj : (j + 1) * 2 ^ (k + 1) ≤ 2 * M) :
    j < M ∧ (2 * j + 1) * 2 ^ k ≤ 2 * M ∧ (2 * j + 1 + 1) * 2 ^ k ≤ 2 * M := by
  have h2 : 2 ≤ 2 ^ (k + 1) := by
    calc 2 = 2 ^ 1 := rfl
      _ ≤ 2 ^ (k + 1) := Nat.pow_le_pow_right (by decide) (by omega)
  have h3 : (j + 1) * 2 ≤ (j + 1) * 2 ^ (k + 1) := Nat.mul_le_mul_left _ h2
  have h4 : (2 * j + 1) * 2 ^ k ≤ (2 * j + 2) * 2 ^ k := Nat.mul_le_mul_right _ (by omega)
  have e : (2 * j + 2) * 2 ^ k = (j + 1) * 2 ^ (k + 1) := by rw [Nat.pow_succ]; ring
  have e2 : (2 * j + 1 + 1) * 2 ^ k = (j + 1) * 2 ^ (k + 1) := by rw [Nat.pow_succ]; ring
  refine ⟨by omega, by omega, by omega⟩

/-- every leaf point below node `(k,j)` is a `2^k`-th root of `c_j` -/
theorem pt_pow (ρ : ℕ → F) (M : ℕ) (hρ : TableInv ρ M) :
    ∀ (k j t : ℕ), 1 ≤ j → (j + 1) * 2 ^ k ≤ 2 * M → pt ρ k j t ^ 2 ^ k = cnode ρ j
  | 0, j, t, _, _ => by simp [pt]
  | k + 1, j, t, hj1, hj => by
    obtain ⟨hjM, hb1, hb2⟩ := node_bounds hj
    have hsq := hρ j hj1 hjM
    simp only [pt]
    split
    · rw [pow_succ, pow_mul, pt_pow ρ M hρ k (2 * j) t (by omega) hb1, cnode_even ρ j hj1, hsq]
    · rw [pow_succ, pow_mul, pt_pow ρ M hρ k (2 * j + 1) _ (by omega) hb2, cnode_odd ρ j hj1,
        neg_sq, hsq]

/-- the leaf point is the constant of the leaf node `j·2^k + t` (binary: `j` followed by the `k` bits of `t`) -/
theorem pt_eq_cnode (ρ : ℕ → F) : ∀ (k j t : ℕ), t < 2 ^ k → pt ρ k j t = cnode ρ (j * 2 ^ k + t)
  | 0, j, t, h => by
    have : t = 0 := by simpa using h
    subst this; simp [pt]
  | k + 1, j, t, h => by
    simp only [pt]
    have e : j * 2 ^ (k + 1) = 2 * j * 2 ^ k := by rw [Nat.pow_succ]; ring
    split
    · rename_i ht
      rw [pt_eq_cnode ρ k (2 * j) t ht, e]
    · rename_i ht
      have h2 : 2 ^ (k + 1) = 2 ^ k + 2 ^ k := by rw [Nat.pow_succ]; omega
      rw [pt_eq_cnode ρ k (2 * j + 1) (t - 2 ^ k) (by omega), e]
      congr 1
      have : (2 * j + 1) * 2 ^ k = 2 * j * 2 ^ k + 2 ^ k := by ring
      omega

/-- **fwd_sem**: under the table invariant, leaf `t` of the exact network below node `(k,j)` holds
the evaluation of the input polynomial at `pt ρ k j t`, a `2^k`-th root of `c_j`
(node `(k,j)` computes `a mod (X^{2^k} − c_j)`). -/
theorem fwdZ_eval (ρ : ℕ → F) (M : ℕ) (hρ : TableInv ρ M) :
    ∀ (k j : ℕ) (a : List F), a.length = 2 ^ k → 1 ≤ j → (j + 1) * 2 ^ k ≤ 2 * M →
      fwdZ ρ k j a = (List.range (2 ^ k)).map (fun t => evalL a (pt ρ k j t))
  | 0, j, a, h, _, _ => by
    match a, h with
    | [x], _ => simp [fwdZ, evalL]
  | k + 1, j, a, h, hj1, hj => by
    obtain ⟨hjM, hb1, hb2⟩ := node_bounds hj
    have h2 : a.length / 2 = 2 ^ k := by rw [h, Nat.pow_succ]; omega
    have hl : (a.take (a.length / 2)).length = 2 ^ k := by
      rw [List.length_take, h2, h, Nat.pow_succ]; omega
    have hr : (a.drop (a.length / 2)).length = 2 ^ k := by
      rw [List.length_drop, h2, h, Nat.pow_succ]; omega
    have hUV : (a.take (a.length / 2)).length = (a.drop (a.length / 2)).length := by rw [hl, hr]
    have hsplit : ∀ x : F, evalL a x
        = evalL (a.take (a.length / 2)) x + x ^ 2 ^ k * evalL (a.drop (a.length / 2)) x := by
      intro x
      conv_lhs => rw [← List.take_append_drop (a.length / 2) a]
      rw [evalL_append, hl]
    have e2 : 2 ^ (k + 1) = 2 ^ k + 2 ^ k := by rw [Nat.pow_succ]; omega
    simp only [fwdZ]
    rw [fwdZ_eval ρ M hρ k (2 * j) _ (by rw [List.length_zipWith, hl, hr, Nat.min_self]) (by omega) hb1,
      fwdZ_eval ρ M hρ k (2 * j + 1) _ (by rw [List.length_zipWith, hl, hr, Nat.min_self]) (by omega) hb2,
      e2, List.range_add, List.map_append, List.map_map]
    congr 1
    · apply List.map_congr_left
      intro t ht
      have ht' : t < 2 ^ k := List.mem_range.1 ht
      simp only [pt, ht', if_true]
      rw [evalL_zipWith_add _ _ _ _ hUV, hsplit, pt_pow ρ M hρ k (2 * j) t (by omega) hb1,
        cnode_even ρ j hj1]
    · apply List.map_congr_left
      intro t _
      have ht' : ¬ 2 ^ k + t < 2 ^ k := by omega
      have ht2 : 2 ^ k + t - 2 ^ k = t := by omega
      simp only [Function.comp, pt, ht', if_false, ht2]
      rw [evalL_zipWith_sub _ _ _ _ hUV, hsplit, pt_pow ρ M hρ k (2 * j + 1) t (by omega) hb2,
        cnode_odd ρ j hj1]
      ring


/-! ### negacyclic product and evaluation at a root of `X^n + 1` -/
open Finset in
theorem evalL_map_range (f : ℕ → F) (x : F) : ∀ n : ℕ,
    evalL ((List.range n).map f) x = ∑ k ∈ range n, f k * x ^ k
  | 0 => by simp [evalL]
  | n + 1 => by
    rw [List.range_succ, List.map_append, evalL_append, evalL_map_range f x n, sum_range_succ]
    simp [evalL]
    ring

open Finset in
/-- Horner evaluation as a sum: `evalL a x = Σ_{i < |a|} a_i x^i` -/
theorem evalL_eq_sum (x : F) : ∀ a : List F, evalL a x = ∑ i ∈ range a.length, a.getD i 0 * x ^ i
  | [] => by simp [evalL]
  | a :: l => by
    rw [List.length_cons, sum_range_succ', evalL, evalL_eq_sum x l, mul_sum]
    simp only [List.getD_cons_succ, List.getD_cons_zero, pow_zero, mul_one, pow_succ]
    rw [add_comm]
    congr 1
    apply sum_congr rfl
    intro i _; ring

open Finset in
/-- **Evaluation is multiplicative on the negacyclic product**: if `x^n = −1` then
`Σ_k (Σ_{i≤k} X_i Y_{k−i} − Σ_{i>k} X_i Y_{n+k−i}) x^k = (Σ X_i x^i)(Σ Y_j x^j)`. -/
theorem negacyclic_eval (X Y : ℕ → F) (n : ℕ) (x : F) (hx : x ^ n = -1) :
    ∑ k ∈ range n, (∑ i ∈ range (k + 1), X i * Y (k - i)
        - ∑ j ∈ range (n - 1 - k), X (k + 1 + j) * Y (n + k - (k + 1 + j))) * x ^ k
      = (∑ i ∈ range n, X i * x ^ i) * (∑ j ∈ range n, Y j * x ^ j) := by
  -- the summand, uniformly in `(i,k)`
  let T : ℕ → ℕ → F := fun i k => if i ≤ k then X i * Y (k - i) else -(X i * Y (n + k - i))
  have h1 : ∀ k ∈ range n, (∑ i ∈ range (k + 1), X i * Y (k - i)
        - ∑ j ∈ range (n - 1 - k), X (k + 1 + j) * Y (n + k - (k + 1 + j))) * x ^ k
      = ∑ i ∈ range n, T i k * x ^ k := by
    intro k hk
    have hk' : k < n := mem_range.1 hk
    have e : n = (k + 1) + (n - 1 - k) := by omega
    rw [← sum_mul]
    congr 1
    conv_rhs => rw [e, sum_range_add]
    rw [sub_eq_add_neg, ← sum_neg_distrib]
    congr 1
    · apply sum_congr rfl
      intro i hi
      have : i ≤ k := by have := mem_range.1 hi; omega
      simp only [T, this, if_true]
    · apply sum_congr rfl
      intro j _
      have : ¬ k + 1 + j ≤ k := by omega
      simp only [T, this, if_false]
  rw [sum_congr rfl h1, sum_comm, sum_mul]
  apply sum_congr rfl
  intro i hi
  have hi' : i < n := mem_range.1 hi
  have e : n = i + (n - i) := by omega
  have e' : n = (n - i) + i := by omega
  rw [mul_sum]
  conv_lhs => rw [e, sum_range_add]
  conv_rhs => rw [e', sum_range_add]
  rw [add_comm]
  congr 1
  · apply sum_congr rfl
    intro m _
    have h1 : i ≤ i + m := by omega
    have h2 : i + m - i = m := by omega
    simp only [T, h1, if_true, h2, pow_add]
    ring
  · apply sum_congr rfl
    intro k hk
    have hk' : k < i := mem_range.1 hk
    have h1 : ¬ i ≤ k := by omega
    have h2 : n - i + k = n + k - i := by omega
    have h3 : x ^ i * x ^ (n + k - i) = x ^ n * x ^ k := by
      rw [← pow_add, ← pow_add]; congr 1; omega
    simp only [T, h1, if_false, h2]
    calc -(X i * Y (n + k - i)) * x ^ k = X i * Y (n + k - i) * (x ^ n * x ^ k) := by rw [hx]; ring
      _ = X i * x ^ i * (Y (n + k - i) * x ^ (n + k - i)) := by rw [← h3]; ring

end

section
variable {q : ℕ}
open Finset

theorem foldl_mod_cast (g : ℕ → ℕ) : ∀ m : ℕ,
    (((List.range m).foldl (fun acc i => (acc + g i) % q) 0 : ℕ) : ZMod q)
      = ∑ i ∈ range m, (g i : ZMod q)
  | 0 => by simp
  | m + 1 => by
    rw [List.range_succ, List.foldl_append, sum_range_succ, ← foldl_mod_cast g m]
    simp only [List.foldl_cons, List.foldl_nil, ZMod.natCast_mod, Nat.cast_add]

theorem foldl_mod_lt (hq : 0 < q) (g : ℕ → ℕ) : ∀ m : ℕ,
    (List.range m).foldl (fun acc i => (acc + g i) % q) 0 < q
  | 0 => by simpa using hq
  | m + 1 => by
    rw [List.range_succ, List.foldl_append]
    simp only [List.foldl_cons, List.foldl_nil]
    exact Nat.mod_lt _ hq

theorem map_cast_eq_map_range (x : List ℕ) :
    x.map (Nat.cast : ℕ → ZMod q) = (List.range x.length).map (fun i => ((x.toArray[i]! : ℕ) : ZMod q)) := by
  apply List.ext_getElem
  · simp
  · intro i h1 h2
    have h : i < x.length := by simpa using h1
    simp [h]

theorem rowMul_length (x y : List ℕ) : (RPoly.rowMul q x y).length = x.length := by
  simp [RPoly.rowMul]

theorem rowMul_lt (hq : 0 < q) (x y : List ℕ) : ∀ z ∈ RPoly.rowMul q x y, z < q := by
  intro z hz
  simp only [RPoly.rowMul, List.mem_map] at hz
  obtain ⟨k, _, rfl⟩ := hz
  exact Nat.mod_lt _ hq

/-- the schoolbook negacyclic product `RPoly.rowMul`, read in `Z_q` and evaluated at a root of
`X^n + 1`, is the product of the evaluations -/
theorem rowMul_eval (hq : 0 < q) (x y : List ℕ) (hxy : y.length = x.length) (r : ZMod q)
    (hr : r ^ x.length = -1) :
    evalL ((RPoly.rowMul q x y).map (Nat.cast : ℕ → ZMod q)) r
      = evalL (x.map (Nat.cast : ℕ → ZMod q)) r * evalL (y.map (Nat.cast : ℕ → ZMod q)) r := by
  rw [map_cast_eq_map_range x, map_cast_eq_map_range y, hxy, evalL_map_range, evalL_map_range,
    ← negacyclic_eval _ _ _ r hr]
  unfold RPoly.rowMul
  simp only [List.map_map]
  rw [evalL_map_range]
  apply sum_congr rfl
  intro k _
  congr 1
  simp only [Function.comp]
  rw [ZMod.natCast_mod]
  have hneg := foldl_mod_lt hq (fun j => x.toArray[k + 1 + j]! * y.toArray[x.length + k - (k + 1 + j)]!)
    (x.length - 1 - k)
  have hc1 := foldl_mod_cast (q := q) (fun i => x.toArray[i]! * y.toArray[k - i]!) (k + 1)
  have hc2 := foldl_mod_cast (q := q)
    (fun j => x.toArray[k + 1 + j]! * y.toArray[x.length + k - (k + 1 + j)]!) (x.length - 1 - k)
  simp only [Nat.cast_mul] at hc1 hc2
  rw [Nat.cast_sub (by omega), Nat.cast_add, ZMod.natCast_self, add_zero, hc1, hc2]

end

/-! ### `ntt_mul` for the Model -/

/-- **Table invariant in decidable ℕ form** (entries are in Montgomery form, so `r² ≡ r'·W`):
`roots[1]² ≡ −W²`, `roots[2j]² ≡ roots[j]·W`, `roots[2j+1]² ≡ −roots[j]·W (mod q)` for the node
indices below `M`. -/
structure TableInvNat (roots : Array ℕ) (q M : ℕ) : Prop where
  root1 : 1 < M → (roots[1]! * roots[1]! + W * W) % q = 0
  even : ∀ j, 1 ≤ j → 2 * j < M → (roots[2 * j]! * roots[2 * j]!) % q = (roots[j]! * W) % q
  odd : ∀ j, 1 ≤ j → 2 * j + 1 < M →
    (roots[2 * j + 1]! * roots[2 * j + 1]! + roots[j]! * W) % q = 0

theorem TableInvNat.toZ {roots : Array ℕ} {q M : ℕ} [Fact q.Prime] (hodd : q % 2 = 1)
    (h : TableInvNat roots q M) : TableInv (rho q roots) M := by
  have hW := W_ne_zero (q := q) hodd
  have hWW : (W : ZMod q)⁻¹ * (W : ZMod q) = 1 := inv_mul_cancel₀ hW
  intro j hj1 hjM
  rcases Nat.lt_or_ge 1 j with hj | hj
  · obtain ⟨i, rfl | rfl⟩ : ∃ i, j = 2 * i ∨ j = 2 * i + 1 := ⟨j / 2, by omega⟩
    · have hi : 1 ≤ i := by omega
      rw [cnode_even _ _ hi]
      have e := (ZMod.natCast_eq_natCast_iff' _ _ q).2 (h.even i hi hjM)
      simp only [Nat.cast_mul] at e
      unfold rho
      calc ((roots[2 * i]! : ZMod q) * (W : ZMod q)⁻¹) ^ 2
          = ((roots[2 * i]! : ZMod q) * (roots[2 * i]! : ZMod q)) * ((W : ZMod q)⁻¹ * (W : ZMod q)⁻¹) := by ring
        _ = (roots[i]! : ZMod q) * (W : ZMod q)⁻¹ * ((W : ZMod q)⁻¹ * (W : ZMod q)) := by rw [e]; ring
        _ = (roots[i]! : ZMod q) * (W : ZMod q)⁻¹ := by rw [hWW, mul_one]
    · have hi : 1 ≤ i := by omega
      rw [cnode_odd _ _ hi]
      have e := (ZMod.natCast_eq_zero_iff _ q).2 (Nat.dvd_of_mod_eq_zero (h.odd i hi hjM))
      simp only [Nat.cast_add, Nat.cast_mul] at e
      have e' : (roots[2 * i + 1]! : ZMod q) * (roots[2 * i + 1]! : ZMod q)
          = -((roots[i]! : ZMod q) * (W : ZMod q)) := eq_neg_of_add_eq_zero_left e
      unfold rho
      calc ((roots[2 * i + 1]! : ZMod q) * (W : ZMod q)⁻¹) ^ 2
          = ((roots[2 * i + 1]! : ZMod q) * (roots[2 * i + 1]! : ZMod q))
              * ((W : ZMod q)⁻¹ * (W : ZMod q)⁻¹) := by ring
        _ = -((roots[i]! : ZMod q) * (W : ZMod q)⁻¹ * ((W : ZMod q)⁻¹ * (W : ZMod q))) := by rw [e']; ring
        _ = -((roots[i]! : ZMod q) * (W : ZMod q)⁻¹) := by rw [hWW, mul_one]
  · have : j = 1 := by omega
    subst this
    rw [cnode_one]
    have e := (ZMod.natCast_eq_zero_iff _ q).2 (Nat.dvd_of_mod_eq_zero (h.root1 hjM))
    simp only [Nat.cast_add, Nat.cast_mul] at e
    have e' : (roots[1]! : ZMod q) * (roots[1]! : ZMod q)
        = -((W : ZMod q) * (W : ZMod q)) := eq_neg_of_add_eq_zero_left e
    unfold rho
    calc ((roots[1]! : ZMod q) * (W : ZMod q)⁻¹) ^ 2
        = ((roots[1]! : ZMod q) * (roots[1]! : ZMod q)) * ((W : ZMod q)⁻¹ * (W : ZMod q)⁻¹) := by ring
      _ = -(((W : ZMod q)⁻¹ * (W : ZMod q)) * ((W : ZMod q)⁻¹ * (W : ZMod q))) := by rw [e']; ring
      _ = -1 := by rw [hWW, mul_one]

section
variable {T : Tables} {K : ℕ}

/-- **fwd_sem for the Model**: entry `t` of `nttStd T a` is the evaluation of `a` (read in `Z_q`) at
the point `pt ρ K 1 t`, and that point is a root of `X^n + 1`. -/
theorem nttStd_eval (hT : Valid T K) [Fact T.q.Prime] (hZ : TableInv (rho T.q T.rootsF) (2 ^ K))
    (a : List ℕ) (hlen : a.length = T.n) (ha : ∀ x ∈ a, x < T.q) :
    (nttStd T a).map (Nat.cast : ℕ → ZMod T.q)
      = (List.range (2 ^ K)).map
          (fun t => evalL (a.map (Nat.cast : ℕ → ZMod T.q)) (pt (rho T.q T.rootsF) K 1 t))
    ∧ ∀ t, pt (rho T.q T.rootsF) K 1 t ^ 2 ^ K = -1 := by
  constructor
  · rw [(nttStd_cast hT a ha).1]
    exact fwdZ_eval _ _ hZ K 1 _ (by rw [List.length_map, hlen, hT.n_eq]) (by omega) (by omega)
  · intro t
    rw [pt_pow _ _ hZ K 1 t (by omega) (by omega), cnode_one]

/-- **ntt_mul**: `NTT (a ⊛ b) = NTT a ⊙ NTT b`, `⊛` the schoolbook negacyclic product
`RPoly.rowMul` modulo `q`, `⊙` the coefficient-wise product modulo `q`. -/
theorem nttStd_mul (hT : Valid T K) (hinv : TableInv (rho T.q T.rootsF) (2 ^ K))
    (a b : List ℕ) (hla : a.length = T.n) (hlb : b.length = T.n)
    (ha : ∀ x ∈ a, x < T.q) (hb : ∀ x ∈ b, x < T.q) :
    nttStd T (RPoly.rowMul T.q a b)
      = List.zipWith (fun x y => (x * y) % T.q) (nttStd T a) (nttStd T b) := by
  have : Fact T.q.Prime := ⟨hT.prime⟩
  have hq0 := hT.q_pos
  have hm := rowMul_lt hq0 a b
  obtain ⟨eA, hr⟩ := nttStd_eval hT hinv a hla ha
  obtain ⟨eB, _⟩ := nttStd_eval hT hinv b hlb hb
  obtain ⟨eM, _⟩ := nttStd_eval hT hinv (RPoly.rowMul T.q a b) (by rw [rowMul_length, hla]) hm
  apply map_cast_inj (q := T.q) _ _ (nttStd_cast hT _ hm).2
  · exact forall_zipWith _ (fun z => z < T.q) _ _ (fun _ _ _ _ => Nat.mod_lt _ hq0)
  · rw [eM, map_zipWith_mem (fun x y => (x * y) % T.q) (Nat.cast : ℕ → ZMod T.q)
        (Nat.cast : ℕ → ZMod T.q) (fun x y => x * y) _ _
        (fun u _ v _ => by rw [ZMod.natCast_mod, Nat.cast_mul]),
      eA, eB, List.zipWith_map, List.zipWith_self]
    apply List.map_congr_left
    intro t _
    exact rowMul_eval hq0 a b (by rw [hla, hlb]) _ (by rw [hla, hT.n_eq]; exact hr t)

end
end Lattigo.NTT
