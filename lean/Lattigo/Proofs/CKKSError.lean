/-
  Value-level error bounds of the CKKS evaluator operations, composed from the phase identities of
  `Proofs/CKKSPhase.lean` (valid over every commutative ring, in particular `WFPoly qs n`, `Props/C06Ring.lean`).

  Setting (exact arithmetic).  `α` is the ring the ciphertext components live in *before* reduction modulo `Q`
  (or any ring in which no wrap-around occurs), `σ : α →+* K` is ONE coordinate of the canonical embedding
  (evaluation at a root `ζ^(5^j)`; `K = ℂ`, or `ℝ` in the conjugate-invariant ring) — a ring homomorphism into a
  normed field.  The value a ciphertext `c` decodes to in that slot at scale `Δ` is

      decode σ s Δ c = σ (phase s c) / Δ .

  Each `decode_*` lemma is the exact identity the operation satisfies; each `error_bound_*` theorem turns the
  hypotheses `‖decode a − va‖ ≤ ea` on the operands into a bound on the result: f(noise, scale) explicitly.
  The key-switch error, the rounding remainder of `Rescale` and the rounding of a constant appear as explicit
  terms (`‖σ eks‖ / ‖Δ‖`, `‖σ (r0 + r1·s)‖ / ‖Δ‖`, `‖σ c / S − cv‖`); `embedding_bound` bounds the embedding of a
  polynomial with coefficients `≤ B` by `N·B` (with `B = q/2` from `rescale_remainder`: at most `1/2` per
  coefficient after division by `q`).
-/
import Lattigo.Proofs.CKKSPhase
import Mathlib.Analysis.Normed.Field.Basic
import Mathlib.Algebra.BigOperators.Group.Finset.Basic

namespace Lattigo.CKKS
open Finset

section
variable {α : Type*} [CommRing α] {K : Type*} [NormedField K] (σ : α →+* K)

/-- slot value of `c` under the secret `s` at scale `Δ`. -/
def decode (s : α) (Δ : K) (c : Ct α) : K := σ (phase s c) / Δ

/-! ## exact identities -/

theorem decode_lin (s k0 k1 : α) (Δa Δb Δ : K) (a b : Ct α) (ha : Δa ≠ 0) (hb : Δb ≠ 0) :
    decode σ s Δ (Ct.lin k0 k1 a b)
      = (σ k0 * Δa / Δ) * decode σ s Δa a + (σ k1 * Δb / Δ) * decode σ s Δb b := by
  unfold decode
  rw [phase_lin, map_add, map_mul, map_mul]
  field_simp

theorem decode_add (s : α) (Δ : K) (a b : Ct α) :
    decode σ s Δ (Ct.lin 1 1 a b) = decode σ s Δ a + decode σ s Δ b := by
  unfold decode; rw [phase_add, map_add, add_div]

theorem decode_sub (s : α) (Δ : K) (a b : Ct α) :
    decode σ s Δ (Ct.lin 1 (-1) a b) = decode σ s Δ a - decode σ s Δ b := by
  unfold decode; rw [phase_sub, map_sub, sub_div]

/-- `Mul`: the product decodes, at the product of the scales, to the product of the values. -/
theorem decode_mul (s : α) (Δa Δb : K) (a b : Ct α) (ha : a.c2 = 0) (hb : b.c2 = 0) :
    decode σ s (Δa * Δb) (Ct.tensor a b) = decode σ s Δa a * decode σ s Δb b := by
  unfold decode
  rw [phase_tensor s a b ha hb, map_mul, mul_div_mul_comm]

theorem decode_mulRelin (s k0 k1 : α) (Δa Δb : K) (a b : Ct α) (ha : a.c2 = 0) (hb : b.c2 = 0) :
    decode σ s (Δa * Δb) (Ct.relin k0 k1 (Ct.tensor a b))
      = decode σ s Δa a * decode σ s Δb b + σ (k0 + k1 * s - a.c1 * b.c1 * s ^ 2) / (Δa * Δb) := by
  unfold decode
  rw [phase_mulRelin s k0 k1 a b ha hb, map_add, map_mul, add_div, mul_div_mul_comm]

/-- `Mul` by a constant `c` (the RNS constant, `≈ cv·S`) with the scale multiplied by `S`. -/
theorem decode_smul (s c : α) (Δ S : K) (a : Ct α) :
    decode σ s (Δ * S) (Ct.smul c a) = (σ c / S) * decode σ s Δ a := by
  unfold decode
  rw [phase_smul, map_mul, mul_comm Δ S, mul_div_mul_comm]

theorem decode_addConst (s c : α) (Δ : K) (a : Ct α) :
    decode σ s Δ (Ct.addConst c a) = decode σ s Δ a + σ c / Δ := by
  unfold decode; rw [phase_addConst, map_add, add_div]

/-- `Rescale`: with the scale divided by `q` exactly, the value changes by the embedded remainder over `Δ`. -/
theorem decode_rescale (s q c0 c1 c0' c1' r0 r1 : α) (Δ : K)
    (h0 : q * c0' = c0 - r0) (h1 : q * c1' = c1 - r1) :
    decode σ s (Δ / σ q) ⟨c0', c1', 0⟩ = decode σ s Δ ⟨c0, c1, 0⟩ - σ (r0 + r1 * s) / Δ := by
  unfold decode
  have h := congrArg σ (phase_rescale s q c0 c1 c0' c1' r0 r1 h0 h1)
  rw [map_mul, map_sub] at h
  rw [div_div_eq_mul_div, mul_comm, h, sub_div]

/-- decoding with another recorded scale `Δ'` (e.g. the 128-bit rounded one) rescales the value by `Δ/Δ'`. -/
theorem decode_scale (s : α) (Δ Δ' : K) (c : Ct α) (h : Δ ≠ 0) :
    decode σ s Δ' c = (Δ / Δ') * decode σ s Δ c := by
  unfold decode; field_simp

/-- `MulThenAdd`: receiver (scale `Δo`) multiplied by `kOut`, product added, recorded at `Δa·Δb`. -/
theorem decode_mulThenAdd (s kOut : α) (Δo Δa Δb : K) (o a b : Ct α) (ha : a.c2 = 0) (hb : b.c2 = 0)
    (ho : Δo ≠ 0) :
    decode σ s (Δa * Δb) (Ct.lin kOut 1 o (Ct.tensor a b))
      = (σ kOut * Δo / (Δa * Δb)) * decode σ s Δo o + decode σ s Δa a * decode σ s Δb b := by
  unfold decode
  rw [phase_mulThenAdd s kOut o a b ha hb, map_add, map_mul, map_mul, add_div]
  congr 1
  · field_simp
  · rw [mul_div_mul_comm]

/-! ## error bounds -/

variable {σ}

theorem error_bound_add {s : α} {Δ : K} {a b : Ct α} {va vb : K} {ea eb : ℝ}
    (ha : ‖decode σ s Δ a - va‖ ≤ ea) (hb : ‖decode σ s Δ b - vb‖ ≤ eb) :
    ‖decode σ s Δ (Ct.lin 1 1 a b) - (va + vb)‖ ≤ ea + eb := by
  rw [decode_add]
  calc ‖decode σ s Δ a + decode σ s Δ b - (va + vb)‖
      = ‖(decode σ s Δ a - va) + (decode σ s Δ b - vb)‖ := by congr 1; ring
    _ ≤ _ := (norm_add_le _ _).trans (add_le_add ha hb)

theorem error_bound_sub {s : α} {Δ : K} {a b : Ct α} {va vb : K} {ea eb : ℝ}
    (ha : ‖decode σ s Δ a - va‖ ≤ ea) (hb : ‖decode σ s Δ b - vb‖ ≤ eb) :
    ‖decode σ s Δ (Ct.lin 1 (-1) a b) - (va - vb)‖ ≤ ea + eb := by
  rw [decode_sub]
  calc ‖decode σ s Δ a - decode σ s Δ b - (va - vb)‖
      = ‖(decode σ s Δ a - va) - (decode σ s Δ b - vb)‖ := by congr 1; ring
    _ ≤ _ := (norm_sub_le _ _).trans (add_le_add ha hb)

/-- a factor `λ ≈ 1` applied to an approximate value. -/
theorem error_scaled {x v lam : K} {e : ℝ} (h : ‖x - v‖ ≤ e) :
    ‖lam * x - v‖ ≤ ‖lam‖ * e + ‖v‖ * ‖lam - 1‖ := by
  calc ‖lam * x - v‖ = ‖lam * (x - v) + v * (lam - 1)‖ := by congr 1; ring
    _ ≤ ‖lam * (x - v)‖ + ‖v * (lam - 1)‖ := norm_add_le _ _
    _ = ‖lam‖ * ‖x - v‖ + ‖v‖ * ‖lam - 1‖ := by rw [norm_mul, norm_mul]
    _ ≤ _ := by gcongr

/-- **Add with scale alignment**: operand `a` (scale `Δa`) multiplied by the integer `k`, result recorded at
    `Δb`; `κ = k·Δa/Δb` (`= ⌊ρ⌋/ρ`): error `‖κ‖·ea + eb + ‖va‖·‖κ − 1‖` — the last term is the alignment
    error of `add_alignment_error`, zero for integer ratios. -/
theorem error_bound_add_aligned {s k : α} {Δa Δb : K} {a b : Ct α} {va vb : K} {ea eb : ℝ}
    (hΔa : Δa ≠ 0) (hΔb : Δb ≠ 0)
    (ha : ‖decode σ s Δa a - va‖ ≤ ea) (hb : ‖decode σ s Δb b - vb‖ ≤ eb) :
    ‖decode σ s Δb (Ct.lin k 1 a b) - (va + vb)‖
      ≤ ‖σ k * Δa / Δb‖ * ea + eb + ‖va‖ * ‖σ k * Δa / Δb - 1‖ := by
  rw [decode_lin σ s k 1 Δa Δb Δb a b hΔa hΔb, map_one, one_mul, div_self hΔb, one_mul]
  have h1 := error_scaled (lam := σ k * Δa / Δb) ha
  calc ‖σ k * Δa / Δb * decode σ s Δa a + decode σ s Δb b - (va + vb)‖
      = ‖(σ k * Δa / Δb * decode σ s Δa a - va) + (decode σ s Δb b - vb)‖ := by congr 1; ring
    _ ≤ ‖σ k * Δa / Δb * decode σ s Δa a - va‖ + ‖decode σ s Δb b - vb‖ := norm_add_le _ _
    _ ≤ _ := by linarith

theorem error_prod {x y vx vy : K} {ex ey : ℝ} (hx : ‖x - vx‖ ≤ ex) (hy : ‖y - vy‖ ≤ ey) :
    ‖x * y - vx * vy‖ ≤ ‖vx‖ * ey + ‖vy‖ * ex + ex * ey := by
  have hex : 0 ≤ ex := (norm_nonneg _).trans hx
  calc ‖x * y - vx * vy‖ = ‖vx * (y - vy) + vy * (x - vx) + (x - vx) * (y - vy)‖ := by congr 1; ring
    _ ≤ ‖vx * (y - vy)‖ + ‖vy * (x - vx)‖ + ‖(x - vx) * (y - vy)‖ :=
        (norm_add_le _ _).trans (add_le_add (norm_add_le _ _) le_rfl)
    _ = ‖vx‖ * ‖y - vy‖ + ‖vy‖ * ‖x - vx‖ + ‖x - vx‖ * ‖y - vy‖ := by rw [norm_mul, norm_mul, norm_mul]
    _ ≤ _ := by gcongr

/-- **Mul** (tensor product, scale `Δa·Δb`). -/
theorem error_bound_mul {s : α} {Δa Δb : K} {a b : Ct α} {va vb : K} {ea eb : ℝ}
    (h2a : a.c2 = 0) (h2b : b.c2 = 0)
    (ha : ‖decode σ s Δa a - va‖ ≤ ea) (hb : ‖decode σ s Δb b - vb‖ ≤ eb) :
    ‖decode σ s (Δa * Δb) (Ct.tensor a b) - va * vb‖ ≤ ‖va‖ * eb + ‖vb‖ * ea + ea * eb := by
  rw [decode_mul σ s Δa Δb a b h2a h2b]; exact error_prod ha hb

/-- **MulRelin**: the key-switch error `eks = k0 + k1·s − a1·b1·s²` adds `‖σ eks‖ / ‖Δa·Δb‖`. -/
theorem error_bound_mulRelin {s k0 k1 : α} {Δa Δb : K} {a b : Ct α} {va vb : K} {ea eb : ℝ}
    (h2a : a.c2 = 0) (h2b : b.c2 = 0)
    (ha : ‖decode σ s Δa a - va‖ ≤ ea) (hb : ‖decode σ s Δb b - vb‖ ≤ eb) :
    ‖decode σ s (Δa * Δb) (Ct.relin k0 k1 (Ct.tensor a b)) - va * vb‖
      ≤ ‖va‖ * eb + ‖vb‖ * ea + ea * eb + ‖σ (k0 + k1 * s - a.c1 * b.c1 * s ^ 2)‖ / ‖Δa * Δb‖ := by
  rw [decode_mulRelin σ s k0 k1 Δa Δb a b h2a h2b]
  have := error_prod ha hb
  calc _ = ‖(decode σ s Δa a * decode σ s Δb b - va * vb) + σ (k0 + k1 * s - a.c1 * b.c1 * s ^ 2) / (Δa * Δb)‖ := by
        congr 1; ring
    _ ≤ ‖decode σ s Δa a * decode σ s Δb b - va * vb‖ + ‖σ (k0 + k1 * s - a.c1 * b.c1 * s ^ 2) / (Δa * Δb)‖ :=
        norm_add_le _ _
    _ ≤ _ := by rw [norm_div]; linarith

/-- **Mul by a constant** `cv`, encoded as the ring element `c` at the factor `S`
    (`‖σ c / S − cv‖ ≤ η`: `rnsConst_error` gives `η ≤ (1/2 + 3·2^-P(|cv|S+1))/S` per component). -/
theorem error_bound_mulScalar {s c : α} {Δ S : K} {a : Ct α} {va cv : K} {ea η : ℝ}
    (ha : ‖decode σ s Δ a - va‖ ≤ ea) (hc : ‖σ c / S - cv‖ ≤ η) :
    ‖decode σ s (Δ * S) (Ct.smul c a) - cv * va‖ ≤ ‖cv‖ * ea + ‖va‖ * η + η * ea := by
  rw [decode_smul]; exact error_prod hc ha

/-- **Add of a constant** `cv` encoded as `c` at the ciphertext's scale. -/
theorem error_bound_addScalar {s c : α} {Δ : K} {a : Ct α} {va cv : K} {ea η : ℝ}
    (ha : ‖decode σ s Δ a - va‖ ≤ ea) (hc : ‖σ c / Δ - cv‖ ≤ η) :
    ‖decode σ s Δ (Ct.addConst c a) - (va + cv)‖ ≤ ea + η := by
  rw [decode_addConst]
  calc ‖decode σ s Δ a + σ c / Δ - (va + cv)‖ = ‖(decode σ s Δ a - va) + (σ c / Δ - cv)‖ := by congr 1; ring
    _ ≤ _ := (norm_add_le _ _).trans (add_le_add ha hc)

/-- **Rescale** (scale divided by `q` exactly): the error grows by the embedded rounding remainder over `Δ`. -/
theorem error_bound_rescale {s q c0 c1 c0' c1' r0 r1 : α} {Δ : K} {v : K} {e : ℝ}
    (h0 : q * c0' = c0 - r0) (h1 : q * c1' = c1 - r1)
    (h : ‖decode σ s Δ ⟨c0, c1, 0⟩ - v‖ ≤ e) :
    ‖decode σ s (Δ / σ q) ⟨c0', c1', 0⟩ - v‖ ≤ e + ‖σ (r0 + r1 * s)‖ / ‖Δ‖ := by
  rw [decode_rescale σ s q c0 c1 c0' c1' r0 r1 Δ h0 h1]
  calc _ = ‖(decode σ s Δ ⟨c0, c1, 0⟩ - v) - σ (r0 + r1 * s) / Δ‖ := by congr 1; ring
    _ ≤ ‖decode σ s Δ ⟨c0, c1, 0⟩ - v‖ + ‖σ (r0 + r1 * s) / Δ‖ := norm_sub_le _ _
    _ ≤ _ := by rw [norm_div]; linarith

/-- decoding with a recorded scale `Δ'` that is only close to the true one (`Scale.Div` rounds to 128 bits:
    `‖Δ/Δ' − 1‖ ≤ 2^-128/(1−2^-128)` by `scale_div_correctly_rounded`). -/
theorem error_bound_recorded_scale {s : α} {Δ Δ' : K} {c : Ct α} {v : K} {e : ℝ} (hΔ : Δ ≠ 0)
    (h : ‖decode σ s Δ c - v‖ ≤ e) :
    ‖decode σ s Δ' c - v‖ ≤ ‖Δ / Δ'‖ * e + ‖v‖ * ‖Δ / Δ' - 1‖ := by
  rw [decode_scale σ s Δ Δ' c hΔ]; exact error_scaled h

/-- **MulThenAdd** (element operands): `λ = kOut·Δo/(Δa·Δb)` is `1` when the scales match
    (`mtaEltScale`: integer ratio) — otherwise the receiver's old value is off by the factor `λ`. -/
theorem error_bound_mulThenAdd {s kOut : α} {Δo Δa Δb : K} {o a b : Ct α} {vo va vb : K} {eo ea eb : ℝ}
    (h2a : a.c2 = 0) (h2b : b.c2 = 0) (hΔo : Δo ≠ 0)
    (ho : ‖decode σ s Δo o - vo‖ ≤ eo) (ha : ‖decode σ s Δa a - va‖ ≤ ea) (hb : ‖decode σ s Δb b - vb‖ ≤ eb) :
    ‖decode σ s (Δa * Δb) (Ct.lin kOut 1 o (Ct.tensor a b)) - (vo + va * vb)‖
      ≤ ‖σ kOut * Δo / (Δa * Δb)‖ * eo + ‖vo‖ * ‖σ kOut * Δo / (Δa * Δb) - 1‖
        + (‖va‖ * eb + ‖vb‖ * ea + ea * eb) := by
  rw [decode_mulThenAdd σ s kOut Δo Δa Δb o a b h2a h2b hΔo]
  have h1 := error_scaled (lam := σ kOut * Δo / (Δa * Δb)) ho
  have h2 := error_prod ha hb
  calc _ = ‖(σ kOut * Δo / (Δa * Δb) * decode σ s Δo o - vo) + (decode σ s Δa a * decode σ s Δb b - va * vb)‖ := by
        congr 1; ring
    _ ≤ _ := (norm_add_le _ _).trans (add_le_add h1 h2)

/-- **MulThenAdd** (scalar operand `cv` encoded as `c` at the factor `S`, receiver multiplied by `kOut`). -/
theorem error_bound_mulThenAddScalar {s kOut c : α} {Δo Δ S : K} {o a : Ct α} {vo va cv : K} {eo ea η : ℝ}
    (hΔo : Δo ≠ 0) (hΔ : Δ ≠ 0)
    (ho : ‖decode σ s Δo o - vo‖ ≤ eo) (ha : ‖decode σ s Δ a - va‖ ≤ ea) (hc : ‖σ c / S - cv‖ ≤ η) :
    ‖decode σ s (Δ * S) (Ct.lin kOut c o a) - (vo + cv * va)‖
      ≤ ‖σ kOut * Δo / (Δ * S)‖ * eo + ‖vo‖ * ‖σ kOut * Δo / (Δ * S) - 1‖
        + (‖cv‖ * ea + ‖va‖ * η + η * ea) := by
  rw [decode_lin σ s kOut c Δo Δ (Δ * S) o a hΔo hΔ]
  have h1 := error_scaled (lam := σ kOut * Δo / (Δ * S)) ho
  have e : σ c * Δ / (Δ * S) = σ c / S := by field_simp
  rw [e]
  have h2 := error_prod hc ha
  calc _ = ‖(σ kOut * Δo / (Δ * S) * decode σ s Δo o - vo) + (σ c / S * decode σ s Δ a - cv * va)‖ := by
        congr 1; ring
    _ ≤ _ := (norm_add_le _ _).trans (add_le_add h1 h2)

/-! ## the embedding of a polynomial with small coefficients -/

/-- `‖Σ_{i<N} r_i·ζ^i‖ ≤ N·B` if `‖r_i‖ ≤ B` and `‖ζ‖ = 1`: with `B = 1/2` (after division by `q`,
    `rescale_remainder`) the rounding of `Rescale` moves every slot by at most `N/2` units of the phase. -/
theorem embedding_bound (N : ℕ) (r : ℕ → K) (ζ : K) (B : ℝ) (hζ : ‖ζ‖ = 1) (hr : ∀ i < N, ‖r i‖ ≤ B) :
    ‖∑ i ∈ range N, r i * ζ ^ i‖ ≤ N * B := by
  calc ‖∑ i ∈ range N, r i * ζ ^ i‖ ≤ ∑ i ∈ range N, ‖r i * ζ ^ i‖ := norm_sum_le _ _
    _ = ∑ i ∈ range N, ‖r i‖ := by
        apply sum_congr rfl; intro i _; rw [norm_mul, norm_pow, hζ, one_pow, mul_one]
    _ ≤ ∑ _i ∈ range N, B := sum_le_sum (fun i hi => hr i (mem_range.mp hi))
    _ = N * B := by rw [sum_const, card_range, nsmul_eq_mul]

/-- the remainder term of `error_bound_rescale` from bounds on the two embedded remainder polynomials. -/
theorem rescale_remainder_embedded {s r0 r1 : α} {R : ℝ} (h0 : ‖σ r0‖ ≤ R) (h1 : ‖σ r1‖ ≤ R) :
    ‖σ (r0 + r1 * s)‖ ≤ R * (1 + ‖σ s‖) := by
  rw [map_add, map_mul]
  calc ‖σ r0 + σ r1 * σ s‖ ≤ ‖σ r0‖ + ‖σ r1 * σ s‖ := norm_add_le _ _
    _ = ‖σ r0‖ + ‖σ r1‖ * ‖σ s‖ := by rw [norm_mul]
    _ ≤ R + R * ‖σ s‖ := by gcongr
    _ = _ := by ring

end
end Lattigo.CKKS
