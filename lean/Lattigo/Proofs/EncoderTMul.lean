/-
  Encoded plaintexts multiply slot-wise (property C07, integer half, plaintext ring Z_t[Y]/(Y^n+1)):

      DecodeRingT( EncodeRingT(u, s₁) ⊛ EncodeRingT(v, s₂), scale s ≡ s₁·s₂ ) = u ⊙ v  (mod t)

  `⊛ = RPoly.rowMul t` is the negacyclic product of the plaintext ring, `⊙` the slot-wise product modulo `t`.
  Ingredients: C01's `nttStd_mul` (NTT of the product = pointwise product), the linearity of the
  exact network (`fwdZ_smul`), `nttStd_inttStd` (NTT ∘ INTT = id) and `modExp_fermat`.
-/
import Lattigo.Proofs.EncoderTRound

namespace Lattigo.EncoderT
open Lattigo Lattigo.Gen Lattigo.NTT

/-! ### the exact forward network is linear -/

section
variable {F : Type} [CommRing F]

theorem zipWith_map_smul (c : F) (f : F → F → F) (hf : ∀ u v, f (u * c) (v * c) = f u v * c) :
    ∀ (U V : List F), List.zipWith f (U.map (· * c)) (V.map (· * c)) = (List.zipWith f U V).map (· * c)
  | [], _ => by simp
  | _ :: _, [] => by simp
  | u :: U, v :: V => by
    simp only [List.map_cons, List.zipWith_cons_cons, hf, zipWith_map_smul c f hf U V]

theorem fwdZ_smul (ρ : ℕ → F) (c : F) : ∀ (k j : ℕ) (a : List F),
    fwdZ ρ k j (a.map (· * c)) = (fwdZ ρ k j a).map (· * c)
  | 0, _, _ => rfl
  | k + 1, j, a => by
    simp only [fwdZ, List.length_map, ← List.map_take, ← List.map_drop, List.map_append]
    rw [zipWith_map_smul c (fun u v => u + ρ j * v) (by intro u v; ring),
      zipWith_map_smul c (fun u v => u - ρ j * v) (by intro u v; ring),
      fwdZ_smul ρ c k (2 * j), fwdZ_smul ρ c k (2 * j + 1)]

end

section
variable {T : Tables} {K : ℕ}

theorem mulScalar_cast (t s : ℕ) (a : List ℕ) :
    (mulScalar t s a).map (Nat.cast : ℕ → ZMod t) = (a.map (Nat.cast : ℕ → ZMod t)).map (· * (s : ZMod t)) := by
  unfold mulScalar
  rw [List.map_map, List.map_map]
  apply List.map_congr_left
  intro x _
  simp only [Function.comp]
  rw [ZMod.natCast_mod, Nat.cast_mul]

/-- `NTT(s·a) = s·NTT(a)` on reduced vectors -/
theorem nttStd_mulScalar (hT : Valid T K) (s : ℕ) (a : List ℕ) (ha : ∀ x ∈ a, x < T.q) :
    nttStd T (mulScalar T.q s a) = mulScalar T.q s (nttStd T a) := by
  have : Fact T.q.Prime := ⟨hT.prime⟩
  have hq := hT.q_pos
  have hlt := mulScalar_lt T.q s hq a
  apply map_cast_inj (q := T.q) _ _ (nttStd_cast hT _ hlt).2 (mulScalar_lt T.q s hq _)
  rw [(nttStd_cast hT _ hlt).1, mulScalar_cast, fwdZ_smul, mulScalar_cast, (nttStd_cast hT a ha).1]

/-- the algebraic core: `NTT(s⁻¹ · ((s₁·INTT x) ⊛ (s₂·INTT y))) = x ⊙ y` when `s₁ s₂ s⁻¹ ≡ 1` -/
theorem ntt_mul_scaled (hT : Valid T K) (hinv : TableInv (rho T.q T.rootsF) (2 ^ K))
    (x y : List ℕ) (hlx : x.length = T.n) (hly : y.length = T.n)
    (hx : ∀ e ∈ x, e < T.q) (hy : ∀ e ∈ y, e < T.q) (su sv si : ℕ)
    (hs : su * sv * si % T.q = 1) :
    nttStd T (mulScalar T.q si
        (RPoly.rowMul T.q (mulScalar T.q su (inttStd T x)) (mulScalar T.q sv (inttStd T y))))
      = List.zipWith (fun a b => a * b % T.q) x y := by
  have hq := hT.q_pos
  obtain ⟨hnx, hlix, hltx⟩ := nttStd_inttStd hT x hlx hx
  obtain ⟨hny, hliy, hlty⟩ := nttStd_inttStd hT y hly hy
  rw [nttStd_mulScalar hT si _ (rowMul_lt hq _ _),
    nttStd_mul hT hinv _ _ (by rw [mulScalar_length, hlix]) (by rw [mulScalar_length, hliy])
      (mulScalar_lt _ _ hq _) (mulScalar_lt _ _ hq _),
    nttStd_mulScalar hT su _ hltx, nttStd_mulScalar hT sv _ hlty, hnx, hny]
  unfold mulScalar
  rw [List.zipWith_map, List.map_zipWith]
  congr 1
  funext a b
  have h1 : (((a * su % T.q * (b * sv % T.q) % T.q * si % T.q : ℕ) : ℕ) : ZMod T.q)
      = ((a * b % T.q : ℕ) : ZMod T.q) := by
    have h := (ZMod.natCast_eq_natCast_iff' (su * sv * si) 1 T.q).2
      (by rw [hs, Nat.mod_eq_of_lt hT.prime.one_lt])
    simp only [Nat.cast_mul, Nat.cast_one] at h
    simp only [ZMod.natCast_mod, Nat.cast_mul]
    linear_combination ((a : ZMod T.q) * b) * h
  have := (ZMod.natCast_eq_natCast_iff' _ _ T.q).1 h1
  rwa [Nat.mod_mod, Nat.mod_mod] at this

end

/-! ### slot values -/

/-- the `i`-th decoded slot of `u`: `u[i] mod t`, `0` beyond the input -/
def slotOf (t : ℕ) (u : List ℕ) (i : ℕ) : ℕ := if h : i < u.length then u[i] % t else 0

theorem pad_getElem (t : ℕ) (u : List ℕ) (m i : ℕ) (_hu : u.length ≤ m)
    (h : i < ((u.map (· % t)) ++ List.replicate (m - u.length) 0).length) :
    ((u.map (· % t)) ++ List.replicate (m - u.length) 0)[i] = slotOf t u i := by
  unfold slotOf
  by_cases hi : i < u.length
  · rw [dif_pos hi, List.getElem_append_left (by simpa using hi)]; simp
  · rw [dif_neg hi, List.getElem_append_right (by simpa using hi)]; simp

theorem getD_zipWith_mul (t : ℕ) (x y : List ℕ) (k : ℕ) (hx : k < x.length) (hy : k < y.length) :
    (List.zipWith (fun a b => a * b % t) x y).getD k 0 = x.getD k 0 * y.getD k 0 % t := by
  rw [getD_of_lt _ _ (by simp; omega), getD_of_lt _ _ hx, getD_of_lt _ _ hy, List.getElem_zipWith]

/-- **encode_mul** (plaintext ring, any index table without repetition).  For every pair of vectors
    `u, v` no longer than the slot count, encoded at scales `s₁, s₂` into `p₁, p₂` (any stale buffer
    content), and every decoding scale `s ≡ s₁·s₂ (mod t)` not divisible by `t`, decoding the negacyclic
    product `p₁ ⊛ p₂` gives the slot-wise product `u[i]·v[i] mod t`, `0` in the slots where either input
    is unspecified. -/
theorem encode_mul_T (T : NTT.Tables) (K : ℕ) (hT : Valid T K)
    (hinv : TableInv (rho T.q T.rootsF) (2 ^ K))
    (perm u v buf1 buf2 pu pv : List ℕ) (su sv s len : ℕ)
    (hperm : perm.Nodup) (hplt : ∀ q ∈ perm, q < T.n)
    (hbuf1 : buf1.length = T.n) (hbuf2 : buf2.length = T.n)
    (hs : s % T.q = su * sv % T.q) (hsd : ¬ T.q ∣ s) (hlen : len ≤ perm.length)
    (hencu : encodeRingTU T perm u su buf1 = some pu)
    (hencv : encodeRingTU T perm v sv buf2 = some pv) :
    decodeRingTU T perm s (RPoly.rowMul T.q pu pv) len
      = (List.zipWith (fun a b => a * b % T.q)
          ((u.map (· % T.q)) ++ List.replicate (perm.length - u.length) 0)
          ((v.map (· % T.q)) ++ List.replicate (perm.length - v.length) 0)).take len := by
  have hq := hT.q_pos
  have h8 := hT.h8
  have h64 : T.q < 2 ^ 64 := by unfold W at h8; omega
  have hsi := scaleInv_spec T.q s hT.prime h64 hsd
  have hsss : su * sv * scaleInv T.q s % T.q = 1 := by
    rw [Nat.mul_mod, ← hs, ← Nat.mul_mod]; exact hsi
  unfold encodeRingTU at hencu hencv
  by_cases hul : u.length > perm.length
  · rw [if_pos hul] at hencu; cases hencu
  by_cases hvl : v.length > perm.length
  · rw [if_pos hvl] at hencv; cases hencv
  rw [if_neg hul] at hencu
  rw [if_neg hvl] at hencv
  have hul' : u.length ≤ perm.length := by omega
  have hvl' : v.length ≤ perm.length := by omega
  have hpu : pu = mulScalar T.q su (NTT.inttStd T (slotsU T.q perm u buf1)) := by
    simp only [Option.some.injEq] at hencu; exact hencu.symm
  have hpv : pv = mulScalar T.q sv (NTT.inttStd T (slotsU T.q perm v buf2)) := by
    simp only [Option.some.injEq] at hencv; exact hencv.symm
  have hxl : (slotsU T.q perm u buf1).length = T.n := by rw [slotsU_length, hbuf1]
  have hyl : (slotsU T.q perm v buf2).length = T.n := by rw [slotsU_length, hbuf2]
  unfold decodeRingTU
  rw [hpu, hpv, ntt_mul_scaled hT hinv _ _ hxl hyl (slotsU_lt T.q hq perm u buf1)
    (slotsU_lt T.q hq perm v buf2) su sv _ hsss]
  apply List.ext_getElem
  · simp; omega
  · intro i h1 h2
    have hi : i < perm.length := by simp at h1; omega
    have hpi : perm[i] < T.n := hplt _ (List.getElem_mem hi)
    simp only [List.getElem_map, List.getElem_take]
    rw [getD_zipWith_mul _ _ _ _ (by rw [hxl]; exact hpi) (by rw [hyl]; exact hpi),
      slotsU_get T.q perm u buf1 hperm (by intro q hq'; rw [hbuf1]; exact hplt q hq') hul' i hi,
      slotsU_get T.q perm v buf2 hperm (by intro q hq'; rw [hbuf2]; exact hplt q hq') hvl' i hi,
      List.getElem_zipWith, pad_getElem T.q u perm.length i hul', pad_getElem T.q v perm.length i hvl']
    rfl

end Lattigo.EncoderT
