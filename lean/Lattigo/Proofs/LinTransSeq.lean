/-
  C12 — `EvaluateSequential`: level and scale bookkeeping (`seqMeta`, bgv: exact scales modulo the prime
  `t`) in closed form.
-/
import Lattigo.Model.LinTrans
import Lattigo.Proofs.GaloisExp
import Mathlib.FieldTheory.Finite.Basic

namespace Lattigo.Model.LinTrans
open Lattigo.Model

/-- the inverse `Rescale` multiplies the scale with: `q^(t-2) mod t` is `q⁻¹` in `ZMod t` -/
theorem cast_modExp_inv (t q : Nat) [hp : Fact t.Prime] (h64 : t < 2 ^ 64) (hq : (q : ZMod t) ≠ 0) :
    ((Galois.modExp q (t - 2) t : Nat) : ZMod t) = (q : ZMod t)⁻¹ := by
  have ht2 := hp.out.two_le
  rw [Lattigo.Proofs.Galois.modExp_eq q (t - 2) t (by omega) (by omega), ZMod.natCast_mod, Nat.cast_pow]
  have h1 : (q : ZMod t) ^ (t - 1) = 1 := ZMod.pow_card_sub_one_eq_one hq
  have h2 : (q : ZMod t) * (q : ZMod t) ^ (t - 2) = 1 := by
    rw [← pow_succ']; rw [show t - 2 + 1 = t - 1 by omega]; exact h1
  exact eq_inv_of_mul_eq_one_right h2

/-- one `EvaluateMany` + `Rescale` step of the sequence, from `(lvl, sc)` with a transformation at level
    `≥ lvl`: one level down, scale times the transformation's scale over `q_lvl` -/
def seqStep (t : Nat) (qmodt : List Nat) (acc : Option (Nat × Nat)) (ls : Nat × Nat) : Option (Nat × Nat) :=
  match acc with
  | none => none
  | some (lvl, sc) =>
    let m := outMeta t lvl lvl ls.1 sc ls.2
    if m.1 = 0 then none else some (m.1 - 1, m.2 * Galois.modExp (qmodt.getD m.1 0) (t - 2) t % t)

theorem seqMeta_cons (t : Nat) (qmodt : List Nat) (ctLevel ctScale : Nat) (l0 s0 : Nat) (rest : List (Nat × Nat)) :
    seqMeta t qmodt ctLevel ctScale ((l0, s0) :: rest) =
      rest.foldl (seqStep t qmodt)
        (if (outMeta t l0 ctLevel l0 ctScale s0).1 = 0 then none
         else some ((outMeta t l0 ctLevel l0 ctScale s0).1 - 1,
           (outMeta t l0 ctLevel l0 ctScale s0).2 *
             Galois.modExp (qmodt.getD (outMeta t l0 ctLevel l0 ctScale s0).1 0) (t - 2) t % t)) := by
  unfold seqMeta
  rfl

/-- the fold from `(lvl, sc)` over transformations whose levels are all `≥ lvl`, with enough levels -/
theorem seqFold_spec (t : Nat) [hp : Fact t.Prime] (h64 : t < 2 ^ 64) (qmodt : List Nat) (rest : List (Nat × Nat)) :
    ∀ (lvl sc : Nat), (∀ ls ∈ rest, lvl ≤ ls.1) → rest.length ≤ lvl →
      (∀ l, 1 ≤ l → l ≤ lvl → ((qmodt.getD l 0 : Nat) : ZMod t) ≠ 0) →
      ∃ sc', rest.foldl (seqStep t qmodt) (some (lvl, sc)) = some (lvl - rest.length, sc') ∧
        ((sc' : Nat) : ZMod t) = (sc : ZMod t) * ((rest.map fun ls => ((ls.2 : Nat) : ZMod t)).prod) *
          ((List.range rest.length).map fun j => (((qmodt.getD (lvl - j) 0 : Nat) : ZMod t))⁻¹).prod := by
  induction rest with
  | nil => intro lvl sc _ _ _; exact ⟨sc, rfl, by simp⟩
  | cons ls rest ih =>
    intro lvl sc hlv hlen hq
    have hl1 : lvl ≤ ls.1 := hlv ls (by simp)
    have hpos : 1 ≤ lvl := by simp only [List.length_cons] at hlen; omega
    have ht0 : t ≠ 0 := hp.out.ne_zero
    have hm1 : (outMeta t lvl lvl ls.1 sc ls.2).1 = lvl := by
      simp only [outMeta]; omega
    have hm2 : (outMeta t lvl lvl ls.1 sc ls.2).2 = sc * ls.2 % t := by
      simp only [outMeta, if_neg ht0]
    simp only [List.foldl_cons, seqStep, hm1, hm2]
    rw [if_neg (by omega)]
    obtain ⟨sc', h1, h2⟩ := ih (lvl - 1) (sc * ls.2 % t * Galois.modExp (qmodt.getD lvl 0) (t - 2) t % t)
      (fun x hx => by have := hlv x (by simp [hx]); omega)
      (by simp only [List.length_cons] at hlen; omega)
      (fun l h1 h2 => hq l h1 (by omega))
    refine ⟨sc', ?_, ?_⟩
    · rw [h1]; simp only [List.length_cons]; congr 2; omega
    · rw [h2, ZMod.natCast_mod, Nat.cast_mul, ZMod.natCast_mod, Nat.cast_mul,
        cast_modExp_inv t _ h64 (hq lvl hpos (le_refl _))]
      simp only [List.map_cons, List.prod_cons, List.length_cons, List.range_succ_eq_map, List.map_map,
        Nat.sub_zero]
      have : (fun j => (((qmodt.getD (lvl - 1 - j) 0 : Nat) : ZMod t))⁻¹) =
          ((fun j => (((qmodt.getD (lvl - j) 0 : Nat) : ZMod t))⁻¹) ∘ Nat.succ) := by
        funext j; simp only [Function.comp]; congr 3; omega
      rw [this]
      ring

end Lattigo.Model.LinTrans
