import Lattigo.Proofs.NTTRange
import Mathlib.Data.ZMod.Basic
import Mathlib.Tactic.Ring
import Mathlib.Tactic.Linarith
import Mathlib.Algebra.Field.ZMod

/-!
  # Semantics of the NTT networks in `Z_q` (property C01, WP-N)

  * `MRedLazy_cast`: `MRedLazy x y = x·y·W⁻¹` in `ZMod q`.
  * `fwdZ`, `invZ`: the exact Cooley–Tukey / Gentleman–Sande networks over a commutative ring.
  * `fwdRec_cast`, `invRec_cast`: the word-level networks of `Model/NTT.lean`, read in `ZMod q`,
    ARE the exact networks with twiddles `ρ_j = roots[j]·W⁻¹` (stage-wise exactness; uses the range
    invariants of `NTTRange.lean`).
-/
namespace Lattigo.NTT
open Lattigo Lattigo.Gen

section
variable {q : ℕ} [hp : Fact q.Prime]

theorem W_ne_zero (hodd : q % 2 = 1) : (W : ZMod q) ≠ 0 := by
  intro h
  rw [ZMod.natCast_eq_zero_iff] at h
  have h2 : q ∣ 2 := by
    rw [W_eq] at h
    exact (Nat.Prime.dvd_of_dvd_pow hp.out h)
  have := Nat.le_of_dvd (by decide) h2
  have := hp.out.two_le
  have : q = 2 := by omega
  omega

/-- `MRedLazy x y` is `x·y·W⁻¹` in `Z_q` -/
theorem MRedLazy_cast (x y qinv : ℕ) (hq : 2 * q ≤ W) (hm : MontConst q qinv) (hxy : x * y < q * W) :
    ((MRedLazy x y q qinv : ℕ) : ZMod q) = (x : ZMod q) * (y : ZMod q) * (W : ZMod q)⁻¹ := by
  obtain ⟨h, _, _⟩ := MRedLazy_eq x y q qinv hq hm hxy
  have hW := W_ne_zero (q := q) hm.odd
  have := congrArg (Nat.cast : ℕ → ZMod q) h
  simp only [Nat.cast_add, Nat.cast_mul, ZMod.natCast_self, mul_zero, zero_mul, add_zero] at this
  rw [← this, mul_assoc, mul_inv_cancel₀ hW, mul_one]

/-- the value of table entry `j` in `Z_q`, Montgomery factor stripped: `roots[j]·W⁻¹` -/
def rho (q : ℕ) (roots : Array ℕ) (j : ℕ) : ZMod q := (roots[j]! : ZMod q) * (W : ZMod q)⁻¹

theorem bflyN_cast (r : Bool) (psi qinv u v : ℕ) (h8 : 8 * q ≤ W) (hm : MontConst q qinv)
    (hpsi : psi < q) (hv : v < W) :
    (((bflyN r psi q qinv u v).1 : ℕ) : ZMod q) = (u : ZMod q) + (psi : ZMod q) * (W : ZMod q)⁻¹ * v
    ∧ (((bflyN r psi q qinv u v).2 : ℕ) : ZMod q) = (u : ZMod q) - (psi : ZMod q) * (W : ZMod q)⁻¹ * v := by
  have hVP : v * psi < q * W := by
    rw [Nat.mul_comm q W]; exact Nat.mul_lt_mul'' hv hpsi
  have h2q : 2 * q ≤ W := by unfold W at *; omega
  have hc := MRedLazy_cast v psi qinv h2q hm hVP
  obtain ⟨_, hlt, _⟩ := MRedLazy_eq v psi q qinv h2q hm hVP
  unfold bflyN
  simp only []
  generalize MRedLazy v psi q qinv = v' at *
  have hu' : (((if r && decide (4 * q ≤ u) then u - 4 * q else u : ℕ)) : ZMod q) = (u : ZMod q) := by
    split
    · rename_i h
      simp only [Bool.and_eq_true, decide_eq_true_eq] at h
      rw [Nat.cast_sub h.2, Nat.cast_mul, ZMod.natCast_self, mul_zero, sub_zero]
    · rfl
  generalize (if r && decide (4 * q ≤ u) then u - 4 * q else u) = u' at *
  constructor
  · rw [Nat.cast_add, hu', hc]; ring
  · rw [Nat.cast_sub (by omega), Nat.cast_add, Nat.cast_mul, ZMod.natCast_self, mul_zero, add_zero,
      hu', hc]; ring

theorem ibflyN_cast (psi qinv u v : ℕ) (h6 : 6 * q ≤ W) (hm : MontConst q qinv)
    (hpsi : psi < q) (hu : u < 2 * q) (hv : v < 2 * q) :
    (((ibflyN psi q qinv u v).1 : ℕ) : ZMod q) = (u : ZMod q) + v
    ∧ (((ibflyN psi q qinv u v).2 : ℕ) : ZMod q)
        = ((u : ZMod q) - v) * ((psi : ZMod q) * (W : ZMod q)⁻¹) := by
  have hDW : u + 4 * q - v < W := by unfold W at *; omega
  have hDP : (u + 4 * q - v) * psi < q * W := by
    rw [Nat.mul_comm q W]; exact Nat.mul_lt_mul'' hDW hpsi
  have h2q : 2 * q ≤ W := by unfold W at *; omega
  have hc := MRedLazy_cast (u + 4 * q - v) psi qinv h2q hm hDP
  unfold ibflyN
  simp only []
  constructor
  · split
    · rename_i h
      rw [Nat.cast_sub h, Nat.cast_mul, ZMod.natCast_self, mul_zero, sub_zero, Nat.cast_add]
    · rw [Nat.cast_add]
  · rw [hc, Nat.cast_sub (by omega), Nat.cast_add, Nat.cast_mul, ZMod.natCast_self, mul_zero,
      add_zero]; ring

end

/-! ### the exact networks over a commutative ring -/
section
variable {F : Type} [CommRing F]

/-- exact Cooley–Tukey network: node `j` maps `(U,V)` to `(U + ρ_j V, U − ρ_j V)` -/
def fwdZ (ρ : ℕ → F) : (k : ℕ) → (j : ℕ) → List F → List F
  | 0, _, a => a
  | k + 1, j, a =>
    fwdZ ρ k (2 * j)
        (List.zipWith (fun u v => u + ρ j * v) (a.take (a.length / 2)) (a.drop (a.length / 2)))
    ++ fwdZ ρ k (2 * j + 1)
        (List.zipWith (fun u v => u - ρ j * v) (a.take (a.length / 2)) (a.drop (a.length / 2)))

/-- exact Gentleman–Sande network: `(L,R) ↦ (L + R, (L − R)·ρ'_j)` after the children -/
def invZ (ρ' : ℕ → F) : (k : ℕ) → (j : ℕ) → List F → List F
  | 0, _, a => a
  | k + 1, j, a =>
    List.zipWith (fun u v => u + v)
        (invZ ρ' k (2 * j) (a.take (a.length / 2))) (invZ ρ' k (2 * j + 1) (a.drop (a.length / 2)))
    ++ List.zipWith (fun u v => (u - v) * ρ' j)
        (invZ ρ' k (2 * j) (a.take (a.length / 2))) (invZ ρ' k (2 * j + 1) (a.drop (a.length / 2)))
end

theorem map_zipWith_mem {α β γ δ : Type} (f : α → α → β) (g : β → δ) (c : α → γ) (f' : γ → γ → δ) :
    ∀ (l1 l2 : List α), (∀ u ∈ l1, ∀ v ∈ l2, g (f u v) = f' (c u) (c v)) →
      (List.zipWith f l1 l2).map g = List.zipWith f' (l1.map c) (l2.map c)
  | [], _, _ => by simp
  | _ :: _, [], _ => by simp
  | u :: l1, v :: l2, h => by
    rw [List.zipWith_cons_cons, List.map_cons, List.map_cons, List.map_cons, List.zipWith_cons_cons,
      h u (List.mem_cons_self ..) v (List.mem_cons_self ..),
      map_zipWith_mem f g c f' l1 l2
        (fun u' hu' v' hv' => h u' (List.mem_cons_of_mem _ hu') v' (List.mem_cons_of_mem _ hv'))]

section
variable {q : ℕ} [hp : Fact q.Prime]

/-- **Stage-wise exactness of the forward network**: under the hypotheses of `fwdRec_ok`, the
word-level network, read in `Z_q`, IS the exact Cooley–Tukey network with twiddles `ρ_j = roots[j]·W⁻¹`. -/
theorem fwdRec_cast (roots : Array ℕ) (qinv : ℕ) (flag : ℕ → Bool) (B : ℕ → ℕ) (K : ℕ)
    (h8 : 8 * q ≤ W) (hm : MontConst q qinv) (hr : RootsLt roots q) (hB : BoundOK flag B K) :
    ∀ (k d j : ℕ) (a : List ℕ), d + k ≤ K → (∀ x ∈ a, x < B d * q) →
      (fwdRec roots q qinv flag k d j a).map (Nat.cast : ℕ → ZMod q)
        = fwdZ (rho q roots) k j (a.map (Nat.cast : ℕ → ZMod q))
  | 0, _, _, _, _, _ => rfl
  | k + 1, d, j, a, hdk, ha => by
    obtain ⟨e, hb⟩ := fwdStage_ok roots q qinv flag B K h8 hm hr hB d j (by omega) a ha
    have hW : ∀ x ∈ a, x < W := by
      intro x hx
      have := ha x hx
      obtain ⟨hB1, hB2⟩ := hB d (by omega)
      have h88 : B d * q ≤ 8 * q := by
        cases hf : flag d with
        | true => exact Nat.mul_le_mul_right q (hB1 hf).1
        | false => have := (hB2 hf); exact Nat.mul_le_mul_right q (by omega)
      omega
    have key : ∀ u ∈ a.take (a.length / 2), ∀ v ∈ a.drop (a.length / 2),
        (((bflyN (flag d) roots[j]! q qinv u v).1 : ℕ) : ZMod q) = (u : ZMod q) + rho q roots j * v
        ∧ (((bflyN (flag d) roots[j]! q qinv u v).2 : ℕ) : ZMod q) = (u : ZMod q) - rho q roots j * v :=
      fun u _ v hv => bflyN_cast (flag d) roots[j]! qinv u v h8 hm (hr j) (hW v (mem_drop_of hv))
    rw [fwdRec_succ, List.map_append]
    rw [fwdRec_cast roots qinv flag B K h8 hm hr hB k (d + 1) (2 * j) _ (by omega)
        (by intro x hx
            rw [e, List.mem_map] at hx
            obtain ⟨p, hp, rfl⟩ := hx
            have := (hb p hp).1; omega),
      fwdRec_cast roots qinv flag B K h8 hm hr hB k (d + 1) (2 * j + 1) _ (by omega)
        (by intro x hx
            rw [e, List.mem_map] at hx
            obtain ⟨p, hp, rfl⟩ := hx
            have := (hb p hp).2; omega)]
    rw [e]
    unfold fwdStageN
    simp only [fwdZ, List.map_map, List.length_map, ← List.map_take, ← List.map_drop]
    congr 2
    · exact map_zipWith_mem _ _ _ (fun u v => u + rho q roots j * v) _ _
        (fun u hu v hv => (key u hu v hv).1)
    · exact map_zipWith_mem _ _ _ (fun u v => u - rho q roots j * v) _ _
        (fun u hu v hv => (key u hu v hv).2)


/-- **Stage-wise exactness of the inverse network** (inputs `< 2q`, `6q ≤ 2^64`). -/
theorem invRec_cast (roots : Array ℕ) (qinv : ℕ) (h6 : 6 * q ≤ W) (hm : MontConst q qinv)
    (hr : RootsLt roots q) :
    ∀ (k j : ℕ) (a : List ℕ), (∀ x ∈ a, x < 2 * q) →
      (invRec roots q qinv k j a).map (Nat.cast : ℕ → ZMod q)
        = invZ (rho q roots) k j (a.map (Nat.cast : ℕ → ZMod q))
  | 0, _, _, _ => rfl
  | k + 1, j, a, ha => by
    have hal : ∀ x ∈ a.take (a.length / 2), x < 2 * q := fun x hx => ha x (mem_take_of hx)
    have har : ∀ x ∈ a.drop (a.length / 2), x < 2 * q := fun x hx => ha x (mem_drop_of hx)
    obtain ⟨okl, hl⟩ := invRec_ok roots q qinv h6 hm hr k (2 * j) _ hal
    obtain ⟨okr, hr'⟩ := invRec_ok roots q qinv h6 hm hr k (2 * j + 1) _ har
    obtain ⟨⟨_, _, _, e, _⟩, _⟩ := invRec_ok roots q qinv h6 hm hr (k + 1) j a ha
    have key : ∀ u ∈ invRec roots q qinv k (2 * j) (a.take (a.length / 2)),
        ∀ v ∈ invRec roots q qinv k (2 * j + 1) (a.drop (a.length / 2)),
        (((ibflyN roots[j]! q qinv u v).1 : ℕ) : ZMod q) = (u : ZMod q) + v
        ∧ (((ibflyN roots[j]! q qinv u v).2 : ℕ) : ZMod q) = ((u : ZMod q) - v) * rho q roots j :=
      fun u hu v hv => ibflyN_cast roots[j]! qinv u v h6 hm (hr j) (hl u hu) (hr' v hv)
    rw [invRec_succ, e, List.map_append]
    simp only [invZ, List.map_map, List.length_map, ← List.map_take, ← List.map_drop]
    rw [← invRec_cast roots qinv h6 hm hr k (2 * j) _ hal,
      ← invRec_cast roots qinv h6 hm hr k (2 * j + 1) _ har]
    congr 1
    · exact map_zipWith_mem _ _ _ (fun u v => u + v) _ _ (fun u hu v hv => (key u hu v hv).1)
    · exact map_zipWith_mem _ _ _ (fun u v => (u - v) * rho q roots j) _ _
        (fun u hu v hv => (key u hu v hv).2)

end
end Lattigo.NTT
