/-
  C13 — the levels (and ciphertext degrees, and the control flow) of the machine do not depend on the
  plaintext modulus, the scales, the coefficient VALUES, the slot values, the mapping, and shift with
  the input level: a run of the level-only instance (`t = 0`) at input level `L0` is simulated by every
  run at input level `L0 + k`, `k ≥ 0`, on polynomials of the same length — which then succeeds with
  the same ciphertext degree and the level shifted by `k`, unless (`t ≠ 0` only) it stops on a scale
  check or on the bgv-only degree-0 check.
-/
import Lattigo.Proofs.PolyEvalRun

namespace Lattigo.Model.PolyEval

/-- operands related: same ciphertext degree, level shifted by `k` -/
structure RO (k : Int) (o o' : Opd) : Prop where
  lvl : o.level = o'.level + k
  deg : o.deg = o'.deg

/-- power bases related: same keys in the same order, related operands -/
def RPB (k : Int) (pb pb' : List (Nat × Opd)) : Prop :=
  List.Forall₂ (fun p p' => p.1 = p'.1 ∧ RO k p.2 p'.2) pb pb'

def RS (k : Int) (st st' : St) : Prop := RPB k st.pb st'.pb

/-- `Sim tz k Ra m m'`: whenever the abstract computation `m'` succeeds from a related state, the
    concrete one `m` succeeds with a related result and state — or, if `tz` (`t = 0`) does not hold,
    stops with an error -/
def Sim (tz : Prop) (k : Int) {α : Type} (Ra : α → α → Prop) (m m' : M α) : Prop :=
  ∀ st st', RS k st st' → ∀ a' s', ex m' st' = (.ok a', s') →
    (∃ a s, ex m st = (.ok a, s) ∧ Ra a a' ∧ RS k s s') ∨ (¬ tz ∧ ∃ e s, ex m st = (.error e, s))

variable {tz : Prop} {k : Int}

theorem sim_bind {α β : Type} {Ra : α → α → Prop} {Rb : β → β → Prop} {m m' : M α} {f f' : α → M β}
    (hm : Sim tz k Ra m m') (hf : ∀ a a', Ra a a' → Sim tz k Rb (f a) (f' a')) :
    Sim tz k Rb (m >>= f) (m' >>= f') := by
  intro st st' hst b' s2' hex
  rw [ex_bind] at hex
  cases hm' : ex m' st' with
  | mk r s1' =>
    rw [hm'] at hex
    cases r with
    | error e => simp at hex
    | ok a' =>
      simp only at hex
      rcases hm st st' hst a' s1' hm' with ⟨a, s1, h1, hra, hs1⟩ | ⟨hz, e, s, he⟩
      · rcases hf a a' hra s1 s1' hs1 b' s2' hex with ⟨b, s2, h2, hrb, hs2⟩ | ⟨hz, e, s, he⟩
        · left; exact ⟨b, s2, by rw [ex_bind, h1]; exact h2, hrb, hs2⟩
        · right; exact ⟨hz, e, s, by rw [ex_bind, h1]; exact he⟩
      · right; exact ⟨hz, e, s, by rw [ex_bind, he]⟩

theorem sim_pure {α : Type} {Ra : α → α → Prop} {a a' : α} (h : Ra a a') :
    Sim tz k Ra (pure a : M α) (pure a') := by
  intro st st' hst b' s' hex
  simp only [ex_pure, Prod.mk.injEq, Except.ok.injEq] at hex
  obtain ⟨rfl, rfl⟩ := hex
  left; exact ⟨a, st, rfl, h, hst⟩

/-- the abstract side never succeeds by throwing -/
theorem sim_throw {α : Type} {Ra : α → α → Prop} (m : M α) (e : String) : Sim tz k Ra m (throw e) := by
  intro st st' _ b' s' hex
  simp at hex

theorem sim_ite {α : Type} {Ra : α → α → Prop} {c c' : Prop} [Decidable c] [Decidable c'] (hc : c ↔ c')
    {a b a' b' : M α} (ha : c → Sim tz k Ra a a') (hb : ¬ c → Sim tz k Ra b b') :
    Sim tz k Ra (if c then a else b) (if c' then a' else b') := by
  by_cases h : c
  · rw [if_pos h, if_pos (hc.1 h)]; exact ha h
  · rw [if_neg h, if_neg (fun h' => h (hc.2 h'))]; exact hb h

theorem sim_log (s s' : String) : Sim tz k (fun _ _ => True) (log s) (log s') := by
  intro st st' hst b' s2 hex
  left
  exact ⟨(), _, rfl, trivial, by simp only [ex_log, Prod.mk.injEq] at hex; rw [← hex.2]; exact hst⟩

theorem rpb_find {pb pb' : List (Nat × Opd)} (h : RPB k pb pb') (n : Nat) :
    Option.Rel (fun p p' => p.1 = p'.1 ∧ RO k p.2 p'.2) (pb.find? (·.1 == n)) (pb'.find? (·.1 == n)) := by
  induction h with
  | nil => exact Option.Rel.none
  | cons hp _ ih =>
    rename_i p p' l l'
    simp only [List.find?_cons]
    rw [← hp.1]
    split
    · exact Option.Rel.some hp
    · exact ih

theorem rpb_filter {pb pb' : List (Nat × Opd)} (h : RPB k pb pb') (n : Nat) :
    RPB k (pb.filter (·.1 != n)) (pb'.filter (·.1 != n)) := by
  induction h with
  | nil => exact List.Forall₂.nil
  | cons hp _ ih =>
    rename_i p p' l l'
    simp only [List.filter_cons]
    rw [← hp.1]
    split
    · exact List.Forall₂.cons hp ih
    · exact ih

theorem sim_getP (n : Nat) : Sim tz k (RO k) (getP n) (getP n) := by
  intro st st' hst o' s' hex
  rw [ex_getP] at hex
  have hrel := rpb_find hst n
  left
  cases h' : st'.pb.find? (·.1 == n) with
  | none => rw [h'] at hex; simp at hex
  | some p' =>
    rw [h'] at hex hrel
    cases h : st.pb.find? (·.1 == n) with
    | none => rw [h] at hrel; cases hrel
    | some p =>
      rw [h] at hrel
      cases hrel with
      | some hp =>
        simp only [Prod.mk.injEq, Except.ok.injEq] at hex
        refine ⟨p.2, st, ?_, ?_, ?_⟩
        · rw [ex_getP, h]
        · rw [← hex.1]; exact hp.2
        · rw [← hex.2]; exact hst

theorem sim_hasP (n : Nat) : Sim tz k (· = ·) (hasP n) (hasP n) := by
  intro st st' hst b' s' hex
  simp only [ex_hasP, Prod.mk.injEq, Except.ok.injEq] at hex
  have hrel := rpb_find hst n
  left
  refine ⟨_, st, rfl, ?_, by rw [← hex.2]; exact hst⟩
  rw [← hex.1]
  generalize st.pb.find? (·.1 == n) = x at hrel
  generalize st'.pb.find? (·.1 == n) = x' at hrel
  cases hrel <;> rfl

theorem sim_setP (n : Nat) {o o' : Opd} (h : RO k o o') : Sim tz k (fun _ _ => True) (setP n o) (setP n o') := by
  intro st st' hst b' s' hex
  simp only [ex_setP, Prod.mk.injEq] at hex
  left
  refine ⟨(), _, rfl, trivial, ?_⟩
  rw [← hex.2]
  exact List.Forall₂.cons ⟨rfl, h⟩ (rpb_filter hst n)

/-- a guard `if c { return err }` -/
theorem sim_guard {α : Type} {Ra : α → α → Prop} {c c' : Prop} [Decidable c] [Decidable c'] (e e' : String)
    {jp jp' : Unit → M α} (hc : c → c' ∨ ¬ tz) (hj : Sim tz k Ra (jp ()) (jp' ())) :
    Sim tz k Ra (if c then (throw e >>= fun r => jp r) else jp ())
      (if c' then (throw e' >>= fun r => jp' r) else jp' ()) := by
  intro st st' hst a' s' hex
  by_cases h' : c'
  · rw [if_pos h', ex_bind] at hex; simp at hex
  · rw [if_neg h'] at hex
    by_cases h : c
    · rcases hc h with h1 | h1
      · exact absurd h1 h'
      · right; exact ⟨h1, e, st, by rw [if_pos h, ex_bind]; simp⟩
    · rw [if_neg h]; exact hj st st' hst a' s' hex

/-! ## the environments -/

/-- the abstract environment of `e`: the level-only instance with the same basis, mode and flags -/
def absEnv (e : Env) : Env := { e with t := 0, q := [], slots := 0, pflags := [] }

section ops
variable (e : Env) (hk : 0 ≤ k)
include hk

theorem sim_rescaleOp {o o' : Opd} (h : RO k o o') :
    Sim (e.t = 0) k (RO k) (rescaleOp e o) (rescaleOp (absEnv e) o') := by
  unfold rescaleOp
  apply sim_bind (sim_log _ _)
  intro _ _ _
  simp only [absEnv]
  apply sim_ite (Iff.rfl)
  · intro _; exact sim_pure h
  · intro _
    apply sim_guard
    · intro hc; left; have := h.lvl; omega
    · exact sim_pure ⟨by simp only; have := h.lvl; omega, h.deg⟩

omit hk in
theorem sim_relinOp {o o' : Opd} (h : RO k o o') :
    Sim (e.t = 0) k (RO k) (relinOp e o) (relinOp (absEnv e) o') := by
  unfold relinOp
  apply sim_bind (sim_log _ _)
  intro _ _ _
  exact sim_pure ⟨h.lvl, rfl⟩

omit hk in
theorem sim_mulOp (name : String) (relin : Bool) {a a' b b' : Opd} (ha : RO k a a') (hb : RO k b b') :
    Sim (e.t = 0) k (RO k) (mulOp e name relin a b) (mulOp (absEnv e) name relin a' b') := by
  unfold mulOp
  apply sim_bind (sim_log _ _)
  intro _ _ _
  simp only [absEnv]
  apply sim_guard
  · intro hc
    right
    intro ht
    simp [ht] at hc
  · apply sim_guard
    · intro hc; left; rw [← ha.deg, ← hb.deg]; exact hc
    · refine sim_pure ⟨?_, ?_⟩
      · simp only; rw [ha.lvl, hb.lvl]; omega
      · simp only; rw [ha.deg, hb.deg]

omit hk in
theorem sim_addCt (name : String) (sub : Bool) {a a' b b' : Opd} (ha : RO k a a') (hb : RO k b b') :
    Sim (e.t = 0) k (RO k) (addCt e name sub a b) (addCt (absEnv e) name sub a' b') := by
  unfold addCt
  apply sim_bind (sim_log _ _)
  intro _ _ _
  refine sim_pure ⟨?_, ?_⟩
  · simp only; rw [ha.lvl, hb.lvl]; omega
  · simp only; rw [ha.deg, hb.deg]

omit hk in
theorem sim_addConst {a a' : Opd} (c c' : List Int) (ha : RO k a a') :
    Sim (e.t = 0) k (RO k) (addConst e a c) (addConst (absEnv e) a' c') := by
  unfold addConst
  apply sim_bind (sim_log _ _)
  intro _ _ _
  exact sim_pure ⟨ha.lvl, ha.deg⟩

omit hk in
theorem sim_mulThenAddConst {x x' r r' : Opd} (c c' : List Int) (hx : RO k x x') (hr : RO k r r') :
    Sim (e.t = 0) k (RO k) (mulThenAddConst e x c r) (mulThenAddConst (absEnv e) x' c' r') := by
  unfold mulThenAddConst
  apply sim_bind (sim_log _ _)
  intro _ _ _
  refine sim_pure ⟨?_, ?_⟩
  · simp only; rw [hx.lvl, hr.lvl]; omega
  · simp only; rw [hx.deg, hr.deg]

end ops

/-! ## the power basis -/

section gen
variable (e : Env) (hk : 0 ≤ k)

theorem sim_relinIf2 (n : Nat) :
    Sim (e.t = 0) k (fun _ _ => True) (relinIf2 e n) (relinIf2 (absEnv e) n) := by
  unfold relinIf2
  apply sim_bind (sim_getP n); intro o o' ho
  apply sim_ite (by rw [ho.deg])
  · intro _; apply sim_bind (sim_relinOp e ho); intro o2 o2' h2; exact sim_setP n h2
  · intro _; exact sim_pure trivial

include hk in
theorem sim_rescaleIf (r : Bool) (n : Nat) :
    Sim (e.t = 0) k (fun _ _ => True) (rescaleIf e r n) (rescaleIf (absEnv e) r n) := by
  unfold rescaleIf
  apply sim_ite Iff.rfl
  · intro _
    apply sim_bind (sim_getP n); intro o o' ho
    apply sim_bind (sim_rescaleOp e hk ho); intro o2 o2' h2
    exact sim_setP n h2
  · intro _; exact sim_pure trivial

theorem sim_mulInto (name : String) (relin : Bool) (a b n : Nat) :
    Sim (e.t = 0) k (fun _ _ => True) (mulInto e name relin a b n) (mulInto (absEnv e) name relin a b n) := by
  unfold mulInto
  apply sim_bind (sim_getP a); intro oa oa' ha
  apply sim_bind (sim_getP b); intro ob ob' hb
  apply sim_bind (sim_mulOp e name relin ha hb); intro o o' ho
  exact sim_setP n ho

include hk in
theorem sim_genPower (fuel : Nat) :
    (∀ n lazy, Sim (e.t = 0) k (fun _ _ => True) (genPowerTop e fuel n lazy) (genPowerTop (absEnv e) fuel n lazy)) ∧
    (∀ n lazy, Sim (e.t = 0) k (· = ·) (genPowerRec e fuel n lazy) (genPowerRec (absEnv e) fuel n lazy)) := by
  induction fuel with
  | zero =>
    constructor
    · intro n lazy; rw [genPowerTop, genPowerTop]; exact sim_throw _ _
    · intro n lazy; rw [genPowerRec, genPowerRec]; exact sim_throw _ _
  | succ fuel ih =>
    obtain ⟨ihT, ihR⟩ := ih
    constructor
    · intro n lazy
      rw [genPowerTop, genPowerTop]
      apply sim_bind (sim_hasP n); intro c c' hc; subst hc
      apply sim_ite Iff.rfl
      · intro _; exact sim_pure trivial
      · intro _
        apply sim_bind (ihR n lazy); intro r r' hr; subst hr
        exact sim_rescaleIf e hk r n
    · intro n lazy
      rw [genPowerRec, genPowerRec]
      apply sim_bind (sim_hasP n); intro c c' hc; subst hc
      apply sim_ite Iff.rfl
      · intro _; exact sim_pure rfl
      · intro _
        apply sim_ite Iff.rfl
        · intro _; exact sim_throw _ _
        · intro _
          simp only []
          apply sim_bind (ihR _ _); intro rA rA' hA; subst hA
          apply sim_bind (ihR _ _); intro rB rB' hB; subst hB
          apply sim_bind (Ra := fun _ _ => True)
          · apply sim_ite Iff.rfl
            · intro _
              apply sim_bind (sim_relinIf2 e _); intro _ _ _
              apply sim_bind (sim_relinIf2 e _); intro _ _ _
              apply sim_bind (sim_rescaleIf e hk _ _); intro _ _ _
              apply sim_bind (sim_rescaleIf e hk _ _); intro _ _ _
              exact sim_mulInto e _ _ _ _ _
            · intro _
              apply sim_bind (sim_rescaleIf e hk _ _); intro _ _ _
              apply sim_bind (sim_rescaleIf e hk _ _); intro _ _ _
              exact sim_mulInto e _ _ _ _ _
          · intro _ _ _
            apply sim_bind (Ra := fun _ _ => True)
            · simp only [absEnv]
              apply sim_ite Iff.rfl
              · intro _
                apply sim_bind (sim_getP n); intro o o' ho
                apply sim_bind (sim_addCt e _ _ ho ho); intro o2 o2' h2
                apply sim_bind (sim_setP n h2); intro _ _ _
                apply sim_ite Iff.rfl
                · intro _
                  apply sim_bind (sim_getP n); intro o3 o3' h3
                  apply sim_bind (sim_log _ _); intro _ _ _
                  exact sim_setP n ⟨h3.lvl, h3.deg⟩
                · intro _
                  apply sim_bind (ihT _ _); intro _ _ _
                  apply sim_bind (sim_getP n); intro on on' hn
                  apply sim_bind (sim_getP _); intro oc oc' hc
                  apply sim_bind (sim_addCt e _ _ hn hc); intro o3 o3' h3
                  exact sim_setP n h3
              · intro _; exact sim_pure trivial
            · intro _ _ _; exact sim_pure rfl

end gen

/-! ## loops -/

theorem sim_foldlM₂ {β ι ι' : Type} {Rb : β → β → Prop} {Ri : ι → ι' → Prop}
    (f : β → ι → M β) (f' : β → ι' → M β)
    (hf : ∀ b b' i i', Rb b b' → Ri i i' → Sim tz k Rb (f b i) (f' b' i'))
    {l : List ι} {l' : List ι'} (hl : List.Forall₂ Ri l l') :
    ∀ b b', Rb b b' → Sim tz k Rb (l.foldlM f b) (l'.foldlM f' b') := by
  induction hl with
  | nil => intro b b' hb; simp only [List.foldlM_nil]; exact sim_pure hb
  | cons hi _ ih =>
    intro b b' hb
    simp only [List.foldlM_cons]
    exact sim_bind (hf _ _ _ _ hb hi) (fun c c' hc => ih c c' hc)

theorem sim_foldlM {β ι : Type} {Rb : β → β → Prop} (f f' : β → ι → M β)
    (hf : ∀ b b' i, Rb b b' → Sim tz k Rb (f b i) (f' b' i)) (l : List ι) :
    ∀ b b', Rb b b' → Sim tz k Rb (l.foldlM f b) (l.foldlM f' b') := by
  induction l with
  | nil => intro b b' hb; simp only [List.foldlM_nil]; exact sim_pure hb
  | cons i l ih =>
    intro b b' hb
    simp only [List.foldlM_cons]
    exact sim_bind (hf _ _ _ hb) (fun c c' hc => ih c c' hc)

theorem sim_forM {ι : Type} (f f' : ι → M Unit)
    (hf : ∀ i, Sim tz k (fun _ _ => True) (f i) (f' i)) (l : List ι) :
    Sim tz k (fun _ _ => True) (l.forM f) (l.forM f') := by
  induction l with
  | nil => exact sim_pure (a := ()) (a' := ()) trivial
  | cons i l ih =>
    change Sim tz k _ (f i >>= fun _ => l.forM f) (f' i >>= fun _ => l.forM f')
    exact sim_bind (hf i) (fun _ _ _ => ih)

theorem sim_get : Sim tz k (RS k) (get : M St) get := by
  intro st st' hst a' s' hex
  simp only [ex_get, Prod.mk.injEq, Except.ok.injEq] at hex
  left; exact ⟨st, st, rfl, by rw [← hex.1]; exact hst, by rw [← hex.2]; exact hst⟩

theorem rpb_maxCtDeg {pb pb' : List (Nat × Opd)} (h : RPB k pb pb') (deg : Nat) :
    maxCtDeg pb deg = maxCtDeg pb' deg := by
  unfold maxCtDeg
  congr 1
  funext acc i
  split
  · rfl
  · have hrel := rpb_find h i
    generalize pb.find? (·.1 == i) = x at hrel
    generalize pb'.find? (·.1 == i) = x' at hrel
    cases hrel with
    | none => rfl
    | some hp => simp only; rw [hp.2.deg]

/-! ## baby steps, giant steps -/

/-- sub-polynomials related: same number of coefficients (so: same degree), same bookkeeping -/
structure RSub (p p' : SubPoly) : Prop where
  ne : p.coeffs ≠ []
  ne' : p'.coeffs ≠ []
  len : (p.coeffs.headD []).length = (p'.coeffs.headD []).length
  maxDeg : p.maxDeg = p'.maxDeg
  lead : p.lead = p'.lead

theorem RSub.degree {p p' : SubPoly} (h : RSub p p') : p.degree = p'.degree := by
  unfold SubPoly.degree; rw [h.len]

section steps
variable (e : Env) (hk : 0 ≤ k)

theorem sim_evalFromPowerBasis (mapping mapping' : Option (List (List Nat))) {T T' : Int} (hT : T = T' + k)
    {p p' : SubPoly} (hp : RSub p p') (sc sc' : Nat) :
    Sim (e.t = 0) k (RO k) (evalFromPowerBasis e mapping T p sc) (evalFromPowerBasis (absEnv e) mapping' T' p' sc') := by
  unfold evalFromPowerBasis
  simp only [absEnv, ← hp.degree, ← hp.len]
  apply sim_bind sim_get; intro st st' hst
  apply sim_ite Iff.rfl
  · intro _
    apply sim_ite Iff.rfl
    · intro _; exact sim_addConst e _ _ ⟨hT, rfl⟩
    · intro _; exact sim_pure ⟨hT, rfl⟩
  · intro _
    apply sim_bind (Ra := RO k)
    · apply sim_ite Iff.rfl
      · intro _; exact sim_addConst e _ _ ⟨hT, rpb_maxCtDeg hst _⟩
      · intro _; exact sim_pure ⟨hT, rpb_maxCtDeg hst _⟩
    · intro r r' hr
      apply sim_foldlM _ _ _ _ r r' hr
      intro b b' i hb
      apply sim_ite Iff.rfl
      · intro _
        apply sim_bind (sim_getP _); intro x x' hx
        exact sim_mulThenAddConst e _ _ hx hb
      · intro _; exact sim_pure hb

include hk in
theorem sim_evalMonomial {a a' b b' x x' : Opd} (ha : RO k a a') (hb : RO k b b') (hx : RO k x x') :
    Sim (e.t = 0) k (RO k) (evalMonomial e a b x) (evalMonomial (absEnv e) a' b' x') := by
  unfold evalMonomial
  apply sim_bind (Ra := RO k)
  · apply sim_ite (by rw [hb.deg])
    · intro _; exact sim_relinOp e hb
    · intro _; exact sim_pure hb
  · intro b1 b1' h1
    apply sim_bind (sim_rescaleOp e hk h1); intro b2 b2' h2
    apply sim_bind (sim_mulOp e _ _ h2 hx); intro b3 b3' h3
    -- the scale check: the abstract side (`t = 0`) never takes it
    intro st st' hst o' s' hex
    have h0 : ¬ (((absEnv e).t != 0 && a'.scale != b3'.scale) = true) := by simp [absEnv]
    rw [if_neg h0] at hex
    by_cases hc : (e.t != 0 && a.scale != b3.scale) = true
    · right
      refine ⟨?_, "err", st, by rw [if_pos hc]; rfl⟩
      intro ht; simp [ht] at hc
    · rw [if_neg hc]
      exact sim_addCt e _ _ h3 ha st st' hst o' s' hex

include hk in
theorem sim_giantPass (fuel : Nat) : ∀ (prev : Option Nat) (l l' : List (Nat × Opd)), RPB k l l' →
    Sim (e.t = 0) k (RPB k) (giantPass e fuel prev l) (giantPass (absEnv e) fuel prev l') := by
  induction fuel with
  | zero =>
    intro prev l l' hl
    rw [giantPass, giantPass]; exact sim_pure hl
  | succ fuel ih =>
    intro prev l l' hl
    cases hl with
    | nil => simp only [giantPass]; exact sim_pure List.Forall₂.nil
    | cons hp htl =>
      rename_i p p' tl tl'
      obtain ⟨d0, v0⟩ := p
      obtain ⟨d0', v0'⟩ := p'
      obtain ⟨hd, hv⟩ := hp
      simp only at hd hv
      subst hd
      cases htl with
      | nil =>
        simp only [giantPass]
        exact sim_pure (List.Forall₂.cons ⟨rfl, hv⟩ List.Forall₂.nil)
      | cons hp1 hrest =>
        rename_i p1 p1' rest rest'
        obtain ⟨d1, v1⟩ := p1
        obtain ⟨d1', v1'⟩ := p1'
        obtain ⟨hd1, hv1⟩ := hp1
        simp only at hd1 hv1
        subst hd1
        rw [giantPass, giantPass]
        apply sim_ite Iff.rfl
        · intro _
          simp only []
          apply sim_bind (sim_getP _); intro xp xp' hxp
          apply sim_bind (sim_evalMonomial e hk hv hv1 hxp); intro b b' hb
          apply sim_bind (ih _ _ _ hrest); intro t t' ht
          exact sim_pure (List.Forall₂.cons ⟨rfl, hb⟩ ht)
        · intro _
          apply sim_bind (ih (some d0) ((d1, v1) :: rest) ((d1, v1') :: rest')
            (List.Forall₂.cons ⟨rfl, hv1⟩ hrest)); intro t t' ht
          exact sim_pure (List.Forall₂.cons ⟨rfl, hv⟩ ht)

include hk in
theorem sim_giantLoop (fuel : Nat) : ∀ (l l' : List (Nat × Opd)), RPB k l l' →
    Sim (e.t = 0) k (RPB k) (giantLoop e fuel l) (giantLoop (absEnv e) fuel l') := by
  induction fuel with
  | zero => intro l l' hl; rw [giantLoop, giantLoop]; exact sim_pure hl
  | succ fuel ih =>
    intro l l' hl
    rw [giantLoop, giantLoop]
    have hlen : l.length = l'.length := List.Forall₂.length_eq hl
    apply sim_ite (by rw [hlen])
    · intro _; exact sim_pure hl
    · intro _
      rw [hlen]
      apply sim_bind (sim_giantPass e hk _ _ _ _ hl); intro l2 l2' h2
      exact ih _ _ h2

include hk in
theorem sim_finish {l l' : List (Nat × Opd)} (hl : RPB k l l') :
    Sim (e.t = 0) k (RO k) (finish e l) (finish (absEnv e) l') := by
  cases hl with
  | nil => unfold finish; exact sim_throw _ _
  | cons hp htl =>
    cases htl with
    | nil =>
      rename_i p p'
      obtain ⟨d, v⟩ := p
      obtain ⟨d', v'⟩ := p'
      unfold finish
      simp only
      apply sim_bind (Ra := RO k)
      · apply sim_ite (by rw [hp.2.deg])
        · intro _; exact sim_relinOp e hp.2
        · intro _; exact sim_pure hp.2
      · intro v1 v1' h1; exact sim_rescaleOp e hk h1
    | cons _ _ => unfold finish; exact sim_throw _ _

end steps

/-! ## the simulated evaluation (pure): same keys, same decomposition, levels shifted -/

theorem factorizeF_len1 {R : Type} (O : ValOps R) (cheb odd even : Bool) (n : Nat) (p : List R) :
    (factorizeF O cheb odd even n p).1.length = p.length - n := by
  have hdrop : (p.drop n).length = p.length - n := List.length_drop
  unfold factorizeF factorize
  by_cases h : (odd == even) = true
  · simp only [h, if_true]
    cases cheb
    · simpa using hdrop
    · simp only [Bool.not_true, Bool.false_eq_true, if_false]
      cases hh : p.drop n with
      | nil => rw [hh] at hdrop; simpa using hdrop
      | cons c cs => rw [hh] at hdrop; simpa using hdrop
  · simp only [h]
    cases hh : p.drop n with
    | nil => rw [hh] at hdrop; simpa using hdrop
    | cons c cs => rw [hh] at hdrop; simpa using hdrop

theorem factorizeF_len2 {R : Type} (O : ValOps R) (cheb odd even : Bool) (n : Nat) (p : List R) :
    (factorizeF O cheb odd even n p).2.length = if cheb then n else min n p.length := by
  unfold factorizeF factorize
  by_cases h : (odd == even) = true
  · simp only [h, if_true]
    cases cheb <;> simp
  · simp only [h]
    cases cheb <;> simp

theorem headD_map_ne {α β : Type} (f : α → β) (l : List α) (a : α) (b : β) (h : l ≠ []) :
    (l.map f).headD b = f (l.headD a) := by
  cases l with
  | nil => exact absurd rfl h
  | cons x xs => rfl

theorem headD_mapIdx_ne {α β : Type} (f : Nat → α → β) (l : List α) (a : α) (b : β) (h : l ≠ []) :
    (l.mapIdx f).headD b = f 0 (l.headD a) := by
  cases l with
  | nil => exact absurd rfl h
  | cons x xs => simp [List.mapIdx_cons]

theorem mapIdx_ne_nil {α β : Type} (f : Nat → α → β) (l : List α) (h : l ≠ []) : l.mapIdx f ≠ [] := by
  cases l with
  | nil => exact absurd rfl h
  | cons x xs => simp [List.mapIdx_cons]

theorem rsub_factorize (e : Env) {p p' : SubPoly} (h : RSub p p') (n : Nat) :
    RSub (p.factorize e n).1 (p'.factorize (absEnv e) n).1 ∧
    RSub (p.factorize e n).2 (p'.factorize (absEnv e) n).2 ∧
    (p.factorize e n).2.lead = false := by
  have hd := h.degree
  refine ⟨⟨?_, ?_, ?_, ?_, ?_⟩, ⟨?_, ?_, ?_, ?_, ?_⟩, rfl⟩
  · simp only [SubPoly.factorize]; exact mapIdx_ne_nil _ _ h.ne
  · simp only [SubPoly.factorize]; exact mapIdx_ne_nil _ _ h.ne'
  · simp only [SubPoly.factorize]
    rw [headD_mapIdx_ne _ _ [] [] h.ne, headD_mapIdx_ne _ _ [] [] h.ne', factorizeF_len1, factorizeF_len1, h.len]
  · simp only [SubPoly.factorize]; exact h.maxDeg
  · simp only [SubPoly.factorize]; exact h.lead
  · simp only [SubPoly.factorize]; exact mapIdx_ne_nil _ _ h.ne
  · simp only [SubPoly.factorize]; exact mapIdx_ne_nil _ _ h.ne'
  · simp only [SubPoly.factorize]
    rw [headD_mapIdx_ne _ _ [] [] h.ne, headD_mapIdx_ne _ _ [] [] h.ne', factorizeF_len2, factorizeF_len2, h.len]
    rfl
  · simp only [SubPoly.factorize]; rw [h.maxDeg, hd]
  · simp only [SubPoly.factorize]

/-- simulated power bases related: same keys in the same order -/
def RK (d d' : List (Nat × SimOpd)) : Prop := List.Forall₂ (fun p p' => p.1 = p'.1) d d'

theorem rk_find {d d' : List (Nat × SimOpd)} (h : RK d d') (n : Nat) :
    (d.find? (·.1 == n)).isSome = (d'.find? (·.1 == n)).isSome := by
  induction h with
  | nil => rfl
  | cons hp _ ih =>
    simp only [List.find?_cons]
    rw [← hp]
    split
    · rfl
    · exact ih

theorem rk_filter {d d' : List (Nat × SimOpd)} (h : RK d d') (n : Nat) :
    RK (d.filter (·.1 != n)) (d'.filter (·.1 != n)) := by
  induction h with
  | nil => exact List.Forall₂.nil
  | cons hp _ ih =>
    simp only [List.filter_cons]
    rw [← hp]
    split
    · exact List.Forall₂.cons hp ih
    · exact ih

theorem rk_simGenPower (e e' : Env) (fuel : Nat) : ∀ (n : Nat) (d d' : List (Nat × SimOpd)), RK d d' →
    RK (simGenPower e fuel n d) (simGenPower e' fuel n d') := by
  induction fuel with
  | zero => intro n d d' h; rw [simGenPower, simGenPower]; exact h
  | succ fuel ih =>
    intro n d d' h
    rw [simGenPower, simGenPower]
    split
    · exact h
    · simp only []
      have h2 := ih (splitDegree n).2 _ _ (ih (splitDegree n).1 d d' h)
      have ha := rk_find h2 (splitDegree n).1
      have hb := rk_find h2 (splitDegree n).2
      generalize simGenPower e fuel (splitDegree n).2 (simGenPower e fuel (splitDegree n).1 d) = D at *
      generalize simGenPower e' fuel (splitDegree n).2 (simGenPower e' fuel (splitDegree n).1 d') = D' at *
      cases h1 : D.find? (·.1 == (splitDegree n).1) <;> cases h1' : D'.find? (·.1 == (splitDegree n).1) <;>
        cases h3 : D.find? (·.1 == (splitDegree n).2) <;> cases h3' : D'.find? (·.1 == (splitDegree n).2) <;>
        simp only [h1, h1', h3, h3', Option.isSome_none, Option.isSome_some] at ha hb ⊢ <;>
        first
          | exact h2
          | exact absurd ha (by decide)
          | exact absurd hb (by decide)
          | exact List.Forall₂.cons rfl (rk_filter h2 n)

theorem rk_simPowers (e e' : Env) (deg : Nat) (L L' : Int) (sc sc' : Nat) :
    RK (simPowers e deg L sc) (simPowers e' deg L' sc') := by
  unfold simPowers
  simp only []
  have h1 : RK (simGenPower e (2 * deg + 8) (2 ^ bitLen deg) [(1, { level := L, scale := sc })])
      (simGenPower e' (2 * deg + 8) (2 ^ bitLen deg) [(1, { level := L', scale := sc' })]) :=
    rk_simGenPower e e' _ _ _ _ (List.Forall₂.cons rfl List.Forall₂.nil)
  generalize simGenPower e (2 * deg + 8) (2 ^ bitLen deg) [(1, { level := L, scale := sc })] = D at h1
  generalize simGenPower e' (2 * deg + 8) (2 ^ bitLen deg) [(1, { level := L', scale := sc' })] = D' at h1
  induction List.range (2 ^ optimalSplit (bitLen deg)) generalizing D D' with
  | nil => exact h1
  | cons i l ih =>
    simp only [List.foldl_cons]
    apply ih
    split
    · exact rk_simGenPower e e' _ _ _ _ h1
    · exact h1

theorem mulScale_t0 (e : Env) (ht : e.t = 0) (a b : Nat) (l : Int) : mulScale e a b l = 0 := by
  unfold mulScale mulS divS; simp [ht]

/-- level-only instance: a non-leading sub-polynomial comes back with the scale it was given, or 0 -/
theorem recursePS_t0_scale (e : Env) (ht : e.t = 0) (pb : List (Nat × SimOpd)) (fuel : Nat) :
    ∀ (s : Nat) (T : Int) (p : SubPoly) (out : Nat) (subs : List SubPoly) (res : SimOpd),
      p.lead = false → recursePS e pb fuel s T p out = some (subs, res) → res.scale = out ∨ res.scale = 0 := by
  induction fuel with
  | zero => intro s T p out subs res _ h; rw [recursePS] at h; cases h
  | succ fuel ih =>
    intro s T p out subs res hl h
    rw [recursePS] at h
    split at h
    · simp only [hl, Bool.false_and, Bool.false_eq_true, if_false] at h
      simp only [Option.some.injEq, Prod.mk.injEq] at h
      left; rw [← h.2]; simp [babyScale]
    · simp only [] at h
      split at h
      · cases h
      · split at h
        · cases h
        · split at h
          · cases h
          · split at h
            · cases h
            · simp only [Option.some.injEq, Prod.mk.injEq] at h
              right; rw [← h.2]; simp only [simMul]; exact mulScale_t0 e ht _ _ _

section sim
variable (e : Env)

theorem rel_recursePS (spb spb' : List (Nat × SimOpd)) (hK : RK spb spb') (fuel : Nat) :
    ∀ (s : Nat) (T T' : Int) (p p' : SubPoly) (out out' : Nat), T = T' + k → RSub p p' →
      ∀ subs' res', recursePS (absEnv e) spb' fuel s T' p' out' = some (subs', res') →
        (∃ subs res, recursePS e spb fuel s T p out = some (subs, res) ∧
          List.Forall₂ (fun q q' => RSub q q' ∧ q.level = q'.level + k) subs subs') ∨
        (¬ e.t = 0 ∧ recursePS e spb fuel s T p out = none) := by
  induction fuel with
  | zero => intro s T T' p p' out out' _ _ subs' res' h; rw [recursePS] at h; cases h
  | succ fuel ih =>
    intro s T T' p p' out out' hT hp subs' res' h
    rw [recursePS] at h ⊢
    have hd := hp.degree
    rw [← hd, ← hp.lead, ← hp.maxDeg] at h
    by_cases hbaby : p.degree < 2 ^ s
    · rw [if_pos hbaby] at h ⊢
      split
      · rename_i hc
        rw [if_pos hc] at h
        exact ih _ T T' p p' out out' hT hp subs' res' h
      · rename_i hc
        rw [if_neg hc] at h
        simp only [Option.some.injEq, Prod.mk.injEq] at h
        left
        refine ⟨_, _, rfl, ?_⟩
        rw [← h.1]
        exact List.Forall₂.cons ⟨⟨hp.ne, hp.ne', hp.len, rfl, rfl⟩, hT⟩ List.Forall₂.nil
    · rw [if_neg hbaby] at h ⊢
      simp only [] at h ⊢
      have hf := rk_find hK (nextPower s p.degree)
      cases hx' : spb'.find? (·.1 == nextPower s p.degree) with
      | none => rw [hx'] at h; cases h
      | some xp' =>
        cases hx : spb.find? (·.1 == nextPower s p.degree) with
        | none => rw [hx, hx'] at hf; cases hf
        | some xp =>
          rw [hx'] at h
          simp only [] at h ⊢
          obtain ⟨hq, hr, hrl⟩ := rsub_factorize e hp (nextPower s p.degree)
          -- the quotient
          have hT1 : (giantLevelScale e p.lead T out xp.2.scale).1
              = (giantLevelScale (absEnv e) p.lead T' out' xp'.2.scale).1 + k := by
            unfold giantLevelScale
            simp only [absEnv]
            by_cases hi : e.inv = true
            · simp only [hi, if_true]; exact hT
            · simp only [hi, Bool.false_eq_true, if_false]; omega
          cases hq' : recursePS (absEnv e) spb' fuel s (giantLevelScale (absEnv e) p.lead T' out' xp'.2.scale).1
              (p'.factorize (absEnv e) (nextPower s p.degree)).1 (giantLevelScale (absEnv e) p.lead T' out' xp'.2.scale).2 with
          | none => rw [hq'] at h; cases h
          | some r1' =>
            rw [hq'] at h
            simp only [] at h
            rcases ih s _ _ _ _ (giantLevelScale e p.lead T out xp.2.scale).2 _ hT1 hq r1'.1 r1'.2 hq' with
              ⟨bq, res, hcq, hfq⟩ | ⟨hz, hcq⟩
            · rw [hcq]
              simp only []
              -- the remainder
              cases hr' : recursePS (absEnv e) spb' fuel s T' (p'.factorize (absEnv e) (nextPower s p.degree)).2
                  (simMul (absEnv e) (simRescale (absEnv e) r1'.2) xp'.2).scale with
              | none => rw [hr'] at h; cases h
              | some r2' =>
                rw [hr'] at h
                simp only [] at h
                split at h
                · cases h
                · simp only [Option.some.injEq, Prod.mk.injEq] at h
                  rcases ih s T T' _ _ (simMul e (simRescale e res) xp.2).scale _ hT hr r2'.1 r2'.2 hr' with
                    ⟨br, tmp, hcr, hfr⟩ | ⟨hz, hcr⟩
                  · rw [hcr]
                    simp only []
                    by_cases hchk : (tmp.scale != (simMul e (simRescale e res) xp.2).scale) = true
                    · rw [if_pos hchk]
                      right
                      refine ⟨?_, rfl⟩
                      intro ht
                      -- level-only instance: the check cannot fail
                      have h0 : (simMul e (simRescale e res) xp.2).scale = 0 := mulScale_t0 e ht _ _ _
                      rcases recursePS_t0_scale e ht spb fuel s T _ _ br tmp hrl hcr with h1 | h1
                      · rw [h1] at hchk; simp at hchk
                      · rw [h1, h0] at hchk; simp at hchk
                    · rw [if_neg hchk]
                      left
                      refine ⟨_, _, rfl, ?_⟩
                      rw [← h.1]
                      exact List.rel_append hfq hfr
                  · right; rw [hcr]; exact ⟨hz, rfl⟩
            · right; rw [hcq]; exact ⟨hz, rfl⟩

end sim

/-! ## the whole evaluation -/

theorem sim_guard' {α : Type} {Ra : α → α → Prop} {c c' : Prop} [Decidable c] [Decidable c'] (er er' : String)
    {m m' : M α} (hc : c → c' ∨ ¬ tz) (hm : Sim tz k Ra m m') :
    Sim tz k Ra (if c then throw er else m) (if c' then throw er' else m') := by
  intro st st' hst a' s' hex
  by_cases h' : c'
  · rw [if_pos h'] at hex; simp at hex
  · rw [if_neg h'] at hex
    by_cases h : c
    · rcases hc h with h1 | h1
      · exact absurd h1 h'
      · right; exact ⟨h1, er, st, by rw [if_pos h]; rfl⟩
    · rw [if_neg h]; exact hm st st' hst a' s' hex

section top
variable (e : Env) (hk : 0 ≤ k)
include hk

theorem sim_genPowers (deg : Nat) (lazy : Bool) :
    Sim (e.t = 0) k (fun _ _ => True) (genPowers e deg lazy) (genPowers (absEnv e) deg lazy) := by
  unfold genPowers
  simp only [absEnv]
  apply sim_bind (Ra := fun _ _ => True)
  · apply sim_forM
    intro i
    exact (sim_genPower e hk _).1 _ _
  intro _ _ _
  apply sim_forM
  intro i
  apply sim_ite Iff.rfl
  · intro _; exact (sim_genPower e hk _).1 _ _
  · intro _; exact sim_pure trivial

theorem sim_evalSubs (mapping mapping' : Option (List (List Nat))) {subs subs' : List SubPoly}
    (h : List.Forall₂ (fun q q' => RSub q q' ∧ q.level = q'.level + k) subs subs') :
    Sim (e.t = 0) k (RO k) (evalSubs e mapping subs) (evalSubs (absEnv e) mapping' subs') := by
  unfold evalSubs
  apply sim_bind (Ra := RPB k)
  · apply sim_foldlM₂ _ _ _ h [] [] List.Forall₂.nil
    intro bs bs' sp sp' hbs hsp
    apply sim_bind (sim_evalFromPowerBasis e mapping mapping' hsp.2 hsp.1 _ _); intro v v' hv
    exact sim_pure (List.Forall₂.cons ⟨hsp.1.degree, hv⟩ hbs)
  · intro bs bs' hbs
    rw [List.Forall₂.length_eq h]
    apply sim_bind (sim_giantLoop e hk _ _ _ hbs); intro fin fin' hfin
    exact sim_finish e hk hfin

theorem sim_evaluateFrom (polys polys' : List (List Int)) (hne : polys ≠ []) (hne' : polys' ≠ [])
    (hlen : (polys.headD []).length = (polys'.headD []).length)
    (mapping mapping' : Option (List (List Nat))) (lazy : Bool) (ts ts' : Nat) :
    Sim (e.t = 0) k (RO k) (evaluateFrom e polys mapping lazy ts) (evaluateFrom (absEnv e) polys' mapping' lazy ts') := by
  unfold evaluateFrom
  simp only [← hlen]
  apply sim_bind (sim_getP 1); intro x1 x1' hx
  have hsub : ∀ (md : Nat) (ld : Bool), RSub { coeffs := polys, maxDeg := md, lead := ld }
      { coeffs := polys', maxDeg := md, lead := ld } := fun md ld => ⟨hne, hne', hlen, rfl, rfl⟩
  apply sim_ite Iff.rfl
  · intro _; exact sim_evalFromPowerBasis e mapping mapping' hx.lvl (hsub _ _) _ _
  · intro _
    apply sim_guard'
    · intro hc; left
      simp only [absEnv, Bool.and_eq_true, Bool.not_eq_eq_eq_not, Bool.not_true, decide_eq_true_eq] at hc ⊢
      refine ⟨hc.1, ?_⟩
      have := hx.lvl; omega
    · apply sim_bind (sim_genPowers e hk _ _); intro _ _ _
      intro st st' hst o' s' hex
      have hsd : simDepth (absEnv e) ((polys.headD []).length - 1) = simDepth e ((polys.headD []).length - 1) := rfl
      rw [hsd] at hex
      cases hr' : recursePS (absEnv e) (simPowers (absEnv e) ((polys.headD []).length - 1) x1'.level x1'.scale)
          (2 * ((polys.headD []).length - 1) + 8) (optimalSplit (bitLen ((polys.headD []).length - 1)))
          (x1'.level - simDepth e ((polys.headD []).length - 1))
          { coeffs := polys', maxDeg := (polys.headD []).length - 1, lead := true } ts' with
      | none => rw [hr'] at hex; simp at hex
      | some r' =>
        rw [hr'] at hex
        simp only [] at hex
        have hT : x1.level - (simDepth e ((polys.headD []).length - 1) : Int)
            = (x1'.level - (simDepth e ((polys.headD []).length - 1) : Int)) + k := by
          have := hx.lvl; omega
        rcases rel_recursePS e _ _ (rk_simPowers e (absEnv e) ((polys.headD []).length - 1) x1.level x1'.level
            x1.scale x1'.scale) _ _ _ _ _ _ ts ts' hT (hsub _ true) r'.1 r'.2 hr' with ⟨subs, res, hc, hf⟩ | ⟨hz, hc⟩
        · rw [hc]
          exact sim_evalSubs e hk mapping mapping' hf st st' hst o' s' hex
        · right
          rw [hc]
          exact ⟨hz, "panic", st, rfl⟩

end top

/-- **run_levels_simulated**: a successful run of the level-only instance (`t = 0`, any data of the same
    shape) at input level `L0` is simulated by the run of `e` at input level `L0 + k` on ANY polynomials
    with the same number of coefficients, any mapping, scales and slot values: that run succeeds with the
    same ciphertext degree and the level shifted by `k` — or (`e.t ≠ 0` only) stops with an error. -/
theorem run_levels_simulated (e : Env) (polys polys' : List (List Int)) (hne : polys ≠ []) (hne' : polys' ≠ [])
    (hlen : (polys.headD []).length = (polys'.headD []).length)
    (mapping mapping' : Option (List (List Nat))) (lazy : Bool) (L0 kn : Nat) (is is' ts ts' : Nat)
    (x x' : List Int) (tr' : List String) (o' : Opd)
    (habs : run (absEnv e) polys' mapping' lazy L0 is' ts' x' = (tr', "ok", some o')) :
    (∃ tr o, run e polys mapping lazy (L0 + kn) is ts x = (tr, "ok", some o) ∧
        o.level = o'.level + kn ∧ o.deg = o'.deg) ∨
    (¬ e.t = 0 ∧ ∃ tr er, run e polys mapping lazy (L0 + kn) is ts x = (tr, er, none)) := by
  rw [run_eq] at habs
  have hsim : Sim (e.t = 0) (kn : Int) (RO (kn : Int))
      (evaluate e polys mapping lazy (L0 + kn) is ts x) (evaluate (absEnv e) polys' mapping' lazy L0 is' ts' x') := by
    unfold evaluate
    have hro : RO (kn : Int) ({ level := ((L0 + kn : Nat) : Int), scale := is, deg := 1, val := x } : Opd)
        { level := (L0 : Int), scale := is', deg := 1, val := x' } := ⟨by push_cast; ring, rfl⟩
    apply sim_bind (sim_setP 1 hro); intro _ _ _
    exact sim_evaluateFrom e (Int.natCast_nonneg kn) polys polys' hne hne' hlen mapping mapping' lazy ts ts'
  cases hex' : ex (evaluate (absEnv e) polys' mapping' lazy L0 is' ts' x') {} with
  | mk r s' =>
    rw [hex'] at habs
    cases r with
    | error er =>
      simp only [Prod.mk.injEq] at habs
      exact absurd habs.2.2 (by simp)
    | ok a' =>
      simp only [Prod.mk.injEq, Option.some.injEq] at habs
      rcases hsim {} {} List.Forall₂.nil a' s' hex' with ⟨a, s, hc, hr, _⟩ | ⟨hz, er, s, hc⟩
      · left
        refine ⟨s.tr, a, ?_, ?_, ?_⟩
        · rw [run_eq, hc]
        · rw [hr.lvl, habs.2.2]
        · rw [hr.deg, habs.2.2]
      · right
        exact ⟨hz, s.tr, er, by rw [run_eq, hc]⟩

end Lattigo.Model.PolyEval
