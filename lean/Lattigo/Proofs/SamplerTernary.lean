/-
  C17 — lemmas about the ternary sampler: shape of the output rows, support, one integer vector
  across the moduli, `ReadAndAdd = add ∘ Read` for the density sampler, Montgomery output.
-/
import Lattigo.Proofs.SamplerBasic
import Lattigo.Proofs.SamplerUniform
import Lattigo.Model.SamplerTernary
namespace Lattigo.Sampler
open Lattigo Lattigo.Gen

/-! ### `mapRowsLvl` -/

theorem mapRowsLvl_ok (g : Nat → List Nat → List Nat) :
    ∀ (qs : List Nat) (pol r : Poly), mapRowsLvl g qs pol = .ok r →
      r.length = pol.length ∧ qs.length ≤ pol.length ∧
      (∀ i, i < qs.length → r[i]? = (pol[i]?).map (g (qs.getD i 0))) ∧
      (∀ i, qs.length ≤ i → r[i]? = pol[i]?) := by
  intro qs
  induction qs with
  | nil =>
    intro pol r h
    simp only [mapRowsLvl] at h
    injection h with h
    subst h
    exact ⟨rfl, Nat.zero_le _, by intro i hi; simp at hi, by intro i _; rfl⟩
  | cons q qs ih =>
    intro pol r h
    cases pol with
    | nil => simp [mapRowsLvl] at h
    | cons row rest =>
      simp only [mapRowsLvl] at h
      obtain ⟨t, h1, h⟩ := Res.bind_eq_ok h
      simp only [Res.pure_eq] at h
      injection h with h
      subst h
      obtain ⟨hl, hle, hlow, hhigh⟩ := ih rest t h1
      refine ⟨by simp [hl], by simp; omega, ?_, ?_⟩
      · intro i hi
        cases i with
        | zero => simp
        | succ i =>
          simp only [List.length_cons] at hi
          simp only [List.getElem?_cons_succ, List.getD_cons_succ]
          exact hlow i (by omega)
      · intro i hi
        cases i with
        | zero => simp at hi
        | succ i =>
          simp only [List.length_cons] at hi
          simp only [List.getElem?_cons_succ]
          exact hhigh i (by omega)

/-- two row functions that agree give the same result -/
theorem mapRowsLvl_congr (g g' : Nat → List Nat → List Nat) :
    ∀ (qs : List Nat) (pol : Poly), (∀ q row, g q row = g' q row) →
      mapRowsLvl g qs pol = mapRowsLvl g' qs pol := by
  intro qs pol h
  have : g = g' := by funext q row; exact h q row
  rw [this]

/-- composing row maps: applying `g` then `k` on the rows below the level -/
theorem mapRowsLvl_comp (g k : Nat → List Nat → List Nat) :
    ∀ (qs : List Nat) (pol r : Poly), mapRowsLvl g qs pol = .ok r →
      mapRowsLvl k qs r = mapRowsLvl (fun q row => k q (g q row)) qs pol := by
  intro qs
  induction qs with
  | nil =>
    intro pol r h
    simp only [mapRowsLvl] at h ⊢
    injection h with h
    rw [h]
  | cons q qs ih =>
    intro pol r h
    cases pol with
    | nil => simp [mapRowsLvl] at h
    | cons row rest =>
      simp only [mapRowsLvl] at h
      obtain ⟨t, h1, h⟩ := Res.bind_eq_ok h
      simp only [Res.pure_eq] at h
      injection h with h
      subst h
      simp only [mapRowsLvl]
      rw [ih rest t h1]

/-! ### the index vector -/

theorem ternIndex_le (c s : Nat) (hc : c ≤ 1) (hs : s ≤ 1) : ternIndex c s ≤ 2 := by
  have hc' : c = 0 ∨ c = 1 := by omega
  have hs' : s = 0 ∨ s = 1 := by omega
  rcases hc' with rfl | rfl <;> rcases hs' with rfl | rfl <;> decide

theorem and_one_le (x : Nat) : u64and x 1 ≤ 1 := Nat.and_le_right

theorem probaHalfIdx_ok {N : Nat} {s s' : Bytes} {idx : List Nat}
    (h : probaHalfIdx N s = .ok (idx, s')) : idx.length = N ∧ ∀ ix ∈ idx, ix ≤ 2 := by
  unfold probaHalfIdx at h
  obtain ⟨⟨cb, s1⟩, _, h⟩ := Res.bind_eq_ok h
  dsimp only at h
  obtain ⟨⟨sb, s2⟩, _, h⟩ := Res.bind_eq_ok h
  simp only [Res.pure_eq] at h
  injection h with h
  injection h with h1 _
  subst h1
  refine ⟨by simp, ?_⟩
  intro ix hix
  simp only [List.mem_map] at hix
  obtain ⟨i, _, rfl⟩ := hix
  exact ternIndex_le _ _ (and_one_le _) (and_one_le _)

theorem kyHit_ok {N row i : Nat} {k k' : KY} {r sg p : Nat}
    (h : kyHit N row i k = .ok (r, sg, p, k')) : r = row ∧ sg ≤ 1 := by
  unfold kyHit at h
  by_cases hi : i = 7
  · rw [if_pos hi] at h
    obtain ⟨k1, _, h⟩ := Res.bind_eq_ok h
    simp only [Res.pure_eq] at h
    injection h with h
    injection h with h1 h2
    injection h2 with h2 _
    subst h1; subst h2
    exact ⟨rfl, and_one_le _⟩
  · rw [if_neg hi] at h
    injection h with h
    injection h with h1 h2
    injection h2 with h2 _
    subst h1; subst h2
    exact ⟨rfl, and_one_le _⟩

theorem kyWalk_ok (M : List Nat × List Nat) (N : Nat) :
    ∀ (fuel i : Nat) (d : Int) (col : Nat) (k k' : KY) (r sg p : Nat),
      kyWalk M N fuel i d col k = .ok (r, sg, p, k') → r ≤ 1 ∧ sg ≤ 1 := by
  intro fuel
  induction fuel with
  | zero => intro i d col k k' r sg p h; simp [kyWalk] at h
  | succ n ih =>
    intro i d col k k' r sg p h
    unfold kyWalk at h
    by_cases h8 : i ≥ 8
    · rw [if_pos h8] at h
      obtain ⟨k1, _, h⟩ := Res.bind_eq_ok h
      exact ih _ _ _ _ _ _ _ _ h
    · rw [if_neg h8] at h
      dsimp only at h
      by_cases hr : (2 * d + 1 - ((u64and (u64shr (k.rb.getD k.bp 0) i) 1 : Nat) : Int) > 1 ∨ col ≥ ternPrec - 1)
      · rw [if_pos hr] at h
        exact ih _ _ _ _ _ _ _ _ h
      · rw [if_neg hr] at h
        by_cases h1 : 2 * d + 1 - ((u64and (u64shr (k.rb.getD k.bp 0) i) 1 : Nat) : Int) - ((M.2.getD col 0 : Nat) : Int) = -1
        · rw [if_pos h1] at h
          obtain ⟨hr', hs⟩ := kyHit_ok h
          exact ⟨by omega, hs⟩
        · rw [if_neg h1] at h
          by_cases h0 : 2 * d + 1 - ((u64and (u64shr (k.rb.getD k.bp 0) i) 1 : Nat) : Int) - ((M.2.getD col 0 : Nat) : Int) - ((M.1.getD col 0 : Nat) : Int) = -1
          · rw [if_pos h0] at h
            obtain ⟨hr', hs⟩ := kyHit_ok h
            exact ⟨by omega, hs⟩
          · rw [if_neg h0] at h
            exact ih _ _ _ _ _ _ _ _ h

theorem kyLoop_ok (M : List Nat × List Nat) (N fuel : Nat) :
    ∀ (n p : Nat) (k k' : KY) (idx : List Nat),
      kyLoop M N fuel n p k = .ok (idx, k') → idx.length = n ∧ ∀ ix ∈ idx, ix ≤ 2 := by
  intro n
  induction n with
  | zero =>
    intro p k k' idx h
    simp only [kyLoop] at h
    injection h with h
    injection h with h1 _
    subst h1
    exact ⟨rfl, by simp⟩
  | succ n ih =>
    intro p k k' idx h
    simp only [kyLoop] at h
    obtain ⟨⟨c, sg, p1, k1⟩, h1, h⟩ := Res.bind_eq_ok h
    dsimp only at h
    obtain ⟨⟨t, k2⟩, h2, h⟩ := Res.bind_eq_ok h
    simp only [Res.pure_eq] at h
    injection h with h
    injection h with h3 _
    subst h3
    obtain ⟨hc, hs⟩ := kyWalk_ok M N fuel p 0 0 k k1 c sg p1 h1
    obtain ⟨hl, hall⟩ := ih p1 k1 k2 t h2
    refine ⟨by simp [hl], ?_⟩
    intro ix hix
    simp only [List.mem_cons] at hix
    rcases hix with rfl | hix
    · exact ternIndex_le _ _ hc hs
    · exact hall ix hix

theorem probaKYIdx_ok {M : List Nat × List Nat} {N fuel n : Nat} {s s' : Bytes} {idx : List Nat}
    (h : probaKYIdx M N fuel n s = .ok (idx, s')) : idx.length = n ∧ ∀ ix ∈ idx, ix ≤ 2 := by
  unfold probaKYIdx at h
  obtain ⟨⟨rb, s1⟩, _, h⟩ := Res.bind_eq_ok h
  dsimp only at h
  obtain ⟨⟨idx1, k⟩, h1, h⟩ := Res.bind_eq_ok h
  simp only [Res.pure_eq] at h
  injection h with h
  injection h with h2 _
  subst h2
  exact kyLoop_ok M N fuel n 0 _ k idx1 h1

theorem probaIdx_ok {fuel p N n : Nat} {s s' : Bytes} {idx : List Nat} (hn : n = N)
    (h : probaIdx fuel p N n s = .ok (idx, s')) : idx.length = N ∧ ∀ ix ∈ idx, ix ≤ 2 := by
  unfold probaIdx at h
  split at h
  · exact probaHalfIdx_ok h
  · subst hn; exact probaKYIdx_ok h

/-- `sampleProba` = sample an index vector, then write it -/
theorem ternProba_ok {fuel : Nat} {m : Mode} {mont : Bool} {p N : Nat} {qs : List Nat} {pol r : Poly}
    {s s' : Bytes} (h : ternProba fuel m mont p N qs pol s = .ok (r, s')) :
    ∃ idx, probaIdx fuel p N N s = .ok (idx, s') ∧ ternApply m mont qs pol idx = .ok r := by
  unfold ternProba at h
  split at h
  · cases h
  · split at h
    · obtain ⟨_, _, h⟩ := Res.bind_eq_ok h
      cases h
    · obtain ⟨⟨idx, s1⟩, h1, h⟩ := Res.bind_eq_ok h
      dsimp only at h
      obtain ⟨r1, h2, h⟩ := Res.bind_eq_ok h
      injection h with h
      injection h with h3 h4
      subst h3; subst h4
      exact ⟨idx, h1, h2⟩

/-- conversely: the mode and the Montgomery flag only change what is written -/
theorem ternProba_of {fuel : Nat} {m : Mode} {mont : Bool} {p N : Nat} {qs : List Nat} {pol r : Poly}
    {s s' : Bytes} {idx : List Nat} (hp : p ≠ 0)
    (h1 : probaIdx fuel p N N s = .ok (idx, s')) (h2 : ternApply m mont qs pol idx = .ok r) :
    ternProba fuel m mont p N qs pol s = .ok (r, s') := by
  have hlen : ¬ pol.length < qs.length := by
    unfold ternApply at h2
    have := (mapRowsLvl_ok _ qs pol r h2).2.1
    omega
  unfold ternProba
  rw [if_neg hp, if_neg hlen, h1]
  simp only [Res.bind_ok]
  rw [h2]
  rfl

/-! ### values written -/

/-- the integer a ternary index stands for -/
def ternVal (ix : Nat) : Int := if ix = 1 then 1 else if ix = 2 then -1 else 0

/-- the residue of an integer modulo `q`, as stored in a limb -/
def resOf (q : Nat) (v : Int) : Nat := (v % (q : Int)).toNat

theorem ternLut_true (q : Nat) :
    ternLut true q = [0, MForm 1 q (brc q), MForm (u64sub q 1) q (brc q)] := by
  unfold ternLut; simp
theorem ternLut_false (q : Nat) : ternLut false q = [0, 1, u64sub q 1] := by
  unfold ternLut; simp

theorem ternLut_plain (q : Nat) (hq : 2 ≤ q) (hqW : q < W) (ix : Nat) (hix : ix ≤ 2) :
    (ternLut false q).getD ix 0 = resOf q (ternVal ix) := by
  have hsub : u64sub q 1 = q - 1 := by unfold u64sub W at *; omega
  have h3 : ix = 0 ∨ ix = 1 ∨ ix = 2 := by omega
  have hqi : (2 : Int) ≤ (q : Int) := by exact_mod_cast hq
  rw [ternLut_false]
  rcases h3 with rfl | rfl | rfl
  · simp [resOf, ternVal]
  · have : (1 : Int) % (q : Int) = 1 := Int.emod_eq_of_lt (by omega) (by omega)
    simp [resOf, ternVal, this]
  · have h1 : (-1 : Int) % (q : Int) = (q : Int) - 1 := by
      have : (-1 : Int) = (q : Int) * (-1) + ((q : Int) - 1) := by ring
      rw [this, Int.mul_add_emod_self_left]   -- (q * -1 + (q-1)) % q = (q-1) % q
      exact Int.emod_eq_of_lt (by omega) (by omega)
    simp only [List.getD_cons_succ, List.getD_cons_zero, resOf, ternVal, hsub]
    simp only [show (2 : Nat) ≠ 1 by decide, if_false, if_true, h1]
    omega

theorem MForm_zero (q : Nat) (c : Nat × Nat) : MForm 0 q c = 0 := by
  have h1 : (mul64 0 c.2).1 = 0 := by simp [mul64]
  have h2 : u64mul 0 c.1 = 0 := by simp [u64mul]
  have h3 : u64add 0 0 = 0 := by simp [u64add]
  have h4 : u64neg 0 = 0 := by simp [u64neg]
  have h5 : u64mul 0 q = 0 := by simp [u64mul]
  have h6 : u64sub 0 0 = 0 := by simp [u64sub]
  unfold MForm
  simp only [h1, h2, h3, h4, h5]
  by_cases hq : u64ge 0 q = true
  · rw [if_pos hq]
    have : q = 0 := by simpa [u64ge] using hq
    subst this
    exact h6
  · rw [if_neg hq]

theorem ternLut_mont (q : Nat) (ix : Nat) :
    (ternLut true q).getD ix 0 = MForm ((ternLut false q).getD ix 0) q (brc q) := by
  rw [ternLut_true, ternLut_false]
  match ix with
  | 0 => simp only [List.getD_cons_zero]; exact (MForm_zero q (brc q)).symm
  | 1 => simp only [List.getD_cons_succ, List.getD_cons_zero]
  | 2 => simp only [List.getD_cons_succ, List.getD_cons_zero]
  | n + 3 => simp only [List.getD_cons_succ, List.getD_nil]; exact (MForm_zero q (brc q)).symm

end Lattigo.Sampler
