/-
  C11 proofs: the CKKS instance of `conj_slots` — over `ℂ`, `ζ = e^{iπ/N}`, real coefficients, `c` = complex
  conjugation: the order-two Galois element `2N-1` conjugates every slot.
-/
import Lattigo.Proofs.RotateSlots
import Mathlib.Analysis.SpecialFunctions.Trigonometric.Basic

namespace Lattigo.Proofs.RotateSlots
open Complex

/-- the primitive `2N`-th root of unity `e^{iπ/N}`, `N = 2^(t+2)` -/
noncomputable def zetaC (t : ℕ) : ℂ := Complex.exp ((Real.pi : ℂ) * I / ((2 ^ (t + 2) : ℕ) : ℂ))

theorem zetaC_pow (t : ℕ) : zetaC t ^ 2 ^ (t + 2) = -1 := by
  unfold zetaC
  rw [← Complex.exp_nat_mul]
  have h : ((2 ^ (t + 2) : ℕ) : ℂ) ≠ 0 := by exact_mod_cast (by positivity : (2 ^ (t + 2) : ℕ) ≠ 0)
  rw [mul_div_cancel₀ _ h, Complex.exp_pi_mul_I]

theorem zetaC_conj (t : ℕ) : (starRingEnd ℂ) (zetaC t) = zetaC t ^ (2 ^ (t + 3) - 1) := by
  have h1 : zetaC t ^ 2 ^ (t + 3) = 1 := by
    rw [show 2 ^ (t + 3) = 2 * 2 ^ (t + 2) by ring]; exact sq_of_neg_one (zetaC_pow t)
  have hpos : 0 < 2 ^ (t + 3) := by positivity
  have h2 : zetaC t * zetaC t ^ (2 ^ (t + 3) - 1) = 1 := by
    rw [← pow_succ', Nat.sub_add_cancel hpos, h1]
  have h3 : zetaC t * (starRingEnd ℂ) (zetaC t) = 1 := by
    unfold zetaC
    rw [← Complex.exp_conj, ← Complex.exp_add]
    have : (Real.pi : ℂ) * I / ((2 ^ (t + 2) : ℕ) : ℂ)
        + (starRingEnd ℂ) ((Real.pi : ℂ) * I / ((2 ^ (t + 2) : ℕ) : ℂ)) = 0 := by
      rw [map_div₀, map_mul, Complex.conj_ofReal, Complex.conj_I, map_natCast]
      ring
    rw [this, Complex.exp_zero]
  have hne : zetaC t ≠ 0 := Complex.exp_ne_zero _
  exact mul_left_cancel₀ hne (h3.trans h2.symm)

/-- **CKKS `Conjugate`, in `ℂ`.**  For real coefficients `a` (`N = 2^(t+2)` of them), `ζ = e^{iπ/N}` and every unit
    `u` of `ℤ/2N`: the slot `u` of `σ_{2N-1} a` is the complex conjugate of the slot `u` of `a`. -/
theorem conj_slots_complex (t : ℕ) (a : List ℝ) (ha : a.length = 2 ^ (t + 2)) (u : (ZMod (2 ^ (t + 3)))ˣ) :
    E (zetaC t) (2 ^ (t + 3)) (sigma (2 ^ (t + 2)) (2 ^ (t + 3) - 1) (a.map (fun r : ℝ => (r : ℂ)))) u
      = (starRingEnd ℂ) (E (zetaC t) (2 ^ (t + 3)) (a.map (fun r : ℝ => (r : ℂ))) u) := by
  refine conj_slots (zetaC t) (zetaC_pow t) _ (by rw [List.length_map, ha]) (starRingEnd ℂ) (fun i => ?_)
    (zetaC_conj t) u
  by_cases hi : i < a.length
  · rw [List.getD_eq_getElem?_getD, List.getElem?_map, List.getElem?_eq_getElem hi]
    simp
  · rw [List.getD_eq_getElem?_getD, List.getElem?_eq_none (by rw [List.length_map]; omega)]
    simp

end Lattigo.Proofs.RotateSlots
