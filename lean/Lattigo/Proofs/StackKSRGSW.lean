/-
  Stack closure C02 → C20, part 7: the gadget recombination for the RGSW layout
      `π(Σ_k d_k·(P·w_k)) = P·c`     in `R_Q`
  for the flat digit list `RGSW.digitsOf p c` (uncentred base-`2^w` digits lifted to every modulus, or the whole
  coefficient for `w = 0`; centred RNS digits of `#P` primes reconstructed with `RPoly.crt`) and the gadget vector
  `RGSW.pgList p`.  Same route as `StackKS.gadget_closed`: the flat sums are the matrix sums of `KS.wsumMat`
  (`wsum_flatten`), row by row `KS.gadget_identity` with `one_digit_row` / `bits_row`.
-/
import Lattigo.Proofs.StackKSGadget
import Lattigo.Proofs.StackKSExact
import Lattigo.Proofs.RGSW

set_option linter.unusedSectionVars false

namespace Lattigo.StackKS
open Lattigo Lattigo.RPolyRing Lattigo.Transport Lattigo.Scaling Lattigo.BasisExt Lattigo.KS

/-! ## generic: a signed coefficient list congruent to the rows reduces to the polynomial -/

theorem ofInts_eq_of_emod {ps : List ℕ} {n : ℕ} {xP : RPoly} (h : WFq ps n xP) (v : List ℤ) (hv : v.length = n)
    (hcong : ∀ k (hk : k < ps.length) t, t < n →
      v.getD t 0 % (ps[k] : ℤ) = (((xP.c.getD k []).getD t 0 : ℕ) : ℤ) % (ps[k] : ℤ)) :
    RPoly.ofInts ps v = xP := by
  have h1 : xP.qs = ps := h.1
  have h2 : xP.c.length = ps.length := by rw [h.2.1, h1]
  have hgoal : (RPoly.ofInts ps v).c = xP.c := by
    show ps.map (fun (q : ℕ) => v.map fun (x : ℤ) => (x % (q : ℤ)).toNat) = xP.c
    apply List.ext_getElem (by rw [List.length_map, h2])
    intro k hk1 hk2
    have hk : k < ps.length := by rw [← h2]; exact hk2
    have erow : xP.c[k] = xP.c.getD k [] := List.getElem_eq_getD []
    have hlen : (xP.c.getD k []).length = n := (h.2.2 k (by rw [h1]; exact hk)).len
    rw [List.getElem_map, erow]
    apply List.ext_getElem (by rw [List.length_map, hv, hlen])
    intro t ht1 ht2
    have ht : t < n := by rw [← hlen]; exact ht2
    obtain ⟨_, hlt⟩ := wf_entry_lt h k hk t ht
    have eqk : ps.getD k 0 = ps[k] := by simp [List.getD_eq_getElem?_getD, hk]
    rw [eqk] at hlt
    have e2 : (xP.c.getD k [])[t] = (xP.c.getD k []).getD t 0 := List.getElem_eq_getD 0
    have e3 : v[t]'(by rw [hv]; exact ht) = v.getD t 0 := List.getElem_eq_getD 0
    rw [List.getElem_map, e3, e2, hcong k hk t ht]
    have : (((xP.c.getD k []).getD t 0 : ℕ) : ℤ) % (ps[k] : ℤ)
        = (((xP.c.getD k []).getD t 0 % ps[k] : ℕ) : ℤ) := by push_cast; rfl
    rw [this, Int.toNat_natCast, Nat.mod_eq_of_lt hlt]
  obtain ⟨xqs, xc⟩ := xP
  simp only at h1
  subst h1
  exact congrArg (RPoly.mk xqs) hgoal

/-! ## the centred digit of `externalProductInPlaceMultipleP` -/

theorem centredDigit_emod (ms col : List ℕ) (X : ℕ) (hc : ms.Pairwise Nat.Coprime) (hge : ∀ m ∈ ms, 2 ≤ m)
    (hX : X < prodN ms) (hres : List.Forall₂ (fun m r => r % m = X % m) ms col) (m : ℕ) (hm : m ∈ ms) :
    RGSW.centredDigit ms col % (m : ℤ) = (X : ℤ) % (m : ℤ) := by
  unfold RGSW.centredDigit
  split
  · rename_i q x
    rcases List.forall₂_cons.mp hres with ⟨hr, _⟩
    have hmq : m = q := by simpa using hm
    subst hmq
    have hx : ((x : ℤ)) % (m : ℤ) = (X : ℤ) % (m : ℤ) := by
      have : ((x % m : ℕ) : ℤ) = ((X % m : ℕ) : ℤ) := by rw [hr]
      push_cast at this; exact this
    split
    · rw [Int.sub_emod_right, hx]
    · exact hx
  · have hd : (m : ℤ) ∣ (prodN ms : ℤ) := by exact_mod_cast dvd_prodN ms m hm
    have e : (((RPoly.crt ms col + RPoly.prod ms / 2) % RPoly.prod ms : ℕ) : ℤ) - ((RPoly.prod ms / 2 : ℕ) : ℤ)
        = centeredRep (prodN ms) X := by
      rw [prod_eq_prodN, crt_eq ms col X hc hge hX hres]; rfl
    rw [e, ← Int.emod_emod_of_dvd _ hd, centeredRep_emod, Int.emod_emod_of_dvd _ hd]

/-- the centred digits of a block of rows reduce to the block -/
theorem ofInts_centredDigits {ms : List ℕ} {n : ℕ} {xg : RPoly} (h : WFq ms n xg) (hne : ms ≠ [])
    (hc : ms.Pairwise Nat.Coprime) (hge : ∀ m ∈ ms, 2 ≤ m) :
    RPoly.ofInts ms ((RPoly.transpose xg.c).map fun col => RGSW.centredDigit ms col) = xg := by
  have hhead : (xg.c.headD []).length = n := headD_length h hne
  have h2 : xg.c.length = ms.length := by rw [h.2.1, h.1]
  rw [transpose_eq, List.map_map, hhead]
  refine ofInts_eq_of_emod h _ (by rw [List.length_map, List.length_range]) ?_
  intro k hk t ht
  have hg : ((List.range n).map ((fun col => RGSW.centredDigit ms col) ∘ fun j => colOf xg.c j)).getD t 0
      = RGSW.centredDigit ms (colOf xg.c t) := by
    simp [List.getD_eq_getElem?_getD, ht]
  rw [hg]
  obtain ⟨X, hX, hres⟩ := col_residues h hc hge t
  rw [centredDigit_emod ms _ X hc hge hX hres ms[k] (List.getElem_mem hk)]
  have hr := forall₂_getD hres k hk
  rw [colOf_getD _ _ _ (by rw [h2]; exact hk)] at hr
  have eqk : ms.getD k 0 = ms[k] := by simp [List.getD_eq_getElem?_getD, hk]
  rw [eqk] at hr
  have : ((X % ms[k] : ℕ) : ℤ) = (((xg.c.getD k []).getD t 0 % ms[k] : ℕ) : ℤ) := by rw [hr]
  push_cast at this
  exact this

/-! ## the digit groups -/

theorem filter_range' (N : ℕ) : ∀ (m a : ℕ),
    (List.range' a m).filter (fun x => decide (x < N)) = List.range' a (min m (N - a))
  | 0, a => by simp
  | m + 1, a => by
    rw [List.range'_succ, List.filter_cons]
    by_cases h : a < N
    · have e : min (m + 1) (N - a) = min m (N - (a + 1)) + 1 := by omega
      rw [e, List.range'_succ, filter_range' N m (a + 1)]
      simp [h]
    · have e : min (m + 1) (N - a) = 0 := by omega
      have e2 : min m (N - (a + 1)) = 0 := by omega
      rw [e, filter_range' N m (a + 1), e2]; simp [h]

/-- the Q-row indices of RNS digit `i` are a block -/
theorem group_eq (p : RGSW.Par) (i : ℕ) :
    p.group i = List.range' (i * p.gw) (min p.gw (p.qsQ.length - i * p.gw)) := by
  unfold RGSW.Par.group
  rw [← List.range'_eq_map_range, filter_range']

theorem map_getD_range' {α : Type} (l : List α) (d : α) (st len : ℕ) (h : st + len ≤ l.length) :
    (List.range' st len).map (fun k => l.getD k d) = (l.drop st).take len := by
  apply List.ext_getElem (by simp; omega)
  intro i h1 h2
  have hi : i < len := by simpa using h1
  simp [List.getD_eq_getElem?_getD, (by omega : st + i < l.length)]

/-! ## rows of the RGSW digits -/

section digitrows
variable {qs ps : List ℕ} {n : ℕ} [hgq : Good qs n]

theorem natsToPoly_row (L : List ℕ) (v : List ℕ) (k : ℕ) (hk : k < L.length) :
    (RGSW.natsToPoly L v).c.getD k [] = v.map fun x => x % L.getD k 0 := by
  simp [RGSW.natsToPoly, List.getD_eq_getElem?_getD, hk]

/-- the group digit `i = k / #P` agrees with `c` on row `k` (`#P ≥ 1`) -/
theorem digitsGroup_row (w : ℕ) (hnP : 1 ≤ ps.length) (i k : ℕ) {c : RPoly} (hc : WFq qs n c)
    (hco : qs.Pairwise Nat.Coprime) (hk : k < qs.length) (hik : k / ps.length = i) :
    let p : RGSW.Par := ⟨qs, ps, n, w⟩
    (RPoly.ofInts p.qsQP ((RPoly.transpose ((p.group i).map fun k => c.c.getD k [])).map
        fun col => RGSW.centredDigit ((p.group i).map fun k => p.qsQ.getD k 1) col)).c.getD k []
      = c.c.getD k [] := by
  intro p
  have hgw : p.gw = ps.length := by
    show (if ps.length = 0 then 1 else ps.length) = ps.length
    rw [if_neg (by omega)]
  have hst : i * ps.length ≤ k := by rw [← hik]; exact Nat.div_mul_le_self k _
  have hen : k < i * ps.length + ps.length := by
    rw [← hik]; have := Nat.lt_div_mul_add (a := k) (b := ps.length) (by omega); omega
  set st := i * ps.length with hstd
  set len := min ps.length (qs.length - st) with hlend
  have hklen : k - st < len := by omega
  have hcl : c.c.length = qs.length := by rw [hc.2.1, hc.1]
  have hg : p.group i = List.range' st len := by rw [group_eq, hgw]
  have hrows : ((p.group i).map fun k => c.c.getD k []) = (c.c.drop st).take len := by
    rw [hg]; exact map_getD_range' c.c [] st len (by omega)
  have hmods : ((p.group i).map fun k => p.qsQ.getD k 1) = (qs.drop st).take len := by
    rw [hg]; exact map_getD_range' qs 1 st len (by omega)
  rw [hrows, hmods]
  have hb : WFq ((qs.drop st).take len) n (block st len c) := block_wf hc st len
  have hbne : (qs.drop st).take len ≠ [] := by
    intro h
    have := congrArg List.length h
    simp only [List.length_take, List.length_drop, List.length_nil] at this
    omega
  have hsub := sublist_drop_take qs st len
  have hbco : ((qs.drop st).take len).Pairwise Nat.Coprime := hco.sublist hsub
  have hbge : ∀ m ∈ (qs.drop st).take len, 2 ≤ m := fun m hm => hgq.q_ge m (hsub.subset hm)
  have hrem := ofInts_centredDigits hb hbne hbco hbge
  have hbc : (block st len c).c = (c.c.drop st).take len := rfl
  rw [hbc] at hrem
  have hkL : k < (qs ++ ps).length := by rw [List.length_append]; omega
  have hqk : (qs ++ ps).getD k 1 = qs.getD k 1 := by
    simp [List.getD_eq_getElem?_getD, List.getElem?_append_left hk]
  show (RPoly.ofInts (qs ++ ps) _).c.getD k [] = _
  rw [ofInts_row_eq _ _ k hkL, hqk]
  have hrow : (RPoly.ofInts ((qs.drop st).take len)
        ((RPoly.transpose ((c.c.drop st).take len)).map fun col =>
          RGSW.centredDigit ((qs.drop st).take len) col)).c.getD (k - st) []
      = (block st len c).c.getD (k - st) [] := by rw [hrem]
  rw [ofInts_row_eq _ _ (k - st) (by simp only [List.length_take, List.length_drop]; omega),
    block_row st len _ c hklen] at hrow
  have hqb : ((qs.drop st).take len).getD (k - st) 1 = qs.getD k 1 := by
    have : st + (k - st) = k := by omega
    simp [List.getD_eq_getElem?_getD, hklen, this]
  rw [hqb, show st + (k - st) = k by omega] at hrow
  exact hrow

end digitrows

/-! ## flat sums are matrix sums -/

section flat
variable {R : Type} [CommRing R]

theorem wsum_append : ∀ (a b r r' : List R), a.length = b.length →
    RGSW.wsum (a ++ r) (b ++ r') = wsumRow 0 a b + RGSW.wsum r r'
  | [], [], r, r', _ => by simp [wsumRow]
  | [], _ :: _, _, _, h => by simp at h
  | _ :: _, [], _, _, h => by simp at h
  | x :: a, y :: b, r, r', h => by
    simp only [List.cons_append, RGSW.wsum_cons, wsumRow]
    rw [wsum_append a b r r' (by simpa using h)]; ring

theorem wsum_flatten : ∀ (A B : List (List R)), List.Forall₂ (fun a b => a.length = b.length) A B →
    RGSW.wsum A.flatten B.flatten = wsumMat 0 A B
  | _, _, List.Forall₂.nil => by simp [wsumMat]
  | _, _, List.Forall₂.cons h t => by
    simp only [List.flatten_cons, wsumMat]
    rw [wsum_append _ _ _ _ h, wsum_flatten _ _ t]

theorem map_wsum {S : Type} [CommRing S] (φ : R →+* S) : ∀ (a b : List R),
    φ (RGSW.wsum a b) = RGSW.wsum (a.map φ) (b.map φ)
  | [], b => by simp
  | _ :: _, [] => by simp
  | x :: a, y :: b => by simp only [RGSW.wsum_cons, List.map_cons, map_add, map_mul, map_wsum φ a b]

end flat

theorem idxRowFrom_range' {α : Type} (f : ℕ → ℕ → α) (i : ℕ) : ∀ (len j0 : ℕ),
    idxRowFrom f i j0 (List.range' j0 len) = (List.range' j0 len).map (f i)
  | 0, _ => rfl
  | len + 1, j0 => by
    rw [List.range'_succ, idxRowFrom, List.map_cons, idxRowFrom_shift f i len (j0 + 1) (j0 + 1)]
where
  /-- only the LENGTH of the shape row matters -/
  idxRowFrom_shift {α : Type} (f : ℕ → ℕ → α) (i : ℕ) : ∀ (len a b : ℕ),
      idxRowFrom f i a (List.range' b len) = (List.range' a len).map (f i)
    | 0, _, _ => rfl
    | len + 1, a, b => by
      rw [List.range'_succ, List.range'_succ, idxRowFrom, List.map_cons, idxRowFrom_shift f i len (a + 1) (b + 1)]

theorem idxMatFrom_ranges {α : Type} (f : ℕ → ℕ → α) (L : ℕ → ℕ) : ∀ (N i0 : ℕ),
    idxMatFrom f i0 ((List.range' i0 N).map fun i => List.range (L i))
      = (List.range' i0 N).map fun i => (List.range (L i)).map (f i)
  | 0, _ => rfl
  | N + 1, i0 => by
    rw [List.range'_succ, List.map_cons, idxMatFrom, List.map_cons, idxMatFrom_ranges f L N (i0 + 1)]
    congr 1
    rw [List.range_eq_range', idxRowFrom_range']

theorem forall₂_map_map' {α β γ : Type} {R : β → γ → Prop} (f : α → β) (g : α → γ) :
    ∀ l : List α, (∀ x ∈ l, R (f x) (g x)) → List.Forall₂ R (l.map f) (l.map g)
  | [], _ => List.Forall₂.nil
  | a :: l, h => List.Forall₂.cons (h a (by simp)) (forall₂_map_map' f g l (fun x hx => h x (by simp [hx])))

/-! ## the digit matrix behind the flat lists -/

/-- digit `(i, j)` of `RGSW.digitsOf` -/
def dgt (p : RGSW.Par) (c : RPoly) (i j : ℕ) : RPoly :=
  if p.nP ≤ 1 then RGSW.natsToPoly p.qsQP (RGSW.maskDigit p.w j (c.c.getD i []))
  else RPoly.ofInts p.qsQP ((RPoly.transpose ((p.group i).map fun k => c.c.getD k [])).map
    fun col => RGSW.centredDigit ((p.group i).map fun k => p.qsQ.getD k 1) col)

theorem flatMap_map_eq {α β γ : Type} (l : List α) (g : α → List β) (F : β → γ) :
    (l.flatMap g).map F = (l.map fun a => (g a).map F).flatten := by
  rw [List.map_flatMap, List.flatMap_def]

theorem rowLen_ge2 (p : RGSW.Par) (h : ¬ p.nP ≤ 1) (i : ℕ) : p.rowLen i = 1 := by
  unfold RGSW.Par.rowLen; rw [if_pos (Or.inr (by omega))]

theorem digitsOf_eq (p : RGSW.Par) (c : RPoly) :
    RGSW.digitsOf p c
      = ((List.range p.rnsSize).map fun i => (List.range (p.rowLen i)).map fun j => dgt p c i j).flatten := by
  unfold RGSW.digitsOf
  by_cases h : p.nP ≤ 1
  · rw [if_pos h]
    unfold RGSW.digitsBit RGSW.Par.idx
    rw [flatMap_map_eq]
    congr 1
    apply List.map_congr_left
    intro i _
    rw [List.map_map]
    apply List.map_congr_left
    intro j _
    simp only [Function.comp, dgt, if_pos h]
  · rw [if_neg h]
    unfold RGSW.digitsGroup
    have : ((List.range p.rnsSize).map fun i => (List.range (p.rowLen i)).map fun j => dgt p c i j)
        = (List.range p.rnsSize).map fun i => [dgt p c i 0] := by
      apply List.map_congr_left
      intro i _
      rw [rowLen_ge2 p h]; rfl
    rw [this]
    have hf : ∀ l : List ℕ, (l.map fun i => [dgt p c i 0]).flatten = l.map fun i => dgt p c i 0 := by
      intro l; induction l with
      | nil => rfl
      | cons a l ih => simp only [List.map_cons, List.flatten_cons, ih, List.singleton_append]
    rw [hf]
    apply List.map_congr_left
    intro i _
    simp only [dgt, if_neg h]

theorem pgList_eq (p : RGSW.Par) :
    RGSW.pgList p
      = ((List.range p.rnsSize).map fun i => (List.range (p.rowLen i)).map fun j => RGSW.pgElt p i j).flatten := by
  unfold RGSW.pgList RGSW.Par.idx
  rw [flatMap_map_eq]
  congr 1
  apply List.map_congr_left
  intro i _
  rw [List.map_map]
  rfl

/-! ## (G) for the RGSW layout -/

section rgsw
variable {qs ps : List ℕ} {n : ℕ} [hgq : Good qs n] [hg : Good (qs ++ ps) n]

/-- total lifting (zero on ill-formed values) -/
noncomputable def liftD (x : RPoly) : WFPoly (qs ++ ps) n :=
  if h : WFq (qs ++ ps) n x then lift x h else 0

theorem val_liftD {x : RPoly} (h : WFq (qs ++ ps) n x) : val (liftD (qs := qs) (ps := ps) (n := n) x) = x := by
  unfold liftD; rw [dif_pos h]; rfl

/-- class of row `k < #Q` of an element of `R_{QP}`, in `Z_{q_k}[X]/(X^n+1)` -/
theorem toProd_projQ (x : WFPoly (qs ++ ps) n) (k : Fin qs.length) :
    WFPoly.toProd (projQ (qs := qs) x) k = toQuot (qs.get k) n ((val x).c.getD k []) := by
  show toQuot (qs.get k) n ((takeRows qs.length (val x)).c.getD k []) = _
  congr 1
  simp [takeRows, List.getD_eq_getElem?_getD, k.2]

theorem rnsSize_lt (w : ℕ) (k : ℕ) (hk : k < qs.length) :
    k / (⟨qs, ps, n, w⟩ : RGSW.Par).gw < (⟨qs, ps, n, w⟩ : RGSW.Par).rnsSize := by
  show k / (if ps.length = 0 then 1 else ps.length) < (if ps.length = 0 then qs.length else _)
  by_cases h : ps.length = 0
  · rw [if_pos h, if_pos h, Nat.div_one]; exact hk
  · rw [if_neg h, if_neg h]
    show k / ps.length < (qs.length - 1 + ps.length) / ps.length
    rw [Nat.add_div_right _ (by omega)]
    exact Nat.lt_succ_of_le (Nat.div_le_div_right (by omega))

theorem group_contains (w i k : ℕ) :
    ((⟨qs, ps, n, w⟩ : RGSW.Par).group i).contains k = true
      ↔ k / (⟨qs, ps, n, w⟩ : RGSW.Par).gw = i ∧ k < qs.length := by
  set p : RGSW.Par := ⟨qs, ps, n, w⟩ with hp
  have hm : 0 < p.gw := by
    show 0 < (if ps.length = 0 then 1 else ps.length); split <;> omega
  have hq : p.qsQ.length = qs.length := rfl
  rw [group_eq, List.contains_iff_mem, List.mem_range'_1, hq]
  constructor
  · rintro ⟨h1, h2⟩
    refine ⟨?_, by omega⟩
    apply Nat.div_eq_of_lt_le h1
    have : (i + 1) * p.gw = i * p.gw + p.gw := by ring
    omega
  · rintro ⟨h1, h2⟩
    have h3 : i * p.gw ≤ k := by rw [← h1]; exact Nat.div_mul_le_self k _
    have h4 : k < i * p.gw + p.gw := by
      rw [← h1]; have := Nat.lt_div_mul_add (a := k) (b := p.gw) hm; omega
    omega

/-- well-formedness of every digit of the matrix -/
theorem dgt_wf (hqs : qs ≠ []) (w : ℕ) {c : RPoly} (hc : WFq qs n c) (i j : ℕ)
    (hi : i < (⟨qs, ps, n, w⟩ : RGSW.Par).rnsSize) :
    WFq (qs ++ ps) n (dgt ⟨qs, ps, n, w⟩ c i j) := by
  set p : RGSW.Par := ⟨qs, ps, n, w⟩ with hp
  have hnQ : 0 < qs.length := List.length_pos_of_ne_nil hqs
  unfold dgt
  by_cases h : p.nP ≤ 1
  · rw [if_pos h]
    have hiq : i < qs.length := by
      have hi' : i < (if ps.length = 0 then qs.length else (qs.length - 1 + ps.length) / ps.length) := hi
      have h' : ps.length ≤ 1 := h
      by_cases h0 : ps.length = 0
      · rw [if_pos h0] at hi'; exact hi'
      · rw [if_neg h0, (by omega : ps.length = 1), Nat.div_one] at hi'; omega
    have hrow := hc.2.2 i (by rw [hc.1]; exact hiq)
    have hml : (RGSW.maskDigit p.w j (c.c.getD i [])).length = n := by
      unfold RGSW.maskDigit; split
      · exact hrow.len
      · rw [List.length_map]; exact hrow.len
    refine ⟨rfl, by simp [RGSW.natsToPoly], fun k hk => ?_⟩
    have hk' : k < (qs ++ ps).length := hk
    have egd : (qs ++ ps).getD k 0 = (qs ++ ps)[k] := (List.getElem_eq_getD 0).symm
    rw [natsToPoly_row p.qsQP _ k hk']
    show RowWF ((qs ++ ps)[k]) n (List.map (fun x => x % (qs ++ ps).getD k 0) _)
    rw [egd]
    have hq2 : 2 ≤ (qs ++ ps)[k] := hg.q_ge _ (List.getElem_mem hk')
    refine ⟨by rw [List.length_map, hml], fun x hx => ?_⟩
    simp only [List.mem_map] at hx
    obtain ⟨y, _, rfl⟩ := hx
    exact Nat.mod_lt _ (by omega)
  · rw [if_neg h]
    refine ofInts_wf _ ?_
    rw [transpose_eq, List.length_map, List.length_map, List.length_range]
    -- the first row of the block
    have hnP : 2 ≤ ps.length := by have : ¬ ps.length ≤ 1 := h; omega
    have hgw : p.gw = ps.length := by
      show (if ps.length = 0 then 1 else ps.length) = ps.length; rw [if_neg (by omega)]
    have hi' : i < (qs.length - 1 + ps.length) / ps.length := by
      have : i < (if ps.length = 0 then qs.length else (qs.length - 1 + ps.length) / ps.length) := hi
      rw [if_neg (by omega)] at this; exact this
    have hst : i * ps.length < qs.length := by
      have := (Nat.le_div_iff_mul_le (by omega : 0 < ps.length)).mp (Nat.succ_le_of_lt hi')
      rw [Nat.succ_mul] at this
      omega
    rw [group_eq, hgw]
    have hlen : 0 < min ps.length (qs.length - i * ps.length) := by omega
    obtain ⟨m, hm⟩ : ∃ m, min ps.length (qs.length - i * ps.length) = m + 1 := ⟨_, (Nat.succ_pred_eq_of_pos hlen).symm⟩
    rw [hm, List.range'_succ, List.map_cons, List.headD_cons]
    exact (hc.2.2 (i * ps.length) (by rw [hc.1]; exact hst)).len

theorem pgElt_wf' (w i j : ℕ) : WFq (qs ++ ps) n (RGSW.pgElt ⟨qs, ps, n, w⟩ i j) := by
  unfold RGSW.pgElt
  exact constPoly_wf' (L := qs ++ ps) _ (by simp)

/-- row `k < #Q` of the RGSW gadget vector -/
theorem rgsw_pgElt_row (w i j : ℕ) (k : Fin qs.length) :
    toQuot (qs.get k) n ((RGSW.pgElt ⟨qs, ps, n, w⟩ i j).c.getD k [])
      = (((if k.1 / (⟨qs, ps, n, w⟩ : RGSW.Par).gw = i then RPoly.prod ps * 2 ^ (w * j) else 0 : ℕ)) :
          Rq (qs.get k) n) := by
  set p : RGSW.Par := ⟨qs, ps, n, w⟩ with hp
  have hkL : k.1 < (qs ++ ps).length := by rw [List.length_append]; have := k.2; omega
  have hqL : (qs ++ ps).getD k 0 = qs.get k := by
    simp [List.getD_eq_getElem?_getD, List.getElem?_append_left k.2]
  show toQuot (qs.get k) n ((constPoly (qs ++ ps) n
    (((List.range qs.length).map fun k' =>
        if (p.group i).contains k' then RPoly.prod ps * 2 ^ (w * j) else 0) ++ ps.map fun _ => 0)).c.getD k []) = _
  rw [constPoly_row (L := qs ++ ps) _ (by simp) k hkL, hqL, ← scalarRow_eq _ _ _ hgq.n_pos,
    toQuot_scalarRow hgq.n_pos]
  congr 1
  rw [List.getD_eq_getElem?_getD, List.getElem?_append_left (by simp),
    ← List.getD_eq_getElem?_getD, getD_map_range' _ _ _ _ k.2]
  have := group_contains (qs := qs) (ps := ps) (n := n) w i k.1
  by_cases hc' : k.1 / p.gw = i
  · rw [if_pos hc', if_pos (this.mpr ⟨hc', k.2⟩)]
  · rw [if_neg hc', if_neg (fun h => hc' (this.mp h).1)]

/-- **(G) for C20**: the flat digit list `RGSW.digitsOf` and the gadget vector `RGSW.pgList` are lists of well-formed
polynomials and `π(Σ_k d_k·(P·w_k)) = P·c` in `R_Q` — for `#P ≤ 1` (uncentred base-`2^w` digits, the whole coefficient for
`w = 0`) and for `#P ≥ 2` (centred RNS digits reconstructed with `RPoly.crt`: C02's `hps_sum_eq`). -/
theorem rgsw_recombine (hqs : qs ≠ []) (hco : qs.Pairwise Nat.Coprime) (w : ℕ) {c : RPoly} (hc : WFq qs n c) :
    ∃ D G : List (WFPoly (qs ++ ps) n),
      D.map val = RGSW.digitsOf ⟨qs, ps, n, w⟩ c ∧ G.map val = RGSW.pgList ⟨qs, ps, n, w⟩
      ∧ projQ (qs := qs) (RGSW.wsum D G)
          = lift (constQ qs n (RPoly.prod ps)) (constQ_wf _) * lift c hc := by
  set p : RGSW.Par := ⟨qs, ps, n, w⟩ with hp
  have hnQ : 0 < qs.length := List.length_pos_of_ne_nil hqs
  have hm : 0 < p.gw := by
    show 0 < (if ps.length = 0 then 1 else ps.length); split <;> omega
  -- the lifted matrices
  let DM : List (List (WFPoly (qs ++ ps) n)) :=
    (List.range p.rnsSize).map fun i => (List.range (p.rowLen i)).map fun j => liftD (dgt p c i j)
  let GM : List (List (WFPoly (qs ++ ps) n)) :=
    (List.range p.rnsSize).map fun i => (List.range (p.rowLen i)).map fun j => liftD (RGSW.pgElt p i j)
  refine ⟨DM.flatten, GM.flatten, ?_, ?_, ?_⟩
  · rw [List.map_flatten, digitsOf_eq]
    congr 1
    show (List.map (List.map val) ((List.range p.rnsSize).map _)) = _
    rw [List.map_map]
    apply List.map_congr_left
    intro i hi
    simp only [Function.comp, List.map_map]
    apply List.map_congr_left
    intro j _
    exact val_liftD (dgt_wf hqs w hc i j (List.mem_range.mp hi))
  · rw [List.map_flatten, pgList_eq]
    congr 1
    show (List.map (List.map val) ((List.range p.rnsSize).map _)) = _
    rw [List.map_map]
    apply List.map_congr_left
    intro i _
    simp only [Function.comp, List.map_map]
    apply List.map_congr_left
    intro j _
    exact val_liftD (pgElt_wf' w i j)
  · apply WFPoly.toProd_injective
    let φ : WFPoly (qs ++ ps) n →+* WFPoly.Prod qs n :=
      (WFPoly.toProdHom (qs := qs) (n := n)).comp (projQ (qs := qs) (ps := ps))
    have hφ : ∀ x k, φ x k = toQuot (qs.get k) n ((val x).c.getD k []) := fun x k => toProd_projQ x k
    show φ (RGSW.wsum DM.flatten GM.flatten) = _
    rw [map_wsum φ, List.map_flatten, List.map_flatten,
      wsum_flatten (DM.map (List.map φ)) (GM.map (List.map φ)) (by
        show List.Forall₂ _ (List.map (List.map φ) ((List.range p.rnsSize).map _))
          (List.map (List.map φ) ((List.range p.rnsSize).map _))
        rw [List.map_map, List.map_map]
        exact forall₂_map_map' _ _ _ (fun i _ => by simp))]
    -- the gadget vector as `pgMat`
    let shape : List (List ℕ) := (List.range p.rnsSize).map fun i => List.range (p.rowLen i)
    have hGM : GM.map (List.map φ) = pgMat (fun i j => φ (liftD (RGSW.pgElt p i j))) shape := by
      show List.map (List.map φ) ((List.range p.rnsSize).map _)
        = idxMatFrom _ 0 ((List.range p.rnsSize).map _)
      rw [List.range_eq_range', idxMatFrom_ranges, List.map_map]
      apply List.map_congr_left
      intro i _
      simp only [Function.comp, List.map_map]
      rfl
    rw [hGM, WFPoly.toProd_mul]
    let grp : Fin qs.length → ℕ := fun k => k.1 / p.gw
    let Pk : ∀ k : Fin qs.length, Rq (qs.get k) n := fun k => ((RPoly.prod ps : ℕ) : Rq _ n)
    let b : ℕ → ∀ k : Fin qs.length, Rq (qs.get k) n := fun j k => ((2 ^ (w * j) : ℕ) : Rq _ n)
    have hPw : WFPoly.toProd (lift (constQ qs n (RPoly.prod ps)) (constQ_wf _)) = Pk := by
      funext k
      show toQuot _ n ((constPoly qs n _).c.getD k []) = _
      rw [toQuot_constPoly_row _ (by simp) k]
      have : (qs.map fun _ => RPoly.prod ps).getD k 0 = RPoly.prod ps := by
        rw [List.getD_eq_getElem?_getD, List.getElem?_map, List.getElem?_eq_getElem k.2]; rfl
      rw [this]
    have hqL : ∀ k : Fin qs.length, (qs ++ ps).getD k 0 = qs.get k := fun k => by
      simp [List.getD_eq_getElem?_getD, List.getElem?_append_left k.2]
    have hpg : (fun i j => φ (liftD (RGSW.pgElt p i j)))
        = fun i j => fun k => if grp k = i then Pk k * b j k else 0 := by
      funext i j k
      rw [hφ, val_liftD (pgElt_wf' w i j), rgsw_pgElt_row w i j k]
      show _ = if k.1 / p.gw = i then Pk k * b j k else 0
      by_cases hc' : k.1 / p.gw = i
      · rw [if_pos hc', if_pos hc', Nat.cast_mul]
      · rw [if_neg hc', if_neg hc', Nat.cast_zero]
    rw [hpg, hPw]
    apply gadget_identity grp Pk b (WFPoly.toProd (lift c hc)) shape
    intro k
    have hik : grp k < p.rnsSize := rnsSize_lt w k.1 k.2
    have hDrow : ((DM.map (List.map φ)).getD (grp k) []).map (fun x => x k)
        = (List.range (p.rowLen (grp k))).map fun j =>
            toQuot (qs.get k) n ((dgt p c (grp k) j).c.getD k []) := by
      show ((List.map (List.map φ) ((List.range p.rnsSize).map _)).getD (grp k) []).map _ = _
      rw [List.map_map, getD_map_range' _ _ _ _ hik]
      simp only [Function.comp, List.map_map]
      apply List.map_congr_left
      intro j _
      show φ (liftD (dgt p c (grp k) j)) k = _
      rw [hφ, val_liftD (dgt_wf hqs w hc _ j hik)]
    have hshape : shape.getD (grp k) [] = List.range (p.rowLen (grp k)) :=
      getD_map_range' _ _ _ _ hik
    have hC : WFPoly.toProd (lift c hc) k = toQuot (qs.get k) n (c.c.getD k []) := rfl
    rw [hDrow, hshape, hC]
    have hwf := hc.2.2 k (by rw [hc.1]; exact k.2)
    have hqk' : c.qs[k.1]'(by rw [hc.1]; exact k.2) = qs.get k := by simp [hc.1]
    rw [hqk'] at hwf
    have hkL : k.1 < (qs ++ ps).length := by rw [List.length_append]; have := k.2; omega
    by_cases hnP : p.nP ≤ 1
    · -- at most one special prime: `gw = 1`, digits of row `k`
      have hgw1 : p.gw = 1 := by
        show (if ps.length = 0 then 1 else ps.length) = 1
        have : ps.length ≤ 1 := hnP
        split <;> omega
      have hgk : grp k = k.1 := by show k.1 / p.gw = k.1; rw [hgw1, Nat.div_one]
      rw [hgk]
      have hdg : ∀ j, (dgt p c k.1 j).c.getD k []
          = (RGSW.maskDigit w j (c.c.getD k [])).map fun x => x % qs.get k := by
        intro j
        unfold dgt
        rw [if_pos hnP, natsToPoly_row p.qsQP _ k hkL]
        show List.map (fun x => x % (qs ++ ps).getD k 0) _ = _
        rw [hqL k]
      by_cases hw : w = 0
      · have hrl : p.rowLen k.1 = 1 := by
          show (if w = 0 ∨ ps.length ≥ 2 then 1 else _) = 1; rw [if_pos (Or.inl hw)]
        rw [hrl]
        have hrow : (dgt p c k.1 0).c.getD k [] = c.c.getD k [] := by
          rw [hdg 0]
          unfold RGSW.maskDigit
          rw [if_pos hw]
          conv_rhs => rw [← List.map_id (c.c.getD k [])]
          apply List.map_congr_left
          intro x hx
          exact Nat.mod_eq_of_lt (hwf.lt x hx)
        exact one_digit_row w k (dgt p c k.1 0) _ hrow (List.range 1) rfl
      · have hrl : p.rowLen k.1 = baseTwoDigits (qs.get k) w := by
          show (if w = 0 ∨ ps.length ≥ 2 then 1 else (RGSW.bitLen (qs.getD k.1 1) + w - 1) / w) = _
          have h1 : ps.length ≤ 1 := hnP
          rw [if_neg (by rintro (h | h) <;> omega)]
          have : qs.getD k.1 1 = qs.get k := by simp [List.getD_eq_getElem?_getD, k.2]
          rw [this]; rfl
        have hfun : (fun j => toQuot (qs.get k) n ((dgt p c k.1 j).c.getD k []))
            = fun j => toQuot (qs.get k) n ((c.c.getD k []).map fun x => bitDigit w j x % qs.get k) := by
          funext j
          rw [hdg j]
          unfold RGSW.maskDigit
          rw [if_neg hw, List.map_map]
          congr 1
          apply List.map_congr_left
          intro x _
          show x / 2 ^ (j * w) % 2 ^ w % qs.get k = _
          rw [bitDigit_eq, Nat.mul_comm j w]
        rw [hfun]
        refine bits_row w _ _ hwf ?_ _ (by rw [List.length_range])
        rw [hrl]
        exact digitCount_sufficient _ w (by omega)
    · -- several special primes: one centred digit per group
      have hnP2 : 2 ≤ ps.length := by have : ¬ ps.length ≤ 1 := hnP; omega
      have hgw : p.gw = ps.length := by
        show (if ps.length = 0 then 1 else ps.length) = ps.length; rw [if_neg (by omega)]
      rw [rowLen_ge2 p hnP]
      have hrow : (dgt p c (grp k) 0).c.getD k [] = c.c.getD k [] := by
        unfold dgt
        rw [if_neg hnP]
        exact digitsGroup_row (qs := qs) (ps := ps) (n := n) w (by omega) (grp k) k hc hco k.2
          (by show k.1 / ps.length = k.1 / p.gw; rw [hgw])
      exact one_digit_row w k (dgt p c (grp k) 0) _ hrow (List.range 1) rfl

end rgsw

end Lattigo.StackKS
