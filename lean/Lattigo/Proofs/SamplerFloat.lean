/-
  C17 — the rounding `rne53` (round to 53 significant bits, ties to even) is monotone; hence the
  float64 operations of SamplerFloat.lean (`add`, `mul` by a fixed factor, `trunc`) are monotone.
-/
import Lattigo.Model.SamplerFloat
import Mathlib.Tactic.Ring
import Mathlib.Tactic.Linarith
namespace Lattigo.Sampler.SF

theorem bitLen_spec (n : Nat) (hn : n ≠ 0) : 2 ^ (bitLen n - 1) ≤ n ∧ n < 2 ^ bitLen n ∧ 1 ≤ bitLen n := by
  unfold bitLen
  rw [if_neg hn]
  exact ⟨by simpa using Nat.log2_self_le hn, Nat.lt_log2_self, by omega⟩

theorem bitLen_mono {n m : Nat} (h : n ≤ m) : bitLen n ≤ bitLen m := by
  by_cases hn : n = 0
  · subst hn; simp [bitLen]
  · have hm : m ≠ 0 := by omega
    obtain ⟨hl, _, h1⟩ := bitLen_spec n hn
    obtain ⟨_, hu, _⟩ := bitLen_spec m hm
    -- 2^(bn-1) ≤ n ≤ m < 2^bm  ⇒  bn-1 < bm
    have : 2 ^ (bitLen n - 1) < 2 ^ bitLen m := by omega
    have := (Nat.pow_lt_pow_iff_right (by decide : 1 < 2)).mp this
    omega

/-- the two bounds of a rounded value: it stays inside the binade of its argument (closed above) -/
theorem rne53_bounds (n : Nat) (hn : n ≠ 0) :
    2 ^ (bitLen n - 1) ≤ rne53 n ∧ rne53 n ≤ 2 ^ bitLen n := by
  obtain ⟨hl, hu, h1⟩ := bitLen_spec n hn
  unfold rne53
  by_cases hb : bitLen n ≤ 53
  · simp only [hb, if_true]
    exact ⟨hl, by omega⟩
  · simp only [hb, if_false]
    have hs : bitLen n - 53 + 53 = bitLen n := by omega
    generalize hsd : bitLen n - 53 = s at *
    have hP : 0 < 2 ^ s := Nat.two_pow_pos s
    have hdm := Nat.div_add_mod n (2 ^ s)
    have hr : n % 2 ^ s < 2 ^ s := Nat.mod_lt _ hP
    -- q = n / 2^s lies in [2^52, 2^53)
    have hbl : 2 ^ bitLen n = 2 ^ s * 2 ^ 53 := by rw [← Nat.pow_add, hs]
    have hbl1 : 2 ^ (bitLen n - 1) = 2 ^ s * 2 ^ 52 := by
      rw [← Nat.pow_add]; congr 1; omega
    have hq_hi : n / 2 ^ s < 2 ^ 53 := by
      apply (Nat.div_lt_iff_lt_mul hP).mpr
      rw [Nat.mul_comm]; omega
    have hq_lo : 2 ^ 52 ≤ n / 2 ^ s := by
      apply (Nat.le_div_iff_mul_le hP).mpr
      rw [Nat.mul_comm]; omega
    generalize n / 2 ^ s = q at *
    generalize n % 2 ^ s = r at *
    have e1 : q * 2 ^ s ≤ 2 ^ s * 2 ^ 53 := by
      rw [Nat.mul_comm]; exact Nat.mul_le_mul_left _ (by omega)
    have e2 : (q + 1) * 2 ^ s ≤ 2 ^ s * 2 ^ 53 := by
      rw [Nat.mul_comm]; exact Nat.mul_le_mul_left _ (by omega)
    have e3 : 2 ^ s * 2 ^ 52 ≤ q * 2 ^ s := by
      rw [Nat.mul_comm (2 ^ s)]; exact Nat.mul_le_mul_right _ hq_lo
    have e4 : q * 2 ^ s ≤ (q + 1) * 2 ^ s := Nat.mul_le_mul_right _ (by omega)
    rw [hbl, hbl1]
    split
    · exact ⟨e3, e1⟩
    · split
      · split
        · exact ⟨e3, e1⟩
        · exact ⟨by omega, e2⟩
      · exact ⟨by omega, e2⟩

/-- monotone inside one binade -/
theorem rne53_mono_same {n m : Nat} (h : n ≤ m) (hb : bitLen n = bitLen m) : rne53 n ≤ rne53 m := by
  unfold rne53
  rw [hb]
  by_cases hb53 : bitLen m ≤ 53
  · simp only [hb53, if_true]; exact h
  · simp only [hb53, if_false]
    generalize bitLen m - 53 = s at *
    have hP : 0 < 2 ^ s := Nat.two_pow_pos s
    have hn := Nat.div_add_mod n (2 ^ s)
    have hm := Nat.div_add_mod m (2 ^ s)
    have hrn : n % 2 ^ s < 2 ^ s := Nat.mod_lt _ hP
    have hrm : m % 2 ^ s < 2 ^ s := Nat.mod_lt _ hP
    have hq : n / 2 ^ s ≤ m / 2 ^ s := Nat.div_le_div_right h
    generalize n / 2 ^ s = q at *
    generalize m / 2 ^ s = q' at *
    generalize n % 2 ^ s = r at *
    generalize m % 2 ^ s = r' at *
    generalize 2 ^ (s - 1) = hf at *
    by_cases hqq : q = q'
    · subst hqq
      have hrr : r ≤ r' := by omega
      have e4 : q * 2 ^ s ≤ (q + 1) * 2 ^ s := Nat.mul_le_mul_right _ (by omega)
      by_cases c1 : r < hf
      · simp only [c1, if_true]
        split
        · exact Nat.le_refl _
        · split
          · split
            · exact Nat.le_refl _
            · exact e4
          · exact e4
      · simp only [c1, if_false]
        by_cases c2 : r = hf
        · simp only [c2, if_true]
          have c1' : ¬ r' < hf := by omega
          simp only [c1', if_false]
          by_cases c3 : r' = hf
          · simp only [c3, if_true]; exact Nat.le_refl _
          · simp only [c3, if_false]
            split
            · exact e4
            · exact Nat.le_refl _
        · simp only [c2, if_false]
          have c1' : ¬ r' < hf := by omega
          have c2' : ¬ r' = hf := by omega
          simp only [c1', c2', if_false]
          exact Nat.le_refl _
    · have hlt : q + 1 ≤ q' := by omega
      have e5 : (q + 1) * 2 ^ s ≤ q' * 2 ^ s := Nat.mul_le_mul_right _ hlt
      have e4 : q * 2 ^ s ≤ (q + 1) * 2 ^ s := Nat.mul_le_mul_right _ (by omega)
      have e6 : q' * 2 ^ s ≤ (q' + 1) * 2 ^ s := Nat.mul_le_mul_right _ (by omega)
      -- lhs ≤ (q+1)·2^s ≤ q'·2^s ≤ rhs
      have hl : (if r < hf then q * 2 ^ s else if r = hf then (if q % 2 = 0 then q * 2 ^ s else (q + 1) * 2 ^ s)
          else (q + 1) * 2 ^ s) ≤ (q + 1) * 2 ^ s := by
        split
        · exact e4
        · split
          · split
            · exact e4
            · exact Nat.le_refl _
          · exact Nat.le_refl _
      have hr : q' * 2 ^ s ≤ (if r' < hf then q' * 2 ^ s else if r' = hf then
          (if q' % 2 = 0 then q' * 2 ^ s else (q' + 1) * 2 ^ s) else (q' + 1) * 2 ^ s) := by
        split
        · exact Nat.le_refl _
        · split
          · split
            · exact Nat.le_refl _
            · exact e6
          · exact e6
      omega

/-- **rounding is monotone** -/
theorem rne53_mono {n m : Nat} (h : n ≤ m) : rne53 n ≤ rne53 m := by
  by_cases hn : n = 0
  · subst hn
    have : rne53 0 = 0 := by simp [rne53, bitLen]
    omega
  · have hm : m ≠ 0 := by omega
    have hbm := bitLen_mono h
    by_cases hb : bitLen n = bitLen m
    · exact rne53_mono_same h hb
    · have hlt : bitLen n ≤ bitLen m - 1 := by omega
      obtain ⟨_, hu⟩ := rne53_bounds n hn
      obtain ⟨hl, _⟩ := rne53_bounds m hm
      have : 2 ^ bitLen n ≤ 2 ^ (bitLen m - 1) := Nat.pow_le_pow_right (by decide) hlt
      omega

theorem add_mono {a b c : Nat} (h : a ≤ b) : add a c ≤ add b c := by
  unfold add; exact rne53_mono (by omega)

theorem mul_mono {a b c : Nat} (h : a ≤ b) : mul a c ≤ mul b c := by
  unfold mul
  exact Nat.div_le_div_right (rne53_mono (Nat.mul_le_mul_right c h))

theorem trunc_mono {a b : Nat} (h : a ≤ b) : trunc a ≤ trunc b := by
  unfold trunc; exact Nat.div_le_div_right h

end Lattigo.Sampler.SF
