/-
  C17 — basic lemmas about the `Res` monad, `prngRead`, byte strings and words.
-/
import Lattigo.Model.SamplerUniform
import Mathlib.Tactic.Ring
import Mathlib.Tactic.Linarith
namespace Lattigo.Sampler
open Lattigo Lattigo.Gen

theorem Res.bind_eq_ok {α β} {x : Res α} {f : α → Res β} {v : β} (h : (x >>= f) = .ok v) :
    ∃ a, x = .ok a ∧ f a = .ok v := by
  cases x with
  | ok a => exact ⟨a, rfl, h⟩
  | exhausted => cases h
  | panic => cases h

theorem prngRead_ok {s : Bytes} {n : Nat} {a r : Bytes} (h : prngRead s n = .ok (a, r)) :
    n ≤ s.length ∧ a = s.take n ∧ r = s.drop n ∧ s = a ++ r ∧ a.length = n := by
  unfold prngRead at h
  split at h
  · cases h
  · rename_i hl
    injection h with h
    injection h with h1 h2
    subst h1; subst h2
    refine ⟨by omega, rfl, rfl, (List.take_append_drop n s).symm, ?_⟩
    simp [List.length_take]; omega

/-- the buffer-pointer invariant -/
def BufInv (b : Buf) : Prop := b.data.length = bufLen ∧ b.ptr ≤ bufLen ∧ 8 ∣ b.ptr

theorem BufInv.new : BufInv Buf.new := by
  refine ⟨?_, ?_, ?_⟩
  · show (List.replicate bufLen 0).length = bufLen
    exact List.length_replicate ..
  · show 0 ≤ bufLen
    exact Nat.zero_le _
  · show 8 ∣ 0
    exact Nat.dvd_zero 8

theorem refill_ok {s s' : Bytes} {b' : Buf} (h : refill s = .ok (s', b')) :
    s = b'.data ++ s' ∧ b'.ptr = 0 ∧ b'.data.length = bufLen := by
  unfold refill at h
  obtain ⟨⟨d, r⟩, h1, h2⟩ := Res.bind_eq_ok h
  obtain ⟨_, _, _, hs, hl⟩ := prngRead_ok h1
  simp only [Res.pure_eq] at h2
  injection h2 with h2
  injection h2 with h3 h4
  subst h3; subst h4
  exact ⟨hs, rfl, hl⟩

theorem refill_inv {s s' : Bytes} {b' : Buf} (h : refill s = .ok (s', b')) : BufInv b' := by
  obtain ⟨_, hp, hl⟩ := refill_ok h
  exact ⟨hl, by omega, by simp [hp]⟩

end Lattigo.Sampler
