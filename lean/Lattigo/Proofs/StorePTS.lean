/-
  C09 — rlwe.Evaluator.PartialTracesSum over the `Store` model, EVERY n ≥ 1:
    * a generic renaming simulation for `Store` programs (`run_sim`): if every step reads only
      locations that are synchronised (in `D`) or were written earlier by the program (`Reads`), two runs
      of the program and of its renamed copy stay synchronised on `D ∪ written`;
    * the loop of PartialTracesSum (the `log n + HW(n)` tree) reads only the evaluator buffers and what it
      wrote itself (`ptsLoop_reads`), and — loop invariant `j = n / 2^i`, `state = false` until the
      iteration that scans the most significant bit — it writes both output polynomials
      (`ptsLoop_writes_out`);
    * hence aliasing insensitivity (`rlwePTS_alias_sound`) and independence from the previous content of
      the evaluator buffers and of the receiver (`rlwePTS_history_free`).
-/
import Lattigo.Proofs.StoreOps

set_option linter.unusedSimpArgs false
set_option linter.unusedVariables false
namespace Lattigo.Store

variable {α : Type}

/-! ## renaming simulation -/

def Step.ren (ρ : Loc → Loc) (s : Step) : Step := ⟨ρ s.dst, s.fn, s.args.map ρ⟩

/-- the two stores agree, through the renaming, on every location of `D` -/
def SimOn (ρ : Loc → Loc) (D : Loc → Prop) (σ1 σ2 : Store α) : Prop := ∀ x, D x → σ1 x = σ2 (ρ x)

/-- every step reads only locations of `D` or locations written by an earlier step of the program -/
def Reads (D : Loc → Prop) : Prog → Prop
  | [] => True
  | s :: p => (∀ a ∈ s.args, D a) ∧ Reads (fun x => D x ∨ x = s.dst) p

/-- some step of the program writes `x` -/
def Written (p : Prog) (x : Loc) : Prop := ∃ s ∈ p, s.dst = x

theorem Reads_mono : ∀ (p : Prog) (D D' : Loc → Prop), (∀ x, D x → D' x) → Reads D p → Reads D' p
  | [], _, _, _, _ => trivial
  | s :: p, D, D', h, hr => by
    refine ⟨fun a ha => h a (hr.1 a ha), ?_⟩
    exact Reads_mono p _ _ (fun x hx => hx.elim (fun h' => Or.inl (h x h')) Or.inr) hr.2

theorem Reads_append : ∀ (p q : Prog) (D : Loc → Prop), Reads D p → Reads (fun x => D x ∨ Written p x) q →
    Reads D (p ++ q)
  | [], q, D, _, hq => by
    refine Reads_mono q _ _ ?_ hq
    intro x hx
    rcases hx with hx | ⟨s, hs, _⟩
    · exact hx
    · cases hs
  | s :: p, q, D, hp, hq => by
    refine ⟨hp.1, Reads_append p q _ hp.2 ?_⟩
    refine Reads_mono q _ _ ?_ hq
    intro x hx
    rcases hx with hx | ⟨t, ht, rfl⟩
    · exact Or.inl (Or.inl hx)
    · rcases List.mem_cons.mp ht with rfl | ht
      · exact Or.inl (Or.inr rfl)
      · exact Or.inr ⟨t, ht, rfl⟩

theorem Written_append (p q : Prog) (x : Loc) : Written (p ++ q) x ↔ Written p x ∨ Written q x := by
  unfold Written
  constructor
  · rintro ⟨s, hs, rfl⟩
    rcases List.mem_append.mp hs with h | h
    · exact Or.inl ⟨s, h, rfl⟩
    · exact Or.inr ⟨s, h, rfl⟩
  · rintro (⟨s, hs, rfl⟩ | ⟨s, hs, rfl⟩)
    · exact ⟨s, List.mem_append_left _ hs, rfl⟩
    · exact ⟨s, List.mem_append_right _ hs, rfl⟩

theorem step_sim (I : Interp α) (ρ : Loc → Loc) (hρ : ∀ x y, ρ x = ρ y → x = y) (s : Step)
    (D : Loc → Prop) (σ1 σ2 : Store α) (hargs : ∀ a ∈ s.args, D a) (h : SimOn ρ D σ1 σ2) :
    SimOn ρ (fun x => D x ∨ x = s.dst) (s.exec I σ1) ((s.ren ρ).exec I σ2) := by
  intro x hx
  have hmap : (s.args.map ρ).map σ2.get = s.args.map σ1.get := by
    rw [List.map_map]
    apply List.map_congr_left
    intro a ha
    exact (h a (hargs a ha)).symm
  by_cases hxd : x = s.dst
  · subst hxd
    simp only [Step.exec, Step.ren, Store.set_get, if_true, hmap]
  · have hne : ρ x ≠ ρ s.dst := fun e => hxd (hρ _ _ e)
    simp only [Step.exec, Step.ren, Store.set_get, if_neg hxd, if_neg hne]
    rcases hx with hx | hx
    · exact h x hx
    · exact absurd hx hxd

theorem run_sim (I : Interp α) (ρ : Loc → Loc) (hρ : ∀ x y, ρ x = ρ y → x = y) :
    ∀ (p : Prog) (D : Loc → Prop) (σ1 σ2 : Store α), Reads D p → SimOn ρ D σ1 σ2 →
      SimOn ρ (fun x => D x ∨ Written p x) (run I p σ1) (run I (p.map (Step.ren ρ)) σ2)
  | [], D, σ1, σ2, _, h => fun x hx => by
    rcases hx with hx | ⟨s, hs, _⟩
    · exact h x hx
    · cases hs
  | s :: p, D, σ1, σ2, hr, h => by
    have h1 := step_sim I ρ hρ s D σ1 σ2 hr.1 h
    have h2 := run_sim I ρ hρ p _ _ _ hr.2 h1
    intro x hx
    simp only [List.map_cons, run_cons]
    apply h2
    rcases hx with hx | ⟨t, ht, rfl⟩
    · exact Or.inl (Or.inl hx)
    · rcases List.mem_cons.mp ht with rfl | ht
      · exact Or.inl (Or.inr rfl)
      · exact Or.inr ⟨t, ht, rfl⟩

theorem map_ren_id : ∀ p : Prog, p.map (Step.ren id) = p
  | [] => rfl
  | s :: p => by simp [Step.ren, map_ren_id p]

/-- same program on both sides -/
theorem run_sim_id (I : Interp α) (p : Prog) (D : Loc → Prop) (σ1 σ2 : Store α) (hr : Reads D p)
    (h : ∀ x, D x → σ1 x = σ2 x) : ∀ x, D x ∨ Written p x → run I p σ1 x = run I p σ2 x := by
  have := run_sim I id (fun _ _ e => e) p D σ1 σ2 hr h
  intro x hx
  have h' := this x hx
  rw [map_ren_id] at h'
  exact h'

/-! ## PartialTracesSum -/

/-- the evaluator buffers `BuffQP`, `BuffCt` -/
def Scr (x : Loc) : Prop := x.obj = bqp ∨ x.obj = bct

theorem ptsIter_reads (o n i j : Nat) (cp stt : Bool) : Reads Scr (ptsIter o n i j cp stt).1 := by
  unfold ptsIter
  simp only [L, st]
  split <;> (repeat' split) <;>
    simp (config := {decide := true}) [Reads, Scr, bqp, bct] at *

theorem ptsLoop_zero (o n i j : Nat) (cp stt : Bool) : ptsLoop o n 0 i j cp stt = [] := rfl

theorem ptsLoop_succ (o n fuel i j : Nat) (cp stt : Bool) (hj : j ≠ 0) :
    ptsLoop o n (fuel + 1) i j cp stt =
      (ptsIter o n i j cp stt).1 ++
        ptsLoop o n fuel (i + 1) (j / 2) (ptsIter o n i j cp stt).2.1 (ptsIter o n i j cp stt).2.2 := by
  rw [ptsLoop]
  simp only [hj, if_false]

theorem ptsLoop_j0 (o n fuel i : Nat) (cp stt : Bool) : ptsLoop o n fuel i 0 cp stt = [] := by
  cases fuel with
  | zero => rfl
  | succ f => rw [ptsLoop]; simp

theorem ptsLoop_reads (o n : Nat) : ∀ (fuel i j : Nat) (cp stt : Bool), Reads Scr (ptsLoop o n fuel i j cp stt)
  | 0, _, _, _, _ => trivial
  | fuel + 1, i, j, cp, stt => by
    by_cases hj : j = 0
    · subst hj; rw [ptsLoop_j0]; trivial
    · rw [ptsLoop_succ _ _ _ _ _ _ _ hj]
      exact Reads_append _ _ _ (ptsIter_reads ..) (Reads_mono _ _ _ (fun x hx => Or.inl hx) (ptsLoop_reads o n fuel ..))

/-- the renaming that exchanges object 0 (the input, which is the receiver in the aliased call) and object 2
    (the distinct receiver) -/
def ρ02 (x : Loc) : Loc := if x.obj = 0 then ⟨2, x.fld⟩ else if x.obj = 2 then ⟨0, x.fld⟩ else x

theorem ρ02_inj (x y : Loc) (h : ρ02 x = ρ02 y) : x = y := by
  rcases x with ⟨xo, xf⟩; rcases y with ⟨yo, yf⟩
  unfold ρ02 at h
  simp only at h
  split at h <;> split at h <;> (try split at h) <;> (try split at h) <;>
    simp only [Loc.mk.injEq] at h ⊢ <;> omega

theorem ptsIter_ren (n i j : Nat) (cp stt : Bool) :
    ptsIter 2 n i j cp stt = ((ptsIter 0 n i j cp stt).1.map (Step.ren ρ02), (ptsIter 0 n i j cp stt).2) := by
  unfold ptsIter
  simp only [L, st]
  split <;> (repeat' split) <;>
    simp (config := {decide := true}) [Step.ren, ρ02, bqp, bct] at *

theorem ptsLoop_ren (n : Nat) : ∀ (fuel i j : Nat) (cp stt : Bool),
    ptsLoop 2 n fuel i j cp stt = (ptsLoop 0 n fuel i j cp stt).map (Step.ren ρ02)
  | 0, _, _, _, _ => rfl
  | fuel + 1, i, j, cp, stt => by
    by_cases hj : j = 0
    · subst hj; rw [ptsLoop_j0, ptsLoop_j0]; rfl
    · rw [ptsLoop_succ _ _ _ _ _ _ _ hj, ptsLoop_succ _ _ _ _ _ _ _ hj, ptsIter_ren, List.map_append,
        ptsLoop_ren n fuel]

theorem div_pow_eq_one {n i : Nat} (h : n / 2 ^ i = 1) : 2 ^ i ≤ n ∧ n < 2 ^ (i + 1) := by
  have hpos : 0 < 2 ^ i := Nat.pow_pos (by decide)
  have h1 := Nat.div_add_mod n (2 ^ i)
  have h2 := Nat.mod_lt n hpos
  rw [h] at h1
  rw [Nat.pow_succ]
  generalize 2 ^ i = m at *
  omega

theorem div_pow_ge_two {n i j : Nat} (h : n / 2 ^ i = j) (hj : 2 ≤ j) : 2 ^ (i + 1) ≤ n := by
  have hpos : 0 < 2 ^ i := Nat.pow_pos (by decide)
  have h1 := Nat.div_add_mod n (2 ^ i)
  rw [h] at h1
  rw [Nat.pow_succ]
  generalize 2 ^ i = m at *
  have : m * 2 ≤ m * j := by rw [Nat.mul_comm m 2, Nat.mul_comm m j]; exact Nat.mul_le_mul_right m hj
  omega

/-- the iteration that scans the most significant bit (`j = 1`, hence `k = 0`) writes both output polynomials -/
theorem ptsIter_msb (o n i : Nat) (cp : Bool) (h : n / 2 ^ i = 1) :
    Written (ptsIter o n i 1 cp false).1 (L o 0) ∧ Written (ptsIter o n i 1 cp false).1 (L o 1) := by
  have hlt := (div_pow_eq_one h).2
  have hk : n - n % 2 ^ (i + 1) = 0 := by rw [Nat.mod_eq_of_lt hlt]; omega
  unfold ptsIter
  simp only [hk, L, st]
  split <;> (repeat' split) <;>
    simp (config := {decide := true}) [Written] at *

/-- an earlier iteration (`j ≥ 2`) does not set `state` -/
theorem ptsIter_not_msb (o n i j : Nat) (cp : Bool) (h : n / 2 ^ i = j) (hj : 2 ≤ j) :
    (ptsIter o n i j cp false).2.2 = false := by
  have hge := div_pow_ge_two h hj
  have hpos : 0 < 2 ^ (i + 1) := Nat.pow_pos (by decide)
  have hk : n - n % 2 ^ (i + 1) ≠ 0 := by
    have := Nat.mod_lt n hpos
    omega
  unfold ptsIter
  simp only [hk, L, st]
  split <;> (repeat' split) <;>
    simp (config := {decide := true}) at *

theorem ptsLoop_writes_out (o n : Nat) : ∀ (fuel i j : Nat) (cp : Bool), n / 2 ^ i = j → 1 ≤ j → j ≤ fuel →
    Written (ptsLoop o n fuel i j cp false) (L o 0) ∧ Written (ptsLoop o n fuel i j cp false) (L o 1)
  | 0, _, _, _, _, h1, h2 => by omega
  | fuel + 1, i, j, cp, h, h1, h2 => by
    have hj : j ≠ 0 := by omega
    rw [ptsLoop_succ _ _ _ _ _ _ _ hj]
    simp only [Written_append]
    by_cases hj1 : j = 1
    · subst hj1
      exact ⟨Or.inl (ptsIter_msb o n i cp h).1, Or.inl (ptsIter_msb o n i cp h).2⟩
    · have hj2 : 2 ≤ j := by omega
      rw [ptsIter_not_msb o n i j cp h hj2]
      have h' : n / 2 ^ (i + 1) = j / 2 := by rw [Nat.pow_succ, ← Nat.div_div_eq_div_mul, h]
      have := ptsLoop_writes_out o n fuel (i + 1) (j / 2) (ptsIter o n i j cp false).2.1 h' (by omega) (by omega)
      exact ⟨Or.inr this.1, Or.inr this.2⟩

theorem rlwePTSProg_ne_one (n : Nat) (p : Pat) (hn : n ≠ 1) :
    rlwePTSProg n p =
      [ st (L p.out fScale) .copy [L p.op0 fScale], st (L p.out fMeta) .copy [L p.op0 fMeta],
        st (L bct 0) .copy [L p.op0 0], st (L bct 1) .copy [L p.op0 1] ] ++
      ptsLoop p.out n (n + 1) 0 n true false := by
  unfold rlwePTSProg
  simp only [hn, if_false]

/-- ALIAS SOUNDNESS of PartialTracesSum for EVERY n ≥ 1: the call with `opOut == ctIn` (object 0) yields,
    in every result field, what the call with a distinct receiver (object 2) yields — whatever the
    distinct receiver contained. -/
theorem rlwePTS_alias_sound (I : Interp α) (hcopy : ∀ x, I.fn .copy [x] = x)
    (n : Nat) (hn : 1 ≤ n) (σ σd : Store α)
    (hagree : ∀ x, x.obj ≠ 2 → σd x = σ x) (f : Nat) (hf : f = 0 ∨ f = 1 ∨ f = fScale ∨ f = fMeta) :
    run I (rlwePTSProg n Alias.outOp0.pat) σ (L 0 f) = run I (rlwePTSProg n Alias.distinct.pat) σd (L 2 f) := by
  have e0 : ∀ g, σd ⟨0, g⟩ = σ ⟨0, g⟩ := fun g => hagree _ (by simp)
  by_cases h1 : n = 1
  · subst h1
    have e12 : ∀ g, σd ⟨12, g⟩ = σ ⟨12, g⟩ := fun g => hagree _ (by simp)
    rcases hf with rfl | rfl | rfl | rfl <;>
    simp (config := {decide := true}) [Alias.pat, rlwePTSProg, L, st, fScale, fMeta, bqp, bct,
      Step.exec, e0, e12, hcopy]
  · rw [rlwePTSProg_ne_one n _ h1, rlwePTSProg_ne_one n _ h1, run_append, run_append]
    simp only [Alias.pat]
    rw [ptsLoop_ren]
    -- the stores after the four copies of the prologue
    generalize hσ1 : run I [ st (L 0 fScale) .copy [L 0 fScale], st (L 0 fMeta) .copy [L 0 fMeta],
        st (L bct 0) .copy [L 0 0], st (L bct 1) .copy [L 0 1] ] σ = σ1
    generalize hσ2 : run I [ st (L 2 fScale) .copy [L 0 fScale], st (L 2 fMeta) .copy [L 0 fMeta],
        st (L bct 0) .copy [L 0 0], st (L bct 1) .copy [L 0 1] ] σd = σ2
    let D : Loc → Prop := fun x => Scr x ∨ x = L 0 fScale ∨ x = L 0 fMeta
    have hsim : SimOn ρ02 D σ1 σ2 := by
      intro x hx
      subst hσ1; subst hσ2
      rcases hx with (hx | hx) | rfl | rfl
      · have hρ : ρ02 x = x := by
          unfold ρ02; rw [hx]; simp (config := {decide := true}) [bqp]
        have hne : x.obj ≠ 2 := by rw [hx]; decide
        rw [hρ]
        rcases x with ⟨xo, xf⟩
        simp only at hx; subst hx
        simp (config := {decide := true}) [L, st, fScale, fMeta, bqp, bct, Step.exec, e0, hagree ⟨11, xf⟩ (by simp)]
      · have hρ : ρ02 x = x := by
          unfold ρ02; rw [hx]; simp (config := {decide := true}) [bct]
        rw [hρ]
        rcases x with ⟨xo, xf⟩
        simp only at hx; subst hx
        have := hagree ⟨12, xf⟩ (by simp)
        simp (config := {decide := true}) [L, st, fScale, fMeta, bqp, bct, Step.exec, e0, this]
      · simp (config := {decide := true}) [ρ02, L, st, fScale, fMeta, bqp, bct, Step.exec, e0]
      · simp (config := {decide := true}) [ρ02, L, st, fScale, fMeta, bqp, bct, Step.exec, e0]
    have hreads : Reads D (ptsLoop 0 n (n + 1) 0 n true false) :=
      Reads_mono _ _ _ (fun x hx => Or.inl hx) (ptsLoop_reads 0 n _ _ _ _ _)
    have hrun := run_sim I ρ02 ρ02_inj _ D σ1 σ2 hreads hsim
    have hw := ptsLoop_writes_out 0 n (n + 1) 0 n true (by simp) hn (by omega)
    have hD : (fun x => D x ∨ Written (ptsLoop 0 n (n + 1) 0 n true false) x) (L 0 f) := by
      rcases hf with rfl | rfl | rfl | rfl
      · exact Or.inr hw.1
      · exact Or.inr hw.2
      · exact Or.inl (Or.inr (Or.inl rfl))
      · exact Or.inl (Or.inr (Or.inr rfl))
    have := hrun (L 0 f) hD
    rw [this]
    rfl

/-! ### independence from the previous content of the buffers and of the receiver -/

/-- what is defined when an iteration starts: the input object, the running sum `BuffCt[0:2]`, and —
    once the flag `copy` has been cleared — the accumulator `BuffQP[2:4]` -/
def Dh (a : Nat) (cp : Bool) (x : Loc) : Prop :=
  x.obj = a ∨ x = L bct 0 ∨ x = L bct 1 ∨ (cp = false ∧ (x = L bqp 2 ∨ x = L bqp 3))

theorem ptsIter_reads_h (a o n i j : Nat) (cp stt : Bool)
    (hmsb : j % 2 = 1 → n - n % 2 ^ (i + 1) = 0 → n % 2 ^ (Nat.log2 n) ≠ 0 → cp = false) :
    Reads (Dh a cp) (ptsIter o n i j cp stt).1 := by
  unfold ptsIter
  simp only [L, st]
  split <;> (repeat' split) <;>
    simp (config := {decide := true}) [Reads, Dh, L, bqp, bct] at * <;> simp_all

theorem ptsIter_cp_written (a o n i j : Nat) (cp stt : Bool) (x : Loc)
    (hx : Dh a (ptsIter o n i j cp stt).2.1 x) : Dh a cp x ∨ Written (ptsIter o n i j cp stt).1 x := by
  by_cases h1 : j % 2 = 1 <;> by_cases h2 : n - n % 2 ^ (i + 1) = 0 <;>
    by_cases h3 : n % 2 ^ (Nat.log2 n) = 0 <;> cases cp <;> cases stt <;>
    simp (config := {decide := true}) [ptsIter, h1, h2, h3, Dh, L, st, Written, bqp, bct] at hx ⊢ <;>
    first | exact hx | exact Or.inl hx | (rcases hx with h | h | h | h | h <;> simp [h])

/-- while the flag `copy` is set no lower bit of `n` was a one: outside the most-significant-bit iteration
    the flag survives only an even `j` -/
theorem ptsIter_cp_true (o n i j : Nat) (cp stt : Bool) (hk : n - n % 2 ^ (i + 1) ≠ 0)
    (h : (ptsIter o n i j cp stt).2.1 = true) : cp = true ∧ j % 2 = 0 := by
  by_cases h1 : j % 2 = 1 <;> cases cp <;> cases stt <;>
    simp (config := {decide := true}) [ptsIter, h1, hk] at h ⊢
  all_goals omega

theorem ptsLoop_reads_h (a o n : Nat) (hn : n ≠ 0) : ∀ (fuel i j : Nat) (cp stt : Bool),
    n / 2 ^ i = j → (cp = true → n % 2 ^ i = 0) → Reads (Dh a cp) (ptsLoop o n fuel i j cp stt)
  | 0, _, _, _, _, _, _ => trivial
  | fuel + 1, i, j, cp, stt, hj, hcp => by
    by_cases hj0 : j = 0
    · subst hj0; rw [ptsLoop_j0]; trivial
    · rw [ptsLoop_succ _ _ _ _ _ _ _ hj0]
      have hposi : 0 < 2 ^ i := Nat.pow_pos (by decide)
      have hge : 2 ^ i ≤ n := by
        have h1 := Nat.div_add_mod n (2 ^ i)
        rw [hj] at h1
        have : 2 ^ i * 1 ≤ 2 ^ i * j := Nat.mul_le_mul_left _ (by omega)
        omega
      apply Reads_append
      · apply ptsIter_reads_h
        intro _ hk hnp
        -- k = 0 ⇒ n < 2^(i+1) ⇒ i = log2 n
        have hpos : 0 < 2 ^ (i + 1) := Nat.pow_pos (by decide)
        have hlt : n < 2 ^ (i + 1) := by
          have := Nat.mod_lt n hpos
          omega
        have hlog : Nat.log2 n = i := (Nat.log2_eq_iff hn).2 ⟨hge, hlt⟩
        rw [hlog] at hnp
        cases cp with
        | false => rfl
        | true => exact absurd (hcp rfl) hnp
      · by_cases hk : n - n % 2 ^ (i + 1) = 0
        · -- most significant bit: the loop ends here
          have hpos : 0 < 2 ^ (i + 1) := Nat.pow_pos (by decide)
          have hlt : n < 2 ^ (i + 1) := by
            have := Nat.mod_lt n hpos
            omega
          have : j / 2 = 0 := by
            rw [← hj, Nat.div_div_eq_div_mul, ← Nat.pow_succ]
            exact Nat.div_eq_of_lt hlt
          rw [this, ptsLoop_j0]; trivial
        · refine Reads_mono _ _ _ (fun x hx => ptsIter_cp_written a o n i j cp stt x hx) ?_
          apply ptsLoop_reads_h a o n hn fuel
          · rw [Nat.pow_succ, ← Nat.div_div_eq_div_mul, hj]
          · intro hcp'
            have := ptsIter_cp_true o n i j cp stt hk hcp'
            rw [Nat.mod_pow_succ, hj, this.2, hcp this.1, Nat.mul_zero]

/-- HISTORY-FREENESS of PartialTracesSum, every n ≥ 1, every pattern: the four result fields of the
    receiver depend on the fields of the INPUT object only — not on what the evaluator buffers `BuffCt`,
    `BuffQP` or a distinct receiver contained before the call. -/
theorem rlwePTS_history_free (I : Interp α) (n : Nat) (hn : 1 ≤ n) (p : Pat) (σ σ' : Store α)
    (h : ∀ x : Loc, x.obj = p.op0 → σ x = σ' x) (f : Nat) (hf : f = 0 ∨ f = 1 ∨ f = fScale ∨ f = fMeta) :
    run I (rlwePTSProg n p) σ (L p.out f) = run I (rlwePTSProg n p) σ' (L p.out f) := by
  apply run_sim_id I (rlwePTSProg n p) (fun x => x.obj = p.op0) σ σ' ?_ h
  · -- the location is an input field or is written
    by_cases h1 : n = 1
    · subst h1
      by_cases hao : p.op0 = p.out
      · left; simp [L, hao]
      · right
        rcases hf with rfl | rfl | rfl | rfl <;>
          simp (config := {decide := true}) [rlwePTSProg, Written, hao, L, st, fScale, fMeta]
    · right
      rw [rlwePTSProg_ne_one n p h1, Written_append]
      have hw := ptsLoop_writes_out p.out n (n + 1) 0 n true (by simp) hn (by omega)
      rcases hf with rfl | rfl | rfl | rfl
      · exact Or.inr hw.1
      · exact Or.inr hw.2
      · left; simp (config := {decide := true}) [Written, L, st, fScale, fMeta]
      · left; simp (config := {decide := true}) [Written, L, st, fScale, fMeta]
  · -- every read is of an input field or of something written before
    by_cases h1 : n = 1
    · subst h1
      unfold rlwePTSProg
      by_cases hao : p.op0 = p.out <;>
        simp (config := {decide := true}) [Reads, hao, L, st]
    · rw [rlwePTSProg_ne_one n p h1]
      apply Reads_append
      · simp (config := {decide := true}) [Reads, L, st]
      · refine Reads_mono _ _ _ ?_ (ptsLoop_reads_h p.op0 p.out n (by omega) (n + 1) 0 n true false (by simp) (fun _ => Nat.mod_one n))
        intro x hx
        rcases hx with hx | hx | hx | hx
        · exact Or.inl hx
        · right; subst hx; simp (config := {decide := true}) [Written, L, st]
        · right; subst hx; simp (config := {decide := true}) [Written, L, st]
        · exact absurd hx.1 (by decide)

/-- alias soundness in its strongest form: the two stores only have to agree on the INPUT object. -/
theorem rlwePTS_alias_sound' (I : Interp α) (hcopy : ∀ x, I.fn .copy [x] = x)
    (n : Nat) (hn : 1 ≤ n) (σ σd : Store α)
    (hagree : ∀ x : Loc, x.obj = 0 → σd x = σ x) (f : Nat) (hf : f = 0 ∨ f = 1 ∨ f = fScale ∨ f = fMeta) :
    run I (rlwePTSProg n Alias.outOp0.pat) σ (L 0 f) = run I (rlwePTSProg n Alias.distinct.pat) σd (L 2 f) := by
  rw [rlwePTS_alias_sound I hcopy n hn σ σ (fun _ _ => rfl) f hf]
  exact (rlwePTS_history_free I n hn Alias.distinct.pat σd σ hagree f hf).symm
end Lattigo.Store
