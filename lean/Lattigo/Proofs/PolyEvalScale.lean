/-
  C13 — exact scales of the bgv instance (scales modulo the prime `t`): `ring.ModExp`-based inverses,
  the field algebra of `mulS`/`divS`, the simulator's back-propagation (`recursePS`) composed forwards,
  and the scale of the machine's output.
-/
import Lattigo.Proofs.PolyEvalSim
import Mathlib.FieldTheory.Finite.Basic

namespace Lattigo.Model.PolyEval

/-! ## `ModExp` and the inverse modulo a prime -/

theorem modExpLoop_spec (t : Nat) (fuel : Nat) : ∀ (r b k : Nat), k < 2 ^ fuel →
    modExpLoop t fuel r b k % t = r * b ^ k % t := by
  induction fuel with
  | zero =>
    intro r b k hk
    have : k = 0 := by simpa using hk
    subst this
    simp [modExpLoop]
  | succ fuel ih =>
    intro r b k hk
    rw [modExpLoop, ih _ _ _ (by omega)]
    have hk2 : k = 2 * (k / 2) + k % 2 := (Nat.div_add_mod k 2).symm
    have hb : (b * b % t) ^ (k / 2) % t = (b * b) ^ (k / 2) % t := by rw [← Nat.pow_mod]
    have hbb : (b * b) ^ (k / 2) = b ^ (2 * (k / 2)) := by rw [← pow_two, ← pow_mul]
    by_cases h1 : k % 2 = 1
    · rw [if_pos h1]
      conv_rhs => rw [hk2, h1, pow_add, pow_one]
      rw [Nat.mul_mod, Nat.mod_mod, hb, hbb, ← Nat.mul_mod]
      congr 1; ring
    · rw [if_neg h1]
      have h0 : k % 2 = 0 := by omega
      conv_rhs => rw [hk2, h0, Nat.add_zero]
      rw [Nat.mul_mod, hb, hbb, ← Nat.mul_mod]

theorem modExpLoop_lt (t : Nat) (ht : 0 < t) (fuel : Nat) : ∀ (r b k : Nat), r < t → modExpLoop t fuel r b k < t := by
  induction fuel with
  | zero => intro r b k hr; simpa [modExpLoop] using hr
  | succ fuel ih =>
    intro r b k hr
    rw [modExpLoop]
    apply ih
    split
    · exact Nat.mod_lt _ ht
    · exact hr

theorem modExp_spec (t x e : Nat) (ht : 0 < t) (he : e < 2 ^ 64) : modExp t x e = x ^ e % t := by
  unfold modExp
  have h1 := modExpLoop_spec t 64 (1 % t) (x % t) e he
  have h2 := modExpLoop_lt t ht 64 (1 % t) (x % t) e (Nat.mod_lt _ ht)
  rw [Nat.mod_eq_of_lt h2] at h1
  rw [h1, Nat.mul_mod, Nat.mod_mod, ← Nat.pow_mod, ← Nat.mul_mod, Nat.one_mul]

/-- Fermat: `b · b^(t-2) ≡ 1 (mod t)` for a prime `t < 2^64` not dividing `b` -/
theorem invMod_spec (t b : Nat) (ht : t.Prime) (h64 : t < 2 ^ 64) (hb : ¬ t ∣ b) :
    b * invMod t b % t = 1 := by
  unfold invMod
  rw [modExp_spec t b (t - 2) ht.pos (by omega), Nat.mul_mod, Nat.mod_mod, ← Nat.mul_mod]
  have h2 := ht.two_le
  have hpow : b * b ^ (t - 2) = b ^ (t - 1) := by
    rw [← pow_succ']; congr 1; omega
  rw [hpow]
  have hcop : Nat.Coprime b t := (Nat.Coprime.symm ((Nat.Prime.coprime_iff_not_dvd ht).2 hb))
  have := Nat.ModEq.pow_totient hcop
  rw [Nat.totient_prime ht] at this
  rw [this, Nat.mod_eq_of_lt (by omega)]

/-! ## scales as elements of the field `ZMod t` -/

section field
variable (e : Env) [hp : Fact e.t.Prime] (h64 : e.t < 2 ^ 64)

/-- a scale is a unit modulo `t` -/
def UnitS (a : Nat) : Prop := ((a : Nat) : ZMod e.t) ≠ 0

theorem t_ne_zero : e.t ≠ 0 := hp.out.ne_zero

theorem mulS_lt (a b : Nat) : mulS e a b < e.t := by
  unfold mulS; rw [if_neg (t_ne_zero e)]; exact Nat.mod_lt _ hp.out.pos

theorem divS_lt (a b : Nat) : divS e a b < e.t := by
  unfold divS; rw [if_neg (t_ne_zero e)]; exact Nat.mod_lt _ hp.out.pos

theorem cast_mulS (a b : Nat) : ((mulS e a b : Nat) : ZMod e.t) = (a : ZMod e.t) * (b : ZMod e.t) := by
  unfold mulS; rw [if_neg (t_ne_zero e)]
  rw [ZMod.natCast_mod, Nat.cast_mul]

include h64 in
theorem cast_invMod (b : Nat) (hb : UnitS e b) : ((invMod e.t b : Nat) : ZMod e.t) = ((b : Nat) : ZMod e.t)⁻¹ := by
  have hnd : ¬ e.t ∣ b := by
    intro hd; exact hb ((ZMod.natCast_eq_zero_iff b e.t).2 hd)
  have h1 := invMod_spec e.t b hp.out h64 hnd
  have h2 : ((b * invMod e.t b : Nat) : ZMod e.t) = 1 := by
    rw [← ZMod.natCast_mod, h1]; simp
  rw [Nat.cast_mul] at h2
  exact eq_inv_of_mul_eq_one_right h2

include h64 in
theorem cast_divS (a b : Nat) (hb : UnitS e b) :
    ((divS e a b : Nat) : ZMod e.t) = (a : ZMod e.t) * ((b : Nat) : ZMod e.t)⁻¹ := by
  unfold divS; rw [if_neg (t_ne_zero e)]
  rw [ZMod.natCast_mod, Nat.cast_mul, cast_invMod e h64 b hb]

/-- two reduced scales are equal iff they are equal in `ZMod t` -/
theorem eq_of_cast (a b : Nat) (ha : a < e.t) (hb : b < e.t) (h : (a : ZMod e.t) = (b : ZMod e.t)) : a = b := by
  have := (ZMod.natCast_eq_natCast_iff' a b e.t).1 h
  rwa [Nat.mod_eq_of_lt ha, Nat.mod_eq_of_lt hb] at this

theorem unit_mulS (a b : Nat) (ha : UnitS e a) (hb : UnitS e b) : UnitS e (mulS e a b) := by
  unfold UnitS at *; rw [cast_mulS]; exact mul_ne_zero ha hb

include h64 in
theorem unit_divS (a b : Nat) (ha : UnitS e a) (hb : UnitS e b) : UnitS e (divS e a b) := by
  unfold UnitS at *; rw [cast_divS e h64 a b hb]; exact mul_ne_zero ha (inv_ne_zero hb)

end field

/-! ## arithmetic of the decomposition -/

theorem bitLen_le_iff (n m : Nat) : bitLen n ≤ m ↔ n < 2 ^ m := by
  unfold bitLen
  by_cases h : n = 0
  · subst h; simp
  · rw [if_neg h]
    rw [← Nat.log2_lt h]
    omega

theorem lt_pow_bitLen (n : Nat) : n < 2 ^ bitLen n := (bitLen_le_iff n _).1 (le_refl _)

theorem pow_le_of_bitLen (n : Nat) (hn : 1 ≤ n) : 2 ^ (bitLen n - 1) ≤ n := by
  by_contra h
  have h1 : n < 2 ^ (bitLen n - 1) := by omega
  have := (bitLen_le_iff n (bitLen n - 1)).2 h1
  have hpos : 1 ≤ bitLen n := by
    by_contra h0
    have : bitLen n = 0 := by omega
    have := lt_pow_bitLen n
    simp_all
  omega

theorem nextPowerLoop_le (deg M : Nat) (hM : deg / 2 + 1 ≤ M) (fuel : Nat) :
    ∀ (np i : Nat), np * 2 ^ i = M → nextPowerLoop deg fuel np ≤ M := by
  induction fuel with
  | zero =>
    intro np i h
    rw [nextPowerLoop, ← h]
    exact Nat.le_mul_of_pos_right np (Nat.two_pow_pos i)
  | succ fuel ih =>
    intro np i h
    rw [nextPowerLoop]
    split
    · rename_i hlt
      cases i with
      | zero => simp at h; omega
      | succ i =>
        apply ih (2 * np) i
        rw [← h, pow_succ]; ring
    · rw [← h]
      exact Nat.le_mul_of_pos_right np (Nat.two_pow_pos i)

/-- the split power of a giant step is at most `2^(bitLen deg - 1)` -/
theorem nextPower_le (s deg : Nat) (hs : 2 ^ s ≤ deg) : nextPower s deg ≤ 2 ^ (bitLen deg - 1) := by
  have hlt := lt_pow_bitLen deg
  have hdeg : 1 ≤ deg := le_trans (Nat.one_le_two_pow) hs
  have hB : 1 ≤ bitLen deg := by
    by_contra h0
    have : bitLen deg = 0 := by omega
    rw [this] at hlt; simp at hlt; omega
  have hsB : s ≤ bitLen deg - 1 := by
    have : 2 ^ s < 2 ^ bitLen deg := lt_of_le_of_lt hs hlt
    have := (Nat.pow_lt_pow_iff_right (by decide : 1 < 2)).1 this
    omega
  unfold nextPower
  apply nextPowerLoop_le deg _ _ _ _ (bitLen deg - 1 - s)
  · rw [← pow_add]; congr 1; omega
  · have h2 : 2 ^ bitLen deg = 2 * 2 ^ (bitLen deg - 1) := by
      conv_lhs => rw [show bitLen deg = (bitLen deg - 1) + 1 by omega, pow_succ]
      ring
    omega

theorem bitLen_sub_le (deg np : Nat) (hdeg : 1 ≤ deg) (hnp : deg / 2 + 1 ≤ np) :
    bitLen (deg - np) ≤ bitLen deg - 1 := by
  rw [bitLen_le_iff]
  have hlt := lt_pow_bitLen deg
  have hB : 1 ≤ bitLen deg := by
    by_contra h0
    have : bitLen deg = 0 := by omega
    rw [this] at hlt; simp at hlt; omega
  have h2 : 2 ^ bitLen deg = 2 * 2 ^ (bitLen deg - 1) := by
    conv_lhs => rw [show bitLen deg = (bitLen deg - 1) + 1 by omega, pow_succ]
    ring
  omega

theorem optimalSplit_pos (n : Nat) : 1 ≤ optimalSplit n := by
  by_cases h : 2 ≤ n
  · unfold optimalSplit
    simp only []
    have : 1 ≤ n / 2 := by omega
    split_ifs <;> omega
  · have : n = 0 ∨ n = 1 := by omega
    rcases this with rfl | rfl <;> decide

theorem clog_nextPower (s deg : Nat) (hs : 2 ^ s ≤ deg) : Nat.clog 2 (nextPower s deg) ≤ bitLen deg - 1 := by
  exact Nat.clog_le_of_le_pow (nextPower_le s deg hs)

/-- `SplitDegree(n) = (a, b)`: both parts are at most half the next power of two -/
theorem clog_splitDegree (n : Nat) (hn : 2 ≤ n) :
    Nat.clog 2 (splitDegree n).1 + 1 ≤ Nat.clog 2 n ∧ Nat.clog 2 (splitDegree n).2 + 1 ≤ Nat.clog 2 n := by
  have hc1 : 1 ≤ Nat.clog 2 n := Nat.clog_pos (by decide) hn
  have hkey : ∀ a, a ≤ 2 ^ (Nat.clog 2 n - 1) → Nat.clog 2 a + 1 ≤ Nat.clog 2 n := by
    intro a ha
    have := Nat.clog_le_of_le_pow ha
    omega
  have hle : n ≤ 2 ^ Nat.clog 2 n := Nat.le_pow_clog (by decide) n
  have hlt : 2 ^ (Nat.clog 2 n - 1) < n := by
    have := Nat.pow_pred_clog_lt_self (by decide : 1 < 2) hn
    simpa using this
  have h2 : 2 ^ Nat.clog 2 n = 2 * 2 ^ (Nat.clog 2 n - 1) := by
    conv_lhs => rw [show Nat.clog 2 n = (Nat.clog 2 n - 1) + 1 by omega, pow_succ]
    ring
  unfold splitDegree
  by_cases hp : isPow2 n = true
  · rw [if_pos hp]
    simp only
    have : n / 2 ≤ 2 ^ (Nat.clog 2 n - 1) := by omega
    exact ⟨hkey _ this, hkey _ this⟩
  · rw [if_neg hp]
    simp only
    -- k = bitLen (n-1) - 1 = clog n - 1
    have hk : bitLen (n - 1) - 1 = Nat.clog 2 n - 1 := by
      have hb1 : bitLen (n - 1) ≤ Nat.clog 2 n := (bitLen_le_iff _ _).2 (by omega)
      have hb2 : ¬ bitLen (n - 1) ≤ Nat.clog 2 n - 1 := by
        rw [bitLen_le_iff]; omega
      omega
    rw [hk]
    -- n is not a power of two: n ≠ 2^clog n
    have hne : n ≠ 2 ^ Nat.clog 2 n := by
      intro heq
      apply hp
      rw [isPow2_iff]
      refine ⟨by omega, ?_⟩
      have : Nat.log2 n = Nat.clog 2 n := by
        rw [Nat.log2_eq_log_two]
        conv_lhs => rw [heq]
        exact Nat.log_pow (by decide) _
      rw [this, ← heq]
    constructor
    · apply hkey; omega
    · apply hkey; omega

/-! ## the simulated power basis: levels and unit scales -/

section sim
variable (e : Env) [hp : Fact e.t.Prime] (h64 : e.t < 2 ^ 64) (hinv : e.inv = false)
variable (L : Int) (hq : ∀ l : Int, 0 ≤ l → l ≤ L → UnitS e (qAt e l))

/-- every stored power `n` has a unit scale and a level in `[L - ⌈log2 n⌉, L]` -/
def SimInv (d : List (Nat × SimOpd)) : Prop :=
  ∀ n xp, d.find? (·.1 == n) = some xp → UnitS e xp.2.scale ∧ L - (Nat.clog 2 n : Int) ≤ xp.2.level ∧ xp.2.level ≤ L

theorem find?_cons_filter {β : Type} (d : List (Nat × β)) (n m : Nat) (v : β) :
    ((n, v) :: d.filter (·.1 != n)).find? (·.1 == m) =
      if n = m then some (n, v) else d.find? (·.1 == m) := by
  simp only [List.find?_cons]
  by_cases h : n = m
  · simp [h]
  · have : (n == m) = false := by simpa using h
    simp only [this, if_neg h]
    induction d with
    | nil => rfl
    | cons p d ih =>
      simp only [List.filter_cons, List.find?_cons]
      by_cases hpn : p.1 = n
      · have h1 : (p.1 != n) = false := by simp [hpn]
        have h2 : (p.1 == m) = false := by rw [hpn]; simpa using h
        simp only [h1, h2]
        exact ih
      · have h1 : (p.1 != n) = true := by simpa using hpn
        simp only [h1, if_true, List.find?_cons]
        split
        · rfl
        · exact ih

include h64 hinv hq in
theorem simInv_simGenPower (fuel : Nat) : ∀ (n : Nat) (d : List (Nat × SimOpd)), (Nat.clog 2 n : Int) ≤ L →
    SimInv e L d → SimInv e L (simGenPower e fuel n d) := by
  induction fuel with
  | zero => intro n d _ h; rw [simGenPower]; exact h
  | succ fuel ih =>
    intro n d hn h
    rw [simGenPower]
    split
    · exact h
    · rename_i hn2
      have hn2' : 2 ≤ n := by omega
      obtain ⟨hca, hcb⟩ := clog_splitDegree n hn2'
      simp only []
      have h1 := ih (splitDegree n).1 d (by omega) h
      have h2 := ih (splitDegree n).2 _ (by omega) h1
      generalize simGenPower e fuel (splitDegree n).2 (simGenPower e fuel (splitDegree n).1 d) = D at h2
      cases ha : D.find? (·.1 == (splitDegree n).1) with
      | none => simp only; exact h2
      | some oa =>
        cases hb : D.find? (·.1 == (splitDegree n).2) with
        | none => simp only; exact h2
        | some ob =>
          simp only
          obtain ⟨hua, hla, hla'⟩ := h2 _ _ ha
          obtain ⟨hub, hlb, hlb'⟩ := h2 _ _ hb
          intro m xp hm
          rw [find?_cons_filter] at hm
          by_cases hnm : n = m
          · rw [if_pos hnm] at hm
            simp only [Option.some.injEq] at hm
            subst hm; subst hnm
            simp only [simRescale, simMul, mulScale, hinv, Bool.false_eq_true, if_false]
            refine ⟨?_, by omega, by omega⟩
            apply unit_divS e h64 _ _ (unit_mulS e _ _ hua hub)
            apply hq <;> omega
          · rw [if_neg hnm] at hm
            exact h2 m xp hm

include h64 hinv hq in
theorem simInv_simPowers (deg : Nat) (hdeg : 1 ≤ deg) (sc : Nat) (hsc : UnitS e sc) (hL : (bitLen deg : Int) ≤ L) :
    SimInv e L (simPowers e deg L sc) := by
  unfold simPowers
  simp only []
  have h0 : SimInv e L [(1, { level := L, scale := sc })] := by
    intro n xp hf
    simp only [List.find?_cons, List.find?_nil] at hf
    split at hf
    · simp only [Option.some.injEq] at hf
      subst hf
      rename_i h1
      have : n = 1 := (by simpa using h1 : 1 = n).symm
      subst this
      exact ⟨hsc, by simp, le_refl _⟩
    · cases hf
  have h1 := simInv_simGenPower e h64 hinv L hq (2 * deg + 8) (2 ^ bitLen deg) _
    (by rw [Nat.clog_pow 2 _ (by decide)]; exact hL) h0
  generalize simGenPower e (2 * deg + 8) (2 ^ bitLen deg) [(1, { level := L, scale := sc })] = D at h1
  have hB1 : 1 ≤ bitLen deg := by
    by_contra h0
    have h00 : bitLen deg = 0 := by omega
    have := lt_pow_bitLen deg
    rw [h00] at this; simp at this; omega
  have hos : optimalSplit (bitLen deg) ≤ bitLen deg := by
    by_cases h2 : 2 ≤ bitLen deg
    · unfold optimalSplit; simp only []; split_ifs <;> omega
    · have : bitLen deg = 1 := by omega
      rw [this]; decide
  have hall : ∀ l : List Nat, (∀ k ∈ l, True) → ∀ D, SimInv e L D →
      SimInv e L (l.foldl (fun d k =>
        if 2 ^ optimalSplit (bitLen deg) - 1 - k > 2 then
          simGenPower e (2 * deg + 8) (2 ^ optimalSplit (bitLen deg) - 1 - k) d else d) D) := by
    intro l _
    induction l with
    | nil => intro D h; exact h
    | cons k l ih =>
      intro D h
      simp only [List.foldl_cons]
      apply ih (fun _ _ => trivial)
      split
      · apply simInv_simGenPower e h64 hinv L hq _ _ _ _ h
        have hle : 2 ^ optimalSplit (bitLen deg) - 1 - k ≤ 2 ^ bitLen deg :=
          le_trans (Nat.sub_le _ _) (le_trans (Nat.sub_le _ _) (Nat.pow_le_pow_right (by decide) hos))
        have := Nat.clog_le_of_le_pow hle
        omega
      · exact h
  exact hall _ (fun _ _ => trivial) D h1

/-! ## the back-propagation of `recursePS`, composed forwards -/

omit hp in
theorem factorize_q_degree (p : SubPoly) (n : Nat) : (p.factorize e n).1.degree = p.degree - n := by
  unfold SubPoly.degree SubPoly.factorize
  simp only
  by_cases h : p.coeffs = []
  · simp [h]
  · rw [headD_mapIdx_ne _ _ [] [] h, factorizeF_len1]; omega

include h64 hinv hq in
/-- **recursePS_scale**: with `L − T` levels of budget for the degree, the simulated evaluation of `p`
    towards (level `T`, scale `out`) comes back at level `T` with the scale `out·q_T` for a leading
    sub-polynomial (one `Rescale` is still to come) and `out` otherwise: the scales the simulator
    assigns backwards from the target compose forwards to the target. -/
theorem recursePS_scale (pb : List (Nat × SimOpd)) (hpb : SimInv e L pb) (fuel : Nat) :
    ∀ (s : Nat) (T : Int) (p : SubPoly) (out : Nat) (subs : List SubPoly) (res : SimOpd),
      1 ≤ s → 0 ≤ T → ((bitLen p.degree - 1 : Nat) : Int) ≤ L - T → out < e.t →
      recursePS e pb fuel s T p out = some (subs, res) →
      res.level = T ∧ res.scale = (if p.lead then mulS e out (qAt e T) else out) := by
  induction fuel with
  | zero => intro s T p out subs res _ _ _ _ h; rw [recursePS] at h; cases h
  | succ fuel ih =>
    intro s T p out subs res hs hT hbud hout h
    rw [recursePS] at h
    by_cases hbaby : p.degree < 2 ^ s
    · rw [if_pos hbaby] at h
      split at h
      · exact ih _ T p out subs res (optimalSplit_pos _) hT hbud hout h
      · simp only [Option.some.injEq, Prod.mk.injEq] at h
        rw [← h.2]
        refine ⟨rfl, ?_⟩
        simp only [babyScale, hinv, Bool.not_false, Bool.true_and]
    · rw [if_neg hbaby] at h
      simp only [] at h
      have hs2 : 2 ^ s ≤ p.degree := by omega
      have hdeg2 : 2 ≤ p.degree := le_trans (by
        calc 2 = 2 ^ 1 := rfl
          _ ≤ 2 ^ s := Nat.pow_le_pow_right (by decide) hs) hs2
      have hB2 : 2 ≤ bitLen p.degree := by
        by_contra hc
        have : bitLen p.degree ≤ 1 := by omega
        have := (bitLen_le_iff _ _).1 this
        omega
      cases hx : pb.find? (·.1 == nextPower s p.degree) with
      | none => rw [hx] at h; cases h
      | some xp =>
        rw [hx] at h
        simp only [] at h
        obtain ⟨hux, hlx, _⟩ := hpb _ _ hx
        have hcl := clog_nextPower s p.degree hs2
        have hnp := nextPower_ge s p.degree
        have hgl : giantLevelScale e p.lead T out xp.2.scale =
            (T + 1, mulS e (divS e out xp.2.scale) (if p.lead then qAt e T else qAt e (T + 1))) := by
          simp [giantLevelScale, hinv]
        rw [hgl] at h
        simp only [] at h
        cases hq' : recursePS e pb fuel s (T + 1) (p.factorize e (nextPower s p.degree)).1
            (mulS e (divS e out xp.2.scale) (if p.lead then qAt e T else qAt e (T + 1))) with
        | none => rw [hq'] at h; cases h
        | some rq =>
          rw [hq'] at h
          simp only [] at h
          have hbq : ((bitLen (p.factorize e (nextPower s p.degree)).1.degree - 1 : Nat) : Int) ≤ L - (T + 1) := by
            rw [factorize_q_degree]
            have := bitLen_sub_le p.degree (nextPower s p.degree) (by omega) hnp
            omega
          obtain ⟨hlq, hsq⟩ := ih s (T + 1) _ _ rq.1 rq.2 hs (by omega) hbq (mulS_lt e _ _) hq'
          have hql : (p.factorize e (nextPower s p.degree)).1.lead = p.lead := rfl
          rw [hql] at hsq
          -- the remainder only has to exist and pass the check
          split at h
          · cases h
          · split at h
            · cases h
            · simp only [Option.some.injEq, Prod.mk.injEq] at h
              rw [← h.2]
              have huq1 : UnitS e (qAt e (T + 1)) := hq _ (by omega) (by omega)
              constructor
              · simp only [simMul, simRescale, hinv, Bool.false_eq_true, if_false, hlq]
                omega
              · simp only [simMul, simRescale, mulScale, hinv, Bool.false_eq_true, if_false, hlq, hsq]
                by_cases hl : p.lead = true
                · simp only [hl, if_true]
                  apply eq_of_cast e _ _ (mulS_lt e _ _) (mulS_lt e _ _)
                  simp only [cast_mulS, cast_divS e h64 _ _ huq1, cast_divS e h64 _ _ hux]
                  unfold UnitS at hux huq1
                  field_simp
                · simp only [hl, Bool.false_eq_true, if_false]
                  apply eq_of_cast e _ _ (mulS_lt e _ _) hout
                  simp only [cast_mulS, cast_divS e h64 _ _ huq1, cast_divS e h64 _ _ hux]
                  unfold UnitS at hux huq1
                  field_simp

omit hp in
/-- the LAST sub-polynomial of the decomposition (the lowest-order baby step) carries the level and
    the scale the simulation returns (no hypothesis: the simulator's own check enforces it) -/
theorem recursePS_last (pb : List (Nat × SimOpd)) (fuel : Nat) :
    ∀ (s : Nat) (T : Int) (p : SubPoly) (out : Nat) (subs : List SubPoly) (res : SimOpd),
      recursePS e pb fuel s T p out = some (subs, res) →
      ∃ sp, subs.getLast? = some sp ∧ sp.scale = res.scale ∧ sp.level = T := by
  induction fuel with
  | zero => intro s T p out subs res h; rw [recursePS] at h; cases h
  | succ fuel ih =>
    intro s T p out subs res h
    rw [recursePS] at h
    split at h
    · split at h
      · exact ih _ T p out subs res h
      · simp only [Option.some.injEq, Prod.mk.injEq] at h
        rw [← h.1, ← h.2]
        exact ⟨_, rfl, rfl, rfl⟩
    · simp only [] at h
      split at h
      · cases h
      · split at h
        · cases h
        · rename_i bq resq hq'
          split at h
          · cases h
          · rename_i br tmp hr'
            split at h
            · cases h
            · rename_i hchk
              simp only [Option.some.injEq, Prod.mk.injEq] at h
              obtain ⟨sp, h1, h2, h3⟩ := ih _ _ _ _ _ _ hr'
              refine ⟨sp, ?_, ?_, h3⟩
              · rw [← h.1, List.getLast?_append, h1]; rfl
              · rw [h2, ← h.2]
                simpa using hchk

end sim

/-! ## the scale of the machine's output -/

theorem ex_bind_ok {α β : Type} {m : M α} {f : α → M β} {st s2 : St} {b : β}
    (h : ex (m >>= f) st = (.ok b, s2)) : ∃ a s1, ex m st = (.ok a, s1) ∧ ex (f a) s1 = (.ok b, s2) := by
  rw [ex_bind] at h
  cases hm : ex m st with
  | mk r s1 =>
    rw [hm] at h
    cases r with
    | error e => simp at h
    | ok a => exact ⟨a, s1, rfl, h⟩

/-- `Post m Q`: whenever `m` succeeds, its result satisfies `Q` -/
structure Post {α : Type} (m : M α) (Q : α → Prop) : Prop where
  out : ∀ st a st', ex m st = (.ok a, st') → Q a

theorem post_bind {α β : Type} {m : M α} {f : α → M β} {Qa : α → Prop} {Qb : β → Prop}
    (hm : Post m Qa) (hf : ∀ a, Qa a → Post (f a) Qb) : Post (m >>= f) Qb := by
  constructor
  intro st b s2 h
  obtain ⟨a, s1, h1, h2⟩ := ex_bind_ok h
  exact (hf a (hm.out st a s1 h1)).out s1 b s2 h2

theorem post_pure {α : Type} {Q : α → Prop} {a : α} (h : Q a) : Post (pure a : M α) Q := by
  constructor
  intro st b s' hex
  simp only [ex_pure, Prod.mk.injEq, Except.ok.injEq] at hex
  rw [← hex.1]; exact h

theorem post_throw {α : Type} {Q : α → Prop} (er : String) : Post (throw er : M α) Q := by
  constructor
  intro st b s' hex; simp at hex

theorem post_ite {α : Type} {Q : α → Prop} {c : Prop} [Decidable c] {a b : M α}
    (ha : c → Post a Q) (hb : ¬ c → Post b Q) : Post (if c then a else b) Q := by
  by_cases h : c
  · rw [if_pos h]; exact ha h
  · rw [if_neg h]; exact hb h

theorem post_true {α : Type} (m : M α) : Post m (fun _ => True) := ⟨fun _ _ _ _ => trivial⟩

theorem post_mono {α : Type} {m : M α} {Q Q' : α → Prop} (h : Post m Q) (hq : ∀ a, Q a → Q' a) : Post m Q' :=
  ⟨fun st a st' hex => hq a (h.out st a st' hex)⟩

theorem post_foldlM {β ι : Type} {Q : β → Prop} (f : β → ι → M β)
    (hf : ∀ b i, Q b → Post (f b i) Q) (l : List ι) : ∀ b, Q b → Post (l.foldlM f b) Q := by
  induction l with
  | nil => intro b hb; simp only [List.foldlM_nil]; exact post_pure hb
  | cons i l ih =>
    intro b hb
    simp only [List.foldlM_cons]
    exact post_bind (hf b i hb) (fun c hc => ih c hc)

section machine
variable (e : Env)

theorem post_addConst (a : Opd) (c : List Int) : Post (addConst e a c) (fun o => o.scale = a.scale ∧ o.level = a.level) := by
  unfold addConst
  exact post_bind (post_true _) (fun _ _ => post_pure ⟨rfl, rfl⟩)

theorem post_mulThenAddConst (x : Opd) (c : List Int) (r : Opd) :
    Post (mulThenAddConst e x c r) (fun o => o.scale = r.scale ∧ o.level ≤ r.level) := by
  unfold mulThenAddConst
  exact post_bind (post_true _) (fun _ _ => post_pure ⟨rfl, min_le_left _ _⟩)

/-- a baby step comes out at the scale the simulator assigned to it (and not above its level) -/
theorem post_evalFromPowerBasis (mapping : Option (List (List Nat))) (T : Int) (p : SubPoly) (sc : Nat) :
    Post (evalFromPowerBasis e mapping T p sc) (fun o => o.scale = sc ∧ o.level ≤ T) := by
  unfold evalFromPowerBasis
  apply post_bind (post_true _); intro st _
  apply post_ite
  · intro _
    apply post_ite
    · intro _; exact post_mono (post_addConst e _ _) (fun o h => ⟨h.1, le_of_eq h.2⟩)
    · intro _; exact post_pure ⟨rfl, le_refl _⟩
  · intro _
    apply post_bind (Qa := fun o => o.scale = sc ∧ o.level ≤ T)
    · apply post_ite
      · intro _; exact post_mono (post_addConst e _ _) (fun o h => ⟨h.1, le_of_eq h.2⟩)
      · intro _; exact post_pure ⟨rfl, le_refl _⟩
    · intro r hr
      apply post_foldlM _ _ _ r hr
      intro b i hb
      apply post_ite
      · intro _
        apply post_bind (post_true _); intro x _
        exact post_mono (post_mulThenAddConst e _ _ _) (fun o h => ⟨h.1.trans hb.1, le_trans h.2 hb.2⟩)
      · intro _; exact post_pure hb

theorem post_addCt (name : String) (sub : Bool) (a b : Opd) :
    Post (addCt e name sub a b) (fun o => o.scale = a.scale ∧ o.level ≤ b.level) := by
  unfold addCt
  exact post_bind (post_true _) (fun _ _ => post_pure ⟨rfl, min_le_right _ _⟩)

/-- `EvaluateMonomial(a, b, xpow)` on the exact-scale instance: the result has the scale of `a` (the
    evaluator's scale check) and a level not above `a`'s -/
theorem post_evalMonomial (ht : e.t ≠ 0) (a b x : Opd) :
    Post (evalMonomial e a b x) (fun o => o.scale = a.scale ∧ o.level ≤ a.level) := by
  unfold evalMonomial
  apply post_bind (post_true _); intro b1 _
  apply post_bind (post_true _); intro b2 _
  apply post_bind (post_true _); intro b3 _
  apply post_ite
  · intro _; exact post_throw _
  · intro hc
    apply post_mono (post_addCt e _ _ _ _)
    intro o this
    refine ⟨?_, this.2⟩
    rw [this.1]
    have hc' : ¬ (a.scale != b3.scale) = true := by
      intro h2; apply hc; simp [ht, h2]
    exact (by simpa using hc' : a.scale = b3.scale).symm

/-- one pass of the giant-step loop keeps the scale of the FIRST (lowest-order) entry, and does not
    raise its level -/
theorem post_giantPass (ht : e.t ≠ 0) (fuel : Nat) : ∀ (prev : Option Nat) (l : List (Nat × Opd)),
    Post (giantPass e fuel prev l) (fun l' => l'.head?.map (fun p => p.2.scale) = l.head?.map (fun p => p.2.scale)
      ∧ (∀ v v', l.head? = some v → l'.head? = some v' → v'.2.level ≤ v.2.level) ∧ (l ≠ [] → l' ≠ [])) := by
  induction fuel with
  | zero => intro prev l; rw [giantPass]; exact post_pure ⟨rfl, by intro v v' h1 h2; rw [h1] at h2; cases h2; exact le_refl _, id⟩
  | succ fuel ih =>
    intro prev l
    match l with
    | [] => simp only [giantPass]; exact post_pure ⟨rfl, by intro v v' h1; simp at h1, id⟩
    | [(d, v)] =>
      simp only [giantPass]
      exact post_pure ⟨rfl, by intro v1 v2 h1 h2; simp at h1 h2; rw [← h1, ← h2], by simp⟩
    | (d0, v0) :: (d1, v1) :: rest =>
      rw [giantPass]
      apply post_ite
      · intro _
        simp only []
        apply post_bind (post_true _); intro xp _
        apply post_bind (post_evalMonomial e ht v0 v1 xp); intro b hb
        apply post_bind (post_true _); intro tl _
        exact post_pure ⟨by simp [hb.1], by intro v v' h1 h2; simp at h1 h2; rw [← h1, ← h2]; exact hb.2, by simp⟩
      · intro _
        apply post_bind (post_true _); intro tl _
        exact post_pure ⟨by simp, by intro v v' h1 h2; simp at h1 h2; rw [← h1, ← h2], by simp⟩

theorem post_giantLoop (ht : e.t ≠ 0) (fuel : Nat) : ∀ (l : List (Nat × Opd)),
    Post (giantLoop e fuel l) (fun l' => l'.head?.map (fun p => p.2.scale) = l.head?.map (fun p => p.2.scale)
      ∧ (∀ v v', l.head? = some v → l'.head? = some v' → v'.2.level ≤ v.2.level) ∧ (l ≠ [] → l' ≠ [])) := by
  induction fuel with
  | zero => intro l; rw [giantLoop]; exact post_pure ⟨rfl, by intro v v' h1 h2; rw [h1] at h2; cases h2; exact le_refl _, id⟩
  | succ fuel ih =>
    intro l
    rw [giantLoop]
    apply post_ite
    · intro _; exact post_pure ⟨rfl, by intro v v' h1 h2; rw [h1] at h2; cases h2; exact le_refl _, id⟩
    · intro _
      apply post_bind (post_giantPass e ht _ none l); intro l2 h2
      apply post_mono (ih l2)
      intro l3 h3
      refine ⟨h3.1.trans h2.1, ?_, fun hne => h3.2.2 (h2.2.2 hne)⟩
      intro v v' hv hv'
      cases hl2 : l2.head? with
      | none =>
        have : l2 = [] := by simpa using hl2
        have hl : l ≠ [] := by intro h0; rw [h0] at hv; cases hv
        exact absurd this (h2.2.2 hl)
      | some v2 => exact le_trans (h3.2.1 v2 v' hl2 hv') (h2.2.1 v v2 hv hl2)

/-- the final step: relinearisation keeps, `Rescale` divides the scale by `q_level` and drops one level -/
theorem post_finish (hinv : e.inv = false) (fin : List (Nat × Opd)) :
    Post (finish e fin) (fun o => ∃ d v, fin = [(d, v)] ∧ o.scale = divS e v.scale (qAt e v.level) ∧ o.level = v.level - 1) := by
  match fin with
  | [] => unfold finish; exact post_throw _
  | [(d, v)] =>
    unfold finish
    simp only
    apply post_bind (Qa := fun o => o.scale = v.scale ∧ o.level = v.level)
    · apply post_ite
      · intro _; unfold relinOp; exact post_bind (post_true _) (fun _ _ => post_pure ⟨rfl, rfl⟩)
      · intro _; exact post_pure ⟨rfl, rfl⟩
    · intro v1 hv1
      unfold rescaleOp
      apply post_bind (post_true _); intro _ _
      rw [hinv]
      simp only [Bool.false_eq_true, if_false]
      apply post_ite
      · intro _; constructor; intro s o s' h; rw [ex_bind] at h; simp at h
      · intro _
        exact post_pure ⟨d, v, rfl, by simp only; rw [hv1.1, hv1.2], by simp only; rw [hv1.2]⟩
  | _ :: _ :: _ => unfold finish; exact post_throw _

/-- the baby steps: the list ends up headed by the value of the LAST sub-polynomial, at its scale -/
theorem post_babySteps (mapping : Option (List (List Nat))) (subs : List SubPoly) : ∀ bs0 : List (Nat × Opd),
    Post (subs.foldlM (fun bs sp => do
        let v ← evalFromPowerBasis e mapping sp.level sp sp.scale
        pure ((sp.degree, v) :: bs)) bs0)
      (fun bs => (subs = [] ∧ bs = bs0) ∨ ∃ sp v rest, subs.getLast? = some sp ∧ bs = (sp.degree, v) :: rest ∧
        v.scale = sp.scale ∧ v.level ≤ sp.level) := by
  induction subs with
  | nil => intro bs0; simp only [List.foldlM_nil]; exact post_pure (Or.inl ⟨by simp, rfl⟩)
  | cons sp subs ih =>
    intro bs0
    simp only [List.foldlM_cons]
    apply post_bind (Qa := fun bs1 => ∃ v, bs1 = (sp.degree, v) :: bs0 ∧ v.scale = sp.scale ∧ v.level ≤ sp.level)
    · apply post_bind (post_evalFromPowerBasis e mapping sp.level sp sp.scale); intro v hv
      exact post_pure ⟨v, rfl, hv.1, hv.2⟩
    · intro bs1 ⟨v, hb1, hv1, hv2⟩
      apply post_mono (ih bs1)
      intro bs h
      right
      rcases h with ⟨h1, h2⟩ | ⟨sp', v', rest, h1, h2, h3, h4⟩
      · subst h1
        exact ⟨sp, v, bs0, rfl, by rw [h2, hb1], hv1, hv2⟩
      · refine ⟨sp', v', rest, ?_, h2, h3, h4⟩
        cases subs with
        | nil => simp at h1
        | cons a l => simpa using h1

/-- `EvaluatePatersonStockmeyerPolynomialVector` on the exact-scale instance: the output scale is the
    scale of the last sub-polynomial divided by the prime of the level the final `Rescale` leaves -/
theorem post_evalSubs (ht : e.t ≠ 0) (hinv : e.inv = false) (mapping : Option (List (List Nat))) (subs : List SubPoly) :
    Post (evalSubs e mapping subs) (fun o => ∀ sp, subs.getLast? = some sp →
      ∃ lv : Int, lv ≤ sp.level ∧ o.level = lv - 1 ∧ o.scale = divS e sp.scale (qAt e lv)) := by
  unfold evalSubs
  apply post_bind (post_babySteps e mapping subs []); intro bs hbs
  apply post_bind (post_giantLoop e ht _ bs); intro fin hfin
  apply post_mono (post_finish e hinv fin)
  intro o ⟨d, v, hf, hsc, hlv⟩ sp hsp
  rcases hbs with ⟨h1, _⟩ | ⟨sp', v', rest, h1, h2, h3, h4⟩
  · rw [h1] at hsp; simp at hsp
  · rw [hsp] at h1
    simp only [Option.some.injEq] at h1
    subst h1
    subst h2
    subst hf
    have hs := hfin.1
    simp only [List.head?_cons, Option.map_some, Option.some.injEq] at hs
    have hl := hfin.2.1 (sp.degree, v') (d, v) rfl rfl
    simp only at hl
    exact ⟨v.level, le_trans hl h4, hlv, by rw [hsc, hs, h3]⟩

/-- **machine_scale**: a successful evaluation (degree ≥ 1, standard mode, exact-scale instance) went
    through a decomposition `r` of the simulator, and its output scale is the scale of the last
    sub-polynomial of `r` divided by `q` at the level above the output's -/
theorem evaluateFrom_scale (ht : e.t ≠ 0) (hinv : e.inv = false) (polys : List (List Int))
    (hdeg : (polys.headD []).length - 1 ≠ 0) (mapping : Option (List (List Nat))) (lazy : Bool) (ts : Nat)
    (x1 : Opd) (st st' : St) (o : Opd) (hx1 : st.pb.find? (·.1 == 1) = some (1, x1))
    (h : ex (evaluateFrom e polys mapping lazy ts) st = (.ok o, st')) :
    ∃ r, recursePS e (simPowers e ((polys.headD []).length - 1) x1.level x1.scale)
        (2 * ((polys.headD []).length - 1) + 8) (optimalSplit (bitLen ((polys.headD []).length - 1)))
        (x1.level - simDepth e ((polys.headD []).length - 1))
        { coeffs := polys, maxDeg := (polys.headD []).length - 1, lead := true } ts = some r ∧
      ∀ sp, r.1.getLast? = some sp →
        ∃ lv : Int, lv ≤ sp.level ∧ o.level = lv - 1 ∧ o.scale = divS e sp.scale (qAt e lv) := by
  unfold evaluateFrom at h
  simp only [] at h
  obtain ⟨a, s1, h1, h2⟩ := ex_bind_ok h
  rw [ex_getP, hx1] at h1
  simp only [Prod.mk.injEq, Except.ok.injEq] at h1
  obtain ⟨rfl, rfl⟩ := h1
  rw [if_neg hdeg] at h2
  split at h2
  · simp at h2
  · obtain ⟨_, s2, _, h3⟩ := ex_bind_ok h2
    cases hr : recursePS e (simPowers e ((polys.headD []).length - 1) x1.level x1.scale)
        (2 * ((polys.headD []).length - 1) + 8) (optimalSplit (bitLen ((polys.headD []).length - 1)))
        (x1.level - simDepth e ((polys.headD []).length - 1))
        { coeffs := polys, maxDeg := (polys.headD []).length - 1, lead := true } ts with
    | none => rw [hr] at h3; simp at h3
    | some r =>
      rw [hr] at h3
      simp only [] at h3
      exact ⟨r, rfl, (post_evalSubs e ht hinv mapping r.1).out s2 o st' h3⟩

end machine

/-- **target_scale_of_level** (every degree `d ≥ 1`, standard mode, exact-scale instance): `t` prime,
    the input scale and the `q_l mod t`, `l ≤ L`, units modulo `t`, the target scale reduced.  If the
    run succeeds and ends at level `L − bits.Len64(d)` (the documented depth: `depth_spec`), then its
    scale IS the requested one. -/
theorem target_scale_of_level (e : Env) [hp : Fact e.t.Prime] (h64 : e.t < 2 ^ 64) (hinv : e.inv = false)
    (d : Nat) (hd1 : 1 ≤ d) (polys : List (List Int)) (hpl : (polys.headD []).length = d + 1)
    (mapping : Option (List (List Nat))) (lazy : Bool) (L : Nat) (hL : bitLen d ≤ L)
    (hq : ∀ l : Int, 0 ≤ l → l ≤ (L : Int) → UnitS e (qAt e l))
    (is : Nat) (his : UnitS e is) (ts : Nat) (hts : ts < e.t) (x : List Int) (tr : List String) (o : Opd)
    (hrun : run e polys mapping lazy L is ts x = (tr, "ok", some o))
    (hlev : o.level = (L : Int) - bitLen d) : o.scale = ts := by
  have ht : e.t ≠ 0 := t_ne_zero e
  have hdeg : (polys.headD []).length - 1 = d := by omega
  have hB1 : 1 ≤ bitLen d := by
    by_contra h0
    have h00 : bitLen d = 0 := by omega
    have := lt_pow_bitLen d
    rw [h00] at this; simp at this; omega
  rw [run_eq] at hrun
  cases hex : ex (evaluate e polys mapping lazy L is ts x) {} with
  | mk r st =>
    rw [hex] at hrun
    cases r with
    | error er => simp only [Prod.mk.injEq] at hrun; exact absurd hrun.2.2 (by simp)
    | ok o' =>
      simp only [Prod.mk.injEq, Option.some.injEq] at hrun
      obtain ⟨_, _, rfl⟩ := hrun
      unfold evaluate at hex
      obtain ⟨_, s1, h1, h2⟩ := ex_bind_ok hex
      simp only [ex_setP, Prod.mk.injEq] at h1
      have hs1 : s1.pb.find? (·.1 == 1) = some (1, { level := (L : Int), scale := is, deg := 1, val := x }) := by
        rw [← h1.2]; simp
      obtain ⟨r, hr, hsc⟩ := evaluateFrom_scale e ht hinv polys (by omega) mapping lazy ts _ s1 st o' hs1 h2
      simp only [hdeg] at hr
      have hsd : simDepth e d = bitLen d - 1 := by simp [simDepth, hinv, polynomialDepth]
      rw [hsd] at hr
      have hpb := simInv_simPowers e h64 hinv (L : Int) hq d hd1 is his (by exact_mod_cast hL)
      have hT0 : (0 : Int) ≤ (L : Int) - ((bitLen d - 1 : Nat) : Int) := by omega
      obtain ⟨hrl, hrs⟩ := recursePS_scale e h64 hinv (L : Int) hq _ hpb _ _ _ _ _ r.1 r.2
        (optimalSplit_pos _) hT0 (by simp only [SubPoly.degree, hdeg]; omega) hts hr
      obtain ⟨sp, hlast, hssc, hslv⟩ := recursePS_last e _ _ _ _ _ _ r.1 r.2 hr
      obtain ⟨lv, hlv1, hlv2, hlv3⟩ := hsc sp hlast
      have hlvT : lv = (L : Int) - ((bitLen d - 1 : Nat) : Int) := by
        rw [hslv] at hlv1; omega
      rw [hlv3, hssc, hrs, hlvT]
      simp only [if_true]
      have huq : UnitS e (qAt e ((L : Int) - ((bitLen d - 1 : Nat) : Int))) := hq _ hT0 (by omega)
      apply eq_of_cast e _ _ (divS_lt e _ _) hts
      rw [cast_divS e h64 _ _ huq, cast_mulS]
      unfold UnitS at huq
      field_simp

/-! ## the scale-invariant (BFV) mode: the target scale for EVERY degree -/

section bfv
variable (e : Env) [hp : Fact e.t.Prime] (h64 : e.t < 2 ^ 64) (hinv : e.inv = true)
variable (L : Int) (hnq : UnitS e (negQ e L))

/-- scale-invariant mode: every simulated power sits at the input level `L` with a unit scale -/
def SimInvB (d : List (Nat × SimOpd)) : Prop :=
  ∀ n xp, d.find? (·.1 == n) = some xp → UnitS e xp.2.scale ∧ xp.2.level = L

include h64 hinv hnq in
theorem simInvB_simGenPower (fuel : Nat) : ∀ (n : Nat) (d : List (Nat × SimOpd)),
    SimInvB e L d → SimInvB e L (simGenPower e fuel n d) := by
  induction fuel with
  | zero => intro n d h; rw [simGenPower]; exact h
  | succ fuel ih =>
    intro n d h
    rw [simGenPower]
    split
    · exact h
    · simp only []
      have h2 := ih (splitDegree n).2 _ (ih (splitDegree n).1 d h)
      generalize simGenPower e fuel (splitDegree n).2 (simGenPower e fuel (splitDegree n).1 d) = D at h2
      cases ha : D.find? (·.1 == (splitDegree n).1) with
      | none => simp only; exact h2
      | some oa =>
        cases hb : D.find? (·.1 == (splitDegree n).2) with
        | none => simp only; exact h2
        | some ob =>
          simp only
          obtain ⟨hua, hla⟩ := h2 _ _ ha
          obtain ⟨hub, hlb⟩ := h2 _ _ hb
          intro m xp hm
          rw [find?_cons_filter] at hm
          by_cases hnm : n = m
          · rw [if_pos hnm] at hm
            simp only [Option.some.injEq] at hm
            subst hm
            simp only [simRescale, simMul, mulScale, hinv, if_true, hla, hlb, min_self]
            exact ⟨unit_divS e h64 _ _ (unit_mulS e _ _ hua hub) hnq, trivial⟩
          · rw [if_neg hnm] at hm
            exact h2 m xp hm

include h64 hinv hnq in
theorem simInvB_simPowers (deg : Nat) (sc : Nat) (hsc : UnitS e sc) : SimInvB e L (simPowers e deg L sc) := by
  unfold simPowers
  simp only []
  have h0 : SimInvB e L [(1, { level := L, scale := sc })] := by
    intro n xp hf
    simp only [List.find?_cons, List.find?_nil] at hf
    split at hf
    · simp only [Option.some.injEq] at hf
      subst hf
      exact ⟨hsc, rfl⟩
    · cases hf
  have h1 := simInvB_simGenPower e h64 hinv L hnq (2 * deg + 8) (2 ^ bitLen deg) _ h0
  generalize simGenPower e (2 * deg + 8) (2 ^ bitLen deg) [(1, { level := L, scale := sc })] = D at h1
  have hall : ∀ l : List Nat, ∀ D, SimInvB e L D →
      SimInvB e L (l.foldl (fun d k =>
        if 2 ^ optimalSplit (bitLen deg) - 1 - k > 2 then
          simGenPower e (2 * deg + 8) (2 ^ optimalSplit (bitLen deg) - 1 - k) d else d) D) := by
    intro l
    induction l with
    | nil => intro D h; exact h
    | cons k l ih =>
      intro D h
      simp only [List.foldl_cons]
      apply ih
      split
      · exact simInvB_simGenPower e h64 hinv L hnq _ _ _ h
      · exact h
  exact hall _ D h1

include h64 hinv hnq in
/-- **recursePS_scale_bfv**: in the scale-invariant mode the simulated evaluation of ANY sub-polynomial
    towards (level `L`, scale `out`) comes back at level `L` with the scale `out` — for every split -/
theorem recursePS_scale_bfv (pb : List (Nat × SimOpd)) (hpb : SimInvB e L pb) (fuel : Nat) :
    ∀ (s : Nat) (p : SubPoly) (out : Nat) (subs : List SubPoly) (res : SimOpd), out < e.t →
      recursePS e pb fuel s L p out = some (subs, res) → res.level = L ∧ res.scale = out := by
  induction fuel with
  | zero => intro s p out subs res _ h; rw [recursePS] at h; cases h
  | succ fuel ih =>
    intro s p out subs res hout h
    rw [recursePS] at h
    by_cases hbaby : p.degree < 2 ^ s
    · rw [if_pos hbaby] at h
      split at h
      · exact ih _ p out subs res hout h
      · simp only [Option.some.injEq, Prod.mk.injEq] at h
        rw [← h.2]
        exact ⟨rfl, by simp [babyScale, hinv]⟩
    · rw [if_neg hbaby] at h
      simp only [] at h
      cases hx : pb.find? (·.1 == nextPower s p.degree) with
      | none => rw [hx] at h; cases h
      | some xp =>
        rw [hx] at h
        simp only [] at h
        obtain ⟨hux, hlx⟩ := hpb _ _ hx
        have hgl : giantLevelScale e p.lead L out xp.2.scale = (L, mulS e (divS e out xp.2.scale) (negQ e L)) := by
          simp [giantLevelScale, hinv]
        rw [hgl] at h
        simp only [] at h
        cases hq' : recursePS e pb fuel s L (p.factorize e (nextPower s p.degree)).1
            (mulS e (divS e out xp.2.scale) (negQ e L)) with
        | none => rw [hq'] at h; cases h
        | some rq =>
          rw [hq'] at h
          simp only [] at h
          obtain ⟨hlq, hsq⟩ := ih s _ _ rq.1 rq.2 (mulS_lt e _ _) hq'
          split at h
          · cases h
          · split at h
            · cases h
            · simp only [Option.some.injEq, Prod.mk.injEq] at h
              rw [← h.2]
              constructor
              · simp only [simMul, simRescale, hinv, if_true, hlq, hlx, min_self]
              · simp only [simMul, simRescale, mulScale, hinv, if_true, hlq, hlx, min_self, hsq]
                apply eq_of_cast e _ _ (divS_lt e _ _) hout
                rw [cast_divS e h64 _ _ hnq, cast_mulS, cast_mulS, cast_divS e h64 _ _ hux]
                unfold UnitS at hux hnq
                field_simp

end bfv

section machine_bfv
variable (e : Env)

/-- scale-invariant mode: `Rescale` is a no-op, the final step keeps scale and level -/
theorem post_finish_inv (hinv : e.inv = true) (fin : List (Nat × Opd)) :
    Post (finish e fin) (fun o => ∃ d v, fin = [(d, v)] ∧ o.scale = v.scale ∧ o.level = v.level) := by
  match fin with
  | [] => unfold finish; exact post_throw _
  | [(d, v)] =>
    unfold finish
    simp only
    apply post_bind (Qa := fun o => o.scale = v.scale ∧ o.level = v.level)
    · apply post_ite
      · intro _; unfold relinOp; exact post_bind (post_true _) (fun _ _ => post_pure ⟨rfl, rfl⟩)
      · intro _; exact post_pure ⟨rfl, rfl⟩
    · intro v1 hv1
      unfold rescaleOp
      apply post_bind (post_true _); intro _ _
      rw [hinv]
      simp only [if_true]
      exact post_pure ⟨d, v, rfl, hv1.1, hv1.2⟩
  | _ :: _ :: _ => unfold finish; exact post_throw _

theorem post_evalSubs_inv (ht : e.t ≠ 0) (hinv : e.inv = true) (mapping : Option (List (List Nat))) (subs : List SubPoly) :
    Post (evalSubs e mapping subs) (fun o => ∀ sp, subs.getLast? = some sp → o.scale = sp.scale ∧ o.level ≤ sp.level) := by
  unfold evalSubs
  apply post_bind (post_babySteps e mapping subs []); intro bs hbs
  apply post_bind (post_giantLoop e ht _ bs); intro fin hfin
  apply post_mono (post_finish_inv e hinv fin)
  intro o ⟨d, v, hf, hsc, hlv⟩ sp hsp
  rcases hbs with ⟨h1, _⟩ | ⟨sp', v', rest, h1, h2, h3, h4⟩
  · rw [h1] at hsp; simp at hsp
  · rw [hsp] at h1
    simp only [Option.some.injEq] at h1
    subst h1
    subst h2
    subst hf
    have hs := hfin.1
    simp only [List.head?_cons, Option.map_some, Option.some.injEq] at hs
    have hl := hfin.2.1 (sp.degree, v') (d, v) rfl rfl
    simp only at hl
    exact ⟨by rw [hsc, hs, h3], by rw [hlv]; exact le_trans hl h4⟩

/-- a successful evaluation of a polynomial of degree ≥ 1 went through a decomposition of the simulator
    and then `evalSubs` on it -/
theorem evaluateFrom_subs (polys : List (List Int))
    (hdeg : (polys.headD []).length - 1 ≠ 0) (mapping : Option (List (List Nat))) (lazy : Bool) (ts : Nat)
    (x1 : Opd) (st st' : St) (o : Opd) (hx1 : st.pb.find? (·.1 == 1) = some (1, x1))
    (h : ex (evaluateFrom e polys mapping lazy ts) st = (.ok o, st')) :
    ∃ r s2, recursePS e (simPowers e ((polys.headD []).length - 1) x1.level x1.scale)
        (2 * ((polys.headD []).length - 1) + 8) (optimalSplit (bitLen ((polys.headD []).length - 1)))
        (x1.level - simDepth e ((polys.headD []).length - 1))
        { coeffs := polys, maxDeg := (polys.headD []).length - 1, lead := true } ts = some r ∧
      ex (evalSubs e mapping r.1) s2 = (.ok o, st') := by
  unfold evaluateFrom at h
  simp only [] at h
  obtain ⟨a, s1, h1, h2⟩ := ex_bind_ok h
  rw [ex_getP, hx1] at h1
  simp only [Prod.mk.injEq, Except.ok.injEq] at h1
  obtain ⟨rfl, rfl⟩ := h1
  rw [if_neg hdeg] at h2
  split at h2
  · simp at h2
  · obtain ⟨_, s2, _, h3⟩ := ex_bind_ok h2
    cases hr : recursePS e (simPowers e ((polys.headD []).length - 1) x1.level x1.scale)
        (2 * ((polys.headD []).length - 1) + 8) (optimalSplit (bitLen ((polys.headD []).length - 1)))
        (x1.level - simDepth e ((polys.headD []).length - 1))
        { coeffs := polys, maxDeg := (polys.headD []).length - 1, lead := true } ts with
    | none => rw [hr] at h3; simp at h3
    | some r =>
      rw [hr] at h3
      simp only [] at h3
      exact ⟨r, s2, rfl, h3⟩

end machine_bfv

/-- **target_scale_bfv** (EVERY degree `d ≥ 1`, every input level, scale-invariant mode, exact scales
    modulo the prime `t`): the input scale and `-Q_L mod t` units, the target scale reduced.  Whenever the
    run succeeds, its scale IS the requested one and its level is at most the input's. -/
theorem target_scale_bfv (e : Env) [hp : Fact e.t.Prime] (h64 : e.t < 2 ^ 64) (hinv : e.inv = true)
    (d : Nat) (hd1 : 1 ≤ d) (polys : List (List Int)) (hpl : (polys.headD []).length = d + 1)
    (mapping : Option (List (List Nat))) (lazy : Bool) (L : Nat)
    (hnq : UnitS e (negQ e (L : Int)))
    (is : Nat) (his : UnitS e is) (ts : Nat) (hts : ts < e.t) (x : List Int) (tr : List String) (o : Opd)
    (hrun : run e polys mapping lazy L is ts x = (tr, "ok", some o)) : o.scale = ts ∧ o.level ≤ (L : Int) := by
  have ht : e.t ≠ 0 := t_ne_zero e
  have hdeg : (polys.headD []).length - 1 = d := by omega
  rw [run_eq] at hrun
  cases hex : ex (evaluate e polys mapping lazy L is ts x) {} with
  | mk r st =>
    rw [hex] at hrun
    cases r with
    | error er => simp only [Prod.mk.injEq] at hrun; exact absurd hrun.2.2 (by simp)
    | ok o' =>
      simp only [Prod.mk.injEq, Option.some.injEq] at hrun
      obtain ⟨_, _, rfl⟩ := hrun
      unfold evaluate at hex
      obtain ⟨_, s1, h1, h2⟩ := ex_bind_ok hex
      simp only [ex_setP, Prod.mk.injEq] at h1
      have hs1 : s1.pb.find? (·.1 == 1) = some (1, { level := (L : Int), scale := is, deg := 1, val := x }) := by
        rw [← h1.2]; simp
      obtain ⟨r, s2, hr, hev⟩ := evaluateFrom_subs e polys (by omega) mapping lazy ts _ s1 st o' hs1 h2
      simp only [hdeg] at hr
      have hsd : simDepth e d = 0 := by simp [simDepth, hinv]
      rw [hsd] at hr
      simp only [Nat.cast_zero, sub_zero] at hr
      have hpb := simInvB_simPowers e h64 hinv (L : Int) hnq d is his
      obtain ⟨hrl, hrs⟩ := recursePS_scale_bfv e h64 hinv (L : Int) hnq _ hpb _ _ _ _ r.1 r.2 hts hr
      obtain ⟨sp, hlast, hssc, hslv⟩ := recursePS_last e _ _ _ _ _ _ r.1 r.2 hr
      have := (post_evalSubs_inv e ht hinv mapping r.1).out s2 o' st hev sp hlast
      exact ⟨by rw [this.1, hssc, hrs], by rw [← hslv]; exact this.2⟩

end Lattigo.Model.PolyEval
