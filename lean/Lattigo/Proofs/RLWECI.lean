/-
  C03 — the conjugate-invariant carrier (`RQ` with `ci = true`).

  `Z_q[X + X⁻¹]/(X^{2n}+1)`: a row of `n` coefficients `c` stands for `c_0 + Σ_{i≥1} c_i (X^i + X^{-i})`,
  i.e. for the row `E c = (c_0, …, c_{n-1}, 0, −c_{n-1}, …, −c_1)` of `Z_q[X]/(X^{2n}+1)` (`RQ.ciRowEmbed`), and the
  product of the model is `take n (E a · E b)` (`RQ.ciRowMul`).  Proved here, for every odd `q ≥ 3` and `n ≥ 1`:

  * the rows `E c` are exactly the rows fixed by the conjugation `X ↦ X⁻¹ = X^{4n−1}` (`embed_fixed`,
    `fixed_shape`); hence the fixed rows are closed under the ring operations and `E (ciRowMul a b) = E a · E b`;
  * the well-formed conjugate-invariant values are the image of the SUBRING `Fix` of `WFPoly qs (2n)` fixed by
    `autRingHom (4n−1)` under an operation-preserving map `fold` (`fold_hom`, `fold_montHom`, `exists_fold`), so
    every identity of `Proofs/RLWE.lean` (a commutative ring is all they need) holds on this carrier.
-/
import Lattigo.Proofs.RPolyTransport
import Lattigo.Proofs.RLWE
import Mathlib.Data.List.GetD

set_option linter.unusedSectionVars false
set_option linter.unusedSimpArgs false

namespace Lattigo.RLWECI
open Lattigo Lattigo.RLWE Lattigo.RPolyRing Lattigo.Transport Polynomial Finset

/-- `−c mod q` as the model writes it -/
def ng (q c : ℕ) : ℕ := (q - c % q) % q

/-- `E c` by index -/
def emb (q n : ℕ) (x : List ℕ) : List ℕ :=
  (List.range (2 * n)).map fun k => if k < n then x.getD k 0 else if k = n then 0 else ng q (x.getD (2 * n - k) 0)

/-- the conjugate of a row of length `m`: `(w_0, −w_{m−1}, …, −w_1)` -/
def conj (q m : ℕ) (w : List ℕ) : List ℕ :=
  (List.range m).map fun k => if k = 0 then w.getD 0 0 else ng q (w.getD (m - k) 0)

theorem ext_getD {a b : List ℕ} (hl : a.length = b.length) (h : ∀ k < a.length, a.getD k 0 = b.getD k 0) : a = b := by
  apply List.ext_getElem hl
  intro k h1 h2
  have := h k h1
  simpa [List.getD_eq_getElem?_getD, h1, h2] using this

theorem getD_range_map (g : ℕ → ℕ) (m k : ℕ) (h : k < m) : ((List.range m).map g).getD k 0 = g k :=
  getD_map_range g m k h

theorem emb_length (q n : ℕ) (x : List ℕ) : (emb q n x).length = 2 * n := by simp [emb]
theorem conj_length (q m : ℕ) (w : List ℕ) : (conj q m w).length = m := by simp [conj]

theorem ng_lt {q : ℕ} (hq : 0 < q) (c : ℕ) : ng q c < q := Nat.mod_lt _ hq

theorem ng_ng {q c : ℕ} (hc : c < q) : ng q (ng q c) = c := by
  unfold ng
  rw [Nat.mod_eq_of_lt hc]
  by_cases h0 : c = 0
  · subst h0; simp
  · rw [Nat.mod_eq_of_lt (by omega : q - c < q), Nat.mod_eq_of_lt (by omega : q - c < q)]
    rw [Nat.mod_eq_of_lt (by omega)]; omega

theorem ng_zero {q : ℕ} (hq : 0 < q) : ng q 0 = 0 := by simp [ng]

theorem ng_self_zero {q c : ℕ} (hodd : q % 2 = 1) (hc : c < q) (h : ng q c = c) : c = 0 := by
  unfold ng at h
  rw [Nat.mod_eq_of_lt hc] at h
  by_cases h0 : c = 0
  · exact h0
  · rw [Nat.mod_eq_of_lt (by omega)] at h; omega

/-- the model's `ciRowEmbed` is `emb` -/
theorem ciRowEmbed_eq (q : ℕ) (x : List ℕ) : RQ.ciRowEmbed q x = emb q x.length x := by
  cases x with
  | nil => rfl
  | cons a tl =>
    apply ext_getD
    · simp [RQ.ciRowEmbed, emb]; omega
    · intro k hk
      have hlen : (RQ.ciRowEmbed q (a :: tl)).length = 2 * (tl.length + 1) := by simp [RQ.ciRowEmbed]; omega
      rw [hlen] at hk
      rw [show (a :: tl).length = tl.length + 1 from rfl, emb, getD_range_map _ _ _ hk]
      show ((a :: tl) ++ (0 :: (tl.reverse.map fun c => (q - c % q) % q))).getD k 0 = _
      by_cases h1 : k < tl.length + 1
      · rw [if_pos h1, List.getD_append _ _ _ _ (show k < (a :: tl).length from h1)]
      · rw [if_neg h1, List.getD_append_right _ _ _ _ (show (a :: tl).length ≤ k by simp; omega)]
        by_cases h2 : k = tl.length + 1
        · rw [if_pos h2, h2]; simp
        · rw [if_neg h2]
          obtain ⟨j, hj⟩ : ∃ j, k - (a :: tl).length = j + 1 := ⟨k - (tl.length + 1) - 1, by simp; omega⟩
          have hjl : j < tl.length := by simp at hj; omega
          rw [hj, List.getD_cons_succ, getD_map _ _ _ (by simpa using hjl), List.getD_reverse _ (by simpa using hjl)]
          have hidx : 2 * (tl.length + 1) - k = (tl.length - 1 - j) + 1 := by simp at hj; omega
          rw [hidx, List.getD_cons_succ]
          rfl

section rows
variable {q n : ℕ}

theorem emb_wf (hq : 0 < q) {x : List ℕ} (hx : RowWF q n x) : RowWF q (2 * n) (emb q n x) := by
  refine ⟨emb_length q n x, fun v hv => ?_⟩
  simp only [emb, List.mem_map, List.mem_range] at hv
  obtain ⟨k, hk, rfl⟩ := hv
  split
  · exact getD_lt_of_mem hx.lt k (by rw [hx.len]; assumption)
  · split
    · exact hq
    · exact ng_lt hq _

theorem conj_wf (hq : 0 < q) {m : ℕ} {w : List ℕ} (hw : RowWF q m w) (hm : 0 < m) : RowWF q m (conj q m w) := by
  refine ⟨conj_length q m w, fun v hv => ?_⟩
  simp only [conj, List.mem_map, List.mem_range] at hv
  obtain ⟨k, hk, rfl⟩ := hv
  split
  · exact getD_lt_of_mem hw.lt 0 (by rw [hw.len]; exact hm)
  · exact ng_lt hq _

/-- `take n (E x) = x` -/
theorem take_emb {x : List ℕ} (hx : x.length = n) : (emb q n x).take n = x := by
  apply ext_getD
  · simp [emb, hx]; omega
  · intro k hk
    have hk' : k < n := by simp [emb] at hk; omega
    have : ((emb q n x).take n).getD k 0 = (emb q n x).getD k 0 := by
      simp [List.getD_eq_getElem?_getD, List.getElem?_take, hk']
    rw [this, emb, getD_range_map _ _ _ (by omega), if_pos hk']

/-- the embedded rows are conjugation-fixed -/
theorem conj_emb (hq : 0 < q) (hn : 1 ≤ n) {x : List ℕ} (hx : RowWF q n x) : conj q (2 * n) (emb q n x) = emb q n x := by
  apply ext_getD
  · simp [conj, emb]
  · intro k hk
    have hk' : k < 2 * n := by simpa [conj] using hk
    rw [conj, getD_range_map _ _ _ hk']
    have hx0 : ∀ j, j < n → x.getD j 0 < q := fun j hj => getD_lt_of_mem hx.lt j (by rw [hx.len]; exact hj)
    by_cases h0 : k = 0
    · subst h0; rw [if_pos rfl]
    · rw [if_neg h0]
      have hm : 2 * n - k < 2 * n := by omega
      rw [emb, getD_range_map _ _ _ hm, getD_range_map _ _ _ hk']
      by_cases h1 : k < n
      · rw [if_pos h1, if_neg (by omega), if_neg (by omega)]
        rw [show 2 * n - (2 * n - k) = k by omega, ng_ng (hx0 k h1)]
      · rw [if_neg h1]
        by_cases h2 : k = n
        · rw [if_pos h2, if_neg (by omega), if_pos (by omega), ng_zero hq]
        · rw [if_neg h2, if_pos (by omega)]

/-- a conjugation-fixed row of length `2n` over an odd modulus is the embedding of its first half -/
theorem fixed_shape (hodd : q % 2 = 1) (hn : 1 ≤ n) {w : List ℕ} (hw : RowWF q (2 * n) w)
    (hfix : conj q (2 * n) w = w) : w = emb q n (w.take n) := by
  have hq : 0 < q := by omega
  have hget : ∀ k, 0 < k → k < 2 * n → w.getD k 0 = ng q (w.getD (2 * n - k) 0) := by
    intro k h0 hk
    have := congrArg (fun l => l.getD k 0) hfix
    simp only [conj] at this
    rw [getD_range_map _ _ _ hk, if_neg (by omega)] at this
    exact this.symm
  have hlt : ∀ k, k < 2 * n → w.getD k 0 < q := fun k hk => getD_lt_of_mem hw.lt k (by rw [hw.len]; exact hk)
  apply ext_getD
  · rw [emb_length, hw.len]
  · intro k hk
    rw [hw.len] at hk
    rw [emb, getD_range_map _ _ _ hk]
    have htake : ∀ j, j < n → (w.take n).getD j 0 = w.getD j 0 := by
      intro j hj
      simp [List.getD_eq_getElem?_getD, List.getElem?_take, hj]
    by_cases h1 : k < n
    · rw [if_pos h1, htake k h1]
    · rw [if_neg h1]
      by_cases h2 : k = n
      · rw [if_pos h2]
        have := hget n (by omega) (by omega)
        rw [show 2 * n - n = n by omega] at this
        rw [h2]
        exact ng_self_zero hodd (hlt n (by omega)) this.symm
      · rw [if_neg h2, htake _ (by omega)]
        exact hget k (by omega) hk

end rows

/-! ## the conjugation `X ↦ X^{2m−1} = X⁻¹` of `Z_q[X]/(X^m+1)` acts on rows as `conj` -/

section alg
variable {q m : ℕ}

theorem odd_conjExp (hm : 1 ≤ m) : Odd (2 * m - 1) := ⟨m - 1, by omega⟩

theorem cast_ng (hq : 0 < q) (c : ℕ) : ((ng q c : ℕ) : Rq q m) = -(c : Rq q m) := by
  unfold ng
  rw [cast_mod_eq natCast_q_Rq, Nat.cast_sub (le_of_lt (Nat.mod_lt _ hq)), natCast_q_Rq, zero_sub,
    cast_mod_eq natCast_q_Rq]

theorem conjExp_split (m i : ℕ) (h1 : 1 ≤ i) (hi : i < m) :
    i * (2 * m - 1) = m * (2 * (i - 1)) + m + (m - i) := by
  obtain ⟨j, rfl⟩ : ∃ j, i = j + 1 := ⟨i - 1, by omega⟩
  obtain ⟨d, rfl⟩ : ∃ d, m = j + 1 + d := ⟨m - (j + 1), by omega⟩
  have h2 : 2 * (j + 1 + d) - 1 = 2 * j + 2 * d + 1 := by omega
  have h3 : j + 1 + d - (j + 1) = d := by omega
  have h4 : j + 1 - 1 = j := by omega
  rw [h2, h3, h4]; ring

theorem root_pow_conj (i : ℕ) (h1 : 1 ≤ i) (hi : i < m) :
    (AdjoinRoot.root (X ^ m + 1 : (ZMod q)[X])) ^ (i * (2 * m - 1))
      = -(AdjoinRoot.root (X ^ m + 1 : (ZMod q)[X])) ^ (m - i) := by
  rw [conjExp_split m i h1 hi, pow_add, pow_add, pow_mul, root_pow_n, pow_mul, neg_one_sq, one_pow, one_mul,
    neg_one_mul]

/-- **conjugation of a row** -/
theorem conj_toQuot (hq : 0 < q) (hm : 1 ≤ m) (w : List ℕ) :
    autHom q m (2 * m - 1) (odd_conjExp hm) (toQuot q m w) = toQuot q m (conj q m w) := by
  rw [autHom_toQuot, toQuot_eq_evalRow]
  unfold evalRow
  obtain ⟨m', rfl⟩ : ∃ m', m = m' + 1 := ⟨m - 1, by omega⟩
  rw [sum_range_succ', sum_range_succ']
  congr 1
  · rw [← sum_range_reflect (fun k => (((conj q (m' + 1) w).getD (k + 1) 0 : ℕ) : Rq q (m' + 1))
        * (AdjoinRoot.root (X ^ (m' + 1) + 1 : (ZMod q)[X])) ^ (k + 1)) m']
    apply sum_congr rfl
    intro j hj
    have hj' := mem_range.1 hj
    have hk : m' - 1 - j + 1 < m' + 1 := by omega
    rw [conj, getD_range_map _ _ _ hk, if_neg (by omega), cast_ng hq,
      root_pow_conj (j + 1) (by omega) (by omega)]
    have e1 : m' + 1 - (m' - 1 - j + 1) = j + 1 := by omega
    have e2 : m' + 1 - (j + 1) = m' - 1 - j + 1 := by omega
    rw [e1, e2]; ring
  · rw [conj, getD_range_map _ _ _ (by omega), if_pos rfl, zero_mul]

end alg

/-! ## consequences on rows -/

section rowops
variable {q n : ℕ}

/-- a well-formed row of length `2n` whose class is fixed by the conjugation has the shape `E (take n ·)` -/
theorem shape_of_fixed (hq2 : 2 ≤ q) (hodd : q % 2 = 1) (hn : 1 ≤ n) {w : List ℕ} (hw : RowWF q (2 * n) w)
    (hfix : autHom q (2 * n) (2 * (2 * n) - 1) (odd_conjExp (by omega)) (toQuot q (2 * n) w) = toQuot q (2 * n) w) :
    w = emb q n (w.take n) := by
  rw [conj_toQuot (by omega) (by omega)] at hfix
  exact fixed_shape hodd hn hw (toQuot_inj hq2 (by omega) (conj_wf (by omega) hw (by omega)) hw hfix)

/-- the class of an embedded row is fixed -/
theorem emb_fixed (hq : 0 < q) (hn : 1 ≤ n) {x : List ℕ} (hx : RowWF q n x) :
    autHom q (2 * n) (2 * (2 * n) - 1) (odd_conjExp (by omega)) (toQuot q (2 * n) (emb q n x))
      = toQuot q (2 * n) (emb q n x) := by
  rw [conj_toQuot hq (by omega), conj_emb hq hn hx]

/-- **the conjugate-invariant product**: `E (ciRowMul a b) = E a · E b` (negacyclic product of length `2n`) -/
theorem emb_ciRowMul (hq2 : 2 ≤ q) (hodd : q % 2 = 1) (hn : 1 ≤ n) {a b : List ℕ} (ha : RowWF q n a) (hb : RowWF q n b) :
    emb q n (RQ.ciRowMul q a b) = RPoly.rowMul q (emb q n a) (emb q n b) := by
  have hq : 0 < q := by omega
  have hea := emb_wf hq ha
  have heb := emb_wf hq hb
  have hw : RowWF q (2 * n) (RPoly.rowMul q (emb q n a) (emb q n b)) := hea.mul _ hq
  have hfix : autHom q (2 * n) (2 * (2 * n) - 1) (odd_conjExp (by omega))
      (toQuot q (2 * n) (RPoly.rowMul q (emb q n a) (emb q n b)))
        = toQuot q (2 * n) (RPoly.rowMul q (emb q n a) (emb q n b)) := by
    rw [toQuot_rowMul hq _ _ hea.len, map_mul, emb_fixed hq hn ha, emb_fixed hq hn hb]
  have := shape_of_fixed hq2 hodd hn hw hfix
  rw [this]
  congr 1
  show (RPoly.rowMul q (RQ.ciRowEmbed q a) (RQ.ciRowEmbed q b)).take a.length = _
  rw [ciRowEmbed_eq, ciRowEmbed_eq, ha.len, hb.len]

theorem ciRowMul_wf (hq : 0 < q) {a b : List ℕ} (ha : RowWF q n a) (hb : RowWF q n b) :
    RowWF q n (RQ.ciRowMul q a b) := by
  have hw : RowWF q (2 * n) (RPoly.rowMul q (emb q n a) (emb q n b)) := (emb_wf hq ha).mul _ hq
  show RowWF q n ((RPoly.rowMul q (RQ.ciRowEmbed q a) (RQ.ciRowEmbed q b)).take a.length)
  rw [ciRowEmbed_eq, ciRowEmbed_eq, ha.len, hb.len]
  refine ⟨by rw [List.length_take, hw.len]; omega, fun v hv => hw.lt v (List.mem_of_mem_take hv)⟩

end rowops

/-! ## the carrier: conjugate-invariant values = image of the fixed subring of `WFPoly qs (2n)` -/

section carrier
variable {qs : List ℕ} {n : ℕ} [hg : Good qs n] [hg2 : Good qs (2 * n)]

theorem coprime_conjExp (m : ℕ) (hm : 1 ≤ m) : Nat.Coprime (2 * m - 1) m := by
  have h1 := Nat.gcd_dvd_left (2 * m - 1) m
  have h2 := Nat.gcd_dvd_right (2 * m - 1) m
  have h3 : Nat.gcd (2 * m - 1) m ∣ 2 * m := Dvd.dvd.mul_left h2 2
  have h4 := Nat.dvd_sub h3 h1
  rw [show 2 * m - (2 * m - 1) = 1 by omega] at h4
  exact Nat.dvd_one.mp h4

/-- the conjugation `X ↦ X⁻¹` as a ring endomorphism of `WFPoly qs (2n)` -/
noncomputable def conjHom : WFPoly qs (2 * n) →+* WFPoly qs (2 * n) :=
  WFPoly.autRingHom (2 * (2 * n) - 1) (odd_conjExp (by have := hg.n_pos; omega))
    (coprime_conjExp (2 * n) (by have := hg.n_pos; omega))

/-- the fixed subring -/
noncomputable def Fix : Subring (WFPoly qs (2 * n)) := RingHom.eqLocus (conjHom (qs := qs) (n := n)) (RingHom.id _)

theorem mem_Fix (z : WFPoly qs (2 * n)) : z ∈ Fix (qs := qs) (n := n) ↔ conjHom (qs := qs) (n := n) z = z := Iff.rfl

theorem toProd_conjHom (z : WFPoly qs (2 * n)) (i : Fin qs.length) :
    WFPoly.toProd (conjHom (qs := qs) (n := n) z) i
      = autHom (qs.get i) (2 * n) (2 * (2 * n) - 1) (odd_conjExp (by have := hg.n_pos; omega)) (WFPoly.toProd z i) :=
  WFPoly.toProd_aut _ _ (coprime_conjExp (2 * n) (by have := hg.n_pos; omega)) z i

/-- every row of a fixed element is the embedding of its first half -/
theorem fix_row (hodd : ∀ q ∈ qs, q % 2 = 1) {z : WFPoly qs (2 * n)} (hz : z ∈ Fix (qs := qs) (n := n))
    (i : Fin qs.length) :
    z.1.c.getD i [] = emb (qs.get i) n ((z.1.c.getD i []).take n) := by
  have hq2 : 2 ≤ qs.get i := hg.q_ge _ (List.get_mem _ _)
  have h' : WFPoly.toProd (conjHom (qs := qs) (n := n) z) i = WFPoly.toProd z i :=
    congrArg (fun w => WFPoly.toProd w i) ((mem_Fix z).1 hz)
  rw [toProd_conjHom] at h'
  exact shape_of_fixed hq2 (hodd _ (List.get_mem _ _)) hg.n_pos (z.row_wf' i) h'

/-- two values with the same moduli and the same rows are equal -/
theorem rpoly_ext {a b : RPoly} (hq : a.qs = b.qs) (hl : a.c.length = b.c.length)
    (h : ∀ i, i < a.c.length → a.c.getD i [] = b.c.getD i []) : a = b := by
  obtain ⟨aq, ac⟩ := a
  obtain ⟨bq, bc⟩ := b
  simp only at hq hl h
  subst hq
  congr 1
  apply List.ext_getElem hl
  intro i h1 h2
  have := h i h1
  simpa [List.getD_eq_getElem?_getD, h1, h2] using this

/-- row-wise unary map through a row-wise binary map -/
theorem mapRows_zipRows (t : ℕ → List ℕ → List ℕ) (f f' : ℕ → List ℕ → List ℕ → List ℕ) (a b : RPoly)
    (ha : a.c.length = a.qs.length) (hb : b.c.length = a.qs.length) (hqs : b.qs = a.qs)
    (h : ∀ i (hi : i < a.qs.length), t a.qs[i] (f a.qs[i] (a.c.getD i []) (b.c.getD i []))
      = f' a.qs[i] (t a.qs[i] (a.c.getD i [])) (t a.qs[i] (b.c.getD i []))) :
    RPoly.mapRows t (RPoly.zipRows f a b) = RPoly.zipRows f' (RPoly.mapRows t a) (RPoly.mapRows t b) := by
  have hz := zipRows_length f a b ha hb
  have hma := mapRows_length t a ha
  have hmb : (RPoly.mapRows t b).c.length = a.qs.length := by rw [mapRows_length t b (by rw [hb, hqs]), hqs]
  refine rpoly_ext (a := RPoly.mapRows t (RPoly.zipRows f a b))
    (b := RPoly.zipRows f' (RPoly.mapRows t a) (RPoly.mapRows t b)) rfl ?_ ?_
  · rw [mapRows_length t _ (by rw [hz]; rfl), zipRows_length f' _ _ (by rw [hma]; rfl) (by rw [hmb]; rfl)]; rfl
  · intro i hi
    have hi' : i < a.qs.length := by
      rw [mapRows_length t _ (by rw [hz]; rfl)] at hi; exact hi
    have e1 : (RPoly.mapRows t (RPoly.zipRows f a b)).c.getD i [] = t a.qs[i] ((RPoly.zipRows f a b).c.getD i []) :=
      mapRows_getD t (RPoly.zipRows f a b) hz i hi'
    have e2 := zipRows_getD f a b ha hb i hi'
    have e3 : (RPoly.zipRows f' (RPoly.mapRows t a) (RPoly.mapRows t b)).c.getD i []
        = f' a.qs[i] ((RPoly.mapRows t a).c.getD i []) ((RPoly.mapRows t b).c.getD i []) :=
      zipRows_getD f' (RPoly.mapRows t a) (RPoly.mapRows t b) hma hmb i hi'
    have e4 := mapRows_getD t a ha i hi'
    have hib : i < b.qs.length := by rw [hqs]; exact hi'
    have e5 := mapRows_getD t b (by rw [hb, hqs]) i hib
    have e6 : b.qs[i] = a.qs[i] := by simp only [hqs]
    rw [e1, e2, e3, e4, e5, e6]
    exact h i hi'

theorem mapRows_mapRows (t s t' s' : ℕ → List ℕ → List ℕ) (a : RPoly) (ha : a.c.length = a.qs.length)
    (h : ∀ i (hi : i < a.qs.length), t a.qs[i] (s a.qs[i] (a.c.getD i [])) = s' a.qs[i] (t' a.qs[i] (a.c.getD i []))) :
    RPoly.mapRows t (RPoly.mapRows s a) = RPoly.mapRows s' (RPoly.mapRows t' a) := by
  have h1 := mapRows_length s a ha
  have h2 := mapRows_length t' a ha
  refine rpoly_ext (a := RPoly.mapRows t (RPoly.mapRows s a)) (b := RPoly.mapRows s' (RPoly.mapRows t' a)) rfl ?_ ?_
  · rw [mapRows_length t _ (by rw [h1]; rfl), mapRows_length s' _ (by rw [h2]; rfl)]; rfl
  · intro i hi
    have hi' : i < a.qs.length := by rw [mapRows_length t _ (by rw [h1]; rfl)] at hi; exact hi
    have e1 : (RPoly.mapRows t (RPoly.mapRows s a)).c.getD i [] = t a.qs[i] ((RPoly.mapRows s a).c.getD i []) :=
      mapRows_getD t (RPoly.mapRows s a) h1 i hi'
    have e2 := mapRows_getD s a ha i hi'
    have e3 : (RPoly.mapRows s' (RPoly.mapRows t' a)).c.getD i [] = s' a.qs[i] ((RPoly.mapRows t' a).c.getD i []) :=
      mapRows_getD s' (RPoly.mapRows t' a) h2 i hi'
    have e4 := mapRows_getD t' a ha i hi'
    rw [e1, e2, e3, e4]
    exact h i hi'

/-- first halves of the rows, tagged conjugate-invariant -/
def fold (z : WFPoly qs (2 * n)) : RQ := ⟨true, RPoly.mapRows (fun _ r => r.take n) z.1⟩

/-- the embedding of a well-formed conjugate-invariant value -/
def unfoldP (p : RPoly) : RPoly := RPoly.mapRows (fun q r => emb q n r) p

theorem unfoldP_wf {p : RPoly} (hp : WFq qs n p) : WFq qs (2 * n) (unfoldP (n := n) p) := by
  refine ⟨hp.1, mapRows_length _ _ hp.2.1, fun i hi => ?_⟩
  have hi' : i < p.qs.length := hi
  show RowWF _ _ ((RPoly.mapRows (fun q r => emb q n r) p).c.getD i [])
  rw [mapRows_getD _ _ hp.2.1 i hi']
  have hq : 2 ≤ p.qs[i] := hg.q_ge_of_eq _ hp.1 i hi'
  exact emb_wf (Nat.lt_of_lt_of_le (by decide) hq) (hp.2.2 i hi')

/-- `fix_row` with a natural-number index -/
theorem fix_row' (hodd : ∀ q ∈ qs, q % 2 = 1) {z : WFPoly qs (2 * n)} (hz : z ∈ Fix (qs := qs) (n := n))
    (i : ℕ) (hi : i < z.1.qs.length) :
    z.1.c.getD i [] = emb z.1.qs[i] n ((z.1.c.getD i []).take n) := by
  have hi' : i < qs.length := by rw [← z.2.1]; exact hi
  have e : z.1.qs[i] = qs.get ⟨i, hi'⟩ := by simp only [z.2.1, List.get_eq_getElem]
  rw [e]
  exact fix_row hodd hz ⟨i, hi'⟩

theorem row_len (z : WFPoly qs (2 * n)) (i : ℕ) (hi : i < z.1.qs.length) : (z.1.c.getD i []).length = 2 * n :=
  (z.row_wf i hi).len

theorem c_len' (z z' : WFPoly qs (2 * n)) : z'.1.c.length = z.1.qs.length := by rw [z'.c_length, z'.2.1, z.2.1]
theorem qs_eq' (z z' : WFPoly qs (2 * n)) : z'.1.qs = z.1.qs := by rw [z'.2.1, z.2.1]

theorem fold_add (z z' : WFPoly qs (2 * n)) : fold (n := n) (z + z') = fold z + fold z' := by
  show (⟨true, _⟩ : RQ) = ⟨true, _⟩
  congr 1
  exact mapRows_zipRows _ RPoly.rowAdd RPoly.rowAdd z.1 z'.1 z.c_length (c_len' z z') (qs_eq' z z')
    (fun i _ => List.take_zipWith)

theorem fold_sub (z z' : WFPoly qs (2 * n)) : fold (n := n) (z - z') = fold z - fold z' := by
  show (⟨true, _⟩ : RQ) = ⟨true, _⟩
  congr 1
  exact mapRows_zipRows _ RPoly.rowSub RPoly.rowSub z.1 z'.1 z.c_length (c_len' z z') (qs_eq' z z')
    (fun i _ => List.take_zipWith)

theorem fold_neg (z : WFPoly qs (2 * n)) : fold (n := n) (-z) = -fold z := by
  show (⟨true, _⟩ : RQ) = ⟨true, _⟩
  congr 1
  exact mapRows_mapRows (fun _ r => r.take n) RPoly.rowNeg (fun _ r => r.take n) RPoly.rowNeg z.1 z.c_length
    (fun i _ => by
      show (List.map _ _).take n = List.map _ (List.take n _)
      exact List.map_take.symm)

/-- **the product of the conjugate-invariant carrier is the product of the fixed subring** -/
theorem fold_mul (hodd : ∀ q ∈ qs, q % 2 = 1) {z z' : WFPoly qs (2 * n)} (hz : z ∈ Fix (qs := qs) (n := n))
    (hz' : z' ∈ Fix (qs := qs) (n := n)) : fold (n := n) (z * z') = fold z * fold z' := by
  show (⟨true, _⟩ : RQ) = ⟨true, _⟩
  congr 1
  refine mapRows_zipRows _ RPoly.rowMul RQ.ciRowMul z.1 z'.1 z.c_length (c_len' z z') (qs_eq' z z') (fun i hi => ?_)
  have hi2 : i < z'.1.qs.length := by rw [qs_eq' z z']; exact hi
  have hx := fix_row' hodd hz i hi
  have hy := fix_row' hodd hz' i hi2
  have e : z'.1.qs[i] = z.1.qs[i] := by simp only [qs_eq' z z']
  rw [e] at hy
  have lx : ((z.1.c.getD i []).take n).length = n := by rw [List.length_take, row_len z i hi]; omega
  have ly : ((z'.1.c.getD i []).take n).length = n := by rw [List.length_take, row_len z' i hi2]; omega
  show _ = ((RPoly.rowMul _ (RQ.ciRowEmbed _ _) (RQ.ciRowEmbed _ _))).take _
  rw [ciRowEmbed_eq, ciRowEmbed_eq, lx, ly, ← hx, ← hy]

/-- scalar rows commute with taking the first half -/
theorem fold_scaleBy (k : ℕ → ℕ) (z : WFPoly qs (2 * n)) :
    fold (n := n) (WFPoly.scaleBy k z)
      = ⟨true, RPoly.mapRows (fun q x => RPoly.rowScale (k q) q x) (fold (n := n) z).p⟩ := by
  show (⟨true, _⟩ : RQ) = ⟨true, _⟩
  congr 1
  exact mapRows_mapRows (fun _ r => r.take n) (fun q x => RPoly.rowScale (k q) q x) (fun _ r => r.take n)
    (fun q x => RPoly.rowScale (k q) q x) z.1 z.c_length
    (fun i _ => by
      show (List.map _ _).take n = List.map _ (List.take n _)
      exact List.map_take.symm)

theorem conj_constNat (k : ℕ → ℕ) :
    conjHom (qs := qs) (n := n) (WFPoly.constNat k) = WFPoly.constNat k := by
  apply WFPoly.toProd_injective
  funext i
  rw [toProd_conjHom, WFPoly.toProd_constNat, map_natCast]

theorem scaleBy_mem (k : ℕ → ℕ) {z : WFPoly qs (2 * n)} (hz : z ∈ Fix (qs := qs) (n := n)) :
    WFPoly.scaleBy k z ∈ Fix (qs := qs) (n := n) := by
  rw [mem_Fix, WFPoly.scaleBy_eq_mul, map_mul, (mem_Fix z).1 hz, conj_constNat]

theorem constNat_mem (k : ℕ → ℕ) : WFPoly.constNat k ∈ Fix (qs := qs) (n := n) := conj_constNat k

/-- the embedding of a well-formed conjugate-invariant value is fixed -/
theorem unfold_mem {p : RPoly} (hp : WFq qs n p) :
    (lift (unfoldP (n := n) p) (unfoldP_wf hp) : WFPoly qs (2 * n)) ∈ Fix (qs := qs) (n := n) := by
  refine (mem_Fix _).2 ?_
  apply WFPoly.toProd_injective
  funext i
  rw [toProd_conjHom (lift (unfoldP (n := n) p) (unfoldP_wf hp)) i]
  have hi : i.1 < p.qs.length := by rw [hp.1]; exact i.2
  have hrow : (unfoldP (n := n) p).c.getD i [] = emb (qs.get i) n (p.c.getD i []) := by
    show (RPoly.mapRows (fun q r => emb q n r) p).c.getD i [] = _
    rw [mapRows_getD _ _ hp.2.1 i hi]
    congr 1
    simp only [hp.1, List.get_eq_getElem]
  show autHom _ _ _ _ (toQuot _ _ ((unfoldP (n := n) p).c.getD i [])) = toQuot _ _ ((unfoldP (n := n) p).c.getD i [])
  rw [hrow]
  have hq : 2 ≤ qs.get i := hg.q_ge _ (List.get_mem _ _)
  have hw : RowWF (qs.get i) n (p.c.getD i []) := by
    have := hp.2.2 i hi
    have e : p.qs[i.1] = qs.get i := by simp only [hp.1, List.get_eq_getElem]
    rw [e] at this; exact this
  exact emb_fixed (by omega) hg.n_pos hw

theorem fold_unfold {p : RPoly} (hp : WFq qs n p) :
    fold (n := n) (lift (unfoldP (n := n) p) (unfoldP_wf hp) : WFPoly qs (2 * n)) = ⟨true, p⟩ := by
  show (⟨true, _⟩ : RQ) = ⟨true, _⟩
  congr 1
  refine rpoly_ext (a := RPoly.mapRows (fun _ r => r.take n) (unfoldP (n := n) p)) (b := p) rfl ?_ ?_
  · have h1 : (unfoldP (n := n) p).c.length = (unfoldP (n := n) p).qs.length := mapRows_length _ p hp.2.1
    rw [mapRows_length _ (unfoldP (n := n) p) h1, hp.2.1]; rfl
  · intro i hi
    have h1 : (unfoldP (n := n) p).c.length = (unfoldP (n := n) p).qs.length := mapRows_length _ p hp.2.1
    have hi' : i < p.qs.length := by
      rw [mapRows_length _ (unfoldP (n := n) p) h1] at hi; exact hi
    have e1 : (RPoly.mapRows (fun _ r => r.take n) (unfoldP (n := n) p)).c.getD i []
        = ((unfoldP (n := n) p).c.getD i []).take n :=
      mapRows_getD _ (unfoldP (n := n) p) (mapRows_length _ _ hp.2.1) i hi'
    have e2 : (unfoldP (n := n) p).c.getD i [] = emb p.qs[i] n (p.c.getD i []) := mapRows_getD _ p hp.2.1 i hi'
    rw [e1, e2, take_emb (hp.2.2 i hi').len]

end carrier

/-! ## the commutative ring `CI qs n` and the operation-preserving map onto the conjugate-invariant values -/

section ring
variable {qs : List ℕ} {n : ℕ} [hg : Good qs n] [hg2 : Good qs (2 * n)]

/-- the carrier as a commutative ring -/
abbrev CI (qs : List ℕ) (n : ℕ) [Good qs n] [Good qs (2 * n)] : Type := ↥(Fix (qs := qs) (n := n))

/-- an element of the ring as a conjugate-invariant `RQ` value -/
def foldC (z : CI qs n) : RQ := fold (n := n) z.1

theorem foldC_hom (hodd : ∀ q ∈ qs, q % 2 = 1) : OpsHom (foldC (qs := qs) (n := n)) :=
  ⟨fun x y => fold_add x.1 y.1, fun x y => fold_mul hodd x.2 y.2, fun x => fold_neg x.1, fun x y => fold_sub x.1 y.1⟩

/-- the Montgomery conversions on the ring -/
noncomputable def montC : Mont (CI qs n) where
  toM := fun z => ⟨WFPoly.mont.toM z.1, scaleBy_mem _ z.2⟩
  ofM := fun z => ⟨WFPoly.mont.ofM z.1, scaleBy_mem _ z.2⟩

theorem foldC_montHom : MontHom (foldC (qs := qs) (n := n)) montC RQ.mont :=
  ⟨fun z => fold_scaleBy _ z.1, fun z => fold_scaleBy _ z.1⟩

theorem isMont_montC (hodd : ∀ q ∈ qs, q % 2 = 1) :
    IsMont (montC (qs := qs) (n := n)) ⟨WFPoly.constNat fun q => RQ.Rword % q, constNat_mem _⟩
      ⟨WFPoly.constNat fun q => RPoly.modInv (RQ.Rword % q) q, constNat_mem _⟩ := by
  have h := WFPoly.isMont_mont_of_odd (qs := qs) (n := 2 * n) hodd
  exact ⟨Subtype.ext h.inv, fun x => Subtype.ext (h.toM x.1), fun x => Subtype.ext (h.ofM x.1)⟩

/-- every well-formed conjugate-invariant value is the image of a ring element -/
theorem exists_foldC (p : RPoly) (hp : WFq qs n p) : ∃ z : CI qs n, foldC z = ⟨true, p⟩ :=
  ⟨⟨lift (unfoldP (n := n) p) (unfoldP_wf hp), unfold_mem hp⟩, fold_unfold hp⟩

end ring

end Lattigo.RLWECI
