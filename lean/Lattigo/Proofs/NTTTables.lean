import Lattigo.Proofs.NTTMul
import Mathlib.FieldTheory.Finite.Basic

/-!
  # The NTT tables computed by `mkTables` satisfy the table invariant (property C01, WP-N)

  `bitRev` is an involution; `modExp` is modular exponentiation; `genRoots` puts `ψ^j` (Montgomery
  form) at index `brv(j)`; hence `mkTables_valid` (**tables_invariant**).
-/
namespace Lattigo.NTT
open Lattigo Lattigo.Gen

/-! ### bit reversal -/

theorem bitRev_succ_last (i L : ℕ) : bitRev i (L + 1) = bitRev i L * 2 + (i / 2 ^ L) % 2 := by
  unfold bitRev
  rw [List.range_succ, List.foldl_append]
  rfl

theorem bitRev_zero_len (i : ℕ) : bitRev i 0 = 0 := rfl

theorem bitRev_succ_first : ∀ (L i : ℕ), bitRev i (L + 1) = (i % 2) * 2 ^ L + bitRev (i / 2) L
  | 0, i => by simp [bitRev_succ_last, bitRev_zero_len]
  | L + 1, i => by
    rw [bitRev_succ_last i (L + 1), bitRev_succ_first L i, bitRev_succ_last (i / 2) L,
      Nat.div_div_eq_div_mul, ← Nat.pow_succ']
    rw [Nat.pow_succ 2 L]
    ring

theorem bitRev_lt : ∀ (L i : ℕ), bitRev i L < 2 ^ L
  | 0, i => by simp [bitRev_zero_len]
  | L + 1, i => by
    have := bitRev_lt L i
    rw [bitRev_succ_last, Nat.pow_succ]
    omega

theorem bitRev_mod : ∀ (L i : ℕ), bitRev (i % 2 ^ L) L = bitRev i L
  | 0, i => rfl
  | L + 1, i => by
    rw [bitRev_succ_first, bitRev_succ_first L i, Nat.pow_succ', Nat.mod_mul_right_mod,
      Nat.mod_mul_right_div_self, bitRev_mod L (i / 2)]

theorem bitRev_zero : ∀ L : ℕ, bitRev 0 L = 0
  | 0 => rfl
  | L + 1 => by rw [bitRev_succ_last, bitRev_zero L]; simp

/-- bit reversal on `L` bits is an involution on `[0, 2^L)` -/
theorem bitRev_invol : ∀ (L i : ℕ), i < 2 ^ L → bitRev (bitRev i L) L = i
  | 0, i, h => by simp at h; subst h; rfl
  | L + 1, i, h => by
    have hb := bitRev_lt L (i / 2)
    have hi2 : i / 2 < 2 ^ L := by rw [Nat.pow_succ] at h; omega
    rw [bitRev_succ_first L i, bitRev_succ_last, ← bitRev_mod L, Nat.mul_add_mod_self_right,
      Nat.mod_eq_of_lt hb, bitRev_invol L (i / 2) hi2]
    have : (i % 2 * 2 ^ L + bitRev (i / 2) L) / 2 ^ L = i % 2 := by
      rw [Nat.mul_comm, Nat.mul_add_div (Nat.two_pow_pos L), Nat.div_eq_of_lt hb]; omega
    rw [this]; omega

theorem bitRev_inj (L i j : ℕ) (hi : i < 2 ^ L) (hj : j < 2 ^ L) (h : bitRev i L = bitRev j L) :
    i = j := by
  rw [← bitRev_invol L i hi, ← bitRev_invol L j hj, h]

/-- `2·brv(2i) = brv(i)` -/
theorem bitRev_even (L i : ℕ) (h : 2 * i < 2 ^ (L + 1)) :
    2 * bitRev (2 * i) (L + 1) = bitRev i (L + 1) := by
  have hi : i < 2 ^ L := by rw [Nat.pow_succ] at h; omega
  rw [bitRev_succ_first L (2 * i), bitRev_succ_last i L, Nat.div_eq_of_lt hi]
  have : 2 * i / 2 = i := by omega
  rw [this]; simp; omega

/-- `2·brv(2i+1) = 2^L + brv(i)` -/
theorem bitRev_odd (L i : ℕ) (h : 2 * i + 1 < 2 ^ (L + 1)) :
    2 * bitRev (2 * i + 1) (L + 1) = 2 ^ (L + 1) + bitRev i (L + 1) := by
  have hi : i < 2 ^ L := by rw [Nat.pow_succ] at h; omega
  rw [bitRev_succ_first L (2 * i + 1), bitRev_succ_last i L, Nat.div_eq_of_lt hi]
  have h1 : (2 * i + 1) / 2 = i := by omega
  have h2 : (2 * i + 1) % 2 = 1 := by omega
  rw [h1, h2, Nat.pow_succ]; omega

theorem bitRev_one (L : ℕ) : bitRev 1 (L + 1) = 2 ^ L := by
  rw [bitRev_succ_first]; simp [bitRev_zero]


/-! ### `modExp` -/

theorem modExp_go_spec (p : ℕ) : ∀ (fuel x e r : ℕ), e < 2 ^ fuel → r < p →
    modExp.go p fuel x e r = (r * x ^ e) % p
  | 0, x, e, r, he, hr => by
    have : e = 0 := by simpa using he
    subst this
    simp [modExp.go, Nat.mod_eq_of_lt hr]
  | fuel + 1, x, e, r, he, hr => by
    unfold modExp.go
    by_cases h0 : e = 0
    · subst h0; simp [Nat.mod_eq_of_lt hr]
    · rw [if_neg h0]
      have hp : 0 < p := by omega
      have he2 : e / 2 < 2 ^ fuel := by rw [Nat.pow_succ] at he; omega
      have hr' : (if e % 2 = 1 then r * x % p else r) < p := by
        split
        · exact Nat.mod_lt _ hp
        · exact hr
      rw [modExp_go_spec p fuel _ _ _ he2 hr']
      have hsq : (x * x % p) ^ (e / 2) % p = (x ^ (2 * (e / 2))) % p := by
        rw [← Nat.pow_mod, pow_mul, pow_two]
      have hd := Nat.div_add_mod e 2
      by_cases h1 : e % 2 = 1
      · rw [if_pos h1]
        have he' : e = 2 * (e / 2) + 1 := by omega
        conv_rhs => rw [he', pow_succ]
        rw [Nat.mul_mod, Nat.mod_mod, hsq, ← Nat.mul_mod]
        congr 1; ring
      · rw [if_neg h1]
        have he' : e = 2 * (e / 2) := by omega
        conv_rhs => rw [he']
        rw [Nat.mul_mod, hsq, ← Nat.mul_mod]

/-- `modExp x e p = x^e mod p` for every 64-bit exponent -/
theorem modExp_spec (x e p : ℕ) (hp : 0 < p) (he : e < 2 ^ 64) : modExp x e p = x ^ e % p := by
  unfold modExp
  rw [modExp_go_spec p 64 _ _ _ he (Nat.mod_lt _ hp), Nat.mul_mod, Nat.mod_mod, ← Nat.pow_mod,
    ← Nat.mul_mod, Nat.one_mul]


/-! ### `genRoots` -/

theorem get!_set!_self (arr : Array ℕ) (i v : ℕ) (h : i < arr.size) : (arr.set! i v)[i]! = v := by
  simp [h]

theorem get!_set!_ne (arr : Array ℕ) (i j v : ℕ) (h : i ≠ j) : (arr.set! i v)[j]! = arr[j]! := by
  simp [Array.getElem!_eq_getD, Array.getD_eq_getD_getElem?, Array.getElem?_setIfInBounds_ne h]

/-- the sequence of successive Montgomery products: `v 0 = one`, `v (j+1) = MRed (v j) ψ` -/
def vseq (q qinv one psiMont : ℕ) : ℕ → ℕ
  | 0 => one
  | j + 1 => MRed (vseq q qinv one psiMont j) psiMont q qinv

/-- the loop body of `genRoots` with projections instead of the pattern match -/
def genStep (q qinv L psiMont : ℕ) (st : Array ℕ × ℕ) (jm1 : ℕ) : Array ℕ × ℕ :=
  (st.1.set! (bitRev (jm1 + 1) L) (MRed st.2 psiMont q qinv), MRed st.2 psiMont q qinv)

theorem genRoots_eq (q qinv : ℕ) (bred : ℕ × ℕ) (nthRoot psiMont : ℕ) :
    genRoots q qinv bred nthRoot psiMont
      = ((List.range (nthRoot / 2 - 1)).foldl (genStep q qinv (Nat.log2 (nthRoot / 2)) psiMont)
          ((Array.replicate (nthRoot / 2) 0).set! 0 (MForm 1 q bred), MForm 1 q bred)).1 := rfl

theorem vseq_pred (q qinv one psiMont : ℕ) (P : ℕ → Prop) (hone : P one)
    (hstep : ∀ x, P x → P (MRed x psiMont q qinv)) : ∀ j, P (vseq q qinv one psiMont j)
  | 0 => hone
  | j + 1 => hstep _ (vseq_pred q qinv one psiMont P hone hstep j)

theorem genFold_spec (q qinv L psiMont one : ℕ) (P : ℕ → Prop) (hone : P one) (h0 : P 0)
    (hstep : ∀ x, P x → P (MRed x psiMont q qinv)) :
    ∀ t, t + 1 ≤ 2 ^ L →
      let st := (List.range t).foldl (genStep q qinv L psiMont)
          ((Array.replicate (2 ^ L) 0).set! 0 one, one)
      st.2 = vseq q qinv one psiMont t ∧ st.1.size = 2 ^ L
      ∧ (∀ j, j ≤ t → st.1[bitRev j L]! = vseq q qinv one psiMont j)
      ∧ (∀ idx : ℕ, P st.1[idx]!)
  | 0, h => by
    simp only [List.range_zero, List.foldl_nil]
    refine ⟨rfl, by simp, ?_, ?_⟩
    · intro j hj
      have : j = 0 := by omega
      subst this
      rw [bitRev_zero]
      exact get!_set!_self _ _ _ (by simp)
    · intro idx
      by_cases hi0 : idx = 0
      · subst hi0; rw [get!_set!_self _ _ _ (by simp)]; exact hone
      · rw [get!_set!_ne _ _ _ _ (Ne.symm hi0)]
        by_cases hi : idx < 2 ^ L
        · simp [hi, h0]
        · simp [hi, h0]
  | t + 1, h => by
    obtain ⟨h1, h2, h3, h4⟩ := genFold_spec q qinv L psiMont one P hone h0 hstep t (by omega)
    simp only [List.range_succ, List.foldl_append, List.foldl_cons, List.foldl_nil]
    generalize (List.range t).foldl (genStep q qinv L psiMont)
      ((Array.replicate (2 ^ L) 0).set! 0 one, one) = st at *
    simp only [genStep]
    rw [h1]
    have hb := bitRev_lt L (t + 1)
    refine ⟨rfl, by simp [h2], ?_, ?_⟩
    · intro j hj
      by_cases hjt : j = t + 1
      · subst hjt
        exact get!_set!_self _ _ _ (by rw [h2]; exact hb)
      · have hne : bitRev (t + 1) L ≠ bitRev j L := by
          intro he
          exact hjt (bitRev_inj L j (t + 1) (by omega) (by omega) he.symm)
        rw [get!_set!_ne _ _ _ _ hne]
        exact h3 j (by omega)
    · intro idx
      by_cases hi0 : idx = bitRev (t + 1) L
      · subst hi0; rw [get!_set!_self _ _ _ (by rw [h2]; exact hb)]
        exact hstep _ (vseq_pred q qinv one psiMont P hone hstep t)
      · rw [get!_set!_ne _ _ _ _ (Ne.symm hi0)]; exact h4 idx

theorem vseq_spec {q : ℕ} [Fact q.Prime] (qinv one psiMont : ℕ) (h2 : 2 * q ≤ W)
    (hm : MontConst q qinv) (hone : one < q) (hpsi : psiMont < q) :
    ∀ j, vseq q qinv one psiMont j < q
      ∧ ((vseq q qinv one psiMont j : ℕ) : ZMod q)
          = (one : ZMod q) * ((psiMont : ZMod q) * (W : ZMod q)⁻¹) ^ j
  | 0 => ⟨hone, by simp [vseq]⟩
  | j + 1 => by
    obtain ⟨h1, hc⟩ := vseq_spec qinv one psiMont h2 hm hone hpsi j
    have hxy : vseq q qinv one psiMont j * psiMont < q * W := by
      rw [Nat.mul_comm q W]; exact Nat.mul_lt_mul'' (by omega) hpsi
    refine ⟨(MRed_spec _ _ q qinv h2 hm hxy).2, ?_⟩
    show ((MRed (vseq q qinv one psiMont j) psiMont q qinv : ℕ) : ZMod q) = _
    rw [MRed_cast _ _ qinv h2 hm hxy, hc, pow_succ]; ring

/-- **Characterisation of `genRoots`** for `nthRoot = 2^(K+1)`: the table has all entries `< q` and,
stripped of the Montgomery factor, entry `idx < 2^K` is `ψ^{brv_K(idx)}` where
`ψ = psiMont·W⁻¹`. -/
theorem genRoots_spec {q : ℕ} [Fact q.Prime] (qinv K psiMont : ℕ) (h2 : 2 * q ≤ W)
    (hm : MontConst q qinv) (hpsi : psiMont < q) :
    RootsLt (genRoots q qinv (brc q) (2 ^ (K + 1)) psiMont) q
    ∧ ∀ idx, idx < 2 ^ K →
        rho q (genRoots q qinv (brc q) (2 ^ (K + 1)) psiMont) idx
          = ((psiMont : ZMod q) * (W : ZMod q)⁻¹) ^ bitRev idx K := by
  have hq1 : 1 < q := (Fact.out : q.Prime).one_lt
  have hW := W_ne_zero (q := q) hm.odd
  have hone : MForm 1 q (brc q) = (1 * W) % q := MForm_spec 1 q hq1 h2 (by decide)
  have hone_lt : MForm 1 q (brc q) < q := by rw [hone]; exact Nat.mod_lt _ (by omega)
  have hhalf : 2 ^ (K + 1) / 2 = 2 ^ K := by rw [Nat.pow_succ]; omega
  have hstep : ∀ x, x < q → MRed x psiMont q qinv < q := by
    intro x hx
    exact (MRed_spec x psiMont q qinv h2 hm
      (by rw [Nat.mul_comm q W]; exact Nat.mul_lt_mul'' (by omega) hpsi)).2
  obtain ⟨_, hsize, hget, hlt⟩ := genFold_spec q qinv K psiMont (MForm 1 q (brc q)) (· < q)
    hone_lt (by omega) hstep (2 ^ K - 1) (by have := Nat.two_pow_pos K; omega)
  have hlog : Nat.log2 (2 ^ K) = K := Nat.log2_two_pow
  rw [genRoots_eq, hhalf, hlog]
  refine ⟨hlt, ?_⟩
  intro idx hidx
  have hb := bitRev_lt K idx
  have h := hget (bitRev idx K) (by omega)
  rw [bitRev_invol K idx hidx] at h
  unfold rho
  rw [h, (vseq_spec qinv _ psiMont h2 hm hone_lt hpsi _).2, hone, ZMod.natCast_mod, Nat.one_mul]
  rw [mul_comm, ← mul_assoc, inv_mul_cancel₀ hW, one_mul]


/-! ### `mkTables` -/

theorem natCast_mod_eq_of_cast_eq {q a b : ℕ} (h : ((a : ℕ) : ZMod q) = (b : ZMod q)) :
    a % q = b % q := (ZMod.natCast_eq_natCast_iff' a b q).1 h

/-- Montgomery form of a residue, in `Z_q` -/
theorem MForm_cast {q : ℕ} [Fact q.Prime] (a : ℕ) (h2 : 2 * q ≤ W) (ha : a < W) :
    MForm a q (brc q) < q ∧ ((MForm a q (brc q) : ℕ) : ZMod q) = (a : ZMod q) * (W : ZMod q) := by
  have hq1 : 1 < q := (Fact.out : q.Prime).one_lt
  rw [MForm_spec a q hq1 h2 ha]
  exact ⟨Nat.mod_lt _ (by omega), by rw [ZMod.natCast_mod, Nat.cast_mul]⟩

/-- **tables_invariant.**  For a prime `q` with `8q ≤ 2^64` and `q ≡ 1 (mod 2^(K+1))`, and `g` a
quadratic non-residue mod `q` (`g^((q−1)/2) ≡ −1`; every primitive root is one), the tables computed
by `mkTables n q (2^(K+1)) g` (the model of `generateNTTConstants`; `n` only fills the field `T.n`:
`n = 2^K` for the standard ring, `n = 2^(K−1)` for the conjugate-invariant ring) satisfy all the hypotheses
`Valid` used by `intt_ntt`/`ntt_range` and the table invariant used by `fwd_sem`/`ntt_mul`:
`ψ = g^((q−1)/2^(K+1))` has `ψ^(2^K) = −1`, `rootsF[j] = ψ^{brv_K(j)}·W`, `rootsB[j] = ψ^{−brv_K(j)}·W`,
`nInv = (2^K)⁻¹·W (mod q)`. -/
theorem mkTables_core (n K q g : ℕ) (hq : q.Prime) (h8 : 8 * q ≤ W) (hdiv : 2 ^ (K + 1) ∣ q - 1)
    (hg : g ^ ((q - 1) / 2) % q = q - 1) :
    MontConst q (GenMRedConstant q)
    ∧ RootsLt (mkTables n q (2 ^ (K + 1)) g).rootsF q
    ∧ RootsLt (mkTables n q (2 ^ (K + 1)) g).rootsB q
    ∧ (∀ j, j < 2 ^ K → ((mkTables n q (2 ^ (K + 1)) g).rootsF[j]!
          * (mkTables n q (2 ^ (K + 1)) g).rootsB[j]!) % q = (W * W) % q)
    ∧ (mkTables n q (2 ^ (K + 1)) g).nInv < q
    ∧ ((mkTables n q (2 ^ (K + 1)) g).nInv * 2 ^ K) % q = W % q
    ∧ TableInv (rho q (mkTables n q (2 ^ (K + 1)) g).rootsF) (2 ^ K)
    ∧ (((g : ℕ) : ZMod q) ^ ((q - 1) / 2 ^ (K + 1))) ^ 2 ^ K = -1
    ∧ ∀ idx, idx < 2 ^ K → rho q (mkTables n q (2 ^ (K + 1)) g).rootsF idx
        = (((g : ℕ) : ZMod q) ^ ((q - 1) / 2 ^ (K + 1))) ^ bitRev idx K := by
  have : Fact q.Prime := ⟨hq⟩
  have hq2 := hq.two_le
  obtain ⟨m, hm⟩ := hdiv
  have hpow : 2 ^ (K + 1) = 2 * 2 ^ K := by rw [Nat.pow_succ]; omega
  have hq1 : q - 1 = 2 * (2 ^ K * m) := by rw [hm, hpow]; ring
  have hodd : q % 2 = 1 := by
    generalize 2 ^ K * m = P at hq1
    rcases Nat.eq_zero_or_pos P with h0 | h0
    · subst h0
      have : q = 1 := by omega
      omega
    · omega
  have hqW : q < W := by omega
  have h2 : 2 * q ≤ W := by omega
  have hmont := (GenMRedConstant_spec q hodd hqW).1
  have hW := W_ne_zero (q := q) hodd
  have hhalf : 2 ^ (K + 1) / 2 = 2 ^ K := by omega
  have he : (q - 1) / 2 ^ (K + 1) = m := by
    rw [hm]; exact Nat.mul_div_cancel_left m (Nat.two_pow_pos _)
  have hhalfexp : (q - 1) / 2 = 2 ^ K * m := by omega
  have hmpos : 0 < 2 ^ K * m := by
    rcases Nat.eq_zero_or_pos (2 ^ K * m) with h0 | h0
    · rw [h0] at hq1; omega
    · exact h0
  have hmq : m < q := by
    have : m ≤ 2 ^ K * m := Nat.le_mul_of_pos_left m (Nat.two_pow_pos K)
    omega
  -- `g` in `Z_q`
  have hgZ : ((g : ℕ) : ZMod q) ^ (2 ^ K * m) = -1 := by
    have h := congrArg (Nat.cast : ℕ → ZMod q) hg
    rw [ZMod.natCast_mod, Nat.cast_pow, hhalfexp, Nat.cast_sub (by omega), ZMod.natCast_self,
      Nat.cast_one, zero_sub] at h
    exact h
  have hg0 : ((g : ℕ) : ZMod q) ≠ 0 := by
    intro h0
    rw [h0, zero_pow (by omega)] at hgZ
    exact one_ne_zero (α := ZMod q) (by
      have := congrArg (fun z : ZMod q => -z) hgZ
      simpa using this.symm)
  have hfermat : ((g : ℕ) : ZMod q) ^ (q - 1) = 1 := ZMod.pow_card_sub_one_eq_one hg0
  -- the two twiddle generators
  have hexp1 : m < 2 ^ 64 := by rw [← W_eq]; omega
  have hexp2 : q - m - 1 < 2 ^ 64 := by rw [← W_eq]; omega
  obtain ⟨hψlt, hψc⟩ := MForm_cast (q := q) (modExp g m q) h2
    (by rw [modExp_spec g m q (by omega) hexp1]; have := Nat.mod_lt (g ^ m) (show 0 < q by omega); omega)
  obtain ⟨hψ'lt, hψ'c⟩ := MForm_cast (q := q) (modExp g (q - m - 1) q) h2
    (by rw [modExp_spec g _ q (by omega) hexp2]
        have := Nat.mod_lt (g ^ (q - m - 1)) (show 0 < q by omega); omega)
  conv_rhs at hψc => rw [modExp_spec g m q (by omega) hexp1, ZMod.natCast_mod, Nat.cast_pow]
  conv_rhs at hψ'c => rw [modExp_spec g _ q (by omega) hexp2, ZMod.natCast_mod, Nat.cast_pow]
  have hψ : ((MForm (modExp g m q) q (brc q) : ℕ) : ZMod q) * (W : ZMod q)⁻¹ = (g : ZMod q) ^ m := by
    rw [hψc, mul_assoc, mul_inv_cancel₀ hW, mul_one]
  have hψ' : ((MForm (modExp g (q - m - 1) q) q (brc q) : ℕ) : ZMod q) * (W : ZMod q)⁻¹
      = (g : ZMod q) ^ (q - m - 1) := by
    rw [hψ'c, mul_assoc, mul_inv_cancel₀ hW, mul_one]
  obtain ⟨hFlt, hF⟩ := genRoots_spec (q := q) (GenMRedConstant q) K _ h2 hmont hψlt
  obtain ⟨hBlt, hB⟩ := genRoots_spec (q := q) (GenMRedConstant q) K _ h2 hmont hψ'lt
  rw [hψ] at hF
  rw [hψ'] at hB
  have hψψ' : ((g : ℕ) : ZMod q) ^ m * (g : ZMod q) ^ (q - m - 1) = 1 := by
    rw [← pow_add]
    have : m + (q - m - 1) = q - 1 := by omega
    rw [this, hfermat]
  have hψhalf : (((g : ℕ) : ZMod q) ^ m) ^ 2 ^ K = -1 := by
    rw [← pow_mul, Nat.mul_comm]; exact hgZ
  -- unfold the table
  have eq_F : (mkTables n q (2 ^ (K + 1)) g).rootsF
      = genRoots q (GenMRedConstant q) (brc q) (2 ^ (K + 1))
          (MForm (modExp g ((q - 1) / 2 ^ (K + 1)) q) q (brc q)) := rfl
  have eq_B : (mkTables n q (2 ^ (K + 1)) g).rootsB
      = genRoots q (GenMRedConstant q) (brc q) (2 ^ (K + 1))
          (MForm (modExp g (q - ((q - 1) / 2 ^ (K + 1)) - 1) q) q (brc q)) := rfl
  have eq_N : (mkTables n q (2 ^ (K + 1)) g).nInv
      = MForm (modExp (2 ^ (K + 1) / 2) (q - 2) q) q (brc q) := rfl
  rw [he] at eq_F eq_B
  rw [hhalf] at eq_N
  -- `nInv`
  have hexp3 : q - 2 < 2 ^ 64 := by rw [← W_eq]; omega
  obtain ⟨hNlt, hNc⟩ := MForm_cast (q := q) (modExp (2 ^ K) (q - 2) q) h2
    (by rw [modExp_spec _ _ q (by omega) hexp3]
        have := Nat.mod_lt ((2 ^ K) ^ (q - 2)) (show 0 < q by omega); omega)
  conv_rhs at hNc => rw [modExp_spec _ _ q (by omega) hexp3, ZMod.natCast_mod, Nat.cast_pow,
    Nat.cast_pow, Nat.cast_ofNat]
  have h2K : ((2 : ZMod q) ^ K) ≠ 0 := by
    apply pow_ne_zero
    intro h
    have h' : ((2 : ℕ) : ZMod q) = 0 := by exact_mod_cast h
    rw [ZMod.natCast_eq_zero_iff] at h'
    have := Nat.le_of_dvd (by decide) h'
    omega
  have hN : ((MForm (modExp (2 ^ K) (q - 2) q) q (brc q) : ℕ) : ZMod q) * ((2 : ZMod q) ^ K)
      = (W : ZMod q) := by
    rw [hNc]
    have : ((2 : ZMod q) ^ K) ^ (q - 2) * (W : ZMod q) * (2 : ZMod q) ^ K
        = ((2 : ZMod q) ^ K) ^ (q - 2 + 1) * (W : ZMod q) := by rw [pow_succ]; ring
    rw [this]
    have e1 : q - 2 + 1 = q - 1 := by omega
    rw [e1, ZMod.pow_card_sub_one_eq_one h2K, one_mul]
  refine ⟨hmont, ?_, ?_, ?_, ?_, ?_, ?_, ?_⟩
  · rw [eq_F]; exact hFlt
  · rw [eq_B]; exact hBlt
  · intro j hj
    rw [eq_F, eq_B]
    apply natCast_mod_eq_of_cast_eq
    have h1 := hF j hj
    have h2' := hB j hj
    unfold rho at h1 h2'
    rw [Nat.cast_mul, Nat.cast_mul]
    generalize ((genRoots q (GenMRedConstant q) (brc q) (2 ^ (K + 1))
      (MForm (modExp g m q) q (brc q)))[j]! : ℕ) = a at *
    generalize ((genRoots q (GenMRedConstant q) (brc q) (2 ^ (K + 1))
      (MForm (modExp g (q - m - 1) q) q (brc q)))[j]! : ℕ) = b at *
    have ha : (a : ZMod q) = ((g : ZMod q) ^ m) ^ bitRev j K * (W : ZMod q) := by
      rw [← h1, mul_assoc, inv_mul_cancel₀ hW, mul_one]
    have hb : (b : ZMod q) = ((g : ZMod q) ^ (q - m - 1)) ^ bitRev j K * (W : ZMod q) := by
      rw [← h2', mul_assoc, inv_mul_cancel₀ hW, mul_one]
    rw [ha, hb]
    calc ((g : ZMod q) ^ m) ^ bitRev j K * (W : ZMod q)
          * (((g : ZMod q) ^ (q - m - 1)) ^ bitRev j K * (W : ZMod q))
        = (((g : ZMod q) ^ m) * ((g : ZMod q) ^ (q - m - 1))) ^ bitRev j K
            * ((W : ZMod q) * (W : ZMod q)) := by rw [mul_pow]; ring
      _ = (W : ZMod q) * (W : ZMod q) := by rw [hψψ', one_pow, one_mul]
  · rw [eq_N]; exact hNlt
  · rw [eq_N]
    apply natCast_mod_eq_of_cast_eq
    rw [Nat.cast_mul, Nat.cast_pow, Nat.cast_ofNat]
    exact hN
  · intro j hj1 hjM
    rw [eq_F]
    obtain ⟨L, rfl⟩ : ∃ L, K = L + 1 := by
      rcases K with _ | L
      · simp at hjM; omega
      · exact ⟨L, rfl⟩
    rw [hF j hjM, ← pow_mul]
    rcases Nat.lt_or_ge 1 j with hj | hj
    · obtain ⟨i, rfl | rfl⟩ : ∃ i, j = 2 * i ∨ j = 2 * i + 1 := ⟨j / 2, by omega⟩
      · have hi : 1 ≤ i := by omega
        rw [cnode_even _ _ hi, hF i (by omega), Nat.mul_comm, bitRev_even L i hjM]
      · have hi : 1 ≤ i := by omega
        rw [cnode_odd _ _ hi, hF i (by omega), Nat.mul_comm, bitRev_odd L i hjM, pow_add, hψhalf,
          neg_one_mul]
    · have : j = 1 := by omega
      subst this
      rw [cnode_one, bitRev_one, ← Nat.pow_succ, hψhalf]
  · rw [he, eq_F]; exact ⟨hψhalf, hF⟩


theorem mkTables_all (K q g : ℕ) (hq : q.Prime) (h8 : 8 * q ≤ W) (hdiv : 2 ^ (K + 1) ∣ q - 1)
    (hg : g ^ ((q - 1) / 2) % q = q - 1) :
    Valid (mkTables (2 ^ K) q (2 ^ (K + 1)) g) K
    ∧ TableInv (rho q (mkTables (2 ^ K) q (2 ^ (K + 1)) g).rootsF) (2 ^ K)
    ∧ (((g : ℕ) : ZMod q) ^ ((q - 1) / 2 ^ (K + 1))) ^ 2 ^ K = -1
    ∧ ∀ idx, idx < 2 ^ K → rho q (mkTables (2 ^ K) q (2 ^ (K + 1)) g).rootsF idx
        = (((g : ℕ) : ZMod q) ^ ((q - 1) / 2 ^ (K + 1))) ^ bitRev idx K := by
  obtain ⟨hm, hF, hB, hinv, hN1, hN2, hT, h1, h2⟩ := mkTables_core (2 ^ K) K q g hq h8 hdiv hg
  exact ⟨⟨rfl, hq, h8, hm, rfl, hF, hB, fun j _ hj => hinv j hj, hN1, hN2⟩, hT, h1, h2⟩

theorem mkTables_valid (K q g : ℕ) (hq : q.Prime) (h8 : 8 * q ≤ W) (hdiv : 2 ^ (K + 1) ∣ q - 1)
    (hg : g ^ ((q - 1) / 2) % q = q - 1) :
    Valid (mkTables (2 ^ K) q (2 ^ (K + 1)) g) K
    ∧ TableInv (rho q (mkTables (2 ^ K) q (2 ^ (K + 1)) g).rootsF) (2 ^ K) :=
  ⟨(mkTables_all K q g hq h8 hdiv hg).1, (mkTables_all K q g hq h8 hdiv hg).2.1⟩

/-- `brv_{L+1}(2^L + i) = 2·brv_L(i) + 1` for `i < 2^L` -/
theorem bitRev_top (L i : ℕ) (hi : i < 2 ^ L) : bitRev (2 ^ L + i) (L + 1) = 2 * bitRev i L + 1 := by
  rw [bitRev_succ_last, ← bitRev_mod L (2 ^ L + i), Nat.add_mod_left, Nat.mod_eq_of_lt hi]
  have : (2 ^ L + i) / 2 ^ L = 1 := by
    rw [Nat.add_div_left _ (Nat.two_pow_pos L), Nat.div_eq_of_lt hi]
  rw [this]; omega

/-- **Closed form of the evaluation points** for the generated tables: leaf `t` of the forward
transform evaluates at `ψ^(2·brv_K(t)+1)`, `ψ = g^((q−1)/2N)` a primitive `2N`-th root of unity
(`ψ^N = −1`). -/
theorem mkTables_pt (K q g : ℕ) (hK : 1 ≤ K) (hq : q.Prime) (h8 : 8 * q ≤ W)
    (hdiv : 2 ^ (K + 1) ∣ q - 1) (hg : g ^ ((q - 1) / 2) % q = q - 1) (t : ℕ) (ht : t < 2 ^ K) :
    pt (rho q (mkTables (2 ^ K) q (2 ^ (K + 1)) g).rootsF) K 1 t
      = (((g : ℕ) : ZMod q) ^ ((q - 1) / 2 ^ (K + 1))) ^ (2 * bitRev t K + 1) := by
  obtain ⟨_, _, hhalf, hF⟩ := mkTables_all K q g hq h8 hdiv hg
  obtain ⟨L, rfl⟩ : ∃ L, K = L + 1 := ⟨K - 1, by omega⟩
  rw [pt_eq_cnode _ _ _ _ ht, Nat.one_mul]
  have hp : 2 ^ (L + 1) = 2 * 2 ^ L := by rw [Nat.pow_succ]; omega
  have ht2 : t / 2 < 2 ^ L := by omega
  have hbt := bitRev_succ_first L t
  have htop := bitRev_top L (t / 2) ht2
  rcases Nat.mod_two_eq_zero_or_one t with h0 | h1
  · have e : 2 ^ (L + 1) + t = 2 * (2 ^ L + t / 2) := by omega
    rw [e, cnode_even _ _ (by have := Nat.two_pow_pos L; omega), hF _ (by omega), htop, hbt, h0]
    congr 1; omega
  · have e : 2 ^ (L + 1) + t = 2 * (2 ^ L + t / 2) + 1 := by omega
    rw [e, cnode_odd _ _ (by have := Nat.two_pow_pos L; omega), hF _ (by omega), htop, hbt, h1,
      ← neg_one_mul, ← hhalf, ← pow_add]
    congr 1
    rw [hp]; omega


theorem getD_map_cast {q : ℕ} (a : List ℕ) (i : ℕ) :
    (a.map (Nat.cast : ℕ → ZMod q)).getD i 0 = ((a.getD i 0 : ℕ) : ZMod q) := by
  by_cases h : i < a.length
  · simp [List.getD, h]
  · simp [List.getD, h]

open Finset in
/-- **ntt_eval** (closed form, generated tables): entry `t` of `nttStd` is
`Σ_i a_i ψ^{i(2·brv_K(t)+1)}` in `Z_q`, `ψ = g^((q−1)/2N)`. -/
theorem nttStd_mkTables_eval (K q g : ℕ) (hK : 1 ≤ K) (hq : q.Prime) (h8 : 8 * q ≤ W)
    (hdiv : 2 ^ (K + 1) ∣ q - 1) (hg : g ^ ((q - 1) / 2) % q = q - 1)
    (a : List ℕ) (hlen : a.length = 2 ^ K) (ha : ∀ x ∈ a, x < q) :
    (nttStd (mkTables (2 ^ K) q (2 ^ (K + 1)) g) a).map (Nat.cast : ℕ → ZMod q)
      = (List.range (2 ^ K)).map (fun t => ∑ i ∈ range (2 ^ K), ((a.getD i 0 : ℕ) : ZMod q)
          * ((((g : ℕ) : ZMod q) ^ ((q - 1) / 2 ^ (K + 1))) ^ (2 * bitRev t K + 1)) ^ i) := by
  have : Fact q.Prime := ⟨hq⟩
  obtain ⟨hT, hinv⟩ := mkTables_valid K q g hq h8 hdiv hg
  have : Fact (mkTables (2 ^ K) q (2 ^ (K + 1)) g).q.Prime := ⟨hq⟩
  have h : (nttStd (mkTables (2 ^ K) q (2 ^ (K + 1)) g) a).map (Nat.cast : ℕ → ZMod q)
      = (List.range (2 ^ K)).map (fun t => evalL (a.map (Nat.cast : ℕ → ZMod q))
          (pt (rho q (mkTables (2 ^ K) q (2 ^ (K + 1)) g).rootsF) K 1 t)) :=
    (nttStd_eval (T := mkTables (2 ^ K) q (2 ^ (K + 1)) g) hT hinv a hlen ha).1
  rw [h]
  apply List.map_congr_left
  intro t ht
  rw [mkTables_pt K q g hK hq h8 hdiv hg t (List.mem_range.1 ht), evalL_eq_sum, List.length_map, hlen]
  apply sum_congr rfl
  intro i _
  rw [getD_map_cast]

/-- a primitive root modulo an odd prime is a quadratic non-residue (Euler) -/
theorem nonresidue_of_primitive (q g : ℕ) [Fact q.Prime] (hodd : q % 2 = 1)
    (hg : orderOf ((g : ℕ) : ZMod q) = q - 1) : g ^ ((q - 1) / 2) % q = q - 1 := by
  have hq2 := (Fact.out : q.Prime).two_le
  have hsq : ((g : ℕ) : ZMod q) ^ ((q - 1) / 2) * ((g : ℕ) : ZMod q) ^ ((q - 1) / 2) = 1 := by
    rw [← pow_add]
    have : (q - 1) / 2 + (q - 1) / 2 = q - 1 := by omega
    rw [this, ← hg, pow_orderOf_eq_one]
  have hne : ((g : ℕ) : ZMod q) ^ ((q - 1) / 2) ≠ 1 := by
    intro h1
    have hd := orderOf_dvd_of_pow_eq_one h1
    rw [hg] at hd
    have := Nat.le_of_dvd (by omega) hd
    omega
  have hm1 : ((g : ℕ) : ZMod q) ^ ((q - 1) / 2) = -1 := by
    rcases mul_self_eq_one_iff.1 hsq with h | h
    · exact absurd h hne
    · exact h
  have hc : ((g ^ ((q - 1) / 2) % q : ℕ) : ZMod q) = ((q - 1 : ℕ) : ZMod q) := by
    rw [ZMod.natCast_mod, Nat.cast_pow, hm1, Nat.cast_sub (by omega), ZMod.natCast_self,
      Nat.cast_one, zero_sub]
  have := (ZMod.natCast_eq_natCast_iff' _ _ q).1 hc
  rwa [Nat.mod_mod, Nat.mod_eq_of_lt (show q - 1 < q by omega)] at this

/-- `tables_invariant` with the hypothesis phrased as in `ring/subring.go` (`g` a primitive root). -/
theorem mkTables_valid_of_primitive (K q g : ℕ) (hq : q.Prime) (h8 : 8 * q ≤ W)
    (hdiv : 2 ^ (K + 1) ∣ q - 1) (hg : orderOf ((g : ℕ) : ZMod q) = q - 1) :
    Valid (mkTables (2 ^ K) q (2 ^ (K + 1)) g) K
    ∧ TableInv (rho q (mkTables (2 ^ K) q (2 ^ (K + 1)) g).rootsF) (2 ^ K) := by
  have : Fact q.Prime := ⟨hq⟩
  have hodd : q % 2 = 1 := by
    obtain ⟨m, hm⟩ := hdiv
    have hpow : 2 ^ (K + 1) = 2 * 2 ^ K := by rw [Nat.pow_succ]; omega
    have hq1 : q - 1 = 2 * (2 ^ K * m) := by rw [hm, hpow]; ring
    have := hq.two_le
    generalize 2 ^ K * m = P at hq1
    rcases Nat.eq_zero_or_pos P with h0 | h0
    · subst h0; omega
    · omega
  exact mkTables_valid K q g hq h8 hdiv (nonresidue_of_primitive q g hodd hg)

end Lattigo.NTT
