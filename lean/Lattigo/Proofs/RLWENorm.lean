/-
  C03 — norm bounds in `Z[X]/(X^N+1)` (`Lattigo.ZPoly`, coefficient lists over `Int`):
  `‖a·b‖∞ ≤ ‖a‖₁·‖b‖∞` for the negacyclic product, and the resulting bounds on the fresh noise.
-/
import Lattigo.Model.RLWE
import Mathlib.Tactic.Ring
import Mathlib.Tactic.Linarith
import Mathlib.Algebra.Order.Group.Int

namespace Lattigo.ZPoly

theorem natAbs_le_normInf {b : List Int} {x : Int} (h : x ∈ b) : x.natAbs ≤ normInf b := by
  induction b with
  | nil => cases h
  | cons y ys ih =>
    simp only [normInf, List.foldr_cons]
    rcases List.mem_cons.mp h with rfl | h'
    · exact Nat.le_max_left _ _
    · exact Nat.le_trans (ih h') (Nat.le_max_right _ _)

theorem normInf_le_iff {b : List Int} {B : Nat} : normInf b ≤ B ↔ ∀ x ∈ b, x.natAbs ≤ B := by
  induction b with
  | nil => simp [normInf]
  | cons y ys ih =>
    simp only [normInf, List.foldr_cons, List.mem_cons, forall_eq_or_imp, Nat.max_le]
    exact and_congr Iff.rfl ih

theorem coeff_natAbs_le (b : List Int) (j : Nat) : (coeff b j).natAbs ≤ normInf b := by
  unfold coeff
  by_cases h : j < b.length
  · have : b.getD j 0 = b[j] := by simp [List.getD, h]
    rw [this]
    exact natAbs_le_normInf (List.getElem_mem h)
  · have : b.getD j 0 = 0 := by simp [List.getD, h]
    rw [this]
    simp

theorem natAbs_sum_le (l : List Int) : l.sum.natAbs ≤ (l.map Int.natAbs).sum := by
  induction l with
  | nil => simp
  | cons x xs ih =>
    simp only [List.sum_cons, List.map_cons]
    exact Nat.le_trans (Int.natAbs_add_le _ _) (Nat.add_le_add_left ih _)

theorem mulTerm_natAbs_le (b : List Int) (n k : Nat) (xi : Int × Nat) :
    (mulTerm b n k xi).natAbs ≤ xi.1.natAbs * normInf b := by
  unfold mulTerm
  split
  · rw [Int.natAbs_mul]; exact Nat.mul_le_mul_left _ (coeff_natAbs_le _ _)
  · rw [Int.natAbs_neg, Int.natAbs_mul]; exact Nat.mul_le_mul_left _ (coeff_natAbs_le _ _)

theorem sum_terms_le (g : Int × Nat → Int) (B : Nat) (hg : ∀ xi, (g xi).natAbs ≤ xi.1.natAbs * B)
    (l : List Int) (n : Nat) : (((l.zipIdx n).map g).sum).natAbs ≤ norm1 l * B := by
  induction l generalizing n with
  | nil => simp [norm1]
  | cons x xs ih =>
    simp only [List.zipIdx_cons, List.map_cons, List.sum_cons, norm1]
    calc (g (x, n) + ((xs.zipIdx (n + 1)).map g).sum).natAbs
        ≤ (g (x, n)).natAbs + (((xs.zipIdx (n + 1)).map g).sum).natAbs := Int.natAbs_add_le _ _
      _ ≤ x.natAbs * B + norm1 xs * B := Nat.add_le_add (hg (x, n)) (ih (n + 1))
      _ = (x.natAbs + (xs.map Int.natAbs).sum) * B := by simp [norm1, Nat.add_mul]

theorem mulCoeff_natAbs_le (a b : List Int) (k : Nat) : (mulCoeff a b k).natAbs ≤ norm1 a * normInf b :=
  sum_terms_le _ _ (mulTerm_natAbs_le b a.length k) a 0

/-- `‖a·b‖∞ ≤ ‖a‖₁·‖b‖∞` for the negacyclic product -/
theorem normInf_mul_le (a b : List Int) : normInf (mul a b) ≤ norm1 a * normInf b := by
  rw [normInf_le_iff]
  intro x hx
  simp only [mul, List.mem_map] at hx
  obtain ⟨k, _, rfl⟩ := hx
  exact mulCoeff_natAbs_le a b k

theorem normInf_add_le (a b : List Int) : normInf (add a b) ≤ normInf a + normInf b := by
  rw [normInf_le_iff]
  intro x hx
  simp only [add] at hx
  obtain ⟨i, hi, rfl⟩ := List.mem_iff_getElem.mp hx
  simp only [List.getElem_zipWith]
  simp only [List.length_zipWith] at hi
  have ha : i < a.length := Nat.lt_of_lt_of_le hi (Nat.min_le_left _ _)
  have hb : i < b.length := Nat.lt_of_lt_of_le hi (Nat.min_le_right _ _)
  exact Nat.le_trans (Int.natAbs_add_le _ _)
    (Nat.add_le_add (natAbs_le_normInf (List.getElem_mem ha)) (natAbs_le_normInf (List.getElem_mem hb)))

theorem normInf_sub_le (a b : List Int) : normInf (sub a b) ≤ normInf a + normInf b := by
  rw [normInf_le_iff]
  intro x hx
  simp only [sub] at hx
  obtain ⟨i, hi, rfl⟩ := List.mem_iff_getElem.mp hx
  simp only [List.getElem_zipWith]
  simp only [List.length_zipWith] at hi
  have ha : i < a.length := Nat.lt_of_lt_of_le hi (Nat.min_le_left _ _)
  have hb : i < b.length := Nat.lt_of_lt_of_le hi (Nat.min_le_right _ _)
  exact Nat.le_trans (Int.natAbs_sub_le _ _)
    (Nat.add_le_add (natAbs_le_normInf (List.getElem_mem ha)) (natAbs_le_normInf (List.getElem_mem hb)))

theorem normInf_smul (k : Int) (a : List Int) : normInf (smul k a) = k.natAbs * normInf a := by
  induction a with
  | nil => simp [smul, normInf]
  | cons x xs ih =>
    simp only [smul, List.map_cons, normInf, List.foldr_cons] at ih ⊢
    rw [ih, Int.natAbs_mul, Nat.mul_max_mul_left]

/-- secret-key encryption: the fresh noise IS the drawn error, so its norm is the error's. -/
theorem noise_upper_sk (e : List Int) (B : Nat) (he : normInf e ≤ B) : normInf e ≤ B := he

/-- public key, no auxiliary modulus: noise `u·e_pk + e0 + s·e1` (Props: `dec_enc_pk_noP`). -/
theorem noise_upper_pk_noP (u epk e0 e1 s : List Int) (B : Nat)
    (hpk : normInf epk ≤ B) (h0 : normInf e0 ≤ B) (h1 : normInf e1 ≤ B) :
    normInf (add (add (mul u epk) e0) (mul s e1)) ≤ B * (norm1 u + 1 + norm1 s) := by
  have a1 := normInf_add_le (add (mul u epk) e0) (mul s e1)
  have a2 := normInf_add_le (mul u epk) e0
  have m1 := Nat.le_trans (normInf_mul_le u epk) (Nat.mul_le_mul_left _ hpk)
  have m2 := Nat.le_trans (normInf_mul_le s e1) (Nat.mul_le_mul_left _ h1)
  calc normInf (add (add (mul u epk) e0) (mul s e1))
      ≤ norm1 u * B + B + norm1 s * B := by omega
    _ = B * (norm1 u + 1 + norm1 s) := by ring

/-- public key with auxiliary modulus `P`: if the integer noise `n` satisfies
    `P·n = E − δ0 − s·δ1` (Props: `dec_enc_pk_P`) with centred residues `2|δ| ≤ P`, then
    `2P·‖n‖∞ ≤ 2‖E‖∞ + P·(1 + ‖s‖₁)`, i.e. `‖n‖∞ ≤ ‖E‖∞/P + (1 + ‖s‖₁)/2`. -/
theorem noise_upper_pk_P (P : Nat) (n E d0 d1 s : List Int)
    (hrel : smul P n = sub (sub E d0) (mul s d1))
    (hd0 : 2 * normInf d0 ≤ P) (hd1 : 2 * normInf d1 ≤ P) :
    2 * (P * normInf n) ≤ 2 * normInf E + P * (1 + norm1 s) := by
  have h := normInf_smul P n
  rw [hrel] at h
  have a1 := normInf_sub_le (sub E d0) (mul s d1)
  have a2 := normInf_sub_le E d0
  have m := normInf_mul_le s d1
  have m' : 2 * (norm1 s * normInf d1) ≤ norm1 s * P := by
    calc 2 * (norm1 s * normInf d1) = norm1 s * (2 * normInf d1) := by ring
      _ ≤ norm1 s * P := Nat.mul_le_mul_left _ hd1
  simp only [Int.natAbs_natCast] at h
  have e : P * (1 + norm1 s) = P + norm1 s * P := by ring
  omega

end Lattigo.ZPoly
