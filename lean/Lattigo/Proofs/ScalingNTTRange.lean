import Lattigo.Proofs.NTTRangeBig

/-!
  # `NTTLazy` on LARGE inputs for EVERY ring degree (C02)

  `NTT.nttCoreLazy_big` (Proofs/NTTRangeBig.lean) is the no-wrap theorem for `NTTLazy` of ring `q` on inputs `< M`
  (`M + 4q ≤ 2^64`, no relation between `M` and `q` otherwise) for the UNROLLED schedule, `N = 2^K ≥ 16`.
  For `N < 16` the code runs the plain loop `nttLazy`, in which EVERY stage is the reducing `butterfly`
  (`flagStd n d = true` for `n < 16`): with the constant bound `C = max M 6q` one stage maps inputs `< C` to outputs
  `< max (min C 4q) (C − 4q) + 2q ≤ C`.  Since `max M 6q ≤ max M 4q + 2q`, the statement of `nttCoreLazy_big`
  holds verbatim for every `K` (`nttCoreLazy_big_all`), which removes the hypothesis `4 ≤ K` from the C02 theorems
  about `Div{Floor,Round}ByLastModulusNTT` and `DecomposeNTT`.
-/
namespace Lattigo.NTT
open Lattigo Lattigo.Gen

theorem flagStd_small (K d : Nat) (hK : K < 4) : flagStd (2 ^ K) d = true := by
  unfold flagStd
  rw [unrollMin_eq, if_pos ((two_pow_lt_16 K).2 hK)]

/-- the constant bound `max M 6q` is admissible for the all-reducing schedule -/
theorem bSmall_ok (M q K : Nat) (hK : K < 4) (h8 : 8 * q ≤ W) (hM : M + 4 * q ≤ W) :
    BoundOKA (flagStd (2 ^ K)) (fun _ => max M (6 * q)) q K := by
  intro d _
  refine ⟨fun _ => ?_, fun hf => ?_⟩
  · simp only [Nat.max_def, Nat.min_def]
    constructor
    · split <;> omega
    · (repeat' split) <;> omega
  · rw [flagStd_small K d hK] at hf; exact absurd hf (by simp)

section
variable {T : Tables} {K : ℕ}

/-- **`nttCoreLazy` (= `NTTLazy`) on large inputs, EVERY degree `N = 2^K`**: for inputs `< M` with `M + 4q ≤ 2^64`
there is no uint64 wrap-around: read in `Z_q` the output is the exact network applied to the inputs read in `Z_q`,
and every output is `< max M 4q + 2q`. -/
theorem nttCoreLazy_big_all (hT : Valid T K) [Fact T.q.Prime] (M : ℕ)
    (hM : M + 4 * T.q ≤ W) (a : List ℕ) (ha : ∀ x ∈ a, x < M) :
    (nttCoreLazy T a).map (Nat.cast : ℕ → ZMod T.q)
      = fwdZ (rho T.q T.rootsF) K 1 (a.map (Nat.cast : ℕ → ZMod T.q))
    ∧ ∀ y ∈ nttCoreLazy T a, y < max M (4 * T.q) + 2 * T.q := by
  by_cases hK : 4 ≤ K
  · exact nttCoreLazy_big hT hK M hM a ha
  · have hK' : K < 4 := by omega
    have e : nttCoreLazy T a = fwdRec T.rootsF T.q T.qinv (flagStd (2 ^ K)) K 0 1 a := by
      unfold nttCoreLazy; rw [hT.n_eq, log2n_two_pow]
    have hB := bSmall_ok M T.q K hK' hT.h8 hM
    obtain ⟨c, r⟩ := fwdRec_castA T.rootsF T.qinv (flagStd (2 ^ K)) (fun _ => max M (6 * T.q)) K hT.h8
      hT.mont hT.rootsF_lt hB K 0 1 a (by omega)
      (fun x hx => Nat.lt_of_lt_of_le (ha x hx) (Nat.le_max_left _ _))
    rw [e]
    refine ⟨c, ?_⟩
    intro y hy
    have := r y hy
    simp only [Nat.max_def] at this ⊢
    (repeat' split at this) <;> (repeat' split) <;> omega

end

#print axioms bSmall_ok
#print axioms nttCoreLazy_big_all

end Lattigo.NTT
