/-
  C04 — the ring-degree switch `Y ↦ X^{gap}` (`SwitchCiphertextRingDegree{,NTT}` small → large,
  `MapSmallDimensionToLargerDimensionNTT` at key generation; `Model/KeySwitch.embedR`) IS a ring homomorphism
  `Z_q[Y]/(Y^n+1) → Z_q[X]/(X^{gap·n}+1)` on well-formed values: the hypothesis `ι : β →+* A` of
  `degree_up_phase` is discharged for the executable model.
-/
import Lattigo.Model.KeySwitch
import Lattigo.Proofs.RPolyRing
import Lattigo.Proofs.RPolyTransport

set_option linter.unusedSectionVars false
set_option linter.unusedSimpArgs false

namespace Lattigo.KS.Degree
open Lattigo Lattigo.KS Lattigo.RPolyRing Lattigo.Transport Polynomial Finset

section rows
variable {q n gap : ℕ}

/-- the embedding of quotient rings `Y ↦ X^{gap}` -/
noncomputable def embHom (q n gap : ℕ) : Rq q n →+* Rq q (gap * n) :=
  AdjoinRoot.lift (AdjoinRoot.of _) ((AdjoinRoot.root (X ^ (gap * n) + 1 : (ZMod q)[X])) ^ gap) (by
    simp only [eval₂_add, eval₂_pow, eval₂_X, eval₂_one]
    rw [← pow_mul, root_pow_n, neg_add_cancel])

theorem embHom_root : embHom q n gap (AdjoinRoot.root _)
    = (AdjoinRoot.root (X ^ (gap * n) + 1 : (ZMod q)[X])) ^ gap := by
  unfold embHom; rw [AdjoinRoot.lift_root]

/-- list evaluation `Σ_i l_i x^i` -/
def evalList {F : Type} [CommRing F] : List ℕ → F → F
  | [], _ => 0
  | a :: l, x => (a : F) + x * evalList l x

theorem evalRow_eq_evalList {F : Type} [CommRing F] : ∀ (l : List ℕ) (x : F),
    evalRow l.length l x = evalList l x
  | [], x => by simp [evalRow, evalList]
  | a :: l, x => by
      have ih := evalRow_eq_evalList l x
      unfold evalRow at ih ⊢
      simp only [List.length_cons, evalList]
      rw [Finset.sum_range_succ', ← ih, Finset.mul_sum]
      simp only [List.getD_cons_zero, pow_zero, mul_one, List.getD_cons_succ]
      rw [add_comm]
      congr 1
      apply Finset.sum_congr rfl
      intro i _
      ring

theorem evalRow_eq_evalList' {F : Type} [CommRing F] (m : ℕ) (l : List ℕ) (h : l.length = m) (x : F) :
    evalRow m l x = evalList l x := by subst h; exact evalRow_eq_evalList l x

theorem evalList_append {F : Type} [CommRing F] : ∀ (l1 l2 : List ℕ) (x : F),
    evalList (l1 ++ l2) x = evalList l1 x + x ^ l1.length * evalList l2 x
  | [], l2, x => by simp [evalList]
  | a :: l1, l2, x => by
      simp only [List.cons_append, evalList, List.length_cons, evalList_append l1 l2 x]
      ring

theorem evalList_replicate_zero {F : Type} [CommRing F] : ∀ (k : ℕ) (x : F),
    evalList (List.replicate k 0) x = 0
  | 0, _ => rfl
  | k + 1, x => by simp [List.replicate_succ, evalList, evalList_replicate_zero k x]

theorem rowEmbed_cons (a : ℕ) (l : List ℕ) :
    rowEmbed gap (a :: l) = (a :: List.replicate (gap - 1) 0) ++ rowEmbed gap l := by
  simp [rowEmbed]

theorem rowEmbed_length (hg : 1 ≤ gap) : ∀ (l : List ℕ), (rowEmbed gap l).length = gap * l.length
  | [] => by simp [rowEmbed]
  | a :: l => by
      rw [rowEmbed_cons, List.length_append, rowEmbed_length hg l]
      simp only [List.length_cons, List.length_replicate]
      rw [Nat.mul_succ]; omega

theorem evalList_rowEmbed {F : Type} [CommRing F] (hg : 1 ≤ gap) : ∀ (l : List ℕ) (x : F),
    evalList (rowEmbed gap l) x = evalList l (x ^ gap)
  | [], x => by simp [rowEmbed, evalList]
  | a :: l, x => by
      rw [rowEmbed_cons, evalList_append, evalList_rowEmbed hg l x]
      simp only [evalList, evalList_replicate_zero, List.length_cons, List.length_replicate, mul_zero, add_zero]
      have : gap - 1 + 1 = gap := by omega
      rw [this]

/-- **the row map `rowEmbed` is the ring embedding**: `toQuot (rowEmbed gap x) = embHom (toQuot x)` -/
theorem toQuot_rowEmbed (hg : 1 ≤ gap) (x : List ℕ) (hx : x.length = n) :
    toQuot q (gap * n) (rowEmbed gap x) = embHom q n gap (toQuot q n x) := by
  subst hx
  rw [toQuot_eq_evalRow, toQuot_eq_evalRow]
  rw [evalRow_eq_evalList' _ _ (rowEmbed_length hg x), evalRow_eq_evalList, evalList_rowEmbed hg]
  -- push the homomorphism through the list evaluation
  have push : ∀ (l : List ℕ) (r : Rq q x.length), embHom q x.length gap (evalList l r)
      = evalList l (embHom q x.length gap r) := by
    intro l r
    induction l with
    | nil => simp [evalList]
    | cons a l ih => simp only [evalList, map_add, map_mul, map_natCast, ih]
  rw [push, embHom_root]

theorem rowEmbed_wf (hg : 1 ≤ gap) (hq : 0 < q) {x : List ℕ} (hx : RowWF q n x) :
    RowWF q (gap * n) (rowEmbed gap x) := by
  refine ⟨by rw [rowEmbed_length hg, hx.len], ?_⟩
  intro y hy
  simp only [rowEmbed, List.mem_flatMap, List.mem_cons, List.mem_replicate] at hy
  obtain ⟨v, hv, h | ⟨_, h⟩⟩ := hy
  · rw [h]; exact hx.lt v hv
  · rw [h]; exact hq

/-- `rowEmbed` commutes with the ring operations of the rows -/
theorem rowEmbed_mul (hg : 1 ≤ gap) (hq : 2 ≤ q) (hn : 1 ≤ n) {x y : List ℕ} (hx : RowWF q n x) (hy : RowWF q n y) :
    rowEmbed gap (RPoly.rowMul q x y) = RPoly.rowMul q (rowEmbed gap x) (rowEmbed gap y) := by
  have hN : 1 ≤ gap * n := Nat.mul_pos hg hn
  have hex := rowEmbed_wf (n := n) hg (by omega : 0 < q) hx
  have hey := rowEmbed_wf (n := n) hg (by omega : 0 < q) hy
  apply toQuot_inj hq hN (rowEmbed_wf hg (by omega) (hx.mul y (by omega))) (hex.mul _ (by omega))
  rw [toQuot_rowEmbed hg _ (hx.mul y (by omega)).len, toQuot_rowMul (by omega) x y hx.len, map_mul,
    toQuot_rowMul (by omega) _ _ hex.len, toQuot_rowEmbed hg x hx.len, toQuot_rowEmbed hg y hy.len]

theorem rowEmbed_add (hg : 1 ≤ gap) (hq : 2 ≤ q) (hn : 1 ≤ n) {x y : List ℕ} (hx : RowWF q n x) (hy : RowWF q n y) :
    rowEmbed gap (RPoly.rowAdd q x y) = RPoly.rowAdd q (rowEmbed gap x) (rowEmbed gap y) := by
  have hN : 1 ≤ gap * n := Nat.mul_pos hg hn
  have hex := rowEmbed_wf (n := n) hg (by omega : 0 < q) hx
  have hey := rowEmbed_wf (n := n) hg (by omega : 0 < q) hy
  apply toQuot_inj hq hN (rowEmbed_wf hg (by omega) (hx.add (by omega) hy)) (hex.add (by omega) hey)
  rw [toQuot_rowEmbed hg _ (hx.add (by omega) hy).len, toQuot_rowAdd x y hx.len hy.len, map_add,
    toQuot_rowAdd _ _ hex.len hey.len, toQuot_rowEmbed hg x hx.len, toQuot_rowEmbed hg y hy.len]

theorem rowEmbed_one (hg : 1 ≤ gap) (hq : 2 ≤ q) (hn : 1 ≤ n) : rowEmbed gap (oneRow n) = oneRow (gap * n) := by
  have hN : 1 ≤ gap * n := Nat.mul_pos hg hn
  apply toQuot_inj hq hN (rowEmbed_wf hg (by omega) (RowWF.one hq)) (RowWF.one hq)
  rw [toQuot_rowEmbed hg _ (RowWF.one (q := q) hq).len, toQuot_oneRow hn, toQuot_oneRow hN, map_one]

theorem rowEmbed_zero (hg : 1 ≤ gap) (hq : 2 ≤ q) (hn : 1 ≤ n) : rowEmbed gap (zeroRow n) = zeroRow (gap * n) := by
  have hN : 1 ≤ gap * n := Nat.mul_pos hg hn
  apply toQuot_inj hq hN (rowEmbed_wf hg (by omega) (RowWF.zero (by omega))) (RowWF.zero (by omega))
  rw [toQuot_rowEmbed hg _ (RowWF.zero (q := q) (n := n) (by omega)).len, toQuot_zeroRow, toQuot_zeroRow, map_zero]

end rows

/-! ### lift to `RPoly` -/

section rpoly
variable {qs : List ℕ} {n gap : ℕ}

theorem embedR_qs (a : RPoly) : (embedR gap a).qs = a.qs := rfl

theorem embedR_getD (a : RPoly) (i : ℕ) (hi : i < a.c.length) :
    (embedR gap a).c.getD i [] = rowEmbed gap (a.c.getD i []) := by
  simp [embedR, List.getD_eq_getElem?_getD, hi]

theorem rpoly_ext {a b : RPoly} (hq : a.qs = b.qs) (hl : a.c.length = b.c.length)
    (h : ∀ i, i < a.c.length → a.c.getD i [] = b.c.getD i []) : a = b := by
  cases a with
  | mk aq ac =>
    cases b with
    | mk bq bc =>
      simp only at hq hl h
      subst hq
      congr 1
      apply List.ext_getElem hl
      intro i h1 h2
      have := h i h1
      simpa [List.getD_eq_getElem?_getD, h1, h2] using this

theorem embedR_wf [hg : Good qs n] (hgap : 1 ≤ gap) {a : RPoly} (ha : WFq qs n a) :
    WFq qs (gap * n) (embedR gap a) := by
  obtain ⟨h1, h2, h3⟩ := ha
  refine ⟨h1, by simp [embedR, h2], fun i hi => ?_⟩
  have hi' : i < a.qs.length := hi
  have hic : i < a.c.length := by omega
  rw [embedR_getD a i hic]
  have hq : 0 < a.qs[i] := by
    have := hg.q_ge_of_eq a.qs h1 i hi'
    omega
  exact rowEmbed_wf hgap hq (h3 i hi')

theorem embedR_zipRows [hg : Good qs n] (_hgap : 1 ≤ gap) (f : ℕ → List ℕ → List ℕ → List ℕ)
    (hf : ∀ q x y, 2 ≤ q → RowWF q n x → RowWF q n y → rowEmbed gap (f q x y) = f q (rowEmbed gap x) (rowEmbed gap y))
    {a b : RPoly} (ha : WFq qs n a) (hb : WFq qs n b) :
    embedR gap (RPoly.zipRows f a b) = RPoly.zipRows f (embedR gap a) (embedR gap b) := by
  obtain ⟨ha1, ha2, ha3⟩ := ha
  obtain ⟨hb1, hb2, hb3⟩ := hb
  have hbl : b.c.length = a.qs.length := by rw [hb2, hb1, ha1]
  have hea : (embedR gap a).c.length = (embedR gap a).qs.length := by simp [embedR, ha2]
  have heb : (embedR gap b).c.length = (embedR gap a).qs.length := by simp [embedR, hbl]
  refine rpoly_ext (a := embedR gap (RPoly.zipRows f a b)) (b := RPoly.zipRows f (embedR gap a) (embedR gap b)) rfl ?_ ?_
  · simp [embedR, RPoly.zipRows, ha2, hbl]
  · intro i hi
    have hl : (embedR gap (RPoly.zipRows f a b)).c.length = a.qs.length := by
      simp [embedR, RPoly.zipRows, ha2, hbl]
    have hiq : i < a.qs.length := by rw [← hl]; exact hi
    have hzl : i < (RPoly.zipRows f a b).c.length := by rw [zipRows_length f a b ha2 hbl]; exact hiq
    rw [embedR_getD _ i hzl, zipRows_getD f a b ha2 hbl i hiq,
      zipRows_getD f (embedR gap a) (embedR gap b) hea heb i hiq,
      embedR_getD a i (by omega), embedR_getD b i (by omega)]
    have hq2 : 2 ≤ a.qs[i] := hg.q_ge_of_eq a.qs ha1 i hiq
    have hbq : b.qs[i]'(by rw [hb1, ← ha1]; exact hiq) = a.qs[i] := by simp [hb1, ← ha1]
    have hyb := hb3 i (by rw [hb1, ← ha1]; exact hiq)
    rw [hbq] at hyb
    exact hf _ _ _ hq2 (ha3 i hiq) hyb

theorem embedR_mul [Good qs n] (hgap : 1 ≤ gap) {a b : RPoly} (ha : WFq qs n a) (hb : WFq qs n b) :
    embedR gap (a * b) = embedR gap a * embedR gap b :=
  embedR_zipRows hgap RPoly.rowMul (fun _ _ _ hq hx hy => rowEmbed_mul hgap hq (Good.n_pos qs) hx hy) ha hb

theorem embedR_add [Good qs n] (hgap : 1 ≤ gap) {a b : RPoly} (ha : WFq qs n a) (hb : WFq qs n b) :
    embedR gap (a + b) = embedR gap a + embedR gap b :=
  embedR_zipRows hgap RPoly.rowAdd (fun _ _ _ hq hx hy => rowEmbed_add hgap hq (Good.n_pos qs) hx hy) ha hb

theorem good_mul [hg : Good qs n] (hgap : 1 ≤ gap) : Good qs (gap * n) :=
  ⟨Nat.mul_pos hgap hg.n_pos, hg.q_ge⟩

/-- **degree_up_phase on the executable model** (`ApplyEvaluationKey`, small → large ring degree): the map `embedR`
of the driver's `applyup` op is a ring homomorphism on well-formed values (`embedR_add`, `embedR_mul`), so NO
hypothesis on `ι` is left: if the gadget product of the embedded `c1` re-encrypts `ι(c1)·ι(s_small)` under `s_large`
up to `ν`, the output decrypts under `s_large` to the embedded phase of the input, plus `ν`. -/
theorem degree_up_phase_rpoly [hg : Good qs n] (hgap : 1 ≤ gap) (ksOf : RPoly → RPoly × RPoly)
    (c0 c1 sS sL ν : RPoly) (hc0 : WFq qs n c0) (hc1 : WFq qs n c1) (hsS : WFq qs n sS)
    (hsL : WFq qs (gap * n) sL) (hν : WFq qs (gap * n) ν)
    (hk0 : WFq qs (gap * n) (ksOf (embedR gap c1)).1) (hk1 : WFq qs (gap * n) (ksOf (embedR gap c1)).2)
    (hks : phase (ksOf (embedR gap c1)) sL = embedR gap c1 * embedR gap sS + ν) :
    phase (applyEvaluationKeyUp (embedR gap) ksOf (c0, c1)) sL = embedR gap (phase (c0, c1) sS) + ν := by
  have : Good qs (gap * n) := good_mul hgap
  have hphase : embedR gap (phase (c0, c1) sS) = embedR gap c0 + embedR gap c1 * embedR gap sS := by
    simp only [phase]
    rw [embedR_add hgap hc0 (hc1.mul hsS), embedR_mul hgap hc1 hsS]
  rw [hphase]
  obtain ⟨E0, hE0⟩ := exists_lift _ (embedR_wf hgap hc0)
  obtain ⟨E1, hE1⟩ := exists_lift _ (embedR_wf hgap hc1)
  obtain ⟨ES, hES⟩ := exists_lift _ (embedR_wf hgap hsS)
  obtain ⟨K0, hK0⟩ := exists_lift _ hk0
  obtain ⟨K1, hK1⟩ := exists_lift _ hk1
  obtain ⟨SL, rfl⟩ := exists_lift sL hsL
  obtain ⟨NU, rfl⟩ := exists_lift ν hν
  simp only [applyEvaluationKeyUp, applyEvaluationKey, phase] at hks ⊢
  rw [← hK0, ← hK1, ← hE1, ← hES] at hks
  rw [← hK0, ← hK1, ← hE0, ← hE1, ← hES]
  have h : K0 + K1 * SL = E1 * ES + NU := val_injective (by simp only [val_add, val_mul]; exact hks)
  have : E0 + K0 + K1 * SL = E0 + E1 * ES + NU := by rw [add_assoc, h]; ring
  have h2 := congrArg Transport.val this
  simpa only [val_add, val_mul] using h2

end rpoly

end Lattigo.KS.Degree
