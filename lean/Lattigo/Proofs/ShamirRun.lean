/-
  C15: the protocol-level functions of `Lattigo.Model.Shamir` (`genShamirSecretShare`,
  `genAdditiveShare`, `partyAdditiveShare`, `thresholdRun`) succeed on well-shaped inputs and
  every output word is given by the scalar functions.
-/
import Lattigo.Proofs.ShamirRows

namespace Lattigo.Proofs.Shamir
open Lattigo.Model.Shamir

/-- value of an `ok` outcome (default otherwise). -/
def outGet {α : Type} (d : α) : Outcome α → α
  | .ok a => a
  | _ => d

theorem foldr_bind_ok {α β : Type} (f : α → Outcome β) (g : α → β) (l : List α)
    (h : ∀ a ∈ l, f a = .ok (g a)) :
    l.foldr (fun a acc => (f a).bind fun s => acc.bind fun l => .ok (s :: l)) (.ok []) = .ok (l.map g) := by
  induction l with
  | nil => rfl
  | cons a rest ih =>
    rw [List.foldr_cons, ih (fun b hb => h b (List.mem_cons_of_mem _ hb)), h a List.mem_cons_self]
    rfl

/-- `GenShamirSecretShare`: succeeds, keeps the shape, every word is the Horner evaluation of the
corresponding words of the coefficient polynomials. -/
theorem share_spec (r : RingQP) (N x : ℕ) (sp : ShamirPoly) (hne : sp ≠ [])
    (hsh : ∀ c ∈ sp, ShapedQP r N c) :
    ∃ s, genShamirSecretShare r x sp = .ok s ∧ ShapedQP r N s ∧
      ∀ m k, m < r.ms.length → k < N →
        ent s.rows m k = horner (modAt r.ms m) x (sp.map fun c => ent c.rows m k) := by
  have hne' : sp.map (·.rows) ≠ [] := by simpa using hne
  have hsh' : ∀ p ∈ sp.map (·.rows), Shaped r.ms.length N p := by
    intro p hp
    rw [List.mem_map] at hp
    obtain ⟨c, hc, rfl⟩ := hp
    exact (hsh c hc).2
  obtain ⟨out, ho, hs, he⟩ := evalPolyScalarRows_spec r.ms x rfl (sp.map (·.rows)) hne' hsh'
  refine ⟨⟨r.nq, out⟩, ?_, ⟨rfl, hs⟩, ?_⟩
  · unfold genShamirSecretShare; rw [ho]
  · intro m k hm hk
    rw [he m k hm hk, List.map_map]
    rfl

theorem foldr_bind_err {α β : Type} (f : α → Outcome β) (l : List α)
    (hall : ∀ a ∈ l, (∃ s, f a = .ok s) ∨ f a = .err) (hex : ∃ a ∈ l, f a = .err) :
    l.foldr (fun a acc => (f a).bind fun s => acc.bind fun l => .ok (s :: l)) (.ok []) = .err := by
  induction l with
  | nil => obtain ⟨a, ha, _⟩ := hex; simp at ha
  | cons a rest ih =>
    rw [List.foldr_cons]
    rcases hall a List.mem_cons_self with ⟨s, hs⟩ | he
    · have hex' : ∃ b ∈ rest, f b = .err := by
        obtain ⟨b, hb, hbe⟩ := hex
        rcases List.mem_cons.mp hb with h | h
        · subst h; rw [hs] at hbe; exact absurd hbe (by simp)
        · exact ⟨b, h, hbe⟩
      rw [ih (fun b hb => hall b (List.mem_cons_of_mem _ hb)) hex', hs]
      rfl
    · rw [he]; rfl

/-- the table of `newCombiner` has an entry for every point of `others` other than `own`. -/
theorem newCombiner_lookup (r : RingQP) (own : ℕ) (others : List ℕ) (t : Int) (a : ℕ)
    (ha : a ∈ others) (hne : a ≠ own) :
    ∃ c, (newCombiner r own others t).table.lookup a = some c :=
  ⟨_, lookup_table own (fun spk => r.ms.map fun q => lagrangeCoeff q own spk) others a ha hne⟩

/-- `GenAdditiveShare` on a combiner made by `NewCombiner` with the same own point: succeeds when
at least `t` active points are given and the first `t` of them (other than `own`) were known to
`NewCombiner` and do not collide with `own` modulo any modulus; the share is scaled, per modulus,
by the scalar product loop. -/
theorem genAdditiveShare_ok (r : RingQP) (t : ℕ) (own : ℕ) (others acts : List ℕ) (share : QP)
    (hlen : t ≤ acts.length) (hmem : ∀ a ∈ acts.take t, a ≠ own → a ∈ others)
    (hnc : ∀ a ∈ acts.take t, a ≠ own → pointsCollide r.ms own a = false) :
    genAdditiveShare (newCombiner r own others t) acts own share =
      .ok ⟨r.nq, scaleRows r.ms share.rows (r.ms.map fun q => lagProdScalar q own (acts.take t) (1 % q))⟩ := by
  unfold genAdditiveShare
  have h1 : ¬ ((acts.length : Int) < (newCombiner r own others t).threshold) := by
    simp only [newCombiner]; omega
  have h2 : ¬ ((newCombiner r own others t).threshold < 0) := by
    simp only [newCombiner]; omega
  rw [if_neg h1, if_neg h2]
  have h3 : (newCombiner r own others (t : Int)).threshold.toNat = t := by simp [newCombiner]
  have h4 : (newCombiner r own others (t : Int)).ring = r := rfl
  simp only [h3, h4]
  rw [lagrangeProd_newCombiner r own others t (acts.take t) hmem hnc (fun q => 1 % q)]

/-- …and returns the error when one of them collides with `own` modulo some modulus. -/
theorem genAdditiveShare_collide_err (r : RingQP) (t : ℕ) (own : ℕ) (others acts : List ℕ) (share : QP)
    (hmem : ∀ a ∈ acts.take t, a ≠ own → a ∈ others)
    (hc : ∃ a ∈ acts.take t, a ≠ own ∧ pointsCollide r.ms own a = true) :
    genAdditiveShare (newCombiner r own others t) acts own share = .err := by
  unfold genAdditiveShare
  by_cases h1 : (acts.length : Int) < (newCombiner r own others t).threshold
  · rw [if_pos h1]
  · have h2 : ¬ ((newCombiner r own others t).threshold < 0) := by
      simp only [newCombiner]; omega
    rw [if_neg h1, if_neg h2]
    have h3 : (newCombiner r own others (t : Int)).threshold.toNat = t := by simp [newCombiner]
    have h4 : (newCombiner r own others (t : Int)).ring = r := rfl
    simp only [h3, h4]
    rw [lagrangeProd_collide_err r.ms _ own (acts.take t)
      (fun a ha hne => newCombiner_lookup r own others t a (hmem a ha hne) hne) hc]

/-- up to the call of `GenAdditiveShare`, a party's computation succeeds: it holds the aggregated
share `tsks`, every word of which is the sum of the dealers' polynomials at its point. -/
theorem party_prefix (r : RingQP) (N t : ℕ) (dealers : List ShamirPoly) (p : Party)
    (hd : ∀ sp ∈ dealers, sp ≠ [] ∧ ∀ c ∈ sp, ShapedQP r N c) :
    ∃ tsks, partyAdditiveShare r t (zeroQP r N) dealers p =
        genAdditiveShare (newCombiner r p.own p.others t) p.actives p.own tsks ∧ ShapedQP r N tsks ∧
      ∀ m k, m < r.ms.length → k < N →
        ent tsks.rows m k =
          sumMod (modAt r.ms m) 0 (dealers.map fun sp => horner (modAt r.ms m) p.own (sp.map fun c => ent c.rows m k)) := by
  let g : ShamirPoly → QP := fun sp => outGet (zeroQP r N) (genShamirSecretShare r p.own sp)
  have hg : ∀ sp ∈ dealers, genShamirSecretShare r p.own sp = .ok (g sp) ∧ ShapedQP r N (g sp) ∧
      ∀ m k, m < r.ms.length → k < N →
        ent (g sp).rows m k = horner (modAt r.ms m) p.own (sp.map fun c => ent c.rows m k) := by
    intro sp hsp
    obtain ⟨s, hs, hsh, he⟩ := share_spec r N p.own sp (hd sp hsp).1 (hd sp hsp).2
    have : g sp = s := by simp only [g, hs, outGet]
    rw [this]
    exact ⟨hs, hsh, he⟩
  obtain ⟨tsks, hts, htsh, hte⟩ := aggregateAll_spec r N (dealers.map g) (zeroQP r N) (shapedQP_zero r N)
    (by
      intro s hs
      rw [List.mem_map] at hs
      obtain ⟨sp, hsp, rfl⟩ := hs
      exact (hg sp hsp).2.1)
  refine ⟨tsks, ?_, htsh, ?_⟩
  · unfold partyAdditiveShare
    rw [foldr_bind_ok (genShamirSecretShare r p.own) g dealers (fun sp hsp => (hg sp hsp).1)]
    simp only [Outcome.bind]
    rw [hts]
  · intro m k hm hk
    rw [hte m k hm hk, ent_zero r N m k hm hk, List.map_map]
    congr 1
    apply List.map_congr_left
    intro sp hsp
    exact (hg sp hsp).2.2 m k hm hk

/-- what one active party derives. -/
theorem party_spec (r : RingQP) (N t : ℕ) (dealers : List ShamirPoly) (p : Party)
    (hd : ∀ sp ∈ dealers, sp ≠ [] ∧ ∀ c ∈ sp, ShapedQP r N c)
    (hlen : t ≤ p.actives.length) (hmem : ∀ a ∈ p.actives.take t, a ≠ p.own → a ∈ p.others)
    (hnc : ∀ a ∈ p.actives.take t, a ≠ p.own → pointsCollide r.ms p.own a = false) :
    ∃ a, partyAdditiveShare r t (zeroQP r N) dealers p = .ok a ∧ ShapedQP r N a ∧
      ∀ m k, m < r.ms.length → k < N →
        ent a.rows m k =
          sumMod (modAt r.ms m) 0 (dealers.map fun sp => horner (modAt r.ms m) p.own (sp.map fun c => ent c.rows m k))
            * lagProdScalar (modAt r.ms m) p.own (p.actives.take t) (1 % modAt r.ms m) % modAt r.ms m := by
  obtain ⟨tsks, hpre, htsh, hte⟩ := party_prefix r N t dealers p hd
  refine ⟨⟨r.nq, scaleRows r.ms tsks.rows
      (r.ms.map fun q => lagProdScalar q p.own (p.actives.take t) (1 % q))⟩, ?_,
    ⟨rfl, shaped_scaleRows r.ms tsks.rows _ rfl htsh.2⟩, ?_⟩
  · rw [hpre]
    exact genAdditiveShare_ok r t p.own p.others p.actives tsks hlen hmem hnc
  · intro m k hm hk
    rw [ent_scaleRows r.ms tsks.rows _ rfl htsh.2 m k hm hk, hte m k hm hk]

/-- a party one of whose first `t` active points collides with its own point gets the error. -/
theorem party_collide_err (r : RingQP) (N t : ℕ) (dealers : List ShamirPoly) (p : Party)
    (hd : ∀ sp ∈ dealers, sp ≠ [] ∧ ∀ c ∈ sp, ShapedQP r N c)
    (hmem : ∀ a ∈ p.actives.take t, a ≠ p.own → a ∈ p.others)
    (hc : ∃ a ∈ p.actives.take t, a ≠ p.own ∧ pointsCollide r.ms p.own a = true) :
    partyAdditiveShare r t (zeroQP r N) dealers p = .err := by
  obtain ⟨tsks, hpre, _, _⟩ := party_prefix r N t dealers p hd
  rw [hpre]
  exact genAdditiveShare_collide_err r t p.own p.others p.actives tsks hmem hc

/-- without table misses a party's outcome is a share or the error, never a panic. -/
theorem party_ok_or_err (r : RingQP) (N t : ℕ) (dealers : List ShamirPoly) (p : Party)
    (hd : ∀ sp ∈ dealers, sp ≠ [] ∧ ∀ c ∈ sp, ShapedQP r N c)
    (hlen : t ≤ p.actives.length) (hmem : ∀ a ∈ p.actives.take t, a ≠ p.own → a ∈ p.others) :
    (∃ s, partyAdditiveShare r t (zeroQP r N) dealers p = .ok s) ∨
      partyAdditiveShare r t (zeroQP r N) dealers p = .err := by
  by_cases hc : ∃ a ∈ p.actives.take t, a ≠ p.own ∧ pointsCollide r.ms p.own a = true
  · exact Or.inr (party_collide_err r N t dealers p hd hmem hc)
  · left
    have hnc : ∀ a ∈ p.actives.take t, a ≠ p.own → pointsCollide r.ms p.own a = false := by
      intro a ha hne
      by_contra h
      exact hc ⟨a, ha, hne, by simpa using h⟩
    obtain ⟨s, hs, _⟩ := party_spec r N t dealers p hd hlen hmem hnc
    exact ⟨s, hs⟩

/-- if some party gets the error (and none panics) the run returns the error. -/
theorem run_err (r : RingQP) (N t : ℕ) (dealers : List ShamirPoly) (parties : List Party)
    (hd : ∀ sp ∈ dealers, sp ≠ [] ∧ ∀ c ∈ sp, ShapedQP r N c)
    (hp : ∀ p ∈ parties, t ≤ p.actives.length ∧ ∀ a ∈ p.actives.take t, a ≠ p.own → a ∈ p.others)
    (hc : ∃ p ∈ parties, ∃ a ∈ p.actives.take t, a ≠ p.own ∧ pointsCollide r.ms p.own a = true) :
    thresholdRun r t (zeroQP r N) dealers parties = .err := by
  unfold thresholdRun
  rw [foldr_bind_err (partyAdditiveShare r t (zeroQP r N) dealers) parties
    (fun p hpp => party_ok_or_err r N t dealers p hd (hp p hpp).1 (hp p hpp).2)
    (by
      obtain ⟨p, hpp, hcp⟩ := hc
      exact ⟨p, hpp, party_collide_err r N t dealers p hd (hp p hpp).2 hcp⟩)]
  rfl

/-- the whole run: succeeds and every word is the sum (mod `q`) of the parties' words. -/
theorem run_spec (r : RingQP) (N t : ℕ) (dealers : List ShamirPoly) (parties : List Party)
    (hd : ∀ sp ∈ dealers, sp ≠ [] ∧ ∀ c ∈ sp, ShapedQP r N c)
    (hp : ∀ p ∈ parties, t ≤ p.actives.length ∧ (∀ a ∈ p.actives.take t, a ≠ p.own → a ∈ p.others) ∧
      ∀ a ∈ p.actives.take t, a ≠ p.own → pointsCollide r.ms p.own a = false) :
    ∃ out, thresholdRun r t (zeroQP r N) dealers parties = .ok out ∧ ShapedQP r N out ∧
      ∀ m k, m < r.ms.length → k < N →
        ent out.rows m k = sumMod (modAt r.ms m) 0 (parties.map fun p =>
          sumMod (modAt r.ms m) 0 (dealers.map fun sp => horner (modAt r.ms m) p.own (sp.map fun c => ent c.rows m k))
            * lagProdScalar (modAt r.ms m) p.own (p.actives.take t) (1 % modAt r.ms m) % modAt r.ms m) := by
  let g : Party → QP := fun p => outGet (zeroQP r N) (partyAdditiveShare r t (zeroQP r N) dealers p)
  have hg : ∀ p ∈ parties, partyAdditiveShare r t (zeroQP r N) dealers p = .ok (g p) ∧ ShapedQP r N (g p) ∧
      ∀ m k, m < r.ms.length → k < N →
        ent (g p).rows m k =
          sumMod (modAt r.ms m) 0 (dealers.map fun sp => horner (modAt r.ms m) p.own (sp.map fun c => ent c.rows m k))
            * lagProdScalar (modAt r.ms m) p.own (p.actives.take t) (1 % modAt r.ms m) % modAt r.ms m := by
    intro p hpp
    obtain ⟨a, ha, hsh, he⟩ := party_spec r N t dealers p hd (hp p hpp).1 (hp p hpp).2.1 (hp p hpp).2.2
    have : g p = a := by simp only [g, ha, outGet]
    rw [this]
    exact ⟨ha, hsh, he⟩
  obtain ⟨out, ho, hsh, he⟩ := aggregateAll_spec r N (parties.map g) (zeroQP r N) (shapedQP_zero r N)
    (by
      intro s hs
      rw [List.mem_map] at hs
      obtain ⟨p, hpp, rfl⟩ := hs
      exact (hg p hpp).2.1)
  refine ⟨out, ?_, hsh, ?_⟩
  · unfold thresholdRun
    rw [foldr_bind_ok (partyAdditiveShare r t (zeroQP r N) dealers) g parties (fun p hpp => (hg p hpp).1)]
    simp only [Outcome.bind]
    exact ho
  · intro m k hm hk
    rw [he m k hm hk, ent_zero r N m k hm hk, List.map_map]
    congr 1
    apply List.map_congr_left
    intro p hpp
    exact (hg p hpp).2.2 m k hm hk

end Lattigo.Proofs.Shamir
