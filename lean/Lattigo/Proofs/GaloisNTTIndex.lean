/-
  C11 proofs, part 10 (optional item): `ring.AutomorphismNTTIndex(N, 2N, g)` is a permutation of
  `[0, N)` for every odd `g` (standard ring, `NthRoot = 2N = 2^m`).
-/
import Lattigo.Proofs.Galois
import Mathlib.Data.Nat.Bitwise

namespace Lattigo.Proofs.Galois
open Lattigo Lattigo.Model.Galois

theorem bitRevAux_acc : ∀ (b x acc : Nat), bitRevAux b x acc = 2 ^ b * acc + bitRevAux b x 0 := by
  intro b
  induction b with
  | zero => intro x acc; simp [bitRevAux]
  | succ b ih =>
    intro x acc
    simp only [bitRevAux]
    rw [ih (x / 2) (2 * acc + x % 2), ih (x / 2) (2 * 0 + x % 2)]
    ring

theorem bitRev_succ (x b : Nat) : bitRev x (b + 1) = 2 ^ b * (x % 2) + bitRev (x / 2) b := by
  unfold bitRev
  simp only [bitRevAux]
  rw [bitRevAux_acc]; simp

theorem bitRev_lt : ∀ (b x : Nat), bitRev x b < 2 ^ b := by
  intro b
  induction b with
  | zero => intro x; simp [bitRev, bitRevAux]
  | succ b ih =>
    intro x
    rw [bitRev_succ, pow_succ]
    have := ih (x / 2)
    have h2 : x % 2 < 2 := Nat.mod_lt _ (by norm_num)
    have hp : 0 < 2 ^ b := by positivity
    nlinarith

/-- bit `j` of the reversal is bit `b-1-j` of the input -/
theorem testBit_bitRev : ∀ (b x j : Nat),
    (bitRev x b).testBit j = (decide (j < b) && x.testBit (b - 1 - j)) := by
  intro b
  induction b with
  | zero => intro x j; simp [bitRev, bitRevAux]
  | succ b ih =>
    intro x j
    rw [bitRev_succ, Nat.testBit_two_pow_mul_add _ (bitRev_lt b (x / 2))]
    by_cases hj : j < b
    · rw [if_pos hj, ih, Nat.testBit_div_two]
      have : b - 1 - j + 1 = b + 1 - 1 - j := by omega
      rw [this]; simp [hj, show j < b + 1 by omega]
    · rw [if_neg hj]
      by_cases hjb : j = b
      · subst hjb
        simp [Nat.testBit_zero]
      · have h1 : ¬ j < b + 1 := by omega
        have h2 : x % 2 < 2 ^ (j - b) := by
          have : 2 ^ 1 ≤ 2 ^ (j - b) := Nat.pow_le_pow_right (by norm_num) (by omega)
          have := Nat.mod_lt x (by norm_num : 2 > 0)
          omega
        simp [h1, Nat.testBit_lt_two_pow h2]

theorem bitRev_inj (b x y : Nat) (hx : x < 2 ^ b) (hy : y < 2 ^ b)
    (h : bitRev x b = bitRev y b) : x = y := by
  apply Nat.eq_of_testBit_eq
  intro i
  by_cases hi : i < b
  · have h1 := testBit_bitRev b x (b - 1 - i)
    have h2 := testBit_bitRev b y (b - 1 - i)
    rw [h] at h1
    rw [h1] at h2
    have e : b - 1 - (b - 1 - i) = i := by omega
    simp only [e, show b - 1 - i < b by omega, decide_true, Bool.true_and] at h2
    exact h2
  · have hle : 2 ^ b ≤ 2 ^ i := Nat.pow_le_pow_right (by norm_num) (by omega)
    rw [Nat.testBit_lt_two_pow (by omega), Nat.testBit_lt_two_pow (by omega)]

theorem len64_mask (m : Nat) (hm : 1 ≤ m) : len64 (2 ^ m - 1) - 1 = m - 1 := by
  unfold len64
  have hpos : 2 ^ m - 1 ≠ 0 := by
    have : 2 ≤ 2 ^ m := by
      calc 2 = 2 ^ 1 := by norm_num
        _ ≤ 2 ^ m := Nat.pow_le_pow_right (by norm_num) hm
    omega
  rw [if_neg hpos]
  have h1 : (2 ^ m - 1).log2 < m := (Nat.log2_lt hpos).mpr (by
    have : 0 < 2 ^ m := by positivity
    omega)
  have h2 : m - 1 ≤ (2 ^ m - 1).log2 := (Nat.le_log2 hpos).mpr (by
    have : 2 ^ m = 2 ^ (m - 1) * 2 := by rw [← pow_succ]; congr 1; omega
    have : 0 < 2 ^ (m - 1) := by positivity
    omega)
  omega

/-- the value of one table entry, in plain arithmetic -/
theorem nttIndexAt_eq (m : Nat) (hm1 : 1 ≤ m) (hm : m ≤ 64) (g i : Nat) (hg : g % 2 = 1) :
    nttIndexAt (2 ^ m) g i
      = bitRev ((g * (2 * bitRev i (m - 1) + 1) % 2 ^ m - 1) / 2) (m - 1) := by
  unfold nttIndexAt
  simp only [len64_mask m hm1]
  have hr := bitRev_lt (m - 1) i
  have h63 : 2 ^ (m - 1) ≤ 2 ^ 63 := Nat.pow_le_pow_right (by norm_num) (by omega)
  have hW : W = 2 ^ 64 := W_eq
  have ht1 : u64add (u64mul 2 (bitRev i (m - 1))) 1 = 2 * bitRev i (m - 1) + 1 := by
    unfold u64add u64mul
    rw [Nat.mod_eq_of_lt (by rw [hW]; omega), Nat.mod_eq_of_lt (by rw [hW]; omega)]
  rw [ht1]
  have hmask : (u64mul g (2 * bitRev i (m - 1) + 1) &&& (2 ^ m - 1))
      = g * (2 * bitRev i (m - 1) + 1) % 2 ^ m := by
    unfold u64mul
    rw [Nat.and_two_pow_sub_one_eq_mod, hW, Nat.mod_mod_of_dvd _ (Nat.pow_dvd_pow 2 hm)]
  rw [hmask]
  have hodd : g * (2 * bitRev i (m - 1) + 1) % 2 ^ m % 2 = 1 := by
    have hd : 2 ∣ 2 ^ m := dvd_pow_self 2 (by omega)
    rw [Nat.mod_mod_of_dvd _ hd, Nat.mul_mod, hg]; simp [Nat.add_mod]
  have hlt : g * (2 * bitRev i (m - 1) + 1) % 2 ^ m < 2 ^ m := Nat.mod_lt _ (by positivity)
  have hle : 2 ^ m ≤ 2 ^ 64 := Nat.pow_le_pow_right (by norm_num) hm
  have hsub : u64sub (g * (2 * bitRev i (m - 1) + 1) % 2 ^ m) 1
      = g * (2 * bitRev i (m - 1) + 1) % 2 ^ m - 1 := by
    unfold u64sub
    rw [hW]
    generalize g * (2 * bitRev i (m - 1) + 1) % 2 ^ m = a at *
    have : 1 % 2 ^ 64 = 1 := by norm_num
    rw [this]
    have ha : 1 ≤ a := by omega
    rw [show a + 2 ^ 64 - 1 = (a - 1) + 2 ^ 64 by omega, Nat.add_mod_right,
      Nat.mod_eq_of_lt (by omega)]
  rw [hsub, shr_one]

/-- **`nttIndex_perm`**: for `NthRoot = 2N = 2^m` (`1 ≤ m ≤ 64`) and odd `g`,
    `AutomorphismNTTIndex(N, NthRoot, g)` succeeds and its table has no repetition and only
    entries `< N`; being of length `N`, it is a permutation of `[0, N)`. -/
theorem nttIndex_perm (m : Nat) (hm1 : 1 ≤ m) (hm : m ≤ 64) (g : Nat) (hg : g % 2 = 1) :
    ∃ l, automorphismNTTIndex (2 ^ (m - 1)) (2 ^ m) g = some l ∧ l.length = 2 ^ (m - 1) ∧
      l.Nodup ∧ ∀ x ∈ l, x < 2 ^ (m - 1) := by
  refine ⟨(List.range (2 ^ (m - 1))).map (nttIndexAt (2 ^ m) g), ?_, by simp, ?_, ?_⟩
  · unfold automorphismNTTIndex
    rw [if_neg (by rw [Nat.and_two_pow_sub_one_eq_mod]; simp),
      if_neg (by rw [Nat.and_two_pow_sub_one_eq_mod]; simp)]
  · apply List.Nodup.map_on _ List.nodup_range
    intro i hi j hj hij
    rw [List.mem_range] at hi hj
    rw [nttIndexAt_eq m hm1 hm g i hg, nttIndexAt_eq m hm1 hm g j hg] at hij
    -- notation
    have h2m : 2 ^ m = 2 ^ (m - 1) * 2 := by rw [← pow_succ]; congr 1; omega
    have hodd : ∀ i, g * (2 * bitRev i (m - 1) + 1) % 2 ^ m % 2 = 1 := by
      intro i
      have hd : 2 ∣ 2 ^ m := dvd_pow_self 2 (by omega)
      rw [Nat.mod_mod_of_dvd _ hd, Nat.mul_mod, hg]; simp [Nat.add_mod]
    have hlt : ∀ i, g * (2 * bitRev i (m - 1) + 1) % 2 ^ m < 2 ^ m :=
      fun i => Nat.mod_lt _ (by positivity)
    have hmid : ∀ i, (g * (2 * bitRev i (m - 1) + 1) % 2 ^ m - 1) / 2 < 2 ^ (m - 1) := by
      intro i
      have := hlt i; have := hodd i
      omega
    have h1 := bitRev_inj (m - 1) _ _ (hmid i) (hmid j) hij
    have h2 : g * (2 * bitRev i (m - 1) + 1) % 2 ^ m = g * (2 * bitRev j (m - 1) + 1) % 2 ^ m := by
      have := hodd i; have := hodd j; omega
    -- cancel the unit g
    have hcop : Nat.Coprime g (2 ^ m) := by
      apply Nat.Coprime.pow_right
      rw [Nat.coprime_comm, Nat.Prime.coprime_iff_not_dvd Nat.prime_two]; omega
    have h3 : ((g * (2 * bitRev i (m - 1) + 1) : Nat) : ZMod (2 ^ m))
        = ((g * (2 * bitRev j (m - 1) + 1) : Nat) : ZMod (2 ^ m)) := by
      rw [ZMod.natCast_eq_natCast_iff]; exact h2
    rw [Nat.cast_mul, Nat.cast_mul, ← ZMod.coe_unitOfCoprime g hcop] at h3
    have h4 := (Units.mul_right_inj _).mp h3
    have hri := bitRev_lt (m - 1) i
    have hrj := bitRev_lt (m - 1) j
    have h5 := eq_of_cast_eq (2 ^ m) _ _ (by omega) (by omega) h4
    exact bitRev_inj (m - 1) i j hi hj (by omega)
  · intro x hx
    rw [List.mem_map] at hx
    obtain ⟨i, _, rfl⟩ := hx
    rw [nttIndexAt_eq m hm1 hm g i hg]
    exact bitRev_lt _ _

end Lattigo.Proofs.Galois
