/-
  C19 — the NTT-friendly prime generator (ring/primes.go) and `GenModuli` (core/rlwe/params.go):
  what the loops return when they return.
-/
import Lattigo.Model.Params
import Mathlib.Tactic.Ring
import Mathlib.Data.List.Nodup

namespace Lattigo.Params
open Lattigo

/-! ### word arithmetic without wrap -/

theorem u64add_small {a b : Nat} (h : a + b < W) : u64add a b = a + b := Nat.mod_eq_of_lt h

theorem u64sub_small {a b : Nat} (hb : b ≤ a) (ha : a < W) : u64sub a b = a - b := by
  unfold u64sub
  have hbm : b % W = b := Nat.mod_eq_of_lt (by omega)
  rw [hbm]
  have : a + W - b = (a - b) + W := by omega
  rw [this, Nat.add_mod_right, Nat.mod_eq_of_lt (by omega)]

theorem sub_mod_self {a r : Nat} (h : r ≤ a) : (a - r) % r = a % r := by
  conv_rhs => rw [show a = (a - r) + r by omega]
  rw [Nat.add_mod_right]

/-! ### specification of one generated prime -/

/-- `x` is an acceptable output for the bit-size request `S` and root order `r`:
    the oracle calls it prime, it is `1 mod r`, and `|log2 x − S| < 1/2` (in exact arithmetic). -/
structure Good (o : Oracle) (S r x : Nat) : Prop where
  prime : o.isPrime x = true
  ntt : x % r = 1
  lo : 2 ^ (2 * S) < 2 * (x * x)
  hi : x * x < 2 ^ (2 * S + 1)

/-- the two float tests are read exactly (false ⇒ the candidate is inside the half-bit window) -/
structure StopSound (o : Oracle) : Prop where
  up : ∀ S c, o.stopUp S c = false → c * c < 2 ^ (2 * S + 1)
  down : ∀ S c, o.stopDown S c = false → 2 ^ (2 * S) < 2 * (c * c)

theorem exactOracle_stopSound : StopSound exactOracle := by
  constructor
  · intro S c h
    simp only [exactOracle, stopUpExact, decide_eq_false_iff_not, ge_iff_le, not_le] at h
    exact h
  · intro S c h
    simp only [exactOracle, stopDownExact, decide_eq_false_iff_not, not_le] at h
    exact h

/-- invariant of the two cursors of the generator -/
structure LInv (S r np pp : Nat) : Prop where
  np_mod : np % r = 1
  pp_mod : pp % r = 1
  pp_le : pp ≤ 2 ^ S
  np_gt : 2 ^ S < np
  np_lt : np < W

theorem sq_bounds_up {S x : Nat} (h : 2 ^ S < x) : 2 ^ (2 * S) < 2 * (x * x) := by
  have h1 : 2 ^ S * 2 ^ S < x * x := Nat.mul_lt_mul'' h h
  have : 2 ^ (2 * S) = 2 ^ S * 2 ^ S := by rw [two_mul, Nat.pow_add]
  omega

theorem sq_bounds_down {S x : Nat} (h : x ≤ 2 ^ S) : x * x < 2 ^ (2 * S + 1) := by
  have h1 : x * x ≤ 2 ^ S * 2 ^ S := Nat.mul_le_mul h h
  have h2 : 2 ^ (2 * S) = 2 ^ S * 2 ^ S := by rw [two_mul, Nat.pow_add]
  have h3 : 2 ^ (2 * S + 1) = 2 * 2 ^ (2 * S) := by rw [Nat.pow_succ]; ring
  have : 0 < 2 ^ (2 * S) := Nat.two_pow_pos _
  omega

/-! ### NextAlternatingPrime -/

theorem altLoop_ok (o : Oracle) (hs : StopSound o) {S r : Nat} (hr : 2 ≤ r)
    (g : Gen) (hgS : g.size = S) (hgr : g.nthRoot = r) :
    ∀ (fuel np pp : Nat) (cn cp : Bool) (g' : Gen) (x : Nat), LInv S r np pp →
      altLoop o g fuel np pp cn cp = (g', .ok x) →
      g'.size = S ∧ g'.nthRoot = r ∧ LInv S r g'.next g'.prev ∧ Good o S r x ∧
      g'.prev ≤ pp ∧ np ≤ g'.next ∧ g'.prev < x ∧ x < g'.next ∧ (x ≤ pp ∨ np ≤ x) := by
  subst hgS hgr
  intro fuel
  induction fuel with
  | zero => intro np pp cn cp g' x _ h; simp [altLoop] at h
  | succ fuel ih =>
    intro np pp cn cp g' x inv h
    have hppW : pp < W := by
      have := inv.pp_le; have := inv.np_gt; have := inv.np_lt; omega
    unfold altLoop at h
    split at h
    · simp at h
    · dsimp only at h
      split at h
      · -- returned upstream
        rename_i _ hup
        simp only [Bool.and_eq_true, Bool.not_eq_true', Bool.or_eq_false_iff,
          decide_eq_false_iff_not, not_lt, Bool.and_eq_false_imp] at hup
        obtain ⟨⟨hcn, hns⟩, hprime⟩ := hup
        have hns' := hns hcn
        have hadd : np + g.nthRoot < W := by
          have := hns'.2; have := inv.np_gt; have := Nat.two_pow_pos g.size; unfold W at *; omega
        injection h with hg hx
        injection hx with hx
        subst hx; subst hg
        simp only [u64add_small hadd]
        refine ⟨trivial, trivial, ?_, ?_, Nat.le_refl _, by omega, ?_, by omega, Or.inr (Nat.le_refl _)⟩
        · exact ⟨by rw [Nat.add_mod_right]; exact inv.np_mod, inv.pp_mod, inv.pp_le,
            by have := inv.np_gt; omega, hadd⟩
        · exact ⟨hprime, inv.np_mod, sq_bounds_up inv.np_gt, hs.up _ _ hns'.1⟩
        · have := inv.pp_le; have := inv.np_gt; omega
      · rename_i _ hup
        -- the new upstream cursor
        have hnp1 : ∀ np1, np1 = (if (cn && !(cn && (o.stopUp g.size np || decide (np > W - 1 - g.nthRoot)))) = true
            then u64add np g.nthRoot else np) → LInv g.size g.nthRoot np1 pp ∧ np ≤ np1 := by
          intro np1 h1
          by_cases hc : (cn && !(cn && (o.stopUp g.size np || decide (np > W - 1 - g.nthRoot)))) = true
          · simp only [hc, if_true] at h1
            simp only [Bool.and_eq_true, Bool.not_eq_true', Bool.and_eq_false_imp,
              Bool.or_eq_false_iff, decide_eq_false_iff_not, not_lt] at hc
            have hadd : np + g.nthRoot < W := by
              have := (hc.2 hc.1).2; have := inv.np_gt; have := Nat.two_pow_pos g.size; unfold W at *; omega
            rw [u64add_small hadd] at h1
            subst h1
            exact ⟨⟨by rw [Nat.add_mod_right]; exact inv.np_mod, inv.pp_mod, inv.pp_le,
              by have := inv.np_gt; omega, hadd⟩, by omega⟩
          · simp only [hc, if_false] at h1
            subst h1
            exact ⟨inv, Nat.le_refl _⟩
        split at h
        · -- returned downstream
          rename_i _ hdown
          simp only [Bool.and_eq_true, Bool.not_eq_true', Bool.or_eq_false_iff,
            decide_eq_false_iff_not, not_lt, Bool.and_eq_false_imp] at hdown
          obtain ⟨⟨hcp, hns⟩, hprime⟩ := hdown
          have hns' := hns hcp
          injection h with hg hx
          injection hx with hx
          subst hx; subst hg
          obtain ⟨inv1, hle1⟩ := hnp1 _ rfl
          simp only [u64sub_small hns'.2 hppW]
          refine ⟨trivial, trivial, ?_, ?_, by omega, hle1, by omega, ?_, Or.inl (Nat.le_refl _)⟩
          · exact ⟨inv1.np_mod, by rw [sub_mod_self hns'.2]; exact inv.pp_mod,
              by have := inv.pp_le; omega, inv1.np_gt, inv1.np_lt⟩
          · exact ⟨hprime, inv.pp_mod, hs.down _ _ hns'.1, sq_bounds_down inv.pp_le⟩
          · have := inv.pp_le; have := inv1.np_gt; omega
        · -- next iteration
          rename_i _ hdown
          obtain ⟨inv1, hle1⟩ := hnp1 _ rfl
          have hpp1 : ∀ pp1, pp1 = (if (cp && !(cp && (o.stopDown g.size pp || decide (pp < g.nthRoot)))) = true
              then u64sub pp g.nthRoot else pp) →
              ∀ np1, LInv g.size g.nthRoot np1 pp → LInv g.size g.nthRoot np1 pp1 ∧ pp1 ≤ pp := by
            intro pp1 h1 np1 i1
            by_cases hc : (cp && !(cp && (o.stopDown g.size pp || decide (pp < g.nthRoot)))) = true
            · simp only [hc, if_true] at h1
              simp only [Bool.and_eq_true, Bool.not_eq_true', Bool.and_eq_false_imp,
                Bool.or_eq_false_iff, decide_eq_false_iff_not, not_lt] at hc
              have hge : g.nthRoot ≤ pp := (hc.2 hc.1).2
              rw [u64sub_small hge hppW] at h1
              subst h1
              exact ⟨⟨i1.np_mod, by rw [sub_mod_self hge]; exact i1.pp_mod,
                by have := i1.pp_le; omega, i1.np_gt, i1.np_lt⟩, by omega⟩
            · simp only [hc, if_false] at h1
              subst h1
              exact ⟨i1, Nat.le_refl _⟩
          obtain ⟨inv2, hle2⟩ := hpp1 _ rfl _ inv1
          have := ih _ _ _ _ g' x inv2 h
          obtain ⟨a1, a2, a3, a4, a5, a6, a7, a8, a9⟩ := this
          refine ⟨a1, a2, a3, a4, by omega, by omega, a7, a8, ?_⟩
          rcases a9 with a9 | a9
          · exact Or.inl (by omega)
          · exact Or.inr (by omega)

/-! ### NextDownstreamPrime -/

theorem downLoop_ok (o : Oracle) (hs : StopSound o) (g : Gen) :
    ∀ (fuel c : Nat) (g' : Gen) (x : Nat), LInv g.size g.nthRoot g.next c →
      downLoop o g fuel c = (g', .ok x) →
      g'.size = g.size ∧ g'.nthRoot = g.nthRoot ∧ g'.next = g.next ∧
      LInv g.size g.nthRoot g'.next g'.prev ∧ Good o g.size g.nthRoot x ∧
      g'.prev ≤ c ∧ g'.prev < x ∧ x ≤ c := by
  intro fuel
  induction fuel with
  | zero => intro c g' x _ h; simp [downLoop] at h
  | succ fuel ih =>
    intro c g' x inv h
    have hcW : c < W := by
      have := inv.pp_le; have := inv.np_gt; have := inv.np_lt; omega
    unfold downLoop at h
    split at h
    · simp at h
    · split at h
      · simp at h
      · rename_i _ hstop
        simp only [Bool.or_eq_true, decide_eq_true_eq, not_or, Bool.not_eq_true, not_lt] at hstop
        split at h
        · rename_i hprime
          injection h with hg hx
          injection hx with hx
          subst hx; subst hg
          simp only [u64sub_small hstop.2 hcW]
          have hr : 0 < g.nthRoot := by
            rcases Nat.eq_zero_or_pos g.nthRoot with h0 | h0
            · have h1 := inv.np_mod
              have h2 := inv.pp_mod
              rw [h0, Nat.mod_zero] at h1 h2
              have := inv.pp_le; have := inv.np_gt; omega
            · exact h0
          refine ⟨trivial, trivial, trivial, ?_, ?_, by omega, by omega, Nat.le_refl _⟩
          · exact ⟨inv.np_mod, by rw [sub_mod_self hstop.2]; exact inv.pp_mod,
              by have := inv.pp_le; omega, inv.np_gt, inv.np_lt⟩
          · exact ⟨hprime, inv.pp_mod, hs.down _ _ hstop.1, sq_bounds_down inv.pp_le⟩
        · have inv' : LInv g.size g.nthRoot g.next (u64sub c g.nthRoot) := by
            rw [u64sub_small hstop.2 hcW]
            exact ⟨inv.np_mod, by rw [sub_mod_self hstop.2]; exact inv.pp_mod,
              by have := inv.pp_le; omega, inv.np_gt, inv.np_lt⟩
          obtain ⟨a1, a2, a3, a4, a5, a6, a7, a8⟩ := ih _ g' x inv' h
          rw [u64sub_small hstop.2 hcW] at a6 a8
          exact ⟨a1, a2, a3, a4, a5, by omega, a7, by omega⟩

/-! ### k primes in a row -/

/-- what one successful step of a generator guarantees -/
def StepSpec (o : Oracle) (S r : Nat) (step : Gen → Gen × Res Nat) : Prop :=
  ∀ g g' x, g.size = S → g.nthRoot = r → LInv S r g.next g.prev → step g = (g', .ok x) →
    g'.size = S ∧ g'.nthRoot = r ∧ LInv S r g'.next g'.prev ∧ Good o S r x ∧
    g'.prev ≤ g.prev ∧ g.next ≤ g'.next ∧ g'.prev < x ∧ x < g'.next ∧ (x ≤ g.prev ∨ g.next ≤ x)

theorem nextAlt_stepSpec (o : Oracle) (hs : StopSound o) (fuel S r : Nat) (hr : 2 ≤ r) :
    StepSpec o S r (nextAlt o fuel) := by
  intro g g' x hS hR inv h
  exact altLoop_ok o hs hr g hS hR fuel _ _ _ _ g' x inv h

theorem nextDown_stepSpec (o : Oracle) (hs : StopSound o) (fuel S r : Nat) :
    StepSpec o S r (nextDown o fuel) := by
  intro g g' x hS hR inv h
  subst hS hR
  obtain ⟨a1, a2, a3, a4, a5, a6, a7, a8⟩ := downLoop_ok o hs g fuel _ g' x inv h
  refine ⟨a1, a2, a4, a5, a6, by omega, a7, ?_, Or.inl a8⟩
  have := inv.pp_le; have := inv.np_gt; omega

theorem nextPrimes_ok (o : Oracle) (S r : Nat) (step : Gen → Gen × Res Nat)
    (hstep : StepSpec o S r step) :
    ∀ (k : Nat) (g g' : Gen) (ps : List Nat), g.size = S → g.nthRoot = r →
      LInv S r g.next g.prev → nextPrimes step k g = (g', .ok ps) →
      ps.length = k ∧ (∀ x ∈ ps, Good o S r x) ∧ ps.Nodup ∧
      (∀ x ∈ ps, x ≤ g.prev ∨ g.next ≤ x) := by
  intro k
  induction k with
  | zero =>
    intro g g' ps _ _ _ h
    simp only [nextPrimes, Prod.mk.injEq, Res.ok.injEq] at h
    obtain ⟨_, rfl⟩ := h
    simp
  | succ k ih =>
    intro g g' ps hS hR inv h
    unfold nextPrimes at h
    split at h
    · rename_i g1 x hst
      obtain ⟨b1, b2, b3, b4, b5, b6, b7, b8, b9⟩ := hstep g g1 x hS hR inv hst
      split at h
      · rename_i g2 ps' hrec
        simp only [Prod.mk.injEq, Res.ok.injEq] at h
        obtain ⟨_, rfl⟩ := h
        obtain ⟨c1, c2, c3, c4⟩ := ih g1 g2 ps' b1 b2 b3 hrec
        refine ⟨by simp [c1], ?_, ?_, ?_⟩
        · intro y hy
          rcases List.mem_cons.mp hy with rfl | hy
          · exact b4
          · exact c2 y hy
        · refine List.nodup_cons.mpr ⟨?_, c3⟩
          intro hx
          have := c4 x hx
          omega
        · intro y hy
          rcases List.mem_cons.mp hy with rfl | hy
          · exact b9
          · have := c4 y hy
            omega
      all_goals simp at h
    all_goals simp at h

/-! ### the initial state -/

theorem u64shl_one {S : Nat} (h : S < 64) : u64shl 1 S = 2 ^ S := by
  unfold u64shl
  rw [Nat.one_mul]
  apply Nat.mod_eq_of_lt
  have : 2 ^ S < 2 ^ 64 := Nat.pow_lt_pow_right (by decide) h
  simpa [W_eq] using this

theorem newGen_inv {S r : Nat} (hS : S ≤ 61) (hr : 2 ≤ r) (hd : r ∣ 2 ^ S) :
    (newGen S r).size = S ∧ (newGen S r).nthRoot = r ∧
    LInv S r (newGen S r).next (newGen S r).prev ∧
    (newGen S r).checkNext = true ∧ (newGen S r).checkPrev = true := by
  have hpow : 2 ^ S ≤ 2 ^ 61 := Nat.pow_le_pow_right (by decide) hS
  have hrle : r ≤ 2 ^ S := Nat.le_of_dvd (Nat.two_pow_pos S) hd
  have hbase : u64add (u64shl 1 S) 1 = 2 ^ S + 1 := by
    rw [u64shl_one (by omega)]
    apply u64add_small
    unfold W; omega
  have hmod0 : 2 ^ S % r = 0 := Nat.mod_eq_zero_of_dvd hd
  have hmod : (2 ^ S + 1) % r = 1 := by
    rw [Nat.add_mod, hmod0, Nat.zero_add, Nat.mod_mod, Nat.mod_eq_of_lt (by omega)]
  unfold newGen
  simp only [hbase]
  have hsub : u64sub (2 ^ S + 1) r = 2 ^ S + 1 - r := u64sub_small (by omega) (by unfold W; omega)
  rw [hsub]
  refine ⟨trivial, trivial, ⟨hmod, ?_, by omega, by omega, by unfold W; omega⟩, ?_, ?_⟩
  · rw [sub_mod_self (by omega)]; exact hmod
  · have : r ≠ 0 := by omega
    simp only [Bool.and_eq_true, Bool.not_eq_true', decide_eq_false_iff_not, not_lt, this,
      not_false_eq_true, and_true]
    unfold W; omega
  · have : r ≠ 0 := by omega
    simp only [Bool.and_eq_true, Bool.not_eq_true', decide_eq_false_iff_not, not_lt, this,
      not_false_eq_true, and_true]
    omega

/-- primes generated for one size -/
theorem genForSize_ok (o : Oracle) (hs : StopSound o) (fuel r S k : Nat) (ps : List Nat)
    (hS : S ≤ 61) (hr : 2 ≤ r) (hd : r ∣ 2 ^ S)
    (h : genForSize o fuel r S k = .ok ps) :
    ps.length = k ∧ (∀ x ∈ ps, Good o S r x) ∧ ps.Nodup := by
  obtain ⟨i1, i2, i3, _, _⟩ := newGen_inv hS hr hd
  unfold genForSize genPrimes at h
  by_cases h61 : S = 61
  · simp only [h61, if_true] at h
    simp only [show (1 : Nat) ≠ 0 by decide, if_false, if_true] at h
    have hsp := nextDown_stepSpec o hs fuel S r
    rw [h61] at hsp i1 i3
    have := nextPrimes_ok o 61 r _ hsp k (newGen 61 r) _ ps i1 (by rw [← h61]; exact i2) i3
      (by rw [Prod.ext_iff]; exact ⟨rfl, h⟩)
    rw [h61]
    exact ⟨this.1, this.2.1, this.2.2.1⟩
  · simp only [h61, if_false] at h
    simp only [show (2 : Nat) ≠ 0 by decide, show (2 : Nat) ≠ 1 by decide, if_false] at h
    have hsp := nextAlt_stepSpec o hs fuel S r hr
    have := nextPrimes_ok o S r _ hsp k (newGen S r) _ ps i1 i2 i3
      (by rw [Prod.ext_iff]; exact ⟨rfl, h⟩)
    exact ⟨this.1, this.2.1, this.2.2.1⟩

/-! ### GenModuli: the table of primes per size and its assignment to the requests -/

/-- windows of different sizes are disjoint -/
theorem Good.size_unique {o : Oracle} {s s' r x : Nat} (h : Good o s r x) (h' : Good o s' r x) :
    s = s' := by
  have a : 2 ^ (2 * s) < 2 ^ (2 * s' + 2) := by
    have := h.lo; have := h'.hi
    have e : 2 ^ (2 * s' + 2) = 2 * 2 ^ (2 * s' + 1) := by rw [Nat.pow_succ]; ring
    omega
  have b : 2 ^ (2 * s') < 2 ^ (2 * s + 2) := by
    have := h'.lo; have := h.hi
    have e : 2 ^ (2 * s + 2) = 2 * 2 ^ (2 * s + 1) := by rw [Nat.pow_succ]; ring
    omega
  have a' := (Nat.pow_lt_pow_iff_right (by decide : 1 < 2)).mp a
  have b' := (Nat.pow_lt_pow_iff_right (by decide : 1 < 2)).mp b
  omega

def TblOK (o : Oracle) (r : Nat) (cnt : Nat → Nat) (tbl : List (Nat × List Nat)) : Prop :=
  ∀ e ∈ tbl, e.2.length = cnt e.1 ∧ (∀ x ∈ e.2, Good o e.1 r x) ∧ e.2.Nodup

theorem genAll_ok (o : Oracle) (hs : StopSound o) (fuel r : Nat) (req : List Nat) (hr : 2 ≤ r) :
    ∀ (sizes : List Nat) (tbl : List (Nat × List Nat)), (∀ s ∈ sizes, s ≤ 61 ∧ r ∣ 2 ^ s) →
      genAll o fuel r req sizes = .ok tbl →
      tbl.map Prod.fst = sizes ∧ TblOK o r (fun s => req.count s) tbl := by
  intro sizes
  induction sizes with
  | nil =>
    intro tbl _ h
    simp only [genAll, Res.ok.injEq] at h
    subst h
    exact ⟨rfl, by intro e he; cases he⟩
  | cons s rest ih =>
    intro tbl hsz h
    unfold genAll at h
    split at h
    · rename_i ps hps
      split at h
      · rename_i tbl' hrec
        simp only [Res.ok.injEq] at h
        subst h
        have hs0 := hsz s (List.mem_cons_self ..)
        obtain ⟨g1, g2, g3⟩ := genForSize_ok o hs fuel r s _ ps hs0.1 hr hs0.2 hps
        obtain ⟨t1, t2⟩ := ih tbl' (fun t ht => hsz t (List.mem_cons_of_mem _ ht)) hrec
        refine ⟨by simp [t1], ?_⟩
        intro e he
        rcases List.mem_cons.mp he with rfl | he
        · exact ⟨g1, g2, g3⟩
        · exact t2 e he
      all_goals simp at h
    all_goals simp at h

theorem lookupSize_ok {o : Oracle} {r : Nat} {cnt : Nat → Nat} {tbl : List (Nat × List Nat)} {s : Nat}
    (hmem : s ∈ tbl.map Prod.fst) (htbl : TblOK o r cnt tbl) :
    (lookupSize tbl s).length = cnt s ∧ (∀ x ∈ lookupSize tbl s, Good o s r x) ∧
    (lookupSize tbl s).Nodup := by
  unfold lookupSize
  cases hf : tbl.find? (fun e => e.1 == s) with
  | none =>
    exfalso
    rw [List.find?_eq_none] at hf
    obtain ⟨e, he, hes⟩ := List.mem_map.mp hmem
    have := hf e he
    simp [hes] at this
  | some e =>
    have he := List.mem_of_find?_eq_some hf
    have hk := List.find?_some hf
    simp only [beq_iff_eq] at hk
    subst hk
    exact htbl e he

theorem getD_eq_getElem {l : List Nat} {i : Nat} (h : i < l.length) : l.getD i 0 = l[i] := by
  simp [List.getD_eq_getElem?_getD, List.getElem?_eq_getElem h]

theorem assign_spec (o : Oracle) (r : Nat) (cnt : Nat → Nat) (tbl : List (Nat × List Nat))
    (htbl : TblOK o r cnt tbl) :
    ∀ (rest seen : List Nat), (∀ s ∈ rest, s ∈ tbl.map Prod.fst) →
      (∀ s, seen.count s + rest.count s ≤ cnt s) →
      List.Forall₂ (fun s x => Good o s r x) rest (assign tbl seen rest) ∧
      (assign tbl seen rest).Nodup ∧
      ∀ y ∈ assign tbl seen rest, ∃ s k, ∃ hk : k < (lookupSize tbl s).length,
        seen.count s ≤ k ∧ y = (lookupSize tbl s)[k] := by
  intro rest
  induction rest with
  | nil => intro seen _ _; simp [assign]
  | cons s rest ih =>
    intro seen hkeys hcnt
    obtain ⟨l1, l2, l3⟩ := lookupSize_ok (hkeys s (List.mem_cons_self ..)) htbl
    have hlt : seen.count s < (lookupSize tbl s).length := by
      have := hcnt s
      simp only [List.count_cons_self] at this
      omega
    have hcnt' : ∀ t, (s :: seen).count t + rest.count t ≤ cnt t := by
      intro t
      have := hcnt t
      simp only [List.count_cons] at this ⊢
      omega
    obtain ⟨i1, i2, i3⟩ := ih (s :: seen) (fun t ht => hkeys t (List.mem_cons_of_mem _ ht)) hcnt'
    unfold assign
    rw [getD_eq_getElem hlt]
    refine ⟨List.Forall₂.cons (l2 _ (List.getElem_mem hlt)) i1, ?_, ?_⟩
    · refine List.nodup_cons.mpr ⟨?_, i2⟩
      intro hmem
      obtain ⟨s', k, hk, hle, hy⟩ := i3 _ hmem
      have hg1 : Good o s r ((lookupSize tbl s)[seen.count s]) := l2 _ (List.getElem_mem hlt)
      have hs' : s' ∈ tbl.map Prod.fst := by
        by_contra hne
        have : lookupSize tbl s' = [] := by
          unfold lookupSize
          cases hf : tbl.find? (fun e => e.1 == s') with
          | none => rfl
          | some e =>
            exfalso
            have he := List.mem_of_find?_eq_some hf
            have hk' := List.find?_some hf
            simp only [beq_iff_eq] at hk'
            exact hne (List.mem_map.mpr ⟨e, he, hk'⟩)
        rw [this] at hk
        simp at hk
      obtain ⟨m1, m2, m3⟩ := lookupSize_ok hs' htbl
      have hg2 : Good o s' r ((lookupSize tbl s)[seen.count s]) := by
        rw [hy]; exact m2 _ (List.getElem_mem hk)
      have hss : s = s' := hg1.size_unique hg2
      subst hss
      have hidx : seen.count s = k := (List.Nodup.getElem_inj_iff l3).mp hy
      simp only [List.count_cons_self] at hle
      omega
    · intro y hy
      rcases List.mem_cons.mp hy with rfl | hy
      · exact ⟨s, seen.count s, hlt, Nat.le_refl _, rfl⟩
      · obtain ⟨s', k, hk, hle, hy'⟩ := i3 y hy
        refine ⟨s', k, hk, ?_, hy'⟩
        have : seen.count s' ≤ (s :: seen).count s' := by
          simp only [List.count_cons]; omega
        omega

/-! ### GenModuli -/

theorem firstIdx_none' {α} (bad : α → Bool) :
    ∀ (l : List α) (i : Nat), firstIdx bad l i = none → ∀ x ∈ l, bad x = false := by
  intro l
  induction l with
  | nil => intro i _ x hx; cases hx
  | cons y ys ih =>
    intro i h x hx
    unfold firstIdx at h
    by_cases hy : bad y = true
    · simp [hy] at h
    · simp [hy] at h
      rcases List.mem_cons.mp hx with rfl | hx
      · simpa using hy
      · exact ih (i + 1) h x hx

theorem checkModuliLogSize_none {logQ logP : List Int} (h : checkModuliLogSize logQ logP = none) :
    (∀ s ∈ logQ, 0 < s ∧ s ≤ 60) ∧ (∀ s ∈ logP, 0 < s ∧ s ≤ 61) := by
  unfold checkModuliLogSize at h
  split at h
  · cases h
  · rename_i h1
    split at h
    · cases h
    · rename_i h2
      constructor
      · intro s hs
        have := firstIdx_none' _ _ _ h1 s hs
        simp [MaxModuliSize] at this
        omega
      · intro s hs
        have := firstIdx_none' _ _ _ h2 s hs
        simp [MaxModuliSize] at this
        omega

theorem checkSizesAboveRoot_none {l : Int} {logQ logP : List Int}
    (h : checkSizesAboveRoot l logQ logP = none) : ∀ s ∈ logQ ++ logP, l ≤ s := by
  unfold checkSizesAboveRoot at h
  split at h
  · cases h
  · rename_i h1
    split at h
    · cases h
    · rename_i h2
      intro s hs
      rcases List.mem_append.mp hs with hs | hs
      · have := firstIdx_none' _ _ _ h1 s hs
        simp at this
        exact this
      · have := firstIdx_none' _ _ _ h2 s hs
        simp at this
        exact this

/-- **genModuli_spec** — when `GenModuli(LogNthRoot, logQ, logP)` returns moduli then (given that the
    two float tests are exact, `StopSound`) `5 ≤ LogNthRoot ≤ 22`, every modulus is `1 mod 2^LogNthRoot`,
    accepted by the primality oracle, within half a bit of its requested size, in request order, and
    all moduli of `q ++ p` are pairwise distinct. The size precondition (no size below the root
    order) is enforced by the code. -/
theorem genModuli_ok (o : Oracle) (hs : StopSound o) (fuel : Nat) (L : Int) (logQ logP : List Int)
    (q p : List Nat) (h : genModuli o fuel L logQ logP = .ok (q, p)) :
    5 ≤ L ∧ L ≤ 22 ∧
    List.Forall₂ (fun s x => Good o s.toNat (2 ^ L.toNat) x) logQ q ∧
    List.Forall₂ (fun s x => Good o s.toNat (2 ^ L.toNat) x) logP p ∧
    (q ++ p).Nodup := by
  unfold genModuli at h
  split at h
  · cases h
  · rename_i hrange
    simp [MinLogN, MaxLogN] at hrange
    have hnlt := of_decide_eq_false hrange.1
    have hL5 : 5 ≤ L := by omega
    have hL22 : L ≤ 22 := by omega
    split at h
    · cases h
    · rename_i hsz
      obtain ⟨szQ, szP⟩ := checkModuliLogSize_none hsz
      split at h
      · cases h
      · rename_i habove
        have hroot := checkSizesAboveRoot_none habove
        dsimp only at h
        split at h
        · rename_i tbl hgen
          simp only [Res.ok.injEq, Prod.mk.injEq] at h
          obtain ⟨hq, hp⟩ := h
          have hsz61 : ∀ s ∈ logQ ++ logP, 0 < s ∧ s ≤ 61 := by
            intro s hs
            rcases List.mem_append.mp hs with hs | hs
            · have := szQ s hs; omega
            · exact szP s hs
          have hr2 : 2 ≤ 2 ^ L.toNat := by
            have : 2 ^ 1 ≤ 2 ^ L.toNat := Nat.pow_le_pow_right (by decide) (by omega)
            simpa using this
          have hreq : ∀ t ∈ List.map Int.toNat logQ ++ List.map Int.toNat logP,
              t ≤ 61 ∧ 2 ^ L.toNat ∣ 2 ^ t := by
            intro t ht
            rw [← List.map_append] at ht
            obtain ⟨s, hs, rfl⟩ := List.mem_map.mp ht
            have := hroot s hs; have := hsz61 s hs
            exact ⟨by omega, Nat.pow_dvd_pow 2 (by omega)⟩
          obtain ⟨t1, t2⟩ := genAll_ok o hs fuel _ _ hr2 _ tbl
            (fun s hs => hreq s (List.mem_eraseDups.mp hs)) hgen
          obtain ⟨a1, a2, _⟩ := assign_spec o _ _ tbl t2
            (List.map Int.toNat logQ ++ List.map Int.toNat logP) []
            (fun s hs => by rw [t1]; exact List.mem_eraseDups.mpr hs)
            (fun s => by simp)
          refine ⟨hL5, hL22, ?_, ?_, ?_⟩
          · rw [← hq]
            have := List.forall₂_take (List.map Int.toNat logQ).length a1
            rw [List.take_left'] at this
            · exact (List.forall₂_map_left_iff).mp this
            · rfl
          · rw [← hp]
            have := List.forall₂_drop (List.map Int.toNat logQ).length a1
            rw [List.drop_left'] at this
            · exact (List.forall₂_map_left_iff).mp this
            · rfl
          · rw [← hq, ← hp, List.take_append_drop]
            exact a2
        all_goals cases h

end Lattigo.Params
