/-
  C11 proofs, part 5: algebra of the rotation action used by the rotate-and-accumulate proofs.

  `Lawful S N` is the hypothesis under which the sum specifications are proved: the carrier is a
  commutative additive monoid, `S.add` is its addition and `S.aut` is an action of the
  multiplicative monoid of residues mod `N` by additive maps.  It holds for ciphertexts modulo
  key-switch noise, and exactly for plaintext slot vectors / evaluation vectors (see the
  non-vacuity instance `evalOps` in `Props/C11.lean`).
-/
import Lattigo.Model.InnerSum
import Lattigo.Proofs.Galois
import Mathlib.Algebra.BigOperators.Intervals

namespace Lattigo.Proofs.InnerSum
open Lattigo Lattigo.Model.Galois Lattigo.Model.InnerSum Lattigo.Proofs.Galois
open Finset

variable {α : Type} [AddCommMonoid α]

/-- The algebraic laws of the carrier. -/
structure Lawful (S : Ops α) (N : Nat) : Prop where
  add_eq : ∀ a b, S.add a b = a + b
  aut_add : ∀ g a b, S.aut g (a + b) = S.aut g a + S.aut g b
  aut_zero : ∀ g, S.aut g 0 = 0
  aut_one : ∀ a, S.aut 1 a = a
  aut_mul : ∀ g h a, S.aut g (S.aut h a) = S.aut (g * h % N) a

/-- rotation by `k` slots: the automorphism of the Galois element `GaloisElement(k)`. -/
def rot (S : Ops α) (N : Nat) (k : Int) (v : α) : α := S.aut (galEl N k) v

variable {S : Ops α} {m : Nat}

theorem rot_add (hS : Lawful S (2 ^ m)) (hm1 : 1 ≤ m) (hm : m ≤ 64) (a b : Int) (v : α) :
    rot S (2 ^ m) a (rot S (2 ^ m) b v) = rot S (2 ^ m) (a + b) v := by
  unfold rot
  rw [hS.aut_mul, galEl_add m hm1 hm]

theorem rot_zero (hS : Lawful S (2 ^ m)) (hm1 : 1 ≤ m) (hm : m ≤ 64) (v : α) :
    rot S (2 ^ m) 0 v = v := by
  unfold rot
  rw [galEl_zero m hm1 hm, hS.aut_one]

omit [AddCommMonoid α] in
theorem rot_wrapInt (N : Nat) (k : Int) (v : α) : rot S N (wrapInt k) v = rot S N k v := by
  unfold rot; rw [galEl_wrapInt]

theorem aut_sum (hS : Lawful S (2 ^ m)) (g : Nat) (s : Finset ℕ) (f : ℕ → α) :
    S.aut g (∑ i ∈ s, f i) = ∑ i ∈ s, S.aut g (f i) := by
  classical
  induction s using Finset.induction_on with
  | empty => simp [hS.aut_zero]
  | insert a s ha ih => rw [Finset.sum_insert ha, Finset.sum_insert ha, hS.aut_add, ih]

/-- the `r`-th term of the documented sum: `rot (r·off) v`. -/
def term (S : Ops α) (N : Nat) (off : Int) (v : α) (r : ℕ) : α := rot S N ((r : Int) * off) v

theorem rot_term (hS : Lawful S (2 ^ m)) (hm1 : 1 ≤ m) (hm : m ≤ 64) (off : Int) (v : α) (a r : ℕ) :
    rot S (2 ^ m) ((a : Int) * off) (term S (2 ^ m) off v r) = term S (2 ^ m) off v (a + r) := by
  unfold term
  rw [rot_add hS hm1 hm]; congr 1; push_cast; ring

/-- rotating a block of `c` consecutive terms by `a` steps gives the block starting at `a`. -/
theorem rot_block (hS : Lawful S (2 ^ m)) (hm1 : 1 ≤ m) (hm : m ≤ 64) (off : Int) (v : α) (a c : ℕ) :
    rot S (2 ^ m) ((a : Int) * off) (∑ r ∈ range c, term S (2 ^ m) off v r)
      = ∑ r ∈ Ico a (a + c), term S (2 ^ m) off v r := by
  unfold rot
  rw [aut_sum hS, Finset.sum_Ico_eq_sum_range, Nat.add_sub_cancel_left]
  apply Finset.sum_congr rfl
  intro r _
  exact rot_term hS hm1 hm off v a r

/-- the doubling step `ct ← ct + rot(c·off) ct`. -/
theorem double_block (hS : Lawful S (2 ^ m)) (hm1 : 1 ≤ m) (hm : m ≤ 64) (off : Int) (v : α) (c : ℕ) :
    (∑ r ∈ range c, term S (2 ^ m) off v r)
        + rot S (2 ^ m) ((c : Int) * off) (∑ r ∈ range c, term S (2 ^ m) off v r)
      = ∑ r ∈ range (c + c), term S (2 ^ m) off v r := by
  rw [rot_block hS hm1 hm, Finset.sum_range_add_sum_Ico _ (by omega)]

/-! ### bit facts about the binary reading of `n` -/

theorem shl_two (i : Nat) : 2 <<< i = 2 ^ (i + 1) := by
  rw [Nat.shiftLeft_eq, pow_succ]; ring

theorem shl_one (i : Nat) : 1 <<< i = 2 ^ i := by
  rw [Nat.shiftLeft_eq]; ring

/-- `n & ((2 << i) - 1) = n mod 2^(i+1)` -/
theorem and_mask (n i : Nat) : n &&& ((2 <<< i) - 1) = n % 2 ^ (i + 1) := by
  rw [shl_two, Nat.and_two_pow_sub_one_eq_mod]

theorem mod_succ_odd (n i : Nat) (h : n / 2 ^ i % 2 = 1) : n % 2 ^ (i + 1) = n % 2 ^ i + 2 ^ i := by
  rw [Nat.mod_pow_succ, h]; ring

theorem mod_succ_even (n i : Nat) (h : n / 2 ^ i % 2 = 0) : n % 2 ^ (i + 1) = n % 2 ^ i := by
  rw [Nat.mod_pow_succ, h]; ring

theorem testBit_of_range (x i : Nat) (h1 : 2 ^ i ≤ x) (h2 : x < 2 ^ (i + 1)) : x.testBit i = true := by
  obtain ⟨j, hj, hb⟩ := Nat.exists_ge_and_testBit_of_ge_two_pow h1
  rcases Nat.lt_or_ge i j with hlt | hge
  · have : x < 2 ^ j := lt_of_lt_of_le h2 (Nat.pow_le_pow_right (by norm_num) hlt)
    rw [Nat.testBit_lt_two_pow this] at hb; exact absurd hb (by simp)
  · have : j = i := by omega
    rw [← this]; exact hb

/-- Go's `n&(n-1) != 0` test, for `n` whose top bit is `i`: it says `n` is not `2^i`. -/
theorem and_pred_eq_zero_iff (n i : Nat) (h1 : 2 ^ i ≤ n) (h2 : n < 2 ^ (i + 1)) :
    n &&& (n - 1) = 0 ↔ n = 2 ^ i := by
  constructor
  · intro h
    by_contra hne
    have hb1 := testBit_of_range n i h1 h2
    have hb2 := testBit_of_range (n - 1) i (by omega) (by omega)
    have := Nat.testBit_and n (n - 1) i
    rw [h, hb1, hb2] at this
    simp at this
  · intro h
    rw [h, Nat.and_two_pow_sub_one_eq_mod]; simp

end Lattigo.Proofs.InnerSum
