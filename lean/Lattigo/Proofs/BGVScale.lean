/-
  Scale algebra of schemes/bgv/evaluator.go: `powMod`/`inv` are the modular power / Fermat inverse,
  and the pair returned by the `matchScalesBinary` loop (as coded) satisfies r0·s0 ≡ r1·s1 (mod t)
  with both r0, r1 invertible.
-/
import Lattigo.Model.BGV
import Mathlib.Data.ZMod.Basic
import Mathlib.FieldTheory.Finite.Basic
import Mathlib.Tactic.Ring
import Mathlib.Tactic.LinearCombination

namespace Lattigo.BGV

/-! ### powMod -/

theorem powModAux_spec (m : Nat) (hm : 0 < m) :
    ∀ (f x e r : Nat), e < 2 ^ f → r < m → powModAux f x e m r = r * x ^ e % m := by
  intro f
  induction f with
  | zero =>
    intro x e r he hr
    have : e = 0 := by simpa using he
    subst this
    simp [powModAux, Nat.mod_eq_of_lt hr]
  | succ f ih =>
    intro x e r he hr
    unfold powModAux
    by_cases h0 : e = 0
    · subst h0; simp [Nat.mod_eq_of_lt hr]
    · rw [if_neg h0]
      have he2 : e / 2 < 2 ^ f := by
        rw [Nat.div_lt_iff_lt_mul (by decide)]; rw [pow_succ] at he; exact he
      have hr' : (if e % 2 = 1 then r * x % m else r) < m := by
        split
        · exact Nat.mod_lt _ hm
        · exact hr
      rw [ih _ _ _ he2 hr']
      have hx : (x * x % m) ^ (e / 2) % m = (x * x) ^ (e / 2) % m := by
        rw [Nat.pow_mod, Nat.mod_mod, ← Nat.pow_mod]
      have hdecomp : e = 2 * (e / 2) + e % 2 := (Nat.div_add_mod e 2).symm
      by_cases hodd : e % 2 = 1
      · rw [if_pos hodd]
        have : x ^ e = x * (x * x) ^ (e / 2) := by
          conv_lhs => rw [hdecomp, hodd]
          rw [pow_succ, pow_mul, pow_two, mul_comm]
        rw [this, Nat.mul_mod, Nat.mod_mod, hx, ← Nat.mul_mod, mul_assoc]
      · rw [if_neg hodd]
        have hev : e % 2 = 0 := by omega
        have : x ^ e = (x * x) ^ (e / 2) := by
          conv_lhs => rw [hdecomp, hev]
          rw [add_zero, pow_mul, ← pow_two]
        rw [this, Nat.mul_mod, hx, ← Nat.mul_mod]

theorem powMod_eq (x e m : Nat) (hm : 1 < m) (he : e < 2 ^ 64) : powMod x e m = x ^ e % m := by
  unfold powMod
  rw [powModAux_spec m (by omega) 64 (x % m) e (1 % m) he (Nat.mod_lt _ (by omega))]
  rw [Nat.mod_eq_of_lt hm, one_mul, Nat.pow_mod, Nat.mod_mod, ← Nat.pow_mod]

theorem powMod_lt (x e m : Nat) (hm : 1 < m) (he : e < 2 ^ 64) : powMod x e m < m := by
  rw [powMod_eq x e m hm he]; exact Nat.mod_lt _ (by omega)

/-! ### the Fermat inverse in `ZMod t` -/

variable {t : Nat}

theorem inv_cast [Fact t.Prime] (ht : t < 2 ^ 64) (s : Nat) (hs : (s : ZMod t) ≠ 0) :
    ((inv t s : Nat) : ZMod t) = (s : ZMod t)⁻¹ := by
  have hp : t.Prime := Fact.out
  have h1 : 1 < t := hp.one_lt
  unfold inv
  rw [powMod_eq s (t - 2) t h1 (by omega), ZMod.natCast_mod, Nat.cast_pow]
  have hf : (s : ZMod t) ^ (t - 1) = 1 := ZMod.pow_card_sub_one_eq_one hs
  have h2 : t - 1 = (t - 2) + 1 := by have := hp.two_le; omega
  rw [h2, pow_succ] at hf
  exact (eq_inv_of_mul_eq_one_left hf)

theorem inv_lt [Fact t.Prime] (ht : t < 2 ^ 64) (s : Nat) : inv t s < t := by
  have hp : t.Prime := Fact.out
  exact powMod_lt s (t - 2) t hp.one_lt (by omega)

/-! ### matchScalesBinary -/

theorem cred_cast (x : Nat) : ((cred x t : Nat) : ZMod t) = (x : ZMod t) := by
  unfold cred
  split
  · rename_i h
    rw [Nat.cast_sub h]; simp
  · rfl

/-- invariant of the extended-Euclid loop: both (a,b) and (A,B) solve `x·s0 = y·s1`, and so does (r0,r1) -/
structure MInv (t : Nat) (s0 s1 : ZMod t) (s : MState) : Prop where
  hab : (s.a : ZMod t) * s0 = (s.b : ZMod t) * s1
  hAB : (s.A : ZMod t) * s0 = (s.B : ZMod t) * s1
  hr  : (s.r0 : ZMod t) * s0 = (s.r1 : ZMod t) * s1
  hr0 : (s.r0 : ZMod t) ≠ 0

theorem natCast_ne_zero_of_coprime [Fact t.Prime] (A : Nat) (h : Nat.gcd A t = 1) : (A : ZMod t) ≠ 0 := by
  have hp : t.Prime := Fact.out
  intro h0
  rw [ZMod.natCast_eq_zero_iff] at h0
  have : t ∣ Nat.gcd A t := Nat.dvd_gcd h0 (dvd_refl t)
  rw [h] at this
  exact hp.one_lt.ne' (Nat.dvd_one.mp this)

theorem matchStep_inv [Fact t.Prime] (s0 s1 : ZMod t) (s : MState) (h : MInv t s0 s1 s) :
    MInv t s0 s1 (matchStep t s) := by
  have hp : t.Prime := Fact.out
  have hA' : ((s.a % s.A : Nat) : ZMod t) = (s.a : ZMod t) - ((s.a / s.A : Nat) : ZMod t) * (s.A : ZMod t) := by
    have := Nat.div_add_mod s.a s.A
    have hc : ((s.A * (s.a / s.A) + s.a % s.A : Nat) : ZMod t) = (s.a : ZMod t) := by rw [this]
    push_cast at hc
    linear_combination hc
  have hB' : ((cred (t + s.b - s.B * (s.a / s.A) % t) t : Nat) : ZMod t)
      = (s.b : ZMod t) - (s.B : ZMod t) * ((s.a / s.A : Nat) : ZMod t) := by
    rw [cred_cast]
    have hle : s.B * (s.a / s.A) % t ≤ t + s.b :=
      le_trans (le_of_lt (Nat.mod_lt _ hp.pos)) (Nat.le_add_right _ _)
    rw [Nat.cast_sub hle]
    push_cast
    simp
  have hnew : ((s.a % s.A : Nat) : ZMod t) * s0
      = ((cred (t + s.b - s.B * (s.a / s.A) % t) t : Nat) : ZMod t) * s1 := by
    rw [hA', hB']
    linear_combination h.hab - ((s.a / s.A : Nat) : ZMod t) * h.hAB
  unfold matchStep
  refine ⟨h.hAB, hnew, ?_, ?_⟩
  · dsimp only
    split
    · exact hnew
    · exact h.hr
  · dsimp only
    split
    · rename_i hu
      exact natCast_ne_zero_of_coprime _ hu.2.1
    · exact h.hr0

theorem matchLoop_inv [Fact t.Prime] (s0 s1 : ZMod t) :
    ∀ (f : Nat) (s : MState), MInv t s0 s1 s → MInv t s0 s1 (matchLoop t f s) := by
  intro f
  induction f with
  | zero => intro s h; exact h
  | succ f ih =>
    intro s h
    unfold matchLoop
    split
    · exact h
    · exact ih _ (matchStep_inv s0 s1 s h)

theorem matchInit_inv [Fact t.Prime] (ht : t < 2 ^ 64) (s0 s1 : Nat)
    (h0 : (s0 : ZMod t) ≠ 0) (h1 : (s1 : ZMod t) ≠ 0) :
    MInv t (s0 : ZMod t) (s1 : ZMod t) (matchInit t s0 s1) := by
  have hA : ((inv t s0 * s1 % t : Nat) : ZMod t) = (s0 : ZMod t)⁻¹ * s1 := by
    rw [ZMod.natCast_mod, Nat.cast_mul, inv_cast ht s0 h0]
  have hAs : ((inv t s0 * s1 % t : Nat) : ZMod t) * (s0 : ZMod t) = ((1 : Nat) : ZMod t) * s1 := by
    rw [hA]; push_cast; field_simp
  unfold matchInit
  refine ⟨?_, hAs, hAs, ?_⟩
  · simp
  · dsimp only
    rw [hA]
    exact mul_ne_zero (inv_ne_zero h0) h1

/-- **matchScales_spec.** For a prime plaintext modulus `t < 2^64` and scales invertible modulo `t`, the
    pair `(r0, r1)` returned by `matchScalesBinary` (the loop as coded, any number of rounds)
    satisfies `r0·s0 ≡ r1·s1 (mod t)`, and `r0`, `r1` are invertible modulo `t`. -/
theorem matchScales_spec [Fact t.Prime] (ht : t < 2 ^ 64) (s0 s1 : Nat)
    (h0 : (s0 : ZMod t) ≠ 0) (h1 : (s1 : ZMod t) ≠ 0) :
    ((matchScales t s0 s1).1 : ZMod t) * s0 = ((matchScales t s0 s1).2 : ZMod t) * s1
    ∧ ((matchScales t s0 s1).1 : ZMod t) ≠ 0 ∧ ((matchScales t s0 s1).2 : ZMod t) ≠ 0 := by
  have h := matchLoop_inv (s0 : ZMod t) (s1 : ZMod t) 130 _ (matchInit_inv ht s0 s1 h0 h1)
  refine ⟨h.hr, h.hr0, ?_⟩
  intro hz
  have := h.hr
  unfold matchScales at hz
  dsimp only at hz
  rw [hz, zero_mul] at this
  exact (mul_ne_zero h.hr0 h0) this

/-- the same statement on naturals -/
theorem matchScales_spec_nat [Fact t.Prime] (ht : t < 2 ^ 64) (s0 s1 : Nat)
    (h0 : s0 % t ≠ 0) (h1 : s1 % t ≠ 0) :
    (matchScales t s0 s1).1 * s0 % t = (matchScales t s0 s1).2 * s1 % t := by
  have h0' : (s0 : ZMod t) ≠ 0 := by
    rw [Ne, ZMod.natCast_eq_zero_iff]; intro h; exact h0 (Nat.mod_eq_zero_of_dvd h)
  have h1' : (s1 : ZMod t) ≠ 0 := by
    rw [Ne, ZMod.natCast_eq_zero_iff]; intro h; exact h1 (Nat.mod_eq_zero_of_dvd h)
  have := (matchScales_spec ht s0 s1 h0' h1').1
  have h2 : (((matchScales t s0 s1).1 * s0 : Nat) : ZMod t) = (((matchScales t s0 s1).2 * s1 : Nat) : ZMod t) := by
    push_cast; exact this
  exact (ZMod.natCast_eq_natCast_iff' _ _ _).mp h2

end Lattigo.BGV
