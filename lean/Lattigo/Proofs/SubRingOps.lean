/-
  C01, wrapper tie: the hand-written dispatch table `Vec.op` (Model/Vec.lean: SubRing method name ↦
  kernel lane, constants, argument order) agrees with the tables REGENERATED from
  /repo/ring/subring_ops.go (`Gen.subRingOps`, `Gen.SubRing_<Method>_lane`, `Gen.subRingTable3/2`).

  A wrapper that calls another kernel, or hands `s.Modulus` / `s.MRedConstant` / `s.BRedConstant` or
  its own parameters to the kernel in another order, changes `Gen.SubRing_<Method>_lane` and breaks
  `vecOp_table3` / `vecOp_table2` below (each of the 36 cases is closed by `rfl`); a method that is
  added, removed or renamed changes the lists the theorems quantify over.  Core Lean only.

  Calling convention (the one of `Vec.op` and of the driver line `vec name q s0 s1 p1 p2 p3`): a
  3-slice method receives `p1 p2 p3`, a 2-slice method `p1 p3` (the output slice, whose previous
  content accumulating kernels read, is always `p3`); the word parameters, in Go order, are `s0 s1`;
  `s.Modulus, s.MRedConstant, s.BRedConstant` are the fields `q, qinv, bred` of the `Sub`.
-/
import Lattigo.Gen.SubRingOps
import Lattigo.Model.Vec

namespace Lattigo.Vec
open Lattigo Lattigo.Gen

/-- **Wrapper table tie, 3-slice methods**: for every entry `(name, lane)` of the regenerated table,
    `Vec.op name` is `map3` of the regenerated wrapper lane. -/
theorem vecOp_table3 (s : Sub) (p1 p2 p3 : List Nat) (s0 s1 : Nat) :
    ∀ e ∈ subRingTable3 s.q s.qinv s.bred s0 s1,
      Vec.op s e.1 p1 p2 p3 s0 s1 = some (map3 e.2 p1 p2 p3) := by
  intro e h
  simp only [subRingTable3, List.mem_cons, List.not_mem_nil, or_false] at h
  repeat' (rcases h with h | h)
  all_goals (unfold Vec.op; rfl)

/-- **Wrapper table tie, 2-slice methods**: `Vec.op name` is `map2` of the regenerated wrapper lane
    over the input slice and the previous content of the output slice. -/
theorem vecOp_table2 (s : Sub) (p1 p2 p3 : List Nat) (s0 s1 : Nat) :
    ∀ e ∈ subRingTable2 s.q s.qinv s.bred s0 s1,
      Vec.op s e.1 p1 p2 p3 s0 s1 = some (map2 e.2 p1 p3) := by
  intro e h
  simp only [subRingTable2, List.mem_cons, List.not_mem_nil, or_false] at h
  repeat' (rcases h with h | h)
  all_goals (unfold Vec.op; rfl)

/-- the two executable tables cover exactly the 36 wrappers of `Gen.subRingOps` (the string table:
    method, kernel, actual arguments), each once -/
theorem subRingOps_names_cover :
    (subRingOps.map (·.1)).Perm (subRingNames3 ++ subRingNames2) := by decide

/-- **vecOp_table**: on EVERY kernel-wrapping SubRing method of ring/subring_ops.go the hand-written
    `Vec.op` is the regenerated wrapper (same kernel lane, same constants, same argument order). -/
theorem vecOp_table (s : Sub) (p1 p2 p3 : List Nat) (s0 s1 : Nat) :
    ∀ name ∈ subRingOps.map (·.1),
      (∃ f, (name, f) ∈ subRingTable3 s.q s.qinv s.bred s0 s1
          ∧ Vec.op s name p1 p2 p3 s0 s1 = some (map3 f p1 p2 p3))
      ∨ (∃ f, (name, f) ∈ subRingTable2 s.q s.qinv s.bred s0 s1
          ∧ Vec.op s name p1 p2 p3 s0 s1 = some (map2 f p1 p3)) := by
  intro name h
  have h' := (subRingOps_names_cover.mem_iff).1 h
  rw [List.mem_append, ← subRingTable3_names s.q s.qinv s.bred s0 s1,
    ← subRingTable2_names s.q s.qinv s.bred s0 s1] at h'
  rcases h' with h' | h'
  · obtain ⟨e, he, rfl⟩ := List.mem_map.1 h'
    exact Or.inl ⟨e.2, he, vecOp_table3 s p1 p2 p3 s0 s1 e he⟩
  · obtain ⟨e, he, rfl⟩ := List.mem_map.1 h'
    exact Or.inr ⟨e.2, he, vecOp_table2 s p1 p2 p3 s0 s1 e he⟩

/-- every wrapper calls one of the 38 translated kernels -/
theorem subRingOps_kernels : ∀ e ∈ subRingOps, e.2.1 ∈ kernelNames := by decide

/-- the two remaining names `Vec.op` knows are not SubRing methods but the package-level kernels
    `ZeroVec`, `MaskVec` themselves (ring/vec_ops.go), applied directly -/
theorem vecOp_ZeroVec (s : Sub) (p1 p2 p3 : List Nat) (s0 s1 : Nat) :
    Vec.op s "ZeroVec" p1 p2 p3 s0 s1 = some (map1 (fun a => ZeroVec_lane a) p1) := by
  unfold Vec.op; rfl
theorem vecOp_MaskVec (s : Sub) (p1 p2 p3 : List Nat) (s0 s1 : Nat) :
    Vec.op s "MaskVec" p1 p2 p3 s0 s1 = some (map2 (fun a c => MaskVec_lane a s0 s1 c) p1 p3) := by
  unfold Vec.op; rfl

/-- non-vacuity / tests: the table has 36 entries; `Add` is `addvec(p1, p2, p3, s.Modulus)` -/
example : subRingOps.length = 36 := by decide
example : ("Add", "addvec", ["p1", "p2", "p3", "s.Modulus"]) ∈ subRingOps := by decide
example : SubRing_Add_lane 97 0 (0, 0) 96 3 0 = 2 := by decide

end Lattigo.Vec
