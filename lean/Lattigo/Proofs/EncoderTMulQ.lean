/-
  `encode_mul` in `R_Q`: the product of two lifted plaintexts (`RingT2Q` with `T⁻¹`), multiplied by `T`, is decoded by
  `RingQ2T` to the negacyclic product of the plaintext polynomials modulo `t` — provided the integer product does
  not wrap modulo `Q` (`2·n·(t−1)² + 1 < Q`).  Every level (one modulus / CRT branches), every gap.
-/
import Lattigo.Proofs.EncoderTRound
import Lattigo.Proofs.EncoderTMul
import Lattigo.Proofs.RPolyRing

set_option linter.unusedSimpArgs false
set_option linter.unusedVariables false

namespace Lattigo.EncoderT
open Lattigo Finset

/-! ### coefficients of `RPoly.rowMul` as natural-number sums -/

/-- `Σ_{i ≤ k} x_i y_{k−i}` -/
def posN (x y : List ℕ) (k : ℕ) : ℕ := ∑ i ∈ range (k + 1), x.getD i 0 * y.getD (k - i) 0

/-- `Σ_{i > k} x_i y_{n+k−i}` -/
def negN (x y : List ℕ) (n k : ℕ) : ℕ :=
  ∑ j ∈ range (n - 1 - k), x.getD (k + 1 + j) 0 * y.getD (n + k - (k + 1 + j)) 0

theorem foldl_mod_eq (q : ℕ) (g : ℕ → ℕ) : ∀ m : ℕ,
    (List.range m).foldl (fun acc i => (acc + g i) % q) 0 = (∑ i ∈ range m, g i) % q
  | 0 => by simp
  | m + 1 => by
    rw [List.range_succ, List.foldl_append, sum_range_succ, foldl_mod_eq q g m]
    simp only [List.foldl_cons, List.foldl_nil]
    rw [Nat.mod_add_mod]

/-- **the `k`-th coefficient of `rowMul q x y`** is `(P mod q + q − M mod q) mod q` with `P`, `M` the two
    natural-number sums of the negacyclic convolution -/
theorem rowMul_getD (q : ℕ) (x y : List ℕ) (k : ℕ) (hk : k < x.length) :
    (RPoly.rowMul q x y).getD k 0 = (posN x y k % q + q - negN x y x.length k % q) % q := by
  unfold RPoly.rowMul
  simp only []
  rw [RPolyRing.getD_map_range _ _ _ hk]
  have h1 := foldl_mod_eq q (fun i => x.toArray[i]! * y.toArray[k - i]!) (k + 1)
  have h2 := foldl_mod_eq q
    (fun j => x.toArray[k + 1 + j]! * y.toArray[x.length + k - (k + 1 + j)]!) (x.length - 1 - k)
  simp only [RPolyRing.toArray_get!] at h1 h2 ⊢
  rw [h1, h2]
  rfl

theorem getD_map0 (f : ℕ → ℕ) (hf : f 0 = 0) (a : List ℕ) (i : ℕ) : (a.map f).getD i 0 = f (a.getD i 0) := by
  rw [List.getD_eq_getElem?_getD, List.getElem?_map, List.getD_eq_getElem?_getD]
  cases a[i]? <;> simp [hf]

section residues
variable {q : ℕ}

/-- in `Z_q`: `(P mod q + q − M mod q) mod q = P − M` -/
theorem pm_cast (hq : 0 < q) (P M : ℕ) : (((P % q + q - M % q) % q : ℕ) : ZMod q) = (P : ZMod q) - (M : ZMod q) := by
  have hle : M % q ≤ P % q + q := le_trans (le_of_lt (Nat.mod_lt _ hq)) (Nat.le_add_left _ _)
  rw [ZMod.natCast_mod, Nat.cast_sub hle, Nat.cast_add, ZMod.natCast_mod, ZMod.natCast_mod, ZMod.natCast_self,
    add_zero]

theorem posN_scaled_cast (c : ℕ) (A B : List ℕ) (k : ℕ) :
    ((posN (A.map fun x => x * c % q) (B.map fun x => x * c % q) k : ℕ) : ZMod q)
      = (c : ZMod q) * c * (posN A B k : ZMod q) := by
  unfold posN
  rw [Nat.cast_sum, Nat.cast_sum, mul_sum]
  apply sum_congr rfl
  intro i _
  rw [getD_map0 _ (by simp) A, getD_map0 _ (by simp) B]
  push_cast
  rw [ZMod.natCast_mod, ZMod.natCast_mod]
  push_cast
  ring

theorem negN_scaled_cast (c : ℕ) (A B : List ℕ) (n k : ℕ) :
    ((negN (A.map fun x => x * c % q) (B.map fun x => x * c % q) n k : ℕ) : ZMod q)
      = (c : ZMod q) * c * (negN A B n k : ZMod q) := by
  unfold negN
  rw [Nat.cast_sum, Nat.cast_sum, mul_sum]
  apply sum_congr rfl
  intro i _
  rw [getD_map0 _ (by simp) A, getD_map0 _ (by simp) B]
  push_cast
  rw [ZMod.natCast_mod, ZMod.natCast_mod]
  push_cast
  ring

/-- **residues of `T·T·(a ⊛ b)`** for `a = A·T⁻¹`, `b = B·T⁻¹` modulo `q` (`t1`, `t2`: two representatives of `T`
    modulo `q`): the plain residue of the integer negacyclic product `P − M` of `A` and `B`. -/
theorem mul_scaled_residue (hq : 0 < q) (c t1 t2 : ℕ) (hc1 : c * t1 % q = 1 % q) (hc2 : c * t2 % q = 1 % q)
    (A B : List ℕ) (k : ℕ) (hk : k < A.length) :
    ((RPoly.rowMul q (A.map fun x => x * c % q) (B.map fun x => x * c % q)).getD k 0 * t1 % q) * t2 % q
      = (posN A B k % q + q - negN A B A.length k % q) % q := by
  have hlt1 : ((RPoly.rowMul q (A.map fun x => x * c % q) (B.map fun x => x * c % q)).getD k 0 * t1 % q) * t2 % q < q :=
    Nat.mod_lt _ hq
  have hlt2 : (posN A B k % q + q - negN A B A.length k % q) % q < q := Nat.mod_lt _ hq
  have cast1 : ∀ tq : ℕ, c * tq % q = 1 % q → ((c : ℕ) : ZMod q) * (tq : ZMod q) = 1 := by
    intro tq h
    have : ((c * tq % q : ℕ) : ZMod q) = ((1 % q : ℕ) : ZMod q) := by rw [h]
    rw [ZMod.natCast_mod, ZMod.natCast_mod] at this
    push_cast at this
    exact this
  have h1 := cast1 t1 hc1
  have h2 := cast1 t2 hc2
  have hcast : ((((RPoly.rowMul q (A.map fun x => x * c % q) (B.map fun x => x * c % q)).getD k 0 * t1 % q) * t2 % q : ℕ) : ZMod q)
      = (((posN A B k % q + q - negN A B A.length k % q) % q : ℕ) : ZMod q) := by
    rw [rowMul_getD q _ _ k (by simpa using hk)]
    simp only [List.length_map]
    rw [ZMod.natCast_mod, Nat.cast_mul, ZMod.natCast_mod, Nat.cast_mul, pm_cast hq, pm_cast hq,
      posN_scaled_cast, negN_scaled_cast]
    linear_combination ((posN A B k : ZMod q) - (negN A B A.length k : ZMod q)) * ((c : ZMod q) * t2) * h1
      + ((posN A B k : ZMod q) - (negN A B A.length k : ZMod q)) * h2
  have := (ZMod.natCast_eq_natCast_iff' _ _ _).mp hcast
  rwa [Nat.mod_eq_of_lt hlt1, Nat.mod_eq_of_lt hlt2] at this

end residues

/-! ### CRT and centring of a difference `P − M` of two bounded naturals -/

/-- the representative of `P − M` in `[0, Q)` -/
def diffQ (Q P M : ℕ) : ℕ := (P + Q - M % Q) % Q

theorem diffQ_mod (Q q P M : ℕ) (hq : 0 < q) (hd : q ∣ Q) (hQ : 0 < Q) :
    (P % q + q - M % q) % q = diffQ Q P M % q := by
  have h1 : (P % q + q - M % q) % q < q := Nat.mod_lt _ hq
  have h2 : diffQ Q P M % q < q := Nat.mod_lt _ hq
  have hQq : ((Q : ℕ) : ZMod q) = 0 := (ZMod.natCast_eq_zero_iff Q q).mpr hd
  have hcast : (((P % q + q - M % q) % q : ℕ) : ZMod q) = ((diffQ Q P M % q : ℕ) : ZMod q) := by
    rw [pm_cast hq, ZMod.natCast_mod]
    unfold diffQ
    have hle : M % Q ≤ P + Q := le_trans (le_of_lt (Nat.mod_lt _ hQ)) (Nat.le_add_left _ _)
    have hmodQ : ∀ a : ℕ, ((a % Q : ℕ) : ZMod q) = (a : ZMod q) := by
      intro a
      conv_rhs => rw [← Nat.div_add_mod a Q]
      rw [Nat.cast_add, Nat.cast_mul, hQq, zero_mul, zero_add]
    rw [hmodQ, Nat.cast_sub hle, Nat.cast_add, hmodQ, hQq, add_zero]
  have := (ZMod.natCast_eq_natCast_iff' _ _ _).mp hcast
  rwa [Nat.mod_eq_of_lt h1, Nat.mod_eq_of_lt h2] at this

theorem diffQ_lt (Q P M : ℕ) (hQ : 0 < Q) : diffQ Q P M < Q := Nat.mod_lt _ hQ

theorem diffQ_ge (Q P M : ℕ) (hM : M < Q) (h : M ≤ P) (hP : P - M < Q) : diffQ Q P M = P - M := by
  unfold diffQ
  rw [Nat.mod_eq_of_lt hM]
  have : P + Q - M = (P - M) + Q := by omega
  rw [this, Nat.add_mod_right, Nat.mod_eq_of_lt hP]

theorem diffQ_lt' (Q P M : ℕ) (hM : M < Q) (h : P < M) : diffQ Q P M = Q - (M - P) := by
  unfold diffQ
  rw [Nat.mod_eq_of_lt hM]
  have : P + Q - M = Q - (M - P) := by omega
  rw [this, Nat.mod_eq_of_lt (by omega)]

/-- the value `rowMul t` computes from the same two sums -/
def diffT (t P M : ℕ) : ℕ := (P % t + t - M % t) % t

theorem diffT_cast (t P M : ℕ) (ht : 0 < t) : ((diffT t P M : ℕ) : ZMod t) = (P : ZMod t) - (M : ZMod t) := pm_cast ht P M

/-- `AddScalar(Q/2)`, reduce mod `t`, `SubScalar(Q/2 mod t)` on the representative of `P − M` (branches level 0 and
    level > 0 ∧ gap = 1) -/
theorem half_trick_diff (t Q P M B : ℕ) (ht : 0 < t) (hP : P ≤ B) (hM : M ≤ B) (hB : 2 * B + 1 < Q) :
    ((diffQ Q P M + Q / 2) % Q % t + t - Q / 2 % t) % t = diffT t P M := by
  have hlt1 : ((diffQ Q P M + Q / 2) % Q % t + t - Q / 2 % t) % t < t := Nat.mod_lt _ ht
  have hlt2 : diffT t P M < t := Nat.mod_lt _ ht
  have hle : Q / 2 % t ≤ (diffQ Q P M + Q / 2) % Q % t + t := le_trans (le_of_lt (Nat.mod_lt _ ht)) (Nat.le_add_left _ _)
  have hh : B < Q / 2 := by omega
  have hcast : ((((diffQ Q P M + Q / 2) % Q % t + t - Q / 2 % t) % t : ℕ) : ZMod t) = ((diffT t P M : ℕ) : ZMod t) := by
    rw [diffT_cast t P M ht, ZMod.natCast_mod, Nat.cast_sub hle, Nat.cast_add, ZMod.natCast_mod, ZMod.natCast_mod,
      ZMod.natCast_self, add_zero]
    by_cases h : M ≤ P
    · rw [diffQ_ge Q P M (by omega) h (by omega), Nat.mod_eq_of_lt (by omega), Nat.cast_add, Nat.cast_sub h]
      ring
    · have h' : P < M := by omega
      rw [diffQ_lt' Q P M (by omega) h']
      have e : Q - (M - P) + Q / 2 = (Q / 2 - (M - P)) + Q := by omega
      rw [e, Nat.add_mod_right, Nat.mod_eq_of_lt (by omega), Nat.cast_sub (by omega), Nat.cast_sub (le_of_lt h')]
      ring
  have := (ZMod.natCast_eq_natCast_iff' _ _ _).mp hcast
  rwa [Nat.mod_eq_of_lt hlt1, Nat.mod_eq_of_lt hlt2] at this

/-- `PolyToBigintCentered` (centres with `x ≥ Q>>1`) then `SetCoefficientsBigint` (branch level > 0 ∧ gap > 1) -/
theorem center_trick_diff (t Q P M B : ℕ) (ht : 0 < t) (hP : P ≤ B) (hM : M ≤ B) (hB : 2 * B + 1 < Q) :
    ((if diffQ Q P M ≥ Q / 2 then ((diffQ Q P M : ℕ) : ℤ) - (Q : ℤ) else ((diffQ Q P M : ℕ) : ℤ)) % (t : ℤ)).toNat
      = diffT t P M := by
  have hlt2 : diffT t P M < t := Nat.mod_lt _ ht
  have hh : B < Q / 2 := by omega
  have htz : (0 : ℤ) < (t : ℤ) := by exact_mod_cast ht
  have key : (if diffQ Q P M ≥ Q / 2 then ((diffQ Q P M : ℕ) : ℤ) - (Q : ℤ) else ((diffQ Q P M : ℕ) : ℤ))
      = (P : ℤ) - (M : ℤ) := by
    by_cases h : M ≤ P
    · rw [diffQ_ge Q P M (by omega) h (by omega), if_neg (by omega), Nat.cast_sub h]
    · have h' : P < M := by omega
      rw [diffQ_lt' Q P M (by omega) h', if_pos (by omega), Nat.cast_sub (by omega), Nat.cast_sub (le_of_lt h')]
      ring
  rw [key]
  have hnn : 0 ≤ ((P : ℤ) - (M : ℤ)) % (t : ℤ) := Int.emod_nonneg _ (ne_of_gt htz)
  have hlt : ((P : ℤ) - (M : ℤ)) % (t : ℤ) < (t : ℤ) := Int.emod_lt_of_pos _ htz
  have hlt1 : (((P : ℤ) - (M : ℤ)) % (t : ℤ)).toNat < t := by
    have := Int.toNat_of_nonneg hnn
    omega
  have hcast : (((((P : ℤ) - (M : ℤ)) % (t : ℤ)).toNat : ℕ) : ZMod t) = ((diffT t P M : ℕ) : ZMod t) := by
    rw [diffT_cast t P M ht]
    have h1 : (((((P : ℤ) - (M : ℤ)) % (t : ℤ)).toNat : ℕ) : ZMod t)
        = ((((((P : ℤ) - (M : ℤ)) % (t : ℤ)).toNat : ℕ) : ℤ) : ZMod t) := by rw [Int.cast_natCast]
    rw [h1, Int.toNat_of_nonneg hnn, ZMod.intCast_mod]
    push_cast
    rfl
  have := (ZMod.natCast_eq_natCast_iff' _ _ _).mp hcast
  rwa [Nat.mod_eq_of_lt hlt1, Nat.mod_eq_of_lt hlt2] at this

/-! ### the gap embedding `Y ↦ X^g` commutes with the two convolution sums -/

theorem sum_multiples (g : ℕ) (hg : 0 < g) (F : ℕ → ℕ) : ∀ m : ℕ,
    ∑ i ∈ range (m * g), (if i % g = 0 then F (i / g) else 0) = ∑ i ∈ range m, F i
  | 0 => by simp
  | m + 1 => by
    rw [Nat.succ_mul, sum_range_add, sum_multiples g hg F m, sum_range_succ]
    congr 1
    rw [sum_eq_single 0]
    · simp [Nat.mul_mod_left, Nat.mul_div_cancel _ hg]
    · intro x hx hx0
      have hxg : x < g := mem_range.1 hx
      have : (m * g + x) % g ≠ 0 := by
        rw [Nat.mul_add_mod_of_lt hxg]; exact hx0
      rw [if_neg this]
    · intro h; exact absurd (mem_range.2 hg) h

/-- the same with the upper limit `j·g + 1` (the terms between `j·g+1` and `(j+1)·g` vanish) -/
theorem sum_multiples_succ (g : ℕ) (hg : 0 < g) (F : ℕ → ℕ) (j : ℕ) :
    ∑ i ∈ range (j * g + 1), (if i % g = 0 then F (i / g) else 0) = ∑ i ∈ range (j + 1), F i := by
  rw [← sum_multiples g hg F (j + 1)]
  have e : (j + 1) * g = (j * g + 1) + (g - 1) := by rw [Nat.succ_mul]; omega
  rw [e, sum_range_add _ (j * g + 1) (g - 1)]
  have hz : ∑ x ∈ range (g - 1), (if (j * g + 1 + x) % g = 0 then F ((j * g + 1 + x) / g) else 0) = 0 := by
    apply sum_eq_zero
    intro x hx
    have hxg : 1 + x < g := by have := mem_range.1 hx; omega
    have : (j * g + 1 + x) % g ≠ 0 := by
      rw [Nat.add_assoc, Nat.mul_add_mod_of_lt hxg]; omega
    rw [if_neg this]
  rw [hz, add_zero]

theorem gapEmbed_getD (g N : ℕ) (p : List ℕ) (i : ℕ) :
    (gapEmbed g N p).getD i 0 = if i < N then (if i % g = 0 then p.getD (i / g) 0 else 0) else 0 := by
  unfold gapEmbed
  by_cases h : i < N
  · rw [if_pos h, RPolyRing.getD_map_range _ _ _ h]
  · rw [if_neg h, List.getD_eq_getElem?_getD, List.getElem?_eq_none (by simp; omega)]
    rfl

theorem posN_gap (g n : ℕ) (hg : 0 < g) (pa pb : List ℕ) (j : ℕ) (hj : j < n) :
    posN (gapEmbed g (n * g) pa) (gapEmbed g (n * g) pb) (j * g) = posN pa pb j := by
  unfold posN
  rw [← sum_multiples_succ g hg (fun i => pa.getD i 0 * pb.getD (j - i) 0) j]
  apply sum_congr rfl
  intro i hi
  have hi' : i ≤ j * g := by have := mem_range.1 hi; omega
  have hjg : j * g < n * g := Nat.mul_lt_mul_of_pos_right hj hg
  rw [gapEmbed_getD, if_pos (by omega)]
  by_cases h0 : i % g = 0
  · rw [if_pos h0, if_pos h0]
    obtain ⟨i', rfl⟩ := Nat.dvd_of_mod_eq_zero h0
    have hi'j : i' ≤ j := by
      by_contra hc
      have : j * g < g * i' := by rw [Nat.mul_comm g i']; exact Nat.mul_lt_mul_of_pos_right (by omega) hg
      omega
    have e : j * g - g * i' = (j - i') * g := by rw [Nat.sub_mul, Nat.mul_comm g i']
    rw [gapEmbed_getD, if_pos (by rw [e]; exact Nat.mul_lt_mul_of_pos_right (by omega) hg), e,
      Nat.mul_mod_left, if_pos rfl, Nat.mul_div_cancel _ hg, Nat.mul_div_cancel_left _ hg]
  · rw [if_neg h0, if_neg h0, zero_mul]

theorem negN_gap (g n : ℕ) (hg : 0 < g) (pa pb : List ℕ) (j : ℕ) (hj : j < n) :
    negN (gapEmbed g (n * g) pa) (gapEmbed g (n * g) pb) (n * g) (j * g) = negN pa pb n j := by
  -- the uniform summands
  let H : ℕ → ℕ := fun i => pa.getD i 0 * pb.getD (n + j - i) 0
  let G : ℕ → ℕ := fun i => if i % g = 0 then H (i / g) else 0
  have hjg : j * g < n * g := Nat.mul_lt_mul_of_pos_right hj hg
  have hL : negN (gapEmbed g (n * g) pa) (gapEmbed g (n * g) pb) (n * g) (j * g)
      = ∑ x ∈ range (n * g - 1 - j * g), G (j * g + 1 + x) := by
    unfold negN
    apply sum_congr rfl
    intro x hx
    have hx' : j * g + 1 + x < n * g := by have := mem_range.1 hx; omega
    show _ = if (j * g + 1 + x) % g = 0 then H ((j * g + 1 + x) / g) else 0
    rw [gapEmbed_getD, if_pos hx']
    by_cases h0 : (j * g + 1 + x) % g = 0
    · rw [if_pos h0, if_pos h0]
      obtain ⟨i', hi'⟩ := Nat.dvd_of_mod_eq_zero h0
      rw [hi', Nat.mul_div_cancel_left _ hg]
      have hi'n : i' < n := by
        by_contra hc
        have : n * g ≤ g * i' := by rw [Nat.mul_comm g i']; exact Nat.mul_le_mul_right g (by omega)
        omega
      have hi'j : j < i' := by
        by_contra hc
        have : g * i' ≤ j * g := by rw [Nat.mul_comm g i']; exact Nat.mul_le_mul_right g (by omega)
        omega
      have e : n * g + j * g - g * i' = (n + j - i') * g := by
        rw [Nat.sub_mul, Nat.add_mul, Nat.mul_comm g i']
      rw [e, gapEmbed_getD, if_pos (Nat.mul_lt_mul_of_pos_right (by omega) hg), Nat.mul_mod_left, if_pos rfl,
        Nat.mul_div_cancel _ hg]
    · rw [if_neg h0, if_neg h0, zero_mul]
  have hR : negN pa pb n j = ∑ x ∈ range (n - 1 - j), H (j + 1 + x) := rfl
  have h1 : ∑ i ∈ range (n * g), G i = ∑ i ∈ range n, H i := sum_multiples g hg H n
  have h2 : ∑ i ∈ range (j * g + 1), G i = ∑ i ∈ range (j + 1), H i := sum_multiples_succ g hg H j
  have e1 : n * g = (j * g + 1) + (n * g - 1 - j * g) := by omega
  have e2 : n = (j + 1) + (n - 1 - j) := by omega
  have h3 := sum_range_add G (j * g + 1) (n * g - 1 - j * g)
  have h4 := sum_range_add H (j + 1) (n - 1 - j)
  rw [← e1] at h3
  rw [← e2] at h4
  rw [hL, hR]
  omega

/-! ### bounds on the two sums -/

theorem getD_le (t : ℕ) (p : List ℕ) (hp : ∀ e ∈ p, e < t) (i : ℕ) : p.getD i 0 ≤ t - 1 := by
  rw [List.getD_eq_getElem?_getD]
  cases h : p[i]? with
  | none => simp
  | some v =>
    have := hp v (List.mem_of_getElem? h)
    simp only [Option.getD_some]; omega

theorem posN_le (t : ℕ) (pa pb : List ℕ) (ha : ∀ e ∈ pa, e < t) (hb : ∀ e ∈ pb, e < t) (n j : ℕ) (hj : j < n) :
    posN pa pb j ≤ n * ((t - 1) * (t - 1)) := by
  unfold posN
  calc ∑ i ∈ range (j + 1), pa.getD i 0 * pb.getD (j - i) 0
      ≤ ∑ _i ∈ range (j + 1), (t - 1) * (t - 1) :=
        sum_le_sum fun i _ => Nat.mul_le_mul (getD_le t pa ha i) (getD_le t pb hb _)
    _ = (j + 1) * ((t - 1) * (t - 1)) := by rw [sum_const, card_range, smul_eq_mul]
    _ ≤ n * ((t - 1) * (t - 1)) := Nat.mul_le_mul_right _ (by omega)

theorem negN_le (t : ℕ) (pa pb : List ℕ) (ha : ∀ e ∈ pa, e < t) (hb : ∀ e ∈ pb, e < t) (n j : ℕ) :
    negN pa pb n j ≤ n * ((t - 1) * (t - 1)) := by
  unfold negN
  calc ∑ x ∈ range (n - 1 - j), pa.getD (j + 1 + x) 0 * pb.getD (n + j - (j + 1 + x)) 0
      ≤ ∑ _x ∈ range (n - 1 - j), (t - 1) * (t - 1) :=
        sum_le_sum fun i _ => Nat.mul_le_mul (getD_le t pa ha _) (getD_le t pb hb _)
    _ = (n - 1 - j) * ((t - 1) * (t - 1)) := by rw [sum_const, card_range, smul_eq_mul]
    _ ≤ n * ((t - 1) * (t - 1)) := Nat.mul_le_mul_right _ (by omega)

/-! ### the rows `RingQ2T` sees -/

theorem zip_map_map {β γ : Type} (F : ℕ → β) (G : ℕ → γ) : ∀ (l : List ℕ),
    (l.map F).zip (l.map G) = l.map fun q => (F q, G q)
  | [] => rfl
  | q :: l => by simp only [List.map_cons, List.zip_cons_cons, zip_map_map F G l]

/-- the row of residues of the integer product, modulo `q` -/
def prodRow (q N : ℕ) (A B : List ℕ) : List ℕ :=
  (List.range N).map fun k => (posN A B k % q + q - negN A B N k % q) % q

/-- the rows `RingQ2T` works on (after its own `MulScalar(·, T)`) for `T·(a·b)`, `a`, `b` two lifted plaintexts -/
theorem rows_mul_eq (qs : List ℕ) (t : ℕ) (A B : List ℕ) (hAB : B.length = A.length) (hne : qs ≠ [])
    (h1 : ∀ q ∈ qs, 1 < q) (hct : ∀ q ∈ qs, Nat.Coprime t q) :
    let tinv := RPoly.modInv (t % RPoly.prod qs) (RPoly.prod qs)
    let a : RPoly := { qs := qs, c := qs.map fun q => A.map fun x => x * (tinv % q) % q }
    let b : RPoly := { qs := qs, c := qs.map fun q => B.map fun x => x * (tinv % q) % q }
    (RPoly.scale (a * b) t).qs = qs ∧ ((RPoly.scale (a * b) t).c.headD []).length = A.length ∧
    ((qs.zip (RPoly.scale (a * b) t).c).map fun (q, r) => r.map fun x => x * (t % q) % q)
      = qs.map fun q => prodRow q A.length A B := by
  intro tinv a b
  have hQ1 := rprod_gt_one qs hne h1
  have hcop : Nat.Coprime (t % RPoly.prod qs) (RPoly.prod qs) := by
    show Nat.gcd (t % RPoly.prod qs) (RPoly.prod qs) = 1
    rw [← Nat.gcd_rec, Nat.gcd_comm, rprod_eq]
    exact Nat.coprime_list_prod_right_iff.mpr hct
  have hinv : (t % RPoly.prod qs * tinv) % RPoly.prod qs = 1 :=
    modInv_spec (t % RPoly.prod qs) (RPoly.prod qs) hQ1 hcop
  have hmul : (a * b).c = qs.map fun q => RPoly.rowMul q (A.map fun x => x * (tinv % q) % q)
      (B.map fun x => x * (tinv % q) % q) := by
    show ((qs.zip ((qs.map _).zip (qs.map _))).map _) = _
    rw [zip_map_map, zip_map_self]
  have hsc : (RPoly.scale (a * b) t).c = qs.map fun q => (RPoly.rowMul q (A.map fun x => x * (tinv % q) % q)
      (B.map fun x => x * (tinv % q) % q)).map fun x => x * t % q := by
    show ((qs.zip (a * b).c).map _) = _
    rw [hmul, zip_map_self]
    rfl
  refine ⟨rfl, ?_, ?_⟩
  · rw [hsc]
    obtain ⟨q0, l, rfl⟩ := List.exists_cons_of_ne_nil hne
    simp [NTT.rowMul_length]
  rw [hsc, zip_map_self]
  apply List.map_congr_left
  intro q hq
  have hq0 : 0 < q := by have := h1 q hq; omega
  have hdvd : q ∣ RPoly.prod qs := by rw [rprod_eq]; exact List.dvd_prod hq
  -- `T⁻¹ mod q` is inverse to both `t` and `t mod q` modulo `q`
  have hq1 : (tinv % q) * t % q = 1 % q := by
    have h := congrArg (· % q) hinv
    simp only [Nat.mod_mod_of_dvd _ hdvd] at h
    rw [Nat.mul_mod, Nat.mod_mod_of_dvd _ hdvd, ← Nat.mul_mod, Nat.mul_comm] at h
    rw [Nat.mul_mod, Nat.mod_mod, ← Nat.mul_mod]
    exact h
  have hq2 : (tinv % q) * (t % q) % q = 1 % q := by
    rw [Nat.mul_mod_mod]; exact hq1
  unfold prodRow
  apply List.ext_getElem
  · simp [NTT.rowMul_length]
  · intro k hk1 hk2
    have hk : k < A.length := by simpa using hk2
    simp only [List.getElem_map, List.getElem_range]
    have hlen : k < (RPoly.rowMul q (A.map fun x => x * (tinv % q) % q)
        (B.map fun x => x * (tinv % q) % q)).length := by rw [NTT.rowMul_length]; simpa using hk
    have hget : (RPoly.rowMul q (A.map fun x => x * (tinv % q) % q) (B.map fun x => x * (tinv % q) % q))[k]
        = (RPoly.rowMul q (A.map fun x => x * (tinv % q) % q) (B.map fun x => x * (tinv % q) % q)).getD k 0 := by
      rw [List.getD_eq_getElem?_getD, List.getElem?_eq_getElem hlen]; rfl
    rw [hget]
    exact mul_scaled_residue hq0 (tinv % q) t (t % q) hq1 hq2 A B k hk

theorem column_prodRow (qs : List ℕ) (N : ℕ) (A B : List ℕ) (k : ℕ) (hk : k < N) :
    column (qs.map fun q => prodRow q N A B) k
      = qs.map fun q => (posN A B k % q + q - negN A B N k % q) % q := by
  unfold column
  rw [List.map_map]
  apply List.map_congr_left
  intro q _
  simp only [Function.comp, prodRow]
  exact RPolyRing.getD_map_range _ _ _ hk

theorem crt_diff (qs : List ℕ) (hc : qs.Pairwise Nat.Coprime) (h1 : ∀ q ∈ qs, 1 < q) (hne : qs ≠ []) (P M : ℕ) :
    RPoly.crt qs (qs.map fun q => (P % q + q - M % q) % q) = diffQ (RPoly.prod qs) P M := by
  have hQ : 0 < RPoly.prod qs := by have := rprod_gt_one qs hne h1; omega
  have e : (qs.map fun q => (P % q + q - M % q) % q) = qs.map (diffQ (RPoly.prod qs) P M % ·) := by
    apply List.map_congr_left
    intro q hq
    exact diffQ_mod _ q P M (by have := h1 q hq; omega) (by rw [rprod_eq]; exact List.dvd_prod hq) hQ
  rw [e, crt_spec qs hc h1 _ (diffQ_lt _ _ _ hQ)]

/-- the rows for two lifted plaintexts, stated on `ringT2Q` -/
theorem rows_mul_ringT2Q (qs : List ℕ) (t n g : ℕ) (pa pb : List ℕ) (hne : qs ≠ [])
    (h1 : ∀ q ∈ qs, 1 < q) (hct : ∀ q ∈ qs, Nat.Coprime t q) (hn : 0 < n)
    (hal : pa.length = n) (hbl : pb.length = n) :
    (RPoly.scale (ringT2Q qs t (n * g) true pa * ringT2Q qs t (n * g) true pb) t).qs = qs
    ∧ ((RPoly.scale (ringT2Q qs t (n * g) true pa * ringT2Q qs t (n * g) true pb) t).c.headD []).length = n * g
    ∧ ((qs.zip (RPoly.scale (ringT2Q qs t (n * g) true pa * ringT2Q qs t (n * g) true pb) t).c).map
        fun (q, r) => r.map fun x => x * (t % q) % q)
      = qs.map fun q => prodRow q (n * g) (gapEmbed g (n * g) pa) (gapEmbed g (n * g) pb) := by
  have hgapa : n * g / pa.length = g := by rw [hal, Nat.mul_div_cancel_left _ hn]
  have hgapb : n * g / pb.length = g := by rw [hbl, Nat.mul_div_cancel_left _ hn]
  have hA : ringT2Q qs t (n * g) true pa = { qs := qs, c := qs.map fun q => (gapEmbed g (n * g) pa).map fun x =>
      x * (RPoly.modInv (t % RPoly.prod qs) (RPoly.prod qs) % q) % q } := by
    unfold ringT2Q
    simp only [hgapa, if_true]
  have hB : ringT2Q qs t (n * g) true pb = { qs := qs, c := qs.map fun q => (gapEmbed g (n * g) pb).map fun x =>
      x * (RPoly.modInv (t % RPoly.prod qs) (RPoly.prod qs) % q) % q } := by
    unfold ringT2Q
    simp only [hgapb, if_true]
  rw [hA, hB]
  have h := rows_mul_eq qs t (gapEmbed g (n * g) pa) (gapEmbed g (n * g) pb)
    (by rw [gapEmbed_length, gapEmbed_length]) hne h1 hct
  rw [gapEmbed_length] at h
  exact h

/-- **RingQ2T of the product in `R_Q`.**  For reduced plaintext polynomials `p₁, p₂` of `Z_t[Y]/(Y^n+1)`, lifted to
    `R_Q` by `RingT2Q` (gap embedding `Y = X^g`, times `T⁻¹ mod Q`): multiplying the lifts in `R_Q`, then by `T`,
    and applying `RingQ2T` gives the negacyclic product `p₁ ⊛ p₂` modulo `t` — for every level (one modulus /
    CRT branches) and gap, PROVIDED the integer product does not wrap: `2·n·(t−1)² + 1 < Q`. -/
theorem ringQ2T_mul (qs : List ℕ) (t n g : ℕ) (pa pb : List ℕ) (hne : qs ≠ [])
    (hc : qs.Pairwise Nat.Coprime) (h1 : ∀ q ∈ qs, 1 < q) (hct : ∀ q ∈ qs, Nat.Coprime t q)
    (ht : 0 < t) (hn : 0 < n) (hg : 0 < g) (hal : pa.length = n) (hbl : pb.length = n)
    (ha : ∀ e ∈ pa, e < t) (hb : ∀ e ∈ pb, e < t)
    (hB : 2 * (n * ((t - 1) * (t - 1))) + 1 < RPoly.prod qs) :
    ringQ2T t n (RPoly.scale (ringT2Q qs t (n * g) true pa * ringT2Q qs t (n * g) true pb) t)
      = RPoly.rowMul t pa pb := by
  obtain ⟨hqs, hhead, hrows⟩ := rows_mul_ringT2Q qs t n g pa pb hne h1 hct hn hal hbl
  generalize RPoly.scale (ringT2Q qs t (n * g) true pa * ringT2Q qs t (n * g) true pb) t = X at hqs hhead hrows ⊢
  have hgap' : n * g / n = g := Nat.mul_div_cancel_left _ hn
  have hjg : ∀ j, j < n → j * g < n * g := fun j hj => Nat.mul_lt_mul_of_pos_right hj hg
  -- the target, coefficient by coefficient
  have hfin : (List.range n).map (fun j => diffT t (posN pa pb j) (negN pa pb n j)) = RPoly.rowMul t pa pb := by
    apply List.ext_getElem
    · simp [NTT.rowMul_length, hal]
    · intro i h1' h2'
      have hi : i < pa.length := by rw [NTT.rowMul_length] at h2'; exact h2'
      have := rowMul_getD t pa pb i hi
      rw [List.getD_eq_getElem?_getD, List.getElem?_eq_getElem h2', Option.getD_some, hal] at this
      simp only [List.getElem_map, List.getElem_range]
      rw [this]; rfl
  have hPM : ∀ j, j < n →
      posN (gapEmbed g (n * g) pa) (gapEmbed g (n * g) pb) (j * g) = posN pa pb j
      ∧ negN (gapEmbed g (n * g) pa) (gapEmbed g (n * g) pb) (n * g) (j * g) = negN pa pb n j :=
    fun j hj => ⟨posN_gap g n hg pa pb j hj, negN_gap g n hg pa pb j hj⟩
  have hPb : ∀ j, j < n → posN pa pb j ≤ n * ((t - 1) * (t - 1)) := fun j hj => posN_le t pa pb ha hb n j hj
  have hMb : ∀ j, negN pa pb n j ≤ n * ((t - 1) * (t - 1)) := fun j => negN_le t pa pb ha hb n j
  unfold ringQ2T
  simp only [hqs, hhead, hgap', hrows]
  rw [← hfin]
  split_ifs with hlen hg1
  · -- level > 0, gap = 1
    apply List.map_congr_left
    intro j hj
    have hj' : j < n := List.mem_range.1 hj
    have e1 : j = j * g := by rw [hg1, Nat.mul_one]
    rw [column_prodRow qs _ _ _ j (by rw [hg1]; omega), crt_diff qs hc h1 hne]
    have hpm := hPM j hj'
    rw [← e1] at hpm
    rw [hpm.1, hpm.2]
    exact half_trick_diff t _ _ _ _ ht (hPb j hj') (hMb j) hB
  · -- level > 0, gap > 1
    apply List.map_congr_left
    intro j hj
    have hj' : j < n := List.mem_range.1 hj
    rw [column_prodRow qs _ _ _ (j * g) (hjg j hj'), crt_diff qs hc h1 hne, (hPM j hj').1, (hPM j hj').2]
    exact center_trick_diff t _ _ _ _ ht (hPb j hj') (hMb j) hB
  · -- level 0
    obtain ⟨q0, l, rfl⟩ := List.exists_cons_of_ne_nil hne
    have hl : l = [] := by
      cases l with
      | nil => rfl
      | cons a l => simp at hlen
    subst hl
    have hprod : RPoly.prod [q0] = q0 := by simp [RPoly.prod]
    rw [hprod] at hB
    have hq0 : 0 < q0 := by have := h1 q0 List.mem_cons_self; omega
    apply List.map_congr_left
    intro j hj
    have hj' : j < n := List.mem_range.1 hj
    simp only [List.map_cons, List.map_nil, List.headD_cons]
    have hx : (prodRow q0 (n * g) (gapEmbed g (n * g) pa) (gapEmbed g (n * g) pb)).getD (j * g) 0
        = diffQ q0 (posN pa pb j) (negN pa pb n j) := by
      unfold prodRow
      rw [RPolyRing.getD_map_range _ _ _ (hjg j hj'), (hPM j hj').1, (hPM j hj').2,
        diffQ_mod q0 q0 _ _ hq0 (dvd_refl _) hq0, Nat.mod_eq_of_lt (diffQ_lt _ _ _ hq0)]
    rw [hx]
    exact half_trick_diff t q0 _ _ _ ht (hPb j hj') (hMb j) hB

/-- **encode_mul in `R_Q`.**  `Encode` two vectors at scales `s₁`, `s₂` into plaintexts `a`, `b ∈ R_Q` (any level, any
    gap); then `Decode`, at a scale `s ≡ s₁·s₂ (mod t)`, of `T·(a·b)` (product of `R_Q`; one factor `T` compensates
    the second `T⁻¹`) is the slot-wise product — provided the integer product does not wrap modulo `Q`:
    `2·n·(t−1)² + 1 < Q`. -/
theorem encode_mul_RQ (P : Params) (K g : ℕ) (h : ParamsOK P K g)
    (hinv : NTT.TableInv (NTT.rho P.T.q P.T.rootsF) (2 ^ K))
    (hB : 2 * (P.T.n * ((P.T.q - 1) * (P.T.q - 1))) + 1 < RPoly.prod P.qs)
    (u v : List ℕ) (su sv s len : ℕ) (a b : RPoly)
    (hs : s % P.T.q = su * sv % P.T.q) (hsd : ¬ P.T.q ∣ s) (hlen : len ≤ P.T.n)
    (henca : encode P true su (.u u) = some a) (hencb : encode P true sv (.u v) = some b) :
    decodeU P true s (RPoly.scale (a * b) P.T.q) len
      = (List.zipWith (fun x y => x * y % P.T.q)
          ((u.map (· % P.T.q)) ++ List.replicate (P.T.n - u.length) 0)
          ((v.map (· % P.T.q)) ++ List.replicate (P.T.n - v.length) 0)).take len := by
  unfold encode at henca hencb
  simp only [if_true, Option.map_eq_some_iff] at henca hencb
  obtain ⟨pu, hpu, rfl⟩ := henca
  obtain ⟨pv, hpv, rfl⟩ := hencb
  obtain ⟨hlu, hltu⟩ := encodeRingTU_shape P.T K h.valid P.perm u _ pu su (by simp) hpu
  obtain ⟨hlv, hltv⟩ := encodeRingTU_shape P.T K h.valid P.perm v _ pv sv (by simp) hpv
  unfold decodeU
  simp only [if_true]
  rw [h.bigN_eq, ringQ2T_mul P.qs P.T.q P.T.n g pu pv h.qs_ne h.qs_coprime h.qs_gt h.qs_t h.valid.q_pos h.n_pos
    h.g_pos hlu hlv hltu hltv hB]
  have := encode_mul_T P.T K h.valid hinv P.perm u v _ _ pu pv su sv s len h.perm_nodup h.perm_lt
    (by simp) (by simp) hs hsd (by rw [h.perm_full]; exact hlen) hpu hpv
  rw [this, h.perm_full]

end Lattigo.EncoderT
