/-
  C12 — the execution instance satisfies the slot laws; the Galois keys requested by an evaluation
  are among the advertised ones; `FindBestBSGSRatio` never returns 0.
-/
import Lattigo.Proofs.LinTransEval

namespace Lattigo.Model.LinTrans

/-! ## the execution instance `Slots n` -/

theorem rotFin_val (n : Nat) (k : Int) (c : Fin n) :
    ((rotFin n k c).val : Int) = ((c.val : Int) + k) % (n : Int) := by
  have hn : (0 : Int) < (n : Int) := by have := c.isLt; omega
  simp only [rotFin]
  exact Int.toNat_of_nonneg (Int.emod_nonneg _ (ne_of_gt hn))

theorem rotFin_ext (n : Nat) (a b : Fin n) (h : (a.val : Int) = (b.val : Int)) : a = b := by
  apply Fin.ext; exact_mod_cast h

theorem rotFin_rotFin (n : Nat) (j k : Int) (c : Fin n) :
    rotFin n k (rotFin n j c) = rotFin n (j + k) c := by
  apply rotFin_ext
  rw [rotFin_val, rotFin_val, rotFin_val, Int.emod_add_emod, add_assoc]

theorem rotFin_zero (n : Nat) (c : Fin n) : rotFin n 0 c = c := by
  apply rotFin_ext
  rw [rotFin_val, add_zero]
  exact Int.emod_eq_of_lt (by omega) (by have := c.isLt; omega)

theorem rotFin_period (n : Nat) (c : Fin n) : rotFin n (n : Int) c = c := by
  apply rotFin_ext
  rw [rotFin_val, Int.add_emod_right]
  exact Int.emod_eq_of_lt (by omega) (by have := c.isLt; omega)

/-- the carrier the driver executes on is lawful -/
theorem fnOps_laws (n : Nat) : SlotLaws (fnOps n) n where
  add_comm a b := by funext r c; simp only [fnOps]; ring
  add_assoc a b c := by funext r x; simp only [fnOps]; ring
  zero_add a := by funext r c; simp only [fnOps]; ring
  rot_add k a b := rfl
  rot_mul k a b := rfl
  rot_rot j k a := by
    funext r c; simp only [fnOps]; rw [rotFin_rotFin, add_comm]
  rot_zero a := by funext r c; simp only [fnOps]; rw [rotFin_zero]
  rot_zeroElem k := rfl
  rot_period a := by funext r c; simp only [fnOps]; rw [rotFin_period]

theorem sumL_fn_apply (n : Nat) (l : List (Slots n)) (r : Nat) (c : Fin n) :
    sumL (fnOps n) l r c = (l.map fun f => f r c).foldr (· + ·) 0 := by
  induction l with
  | nil => rfl
  | cons f fs ih =>
    simp only [sumL_cons, List.map_cons, List.foldr_cons]
    rw [← ih]; rfl

/-- the abstract sum on the execution instance is slot-wise the plaintext matrix–vector product
    for the matrix with generalised diagonals `diag` -/
theorem diagSum_fn (n : Nat) (ds : List Int) (diag : Int → Slots n) (v : Slots n) :
    diagSum (fnOps n) ds diag v = matVec n ds diag v := by
  funext r c
  unfold diagSum matVec
  rw [sumL_fn_apply, List.map_map]
  rfl

/-! ## requested ⊆ advertised -/

theorem normIdx_wrap (n : Nat) (i : Int) :
    normIdx n (if i < 0 then i + (n : Int) else i) = normIdx n i := by
  unfold normIdx
  split
  · exact Int.add_emod_right i n
  · rfl

theorem normIdx_idem (n : Nat) (i : Int) : normIdx n (normIdx n i) = normIdx n i := by
  unfold normIdx; exact Int.emod_emod_of_dvd _ (dvd_refl _)

theorem normIdx_range (n : Nat) (hn : 0 < n) (i : Int) : 0 ≤ normIdx n i ∧ normIdx n i < (n : Int) := by
  have hn' : (0 : Int) < (n : Int) := by exact_mod_cast hn
  exact ⟨Int.emod_nonneg _ (ne_of_gt hn'), Int.emod_lt_of_pos _ hn'⟩

theorem reqNaive_mem (n : Nat) (keys : List Int) (x : Int) (hx : x ∈ reqNaive n keys) :
    ∃ k ∈ keys, x = normIdx n k := by
  unfold reqNaive at hx
  cases hK : sortU keys with
  | nil => rw [hK] at hx; simp at hx
  | cons k0 rest =>
    rw [hK] at hx
    simp only at hx
    have hsub : ∀ k ∈ (if (k0 == 0) = true then rest else k0 :: rest), k ∈ keys := by
      intro k hk
      apply (mem_sortU k keys).1
      rw [hK]
      split at hk
      · exact List.mem_cons_of_mem _ hk
      · exact hk
    obtain ⟨k, hk, rfl⟩ := List.mem_map.1 hx
    exact ⟨k, hsub k hk, rfl⟩

/-- naive algorithm: every requested rotation is advertised — for EVERY list of diagonal indices -/
theorem naive_keys_sufficient (n : Nat) (diags : List Int) (x : Int)
    (hx : x ∈ reqNaive n (allocate diags n (-1)).2) : x ∈ advertisedRots diags n (-1) := by
  obtain ⟨k, hk, rfl⟩ := reqNaive_mem n _ x hx
  simp only [allocate, show ((-1 : Int) < 0) from by decide, if_true] at hk
  rw [mem_sortU] at hk
  obtain ⟨i, hi, rfl⟩ := List.mem_map.1 hk
  rw [normIdx_wrap]
  simp only [advertisedRots, show ((-1 : Int) < 0) from by decide, if_true, bsgsIndex]
  rw [mem_sortU]
  refine List.mem_map.2 ⟨normIdx n i, List.mem_map.2 ⟨i, hi, rfl⟩, ?_⟩
  exact normIdx_idem n i

theorem reqPreRot_fold_subset (rots : List Int) (l : List Int) (acc : List Int × List Int)
    (hacc : ∀ x ∈ acc.1, x ∈ rots) (hl : ∀ x ∈ l, x ∈ rots) :
    ∀ x ∈ (l.foldl (fun (acc : List Int × List Int) i =>
      if (i != 0 && !acc.2.contains i) = true then (acc.1 ++ [i], acc.2 ++ [i]) else acc) acc).1,
      x ∈ rots := by
  induction l generalizing acc with
  | nil => simpa using hacc
  | cons i is ih =>
    simp only [List.foldl_cons]
    apply ih
    · split
      · intro x hx
        rcases List.mem_append.1 hx with h | h
        · exact hacc x h
        · rw [List.mem_singleton] at h; subst h; exact hl _ (List.mem_cons_self ..)
      · exact hacc
    · exact fun x hx => hl x (List.mem_cons_of_mem _ hx)

theorem reqPreRot_subset (rots have_ : List Int) : ∀ x ∈ (reqPreRot rots have_).1, x ∈ rots := by
  unfold reqPreRot
  exact reqPreRot_fold_subset rots rots _ (by simp) (fun _ h => h)

/-- the keys `NewLinearTransformation` allocates in the BSGS branch are the normalised indices -/
theorem allocKeys_mem (n N1 : Nat) (hn : 0 < n) (hN : 0 < N1) (diags : List Int) (k : Int)
    (hk : k ∈ sortU ((bsgsIndex diags n N1).index.flatMap fun ji => ji.2.map fun i => ji.1 + i)) :
    ∃ d ∈ diags, k = normIdx n d := by
  rw [mem_sortU] at hk
  simp only [bsgsIndex, List.mem_flatMap, List.mem_map] at hk
  obtain ⟨ji, ⟨j, _, rfl⟩, i, hi, rfl⟩ := hk
  simp only at hi
  rw [(sortS_perm _).mem_iff] at hi
  obtain ⟨r, hr, rfl⟩ := List.mem_map.1 hi
  rw [List.mem_filter] at hr
  obtain ⟨⟨d, hd, rfl⟩, hg⟩ := (show (∃ d ∈ diags, normIdx n d = r) ∧ _ from
    ⟨by simpa using hr.1, hr.2⟩)
  have hg' : giant n N1 (normIdx n d) = j := by simpa using hg
  refine ⟨d, hd, ?_⟩
  rw [← hg']
  exact giant_add_baby n N1 hN _ (normIdx_range n hn d).1 (normIdx_range n hn d).2

theorem index_keys (ds : List Int) (n N1 : Nat) :
    (bsgsIndex ds n N1).index.map (·.1) = (bsgsIndex ds n N1).rotN1 := by
  simp [bsgsIndex, List.map_map, Function.comp_def]

/-- BSGS algorithm, any baby-step size: every requested rotation (baby steps via
    `PreRotatedCiphertextForDiagonalMatrixMultiplication`, giant steps in
    `MultiplyByDiagMatrixBSGS`) is among `rotN1 ∪ rotN2` of the user's diagonal list -/
theorem bsgs_keys_sufficient (n N1 : Nat) (hn : 0 < n) (hN : 0 < N1) (diags : List Int)
    (have_ : List Int) (x : Int)
    (hx : x ∈ (reqPreRot (bsgsIndex (sortU ((bsgsIndex diags n N1).index.flatMap
              fun ji => ji.2.map fun i => ji.1 + i)) n N1).rotN2 have_).1
          ++ reqGiant n N1 (sortU ((bsgsIndex diags n N1).index.flatMap
              fun ji => ji.2.map fun i => ji.1 + i))) :
    x ∈ sortU ((bsgsIndex diags n N1).rotN1 ++ (bsgsIndex diags n N1).rotN2) := by
  rw [mem_sortU, List.mem_append]
  rcases List.mem_append.1 hx with h | h
  · right
    have h2 := reqPreRot_subset _ _ x h
    simp only [bsgsIndex] at h2 ⊢
    rw [mem_sortU] at h2 ⊢
    obtain ⟨r, hr, rfl⟩ := List.mem_map.1 h2
    obtain ⟨k, hk, rfl⟩ := List.mem_map.1 hr
    obtain ⟨d, hd, rfl⟩ := allocKeys_mem n N1 hn hN diags k hk
    rw [normIdx_idem]
    exact List.mem_map.2 ⟨_, List.mem_map.2 ⟨d, hd, rfl⟩, rfl⟩
  · left
    unfold reqGiant at h
    rw [List.mem_filter] at h
    have h2 := h.1
    rw [index_keys] at h2
    simp only [bsgsIndex] at h2 ⊢
    rw [mem_sortU] at h2 ⊢
    obtain ⟨r, hr, rfl⟩ := List.mem_map.1 h2
    obtain ⟨k, hk, rfl⟩ := List.mem_map.1 hr
    obtain ⟨d, hd, rfl⟩ := allocKeys_mem n N1 hn hN diags k hk
    rw [normIdx_idem]
    exact List.mem_map.2 ⟨_, List.mem_map.2 ⟨d, hd, rfl⟩, rfl⟩

/-! ## `FindBestBSGSRatio ≥ 1` -/

theorem length_le_one_of_all_zero (l : List Int) (hnd : l.Nodup) (h0 : ∀ a ∈ l, a = 0) :
    l.length ≤ 1 := by
  match l, hnd, h0 with
  | [], _, _ => simp
  | [_], _, _ => simp
  | a :: b :: rest, hnd, h0 =>
    have ha := h0 a (by simp)
    have hb := h0 b (by simp)
    rw [List.nodup_cons] at hnd
    exact absurd (by rw [ha, hb]; simp) hnd.1

theorem findBestLoop_pos (diags : List Int) (maxN lr : Nat) (fuel N1 : Nat) (hN : 0 < N1) :
    0 < findBestLoop diags maxN lr fuel N1 := by
  induction fuel generalizing N1 with
  | zero => simp [findBestLoop]
  | succ f ih =>
    unfold findBestLoop
    split
    · simp only
      split
      · exact hN
      · split
        · rename_i hgt
          -- `N1 / 2 = 0` only for `N1 = 1`, where `rotN2 ⊆ {0}` makes `ratioGt` false
          by_cases h1 : N1 = 1
          · exfalso
            subst h1
            have hlen : (bsgsIndex diags maxN 1).rotN2.length ≤ 1 := by
              apply length_le_one_of_all_zero _ (sortU_nodup _)
              intro a ha
              rw [mem_sortU] at ha
              obtain ⟨r, _, rfl⟩ := List.mem_map.1 ha
              simp [baby]
            have hlen2 : (bsgsIndex diags maxN 1).rotN1.length = 0 →
                (bsgsIndex diags maxN 1).rotN2.length = 0 := by
              intro h
              simp only [bsgsIndex] at h ⊢
              have hd : diags = [] := by
                cases diags with
                | nil => rfl
                | cons d ds =>
                  exfalso
                  have : giant maxN 1 (normIdx maxN d) ∈
                      sortU (((d :: ds).map (normIdx maxN)).map (giant maxN 1)) := by
                    rw [mem_sortU]; simp
                  rw [List.length_eq_zero_iff] at h
                  rw [h] at this; simp at this
              subst hd; rfl
            have h2 : (0 : Int) < 2 ^ lr := by positivity
            unfold ratioGt at hgt
            generalize hA : (bsgsIndex diags maxN 1).rotN1.length = A at *
            generalize hB : (bsgsIndex diags maxN 1).rotN2.length = B at *
            split at hgt
            · rename_i hpos
              have : (2 : Int) ^ lr * ((A : Int) - 1) > 0 := by positivity
              simp only [gt_iff_lt, decide_eq_true_eq] at hgt
              omega
            · split at hgt
              · simp only [gt_iff_lt, decide_eq_true_eq] at hgt; omega
              · rename_i hnp hnz
                have hA0 : A = 0 := by
                  simp only [gt_iff_lt, not_lt] at hnp
                  have : (A : Int) - 1 ≠ 0 := by simpa using hnz
                  omega
                have hB0 := hlen2 hA0
                subst hA0; subst hB0
                simp only [decide_eq_true_eq] at hgt
                have : (2 : Int) ^ lr ≥ 1 := by exact_mod_cast Nat.one_le_two_pow
                push_cast at hgt
                nlinarith
          · omega
        · exact ih (2 * N1) (by omega)
    · exact Nat.one_pos

theorem findBestBSGSRatio_pos (diags : List Int) (maxN lr : Nat) :
    0 < findBestBSGSRatio diags maxN lr :=
  findBestLoop_pos diags maxN lr _ 1 Nat.one_pos

end Lattigo.Model.LinTrans
