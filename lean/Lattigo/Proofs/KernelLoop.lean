/-
  C01, kernel loop semantics: "a kernel = the pointwise map of its lane", also under in-place aliasing.

  Every kernel of ring/vec_ops.go has the shape

      for j := 0; j < N; j = j + 8 {
          x := (*[8]uint64)(unsafe.Pointer(&p1[j]))      -- windows: POINTERS into the slices
          y := (*[8]uint64)(unsafe.Pointer(&p2[j]))
          z := (*[8]uint64)(unsafe.Pointer(&p3[j]))
          z[0] = f_0(x, y, z)
          …
          z[7] = f_7(x, y, z)
      }

  The translator prints the 8 right-hand sides as `K_lanes x y z … : List (Nat × Nat)` (pairs
  `(written index, value)`, windows as functions `Nat → Nat`) and the generated theorem `K_uniform`
  states `K_lanes x y z … = lanes8 (fun k => K_lane (x k) (y k) (z k) …)`.

  Here the loop is EXECUTED, statement after statement, on a memory `σ → Nat → Nat` (slice id ↦
  index ↦ word) in which the three slice parameters are arbitrary ids — they may be equal in any
  pattern (`p1 = p3`, `p2 = p3`, `p1 = p2 = p3`, …): every statement reads the CURRENT memory
  through the windows (so a statement sees the writes of the earlier ones if the slices alias) and
  writes one word of the output slice.  `runLoop_spec` proves that, when the lanes are uniform and
  `8 ∣ N`, the final memory holds `lane (m₀ p1 i) (m₀ p2 i) (m₀ p3 i)` at `p3[i]` for all `i < N`,
  with `m₀` the INITIAL memory, and is unchanged everywhere else — for every aliasing pattern.
  `runLoop_map3` restates the result as `Vec.map3 lane` (Model/Vec.lean) of the initial contents.

  Modelling assumption (stated, not proved): two slice parameters are either the same slice or
  disjoint (partial overlap `p3 = p1[8:]` is outside the model), and the written slice is the LAST
  slice parameter of the kernel (checked for all 38 kernels by `kernelSigs_out_last`, from the
  table `Gen.kernelSigs` the translator emits).  Core Lean only.
-/
import Lattigo.Gen.VecLanes
import Lattigo.Model.Vec

namespace Lattigo.KernelLoop
open Lattigo Lattigo.Gen

/-- memory: slice id ↦ index ↦ word -/
abbrev Mem (σ : Type) := σ → Nat → Nat

/-- `s[i] = v` -/
def Mem.set {σ : Type} [DecidableEq σ] (m : Mem σ) (s : σ) (i v : Nat) : Mem σ :=
  fun s' i' => if s' = s ∧ i' = i then v else m s' i'

/-- the right-hand sides of an unrolled block, as printed by the translator: the three windows
    (functions of the offset `0..7`) ↦ the list of `(offset written, value)`; scalar parameters
    are closed over -/
abbrev Lanes := (Nat → Nat) → (Nat → Nat) → (Nat → Nat) → List (Nat × Nat)

/-- statement number `k` of the block at base `j`: evaluate the `k`-th right-hand side on the windows
    of the CURRENT memory, write it at the stated offset of the output slice `p3` -/
def stmt {σ : Type} [DecidableEq σ] (lanes : Lanes) (p1 p2 p3 : σ) (j : Nat) (m : Mem σ) (k : Nat) :
    Mem σ :=
  match (lanes (fun t => m p1 (j + t)) (fun t => m p2 (j + t)) (fun t => m p3 (j + t)))[k]? with
  | some (off, v) => m.set p3 (j + off) v
  | none => m

/-- one loop body: the 8 statements, in order -/
def block {σ : Type} [DecidableEq σ] (lanes : Lanes) (p1 p2 p3 : σ) (j : Nat) (m : Mem σ) : Mem σ :=
  (List.range 8).foldl (stmt lanes p1 p2 p3 j) m

/-- `for j := 0; j < N; j = j + 8 { block }`: the body runs for `j = 0, 8, …` while `j < N`, that is
    `⌈N/8⌉` times -/
def runLoop {σ : Type} [DecidableEq σ] (lanes : Lanes) (p1 p2 p3 : σ) (N : Nat) (m : Mem σ) : Mem σ :=
  (List.range ((N + 7) / 8)).foldl (fun m b => block lanes p1 p2 p3 (8 * b) m) m

theorem lanes8_getElem? (f : Nat → Nat) : ∀ k, k < 8 → (lanes8 f)[k]? = some (k, f k)
  | 0, _ => rfl
  | 1, _ => rfl
  | 2, _ => rfl
  | 3, _ => rfl
  | 4, _ => rfl
  | 5, _ => rfl
  | 6, _ => rfl
  | 7, _ => rfl
  | k + 8, h => absurd h (by omega)

/-- the loop invariant after the first `c` cells have been written: cells `< c` of the output slice
    hold the lane of the INITIAL values, everything else is untouched -/
def Inv {σ : Type} [DecidableEq σ] (lane : Nat → Nat → Nat → Nat) (p1 p2 p3 : σ) (m0 m : Mem σ)
    (c : Nat) : Prop :=
  ∀ s i, m s i = if s = p3 ∧ i < c then lane (m0 p1 i) (m0 p2 i) (m0 p3 i) else m0 s i

theorem stmt_inv {σ : Type} [DecidableEq σ] (lanes : Lanes) (lane : Nat → Nat → Nat → Nat)
    (hU : ∀ w1 w2 w3, lanes w1 w2 w3 = lanes8 (fun k => lane (w1 k) (w2 k) (w3 k)))
    (p1 p2 p3 : σ) (m0 m : Mem σ) (j k : Nat) (hk : k < 8)
    (h : Inv lane p1 p2 p3 m0 m (j + k)) :
    Inv lane p1 p2 p3 m0 (stmt lanes p1 p2 p3 j m k) (j + k + 1) := by
  intro s i
  unfold stmt
  rw [hU, lanes8_getElem? _ k hk]
  simp only [Mem.set]
  -- the three reads at cell `j + k` see the initial memory, whatever the aliasing
  have r1 : m p1 (j + k) = m0 p1 (j + k) := by rw [h p1 (j + k)]; simp
  have r2 : m p2 (j + k) = m0 p2 (j + k) := by rw [h p2 (j + k)]; simp
  have r3 : m p3 (j + k) = m0 p3 (j + k) := by rw [h p3 (j + k)]; simp
  rw [r1, r2, r3]
  by_cases hs : s = p3
  · subst hs
    by_cases hi : i = j + k
    · subst hi; simp
    · simp only [hi, and_false, if_false, true_and]
      rw [h s i]
      simp only [true_and]
      by_cases hlt : i < j + k
      · rw [if_pos hlt, if_pos (by omega)]
      · rw [if_neg hlt, if_neg (by omega)]
  · simp only [hs, false_and, if_false]
    rw [h s i]; simp [hs]

theorem block_inv {σ : Type} [DecidableEq σ] (lanes : Lanes) (lane : Nat → Nat → Nat → Nat)
    (hU : ∀ w1 w2 w3, lanes w1 w2 w3 = lanes8 (fun k => lane (w1 k) (w2 k) (w3 k)))
    (p1 p2 p3 : σ) (m0 m : Mem σ) (j : Nat) (h : Inv lane p1 p2 p3 m0 m j) :
    Inv lane p1 p2 p3 m0 (block lanes p1 p2 p3 j m) (j + 8) := by
  have e : List.range 8 = [0, 1, 2, 3, 4, 5, 6, 7] := by decide
  unfold block
  rw [e]
  simp only [List.foldl]
  have h0 := stmt_inv lanes lane hU p1 p2 p3 m0 _ j 0 (by omega) h
  have h1 := stmt_inv lanes lane hU p1 p2 p3 m0 _ j 1 (by omega) h0
  have h2 := stmt_inv lanes lane hU p1 p2 p3 m0 _ j 2 (by omega) h1
  have h3 := stmt_inv lanes lane hU p1 p2 p3 m0 _ j 3 (by omega) h2
  have h4 := stmt_inv lanes lane hU p1 p2 p3 m0 _ j 4 (by omega) h3
  have h5 := stmt_inv lanes lane hU p1 p2 p3 m0 _ j 5 (by omega) h4
  have h6 := stmt_inv lanes lane hU p1 p2 p3 m0 _ j 6 (by omega) h5
  exact stmt_inv lanes lane hU p1 p2 p3 m0 _ j 7 (by omega) h6

theorem blocks_inv {σ : Type} [DecidableEq σ] (lanes : Lanes) (lane : Nat → Nat → Nat → Nat)
    (hU : ∀ w1 w2 w3, lanes w1 w2 w3 = lanes8 (fun k => lane (w1 k) (w2 k) (w3 k)))
    (p1 p2 p3 : σ) (m0 : Mem σ) : ∀ nb : Nat,
    Inv lane p1 p2 p3 m0
      ((List.range nb).foldl (fun m b => block lanes p1 p2 p3 (8 * b) m) m0) (8 * nb)
  | 0 => by intro s i; simp
  | nb + 1 => by
    rw [List.range_succ, List.foldl_append]
    simp only [List.foldl]
    have := block_inv lanes lane hU p1 p2 p3 m0 _ (8 * nb) (blocks_inv lanes lane hU p1 p2 p3 m0 nb)
    rw [show 8 * (nb + 1) = 8 * nb + 8 by omega]
    exact this

/-- **Kernel loop = pointwise map of the lane, for every aliasing pattern.**
`p1 p2 p3 : σ` are arbitrary slice ids (no distinctness is assumed).  If the 8 right-hand sides are
uniform (`K_uniform`) and `8 ∣ N`, then after the sequential execution of the Go loop on `m₀`
* `p3[i] = lane (m₀ p1 i) (m₀ p2 i) (m₀ p3 i)` for every `i < N` (INITIAL values on the right), and
* every other location is unchanged. -/
theorem runLoop_spec {σ : Type} [DecidableEq σ] (lanes : Lanes) (lane : Nat → Nat → Nat → Nat)
    (hU : ∀ w1 w2 w3, lanes w1 w2 w3 = lanes8 (fun k => lane (w1 k) (w2 k) (w3 k)))
    (p1 p2 p3 : σ) (N : Nat) (h8 : 8 ∣ N) (m0 : Mem σ) :
    (∀ i, i < N → runLoop lanes p1 p2 p3 N m0 p3 i = lane (m0 p1 i) (m0 p2 i) (m0 p3 i))
    ∧ (∀ s i, ¬ (s = p3 ∧ i < N) → runLoop lanes p1 p2 p3 N m0 s i = m0 s i) := by
  obtain ⟨nb, rfl⟩ := h8
  have hnb : (8 * nb + 7) / 8 = nb := by omega
  have h := blocks_inv lanes lane hU p1 p2 p3 m0 nb
  unfold runLoop
  rw [hnb]
  constructor
  · intro i hi
    rw [h p3 i, if_pos ⟨rfl, hi⟩]
  · intro s i hsi
    rw [h s i, if_neg hsi]

/-- the first `N` words of a slice -/
def content {σ : Type} (m : Mem σ) (s : σ) (N : Nat) : List Nat := (List.range N).map (m s)

theorem map3_content {σ : Type} (lane : Nat → Nat → Nat → Nat) (m : Mem σ) (p1 p2 p3 : σ) (N : Nat) :
    Vec.map3 lane (content m p1 N) (content m p2 N) (content m p3 N)
      = (List.range N).map (fun i => lane (m p1 i) (m p2 i) (m p3 i)) := by
  unfold Vec.map3 content
  apply List.ext_getElem
  · simp
  · intro i h1 h2
    simp

/-- **Corollary: the kernel loop computes `Vec.map3 lane`** (the definition `Vec.op` uses): the
content of the output slice after the loop is `map3 lane` of the three INITIAL contents — also when
the output slice is one (or both) of the inputs. -/
theorem runLoop_map3 {σ : Type} [DecidableEq σ] (lanes : Lanes) (lane : Nat → Nat → Nat → Nat)
    (hU : ∀ w1 w2 w3, lanes w1 w2 w3 = lanes8 (fun k => lane (w1 k) (w2 k) (w3 k)))
    (p1 p2 p3 : σ) (N : Nat) (h8 : 8 ∣ N) (m0 : Mem σ) :
    content (runLoop lanes p1 p2 p3 N m0) p3 N
      = Vec.map3 lane (content m0 p1 N) (content m0 p2 N) (content m0 p3 N) := by
  rw [map3_content]
  unfold content
  apply List.map_congr_left
  intro i hi
  exact (runLoop_spec lanes lane hU p1 p2 p3 N h8 m0).1 i (List.mem_range.1 hi)

/-- 2-slice kernels (`p1` read, `p2` written): `Vec.map2` -/
theorem runLoop_map2 {σ : Type} [DecidableEq σ] (lanes : Lanes) (lane : Nat → Nat → Nat)
    (hU : ∀ w1 w2 w3, lanes w1 w2 w3 = lanes8 (fun k => lane (w1 k) (w3 k)))
    (p1 p2 p3 : σ) (N : Nat) (h8 : 8 ∣ N) (m0 : Mem σ) :
    content (runLoop lanes p1 p2 p3 N m0) p3 N
      = Vec.map2 lane (content m0 p1 N) (content m0 p3 N) := by
  have h := (runLoop_spec lanes (fun a _ c => lane a c) hU p1 p2 p3 N h8 m0).1
  unfold Vec.map2 content
  apply List.ext_getElem
  · simp
  · intro i h1 h2
    simp only [List.length_map, List.length_range] at h1
    simp [h i h1]

/-- every one of the 38 kernels writes its LAST slice parameter (`Gen.kernelSigs` is regenerated from
    ring/vec_ops.go: the translator checks that the 8 statements of a body write the same window) -/
theorem kernelSigs_out_last : ∀ k ∈ kernelSigs, k.2.1.getLast? = some k.2.2 := by decide

theorem kernelSigs_names : kernelSigs.map (·.1) = kernelNames := by decide

/-! ### instances, through the REGENERATED `K_uniform` theorems -/

section instances
variable {σ : Type} [DecidableEq σ]

/-- `addvec(p1, p2, p3, q)` -/
theorem addvec_loop (q : Nat) (p1 p2 p3 : σ) (N : Nat) (h8 : 8 ∣ N) (m0 : Mem σ) :
    (∀ i, i < N → runLoop (fun w1 w2 w3 => addvec_lanes w1 w2 w3 q) p1 p2 p3 N m0 p3 i
        = addvec_lane (m0 p1 i) (m0 p2 i) (m0 p3 i) q)
    ∧ (∀ s i, ¬ (s = p3 ∧ i < N) →
        runLoop (fun w1 w2 w3 => addvec_lanes w1 w2 w3 q) p1 p2 p3 N m0 s i = m0 s i) :=
  runLoop_spec _ (fun a b c => addvec_lane a b c q) (fun w1 w2 w3 => addvec_uniform w1 w2 w3 q)
    p1 p2 p3 N h8 m0

/-- `mulcoeffsmontgomeryvec(p1, p2, p3, q, qinv)` -/
theorem mulcoeffsmontgomeryvec_loop (q qinv : Nat) (p1 p2 p3 : σ) (N : Nat) (h8 : 8 ∣ N)
    (m0 : Mem σ) :
    (∀ i, i < N →
        runLoop (fun w1 w2 w3 => mulcoeffsmontgomeryvec_lanes w1 w2 w3 q qinv) p1 p2 p3 N m0 p3 i
        = mulcoeffsmontgomeryvec_lane (m0 p1 i) (m0 p2 i) (m0 p3 i) q qinv)
    ∧ (∀ s i, ¬ (s = p3 ∧ i < N) →
        runLoop (fun w1 w2 w3 => mulcoeffsmontgomeryvec_lanes w1 w2 w3 q qinv) p1 p2 p3 N m0 s i
          = m0 s i) :=
  runLoop_spec _ (fun a b c => mulcoeffsmontgomeryvec_lane a b c q qinv)
    (fun w1 w2 w3 => mulcoeffsmontgomeryvec_uniform w1 w2 w3 q qinv) p1 p2 p3 N h8 m0

/-- `mulcoeffsmontgomerylazythenaddlazyvec(p1, p2, p3, q, qinv)` — an ACCUMULATING kernel: the
statement reads `z[k]` before writing it; with `p1 = p3` it also reads the accumulator as a factor -/
theorem mulcoeffsmontgomerylazythenaddlazyvec_loop (q qinv : Nat) (p1 p2 p3 : σ) (N : Nat)
    (h8 : 8 ∣ N) (m0 : Mem σ) :
    (∀ i, i < N →
        runLoop (fun w1 w2 w3 => mulcoeffsmontgomerylazythenaddlazyvec_lanes w1 w2 w3 q qinv)
          p1 p2 p3 N m0 p3 i
        = mulcoeffsmontgomerylazythenaddlazyvec_lane (m0 p1 i) (m0 p2 i) (m0 p3 i) q qinv)
    ∧ (∀ s i, ¬ (s = p3 ∧ i < N) →
        runLoop (fun w1 w2 w3 => mulcoeffsmontgomerylazythenaddlazyvec_lanes w1 w2 w3 q qinv)
          p1 p2 p3 N m0 s i = m0 s i) :=
  runLoop_spec _ (fun a b c => mulcoeffsmontgomerylazythenaddlazyvec_lane a b c q qinv)
    (fun w1 w2 w3 => mulcoeffsmontgomerylazythenaddlazyvec_uniform w1 w2 w3 q qinv) p1 p2 p3 N h8 m0

/-- a 2-slice kernel: `negvec(p1, p2, q)` (the unused middle slice id is arbitrary) -/
theorem negvec_loop (q : Nat) (p1 p2 pOut : σ) (N : Nat) (h8 : 8 ∣ N) (m0 : Mem σ) :
    (∀ i, i < N → runLoop (fun w1 _ w3 => negvec_lanes w1 w3 q) p1 p2 pOut N m0 pOut i
        = negvec_lane (m0 p1 i) (m0 pOut i) q)
    ∧ (∀ s i, ¬ (s = pOut ∧ i < N) →
        runLoop (fun w1 _ w3 => negvec_lanes w1 w3 q) p1 p2 pOut N m0 s i = m0 s i) :=
  runLoop_spec _ (fun a _ c => negvec_lane a c q) (fun w1 _ w3 => negvec_uniform w1 w3 q)
    p1 p2 pOut N h8 m0

/-- a kernel with a scalar parameter between the slices:
    `addlazythenmulscalarmontgomeryvec(p1, p2, scalarMont, p3, q, qinv)` -/
theorem addlazythenmulscalarmontgomeryvec_loop (sc q qinv : Nat) (p1 p2 p3 : σ) (N : Nat)
    (h8 : 8 ∣ N) (m0 : Mem σ) :
    (∀ i, i < N →
        runLoop (fun w1 w2 w3 => addlazythenmulscalarmontgomeryvec_lanes w1 w2 sc w3 q qinv)
          p1 p2 p3 N m0 p3 i
        = addlazythenmulscalarmontgomeryvec_lane (m0 p1 i) (m0 p2 i) sc (m0 p3 i) q qinv)
    ∧ (∀ s i, ¬ (s = p3 ∧ i < N) →
        runLoop (fun w1 w2 w3 => addlazythenmulscalarmontgomeryvec_lanes w1 w2 sc w3 q qinv)
          p1 p2 p3 N m0 s i = m0 s i) :=
  runLoop_spec _ (fun a b c => addlazythenmulscalarmontgomeryvec_lane a b sc c q qinv)
    (fun w1 w2 w3 => addlazythenmulscalarmontgomeryvec_uniform w1 w2 sc w3 q qinv) p1 p2 p3 N h8 m0

end instances

end Lattigo.KernelLoop
