/-
  Limb level ⊑ integer level for the HPS fast base conversion of ring/basis_extension.go:
  `GenModUpConstants`, `reconstructRNS`, `multSum`, `ModUpExact`, `ModUpQtoP/PtoQ`, `ModDownQPtoQ/QPtoP`.

  The bit-exact twins of `Model/BasisExt.lean` (Montgomery constants, 128-bit accumulation, lazy Montgomery
  reduction, uint64 wrap) are connected to the integer-level specification functions `hpsY`, `hpsSum`,
  `hpsOut`, `modDownRes` about which `Proofs/BasisExtInt.lean` proves `hps_sum`, `modUp_exact`,
  `modUp_off_by_one_*`, `modDown_err`.

  The IEEE-754 computation of the correction index `v` is NOT modelled in proofs: every theorem holds for the
  index `fidx` the code computes, whatever it is, as long as it is a valid index of `vtimesqmodp`
  (`v ≤ #source moduli`, a named hypothesis); exactness needs the named hypothesis `v = hpsV`.
-/
import Lattigo.Proofs.BasisExtPrimes
import Lattigo.Proofs.ScalingRefine
import Lattigo.Proofs.NTTTables
import Lattigo.Proofs.Kernels
import Mathlib.Algebra.BigOperators.Group.Finset.Basic

set_option linter.unusedVariables false

namespace Lattigo.BasisExt
open Lattigo Lattigo.Gen Lattigo.Scaling

/-! ## 1. `multSum`: 128-bit accumulation and the closing lazy Montgomery reduction -/

/-- `Σ_k ys[k]·cs[i+k]` over the integers -/
def dot (cs : Array Nat) : Nat → List Nat → Nat
  | _, [] => 0
  | i, y :: ys => y * cs[i]! + dot cs (i + 1) ys

/-- the loop body of `multSum` on the state `(rhi, rlo, i)` -/
def accStep (cs : Array Nat) (st : Nat × Nat × Nat) (y : Nat) : Nat × Nat × Nat :=
  (u64add st.1 (u64add (mul64 y cs[st.2.2]!).1 (add64 st.2.1 (mul64 y cs[st.2.2]!).2 0).2),
   (add64 st.2.1 (mul64 y cs[st.2.2]!).2 0).1, st.2.2 + 1)

/-- one accumulation step is exact as long as the new sum fits in 128 bits -/
theorem accStep_spec (cs : Array Nat) (hi lo i y : Nat) (hlo : lo < W) (hhi : hi < W) (hy : y < W)
    (hc : cs[i]! < W) (hfit : hi * W + lo + y * cs[i]! < W * W) :
    (accStep cs (hi, lo, i) y).1 * W + (accStep cs (hi, lo, i) y).2.1 = hi * W + lo + y * cs[i]!
    ∧ (accStep cs (hi, lo, i) y).2.1 < W ∧ (accStep cs (hi, lo, i) y).1 < W
    ∧ (accStep cs (hi, lo, i) y).2.2 = i + 1 := by
  simp only [accStep, mul64, add64, u64add]
  generalize y * cs[i]! = P at *
  have h1 := Nat.div_add_mod P W
  have h2 := Nat.div_add_mod (lo + P % W + 0) W
  have hPW : P / W < W := by
    apply Nat.div_lt_of_lt_mul
    have : hi * W + lo + P < W * W := hfit
    omega
  have hcar : (lo + P % W + 0) / W ≤ 1 := by
    have : P % W < W := Nat.mod_lt _ (by decide)
    have : (lo + P % W + 0) / W < 2 := by
      apply Nat.div_lt_of_lt_mul; unfold W at *; omega
    omega
  have hm : (lo + P % W + 0) % W < W := Nat.mod_lt _ (by decide)
  rw [Nat.mod_eq_of_lt hPW]
  generalize P / W = ph at *
  generalize P % W = pl at *
  generalize (lo + pl + 0) / W = c at *
  generalize (lo + pl + 0) % W = l' at *
  -- the new high word does not wrap: (hi + ph + c)·W + l' = total < W²
  have hT : (hi + ph + c) * W + l' = hi * W + lo + P := by
    rw [Nat.add_mul, Nat.add_mul]; unfold W at *; omega
  have hnw : hi + ph + c < W := by
    by_contra hge
    have : W * W ≤ (hi + ph + c) * W := Nat.mul_le_mul_right W (by omega)
    omega
  have e1 : (ph + c) % W = ph + c := Nat.mod_eq_of_lt (by omega)
  rw [e1, Nat.mod_eq_of_lt (by omega : hi + (ph + c) < W)]
  refine ⟨?_, hm, by omega, trivial⟩
  rw [← Nat.add_assoc, hT]

/-- the whole accumulation loop -/
theorem acc_fold (cs : Array Nat) (hcs : ∀ k : Nat, cs[k]! < W) (rest : List Nat) :
    ∀ (hi lo i : Nat), lo < W → hi < W → (∀ y ∈ rest, y < W) →
      hi * W + lo + dot cs i rest < W * W →
      (rest.foldl (accStep cs) (hi, lo, i)).1 * W + (rest.foldl (accStep cs) (hi, lo, i)).2.1
          = hi * W + lo + dot cs i rest
        ∧ (rest.foldl (accStep cs) (hi, lo, i)).2.1 < W ∧ (rest.foldl (accStep cs) (hi, lo, i)).1 < W := by
  induction rest with
  | nil =>
    intro hi lo i hlo hhi _ _
    refine ⟨?_, hlo, hhi⟩
    simp only [List.foldl_nil, dot, Nat.add_zero]
  | cons y rest ih =>
    intro hi lo i hlo hhi hys hfit
    have hfit' : hi * W + lo + y * cs[i]! + dot cs (i + 1) rest < W * W := by
      have : dot cs i (y :: rest) = y * cs[i]! + dot cs (i + 1) rest := rfl
      rw [this, ← Nat.add_assoc] at hfit; exact hfit
    obtain ⟨e, l1, l2, l3⟩ := accStep_spec cs hi lo i y hlo hhi (hys y (List.mem_cons_self ..)) (hcs i)
      (Nat.lt_of_le_of_lt (Nat.le_add_right _ _) hfit')
    have hst : accStep cs (hi, lo, i) y
        = ((accStep cs (hi, lo, i) y).1, (accStep cs (hi, lo, i) y).2.1, i + 1) := by
      rw [← l3]
    rw [List.foldl_cons, hst]
    obtain ⟨e', l1', l2'⟩ := ih _ _ (i + 1) l1 l2
      (fun z hz => hys z (List.mem_cons_of_mem _ hz)) (by rw [e]; exact hfit')
    refine ⟨?_, l1', l2'⟩
    rw [e', e]
    show hi * W + lo + y * cs[i]! + dot cs (i + 1) rest = hi * W + lo + (y * cs[i]! + dot cs (i + 1) rest)
    rw [Nat.add_assoc]

/-- `multSum` written with `accStep` -/
theorem multSum_cons (y0 : Nat) (rest : List Nat) (v q qinv : Nat) (vt cs : Array Nat) :
    multSum (y0 :: rest) v q qinv vt cs =
      u64add (u64add (u64sub (rest.foldl (accStep cs) ((mul64 y0 cs[0]!).1, (mul64 y0 cs[0]!).2, 1)).1
        (mul64 (u64mul (rest.foldl (accStep cs) ((mul64 y0 cs[0]!).1, (mul64 y0 cs[0]!).2, 1)).2.1 qinv) q).1) q)
        vt[v]! := rfl

/-- the closing lazy Montgomery reduction of a 128-bit value `R = hi·2^64 + lo`:
`hi − ⌊((lo·qinv mod 2^64)·q)/2^64⌋ + q + t`, exact when `hi + q + t < 2^64`. -/
theorem mont128 (hi lo q qinv t : Nat) (hlo : lo < W) (hq : q < W) (hm : MontConst q qinv)
    (hW : hi + q + t < W) :
    u64add (u64add (u64sub hi (mul64 (u64mul lo qinv) q).1) q) t * W + ((lo * qinv) % W) * q
        = hi * W + lo + q * W + t * W
    ∧ hi + t < u64add (u64add (u64sub hi (mul64 (u64mul lo qinv) q).1) q) t
    ∧ u64add (u64add (u64sub hi (mul64 (u64mul lo qinv) q).1) q) t ≤ hi + q + t := by
  simp only [mul64, u64add, u64sub, u64mul]
  have hlow := mont_low q qinv lo hm hlo
  generalize hM : (lo * qinv) % W = m at *
  have hmW : m < W := by rw [← hM]; exact Nat.mod_lt _ (by decide)
  have hq0 := hm.pos
  have hmq : m * q < W * q := Nat.mul_lt_mul_of_pos_right hmW hq0
  generalize hMq : m * q = Mq at *
  have h2 := Nat.div_add_mod Mq W
  have hHq : Mq / W < q := Nat.div_lt_of_lt_mul hmq
  generalize Mq / W = H at *
  rw [hlow] at h2
  have hHW : H % W = H := Nat.mod_eq_of_lt (by omega)
  rw [hHW]
  have e : ((hi + W - H % W) % W + q) % W + t = hi + q - H + t := by
    rw [hHW]; unfold W at *; omega
  have e' : (((hi + W - H % W) % W + q) % W + t) % W = hi + q - H + t := by
    rw [e]; exact Nat.mod_eq_of_lt (by omega)
  rw [e']
  refine ⟨?_, by omega, by omega⟩
  have : (hi + q - H + t) * W = hi * W + q * W + t * W - H * W := by
    have : hi + q - H + t = hi + q + t - H := by omega
    rw [this, Nat.sub_mul, Nat.add_mul, Nat.add_mul]
  have hHle : H * W ≤ q * W := Nat.mul_le_mul_right W (by omega)
  rw [this]
  have h2' : H * W + lo = Mq := by rw [Nat.mul_comm]; exact h2
  omega

/-- **`multSum`** (one lane): with `R = Σ_i y_i·c_i` (no 128-bit overflow: `R < 2^128`) and `t = vtimesqmodp[v]`,
the result `r` satisfies `r·2^64 ≡ R + t·2^64 (mod q)` and `⌊R/2^64⌋ + t < r ≤ ⌊R/2^64⌋ + q + t`
(no uint64 wrap as soon as the upper bound is `< 2^64`). -/
theorem multSum_spec (ys : List Nat) (hne : ys ≠ []) (v q qinv : Nat) (vt cs : Array Nat)
    (hcs : ∀ k : Nat, cs[k]! < W) (hys : ∀ y ∈ ys, y < W) (hq : q < W) (hm : MontConst q qinv)
    (hfit : dot cs 0 ys < W * W) (hW : dot cs 0 ys / W + q + vt[v]! < W) :
    (multSum ys v q qinv vt cs * W) % q = (dot cs 0 ys + vt[v]! * W) % q
    ∧ dot cs 0 ys / W + vt[v]! < multSum ys v q qinv vt cs
    ∧ multSum ys v q qinv vt cs ≤ dot cs 0 ys / W + q + vt[v]! := by
  obtain ⟨y0, rest, rfl⟩ := List.exists_cons_of_ne_nil hne
  rw [multSum_cons]
  have hy0 : y0 < W := hys y0 (List.mem_cons_self ..)
  have hd : dot cs 0 (y0 :: rest) = y0 * cs[0]! + dot cs 1 rest := rfl
  have hP : y0 * cs[0]! < W * W := by
    rw [hd] at hfit; exact Nat.lt_of_le_of_lt (Nat.le_add_right _ _) hfit
  have h0 : (mul64 y0 cs[0]!).1 * W + (mul64 y0 cs[0]!).2 = y0 * cs[0]! := by
    simp only [mul64]
    rw [Nat.mod_eq_of_lt (Nat.div_lt_of_lt_mul hP), Nat.mul_comm]
    exact Nat.div_add_mod _ _
  have h0lo : (mul64 y0 cs[0]!).2 < W := Nat.mod_lt _ (by decide)
  have h0hi : (mul64 y0 cs[0]!).1 < W := Nat.mod_lt _ (by decide)
  obtain ⟨e, l1, l2⟩ := acc_fold cs hcs rest _ _ 1 h0lo h0hi
    (fun z hz => hys z (List.mem_cons_of_mem _ hz)) (by rw [h0, ← hd]; exact hfit)
  rw [h0, ← hd] at e
  generalize (rest.foldl (accStep cs) ((mul64 y0 cs[0]!).1, (mul64 y0 cs[0]!).2, 1)).1 = hi at *
  generalize (rest.foldl (accStep cs) ((mul64 y0 cs[0]!).1, (mul64 y0 cs[0]!).2, 1)).2.1 = lo at *
  generalize dot cs 0 (y0 :: rest) = R at *
  have hhi : hi = R / W := by
    rw [← e, Nat.mul_comm, Nat.mul_add_div (by decide), Nat.div_eq_of_lt l1, Nat.add_zero]
  rw [← hhi] at hW ⊢
  obtain ⟨m1, m2, m3⟩ := mont128 hi lo q qinv vt[v]! l1 hq hm hW
  refine ⟨?_, m2, m3⟩
  apply mod_eq_of_add_mul_eq (k1 := (lo * qinv) % W) (k2 := W)
  rw [m1, ← e, Nat.mul_comm W q]
  exact Nat.add_right_comm _ _ _

/-! ## 2. Montgomery bookkeeping of `GenModUpConstants`, read in `Z_q` -/

section Mont
open Lattigo.NTT
variable {q : ℕ} [Fact q.Prime]

/-- a chain `acc ← MRed(acc, MForm(f j))` multiplies (in `Z_q`) by `Π f j`; the Montgomery factors cancel -/
theorem montFold_cast (qinv : ℕ) (h2 : 2 * q ≤ W) (hm : MontConst q qinv) (f : ℕ → ℕ) (hf : ∀ j, f j < W) :
    ∀ (L : List ℕ) (init : ℕ), init < W →
      ((L.foldl (fun acc j => MRed acc (MForm (f j) q (brc q)) q qinv) init : ℕ) : ZMod q)
          = (init : ZMod q) * (L.map (fun j => ((f j : ℕ) : ZMod q))).prod
        ∧ L.foldl (fun acc j => MRed acc (MForm (f j) q (brc q)) q qinv) init < W
        ∧ (init < q → L.foldl (fun acc j => MRed acc (MForm (f j) q (brc q)) q qinv) init < q)
  | [], init, hi => by simp [hi]
  | j :: L, init, hi => by
    obtain ⟨hlt, hc⟩ := MForm_cast (q := q) (f j) h2 (hf j)
    have hW := W_ne_zero (q := q) hm.odd
    have hxy : init * MForm (f j) q (brc q) < q * W := by
      rw [Nat.mul_comm q W]; exact Nat.mul_lt_mul'' hi hlt
    have hmc := MRed_cast init (MForm (f j) q (brc q)) qinv h2 hm hxy
    have hml := (MRed_spec init (MForm (f j) q (brc q)) q qinv h2 hm hxy).2
    have hqW : q < W := by unfold W at *; omega
    obtain ⟨c, l1, l2⟩ := montFold_cast qinv h2 hm f hf L (MRed init (MForm (f j) q (brc q)) q qinv)
      (by omega)
    simp only [List.foldl_cons, List.map_cons, List.prod_cons]
    refine ⟨?_, l1, fun _ => l2 hml⟩
    rw [c, hmc, hc]
    generalize (L.map (fun j => ((f j : ℕ) : ZMod q))).prod = Pr
    have : (init : ZMod q) * ((f j : ZMod q) * (W : ZMod q)) * (W : ZMod q)⁻¹ * Pr
        = (init : ZMod q) * ((f j : ZMod q) * Pr) * ((W : ZMod q) * (W : ZMod q)⁻¹) := by ring
    rw [this, mul_inv_cancel₀ hW, mul_one]

omit [Fact q.Prime] in
theorem modexpGo_succ (qinv fuel x e r : ℕ) :
    modexpMontgomery.go q qinv (fuel + 1) x e r =
      if e = 0 then r else
        modexpMontgomery.go q qinv fuel (MRed x x q qinv) (e / 2)
          (if e % 2 = 1 then MRed r x q qinv else r) := rfl

/-- the square-and-multiply loop of `ModexpMontgomery` in the Montgomery domain: `r·(x·W⁻¹)^e` -/
theorem modexpGo_cast (qinv : ℕ) (h2 : 2 * q ≤ W) (hm : MontConst q qinv) :
    ∀ (fuel x e r : ℕ), e < 2 ^ fuel → x < q → r < q →
      ((modexpMontgomery.go q qinv fuel x e r : ℕ) : ZMod q)
          = (r : ZMod q) * ((x : ZMod q) * (W : ZMod q)⁻¹) ^ e
        ∧ modexpMontgomery.go q qinv fuel x e r < q
  | 0, x, e, r, he, hx, hr => by
    have : e = 0 := by simpa using he
    subst this
    exact ⟨by simp [modexpMontgomery.go], hr⟩
  | fuel + 1, x, e, r, he, hx, hr => by
    rw [modexpGo_succ]
    by_cases h0 : e = 0
    · subst h0; simp [hr]
    · rw [if_neg h0]
      have hqW : q < W := by unfold W at *; omega
      have hW := W_ne_zero (q := q) hm.odd
      have hxx : x * x < q * W := Nat.mul_lt_mul'' hx (by omega)
      have hrx : r * x < q * W := Nat.mul_lt_mul'' hr (by omega)
      have cx := MRed_cast x x qinv h2 hm hxx
      have lx := (MRed_spec x x q qinv h2 hm hxx).2
      have cr := MRed_cast r x qinv h2 hm hrx
      have lr := (MRed_spec r x q qinv h2 hm hrx).2
      have he2 : e / 2 < 2 ^ fuel := by
        rw [Nat.pow_succ] at he; omega
      have hr' : (if e % 2 = 1 then MRed r x q qinv else r) < q := by split <;> assumption
      obtain ⟨c, l⟩ := modexpGo_cast qinv h2 hm fuel (MRed x x q qinv) (e / 2)
        (if e % 2 = 1 then MRed r x q qinv else r) he2 lx hr'
      refine ⟨?_, l⟩
      rw [c, cx]
      have hsq : ((x : ZMod q) * (x : ZMod q) * (W : ZMod q)⁻¹ * (W : ZMod q)⁻¹)
          = ((x : ZMod q) * (W : ZMod q)⁻¹) ^ 2 := by ring
      rw [hsq, ← pow_mul]
      have hdm := Nat.div_add_mod e 2
      by_cases hodd : e % 2 = 1
      · rw [if_pos hodd, cr]
        have : e = 2 * (e / 2) + 1 := by omega
        conv_rhs => rw [this, pow_succ]
        ring
      · rw [if_neg hodd]
        have : e = 2 * (e / 2) := by omega
        conv_rhs => rw [this]

/-- `ModexpMontgomery(x, e)` for `x = a·W` (Montgomery form, `< q`): `a^e·W`, `< q` -/
theorem modexpMontgomery_cast (qinv : ℕ) (h2 : 2 * q ≤ W) (hm : MontConst q qinv) (x e : ℕ)
    (he : e < 2 ^ 64) (hx : x < q) :
    ((modexpMontgomery x e q qinv (brc q) : ℕ) : ZMod q)
        = ((x : ZMod q) * (W : ZMod q)⁻¹) ^ e * (W : ZMod q)
      ∧ modexpMontgomery x e q qinv (brc q) < q := by
  unfold modexpMontgomery
  obtain ⟨hlt, hc⟩ := MForm_cast (q := q) 1 h2 (by decide)
  obtain ⟨c, l⟩ := modexpGo_cast qinv h2 hm 64 x e _ he hx hlt
  refine ⟨?_, l⟩
  rw [c, hc, Nat.cast_one, one_mul, mul_comm]

end Mont

/-! ## 3. The three tables of `GenModUpConstants` -/

/-- `Π_{j ≠ i} Q_j`, the product the two inner loops of `GenModUpConstants` accumulate -/
def prodExcept (Q : List Nat) (i : Nat) : Nat := ((others Q.length i).map (fun j => Q.getD j 0)).prod

theorem prod_range_getD : ∀ (Q : List Nat), ∏ k ∈ Finset.range Q.length, Q.getD k 0 = prodN Q
  | [] => by simp [prodN]
  | a :: Q => by
    rw [List.length_cons, Finset.prod_range_succ']
    simp only [List.getD_cons_succ, List.getD_cons_zero]
    rw [prod_range_getD Q, prodN, Nat.mul_comm]

/-- `Q_i · Π_{j ≠ i} Q_j = Π Q` -/
theorem mul_prodExcept (Q : List Nat) (i : Nat) (hi : i < Q.length) :
    Q.getD i 0 * prodExcept Q i = prodN Q := by
  unfold prodExcept others
  rw [← List.prod_toFinset _ ((List.nodup_range).filter _), List.toFinset_filter, List.toFinset_range]
  have : (Finset.filter (fun x => decide (x ≠ i) = true) (Finset.range Q.length))
      = (Finset.range Q.length).erase i := by
    ext x; simp [Finset.mem_erase, and_comm]
  rw [this, Finset.mul_prod_erase _ (fun j => Q.getD j 0) (Finset.mem_range.mpr hi), prod_range_getD]

/-- `Q/Q_i = Π_{j ≠ i} Q_j` -/
theorem qStar_eq_prodExcept (Q : List Nat) (i : Nat) (hi : i < Q.length) (hpos : 0 < Q.getD i 0) :
    qStar Q (Q.getD i 0) = prodExcept Q i := by
  unfold qStar
  rw [← mul_prodExcept Q i hi]
  exact Nat.mul_div_cancel_left _ hpos

theorem getElem!_map_range {α : Type} [Inhabited α] (n : Nat) (f : Nat → α) (i : Nat) (h : i < n) :
    (((List.range n).map f).toArray)[i]! = f i := by
  simp [h]

theorem getElem!_map_toArray {α : Type} [Inhabited α] (P : List Nat) (g : Nat → α) (j : Nat)
    (h : j < P.length) : ((P.map g).toArray)[j]! = g (P.getD j 0) := by
  simp [h, List.getD_eq_getElem?_getD]

theorem toArray_getElem! (Q : List Nat) (j : Nat) : Q.toArray[j]! = Q.getD j 0 := by
  simp [List.getD_eq_getElem?_getD]

/-- entry `i` of `qoverqiinvqi` -/
theorem muc_qoverqiinvqi (Q P : List Nat) (i : Nat) (hi : i < Q.length) :
    (genModUpConstants Q P).qoverqiinvqi[i]! =
      modexpMontgomery
        ((others Q.length i).foldl
          (fun acc j => MRed acc (MForm (Q.getD j 0) (Q.getD i 0) (brc (Q.getD i 0))) (Q.getD i 0)
            (GenMRedConstant (Q.getD i 0))) (MForm 1 (Q.getD i 0) (brc (Q.getD i 0))))
        (Q.getD i 0 - 2) (Q.getD i 0) (GenMRedConstant (Q.getD i 0)) (brc (Q.getD i 0)) := by
  unfold genModUpConstants
  simp only []
  rw [getElem!_map_range _ _ i hi]
  simp only [toArray_getElem!]

/-- entry `[j][i]` of `qoverqimodp` -/
theorem muc_qoverqimodp (Q P : List Nat) (i j : Nat) (hi : i < Q.length) (hj : j < P.length) :
    ((genModUpConstants Q P).qoverqimodp[j]!)[i]! =
      MForm ((others Q.length i).foldl
          (fun acc u => MRed acc (MForm (Q.getD u 0) (P.getD j 0) (brc (P.getD j 0))) (P.getD j 0)
            (GenMRedConstant (P.getD j 0))) 1) (P.getD j 0) (brc (P.getD j 0)) := by
  unfold genModUpConstants
  simp only []
  rw [getElem!_map_toArray _ _ j hj, getElem!_map_range _ _ i hi]
  simp only [toArray_getElem!]

theorem getD_mem (Q : List Nat) (i : Nat) (hi : i < Q.length) : Q.getD i 0 ∈ Q := by
  have := modulus_mem Q i hi
  unfold modulus at this; exact this

/-- `qoverqiinvqi[i] = [(Q/q_i)^(q_i−2)]·2^64 mod q_i` (Montgomery form of the Fermat inverse), `< q_i` -/
theorem qoverqiinvqi_cast (Q P : List Nat) (i : Nat) (hi : i < Q.length)
    (hp : (Q.getD i 0).Prime) (hodd : Q.getD i 0 % 2 = 1) (hsm : 2 * Q.getD i 0 ≤ W)
    (hall : ∀ q ∈ Q, q < W) :
    haveI : Fact (Q.getD i 0).Prime := ⟨hp⟩
    (((genModUpConstants Q P).qoverqiinvqi[i]! : ℕ) : ZMod (Q.getD i 0))
        = ((prodExcept Q i : ℕ) : ZMod (Q.getD i 0)) ^ (Q.getD i 0 - 2) * (W : ZMod (Q.getD i 0))
      ∧ (genModUpConstants Q P).qoverqiinvqi[i]! < Q.getD i 0 := by
  have : Fact (Q.getD i 0).Prime := ⟨hp⟩
  rw [muc_qoverqiinvqi Q P i hi]
  generalize hq : Q.getD i 0 = q at *
  have hqW : q < W := by unfold W at *; omega
  have hm : MontConst q (GenMRedConstant q) := (GenMRedConstant_spec q hodd hqW).1
  have hW := NTT.W_ne_zero (q := q) hm.odd
  have hf : ∀ j, Q.getD j 0 < W := by
    intro j
    by_cases hj : j < Q.length
    · exact hall _ (getD_mem Q j hj)
    · have : Q.getD j 0 = 0 := by simp [List.getD_eq_getElem?_getD, Nat.le_of_not_lt hj]
      rw [this]; decide
  obtain ⟨h1lt, h1c⟩ := NTT.MForm_cast (q := q) 1 hsm (by decide)
  obtain ⟨c, _, l⟩ := montFold_cast (q := q) (GenMRedConstant q) hsm hm (fun j => Q.getD j 0) hf
    (others Q.length i) (MForm 1 q (brc q)) (by omega)
  obtain ⟨c2, l2⟩ := modexpMontgomery_cast (q := q) (GenMRedConstant q) hsm hm _ (q - 2)
    (by unfold W at hqW; omega) (l h1lt)
  refine ⟨?_, l2⟩
  rw [c2, c, h1c, Nat.cast_one, one_mul]
  unfold prodExcept
  rw [Nat.cast_list_prod, List.map_map]
  have : (W : ZMod q) * (List.map (fun j => ((Q.getD j 0 : ℕ) : ZMod q)) (others Q.length i)).prod
      * (W : ZMod q)⁻¹ = (List.map (fun j => ((Q.getD j 0 : ℕ) : ZMod q)) (others Q.length i)).prod := by
    rw [mul_comm (W : ZMod q), mul_assoc, mul_inv_cancel₀ hW, mul_one]
  rw [this]
  rfl

/-- **`reconstructRNS`, one `y_i`**: `MRed(x_i, qoverqiinvqi[i]) = [x_i·(Q/q_i)⁻¹]_{q_i}` with the Fermat inverse
`invMod` of the integer-level specification `hpsY`; every uint64 `x_i` (reduced or not). -/
theorem reconstruct_y (Q P : List Nat) (hC : Chain Q) (i : Nat) (hi : i < Q.length) (x : Nat) (hx : x < W) :
    MRed x (genModUpConstants Q P).qoverqiinvqi[i]! (Q.getD i 0) (GenMRedConstant (Q.getD i 0))
      = (x * invMod (qStar Q (Q.getD i 0) % Q.getD i 0) (Q.getD i 0)) % Q.getD i 0 := by
  have hmem := getD_mem Q i hi
  have hp := hC.prime _ hmem
  have hodd := hC.odd _ hmem
  have hsm := hC.small _ hmem
  have : Fact (Q.getD i 0).Prime := ⟨hp⟩
  obtain ⟨c, l⟩ := qoverqiinvqi_cast Q P i hi hp hodd (by unfold W; omega)
    (fun q hq => by have := hC.small q hq; unfold W; omega)
  have hstar := qStar_eq_prodExcept Q i hi hp.pos
  generalize hq : Q.getD i 0 = q at *
  have hqW : q < W := by unfold W; omega
  have h2 : 2 * q ≤ W := by unfold W; omega
  have hm : MontConst q (GenMRedConstant q) := (GenMRedConstant_spec q hodd hqW).1
  have hW := NTT.W_ne_zero (q := q) hm.odd
  generalize (genModUpConstants Q P).qoverqiinvqi[i]! = k at *
  have hxy : x * k < q * W := by rw [Nat.mul_comm q W]; exact Nat.mul_lt_mul'' hx l
  have hmc := NTT.MRed_cast x k (GenMRedConstant q) h2 hm hxy
  have hml := (MRed_spec x k q (GenMRedConstant q) h2 hm hxy).2
  have key : ((MRed x k q (GenMRedConstant q) : ℕ) : ZMod q)
      = (((x * invMod (qStar Q q % q) q) % q : ℕ) : ZMod q) := by
    rw [hmc, c, ZMod.natCast_mod, Nat.cast_mul, invMod_eq _ q hp.pos (by omega), ZMod.natCast_mod,
      Nat.cast_pow, ZMod.natCast_mod, hstar]
    rw [mul_assoc, mul_assoc, mul_inv_cancel₀ hW, mul_one]
  have := (ZMod.natCast_eq_natCast_iff' _ _ q).1 key
  rwa [Nat.mod_eq_of_lt hml, Nat.mod_mod] at this

theorem getD_lt_W (Q : List Nat) (hall : ∀ q ∈ Q, q < W) (j : Nat) : Q.getD j 0 < W := by
  by_cases hj : j < Q.length
  · exact hall _ (getD_mem Q j hj)
  · have : Q.getD j 0 = 0 := by simp [List.getD_eq_getElem?_getD, Nat.le_of_not_lt hj]
    rw [this]; decide

/-- `qoverqimodp[j][i] = (Q/q_i)·2^64 mod p_j` (Montgomery form), `< p_j` -/
theorem qoverqimodp_cast (Q P : List Nat) (i j : Nat) (hi : i < Q.length) (hj : j < P.length)
    (hp : (P.getD j 0).Prime) (hodd : P.getD j 0 % 2 = 1) (hsm : 2 * P.getD j 0 ≤ W)
    (hall : ∀ q ∈ Q, q < W) :
    haveI : Fact (P.getD j 0).Prime := ⟨hp⟩
    ((((genModUpConstants Q P).qoverqimodp[j]!)[i]! : ℕ) : ZMod (P.getD j 0))
        = ((prodExcept Q i : ℕ) : ZMod (P.getD j 0)) * (W : ZMod (P.getD j 0))
      ∧ ((genModUpConstants Q P).qoverqimodp[j]!)[i]! < P.getD j 0 := by
  have : Fact (P.getD j 0).Prime := ⟨hp⟩
  rw [muc_qoverqimodp Q P i j hi hj]
  generalize hq : P.getD j 0 = q at *
  have hqW : q < W := by unfold W at *; omega
  have hm : MontConst q (GenMRedConstant q) := (GenMRedConstant_spec q hodd hqW).1
  obtain ⟨c, lW, _⟩ := montFold_cast (q := q) (GenMRedConstant q) hsm hm (fun j => Q.getD j 0)
    (getD_lt_W Q hall) (others Q.length i) 1 (by decide)
  obtain ⟨hlt, hc⟩ := NTT.MForm_cast (q := q) _ hsm lW
  refine ⟨?_, hlt⟩
  rw [hc, c, Nat.cast_one, one_mul]
  unfold prodExcept
  rw [Nat.cast_list_prod, List.map_map]
  rfl

/-- the running table `vtimesqmodp[j]`: `k` steps of `t ← CRed(t + v)` -/
theorem vtFold (p vv : Nat) (hp : 0 < p) (hvv : vv ≤ p) (h2 : 2 * p ≤ W) :
    ∀ (L : List Nat) (arr : Array Nat) (last k : Nat), arr.size = k + 1 → last = (k * vv) % p →
      (∀ t, t ≤ k → arr[t]! = (t * vv) % p) →
      ∀ t, t ≤ k + L.length →
        (L.foldl (fun (st : Array Nat × Nat) _ => ((st.1.push (CRed (u64add st.2 vv) p)), CRed (u64add st.2 vv) p))
          (arr, last)).1[t]! = (t * vv) % p
  | [], arr, last, k, _, _, h, t, ht => by simpa using h t (by simpa using ht)
  | _ :: L, arr, last, k, hsz, hlast, h, t, ht => by
    rw [List.foldl_cons]
    have hl : last < p := by rw [hlast]; exact Nat.mod_lt _ hp
    have hnx : CRed (u64add last vv) p = ((k + 1) * vv) % p := by
      rw [Lattigo.u64add_eq last vv (by omega), CRed_spec _ p hp (by omega) (by omega), hlast,
        Nat.add_mul, Nat.one_mul, Nat.mod_add_mod]
    apply vtFold p vv hp hvv h2 L _ _ (k + 1) (by rw [Array.size_push, hsz]) hnx
    · intro t' ht'
      by_cases e : t' = k + 1
      · subst e
        rw [← hnx]
        have : (arr.push (CRed (u64add last vv) p))[k + 1]! = CRed (u64add last vv) p := by
          simp [← hsz]
        exact this
      · have hlt : t' < arr.size := by omega
        have : (arr.push (CRed (u64add last vv) p))[t']! = arr[t']! := by
          rw [getElem!_pos (arr.push _) t' (by simp; omega), getElem!_pos arr t' hlt,
            Array.getElem_push_lt hlt]
        rw [this]; exact h t' (by omega)
    · simp only [List.length_cons] at ht; omega

/-- the `MRed` chain computing `Q mod p_j` in `GenModUpConstants` -/
theorem qmodp_eq (Q : List Nat) (p : Nat) (hp : p.Prime) (hodd : p % 2 = 1) (hsm : 2 * p ≤ W)
    (hall : ∀ q ∈ Q, q < W) :
    Q.foldl (fun acc qi => MRed acc (MForm qi p (brc p)) p (GenMRedConstant p)) 1 = prodN Q % p := by
  have : Fact p.Prime := ⟨hp⟩
  have hqW : p < W := by unfold W at *; omega
  have hm : MontConst p (GenMRedConstant p) := (GenMRedConstant_spec p hodd hqW).1
  have hf : ∀ j : ℕ, (fun j => if j ∈ Q then j else 0) j < W := by
    intro j; simp only []; split
    · exact hall j ‹_›
    · decide
  obtain ⟨c, _, l⟩ := montFold_cast (q := p) (GenMRedConstant p) hsm hm (fun j => if j ∈ Q then j else 0) hf
    Q 1 (by decide)
  have hfold : Q.foldl (fun acc qi => MRed acc (MForm qi p (brc p)) p (GenMRedConstant p)) 1
      = Q.foldl (fun acc j => MRed acc (MForm ((fun j => if j ∈ Q then j else 0) j) p (brc p)) p
          (GenMRedConstant p)) 1 := by
    apply List.foldl_ext
    intro a b hb
    simp only [hb, if_true]
  have hmap : (Q.map (fun j => (((fun j => if j ∈ Q then j else 0) j : ℕ) : ZMod p)))
      = Q.map (fun j => ((j : ℕ) : ZMod p)) := by
    apply List.map_congr_left
    intro a ha
    simp only [ha, if_true]
  rw [hfold]
  have hlt := l hp.one_lt
  have key : ((Q.foldl (fun acc j => MRed acc (MForm ((fun j => if j ∈ Q then j else 0) j) p (brc p)) p
      (GenMRedConstant p)) 1 : ℕ) : ZMod p) = ((prodN Q % p : ℕ) : ZMod p) := by
    rw [c, hmap, Nat.cast_one, one_mul, ZMod.natCast_mod, Scaling.prodN_eq_prod, Nat.cast_list_prod]
  have := (ZMod.natCast_eq_natCast_iff' _ _ p).1 key
  rwa [Nat.mod_eq_of_lt hlt, Nat.mod_mod] at this

/-- entry `[j][v]` of `vtimesqmodp`: `v·(p_j − Q mod p_j) mod p_j` for `0 ≤ v ≤ #Q` -/
theorem muc_vtimesqmodp (Q P : List Nat) (j v : Nat) (hj : j < P.length) (hv : v ≤ Q.length)
    (hp : (P.getD j 0).Prime) (hodd : P.getD j 0 % 2 = 1) (hsm : 2 * P.getD j 0 ≤ W)
    (hall : ∀ q ∈ Q, q < W) :
    ((genModUpConstants Q P).vtimesqmodp[j]!)[v]!
      = (v * (P.getD j 0 - prodN Q % P.getD j 0)) % P.getD j 0 := by
  unfold genModUpConstants
  simp only []
  rw [getElem!_map_toArray _ _ j hj]
  generalize hq : P.getD j 0 = p at *
  rw [qmodp_eq Q p hp hodd hsm hall]
  have hp0 := hp.pos
  have hr : prodN Q % p < p := Nat.mod_lt _ hp0
  rw [Lattigo.u64sub_eq p _ (Nat.le_of_lt hr) (by unfold W at *; omega)]
  have := vtFold p (p - prodN Q % p) hp0 (by omega) hsm (List.range Q.length) #[0] 0 0 (by simp) (by simp)
    (by intro t ht; have : t = 0 := by omega
        subst this; simp) v (by simpa using hv)
  exact this

/-! ## 4. `multSum` against the integer-level `hpsOut` -/

theorem drop_eq_getD_cons (Q : List Nat) (i : Nat) (hi : i < Q.length) :
    Q.drop i = Q.getD i 0 :: Q.drop (i + 1) := by
  rw [List.drop_eq_getElem_cons hi]
  simp [List.getD_eq_getElem?_getD, hi]

/-- in `Z_p`: `Σ y_i·c_i = 2^64·Σ y_i·(Q/q_i)` when `c_i = (Q/q_i)·2^64` -/
theorem dot_cast {p : ℕ} (cs : Array Nat) (Q : List Nat) (Qbig : Nat)
    (hcs : ∀ k, k < Q.length → ((cs[k]! : ℕ) : ZMod p) = ((Qbig / Q.getD k 0 : ℕ) : ZMod p) * (W : ZMod p)) :
    ∀ (ys : List Nat) (i : Nat), i + ys.length = Q.length →
      ((dot cs i ys : ℕ) : ZMod p) = (W : ZMod p) * ((sumQ Qbig (Q.drop i) ys : ℕ) : ZMod p)
  | [], i, _ => by simp [dot]
  | y :: ys, i, h => by
    have hi : i < Q.length := by simp only [List.length_cons] at h; omega
    rw [drop_eq_getD_cons Q i hi, sumQ_cons]
    show ((y * cs[i]! + dot cs (i + 1) ys : ℕ) : ZMod p) = _
    rw [Nat.cast_add, Nat.cast_mul, hcs i hi, dot_cast cs Q Qbig hcs ys (i + 1)
      (by simp only [List.length_cons] at h; omega), Nat.cast_add, Nat.cast_mul]
    ring

/-- size of the 128-bit accumulator: `Σ y_i·c_i + p·#ys ≤ p·Σ q_i` when `y_i < q_i`, `c_i ≤ p` -/
theorem dot_bound (cs : Array Nat) (Q : List Nat) (p : Nat) (hcs : ∀ k : Nat, cs[k]! ≤ p) :
    ∀ (ys : List Nat) (i : Nat), i + ys.length = Q.length →
      (∀ k, k < ys.length → ys.getD k 0 < Q.getD (i + k) 0) →
      dot cs i ys + p * ys.length ≤ p * (Q.drop i).sum
  | [], i, _, _ => by simp [dot]
  | y :: ys, i, h, hy => by
    have hi : i < Q.length := by simp only [List.length_cons] at h; omega
    rw [drop_eq_getD_cons Q i hi, List.sum_cons, List.length_cons]
    have ih := dot_bound cs Q p hcs ys (i + 1) (by simp only [List.length_cons] at h; omega)
      (by intro k hk
          have := hy (k + 1) (by simp only [List.length_cons]; omega)
          rw [List.getD_cons_succ] at this
          rwa [show i + 1 + k = i + (k + 1) by omega])
    have h0 := hy 0 (by simp)
    rw [List.getD_cons_zero, Nat.add_zero] at h0
    show y * cs[i]! + dot cs (i + 1) ys + p * (ys.length + 1) ≤ p * (Q.getD i 0 + (Q.drop (i + 1)).sum)
    have h1 : y * cs[i]! ≤ y * p := Nat.mul_le_mul_left _ (hcs i)
    have h2 : (y + 1) * p ≤ Q.getD i 0 * p := Nat.mul_le_mul_right _ h0
    rw [Nat.mul_add, Nat.mul_add, Nat.mul_one, Nat.mul_comm p (Q.getD i 0)]
    rw [Nat.add_mul, Nat.one_mul] at h2
    omega

theorem getElem!_map_range_ge (n : Nat) (f : Nat → Nat) (i : Nat) (h : n ≤ i) :
    (((List.range n).map f).toArray)[i]! = 0 := by
  simp [h]

theorem muc_qoverqimodp_ge (Q P : List Nat) (i j : Nat) (hi : Q.length ≤ i) (hj : j < P.length) :
    ((genModUpConstants Q P).qoverqimodp[j]!)[i]! = 0 := by
  unfold genModUpConstants
  simp only []
  rw [getElem!_map_toArray _ _ j hj, getElem!_map_range_ge _ _ i hi]

/-- **`multSum` ⊑ `hpsOut`** (one lane, target modulus `p = P[j]`, source chain `Q`, any index `v ≤ #Q`):
for `y_i < q_i` the limb is congruent to `Σ y_i·(Q/q_i) + v·(p − Q mod p)` and smaller than `(k+2)·p`, where
`k` bounds `Σ q_i / 2^64` (`k = 1` for at most 8 source moduli below `2^61`). -/
theorem multSum_hps (Q P : List Nat) (hC : Chain Q) (hne : Q ≠ []) (j : Nat) (hj : j < P.length)
    (hp : (P.getD j 0).Prime) (hodd : P.getD j 0 % 2 = 1) (k : Nat) (hk : Q.sum ≤ k * W)
    (hkp : (k + 2) * P.getD j 0 ≤ W) (ys : List Nat) (hlen : ys.length = Q.length)
    (hys : ∀ i, i < Q.length → ys.getD i 0 < Q.getD i 0) (v : Nat) (hv : v ≤ Q.length) :
    multSum ys v (P.getD j 0) (GenMRedConstant (P.getD j 0)) (genModUpConstants Q P).vtimesqmodp[j]!
        (genModUpConstants Q P).qoverqimodp[j]! % P.getD j 0 = hpsOut Q ys v (P.getD j 0)
    ∧ multSum ys v (P.getD j 0) (GenMRedConstant (P.getD j 0)) (genModUpConstants Q P).vtimesqmodp[j]!
        (genModUpConstants Q P).qoverqimodp[j]! < (k + 2) * P.getD j 0 := by
  have hF : Fact (P.getD j 0).Prime := ⟨hp⟩
  have hall : ∀ q ∈ Q, q < W := fun q hq => by have := hC.small q hq; unfold W; omega
  have hp0 := hp.pos
  have h2p : 2 * P.getD j 0 ≤ W := by
    have : 2 * P.getD j 0 ≤ (k + 2) * P.getD j 0 := Nat.mul_le_mul_right _ (by omega)
    omega
  have hvt := muc_vtimesqmodp Q P j v hj hv hp hodd h2p hall
  have hcsc : ∀ i, i < Q.length →
      ((((genModUpConstants Q P).qoverqimodp[j]!)[i]! : ℕ) : ZMod (P.getD j 0))
        = ((prodN Q / Q.getD i 0 : ℕ) : ZMod (P.getD j 0)) * (W : ZMod (P.getD j 0)) := by
    intro i hi
    have := (qoverqimodp_cast Q P i j hi hj hp hodd h2p hall).1
    rw [this, ← qStar_eq_prodExcept Q i hi (hC.prime _ (getD_mem Q i hi)).pos]
    rfl
  have hcsp : ∀ i : Nat, ((genModUpConstants Q P).qoverqimodp[j]!)[i]! ≤ P.getD j 0 := by
    intro i
    by_cases hi : i < Q.length
    · exact Nat.le_of_lt (qoverqimodp_cast Q P i j hi hj hp hodd h2p hall).2
    · rw [muc_qoverqimodp_ge Q P i j (by omega) hj]; omega
  generalize hpj : P.getD j 0 = p at *
  generalize (genModUpConstants Q P).qoverqimodp[j]! = cs at *
  generalize (genModUpConstants Q P).vtimesqmodp[j]! = vt at *
  have hpW : p < W := by omega
  have hm : MontConst p (GenMRedConstant p) := (GenMRedConstant_spec p hodd hpW).1
  have hWne := NTT.W_ne_zero (q := p) hm.odd
  have hn : 0 < ys.length := by
    rw [hlen]; exact List.length_pos_iff.mpr hne
  have hysne : ys ≠ [] := List.length_pos_iff.mp hn
  -- size of the accumulator
  have hb := dot_bound cs Q p hcsp ys 0 (by omega) (by intro i hi; rw [Nat.zero_add]; exact hys i (by omega))
  rw [List.drop_zero] at hb
  have hpk : p * Q.sum ≤ p * (k * W) := Nat.mul_le_mul_left _ hk
  have hlt : dot cs 0 ys < (p * k) * W := by
    have : p * ys.length ≥ p := Nat.le_mul_of_pos_right _ hn
    rw [Nat.mul_assoc]; omega
  have hdiv : dot cs 0 ys / W < p * k := Nat.div_lt_of_lt_mul (by rw [Nat.mul_comm]; exact hlt)
  have hkpW : p * k ≤ W := by
    have : (k + 2) * p = p * k + 2 * p := by rw [Nat.add_mul, Nat.mul_comm k p]
    omega
  have hfit : dot cs 0 ys < W * W := Nat.lt_of_lt_of_le hlt (Nat.mul_le_mul_right _ hkpW)
  have hvtlt : vt[v]! < p := by rw [hvt]; exact Nat.mod_lt _ hp0
  have hkp' : p * k + 2 * p ≤ W := by
    have : (k + 2) * p = p * k + 2 * p := by rw [Nat.add_mul, Nat.mul_comm k p]
    omega
  obtain ⟨c, _, ub⟩ := multSum_spec ys hysne v p (GenMRedConstant p) vt cs
    (fun i => Nat.lt_of_le_of_lt (hcsp i) hpW)
    (by intro y hy
        obtain ⟨i, hi, rfl⟩ := List.getElem_of_mem hy
        have := hys i (by omega)
        rw [List.getD_eq_getElem?_getD, List.getElem?_eq_getElem hi, Option.getD_some] at this
        have := getD_lt_W Q hall i
        omega)
    hpW hm hfit (by omega)
  refine ⟨?_, ?_⟩
  · -- congruence
    have hc := (ZMod.natCast_eq_natCast_iff' _ _ p).2 c
    rw [Nat.cast_mul, Nat.cast_add, Nat.cast_mul, dot_cast cs Q (prodN Q) hcsc ys 0 (by omega),
      List.drop_zero] at hc
    have hr : ((multSum ys v p (GenMRedConstant p) vt cs : ℕ) : ZMod p)
        = ((sumQ (prodN Q) Q ys : ℕ) : ZMod p) + (vt[v]! : ZMod p) := by
      have : ((multSum ys v p (GenMRedConstant p) vt cs : ℕ) : ZMod p) * (W : ZMod p)
          = (((sumQ (prodN Q) Q ys : ℕ) : ZMod p) + (vt[v]! : ZMod p)) * (W : ZMod p) := by
        rw [hc]; ring
      exact mul_right_cancel₀ hWne this
    unfold hpsOut
    rw [hpsSum_eq_sumQ]
    apply (ZMod.natCast_eq_natCast_iff' _ _ p).1
    rw [hr, hvt, ZMod.natCast_mod, Nat.cast_add]
  · have : (k + 2) * p = p * k + 2 * p := by rw [Nat.add_mul, Nat.mul_comm k p]
    omega

/-! ## 5. `reconstructRNS` and `ModUpExact` -/

/-- the correction index as the code computes it (IEEE-754 binary64: `vi += float64(y_i)/float64(q_i)` left to
right, then `uint64(vi)`), a function of the `y_i` and the moduli.  NOT analysed in proofs. -/
def fidx (Q ys : List Nat) : Nat :=
  ((List.zip ys Q).foldl (fun (acc : Float) (yq : Nat × Nat) => acc + toF yq.1 / toF yq.2) 0.0).toUInt64.toNat

theorem take_getD (Q : List Nat) (n i : Nat) (h : i < n) : (Q.take n).getD i 0 = Q.getD i 0 := by
  simp [List.getD_eq_getElem?_getD, h]

theorem map_getD_GenMRed (Q : List Nat) (i : Nat) (h : i < Q.length) :
    (Q.map GenMRedConstant).getD i 0 = GenMRedConstant (Q.getD i 0) := by
  simp [List.getD_eq_getElem?_getD, h]

/-- **`reconstructRNS`, one lane**: the `y_i` ARE `hpsY` of the integer-level specification (source chain
`qs = Q[:n]`, `n` the number of limbs of the lane), the index is `fidx`. -/
theorem reconstruct_eq (Q P : List Nat) (col : List Nat) (hn : col.length ≤ Q.length)
    (hC : Chain (Q.take col.length)) (hcol : ∀ x ∈ col, x < W) :
    reconstruct Q (Q.map GenMRedConstant) (genModUpConstants (Q.take col.length) P) col
      = (hpsY (Q.take col.length) col, fidx Q (hpsY (Q.take col.length) col)) := by
  have hqlen : (Q.take col.length).length = col.length := by rw [List.length_take]; omega
  have hys : (List.range col.length).map (fun i =>
        MRed (col.getD i 0) (genModUpConstants (Q.take col.length) P).qoverqiinvqi[i]! (Q.getD i 0)
          ((Q.map GenMRedConstant).getD i 0)) = hpsY (Q.take col.length) col := by
    apply List.ext_getElem
    · rw [List.length_map, List.length_range]
      unfold hpsY
      rw [List.length_zipWith, hqlen, Nat.min_self]
    · intro i h1 h2
      rw [List.length_map, List.length_range] at h1
      rw [List.getElem_map, List.getElem_range, map_getD_GenMRed Q i (by omega),
        ← take_getD Q col.length i h1]
      have hx : col.getD i 0 < W := by
        rw [List.getD_eq_getElem?_getD, List.getElem?_eq_getElem h1, Option.getD_some]
        exact hcol _ (List.getElem_mem h1)
      rw [reconstruct_y (Q.take col.length) P hC i (by omega) _ hx]
      simp only [hpsY, List.getElem_zipWith]
      have e1 : (Q.take col.length)[i]'(by omega) = (Q.take col.length).getD i 0 := by
        rw [List.getD_eq_getElem?_getD, List.getElem?_eq_getElem (by omega), Option.getD_some]
      have e2 : col[i] = col.getD i 0 := by
        rw [List.getD_eq_getElem?_getD, List.getElem?_eq_getElem h1, Option.getD_some]
      rw [e1, e2]
  unfold reconstruct
  simp only []
  rw [hys]
  rfl

theorem transpose_col (rows : Rows) (col : List Nat) (h : col ∈ transpose rows) :
    col.length = rows.length ∧ ((∀ r ∈ rows, ∀ x ∈ r, x < W) → ∀ x ∈ col, x < W) := by
  unfold transpose at h
  cases rows with
  | nil => simp at h
  | cons r rs =>
    simp only [List.mem_map, List.mem_range] at h
    obtain ⟨j, _, rfl⟩ := h
    refine ⟨by simp, ?_⟩
    intro hW x hx
    rw [List.mem_map] at hx
    obtain ⟨rw', hrw, rfl⟩ := hx
    by_cases hj : j < rw'.length
    · rw [List.getD_eq_getElem?_getD, List.getElem?_eq_getElem hj, Option.getD_some]
      exact hW rw' hrw _ (List.getElem_mem hj)
    · have : rw'.getD j 0 = 0 := by simp [List.getD_eq_getElem?_getD, Nat.le_of_not_lt hj]
      rw [this]; decide

/-- **`ModUpExact`, all rows**: row `j` of the result is, lane by lane, `multSum` of the integer-level `y_i`
(`hpsY`) with the index `fidx` the code computes. `n = len(p1)` source limbs, source chain `Q[:n]`. -/
theorem modUpExact_rows (Q P : List Nat) (levelP : Nat) (p1 : Rows) (hn : p1.length ≤ Q.length)
    (hC : Chain (Q.take p1.length)) (hW : ∀ r ∈ p1, ∀ x ∈ r, x < W) :
    modUpExact Q P (genModUpConstants (Q.take p1.length) P) levelP p1
      = (List.range (levelP + 1)).map fun j => (transpose p1).map fun col =>
          multSum (hpsY (Q.take p1.length) col) (fidx Q (hpsY (Q.take p1.length) col)) (P.getD j 0)
            (GenMRedConstant (P.getD j 0)) (genModUpConstants (Q.take p1.length) P).vtimesqmodp[j]!
            (genModUpConstants (Q.take p1.length) P).qoverqimodp[j]! := by
  unfold modUpExact
  simp only []
  apply List.map_congr_left
  intro j _
  rw [List.map_map]
  apply List.map_congr_left
  intro col hcol
  obtain ⟨hl, hx⟩ := transpose_col p1 col hcol
  have := reconstruct_eq Q P col (by omega) (by rw [hl]; exact hC) (hx hW)
  rw [hl] at this
  simp only [Function.comp, this]

theorem hpsY_length (qs xs : List Nat) (h : xs.length = qs.length) : (hpsY qs xs).length = qs.length := by
  unfold hpsY; rw [List.length_zipWith, h, Nat.min_self]

theorem hpsY_getD (qs xs : List Nat) (h : xs.length = qs.length) (i : Nat) (hi : i < qs.length) :
    (hpsY qs xs).getD i 0
      = (xs.getD i 0 * invMod (qStar qs (qs.getD i 0) % qs.getD i 0) (qs.getD i 0)) % qs.getD i 0 := by
  have hl := hpsY_length qs xs h
  rw [List.getD_eq_getElem?_getD, List.getElem?_eq_getElem (by omega), Option.getD_some,
    List.getD_eq_getElem?_getD, List.getElem?_eq_getElem (by omega : i < xs.length), Option.getD_some,
    List.getD_eq_getElem?_getD, List.getElem?_eq_getElem hi, Option.getD_some]
  simp only [hpsY, List.getElem_zipWith]

theorem hpsY_lt (qs xs : List Nat) (h : xs.length = qs.length) (hpos : ∀ q ∈ qs, 0 < q) (i : Nat)
    (hi : i < qs.length) : (hpsY qs xs).getD i 0 < qs.getD i 0 := by
  rw [hpsY_getD qs xs h i hi]
  exact Nat.mod_lt _ (hpos _ (getD_mem qs i hi))

/-- hypotheses on a target chain: odd primes `p` with `(k+2)·p ≤ 2^64` -/
structure Target (P : List Nat) (k : Nat) : Prop where
  prime : ∀ p ∈ P, Nat.Prime p
  odd   : ∀ p ∈ P, p % 2 = 1
  small : ∀ p ∈ P, (k + 2) * p ≤ W

/-- **`ModUpExact`, limb level ⊑ integer level.**  `Q`, `P` the chains of the two rings, `p1` the `n ≥ 1` source
rows (uint64 entries, reduced or not), source chain `qs = Q[:n]` an admissible chain (distinct odd primes below
`2^61`) with `Σ q_i ≤ k·2^64` (`k = 1` for `n ≤ 8`), targets odd primes with `(k+2)·p ≤ 2^64`.  For every target
row `j ≤ levelP` and every lane (`col` the lane's source limbs): with `y = hpsY qs col` (the integer-level `y_i`)
and `v = fidx Q y` the IEEE index of the code, if `v` is a valid table index (`v ≤ n`; it is `≤ n` for every float
sum of `n` terms `≤ 1`, NOT proved here) then the limb written is

  `≡ Σ y_i·(Q/q_i) + v·(p_j − Q mod p_j) = hpsOut qs y v p_j  (mod p_j)`   and   `< (k+2)·p_j`.  -/
theorem modUpExact_limbs (Q P : List Nat) (levelP : Nat) (hlP : levelP < P.length) (p1 : Rows)
    (hpos : 0 < p1.length) (hn : p1.length ≤ Q.length) (hC : Chain (Q.take p1.length)) (k : Nat)
    (hk : (Q.take p1.length).sum ≤ k * W) (hT : Target P k) (hW : ∀ r ∈ p1, ∀ x ∈ r, x < W)
    (j : Nat) (hj : j ≤ levelP) :
    List.Forall₂ (fun col out =>
        fidx Q (hpsY (Q.take p1.length) col) ≤ p1.length →
          out % P.getD j 0
              = hpsOut (Q.take p1.length) (hpsY (Q.take p1.length) col)
                  (fidx Q (hpsY (Q.take p1.length) col)) (P.getD j 0)
            ∧ out < (k + 2) * P.getD j 0)
      (transpose p1) (row (modUpExact Q P (genModUpConstants (Q.take p1.length) P) levelP p1) j) := by
  rw [modUpExact_rows Q P levelP p1 hn hC hW, row_map_range _ _ j (by omega),
    List.forall₂_map_right_iff, List.forall₂_same]
  intro col hcol hv
  obtain ⟨hl, _⟩ := transpose_col p1 col hcol
  have hqlen : (Q.take p1.length).length = p1.length := by rw [List.length_take]; omega
  have hmem := getD_mem P j (by omega)
  exact multSum_hps (Q.take p1.length) P hC (by intro h; rw [h] at hqlen; simp at hqlen; omega) j (by omega)
    (hT.prime _ hmem) (hT.odd _ hmem) k hk (hT.small _ hmem) _
    (hpsY_length _ _ (by omega))
    (hpsY_lt _ _ (by omega) (fun q hq => (hC.prime q hq).pos)) _ (by omega)

/-- for at most 8 moduli below `2^61` the sum of the moduli is `≤ 2^64` (`k = 1`: limbs `< 3p`) -/
theorem sum_le_W (qs : List Nat) (hsm : ∀ q ∈ qs, q < 2 ^ 61) (h8 : qs.length ≤ 8) : qs.sum ≤ 1 * W := by
  have : ∀ (l : List Nat), (∀ q ∈ l, q < 2 ^ 61) → l.sum ≤ l.length * 2 ^ 61 := by
    intro l
    induction l with
    | nil => intro _; simp
    | cons a l ih =>
      intro h
      have h1 := h a (List.mem_cons_self ..)
      have h2 := ih (fun q hq => h q (List.mem_cons_of_mem _ hq))
      rw [List.sum_cons, List.length_cons, Nat.add_mul]
      omega
  have h1 := this qs hsm
  have h2 : qs.length * 2 ^ 61 ≤ 8 * 2 ^ 61 := Nat.mul_le_mul_right _ h8
  have h3 : 8 * 2 ^ 61 = 1 * W := by decide
  exact h3 ▸ Nat.le_trans h1 h2

/-- **`ModUpExact` with the exact index**: if the lane holds the residues of `x < Q` and the IEEE index is the
exact `v = ⌊Σ y_i/q_i⌋` (named hypothesis), the limb is `≡ x (mod p_j)`; with an index one too large/small it is
`≡ x − Q` resp. `x + Q` (`modUp_off_by_one`). -/
theorem hpsOut_exact (qs : List Nat) (hC : Chain qs) (hne : qs ≠ []) (x p : Nat) (hx : x < prodN qs) (hp : 0 < p) :
    hpsOut qs (hpsY qs (residues qs x)) (hpsV qs (hpsY qs (residues qs x))) p = x % p :=
  (modUp_exact_primes qs x p hne
    (fun q hq => ⟨hC.prime q hq, by have := hC.small q hq; omega⟩) hC.nodup hx hp).2.2

/-- `hpsOut` over the integers: `Σ y_i·(Q/q_i) − v·Q (mod p)` -/
theorem hpsOut_int (qs ys : List Nat) (v p : Nat) (hp : 0 < p) :
    ((hpsOut qs ys v p : ℕ) : ℤ) % (p : ℤ)
      = ((hpsSum qs ys : ℤ) - (v : ℤ) * (prodN qs : ℤ)) % (p : ℤ) := by
  unfold hpsOut
  have hr : prodN qs % p ≤ p := Nat.le_of_lt (Nat.mod_lt _ hp)
  have hdm : ((prodN qs : ℕ) : ℤ) = (p : ℤ) * ((prodN qs / p : ℕ) : ℤ) + ((prodN qs % p : ℕ) : ℤ) := by
    exact_mod_cast (Nat.div_add_mod (prodN qs) p).symm
  rw [Int.natCast_mod, Int.emod_emod_of_dvd _ (dvd_refl _)]
  have : ((hpsSum qs ys + v * (p - prodN qs % p) : ℕ) : ℤ)
      = ((hpsSum qs ys : ℤ) - (v : ℤ) * (prodN qs : ℤ)) + (p : ℤ) * ((v : ℤ) * (1 + ((prodN qs / p : ℕ) : ℤ))) := by
    rw [Nat.cast_add, Nat.cast_mul, Nat.cast_sub hr, hdm]
    ring
  rw [this, Int.add_mul_emod_self_left]

/-! ## 6. `ModUpQtoP` / `ModUpPtoQ` (centred extension) -/

theorem transpose_eq (rows : Rows) (N : Nat) (hne : rows ≠ []) (hN : (rows.headD []).length = N) :
    transpose rows = (List.range N).map fun j => rows.map fun rw => rw.getD j 0 := by
  cases rows with
  | nil => exact absurd rfl hne
  | cons r rs =>
    simp only [List.headD_cons] at hN
    subst hN
    rfl

theorem transpose_map_rows (n : Nat) (hn : 0 < n) (X : List Nat) (g : Nat → Nat → Nat) :
    transpose ((List.range n).map fun i => X.map (g i))
      = X.map fun x => (List.range n).map fun i => g i x := by
  rw [transpose_eq _ X.length (by
      intro h
      have := congrArg List.length h
      simp at this; omega)
    (by
      obtain ⟨m, rfl⟩ : ∃ m, n = m + 1 := ⟨n - 1, by omega⟩
      rw [List.range_succ_eq_map]; simp)]
  apply List.ext_getElem
  · simp
  · intro t h1 h2
    rw [List.length_map, List.length_range] at h1
    rw [List.getElem_map, List.getElem_range, List.getElem_map, List.map_map]
    apply List.map_congr_left
    intro i _
    simp only [Function.comp]
    rw [List.getD_eq_getElem?_getD, List.getElem?_eq_getElem (by simpa using h1), Option.getD_some,
      List.getElem_map]

theorem range_map_residues (Q : List Nat) (n z : Nat) (hn : n ≤ Q.length) :
    (List.range n).map (fun i => z % Q.getD i 0) = residues (Q.take n) z := by
  unfold residues
  apply List.ext_getElem
  · simp; omega
  · intro i h1 h2
    rw [List.length_map, List.length_range] at h1
    rw [List.getElem_map, List.getElem_range, List.getElem_map, List.getElem_take,
      List.getD_eq_getElem?_getD, List.getElem?_eq_getElem (by omega), Option.getD_some]

/-- `AddScalarBigint` on reduced rows: the residues of `x + s` -/
theorem addScalarBig_rows (Q : List Nat) (level s : Nat) (pol : Rows) (X : List Nat)
    (hq : ∀ i, i ≤ level → 0 < Q.getD i 0 ∧ 2 * Q.getD i 0 ≤ W)
    (hrows : ∀ i, i ≤ level → row pol i = X.map (· % Q.getD i 0)) :
    addScalarBig Q level s pol = (List.range (level + 1)).map fun i => X.map fun x => (x + s) % Q.getD i 0 := by
  unfold addScalarBig
  apply List.map_congr_left
  intro i hi
  have hi' : i ≤ level := by have := List.mem_range.mp hi; omega
  obtain ⟨h0, h2⟩ := hq i hi'
  simp only []
  rw [hrows i hi', List.map_map]
  apply List.map_congr_left
  intro x _
  simp only [Function.comp]
  have h1 : x % Q.getD i 0 < Q.getD i 0 := Nat.mod_lt _ h0
  have h3 : s % Q.getD i 0 < Q.getD i 0 := Nat.mod_lt _ h0
  rw [addscalarvec_lane_spec _ _ _ _ h0 (by omega) (by omega), ← Nat.add_mod]

/-- `SubScalar` on an UNREDUCED limb `x < B` (`p ≤ B`): congruent to `x − s`, still `< B` -/
theorem subscalar_lazy (x s p B : Nat) (hp : 0 < p) (hs : s < p) (hW : x + p < W) (hx : x < B) (hB : p ≤ B) :
    ((subscalarvec_lane x s 0 p : ℕ) : ℤ) % (p : ℤ) = ((x : ℤ) - (s : ℤ)) % (p : ℤ)
    ∧ subscalarvec_lane x s 0 p < B := by
  unfold subscalarvec_lane CRed
  rw [Lattigo.u64add_eq x p hW, Lattigo.u64sub_eq _ s (by omega) hW]
  by_cases h : p ≤ x + p - s
  · rw [if_pos (decide_eq_true h), Lattigo.u64sub_eq _ p h (by omega)]
    have : x + p - s - p = x - s := by omega
    rw [this, Nat.cast_sub (by omega)]
    exact ⟨rfl, by omega⟩
  · rw [if_neg (by simpa using h)]
    refine ⟨?_, by omega⟩
    rw [Nat.cast_sub (by omega), Nat.cast_add]
    have : (x : ℤ) + (p : ℤ) - (s : ℤ) = ((x : ℤ) - (s : ℤ)) + (p : ℤ) * 1 := by ring
    rw [this, Int.add_mul_emod_self_left]

theorem row_range_map (n : Nat) (f : Nat → List Nat) (i : Nat) (h : i < n) :
    row ((List.range n).map f) i = f i := row_map_range n f i h

/-- **`ModUpQtoP` / `ModUpPtoQ`, limb level ⊑ integer level** (`modUp Q P` extends from `Q[:levelQ+1]` to
`P[:levelP+1]`; `ModUpPtoQ` is `modUp P Q`).  `X` the integer coefficients (`row polQ i = X mod q_i`, reduced),
`Qb = Π q_i`.  For every target row `j` and lane `x`: with `x' = (x + ⌊Qb/2⌋) mod Qb` the shifted value the code
extends, `y = hpsY qs (residues qs x')`, `v = fidx Q y` the IEEE index: if `v ≤ #qs` the limb written is

  `≡ centeredRep Qb x + (hpsV − v)·Qb (mod p_j)`   and   `< (k+2)·p_j`,

i.e. the centred representative of `[x]_Qb` plus `δ = hpsV − v` multiples of `Qb` (`δ = 0` when the index is
exact — `modUp_centered_exact`: guaranteed for `|centred x| < Qb/4` and float error `< 1/4`). -/
theorem modUp_limbs (Q P : List Nat) (levelQ levelP : Nat) (hlQ : levelQ < Q.length) (hlP : levelP < P.length)
    (hC : Chain (Q.take (levelQ + 1))) (k : Nat) (hk : (Q.take (levelQ + 1)).sum ≤ k * W)
    (hT : Target P (k + 1)) (polQ : Rows) (X : List Nat)
    (hrows : ∀ i, i ≤ levelQ → row polQ i = X.map (· % Q.getD i 0)) (j : Nat) (hj : j ≤ levelP) :
    List.Forall₂ (fun x out =>
        fidx Q (hpsY (Q.take (levelQ + 1)) (residues (Q.take (levelQ + 1))
            ((x + prodN (Q.take (levelQ + 1)) / 2) % prodN (Q.take (levelQ + 1))))) ≤ levelQ + 1 →
          ((out : ℕ) : ℤ) % (P.getD j 0 : ℤ)
              = (centeredRep (prodN (Q.take (levelQ + 1))) x
                  + ((hpsV (Q.take (levelQ + 1)) (hpsY (Q.take (levelQ + 1)) (residues (Q.take (levelQ + 1))
                        ((x + prodN (Q.take (levelQ + 1)) / 2) % prodN (Q.take (levelQ + 1))))) : ℤ)
                    - (fidx Q (hpsY (Q.take (levelQ + 1)) (residues (Q.take (levelQ + 1))
                        ((x + prodN (Q.take (levelQ + 1)) / 2) % prodN (Q.take (levelQ + 1))))) : ℤ))
                    * (prodN (Q.take (levelQ + 1)) : ℤ)) % (P.getD j 0 : ℤ)
            ∧ out < (k + 2) * P.getD j 0)
      X (row (modUp Q P levelQ levelP polQ) j) := by
  have hqlen : (Q.take (levelQ + 1)).length = levelQ + 1 := by rw [List.length_take]; omega
  have hqmem : ∀ i, i ≤ levelQ → Q.getD i 0 ∈ Q.take (levelQ + 1) := by
    intro i hi
    rw [← take_getD Q (levelQ + 1) i (by omega)]
    exact getD_mem _ i (by omega)
  have hbuf := addScalarBig_rows Q levelQ (halfModulus Q levelQ) polQ X
    (fun i hi => ⟨(hC.prime _ (hqmem i hi)).pos, by have := hC.small _ (hqmem i hi); unfold W; omega⟩) hrows
  unfold modUp
  simp only []
  generalize hb : addScalarBig Q levelQ (halfModulus Q levelQ) polQ = buffQ at *
  have hblen : buffQ.length = levelQ + 1 := by rw [hbuf]; simp
  have hbW : ∀ r ∈ buffQ, ∀ x ∈ r, x < W := by
    intro r hr x hx
    rw [hbuf, List.mem_map] at hr
    obtain ⟨i, hi, rfl⟩ := hr
    rw [List.mem_map] at hx
    obtain ⟨y, _, rfl⟩ := hx
    have hi' : i ≤ levelQ := by have := List.mem_range.mp hi; omega
    have h1 := (hC.prime _ (hqmem i hi')).pos
    have h2 := hC.small _ (hqmem i hi')
    have := Nat.mod_lt (y + halfModulus Q levelQ) h1
    unfold W; omega
  have hT' : Target P k := ⟨hT.prime, hT.odd, fun p hp => by
    have := hT.small p hp
    have : (k + 2) * p ≤ (k + 1 + 2) * p := Nat.mul_le_mul_right _ (by omega)
    omega⟩
  have key := modUpExact_limbs Q P levelP hlP buffQ (by omega) (by omega) (by rw [hblen]; exact hC) k
    (by rw [hblen]; exact hk) hT' hbW j hj
  rw [hblen] at key
  -- the lanes of the buffer are the residues of the shifted values
  have htr : transpose buffQ = X.map fun x => residues (Q.take (levelQ + 1))
      ((x + prodN (Q.take (levelQ + 1)) / 2) % prodN (Q.take (levelQ + 1))) := by
    rw [hbuf, transpose_map_rows (levelQ + 1) (by omega) X (fun i x => (x + halfModulus Q levelQ) % Q.getD i 0)]
    apply List.map_congr_left
    intro x _
    rw [range_map_residues Q (levelQ + 1) _ (by omega), residues_mod_prodN]
    rfl
  rw [htr, List.forall₂_map_left_iff] at key
  unfold subScalarBig
  rw [row_range_map _ _ j (by omega), List.forall₂_map_right_iff]
  refine List.Forall₂.imp ?_ key
  intro x out hout hv
  obtain ⟨hc, hlt⟩ := hout hv
  have hmem := getD_mem P j (by omega)
  have hpp := hT.prime _ hmem
  have hsm := hT.small _ hmem
  have hne : Q.take (levelQ + 1) ≠ [] := by intro h; rw [h] at hqlen; simp at hqlen
  generalize hqs : Q.take (levelQ + 1) = qs at *
  generalize hpj : P.getD j 0 = p at *
  have hQpos : 0 < prodN qs := Scaling.prodN_pos qs (fun q hq => (hC.prime q hq).pos)
  generalize hx' : (x + prodN qs / 2) % prodN qs = x' at *
  have hx'lt : x' < prodN qs := by rw [← hx']; exact Nat.mod_lt _ hQpos
  have hsum : hpsSum qs (hpsY qs (residues qs x'))
      = x' + hpsV qs (hpsY qs (residues qs x')) * prodN qs := (modUp_exact_primes qs x' p hne
    (fun q hq => ⟨hC.prime q hq, by have := hC.small q hq; omega⟩) hC.nodup hx'lt hpp.pos).1
  generalize hys : hpsY qs (residues qs x') = ys at *
  have h3 : (k + 1 + 2) * p = (k + 2) * p + p := by rw [Nat.add_mul, Nat.add_mul, Nat.add_mul]; omega
  have hp2 : p ≤ (k + 2) * p := Nat.le_mul_of_pos_left _ (by omega)
  obtain ⟨s1, s2⟩ := subscalar_lazy out (halfModulus Q levelQ % p) p ((k + 2) * p) hpp.pos
    (Nat.mod_lt _ hpp.pos) (by omega) hlt hp2
  refine ⟨?_, s2⟩
  rw [s1]
  have hh : halfModulus Q levelQ = prodN qs / 2 := by unfold halfModulus; rw [hqs]
  rw [hh]
  have e1 : ((out : ℤ) - ((prodN qs / 2 % p : ℕ) : ℤ)) % (p : ℤ)
      = ((out : ℤ) % (p : ℤ) - ((prodN qs / 2 : ℕ) : ℤ)) % (p : ℤ) := by
    rw [Int.natCast_mod, Int.sub_emod, Int.emod_emod_of_dvd _ (dvd_refl _), ← Int.sub_emod,
      Int.sub_emod ((out : ℤ) % (p : ℤ)), Int.emod_emod_of_dvd _ (dvd_refl _), ← Int.sub_emod]
  have hc' : ((out : ℕ) : ℤ) % (p : ℤ) = ((hpsOut qs ys (fidx Q ys) p : ℕ) : ℤ) % (p : ℤ) := by
    rw [← hc, Int.natCast_mod, Int.emod_emod_of_dvd _ (dvd_refl _)]
  rw [e1, hc', hpsOut_int qs ys _ p hpp.pos, Int.emod_sub_emod, hsum]
  unfold centeredRep
  rw [hx']
  congr 1
  push_cast
  ring

/-! ## 7. `ModDownQPtoQ` / `ModDownQPtoP` -/

/-- `[(p_0⋯p_ℓ)⁻¹]_{q}` as the product of the Fermat inverses the code multiplies together -/
def pinvN (q : Nat) (Ps : List Nat) : Nat := ((Ps.map fun p => invMod p q).prod) % q

theorem pinvN_spec (q : Nat) (hq : q.Prime) (hq64 : q < 2 ^ 64) :
    ∀ (Ps : List Nat), (∀ p ∈ Ps, ¬ q ∣ p) → (prodN Ps * pinvN q Ps) % q = 1
  | [], _ => by simp [prodN, pinvN, Nat.mod_eq_of_lt hq.one_lt]
  | p :: Ps, h => by
    have ih := pinvN_spec q hq hq64 Ps (fun a ha => h a (List.mem_cons_of_mem _ ha))
    have h1 := invMod_spec p q hq hq64 (h p (List.mem_cons_self ..))
    unfold pinvN at ih ⊢
    rw [List.map_cons, List.prod_cons, prodN, Nat.mul_mod_mod]
    rw [Nat.mul_mod_mod] at ih
    have : p * prodN Ps * (invMod p q * (Ps.map fun p => invMod p q).prod)
        = (p * invMod p q) * (prodN Ps * (Ps.map fun p => invMod p q).prod) := by ring
    rw [this, Nat.mul_mod, h1, ih]
    exact Nat.mod_eq_of_lt hq.one_lt

section
open Lattigo.NTT
variable {q : ℕ} [Fact q.Prime]

theorem modDownFold_cast (qinv : ℕ) (h2 : 2 * q ≤ W) (hm : MontConst q qinv) (hqW : q < W) :
    ∀ (rest : List ℕ) (acc : ℕ), acc < q →
      ((rest.foldl (fun acc pj => MRed (MForm (invMod pj q) q (brc q)) acc q qinv) acc : ℕ) : ZMod q)
          = (acc : ZMod q) * ((rest.map fun p => ((invMod p q : ℕ) : ZMod q)).prod)
        ∧ rest.foldl (fun acc pj => MRed (MForm (invMod pj q) q (brc q)) acc q qinv) acc < q
  | [], acc, h => by simp [h]
  | p :: rest, acc, h => by
    have hq0 : 0 < q := (Fact.out : q.Prime).pos
    obtain ⟨hlt, hc⟩ := MForm_cast (q := q) (invMod p q) h2 (by have := invMod_lt p q hq0; omega)
    have hW := W_ne_zero (q := q) hm.odd
    have hxy : MForm (invMod p q) q (brc q) * acc < q * W := Nat.mul_lt_mul'' hlt (by omega)
    have hmc := MRed_cast _ acc qinv h2 hm hxy
    have hml := (MRed_spec _ acc q qinv h2 hm hxy).2
    obtain ⟨c, l⟩ := modDownFold_cast qinv h2 hm hqW rest _ hml
    simp only [List.foldl_cons, List.map_cons, List.prod_cons]
    refine ⟨?_, l⟩
    rw [c, hmc, hc]
    generalize (rest.map fun p => ((invMod p q : ℕ) : ZMod q)).prod = Pr
    have : ((invMod p q : ℕ) : ZMod q) * (W : ZMod q) * (acc : ZMod q) * (W : ZMod q)⁻¹ * Pr
        = (acc : ZMod q) * (((invMod p q : ℕ) : ZMod q) * Pr) * ((W : ZMod q) * (W : ZMod q)⁻¹) := by ring
    rw [this, mul_inv_cancel₀ hW, mul_one]
end

/-- `modDownConstants[levelP][i] = [(p_0⋯p_levelP)⁻¹]_{q_i}·2^64 mod q_i` -/
theorem modDownConst_spec (qi : Nat) (hp : qi.Prime) (hodd : qi % 2 = 1) (h2 : 2 * qi ≤ W) (P : List Nat)
    (levelP : Nat) (hne : P ≠ []) :
    modDownConst qi P levelP = (pinvN qi (P.take (levelP + 1)) * W) % qi := by
  have : Fact qi.Prime := ⟨hp⟩
  have hqW : qi < W := by unfold W at *; omega
  have hm : MontConst qi (GenMRedConstant qi) := (GenMRedConstant_spec qi hodd hqW).1
  unfold modDownConst
  simp only []
  obtain ⟨p0, rest, hpr⟩ : ∃ p0 rest, P.take (levelP + 1) = p0 :: rest := by
    cases P with
    | nil => exact absurd rfl hne
    | cons a l => exact ⟨a, l.take levelP, by simp⟩
  rw [hpr]
  simp only []
  obtain ⟨hlt, hc⟩ := NTT.MForm_cast (q := qi) (invMod p0 qi) h2
    (by have := invMod_lt p0 qi hp.pos; omega)
  obtain ⟨c, l⟩ := modDownFold_cast (q := qi) (GenMRedConstant qi) h2 hm hqW rest _ hlt
  have key : ((rest.foldl (fun acc pj => MRed (MForm (invMod pj qi) qi (brc qi)) acc qi (GenMRedConstant qi))
      (MForm (invMod p0 qi) qi (brc qi)) : ℕ) : ZMod qi)
      = (((pinvN qi (p0 :: rest) * W) % qi : ℕ) : ZMod qi) := by
    rw [c, hc, ZMod.natCast_mod, Nat.cast_mul]
    unfold pinvN
    rw [ZMod.natCast_mod, Nat.cast_list_prod, List.map_cons, List.map_cons, List.prod_cons, List.map_map]
    have : (List.map (Nat.cast ∘ fun p => invMod p qi) rest : List (ZMod qi))
        = rest.map fun p => ((invMod p qi : ℕ) : ZMod qi) := rfl
    rw [this]
    ring
  have := (ZMod.natCast_eq_natCast_iff' _ _ qi).1 key
  rwa [Nat.mod_eq_of_lt l, Nat.mod_mod] at this

/-- **one limb of the closing loop of `ModDown*`**:
`SubThenMulScalarMontgomeryTwoModulus(b, x, q − modDownConstant) = (x − b)·c mod q = modDownRes q c x b`
for every (unreduced) buffer limb `b` with `b + 2q < 2^64`. -/
theorem modDownLane_spec (qi c mdc b x : Nat) (hp : qi.Prime) (hodd : qi % 2 = 1) (h2 : 2 * qi ≤ W)
    (hmdc : mdc = (c * W) % qi) (hx : x < qi) (hb : b + 2 * qi < W) :
    subthenmulscalarmontgomeryTwoModulusvec_lane b x (u64sub qi mdc) 0 qi (GenMRedConstant qi)
      = modDownRes qi c x b := by
  have : Fact qi.Prime := ⟨hp⟩
  have hq0 := hp.pos
  have hqW : qi < W := by unfold W at *; omega
  have hm : MontConst qi (GenMRedConstant qi) := (GenMRedConstant_spec qi hodd hqW).1
  have hWne := NTT.W_ne_zero (q := qi) hm.odd
  have hml : mdc < qi := by rw [hmdc]; exact Nat.mod_lt _ hq0
  rw [Lattigo.u64sub_eq qi mdc (Nat.le_of_lt hml) hqW]
  have hA : b + (2 * qi - x) < W := by omega
  have hs : (b + (2 * qi - x)) * (qi - mdc) < qi * W := by
    calc (b + (2 * qi - x)) * (qi - mdc) ≤ (b + (2 * qi - x)) * qi := Nat.mul_le_mul_left _ (by omega)
      _ < W * qi := Nat.mul_lt_mul_of_pos_right hA hq0
      _ = qi * W := Nat.mul_comm _ _
  obtain ⟨hc, hlt⟩ := subthenmulscalarmontgomeryTwoModulusvec_lane_spec b x (qi - mdc) 0 qi
    (GenMRedConstant qi) h2 hm (by omega) hA hs
  generalize subthenmulscalarmontgomeryTwoModulusvec_lane b x (qi - mdc) 0 qi (GenMRedConstant qi) = out at *
  have hrl : modDownRes qi c x b < qi := Nat.mod_lt _ hq0
  have key : ((out : ℕ) : ZMod qi) = ((modDownRes qi c x b : ℕ) : ZMod qi) := by
    have h1 := (ZMod.natCast_eq_natCast_iff' _ _ qi).2 hc
    have hbm : b % qi ≤ x + qi := by have := Nat.mod_lt b hq0; omega
    have hmc : ((mdc : ℕ) : ZMod qi) = (c : ZMod qi) * (W : ZMod qi) := by
      rw [hmdc, ZMod.natCast_mod, Nat.cast_mul]
    rw [Nat.cast_mul, Nat.cast_mul, Nat.cast_add, Nat.cast_sub (by omega : x ≤ 2 * qi),
      Nat.cast_sub (Nat.le_of_lt hml), hmc, Nat.cast_mul, ZMod.natCast_self] at h1
    unfold modDownRes
    rw [ZMod.natCast_mod, Nat.cast_mul, Nat.cast_sub hbm, Nat.cast_add, ZMod.natCast_mod, ZMod.natCast_self]
    have : ((out : ℕ) : ZMod qi) * (W : ZMod qi)
        = (((x : ZMod qi) + 0 - (b : ZMod qi)) * (c : ZMod qi)) * (W : ZMod qi) := by
      rw [h1]; push_cast; ring
    exact mul_right_cancel₀ hWne this
  have := (ZMod.natCast_eq_natCast_iff' _ _ qi).1 key
  rwa [Nat.mod_eq_of_lt hlt, Nat.mod_eq_of_lt hrl] at this

theorem forall₂_zipWith_map {α : Type} (R : Nat → Nat → Prop) (lane : Nat → Nat → α) (f : Nat → Nat) :
    ∀ (X B : List Nat), List.Forall₂ R X B →
      List.Forall₂ (fun x o => ∃ b, R x b ∧ o = lane b (f x)) X (List.zipWith lane B (X.map f))
  | _, _, .nil => by simp
  | _, _, .cons h t => by
    simp only [List.map_cons, List.zipWith_cons_cons]
    exact .cons ⟨_, h, rfl⟩ (forall₂_zipWith_map R lane f _ _ t)

theorem Target.mono {P : List Nat} {k k' : Nat} (h : Target P k') (hk : k ≤ k') : Target P k :=
  ⟨h.prime, h.odd, fun p hp => by
    have := h.small p hp
    have : (k + 2) * p ≤ (k' + 2) * p := Nat.mul_le_mul_right _ (by omega)
    omega⟩

/-- the closing loop of `ModDown*` on top of a centred extension: generic statement used for both
`ModDownQPtoQ` (`S = P`, `T = Q`) and `ModDownQPtoP` (`S = Q`, `T = P`).  `S[:levelS+1]` is the basis that is
removed (divided by), `T[:levelT+1]` the basis that is kept. -/
theorem modDown_core (T S : List Nat) (levelT levelS : Nat) (hlT : levelT < T.length) (hlS : levelS < S.length)
    (hCS : Chain (S.take (levelS + 1))) (k : Nat) (hk : (S.take (levelS + 1)).sum ≤ k * W)
    (hTT : Target T (k + 2)) (hdisj : ∀ i, i ≤ levelT → T.getD i 0 ∉ S.take (levelS + 1))
    (pT pS : Rows) (X : List Nat)
    (hT : ∀ i, i ≤ levelT → row pT i = X.map (· % T.getD i 0))
    (hS : ∀ j, j ≤ levelS → row pS j = X.map (· % S.getD j 0)) (i : Nat) (hi : i ≤ levelT) :
    List.Forall₂ (fun x out =>
        fidx S (hpsY (S.take (levelS + 1)) (residues (S.take (levelS + 1))
            ((x + prodN (S.take (levelS + 1)) / 2) % prodN (S.take (levelS + 1))))) ≤ levelS + 1 →
          ((out : ℕ) : ℤ) % (T.getD i 0 : ℤ)
              = ((((x + prodN (S.take (levelS + 1)) / 2) / prodN (S.take (levelS + 1)) : ℕ) : ℤ)
                  - ((hpsV (S.take (levelS + 1)) (hpsY (S.take (levelS + 1)) (residues (S.take (levelS + 1))
                        ((x + prodN (S.take (levelS + 1)) / 2) % prodN (S.take (levelS + 1))))) : ℤ)
                    - (fidx S (hpsY (S.take (levelS + 1)) (residues (S.take (levelS + 1))
                        ((x + prodN (S.take (levelS + 1)) / 2) % prodN (S.take (levelS + 1))))) : ℤ)))
                % (T.getD i 0 : ℤ)
            ∧ out < T.getD i 0)
      X (row (modDownRows T S levelT levelS (modUp S T levelS levelT pS) pT) i) := by
  have key := modUp_limbs S T levelS levelT hlS hlT hCS k hk (hTT.mono (by omega)) pS X hS i hi
  unfold modDownRows
  rw [row_range_map _ _ i (by omega)]
  simp only []
  rw [hT i hi]
  have hmem := getD_mem T i (by omega)
  have hpp := hTT.prime _ hmem
  have hodd := hTT.odd _ hmem
  have hsm := hTT.small _ hmem
  have hnot := hdisj i hi
  generalize hq : T.getD i 0 = qi at *
  have h4 : (k + 2 + 2) * qi = (k + 2) * qi + 2 * qi := by rw [Nat.add_mul]
  have hq2 : 2 * qi ≤ W := by
    have : 2 * qi ≤ (k + 2) * qi + 2 * qi := Nat.le_add_left _ _
    omega
  have hSne : S ≠ [] := by intro h; rw [h] at hlS; simp at hlS
  have hcspec := modDownConst_spec qi hpp hodd hq2 S levelS hSne
  have hinv := pinvN_spec qi hpp (by unfold W at hq2; omega) (S.take (levelS + 1)) (by
    intro p hp hdvd
    have := (Nat.prime_dvd_prime_iff_eq hpp (hCS.prime p hp)).mp hdvd
    rw [this] at hnot; exact hnot hp)
  refine List.Forall₂.imp ?_ (forall₂_zipWith_map _
    (fun b x => subthenmulscalarmontgomeryTwoModulusvec_lane b x (u64sub qi (modDownConst qi S levelS)) 0 qi
      (GenMRedConstant qi)) (· % qi) X _ key)
  intro x out ⟨b, hR, ho⟩ hv
  obtain ⟨he, hblt⟩ := hR hv
  have hxlt : x % qi < qi := Nat.mod_lt _ hpp.pos
  rw [ho, modDownLane_spec qi (pinvN qi (S.take (levelS + 1))) _ b (x % qi) hpp hodd hq2 hcspec hxlt
    (by omega)]
  exact ⟨modDown_err qi _ _ x b _ hpp.pos hinv he, modDownRes_lt _ _ _ _ hpp.pos⟩

/-- **`ModDownQPtoQ`, limb level ⊑ integer level**: `X` the integer coefficients in basis `QP` (rows of `p1Q`, `p1P`
are `X mod q_i`, `X mod p_j`), `Pb = p_0⋯p_levelP`.  Every limb of row `i` of the result is `< q_i` and

  `≡ ⌊(x + ⌊Pb/2⌋)/Pb⌋ − δ (mod q_i)`,   `δ = hpsV − v`

(`v` the IEEE index of the `P → Q` conversion of the lane; `δ = 0` for an exact index, `|δ| ≤ 1` always by
`modUp_never_off_by_more_than_one`), i.e. the residues of `(x − ext([x]_Pb))·Pb⁻¹` as in `modDown_err`. -/
theorem modDownQPtoQ_limbs (Q P : List Nat) (levelQ levelP : Nat) (hlQ : levelQ < Q.length)
    (hlP : levelP < P.length) (hCP : Chain (P.take (levelP + 1))) (k : Nat)
    (hk : (P.take (levelP + 1)).sum ≤ k * W) (hTQ : Target Q (k + 2))
    (hdisj : ∀ i, i ≤ levelQ → Q.getD i 0 ∉ P.take (levelP + 1)) (p1Q p1P : Rows) (X : List Nat)
    (hQ : ∀ i, i ≤ levelQ → row p1Q i = X.map (· % Q.getD i 0))
    (hP : ∀ j, j ≤ levelP → row p1P j = X.map (· % P.getD j 0)) (i : Nat) (hi : i ≤ levelQ) :
    List.Forall₂ (fun x out =>
        fidx P (hpsY (P.take (levelP + 1)) (residues (P.take (levelP + 1))
            ((x + prodN (P.take (levelP + 1)) / 2) % prodN (P.take (levelP + 1))))) ≤ levelP + 1 →
          ((out : ℕ) : ℤ) % (Q.getD i 0 : ℤ)
              = ((((x + prodN (P.take (levelP + 1)) / 2) / prodN (P.take (levelP + 1)) : ℕ) : ℤ)
                  - ((hpsV (P.take (levelP + 1)) (hpsY (P.take (levelP + 1)) (residues (P.take (levelP + 1))
                        ((x + prodN (P.take (levelP + 1)) / 2) % prodN (P.take (levelP + 1))))) : ℤ)
                    - (fidx P (hpsY (P.take (levelP + 1)) (residues (P.take (levelP + 1))
                        ((x + prodN (P.take (levelP + 1)) / 2) % prodN (P.take (levelP + 1))))) : ℤ)))
                % (Q.getD i 0 : ℤ)
            ∧ out < Q.getD i 0)
      X (row (modDownQPtoQ Q P levelQ levelP p1Q p1P) i) :=
  modDown_core Q P levelQ levelP hlQ hlP hCP k hk hTQ hdisj p1Q p1P X hQ hP i hi

/-- **`ModDownQPtoP`** (division by `Qb = q_0⋯q_levelQ`, result in basis `P`): same statement with the roles of
`Q` and `P` exchanged. -/
theorem modDownQPtoP_limbs (Q P : List Nat) (levelQ levelP : Nat) (hlQ : levelQ < Q.length)
    (hlP : levelP < P.length) (hCQ : Chain (Q.take (levelQ + 1))) (k : Nat)
    (hk : (Q.take (levelQ + 1)).sum ≤ k * W) (hTP : Target P (k + 2))
    (hdisj : ∀ j, j ≤ levelP → P.getD j 0 ∉ Q.take (levelQ + 1)) (p1Q p1P : Rows) (X : List Nat)
    (hQ : ∀ i, i ≤ levelQ → row p1Q i = X.map (· % Q.getD i 0))
    (hP : ∀ j, j ≤ levelP → row p1P j = X.map (· % P.getD j 0)) (j : Nat) (hj : j ≤ levelP) :
    List.Forall₂ (fun x out =>
        fidx Q (hpsY (Q.take (levelQ + 1)) (residues (Q.take (levelQ + 1))
            ((x + prodN (Q.take (levelQ + 1)) / 2) % prodN (Q.take (levelQ + 1))))) ≤ levelQ + 1 →
          ((out : ℕ) : ℤ) % (P.getD j 0 : ℤ)
              = ((((x + prodN (Q.take (levelQ + 1)) / 2) / prodN (Q.take (levelQ + 1)) : ℕ) : ℤ)
                  - ((hpsV (Q.take (levelQ + 1)) (hpsY (Q.take (levelQ + 1)) (residues (Q.take (levelQ + 1))
                        ((x + prodN (Q.take (levelQ + 1)) / 2) % prodN (Q.take (levelQ + 1))))) : ℤ)
                    - (fidx Q (hpsY (Q.take (levelQ + 1)) (residues (Q.take (levelQ + 1))
                        ((x + prodN (Q.take (levelQ + 1)) / 2) % prodN (Q.take (levelQ + 1))))) : ℤ)))
                % (P.getD j 0 : ℤ)
            ∧ out < P.getD j 0)
      X (row (modDownQPtoP Q P levelQ levelP p1Q p1P) j) :=
  modDown_core P Q levelP levelQ hlP hlQ hCQ k hk hTP hdisj p1P p1Q X hP hQ j hj

/-! ## 8. A lane of a centred extension (shared with `Decomposer.DecomposeAndSplit`) -/

/-- `hpsY` depends on the limbs only through their residues -/
theorem hpsY_congr (qs xs zs : List Nat) (hx : xs.length = qs.length) (hz : zs.length = qs.length)
    (h : ∀ i, i < qs.length → xs.getD i 0 % qs.getD i 0 = zs.getD i 0 % qs.getD i 0) :
    hpsY qs xs = hpsY qs zs := by
  apply List.ext_getElem
  · rw [hpsY_length _ _ hx, hpsY_length _ _ hz]
  · intro i h1 h2
    rw [hpsY_length _ _ hx] at h1
    have e1 := hpsY_getD qs xs hx i h1
    have e2 := hpsY_getD qs zs hz i h1
    rw [List.getD_eq_getElem?_getD, List.getElem?_eq_getElem (by rw [hpsY_length _ _ hx]; exact h1),
      Option.getD_some] at e1
    rw [List.getD_eq_getElem?_getD, List.getElem?_eq_getElem (by rw [hpsY_length _ _ hz]; exact h1),
      Option.getD_some] at e2
    rw [e1, e2, Nat.mul_mod, h i h1, ← Nat.mul_mod]

/-- **one lane of a centred HPS extension**: `multSum` of the `y_i` of `x' < Qb` with any index `v ≤ #qs`, followed by
`SubScalar(·, h mod p)`: the limb is `≡ x' − h + (hpsV − v)·Qb (mod p)` and `< (k+2)·p`. -/
theorem centred_lane (qs T : List Nat) (hC : Chain qs) (hne : qs ≠ []) (j : Nat) (hj : j < T.length) (k : Nat)
    (hk : qs.sum ≤ k * W) (hpp : (T.getD j 0).Prime) (hodd : T.getD j 0 % 2 = 1)
    (hsm : (k + 1 + 2) * T.getD j 0 ≤ W) (x' h v : Nat) (hx' : x' < prodN qs) (hv : v ≤ qs.length) :
    ((subscalarvec_lane
          (multSum (hpsY qs (residues qs x')) v (T.getD j 0) (GenMRedConstant (T.getD j 0))
            (genModUpConstants qs T).vtimesqmodp[j]! (genModUpConstants qs T).qoverqimodp[j]!)
          (h % T.getD j 0) 0 (T.getD j 0) : ℕ) : ℤ) % (T.getD j 0 : ℤ)
        = ((x' : ℤ) - (h : ℤ) + ((hpsV qs (hpsY qs (residues qs x')) : ℤ) - (v : ℤ)) * (prodN qs : ℤ))
            % (T.getD j 0 : ℤ)
    ∧ subscalarvec_lane
          (multSum (hpsY qs (residues qs x')) v (T.getD j 0) (GenMRedConstant (T.getD j 0))
            (genModUpConstants qs T).vtimesqmodp[j]! (genModUpConstants qs T).qoverqimodp[j]!)
          (h % T.getD j 0) 0 (T.getD j 0) < (k + 2) * T.getD j 0 := by
  have hrl : (residues qs x').length = qs.length := by unfold residues; simp
  have h3 : (k + 1 + 2) * T.getD j 0 = (k + 2) * T.getD j 0 + T.getD j 0 := by
    rw [Nat.add_mul, Nat.add_mul, Nat.add_mul]; omega
  obtain ⟨hc, hlt⟩ := multSum_hps qs T hC hne j hj hpp hodd k hk (by omega) _
    (hpsY_length _ _ hrl) (hpsY_lt _ _ hrl (fun q hq => (hC.prime q hq).pos)) v hv
  generalize hpj : T.getD j 0 = p at *
  have hsum : hpsSum qs (hpsY qs (residues qs x'))
      = x' + hpsV qs (hpsY qs (residues qs x')) * prodN qs := (modUp_exact_primes qs x' p hne
    (fun q hq => ⟨hC.prime q hq, by have := hC.small q hq; omega⟩) hC.nodup hx' hpp.pos).1
  generalize hys : hpsY qs (residues qs x') = ys at *
  generalize multSum ys v p (GenMRedConstant p) (genModUpConstants qs T).vtimesqmodp[j]!
    (genModUpConstants qs T).qoverqimodp[j]! = out at *
  have hp2 : p ≤ (k + 2) * p := Nat.le_mul_of_pos_left _ (by omega)
  obtain ⟨s1, s2⟩ := subscalar_lazy out (h % p) p ((k + 2) * p) hpp.pos
    (Nat.mod_lt _ hpp.pos) (by omega) hlt hp2
  refine ⟨?_, s2⟩
  rw [s1]
  have e1 : ((out : ℤ) - ((h % p : ℕ) : ℤ)) % (p : ℤ) = ((out : ℤ) % (p : ℤ) - (h : ℤ)) % (p : ℤ) := by
    rw [Int.natCast_mod, Int.sub_emod, Int.emod_emod_of_dvd _ (dvd_refl _), ← Int.sub_emod,
      Int.sub_emod ((out : ℤ) % (p : ℤ)), Int.emod_emod_of_dvd _ (dvd_refl _), ← Int.sub_emod]
  have hc' : ((out : ℕ) : ℤ) % (p : ℤ) = ((hpsOut qs ys v p : ℕ) : ℤ) % (p : ℤ) := by
    rw [← hc, Int.natCast_mod, Int.emod_emod_of_dvd _ (dvd_refl _)]
  rw [e1, hc', hpsOut_int qs ys _ p hpp.pos, Int.emod_sub_emod, hsum]
  congr 1
  push_cast
  ring

theorem centeredRep_emod (P x : Nat) : centeredRep P x % (P : ℤ) = (x : ℤ) % (P : ℤ) := by
  unfold centeredRep
  have h2 : ((x + P / 2 : ℕ) : ℤ) = (P : ℤ) * (((x + P / 2) / P : ℕ) : ℤ) + (((x + P / 2) % P : ℕ) : ℤ) := by
    exact_mod_cast (Nat.div_add_mod (x + P / 2) P).symm
  have : (((x + P / 2) % P : ℕ) : ℤ) - ((P / 2 : ℕ) : ℤ)
      = (x : ℤ) + (P : ℤ) * (-(((x + P / 2) / P : ℕ) : ℤ)) := by
    push_cast at h2 ⊢; linarith
  rw [this, Int.add_mul_emod_self_left]

/-- the centred representative lies in `[−⌊P/2⌋, P − ⌊P/2⌋)`: `|d| ≤ P/2` for odd `P` -/
theorem centeredRep_bounds (P x : Nat) (hP : 0 < P) :
    -((P / 2 : ℕ) : ℤ) ≤ centeredRep P x ∧ centeredRep P x < (P : ℤ) - ((P / 2 : ℕ) : ℤ) := by
  unfold centeredRep
  have := Nat.mod_lt (x + P / 2) hP
  constructor <;> omega

/-! ## 9. `ModUpExact` with the exact / off-by-one index -/

/-- **`ModUpExact`, exact and off-by-one index.**  If lane `t` of `p1` holds the residues of `x_t < Qb = Π qs` then,
for every target row `j`: when the IEEE index equals the exact `v = ⌊Σ y_i/q_i⌋` the limb is `≡ x (mod p_j)`; when it
is one too large the limb is `≡ x − Qb`, one too small `≡ x + Qb`; always `< (k+2)·p_j`. -/
theorem modUpExact_exact (Q P : List Nat) (levelP : Nat) (hlP : levelP < P.length) (p1 : Rows)
    (hpos : 0 < p1.length) (hn : p1.length ≤ Q.length) (hC : Chain (Q.take p1.length)) (k : Nat)
    (hk : (Q.take p1.length).sum ≤ k * W) (hT : Target P k) (hW : ∀ r ∈ p1, ∀ x ∈ r, x < W)
    (xs : List Nat) (hxs : ∀ x ∈ xs, x < prodN (Q.take p1.length))
    (hcols : transpose p1 = xs.map (residues (Q.take p1.length))) (j : Nat) (hj : j ≤ levelP) :
    List.Forall₂ (fun x out =>
        (fidx Q (hpsY (Q.take p1.length) (residues (Q.take p1.length) x))
            = hpsV (Q.take p1.length) (hpsY (Q.take p1.length) (residues (Q.take p1.length) x)) →
          out % P.getD j 0 = x % P.getD j 0 ∧ out < (k + 2) * P.getD j 0)
        ∧ (fidx Q (hpsY (Q.take p1.length) (residues (Q.take p1.length) x))
            = hpsV (Q.take p1.length) (hpsY (Q.take p1.length) (residues (Q.take p1.length) x)) + 1 →
          (out + prodN (Q.take p1.length)) % P.getD j 0 = x % P.getD j 0 ∧ out < (k + 2) * P.getD j 0)
        ∧ (fidx Q (hpsY (Q.take p1.length) (residues (Q.take p1.length) x)) + 1
            = hpsV (Q.take p1.length) (hpsY (Q.take p1.length) (residues (Q.take p1.length) x)) →
          out % P.getD j 0 = (x + prodN (Q.take p1.length)) % P.getD j 0 ∧ out < (k + 2) * P.getD j 0))
      xs (row (modUpExact Q P (genModUpConstants (Q.take p1.length) P) levelP p1) j) := by
  have key := modUpExact_limbs Q P levelP hlP p1 hpos hn hC k hk hT hW j hj
  rw [hcols, List.forall₂_map_left_iff] at key
  have hqlen : (Q.take p1.length).length = p1.length := by rw [List.length_take]; omega
  have hp0 : 0 < P.getD j 0 := (hT.prime _ (getD_mem P j (by omega))).pos
  generalize hqs : Q.take p1.length = qs at *
  have hne : qs ≠ [] := by intro h; rw [h] at hqlen; simp at hqlen; omega
  have hp' : ∀ q ∈ qs, Nat.Prime q ∧ q < 2 ^ 64 :=
    fun q hq => ⟨hC.prime q hq, by have := hC.small q hq; omega⟩
  have hpos' : ∀ q ∈ qs, 0 < q := fun q hq => (hC.prime q hq).pos
  have hcop := pairwise_coprime_of_primes qs hC.prime hC.nodup
  -- strengthen: the statement for every x ∈ xs
  have hall : ∀ x ∈ xs, x < prodN qs := hxs
  clear hxs
  generalize row (modUpExact Q P (genModUpConstants qs P) levelP p1) j = outs at key
  clear hcols
  induction key with
  | nil => exact .nil
  | @cons x out xs' outs h _ ih =>
    refine .cons ?_ (ih (fun y hy => hall y (List.mem_cons_of_mem _ hy)))
    have hx := hall x (List.mem_cons_self ..)
    have hy := hpsY_ok qs x (hinv_of_primes qs hp' hC.nodup) hpos'
    obtain ⟨_, hvlt⟩ := hps_sum qs _ x hne hcop hpos' hx hy
    refine ⟨fun hv => ?_, fun hv => ?_, fun hv => ?_⟩
    · obtain ⟨c, l⟩ := h (by rw [hv]; omega)
      rw [hv] at c
      exact ⟨by rw [c]; exact hpsOut_exact qs hC hne x _ hx hp0, l⟩
    · obtain ⟨c, l⟩ := h (by rw [hv]; omega)
      refine ⟨?_, l⟩
      have := modUp_off_by_one_hi qs _ x (P.getD j 0) _ hcop hpos' hx hy hp0 hv
      rw [← c] at this
      rw [← this, Nat.mod_add_mod]
    · obtain ⟨c, l⟩ := h (by omega)
      refine ⟨?_, l⟩
      rw [c]
      exact modUp_off_by_one_lo qs _ x (P.getD j 0) _ hcop hpos' hx hy hp0 hv

/-! ## 10. Unconditional ranges (whatever the IEEE index) — used for the NTT-domain variant -/

theorem vtFold_size (p vv : Nat) :
    ∀ (L : List Nat) (arr : Array Nat) (last : Nat),
      (L.foldl (fun (st : Array Nat × Nat) _ => ((st.1.push (CRed (u64add st.2 vv) p)), CRed (u64add st.2 vv) p))
          (arr, last)).1.size = arr.size + L.length
  | [], arr, last => by simp
  | _ :: L, arr, last => by
    rw [List.foldl_cons, vtFold_size p vv L]
    simp only [Array.size_push, List.length_cons]; omega

/-- out-of-range reads of `vtimesqmodp[j]` (Go: index panic; twin: default `0`) -/
theorem muc_vtimesqmodp_ge (Q P : List Nat) (j v : Nat) (hj : j < P.length) (hv : Q.length < v) :
    ((genModUpConstants Q P).vtimesqmodp[j]!)[v]! = 0 := by
  unfold genModUpConstants
  simp only []
  rw [getElem!_map_toArray _ _ j hj]
  have hsz := vtFold_size (P.getD j 0)
    (u64sub (P.getD j 0) (Q.foldl (fun acc qi => MRed acc (MForm qi (P.getD j 0) (brc (P.getD j 0))) (P.getD j 0)
      (GenMRedConstant (P.getD j 0))) 1)) (List.range Q.length) #[0] 0
  rw [List.length_range] at hsz
  exact getElem!_neg _ _ (by rw [hsz]; simp; omega)

/-- **`multSum`, range for EVERY index `v`** (valid or not): `< (k+2)·p` -/
theorem multSum_lt (Q P : List Nat) (hC : Chain Q) (hne : Q ≠ []) (j : Nat) (hj : j < P.length)
    (hp : (P.getD j 0).Prime) (hodd : P.getD j 0 % 2 = 1) (k : Nat) (hk : Q.sum ≤ k * W)
    (hkp : (k + 2) * P.getD j 0 ≤ W) (ys : List Nat) (hlen : ys.length = Q.length)
    (hys : ∀ i, i < Q.length → ys.getD i 0 < Q.getD i 0) (v : Nat) :
    multSum ys v (P.getD j 0) (GenMRedConstant (P.getD j 0)) (genModUpConstants Q P).vtimesqmodp[j]!
        (genModUpConstants Q P).qoverqimodp[j]! < (k + 2) * P.getD j 0 := by
  by_cases hv : v ≤ Q.length
  · exact (multSum_hps Q P hC hne j hj hp hodd k hk hkp ys hlen hys v hv).2
  · -- the table read returns 0: same value as with index 0
    have h0 := (multSum_hps Q P hC hne j hj hp hodd k hk hkp ys hlen hys 0 (by omega)).2
    have e0 : ((genModUpConstants Q P).vtimesqmodp[j]!)[v]! = ((genModUpConstants Q P).vtimesqmodp[j]!)[0]! := by
      have hall : ∀ q ∈ Q, q < W := fun q hq => by have := hC.small q hq; unfold W; omega
      have h2p : 2 * P.getD j 0 ≤ W := by
        have : 2 * P.getD j 0 ≤ (k + 2) * P.getD j 0 := Nat.mul_le_mul_right _ (by omega)
        omega
      rw [muc_vtimesqmodp_ge Q P j v hj (by omega), muc_vtimesqmodp Q P j 0 hj (by omega) hp hodd h2p hall]
      simp
    obtain ⟨y0, rest, rfl⟩ := List.exists_cons_of_ne_nil (by
      intro h; rw [h] at hlen; exact hne (List.length_eq_zero_iff.mp hlen.symm) : ys ≠ [])
    rw [multSum_cons, e0, ← multSum_cons]
    exact h0

/-- **`ModUpQtoP/PtoQ`, explicit rows**: row `j` is, lane by lane, `SubScalar(multSum(hpsY(residues x'), fidx))`. -/
theorem modUp_row_eq (Q P : List Nat) (levelQ levelP : Nat) (hlQ : levelQ < Q.length) (hlP : levelP < P.length)
    (hC : Chain (Q.take (levelQ + 1))) (polQ : Rows) (X : List Nat)
    (hrows : ∀ i, i ≤ levelQ → row polQ i = X.map (· % Q.getD i 0)) (j : Nat) (hj : j ≤ levelP) :
    row (modUp Q P levelQ levelP polQ) j = X.map fun x =>
      subscalarvec_lane
        (multSum (hpsY (Q.take (levelQ + 1)) (residues (Q.take (levelQ + 1))
              ((x + prodN (Q.take (levelQ + 1)) / 2) % prodN (Q.take (levelQ + 1)))))
          (fidx Q (hpsY (Q.take (levelQ + 1)) (residues (Q.take (levelQ + 1))
              ((x + prodN (Q.take (levelQ + 1)) / 2) % prodN (Q.take (levelQ + 1))))))
          (P.getD j 0) (GenMRedConstant (P.getD j 0))
          (genModUpConstants (Q.take (levelQ + 1)) P).vtimesqmodp[j]!
          (genModUpConstants (Q.take (levelQ + 1)) P).qoverqimodp[j]!)
        (prodN (Q.take (levelQ + 1)) / 2 % P.getD j 0) 0 (P.getD j 0) := by
  have hqlen : (Q.take (levelQ + 1)).length = levelQ + 1 := by rw [List.length_take]; omega
  have hqmem : ∀ i, i ≤ levelQ → Q.getD i 0 ∈ Q.take (levelQ + 1) := by
    intro i hi
    rw [← take_getD Q (levelQ + 1) i (by omega)]
    exact getD_mem _ i (by omega)
  have hbuf := addScalarBig_rows Q levelQ (halfModulus Q levelQ) polQ X
    (fun i hi => ⟨(hC.prime _ (hqmem i hi)).pos, by have := hC.small _ (hqmem i hi); unfold W; omega⟩) hrows
  unfold modUp
  simp only []
  generalize hb : addScalarBig Q levelQ (halfModulus Q levelQ) polQ = buffQ at *
  have hblen : buffQ.length = levelQ + 1 := by rw [hbuf]; simp
  have hbW : ∀ r ∈ buffQ, ∀ x ∈ r, x < W := by
    intro r hr x hx
    rw [hbuf, List.mem_map] at hr
    obtain ⟨i, hi, rfl⟩ := hr
    rw [List.mem_map] at hx
    obtain ⟨y, _, rfl⟩ := hx
    have hi' : i ≤ levelQ := by have := List.mem_range.mp hi; omega
    have h1 := (hC.prime _ (hqmem i hi')).pos
    have h2 := hC.small _ (hqmem i hi')
    have := Nat.mod_lt (y + halfModulus Q levelQ) h1
    unfold W; omega
  have hrw := modUpExact_rows Q P levelP buffQ (by omega) (by rw [hblen]; exact hC) hbW
  rw [hblen] at hrw
  have htr : transpose buffQ = X.map fun x => residues (Q.take (levelQ + 1))
      ((x + prodN (Q.take (levelQ + 1)) / 2) % prodN (Q.take (levelQ + 1))) := by
    rw [hbuf, transpose_map_rows (levelQ + 1) (by omega) X (fun i x => (x + halfModulus Q levelQ) % Q.getD i 0)]
    apply List.map_congr_left
    intro x _
    rw [range_map_residues Q (levelQ + 1) _ (by omega), residues_mod_prodN]
    rfl
  unfold subScalarBig
  rw [row_range_map _ _ j (by omega), hrw, row_range_map _ _ j (by omega), htr, List.map_map, List.map_map]
  rfl

/-- every limb `ModUpQtoP/PtoQ` writes is `< (k+2)·p_j`, whatever the IEEE index -/
theorem modUp_row_lt (Q P : List Nat) (levelQ levelP : Nat) (hlQ : levelQ < Q.length) (hlP : levelP < P.length)
    (hC : Chain (Q.take (levelQ + 1))) (k : Nat) (hk : (Q.take (levelQ + 1)).sum ≤ k * W)
    (hT : Target P (k + 1)) (polQ : Rows) (X : List Nat)
    (hrows : ∀ i, i ≤ levelQ → row polQ i = X.map (· % Q.getD i 0)) (j : Nat) (hj : j ≤ levelP) :
    (row (modUp Q P levelQ levelP polQ) j).length = X.length
    ∧ ∀ out ∈ row (modUp Q P levelQ levelP polQ) j, out < (k + 2) * P.getD j 0 := by
  rw [modUp_row_eq Q P levelQ levelP hlQ hlP hC polQ X hrows j hj]
  refine ⟨by rw [List.length_map], ?_⟩
  intro out hout
  rw [List.mem_map] at hout
  obtain ⟨x, _, rfl⟩ := hout
  have hqlen : (Q.take (levelQ + 1)).length = levelQ + 1 := by rw [List.length_take]; omega
  have hne : Q.take (levelQ + 1) ≠ [] := by intro h; rw [h] at hqlen; simp at hqlen
  have hmem := getD_mem P j (by omega)
  have hsm := hT.small _ hmem
  have hpp := hT.prime _ hmem
  have hrl : ∀ z, (residues (Q.take (levelQ + 1)) z).length = (Q.take (levelQ + 1)).length :=
    fun z => by unfold residues; simp
  have h3 : (k + 1 + 2) * P.getD j 0 = (k + 2) * P.getD j 0 + P.getD j 0 := by
    rw [Nat.add_mul, Nat.add_mul, Nat.add_mul]; omega
  have hlt := multSum_lt (Q.take (levelQ + 1)) P hC hne j (by omega) hpp (hT.odd _ hmem) k hk (by omega)
    _ (hpsY_length _ _ (hrl ((x + prodN (Q.take (levelQ + 1)) / 2) % prodN (Q.take (levelQ + 1)))))
    (hpsY_lt _ _ (hrl _) (fun q hq => (hC.prime q hq).pos))
    (fidx Q (hpsY (Q.take (levelQ + 1)) (residues (Q.take (levelQ + 1))
      ((x + prodN (Q.take (levelQ + 1)) / 2) % prodN (Q.take (levelQ + 1))))))
  have hp2 : P.getD j 0 ≤ (k + 2) * P.getD j 0 := Nat.le_mul_of_pos_left _ (by omega)
  exact (subscalar_lazy _ _ _ _ hpp.pos (Nat.mod_lt _ hpp.pos) (by omega) hlt hp2).2

end Lattigo.BasisExt

#print axioms Lattigo.BasisExt.multSum_spec
#print axioms Lattigo.BasisExt.reconstruct_y
#print axioms Lattigo.BasisExt.muc_vtimesqmodp
#print axioms Lattigo.BasisExt.multSum_hps
#print axioms Lattigo.BasisExt.reconstruct_eq
#print axioms Lattigo.BasisExt.modUpExact_rows
#print axioms Lattigo.BasisExt.modUpExact_limbs
#print axioms Lattigo.BasisExt.hpsOut_exact
#print axioms Lattigo.BasisExt.modUp_limbs
#print axioms Lattigo.BasisExt.modDownConst_spec
#print axioms Lattigo.BasisExt.modDownLane_spec
#print axioms Lattigo.BasisExt.modDownQPtoQ_limbs
#print axioms Lattigo.BasisExt.modDownQPtoP_limbs
#print axioms Lattigo.BasisExt.centred_lane
#print axioms Lattigo.BasisExt.modUpExact_exact
#print axioms Lattigo.BasisExt.modUp_row_lt
