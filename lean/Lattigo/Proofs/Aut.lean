/-
  C01: the ring automorphism `σ_g : a(X) ↦ a(X^g)` of `Z_q[X]/(X^n+1)` (`RPoly.rowAut`, the model of
  `ring.Automorphism`), its closed form, its evaluation semantics, its composition law, and the
  NTT-domain automorphism through the index table of `ring.AutomorphismNTTIndex`.
-/
import Lattigo.Proofs.AutIndex
import Mathlib.Data.Fintype.EquivFin

namespace Lattigo.NTT
open Lattigo Lattigo.Gen

/-! ### fold of `set!` along an injective index map -/

theorem foldl_set_inj (n : ℕ) (idx val : ℕ → ℕ) (hidx : ∀ i, i < n → idx i < n)
    (hinj : ∀ i j, i < n → j < n → idx i = idx j → i = j) :
    ∀ t, t ≤ n →
      ((List.range t).foldl (fun (acc : Array ℕ) i => acc.set! (idx i) (val i))
          (Array.replicate n 0)).size = n
      ∧ ∀ i, i < t → ((List.range t).foldl (fun (acc : Array ℕ) i => acc.set! (idx i) (val i))
          (Array.replicate n 0))[idx i]! = val i
  | 0, _ => by simp
  | t + 1, ht => by
    obtain ⟨hs, hv⟩ := foldl_set_inj n idx val hidx hinj t (by omega)
    rw [List.range_succ, List.foldl_append]
    simp only [List.foldl_cons, List.foldl_nil]
    refine ⟨by simpa using hs, ?_⟩
    intro i hi
    by_cases hit : i = t
    · subst hit
      exact get!_set!_self _ _ _ (by rw [hs]; exact hidx i (by omega))
    · have hne : idx t ≠ idx i := fun h => hit (hinj i t (by omega) (by omega) h.symm)
      rw [get!_set!_ne _ _ _ _ hne]
      exact hv i (by omega)

/-! ### closed form of `RPoly.rowAut` -/

/-- the sign-carrying negation of `rowAut`: the representative of `−v` in `[0, q)` -/
def negq (q v : ℕ) : ℕ := (q - v % q) % q

/-- value written for source coefficient `i`: `±x_i`, minus iff `i·g mod 2n ≥ n` -/
def autVal (n g q : ℕ) (x : List ℕ) (i : ℕ) : ℕ :=
  if (i * g) % (2 * n) < n then x.getD i 0 else negq q (x.getD i 0)

theorem rowAut_eq (g q : ℕ) (x : List ℕ) :
    RPoly.rowAut g q x
      = ((List.range x.length).foldl
          (fun (acc : Array ℕ) i => acc.set! ((i * g) % x.length) (autVal x.length g q x i))
          (Array.replicate x.length 0)).toList := by
  unfold RPoly.rowAut
  simp only []
  congr 1
  apply List.foldl_ext
  intro acc i hi
  have hn : 0 < x.length := by
    have := List.mem_range.1 hi; omega
  have he : (i * g) % (2 * x.length) < 2 * x.length := Nat.mod_lt _ (by omega)
  have hm : (i * g) % (2 * x.length) % x.length = (i * g) % x.length :=
    Nat.mod_mod_of_dvd _ (Dvd.intro_left 2 rfl)
  have hx : x[i]! = x.getD i 0 := by simp [List.getD_eq_getElem?_getD]
  unfold autVal negq
  rw [hx]
  split
  · rename_i h
    rw [← hm, Nat.mod_eq_of_lt h]
  · rename_i h
    have : (i * g) % (2 * x.length) - x.length = (i * g) % x.length := by
      rw [← hm]
      have h1 : (i * g) % (2 * x.length) - x.length < x.length := by omega
      have h2 : (i * g) % (2 * x.length) = ((i * g) % (2 * x.length) - x.length) + x.length := by omega
      conv_rhs => rw [h2, Nat.add_mod_right, Nat.mod_eq_of_lt h1]
    rw [this]

theorem mul_odd_inj (K g i j : ℕ) (hg : g % 2 = 1) (hi : i < 2 ^ K) (hj : j < 2 ^ K)
    (h : (i * g) % 2 ^ K = (j * g) % 2 ^ K) : i = j := by
  have hcop : Nat.gcd (2 ^ K) g = 1 := by
    apply Nat.Coprime.pow_left
    rw [Nat.Prime.coprime_iff_not_dvd Nat.prime_two]; omega
  have := Nat.ModEq.cancel_right_of_coprime hcop (show i * g ≡ j * g [MOD 2 ^ K] from h)
  unfold Nat.ModEq at this
  rwa [Nat.mod_eq_of_lt hi, Nat.mod_eq_of_lt hj] at this

theorem mul_odd_surj (K g : ℕ) (hg : g % 2 = 1) (j : ℕ) (hj : j < 2 ^ K) :
    ∃ i, i < 2 ^ K ∧ (i * g) % 2 ^ K = j := by
  have hpos : 0 < 2 ^ K := by positivity
  let f : Fin (2 ^ K) → Fin (2 ^ K) := fun i => ⟨(i.1 * g) % 2 ^ K, Nat.mod_lt _ hpos⟩
  have hinj : Function.Injective f := by
    intro a b hab
    apply Fin.ext
    exact mul_odd_inj K g a.1 b.1 hg a.2 b.2 (by simpa [f] using congrArg Fin.val hab)
  obtain ⟨i, hi⟩ := (Finite.injective_iff_surjective.1 hinj) ⟨j, hj⟩
  exact ⟨i.1, i.2, by simpa [f] using congrArg Fin.val hi⟩

/-- **closed form of `rowAut`** on a row of length `n = 2^K`, `g` odd: length `n`, and the coefficient
at position `i·g mod n` is `±x_i` (minus iff `i·g mod 2n ≥ n`), for every `i < n` — i.e.
`σ_g(Σ x_i X^i) = Σ x_i X^{ig}` reduced modulo `X^n + 1`. -/
theorem rowAut_spec (K g q : ℕ) (x : List ℕ) (hlen : x.length = 2 ^ K) (hg : g % 2 = 1) :
    (RPoly.rowAut g q x).length = 2 ^ K
    ∧ ∀ i, i < 2 ^ K → (RPoly.rowAut g q x).getD ((i * g) % 2 ^ K) 0 = autVal (2 ^ K) g q x i := by
  have hpos : 0 < 2 ^ K := by positivity
  obtain ⟨hs, hv⟩ := foldl_set_inj (2 ^ K) (fun i => (i * g) % 2 ^ K) (autVal (2 ^ K) g q x)
    (fun i _ => Nat.mod_lt _ hpos) (fun i j hi hj h => mul_odd_inj K g i j hg hi hj h) (2 ^ K) le_rfl
  rw [rowAut_eq, hlen]
  refine ⟨by simpa using hs, ?_⟩
  intro i hi
  have := hv i hi
  simpa [List.getD_eq_getElem?_getD, Array.getElem!_eq_getD, Array.getD_eq_getD_getElem?] using this

theorem rowAut_lt (K g q : ℕ) (x : List ℕ) (hlen : x.length = 2 ^ K) (hg : g % 2 = 1)
    (hx : ∀ v ∈ x, v < q) : ∀ v ∈ RPoly.rowAut g q x, v < q := by
  obtain ⟨hl, hv⟩ := rowAut_spec K g q x hlen hg
  have hq : 0 < q := by
    have : 0 < x.length := by rw [hlen]; positivity
    obtain ⟨v, hvx⟩ := List.exists_mem_of_length_pos this
    have := hx v hvx; omega
  intro v hvm
  obtain ⟨j, hj, rfl⟩ := List.getElem_of_mem hvm
  rw [hl] at hj
  obtain ⟨i, hi, rfl⟩ := mul_odd_surj K g hg j hj
  have h := hv i hi
  rw [List.getD_eq_getElem?_getD, List.getElem?_eq_getElem (by rw [hl]; exact Nat.mod_lt _ (by positivity))] at h
  simp only [Option.getD_some] at h
  rw [h]
  unfold autVal negq
  split
  · by_cases hil : i < x.length
    · rw [List.getD_eq_getElem?_getD, List.getElem?_eq_getElem hil]; exact hx _ (List.getElem_mem hil)
    · rw [hlen] at hil; omega
  · exact Nat.mod_lt _ hq

/-! ### evaluation: `(σ_g a)(r) = a(r^g)` at a root `r` of `X^n + 1` -/

section eval
variable {q : ℕ}
open Finset

theorem negq_cast (hq : 0 < q) (v : ℕ) : ((negq q v : ℕ) : ZMod q) = -((v : ℕ) : ZMod q) := by
  unfold negq
  rw [ZMod.natCast_mod, Nat.cast_sub (Nat.le_of_lt (Nat.mod_lt _ hq)), ZMod.natCast_self,
    ZMod.natCast_mod, zero_sub]

/-- one term: `±x_i · r^{ig mod n} = x_i · (r^g)^i` -/
theorem autVal_term (K g : ℕ) (hq : 0 < q) (x : List ℕ) (r : ZMod q) (hr : r ^ 2 ^ K = -1) (i : ℕ) :
    ((autVal (2 ^ K) g q x i : ℕ) : ZMod q) * r ^ ((i * g) % 2 ^ K)
      = ((x.getD i 0 : ℕ) : ZMod q) * (r ^ g) ^ i := by
  have hpos : 0 < 2 ^ K := by positivity
  have hr2 : r ^ (2 * 2 ^ K) = 1 := by rw [Nat.mul_comm, pow_mul, hr]; norm_num
  have hsplit : r ^ (i * g) = r ^ ((i * g) % (2 * 2 ^ K)) := by
    conv_lhs => rw [← Nat.div_add_mod (i * g) (2 * 2 ^ K), pow_add, pow_mul, hr2, one_pow, one_mul]
  have hm : (i * g) % (2 * 2 ^ K) % 2 ^ K = (i * g) % 2 ^ K :=
    Nat.mod_mod_of_dvd _ (Dvd.intro_left 2 rfl)
  have he : (i * g) % (2 * 2 ^ K) < 2 * 2 ^ K := Nat.mod_lt _ (by omega)
  rw [← pow_mul, Nat.mul_comm g i, hsplit, ← hm]
  unfold autVal
  split
  · rename_i h
    rw [Nat.mod_eq_of_lt h]
  · rename_i h
    have h1 : (i * g) % (2 * 2 ^ K) - 2 ^ K < 2 ^ K := by omega
    have h2 : (i * g) % (2 * 2 ^ K) = ((i * g) % (2 * 2 ^ K) - 2 ^ K) + 2 ^ K := by omega
    have h3 : (i * g) % (2 * 2 ^ K) % 2 ^ K = (i * g) % (2 * 2 ^ K) - 2 ^ K := by
      conv_lhs => rw [h2, Nat.add_mod_right, Nat.mod_eq_of_lt h1]
    rw [h3, negq_cast hq]
    conv_rhs => rw [h2, pow_add, hr]
    ring

/-- **`(σ_g a)(r) = a(r^g)`** for `r^n = −1`: reading `RPoly.rowAut g q x` in `Z_q`,
`Σ_j (σ_g x)_j r^j = Σ_i x_i (r^g)^i`. -/
theorem rowAut_eval (K g : ℕ) (hq : 0 < q) (x : List ℕ) (hlen : x.length = 2 ^ K) (hg : g % 2 = 1)
    (r : ZMod q) (hr : r ^ 2 ^ K = -1) :
    ∑ j ∈ range (2 ^ K), (((RPoly.rowAut g q x).getD j 0 : ℕ) : ZMod q) * r ^ j
      = ∑ i ∈ range (2 ^ K), ((x.getD i 0 : ℕ) : ZMod q) * (r ^ g) ^ i := by
  have hpos : 0 < 2 ^ K := by positivity
  obtain ⟨_, hv⟩ := rowAut_spec K g q x hlen hg
  have hinj : Set.InjOn (fun i => (i * g) % 2 ^ K) (range (2 ^ K) : Finset ℕ) := by
    intro a ha b hb hab
    exact mul_odd_inj K g a b hg (mem_range.1 (mem_coe.1 ha)) (mem_range.1 (mem_coe.1 hb)) hab
  have himg : (range (2 ^ K)).image (fun i => (i * g) % 2 ^ K) = range (2 ^ K) := by
    apply eq_of_subset_of_card_le
    · intro j hj
      obtain ⟨i, _, rfl⟩ := mem_image.1 hj
      exact mem_range.2 (Nat.mod_lt _ hpos)
    · rw [card_image_of_injOn hinj]
  conv_lhs => rw [← himg]
  rw [sum_image hinj]
  apply sum_congr rfl
  intro i hi
  rw [hv i (mem_range.1 hi)]
  exact autVal_term K g hq x r hr i

end eval

/-! ### the NTT-domain automorphism: a permutation by the index table -/

open Finset in
/-- **`NTT(σ_gal a) = NTT(a) ∘ index`** with the generated tables: entry `t` of the forward transform of
`σ_gal a` is entry `index[t]` of the forward transform of `a`, where `index[t] = autIdx (K+1) gal t`
is the closed form of `ring.AutomorphismNTTIndex(N, 2N, gal)` (`AutomorphismNTTIndex_eq`).
Reason: `NTT(a)[t] = a(ψ^{2·brv(t)+1})`, `(σ_gal a)(x) = a(x^gal)`, and
`gal·(2·brv(t)+1) ≡ 2·brv(index[t])+1 (mod 2N)`. -/
theorem nttStd_rowAut (K q g gal : ℕ) (hK : 1 ≤ K) (hq : q.Prime) (h8 : 8 * q ≤ W)
    (hdiv : 2 ^ (K + 1) ∣ q - 1) (hg : g ^ ((q - 1) / 2) % q = q - 1) (hgal : gal % 2 = 1)
    (a : List ℕ) (hlen : a.length = 2 ^ K) (ha : ∀ x ∈ a, x < q) :
    nttStd (mkTables (2 ^ K) q (2 ^ (K + 1)) g) (RPoly.rowAut gal q a)
      = (List.range (2 ^ K)).map (fun t =>
          (nttStd (mkTables (2 ^ K) q (2 ^ (K + 1)) g) a).getD (autIdx (K + 1) gal t) 0) := by
  have : Fact q.Prime := ⟨hq⟩
  have hq0 : 0 < q := hq.pos
  obtain ⟨hT, _, hψ, _⟩ := mkTables_all K q g hq h8 hdiv hg
  have : Fact (mkTables (2 ^ K) q (2 ^ (K + 1)) g).q.Prime := ⟨hq⟩
  have hSl := (rowAut_spec K gal q a hlen hgal).1
  have hSlt := rowAut_lt K gal q a hlen hgal ha
  have eA := nttStd_mkTables_eval K q g hK hq h8 hdiv hg a hlen ha
  have eS := nttStd_mkTables_eval K q g hK hq h8 hdiv hg (RPoly.rowAut gal q a) hSl hSlt
  set T := mkTables (2 ^ K) q (2 ^ (K + 1)) g with hTdef
  set ψ : ZMod q := ((g : ℕ) : ZMod q) ^ ((q - 1) / 2 ^ (K + 1)) with hψdef
  have hAlt : ∀ y ∈ nttStd T a, y < q := (nttStd_cast hT a ha).2
  have hSltN : ∀ y ∈ nttStd T (RPoly.rowAut gal q a), y < q := (nttStd_cast hT _ hSlt).2
  have hψ2 : ψ ^ 2 ^ (K + 1) = 1 := by rw [pow_succ, pow_mul, hψ]; norm_num
  apply map_cast_inj (q := q) _ _ hSltN
  · intro y hy
    obtain ⟨t, _, rfl⟩ := List.mem_map.1 hy
    by_cases hj : autIdx (K + 1) gal t < (nttStd T a).length
    · rw [List.getD_eq_getElem?_getD, List.getElem?_eq_getElem hj]
      exact hAlt _ (List.getElem_mem hj)
    · rw [List.getD_eq_getElem?_getD, List.getElem?_eq_none (by omega)]; exact hq0
  · rw [eS, List.map_map]
    apply List.map_congr_left
    intro t ht
    have ht' : t < 2 ^ K := List.mem_range.1 ht
    have hidx : autIdx (K + 1) gal t < 2 ^ K := by
      have := autIdx_lt (K + 1) gal t
      simpa using this
    -- right-hand side: entry `index[t]` of NTT(a), read in Z_q
    have hR : (((nttStd T a).getD (autIdx (K + 1) gal t) 0 : ℕ) : ZMod q)
        = ∑ i ∈ range (2 ^ K), ((a.getD i 0 : ℕ) : ZMod q)
            * (ψ ^ (2 * bitRev (autIdx (K + 1) gal t) K + 1)) ^ i := by
      rw [← getD_map_cast, eA, List.getD_eq_getElem?_getD,
        List.getElem?_eq_getElem (by simpa using hidx)]
      simp
    simp only [Function.comp]
    rw [hR]
    -- left-hand side: evaluation of σ_gal a at ω_t = ψ^(2·brv t + 1), a root of X^n + 1
    have hω : (ψ ^ (2 * bitRev t K + 1)) ^ 2 ^ K = -1 := by
      rw [← pow_mul, Nat.mul_comm, pow_mul, hψ]
      exact Odd.neg_one_pow ⟨bitRev t K, rfl⟩
    rw [rowAut_eval K gal hq0 a hlen hgal _ hω]
    -- ω_t^gal = ψ^(2·brv(index t) + 1)
    have hexp := autIdx_exponent (K + 1) gal t (by omega) hgal
    simp only [Nat.add_sub_cancel] at hexp
    have : (ψ ^ (2 * bitRev t K + 1)) ^ gal = ψ ^ (2 * bitRev (autIdx (K + 1) gal t) K + 1) := by
      rw [hexp, ← pow_mul, Nat.mul_comm (2 * bitRev t K + 1) gal]
      conv_lhs => rw [← Nat.div_add_mod (gal * (2 * bitRev t K + 1)) (2 ^ (K + 1)), pow_add, pow_mul,
        hψ2, one_pow, one_mul]
    rw [this]

/-! ### composition: `σ_g ∘ σ_h = σ_{gh mod 2n}` -/

theorem negq_negq (q v : ℕ) (hv : v < q) : negq q (negq q v) = v := by
  unfold negq
  rw [Nat.mod_eq_of_lt hv]
  by_cases h0 : v = 0
  · subst h0; simp
  · have h1 : (q - v) % q = q - v := Nat.mod_eq_of_lt (by omega)
    have h2 : (q - (q - v)) % q = q - (q - v) := Nat.mod_eq_of_lt (by omega)
    rw [h1, h1, h2]; omega

/-- the exponent bookkeeping of the composition: with `P = i·h mod 2n`, `b = ⌊P/n⌋ ∈ {0,1}` and
    `Q = (P mod n)·g mod 2n`: `i·(g·h mod 2n) mod 2n = (n·b + Q) mod 2n` (`g` odd) -/
theorem comp_exponent (n g h i : ℕ) (hg : g % 2 = 1) :
    (i * (g * h % (2 * n))) % (2 * n)
      = (n * ((i * h) % (2 * n) / n) + ((i * h) % (2 * n) % n * g) % (2 * n)) % (2 * n) := by
  set P := (i * h) % (2 * n) with hP
  have h1 : i * (g * h % (2 * n)) ≡ i * (g * h) [MOD 2 * n] := (Nat.mod_modEq _ _).mul_left i
  have h2 : i * (g * h) = (i * h) * g := by ring
  have h3 : (i * h) * g ≡ P * g [MOD 2 * n] := ((Nat.mod_modEq (i * h) (2 * n)).symm).mul_right g
  obtain ⟨g', rfl⟩ : ∃ g', g = 2 * g' + 1 := ⟨g / 2, by omega⟩
  have h5 : P * (2 * g' + 1) = 2 * n * ((P / n) * g') + (n * (P / n) + P % n * (2 * g' + 1)) := by
    conv_lhs => rw [← Nat.div_add_mod P n]
    ring
  have h6 : 2 * n * ((P / n) * g') + (n * (P / n) + P % n * (2 * g' + 1))
      ≡ n * (P / n) + P % n * (2 * g' + 1) [MOD 2 * n] := by
    unfold Nat.ModEq; rw [Nat.mul_add_mod]
  have h7 : n * (P / n) + P % n * (2 * g' + 1)
      ≡ n * (P / n) + (P % n * (2 * g' + 1)) % (2 * n) [MOD 2 * n] :=
    ((Nat.mod_modEq _ _).symm).add_left _
  have := ((h1.trans (h2 ▸ h3)).trans (h5 ▸ h6)).trans h7
  exact this

/-- **`aut_comp`**: on a row of length `n = 2^K` with entries `< q`, for odd `g, h`,
`σ_g(σ_h a) = σ_{g·h mod 2n} a`. -/
theorem rowAut_comp (K g h q : ℕ) (x : List ℕ) (hlen : x.length = 2 ^ K) (hg : g % 2 = 1)
    (hh : h % 2 = 1) (hx : ∀ v ∈ x, v < q) :
    RPoly.rowAut g q (RPoly.rowAut h q x) = RPoly.rowAut (g * h % (2 * 2 ^ K)) q x := by
  have hpos : 0 < 2 ^ K := by positivity
  have hq : 0 < q := by
    have : 0 < x.length := by rw [hlen]; positivity
    obtain ⟨v, hvx⟩ := List.exists_mem_of_length_pos this
    have := hx v hvx; omega
  have hgh : (g * h % (2 * 2 ^ K)) % 2 = 1 := by
    rw [Nat.mod_mod_of_dvd _ (Dvd.intro _ rfl), Nat.mul_mod, hg, hh]
  obtain ⟨l1, v1⟩ := rowAut_spec K h q x hlen hh
  obtain ⟨l2, v2⟩ := rowAut_spec K g q (RPoly.rowAut h q x) l1 hg
  obtain ⟨l3, v3⟩ := rowAut_spec K (g * h % (2 * 2 ^ K)) q x hlen hgh
  apply List.ext_getElem (by rw [l2, l3])
  intro j hj2 hj3
  have hj : j < 2 ^ K := by rw [l2] at hj2; exact hj2
  obtain ⟨i, hi, hij⟩ := mul_odd_surj K (g * h % (2 * 2 ^ K)) hgh j hj
  -- the intermediate index
  have hi' : (i * h) % 2 ^ K < 2 ^ K := Nat.mod_lt _ hpos
  have hmm : (i * h) % (2 * 2 ^ K) % 2 ^ K = (i * h) % 2 ^ K :=
    Nat.mod_mod_of_dvd _ (Dvd.intro_left 2 rfl)
  have hj' : ((i * h) % 2 ^ K * g) % 2 ^ K = j := by
    rw [← hij, Nat.mod_mul_mod]
    have : i * (g * h % (2 * 2 ^ K)) % 2 ^ K = (i * (g * h)) % 2 ^ K := by
      rw [Nat.mul_mod, Nat.mod_mod_of_dvd _ (Dvd.intro_left 2 rfl), ← Nat.mul_mod]
    rw [this]; congr 1; ring
  have e2 := v2 _ hi'
  rw [hj'] at e2
  have e1 := v1 i hi
  have e3 := v3 i hi
  rw [hij] at e3
  rw [← List.getD_eq_getElem _ 0 hj2, ← List.getD_eq_getElem _ 0 hj3, e2, e3]
  have hxi : x.getD i 0 < q := by
    by_cases hil : i < x.length
    · rw [List.getD_eq_getElem?_getD, List.getElem?_eq_getElem hil]; exact hx _ (List.getElem_mem hil)
    · rw [hlen] at hil; omega
  have hexp := comp_exponent (2 ^ K) g h i hg
  unfold autVal at e1 ⊢
  rw [e1, hexp, hmm]
  have hP : (i * h) % (2 * 2 ^ K) < 2 * 2 ^ K := Nat.mod_lt _ (by omega)
  have hQ : ((i * h) % 2 ^ K * g) % (2 * 2 ^ K) < 2 * 2 ^ K := Nat.mod_lt _ (by omega)
  generalize ((i * h) % 2 ^ K * g) % (2 * 2 ^ K) = Q at *
  by_cases hb : (i * h) % (2 * 2 ^ K) < 2 ^ K
  · have hb0 : (i * h) % (2 * 2 ^ K) / 2 ^ K = 0 := Nat.div_eq_of_lt hb
    rw [hb0, if_pos hb, Nat.mul_zero, Nat.zero_add, Nat.mod_eq_of_lt hQ]
  · have hb1 : (i * h) % (2 * 2 ^ K) / 2 ^ K = 1 := by
      apply Nat.div_eq_of_lt_le <;> omega
    rw [hb1, if_neg hb, Nat.mul_one]
    by_cases hQn : Q < 2 ^ K
    · rw [if_pos hQn, Nat.mod_eq_of_lt (by omega), if_neg (by omega)]
    · have : (2 ^ K + Q) % (2 * 2 ^ K) = Q - 2 ^ K := by
        rw [show 2 ^ K + Q = (Q - 2 ^ K) + 2 * 2 ^ K by omega, Nat.add_mod_right,
          Nat.mod_eq_of_lt (by omega)]
      rw [if_neg hQn, this, if_pos (by omega), negq_negq q _ hxi]

end Lattigo.NTT
