/-
  Value semantics of the dyadic scale arithmetic of `Lattigo.CKKS`:
  `Dy.val`, canonical form preserves the value, truncation is the floor, and `roundRat`
  (= `big.Float` `Mul`/`Quo` at `prec` bits, round-to-nearest-even) is a *correct rounding*:
  relative error at most `2^-prec`.
-/
import Lattigo.Model.CKKS
import Mathlib.Data.Nat.Log
import Mathlib.Algebra.Order.Field.Power
import Mathlib.Tactic.Ring
import Mathlib.Tactic.Linarith
import Mathlib.Tactic.Positivity
import Mathlib.Tactic.FieldSimp
import Mathlib.Tactic.Push

namespace Lattigo.CKKS

/-- the rational value of a dyadic -/
def Dy.val (d : Dy) : ℚ := (d.m : ℚ) * (2 : ℚ) ^ d.e

theorem stripZeros_val : ∀ (f m : ℕ) (e : ℤ),
    ((stripZeros f m e).1 : ℚ) * (2 : ℚ) ^ (stripZeros f m e).2 = (m : ℚ) * (2 : ℚ) ^ e
  | 0, m, e => rfl
  | f + 1, m, e => by
    unfold stripZeros
    split
    · rename_i h
      rw [stripZeros_val f (m / 2) (e + 1), zpow_add_one₀ (by norm_num : (2 : ℚ) ≠ 0)]
      have h2 : (m : ℚ) = 2 * ((m / 2 : ℕ) : ℚ) := by
        have : m = 2 * (m / 2) := by omega
        exact_mod_cast this
      conv_rhs => rw [h2]
      ring
    · rfl

theorem Dy.norm_val (m : ℕ) (e : ℤ) : (Dy.norm m e).val = (m : ℚ) * (2 : ℚ) ^ e := by
  unfold Dy.norm Dy.val
  split
  · rename_i h; simp [h]
  · exact stripZeros_val _ m e

theorem pow2_cast (k : ℤ) (hk : 0 ≤ k) : ((pow2 k : ℕ) : ℚ) = (2 : ℚ) ^ k := by
  unfold pow2
  push_cast
  rw [← zpow_natCast, Int.toNat_of_nonneg hk]

theorem pow2_nonpos (k : ℤ) (hk : k ≤ 0) : pow2 k = 1 := by
  unfold pow2
  have : k.toNat = 0 := by omega
  simp [this]

theorem pow2_pos (k : ℤ) : 0 < pow2 k := by unfold pow2; positivity

theorem bitLen_bounds (n : ℕ) (hn : n ≠ 0) : 2 ^ (bitLen n - 1) ≤ n ∧ n < 2 ^ bitLen n := by
  unfold bitLen
  simp only [hn, if_false, Nat.add_sub_cancel]
  exact ⟨Nat.log2_self_le hn, Nat.lt_log2_self⟩

theorem bitLen_pos (n : ℕ) (hn : n ≠ 0) : 0 < bitLen n := by unfold bitLen; simp [hn]

/-- `Dy.toNat` is the floor of the value (`big.Float.Int` on a non-negative number). -/
theorem Dy.toNat_floor (a : Dy) : (a.toNat : ℚ) ≤ a.val ∧ a.val < a.toNat + 1 := by
  unfold Dy.toNat Dy.val
  split
  · rename_i h
    push_cast
    rw [pow2_cast _ h]
    constructor <;> linarith
  · rename_i h
    have hk : 0 ≤ -a.e := by omega
    have hd : (0 : ℚ) < (pow2 (-a.e) : ℕ) := by exact_mod_cast pow2_pos _
    have hval : (a.m : ℚ) * (2 : ℚ) ^ a.e = (a.m : ℚ) / (pow2 (-a.e) : ℕ) := by
      rw [pow2_cast _ hk, zpow_neg, div_eq_mul_inv, inv_inv]
    rw [hval]
    have hdm := Nat.div_add_mod a.m (pow2 (-a.e))
    have hlt := Nat.mod_lt a.m (pow2_pos (-a.e))
    have hdmq : (a.m : ℚ) = (pow2 (-a.e) : ℕ) * ((a.m / pow2 (-a.e) : ℕ) : ℚ) + ((a.m % pow2 (-a.e) : ℕ) : ℚ) := by
      exact_mod_cast hdm.symm
    have hltq : ((a.m % pow2 (-a.e) : ℕ) : ℚ) < (pow2 (-a.e) : ℕ) := by exact_mod_cast hlt
    have hge : (0 : ℚ) ≤ ((a.m % pow2 (-a.e) : ℕ) : ℚ) := by positivity
    constructor
    · rw [le_div_iff₀ hd]; nlinarith
    · rw [div_lt_iff₀ hd]; nlinarith

/-- the rounding decision of `roundRat` picks a multiple of `D = 2·half` within `half` of `x`. -/
theorem round_core (q r hi lo half D : ℕ) (x : ℚ) (hq : (q : ℚ) ≤ x) (hq1 : x < q + 1)
    (hr : r = 0 → x = q) (hD : D = 2 * half) (hdecomp : q = hi * D + lo) (hlo : lo < D) :
    |(((if (decide (half < lo) || (lo == half && (r != 0 || hi % 2 == 1))) = true then hi + 1 else hi : ℕ) : ℚ))
        * (D : ℚ) - x| ≤ (half : ℚ) := by
  have hDq : (D : ℚ) = 2 * (half : ℚ) := by exact_mod_cast hD
  have hqq : (q : ℚ) = (hi : ℚ) * (D : ℚ) + (lo : ℚ) := by exact_mod_cast hdecomp
  have hloq : (lo : ℚ) + 1 ≤ (D : ℚ) := by exact_mod_cast hlo
  have hlo0 : (0 : ℚ) ≤ (lo : ℚ) := by positivity
  by_cases h1 : half < lo
  · have h1q : (half : ℚ) + 1 ≤ (lo : ℚ) := by exact_mod_cast h1
    simp only [h1, decide_true, Bool.true_or, if_true]
    push_cast
    rw [abs_le]; constructor <;> nlinarith
  · have h1' : lo ≤ half := by omega
    by_cases h2 : lo = half
    · have hhalf : 1 ≤ half := by omega
      have hhq : (1 : ℚ) ≤ (half : ℚ) := by exact_mod_cast hhalf
      have h2q : (lo : ℚ) = (half : ℚ) := by exact_mod_cast h2
      by_cases h3 : r ≠ 0 ∨ hi % 2 = 1
      · have hup : (decide (half < lo) || (lo == half && (r != 0 || hi % 2 == 1))) = true := by
          rcases h3 with h3 | h3 <;> simp [h2, h3]
        simp only [hup, if_true]
        push_cast
        rw [abs_le]; constructor <;> nlinarith
      · push Not at h3
        have hx := hr h3.1
        have hup : (decide (half < lo) || (lo == half && (r != 0 || hi % 2 == 1))) = false := by
          simp [h1, h3.1, h3.2]
        simp only [hup, Bool.false_eq_true, if_false]
        rw [abs_le]; constructor <;> nlinarith
    · have hlt : lo < half := by omega
      have hltq : (lo : ℚ) + 1 ≤ (half : ℚ) := by exact_mod_cast hlt
      have hup : (decide (half < lo) || (lo == half && (r != 0 || hi % 2 == 1))) = false := by
        simp [h1, h2]
      simp only [hup, Bool.false_eq_true, if_false]
      rw [abs_le]; constructor <;> nlinarith

/-- **Correct rounding.**  `roundRat prec num den e` is within relative error `2^-prec` of
    `num/den · 2^e` (half a unit in the last of `prec` places, ties resolved to even). -/
theorem roundRat_spec (prec num den : ℕ) (e : ℤ) (hn : 0 < num) (hd : 0 < den) :
    |(roundRat prec num den e).val - (num : ℚ) / den * (2 : ℚ) ^ e|
      ≤ (num : ℚ) / den * (2 : ℚ) ^ e * (2 : ℚ) ^ (-(prec : ℤ)) := by
  unfold roundRat
  rw [if_neg hn.ne']
  simp only []
  set k : ℤ := (prec : ℤ) + 1 + (bitLen den : ℤ) - (bitLen num : ℤ) with hk
  set n' := num * pow2 k with hn'
  set d' := den * pow2 (-k) with hd'
  set q := n' / d' with hq
  set r := n' % d' with hr
  set drop := bitLen q - prec with hdrop
  rw [Dy.norm_val]
  have h2 : (2 : ℚ) ≠ 0 := by norm_num
  have hd'pos : 0 < d' := Nat.mul_pos hd (pow2_pos _)
  have hd'q : (0 : ℚ) < (d' : ℚ) := by exact_mod_cast hd'pos
  have hnq : (0 : ℚ) < (num : ℚ) := by exact_mod_cast hn
  have hdq : (0 : ℚ) < (den : ℚ) := by exact_mod_cast hd
  -- F1: the shifted quotient
  have hx : (n' : ℚ) / (d' : ℚ) = (num : ℚ) / den * (2 : ℚ) ^ k := by
    rcases le_total 0 k with hk0 | hk0
    · have : pow2 (-k) = 1 := pow2_nonpos _ (by omega)
      rw [hn', hd', this]; push_cast; rw [pow2_cast _ hk0]; field_simp
    · have : pow2 k = 1 := pow2_nonpos _ hk0
      rw [hn', hd', this]; push_cast; rw [pow2_cast _ (by omega : 0 ≤ -k), zpow_neg]; field_simp
  set x : ℚ := (n' : ℚ) / (d' : ℚ) with hxdef
  -- the floor
  have hdm := Nat.div_add_mod n' d'
  have hmod := Nat.mod_lt n' hd'pos
  have hn'q : (n' : ℚ) = (d' : ℚ) * (q : ℚ) + (r : ℚ) := by exact_mod_cast hdm.symm
  have hrq : (r : ℚ) < (d' : ℚ) := by exact_mod_cast hmod
  have hr0 : (0 : ℚ) ≤ (r : ℚ) := by positivity
  have hqx : (q : ℚ) ≤ x := by rw [hxdef, le_div_iff₀ hd'q]; nlinarith
  have hqx1 : x < q + 1 := by rw [hxdef, div_lt_iff₀ hd'q]; nlinarith
  have hrx : r = 0 → x = q := by
    intro h0
    rw [hxdef, hn'q, h0]; push_cast; field_simp; ring
  -- F2: 2^prec ≤ q
  have hbn := bitLen_bounds num hn.ne'
  have hbd := bitLen_bounds den hd.ne'
  have hbnpos := bitLen_pos num hn.ne'
  have hxlow : (2 : ℚ) ^ (prec : ℤ) ≤ x := by
    rw [hx]
    have h1 : (2 : ℚ) ^ ((bitLen num : ℤ) - 1) ≤ (num : ℚ) := by
      have : ((2 ^ (bitLen num - 1) : ℕ) : ℚ) ≤ (num : ℚ) := by exact_mod_cast hbn.1
      push_cast at this
      rw [← zpow_natCast] at this
      have hc : ((bitLen num - 1 : ℕ) : ℤ) = (bitLen num : ℤ) - 1 := by omega
      rwa [hc] at this
    have h3 : (den : ℚ) ≤ (2 : ℚ) ^ (bitLen den : ℤ) := by
      have : (den : ℚ) < ((2 ^ bitLen den : ℕ) : ℚ) := by exact_mod_cast hbd.2
      push_cast at this
      rw [zpow_natCast]; exact this.le
    have hpos : (0 : ℚ) < (2 : ℚ) ^ (bitLen den : ℤ) := zpow_pos (by norm_num) _
    have hkpos : (0 : ℚ) < (2 : ℚ) ^ k := zpow_pos (by norm_num) _
    have hsplit : (2 : ℚ) ^ (prec : ℤ) = (2 : ℚ) ^ ((bitLen num : ℤ) - 1) / (2 : ℚ) ^ (bitLen den : ℤ) * (2 : ℚ) ^ k := by
      rw [div_eq_mul_inv, ← zpow_neg, ← zpow_add₀ h2, ← zpow_add₀ h2]
      congr 1; rw [hk]; ring
    rw [hsplit]
    apply mul_le_mul_of_nonneg_right _ hkpos.le
    calc (2 : ℚ) ^ ((bitLen num : ℤ) - 1) / (2 : ℚ) ^ (bitLen den : ℤ)
        ≤ (num : ℚ) / (2 : ℚ) ^ (bitLen den : ℤ) := by
          apply div_le_div_of_nonneg_right h1 hpos.le
      _ ≤ (num : ℚ) / (den : ℚ) := by
          apply div_le_div_of_nonneg_left hnq.le hdq h3
  have hqlow : 2 ^ prec ≤ q := by
    have : ((2 ^ prec : ℕ) : ℚ) < (q : ℚ) + 1 := by
      push_cast; rw [← zpow_natCast]; linarith
    have : (2 ^ prec : ℕ) < q + 1 := by exact_mod_cast this
    omega
  have hq0 : q ≠ 0 := by
    have : 0 < 2 ^ prec := by positivity
    omega
  have hbq := bitLen_bounds q hq0
  -- F3: bitLen q = prec + drop, drop ≥ 1
  have hbl : prec + 1 ≤ bitLen q := by
    by_contra hcon
    push Not at hcon
    have : q < 2 ^ prec := lt_of_lt_of_le hbq.2 (Nat.pow_le_pow_right (by norm_num) (by omega))
    omega
  have hdrop1 : 1 ≤ drop := by omega
  have hbleq : bitLen q = prec + drop := by omega
  have hDhalf : 2 ^ drop = 2 * 2 ^ (drop - 1) := by
    have : drop = (drop - 1) + 1 := by omega
    conv_lhs => rw [this, pow_succ]
    ring
  have hcore := round_core q r (q / 2 ^ drop) (q % 2 ^ drop) (2 ^ (drop - 1)) (2 ^ drop) x hqx hqx1 hrx hDhalf
    (by rw [Nat.mul_comm]; exact (Nat.div_add_mod q (2 ^ drop)).symm) (Nat.mod_lt _ (by positivity))
  -- assemble
  set res : ℕ := (if (decide (2 ^ (drop - 1) < q % 2 ^ drop) ||
      (q % 2 ^ drop == 2 ^ (drop - 1) && (r != 0 || q / 2 ^ drop % 2 == 1))) = true then q / 2 ^ drop + 1
      else q / 2 ^ drop) with hres
  set T : ℚ := (2 : ℚ) ^ (e - k) with hT
  have hTpos : 0 < T := zpow_pos (by norm_num) _
  have hval : (res : ℚ) * (2 : ℚ) ^ (e - k + (drop : ℤ)) = ((res : ℚ) * ((2 ^ drop : ℕ) : ℚ)) * T := by
    rw [zpow_add₀ h2, zpow_natCast]; push_cast; ring
  have hv : (num : ℚ) / den * (2 : ℚ) ^ e = x * T := by
    rw [hx, hT, mul_assoc, ← zpow_add₀ h2]; congr 2; ring
  rw [hval, hv]
  have hhalf : ((2 ^ (drop - 1) : ℕ) : ℚ) ≤ x * (2 : ℚ) ^ (-(prec : ℤ)) := by
    have hq2 : ((2 ^ (bitLen q - 1) : ℕ) : ℚ) ≤ (q : ℚ) := by exact_mod_cast hbq.1
    have hexp : bitLen q - 1 = (drop - 1) + prec := by omega
    rw [hexp, pow_add] at hq2
    push_cast at hq2
    rw [zpow_neg, zpow_natCast, ← div_eq_mul_inv, le_div_iff₀ (by positivity)]
    push_cast
    linarith
  have : (res : ℚ) * ((2 ^ drop : ℕ) : ℚ) * T - x * T = ((res : ℚ) * ((2 ^ drop : ℕ) : ℚ) - x) * T := by ring
  rw [this, abs_mul, abs_of_pos hTpos]
  calc |(res : ℚ) * ((2 ^ drop : ℕ) : ℚ) - x| * T ≤ ((2 ^ (drop - 1) : ℕ) : ℚ) * T :=
        mul_le_mul_of_nonneg_right hcore hTpos.le
    _ ≤ x * (2 : ℚ) ^ (-(prec : ℤ)) * T := mul_le_mul_of_nonneg_right hhalf hTpos.le
    _ = x * T * (2 : ℚ) ^ (-(prec : ℤ)) := by ring

/-- `Scale.Mul`: correctly rounded product. -/
theorem smul_spec (a b : Dy) (ha : 0 < a.m) (hb : 0 < b.m) :
    |(smul a b).val - a.val * b.val| ≤ a.val * b.val * (2 : ℚ) ^ (-(128 : ℤ)) := by
  have h := roundRat_spec 128 (a.m * b.m) 1 (a.e + b.e) (Nat.mul_pos ha hb) (by norm_num)
  have hv : ((a.m * b.m : ℕ) : ℚ) / (1 : ℕ) * (2 : ℚ) ^ (a.e + b.e) = a.val * b.val := by
    unfold Dy.val; rw [zpow_add₀ (by norm_num : (2 : ℚ) ≠ 0)]; push_cast; ring
  rw [hv] at h
  exact h

/-- `Scale.Div`: correctly rounded quotient — the scale after a rescale is the old scale divided by
    the prime, up to a relative error `2^-128`. -/
theorem sdiv_spec (a b : Dy) (ha : 0 < a.m) (hb : 0 < b.m) :
    |(sdiv a b).val - a.val / b.val| ≤ a.val / b.val * (2 : ℚ) ^ (-(128 : ℤ)) := by
  have h := roundRat_spec 128 a.m b.m (a.e - b.e) ha hb
  have hv : (a.m : ℚ) / (b.m : ℚ) * (2 : ℚ) ^ (a.e - b.e) = a.val / b.val := by
    unfold Dy.val
    rw [zpow_sub₀ (by norm_num : (2 : ℚ) ≠ 0)]
    have : (b.m : ℚ) ≠ 0 := by positivity
    have : (2 : ℚ) ^ b.e ≠ 0 := by positivity
    field_simp
  rw [hv] at h
  exact h

end Lattigo.CKKS
