/-
  C19 — the upstream direction of the prime generator (`NextUpstreamPrime(s)`), the order in which
  the single-direction generators return their primes, and termination of all three directions.
  (Downstream / alternating loop invariants are in `ParamsGen.lean`, their termination in `ParamsTerm.lean`.)
-/
import Lattigo.Proofs.ParamsTerm

namespace Lattigo.Params
open Lattigo

/-! ### NextUpstreamPrime -/

theorem lt_of_sq_lt {S c : Nat} (h : c * c < 2 ^ (2 * S + 1)) : c < 2 ^ (S + 1) := by
  by_contra hge
  have hge : 2 ^ (S + 1) ≤ c := Nat.le_of_not_lt hge
  have h1 : 2 ^ (S + 1) * 2 ^ (S + 1) ≤ c * c := Nat.mul_le_mul hge hge
  have h2 : 2 ^ (2 * S + 1) ≤ 2 ^ (S + 1) * 2 ^ (S + 1) := by
    rw [← Nat.pow_add]; exact Nat.pow_le_pow_right (by decide) (by omega)
  omega

/-- loop invariant of `NextUpstreamPrime`: the candidate stays `1 mod r`, above `2^S`, and never wraps -/
theorem upLoop_ok (o : Oracle) (hs : StopSound o) (g : Gen) (hr : 1 ≤ g.nthRoot)
    (hroom : 2 ^ (g.size + 1) + g.nthRoot ≤ W) :
    ∀ (fuel c : Nat) (g' : Gen) (x : Nat), c % g.nthRoot = 1 → 2 ^ g.size < c →
      upLoop o g fuel c = (g', .ok x) →
      g'.size = g.size ∧ g'.nthRoot = g.nthRoot ∧ g'.prev = g.prev ∧ g'.checkPrev = g.checkPrev ∧
      Good o g.size g.nthRoot x ∧ c ≤ x ∧ g'.next = x + g.nthRoot ∧ g'.next < W := by
  intro fuel
  induction fuel with
  | zero => intro c g' x _ _ h; simp [upLoop] at h
  | succ fuel ih =>
    intro c g' x hmod hgt h
    unfold upLoop at h
    split at h
    · simp at h
    · split at h
      · simp at h
      · rename_i hstop
        simp only [Bool.not_eq_true] at hstop
        have hlt : c < 2 ^ (g.size + 1) := lt_of_sq_lt (hs.up _ _ hstop)
        have hadd : c + g.nthRoot < W := by omega
        split at h
        · rename_i hprime
          injection h with hg hx
          injection hx with hx
          subst hx; subst hg
          simp only [u64add_small hadd]
          exact ⟨trivial, trivial, trivial, trivial,
            ⟨hprime, hmod, sq_bounds_up hgt, hs.up _ _ hstop⟩, Nat.le_refl _, trivial, hadd⟩
        · rw [u64add_small hadd] at h
          obtain ⟨a1, a2, a3, a4, a5, a6, a7, a8⟩ :=
            ih _ g' x (by rw [Nat.add_mod_right]; exact hmod) (by omega) h
          exact ⟨a1, a2, a3, a4, a5, by omega, a7, a8⟩

theorem nextUp_stepSpec (o : Oracle) (hs : StopSound o) (fuel S r : Nat) (hr : 1 ≤ r)
    (hroom : 2 ^ (S + 1) + r ≤ W) : StepSpec o S r (nextUp o fuel) := by
  intro g g' x hS hR inv h
  subst hS hR
  obtain ⟨a1, a2, a3, _, a5, a6, a7, a8⟩ :=
    upLoop_ok o hs g hr hroom fuel _ g' x inv.np_mod inv.np_gt h
  have := inv.pp_le; have := inv.np_gt
  refine ⟨a1, a2, ⟨?_, by rw [a3]; exact inv.pp_mod, by rw [a3]; exact inv.pp_le, by omega, a8⟩,
    a5, by omega, by omega, by omega, by omega, Or.inr a6⟩
  rw [a7, Nat.add_mod_right]; exact a5.ntt

/-! ### order of the single-direction generators -/

theorem nextPrimes_increasing (o : Oracle) (S r : Nat) (step : Gen → Gen × Res Nat)
    (hstep : StepSpec o S r step)
    (hup : ∀ g g' x, g.size = S → g.nthRoot = r → LInv S r g.next g.prev → step g = (g', .ok x) → g.next ≤ x) :
    ∀ (k : Nat) (g g' : Gen) (ps : List Nat), g.size = S → g.nthRoot = r → LInv S r g.next g.prev →
      nextPrimes step k g = (g', .ok ps) → ps.Pairwise (· < ·) ∧ ∀ x ∈ ps, g.next ≤ x := by
  intro k
  induction k with
  | zero =>
    intro g g' ps _ _ _ h
    simp only [nextPrimes, Prod.mk.injEq, Res.ok.injEq] at h
    obtain ⟨_, rfl⟩ := h
    simp
  | succ k ih =>
    intro g g' ps hS hR inv h
    unfold nextPrimes at h
    split at h
    · rename_i g1 x hst
      obtain ⟨b1, b2, b3, _, _, _, _, b8, _⟩ := hstep g g1 x hS hR inv hst
      have u1 := hup g g1 x hS hR inv hst
      split at h
      · rename_i g2 ps' hrec
        simp only [Prod.mk.injEq, Res.ok.injEq] at h
        obtain ⟨_, rfl⟩ := h
        obtain ⟨c1, c2⟩ := ih g1 g2 ps' b1 b2 b3 hrec
        refine ⟨List.pairwise_cons.mpr ⟨fun y hy => by have := c2 y hy; omega, c1⟩, ?_⟩
        intro y hy
        rcases List.mem_cons.mp hy with rfl | hy
        · exact u1
        · have := c2 y hy; omega
      all_goals simp at h
    all_goals simp at h

theorem nextPrimes_decreasing (o : Oracle) (S r : Nat) (step : Gen → Gen × Res Nat)
    (hstep : StepSpec o S r step)
    (hdn : ∀ g g' x, g.size = S → g.nthRoot = r → LInv S r g.next g.prev → step g = (g', .ok x) → x ≤ g.prev) :
    ∀ (k : Nat) (g g' : Gen) (ps : List Nat), g.size = S → g.nthRoot = r → LInv S r g.next g.prev →
      nextPrimes step k g = (g', .ok ps) → ps.Pairwise (· > ·) ∧ ∀ x ∈ ps, x ≤ g.prev := by
  intro k
  induction k with
  | zero =>
    intro g g' ps _ _ _ h
    simp only [nextPrimes, Prod.mk.injEq, Res.ok.injEq] at h
    obtain ⟨_, rfl⟩ := h
    simp
  | succ k ih =>
    intro g g' ps hS hR inv h
    unfold nextPrimes at h
    split at h
    · rename_i g1 x hst
      obtain ⟨b1, b2, b3, _, _, _, b7, _, _⟩ := hstep g g1 x hS hR inv hst
      have u1 := hdn g g1 x hS hR inv hst
      split at h
      · rename_i g2 ps' hrec
        simp only [Prod.mk.injEq, Res.ok.injEq] at h
        obtain ⟨_, rfl⟩ := h
        obtain ⟨c1, c2⟩ := ih g1 g2 ps' b1 b2 b3 hrec
        refine ⟨List.pairwise_cons.mpr ⟨fun y hy => by have := c2 y hy; omega, c1⟩, ?_⟩
        intro y hy
        rcases List.mem_cons.mp hy with rfl | hy
        · exact u1
        · have := c2 y hy; omega
      all_goals simp at h
    all_goals simp at h

theorem nextUp_ge (o : Oracle) (hs : StopSound o) (fuel S r : Nat) (hr : 1 ≤ r) (hroom : 2 ^ (S + 1) + r ≤ W) :
    ∀ g g' x, g.size = S → g.nthRoot = r → LInv S r g.next g.prev → nextUp o fuel g = (g', .ok x) → g.next ≤ x := by
  intro g g' x hS hR inv h
  subst hS hR
  exact (upLoop_ok o hs g hr hroom fuel _ g' x inv.np_mod inv.np_gt h).2.2.2.2.2.1

theorem nextDown_le (o : Oracle) (hs : StopSound o) (fuel S r : Nat) :
    ∀ g g' x, g.size = S → g.nthRoot = r → LInv S r g.next g.prev → nextDown o fuel g = (g', .ok x) → x ≤ g.prev := by
  intro g g' x hS hR inv h
  subst hS hR
  exact (downLoop_ok o hs g fuel _ g' x inv h).2.2.2.2.2.2.2

/-! ### termination of the upstream direction -/

theorem upLoop_ne_hang (o : Oracle) (hc : StopComplete o) (g : Gen) (hr : 1 ≤ g.nthRoot)
    (hroom : 2 ^ (g.size + 1) + g.nthRoot ≤ W) :
    ∀ (fuel c : Nat), (2 ^ (g.size + 1) - c) + 1 < fuel → (upLoop o g fuel c).2 ≠ .hang := by
  intro fuel
  induction fuel with
  | zero => intro c hm; omega
  | succ fuel ih =>
    intro c hm
    unfold upLoop
    split
    · simp
    · split
      · simp
      · rename_i hstop
        simp only [Bool.not_eq_true] at hstop
        have hlt := lt_of_not_stopUp hc hstop
        split
        · simp
        · have hadd : c + g.nthRoot < W := by omega
          rw [u64add_small hadd]
          exact ih _ (by omega)

theorem upLoop_state (o : Oracle) (g : Gen) (hg : g.prev < W) :
    ∀ (fuel c : Nat),
      (upLoop o g fuel c).1.size = g.size ∧ (upLoop o g fuel c).1.nthRoot = g.nthRoot ∧
      (upLoop o g fuel c).1.prev < W := by
  intro fuel
  induction fuel with
  | zero => intro c; simp only [upLoop]; exact ⟨trivial, trivial, hg⟩
  | succ fuel ih =>
    intro c
    unfold upLoop
    by_cases h1 : (!g.checkNext) = true
    · simp only [h1, if_true]; exact ⟨by simp, by simp, by simpa using hg⟩
    · simp only [h1]
      by_cases h2 : o.stopUp g.size c = true
      · simp only [h2, if_true]; exact ⟨by simp, by simp, by simpa using hg⟩
      · simp only [h2]
        by_cases h3 : o.isPrime c = true
        · simp only [h3, if_true]; exact ⟨by simp, by simp, by simpa using hg⟩
        · simp only [h3]; exact ih _

/-- every direction of the generator terminates (given stop tests that fire outside the window) -/
theorem genPrimes_ne_hang (o : Oracle) (hc : StopComplete o) (fuel dir S r k : Nat) (hr : 1 ≤ r)
    (hS : S ≤ 61) (hrS : r ≤ 2 ^ S) (hf : 2 ^ 65 ≤ fuel) : genPrimes o fuel dir S r k ≠ .hang := by
  have hpow : 2 ^ S ≤ 2 ^ 61 := Nat.pow_le_pow_right (by decide) hS
  have hpow1 : 2 ^ (S + 1) = 2 * 2 ^ S := by rw [Nat.pow_succ]; omega
  have hrW : r < W := by unfold W; omega
  have hfuel : W + 1 < fuel := by unfold W; omega
  unfold genPrimes
  by_cases h0 : dir = 0
  · simp only [h0, if_true]
    apply nextPrimes_ne_hang S r _ _ _ k _ (newGen_state S r)
    · intro g hg
      obtain ⟨g1, g2, g3⟩ := hg
      unfold nextUp
      apply upLoop_ne_hang o hc g (by rw [g2]; exact hr) (by rw [g1, g2]; unfold W; omega) fuel
      rw [g1]; unfold W at *; omega
    · intro g hg
      obtain ⟨g1, g2, g3⟩ := hg
      have := upLoop_state o g g3 fuel g.next
      exact ⟨by rw [← g1]; exact this.1, by rw [← g2]; exact this.2.1, this.2.2⟩
  · by_cases h1 : dir = 1
    · simp only [h1, show (1 : Nat) ≠ 0 by decide, if_false, if_true]
      apply nextPrimes_ne_hang S r _ _ _ k _ (newGen_state S r)
      · intro g hg
        obtain ⟨g1, g2, g3⟩ := hg
        unfold nextDown
        exact downLoop_ne_hang o g (by rw [g2]; exact hr) fuel _ g3 (by omega)
      · intro g hg
        obtain ⟨g1, g2, g3⟩ := hg
        have := downLoop_state o g g3 fuel g.prev
        exact ⟨by rw [← g1]; exact this.1, by rw [← g2]; exact this.2.1, this.2.2⟩
    · simp only [h0, h1, if_false]
      apply nextPrimes_ne_hang S r _ _ _ k _ (newGen_state S r)
      · intro g hg
        obtain ⟨g1, g2, g3⟩ := hg
        exact nextAlt_ne_hang o hc g (by rw [g2]; exact hr) (by rw [g2]; exact hrW) (by rw [g1]; omega)
          g3 fuel hf
      · intro g hg
        obtain ⟨g1, g2, g3⟩ := hg
        have := altLoop_state o g g3 fuel g.next g.prev g.checkNext g.checkPrev g3
        exact ⟨by rw [← g1]; exact this.1, by rw [← g2]; exact this.2.1, this.2.2⟩

end Lattigo.Params
