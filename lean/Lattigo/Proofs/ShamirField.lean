/-
  C15, pure mathematics: Lagrange interpolation at 0 over a field, in the list form the code uses.
  `Σ_{a ∈ l} f(a) · Π_{b ∈ l, b ≠ a} b/(b − a) = f(0)` for pairwise distinct nodes `l` and
  `deg f < |l|`  (Mathlib: `Lagrange.eq_interpolate`).
-/
import Mathlib.LinearAlgebra.Lagrange

namespace Lattigo.Proofs.Shamir
open Polynomial

variable {F : Type*} [Field F] [DecidableEq F]

/-- the Lagrange weight of node `a` among the nodes `l`, at `0`: `Π_{b ∈ l, b ≠ a} b/(b − a)`. -/
def weight (l : List F) (a : F) : F := ((l.filter (· ≠ a)).map fun b => b / (b - a)).prod

theorem eval_zero_basis (s : Finset F) (a : F) :
    eval 0 (Lagrange.basis s id a) = ∏ b ∈ s.erase a, b / (b - a) := by
  unfold Lagrange.basis
  rw [eval_prod]
  apply Finset.prod_congr rfl
  intro b hb
  have hne : b ≠ a := Finset.ne_of_mem_erase hb
  unfold Lagrange.basisDivisor
  simp only [id, eval_mul, eval_C, eval_sub, eval_X]
  have h1 : a - b ≠ 0 := sub_ne_zero.mpr (Ne.symm hne)
  have h2 : b - a ≠ 0 := sub_ne_zero.mpr hne
  field_simp
  ring

theorem weight_eq_finset (l : List F) (hl : l.Nodup) (a : F) :
    weight l a = ∏ b ∈ l.toFinset.erase a, b / (b - a) := by
  unfold weight
  have h : l.toFinset.erase a = (l.filter (· ≠ a)).toFinset := by
    ext b; simp [Finset.mem_erase, and_comm]
  rw [h, List.prod_toFinset _ (hl.filter _)]

/-- Lagrange interpolation at `0`, list form. -/
theorem lagrange_zero_list (l : List F) (hl : l.Nodup) (f : F[X]) (hf : f.degree < l.length) :
    (l.map fun a => eval a f * weight l a).sum = eval 0 f := by
  have hinj : Set.InjOn (id : F → F) (l.toFinset : Set F) := Function.injective_id.injOn
  have hcard : l.toFinset.card = l.length := List.toFinset_card_of_nodup hl
  have hdeg : f.degree < l.toFinset.card := by rw [hcard]; exact hf
  have h := Lagrange.eq_interpolate (v := id) hinj hdeg
  have h0 : eval 0 f = ∑ a ∈ l.toFinset, eval a f * eval 0 (Lagrange.basis l.toFinset id a) := by
    conv_lhs => rw [h]
    rw [Lagrange.interpolate_apply, eval_finsetSum]
    apply Finset.sum_congr rfl
    intro a _
    simp [eval_mul, eval_C]
  rw [h0, ← List.sum_toFinset _ hl]
  apply Finset.sum_congr rfl
  intro a _
  rw [eval_zero_basis, weight_eq_finset l hl]

/-- polynomial with coefficient list `cs` (constant term first). -/
noncomputable def ofList : List F → F[X]
  | [] => 0
  | c :: cs => C c + X * ofList cs

omit [DecidableEq F] in
theorem degree_ofList_lt (cs : List F) : (ofList cs).degree < cs.length := by
  induction cs with
  | nil => simp [ofList]
  | cons c cs ih =>
    simp only [ofList, List.length_cons]
    refine lt_of_le_of_lt (degree_add_le _ _) ?_
    rw [max_lt_iff]
    constructor
    · refine lt_of_le_of_lt degree_C_le ?_
      exact_mod_cast Nat.succ_pos _
    · rw [mul_comm, degree_mul_X]
      have : ((cs.length + 1 : ℕ) : WithBot ℕ) = (cs.length : WithBot ℕ) + 1 := by push_cast; rfl
      rw [this]
      exact WithBot.add_lt_add_right (by simp) ih

omit [DecidableEq F] in
theorem eval_ofList_cons (x c : F) (cs : List F) :
    eval x (ofList (c :: cs)) = c + x * eval x (ofList cs) := by
  simp [ofList]

omit [DecidableEq F] in
theorem eval_zero_ofList (c : F) (cs : List F) : eval 0 (ofList (c :: cs)) = c := by
  simp [ofList]

end Lattigo.Proofs.Shamir
