/-
  C09 — degrees 0/1/2 in the pointer-branching routines (`ckksAddProg`, `tensorGenD` of Model/Store.lean):
  alias soundness for every aliasing pattern, every degree of the operands and every previous degree of the
  receiver.  The proofs enumerate the (finitely many) degree assignments ≤ 2 and the three outcomes of the scale
  comparison and evaluate the program symbolically; the arithmetic stays uninterpreted (`Interp`), the laws used
  (`ScaleLaws`, `DegLaws`, `TensorLaws`) are hypotheses.
-/
import Lattigo.Proofs.StoreOps

set_option linter.unusedSimpArgs false
set_option linter.unusedVariables false
namespace Lattigo.Store

variable {α : Type}


def evOf (sub : Bool) : Fn := if sub then .evs else .ev
def post (I : Interp α) (sub : Bool) (x : α) : α := if sub then I.fn .neg [x] else x

structure DegLaws (I : Interp α) (sub : Bool) : Prop where
  copyId : ∀ x, I.fn .copy [x] = x
  scalZero : ∀ r, I.fn .scal [r, I.fn .zero []] = I.fn .zero []
  evZeroR : ∀ x, I.fn (evOf sub) [x, I.fn .zero []] = x
  evZeroL : ∀ x, I.fn (evOf sub) [I.fn .zero [], x] = post I sub x

/-- component `i` of ckks.Add / ckks.Sub of operands of degree `d0`, `d1` -/
def ckksAddF (I : Interp α) (sub : Bool) (c : Ordering) (sa sb : α) (d0 d1 : Nat) (a b : Nat → α) (i : Nat) : α :=
  let sA := match c with | .lt => I.fn .scal [I.fn .ratio [sb, sa], a i] | _ => a i
  let sB := match c with | .gt => I.fn .scal [I.fn .ratio [sa, sb], b i] | _ => b i
  if i ≤ min d0 d1 then I.fn (evOf sub) [sA, sB]
  else if i ≤ d0 then sA
  else post I sub sB

theorem le2 {n : Nat} (h : n ≤ 2) : n = 0 ∨ n = 1 ∨ n = 2 := by omega

set_option maxHeartbeats 4000000 in
theorem ckksAdd_distinct (I : Interp α) (sub : Bool) (hS : ScaleLaws I) (hD : DegLaws I sub)
    (deg : Nat → Nat) (hdeg : ∀ o, deg o ≤ 2) (σ : Store α) :
    let p := Alias.distinct.pat
    let sa := σ (L p.op0 fScale); let sb := σ (L p.op1 fScale)
    let c := I.cmp sa sb
    let σ' := run I (ckksAddProg sub p deg c) σ
    (∀ i, i ≤ max (deg p.op0) (deg p.op1) → σ' (L p.out i) =
      ckksAddF I sub c sa sb (deg p.op0) (deg p.op1) (fun i => σ (L p.op0 i)) (fun i => σ (L p.op1 i)) i) ∧
    σ' (L p.out fScale) = I.fn .smax [sa, sb] ∧
    ∀ x, Untouched p x → σ' x = σ x := by
  have eL := hD.evZeroL
  have eR := hD.evZeroR
  cases sub <;> simp only [evOf, post, if_true, if_false, Bool.false_eq_true] at eL eR <;>
  rcases le2 (hdeg 0) with h0 | h0 | h0 <;> rcases le2 (hdeg 1) with h1 | h1 | h1 <;> rcases le2 (hdeg 2) with h2 | h2 | h2 <;>
  rcases hc : I.cmp (σ.get ⟨0, 8⟩) (σ.get ⟨1, 8⟩) with _ | _ | _ <;>
  simp (config := {decide := true}) [Alias.pat, ckksAddProg, ckksAlign, ckksScaleInto, resizeSteps, fromTo, setDeg,
    h0, h1, h2, hc, L, st, fScale, bq, bqp, bct, bqm, Step.exec, Untouched, ckksAddF, evOf, post,
    hD.copyId, hD.scalZero, hS.copyId, hS.maxIdem, eL, eR]
  all_goals (repeat' apply And.intro)
  all_goals first
    | frame_tac
    | exact (hS.maxLt _ _ hc).symm
    | exact (hS.maxGt _ _ hc).symm
    | (intro i hi
       rcases (by omega : i = 0 ∨ i = 1 ∨ i = 2) with rfl | rfl | rfl <;>
       simp (config := {decide := true}) [eL, eR, hD.copyId, hD.scalZero] at hi ⊢)

set_option maxHeartbeats 4000000 in
theorem ckksAdd_outOp0 (I : Interp α) (sub : Bool) (hS : ScaleLaws I) (hD : DegLaws I sub)
    (deg : Nat → Nat) (hdeg : ∀ o, deg o ≤ 2) (σ : Store α) :
    let p := Alias.outOp0.pat
    let sa := σ (L p.op0 fScale); let sb := σ (L p.op1 fScale)
    let c := I.cmp sa sb
    let σ' := run I (ckksAddProg sub p deg c) σ
    (∀ i, i ≤ max (deg p.op0) (deg p.op1) → σ' (L p.out i) =
      ckksAddF I sub c sa sb (deg p.op0) (deg p.op1) (fun i => σ (L p.op0 i)) (fun i => σ (L p.op1 i)) i) ∧
    σ' (L p.out fScale) = I.fn .smax [sa, sb] ∧
    ∀ x, Untouched p x → σ' x = σ x := by
  have eL := hD.evZeroL
  have eR := hD.evZeroR
  have h2 := hdeg 2
  cases sub <;> simp only [evOf, post, if_true, if_false, Bool.false_eq_true] at eL eR <;>
  rcases le2 (hdeg 0) with h0 | h0 | h0 <;> rcases le2 (hdeg 1) with h1 | h1 | h1 <;>
  rcases hc : I.cmp (σ.get ⟨0, 8⟩) (σ.get ⟨1, 8⟩) with _ | _ | _ <;>
  simp (config := {decide := true}) [Alias.pat, ckksAddProg, ckksAlign, ckksScaleInto, resizeSteps, fromTo, setDeg,
    h0, h1, h2, hc, L, st, fScale, bq, bqp, bct, bqm, Step.exec, Untouched, ckksAddF, evOf, post,
    hD.copyId, hD.scalZero, hS.copyId, hS.maxIdem, eL, eR]
  all_goals (repeat' apply And.intro)
  all_goals first
    | frame_tac
    | exact (hS.maxLt _ _ hc).symm
    | exact (hS.maxGt _ _ hc).symm
    | (intro i hi
       rcases (by omega : i = 0 ∨ i = 1 ∨ i = 2) with rfl | rfl | rfl <;>
       simp (config := {decide := true}) [eL, eR, hD.copyId, hD.scalZero] at hi ⊢)

set_option maxHeartbeats 4000000 in
theorem ckksAdd_outOp1 (I : Interp α) (sub : Bool) (hS : ScaleLaws I) (hD : DegLaws I sub)
    (deg : Nat → Nat) (hdeg : ∀ o, deg o ≤ 2) (σ : Store α) :
    let p := Alias.outOp1.pat
    let sa := σ (L p.op0 fScale); let sb := σ (L p.op1 fScale)
    let c := I.cmp sa sb
    let σ' := run I (ckksAddProg sub p deg c) σ
    (∀ i, i ≤ max (deg p.op0) (deg p.op1) → σ' (L p.out i) =
      ckksAddF I sub c sa sb (deg p.op0) (deg p.op1) (fun i => σ (L p.op0 i)) (fun i => σ (L p.op1 i)) i) ∧
    σ' (L p.out fScale) = I.fn .smax [sa, sb] ∧
    ∀ x, Untouched p x → σ' x = σ x := by
  have eL := hD.evZeroL
  have eR := hD.evZeroR
  have h2 := hdeg 2
  cases sub <;> simp only [evOf, post, if_true, if_false, Bool.false_eq_true] at eL eR <;>
  rcases le2 (hdeg 0) with h0 | h0 | h0 <;> rcases le2 (hdeg 1) with h1 | h1 | h1 <;>
  rcases hc : I.cmp (σ.get ⟨0, 8⟩) (σ.get ⟨1, 8⟩) with _ | _ | _ <;>
  simp (config := {decide := true}) [Alias.pat, ckksAddProg, ckksAlign, ckksScaleInto, resizeSteps, fromTo, setDeg,
    h0, h1, h2, hc, L, st, fScale, bq, bqp, bct, bqm, Step.exec, Untouched, ckksAddF, evOf, post,
    hD.copyId, hD.scalZero, hS.copyId, hS.maxIdem, eL, eR]
  all_goals (repeat' apply And.intro)
  all_goals first
    | frame_tac
    | exact (hS.maxLt _ _ hc).symm
    | exact (hS.maxGt _ _ hc).symm
    | (intro i hi
       rcases (by omega : i = 0 ∨ i = 1 ∨ i = 2) with rfl | rfl | rfl <;>
       simp (config := {decide := true}) [eL, eR, hD.copyId, hD.scalZero] at hi ⊢)

set_option maxHeartbeats 4000000 in
theorem ckksAdd_op0Op1 (I : Interp α) (sub : Bool) (hS : ScaleLaws I) (hD : DegLaws I sub)
    (deg : Nat → Nat) (hdeg : ∀ o, deg o ≤ 2) (σ : Store α) :
    let p := Alias.op0Op1.pat
    let sa := σ (L p.op0 fScale); let sb := σ (L p.op1 fScale)
    let c := I.cmp sa sb
    let σ' := run I (ckksAddProg sub p deg c) σ
    (∀ i, i ≤ max (deg p.op0) (deg p.op1) → σ' (L p.out i) =
      ckksAddF I sub c sa sb (deg p.op0) (deg p.op1) (fun i => σ (L p.op0 i)) (fun i => σ (L p.op1 i)) i) ∧
    σ' (L p.out fScale) = I.fn .smax [sa, sb] ∧
    ∀ x, Untouched p x → σ' x = σ x := by
  have eL := hD.evZeroL
  have eR := hD.evZeroR
  have h1 := hdeg 1
  cases sub <;> simp only [evOf, post, if_true, if_false, Bool.false_eq_true] at eL eR <;>
  rcases le2 (hdeg 0) with h0 | h0 | h0 <;> rcases le2 (hdeg 2) with h2 | h2 | h2 <;>
  have hc := hS.cmpRefl (σ.get ⟨0, 8⟩) <;>
  simp (config := {decide := true}) [Alias.pat, ckksAddProg, ckksAlign, ckksScaleInto, resizeSteps, fromTo, setDeg,
    h0, h1, h2, hc, L, st, fScale, bq, bqp, bct, bqm, Step.exec, Untouched, ckksAddF, evOf, post,
    hD.copyId, hD.scalZero, hS.copyId, hS.maxIdem, eL, eR]
  all_goals (repeat' apply And.intro)
  all_goals first
    | frame_tac
    | exact (hS.maxLt _ _ hc).symm
    | exact (hS.maxGt _ _ hc).symm
    | (intro i hi
       rcases (by omega : i = 0 ∨ i = 1 ∨ i = 2) with rfl | rfl | rfl <;>
       simp (config := {decide := true}) [eL, eR, hD.copyId, hD.scalZero] at hi ⊢)

set_option maxHeartbeats 4000000 in
theorem ckksAdd_allEq (I : Interp α) (sub : Bool) (hS : ScaleLaws I) (hD : DegLaws I sub)
    (deg : Nat → Nat) (hdeg : ∀ o, deg o ≤ 2) (σ : Store α) :
    let p := Alias.allEq.pat
    let sa := σ (L p.op0 fScale); let sb := σ (L p.op1 fScale)
    let c := I.cmp sa sb
    let σ' := run I (ckksAddProg sub p deg c) σ
    (∀ i, i ≤ max (deg p.op0) (deg p.op1) → σ' (L p.out i) =
      ckksAddF I sub c sa sb (deg p.op0) (deg p.op1) (fun i => σ (L p.op0 i)) (fun i => σ (L p.op1 i)) i) ∧
    σ' (L p.out fScale) = I.fn .smax [sa, sb] ∧
    ∀ x, Untouched p x → σ' x = σ x := by
  have eL := hD.evZeroL
  have eR := hD.evZeroR
  have h1 := hdeg 1
  have h2 := hdeg 2
  cases sub <;> simp only [evOf, post, if_true, if_false, Bool.false_eq_true] at eL eR <;>
  rcases le2 (hdeg 0) with h0 | h0 | h0 <;>
  have hc := hS.cmpRefl (σ.get ⟨0, 8⟩) <;>
  simp (config := {decide := true}) [Alias.pat, ckksAddProg, ckksAlign, ckksScaleInto, resizeSteps, fromTo, setDeg,
    h0, h1, h2, hc, L, st, fScale, bq, bqp, bct, bqm, Step.exec, Untouched, ckksAddF, evOf, post,
    hD.copyId, hD.scalZero, hS.copyId, hS.maxIdem, eL, eR]
  all_goals (repeat' apply And.intro)
  all_goals first
    | frame_tac
    | exact (hS.maxLt _ _ hc).symm
    | exact (hS.maxGt _ _ hc).symm
    | (intro i hi
       rcases (by omega : i = 0 ∨ i = 1 ∨ i = 2) with rfl | rfl | rfl <;>
       simp (config := {decide := true}) [eL, eR, hD.copyId, hD.scalZero] at hi ⊢)


/-- every pattern at once -/
theorem ckksAdd_alias_sound (I : Interp α) (sub : Bool) (hS : ScaleLaws I) (hD : DegLaws I sub) (al : Alias)
    (deg : Nat → Nat) (hdeg : ∀ o, deg o ≤ 2) (σ : Store α) :
    let p := al.pat
    let sa := σ (L p.op0 fScale); let sb := σ (L p.op1 fScale)
    let c := I.cmp sa sb
    let σ' := run I (ckksAddProg sub p deg c) σ
    (∀ i, i ≤ max (deg p.op0) (deg p.op1) → σ' (L p.out i) =
      ckksAddF I sub c sa sb (deg p.op0) (deg p.op1) (fun i => σ (L p.op0 i)) (fun i => σ (L p.op1 i)) i) ∧
    σ' (L p.out fScale) = I.fn .smax [sa, sb] ∧
    ∀ x, Untouched p x → σ' x = σ x := by
  cases al
  · exact ckksAdd_distinct I sub hS hD deg hdeg σ
  · exact ckksAdd_outOp0 I sub hS hD deg hdeg σ
  · exact ckksAdd_outOp1 I sub hS hD deg hdeg σ
  · exact ckksAdd_op0Op1 I sub hS hD deg hdeg σ
  · exact ckksAdd_allEq I sub hS hD deg hdeg σ

/-! ## ckks.mulRelin / bgv.tensorStandard -/


def preOf (bgv : Bool) : Fn := if bgv then .mulT else .mform

/-- degree of the result of ckks.Mul(Relin) / bgv.Mul(Relin) -/
def tensorDegF (bgv relin : Bool) (d0 d1 : Nat) : Nat :=
  if d0 = 1 ∧ d1 = 1 then (if relin then 1 else 2) else if bgv then d0 else max d0 d1

/-- component `i` of the result -/
def tensorDF (I : Interp α) (bgv relin : Bool) (d0 d1 : Nat) (a b : Nat → α) (i : Nat) : α :=
  let pre := preOf bgv
  if d0 = 1 ∧ d1 = 1 then
    if relin then
      (if i = 0 then I.fn .add [tensorF0 I pre (a 0) (b 0), I.fn .gp0 [tensorF2 I pre (a 1) (b 1)]]
       else I.fn .add [tensorF1 I pre (a 0) (a 1) (b 0) (b 1), I.fn .gp1 [tensorF2 I pre (a 1) (b 1)]])
    else
      (if i = 0 then tensorF0 I pre (a 0) (b 0) else if i = 1 then tensorF1 I pre (a 0) (a 1) (b 0) (b 1)
       else tensorF2 I pre (a 1) (b 1))
  else if bgv then I.fn .mulM [a i, I.fn pre [b 0]]
  else if d0 = 0 then I.fn .mulM [I.fn pre [a 0], b i]
  else I.fn .mulM [I.fn pre [b 0], a i]

def TensorAccepted (bgv : Bool) (d0 d1 dOut : Nat) : Prop :=
  ¬(d0 + d1 = 0 ∨ d0 + d1 > 2) ∧ ¬(bgv = true ∧ d0 = 0) ∧ ¬(d0 = 1 ∧ d1 = 1 ∧ dOut = 0)

set_option maxHeartbeats 2000000 in
theorem tensorD_pt_distinct (I : Interp α) (bgv relin : Bool) (deg : Nat → Nat) (hdeg : ∀ o, deg o ≤ 2)
    (hacc : TensorAccepted bgv (deg Alias.distinct.pat.op0) (deg Alias.distinct.pat.op1) (deg Alias.distinct.pat.out))
    (h11 : ¬(deg Alias.distinct.pat.op0 = 1 ∧ deg Alias.distinct.pat.op1 = 1)) (σ : Store α) :
    let p := Alias.distinct.pat
    ∃ prog, tensorGenD bgv relin p deg = .ok (prog, tensorDegF bgv relin (deg p.op0) (deg p.op1)) ∧
      let σ' := run I prog σ
      (∀ i, i ≤ tensorDegF bgv relin (deg p.op0) (deg p.op1) → σ' (L p.out i) =
        tensorDF I bgv relin (deg p.op0) (deg p.op1) (fun i => σ (L p.op0 i)) (fun i => σ (L p.op1 i)) i) ∧
      σ' (L p.out fScale) = I.fn .smul [σ (L p.op0 fScale), σ (L p.op1 fScale)] ∧
      ∀ x, Untouched p x → σ' x = σ x := by
  unfold TensorAccepted at hacc
  rcases le2 (hdeg 0) with h0 | h0 | h0 <;> rcases le2 (hdeg 1) with h1 | h1 | h1 <;> rcases le2 (hdeg 2) with h2 | h2 | h2 <;>
  simp (config := {decide := true}) [Alias.pat, h0, h1, h2] at hacc h11 <;>
  cases bgv <;> cases relin <;>
  (try simp (config := {decide := true}) [Alias.pat, h0, h1, h2] at hacc) <;>
  simp (config := {decide := true}) [Alias.pat, tensorGenD, tensorDegF, tensorDF, preOf, resizeSteps, fromTo,
    h0, h1, h2, L, st, fScale, bq, bqp, bct, bqm, Step.exec, Untouched]
  all_goals (repeat' apply And.intro)
  all_goals first
    | frame_tac
    | (intro i hi
       rcases (by omega : i = 0 ∨ i = 1 ∨ i = 2) with rfl | rfl | rfl <;>
       simp (config := {decide := true}) at hi ⊢)

set_option maxHeartbeats 2000000 in
theorem tensorD_pt_outOp0 (I : Interp α) (bgv relin : Bool) (deg : Nat → Nat) (hdeg : ∀ o, deg o ≤ 2)
    (hacc : TensorAccepted bgv (deg Alias.outOp0.pat.op0) (deg Alias.outOp0.pat.op1) (deg Alias.outOp0.pat.out))
    (h11 : ¬(deg Alias.outOp0.pat.op0 = 1 ∧ deg Alias.outOp0.pat.op1 = 1)) (σ : Store α) :
    let p := Alias.outOp0.pat
    ∃ prog, tensorGenD bgv relin p deg = .ok (prog, tensorDegF bgv relin (deg p.op0) (deg p.op1)) ∧
      let σ' := run I prog σ
      (∀ i, i ≤ tensorDegF bgv relin (deg p.op0) (deg p.op1) → σ' (L p.out i) =
        tensorDF I bgv relin (deg p.op0) (deg p.op1) (fun i => σ (L p.op0 i)) (fun i => σ (L p.op1 i)) i) ∧
      σ' (L p.out fScale) = I.fn .smul [σ (L p.op0 fScale), σ (L p.op1 fScale)] ∧
      ∀ x, Untouched p x → σ' x = σ x := by
  unfold TensorAccepted at hacc
  have h2 := hdeg 2
  rcases le2 (hdeg 0) with h0 | h0 | h0 <;> rcases le2 (hdeg 1) with h1 | h1 | h1 <;>
  simp (config := {decide := true}) [Alias.pat, h0, h1, h2] at hacc h11 <;>
  cases bgv <;> cases relin <;>
  (try simp (config := {decide := true}) [Alias.pat, h0, h1, h2] at hacc) <;>
  simp (config := {decide := true}) [Alias.pat, tensorGenD, tensorDegF, tensorDF, preOf, resizeSteps, fromTo,
    h0, h1, h2, L, st, fScale, bq, bqp, bct, bqm, Step.exec, Untouched]
  all_goals (repeat' apply And.intro)
  all_goals first
    | frame_tac
    | (intro i hi
       rcases (by omega : i = 0 ∨ i = 1 ∨ i = 2) with rfl | rfl | rfl <;>
       simp (config := {decide := true}) at hi ⊢)

set_option maxHeartbeats 2000000 in
theorem tensorD_pt_outOp1 (I : Interp α) (bgv relin : Bool) (deg : Nat → Nat) (hdeg : ∀ o, deg o ≤ 2)
    (hacc : TensorAccepted bgv (deg Alias.outOp1.pat.op0) (deg Alias.outOp1.pat.op1) (deg Alias.outOp1.pat.out))
    (h11 : ¬(deg Alias.outOp1.pat.op0 = 1 ∧ deg Alias.outOp1.pat.op1 = 1)) (σ : Store α) :
    let p := Alias.outOp1.pat
    ∃ prog, tensorGenD bgv relin p deg = .ok (prog, tensorDegF bgv relin (deg p.op0) (deg p.op1)) ∧
      let σ' := run I prog σ
      (∀ i, i ≤ tensorDegF bgv relin (deg p.op0) (deg p.op1) → σ' (L p.out i) =
        tensorDF I bgv relin (deg p.op0) (deg p.op1) (fun i => σ (L p.op0 i)) (fun i => σ (L p.op1 i)) i) ∧
      σ' (L p.out fScale) = I.fn .smul [σ (L p.op0 fScale), σ (L p.op1 fScale)] ∧
      ∀ x, Untouched p x → σ' x = σ x := by
  unfold TensorAccepted at hacc
  have h2 := hdeg 2
  rcases le2 (hdeg 0) with h0 | h0 | h0 <;> rcases le2 (hdeg 1) with h1 | h1 | h1 <;>
  simp (config := {decide := true}) [Alias.pat, h0, h1, h2] at hacc h11 <;>
  cases bgv <;> cases relin <;>
  (try simp (config := {decide := true}) [Alias.pat, h0, h1, h2] at hacc) <;>
  simp (config := {decide := true}) [Alias.pat, tensorGenD, tensorDegF, tensorDF, preOf, resizeSteps, fromTo,
    h0, h1, h2, L, st, fScale, bq, bqp, bct, bqm, Step.exec, Untouched]
  all_goals (repeat' apply And.intro)
  all_goals first
    | frame_tac
    | (intro i hi
       rcases (by omega : i = 0 ∨ i = 1 ∨ i = 2) with rfl | rfl | rfl <;>
       simp (config := {decide := true}) at hi ⊢)

set_option maxHeartbeats 2000000 in
theorem tensorD_pt_op0Op1 (I : Interp α) (bgv relin : Bool) (deg : Nat → Nat) (hdeg : ∀ o, deg o ≤ 2)
    (hacc : TensorAccepted bgv (deg Alias.op0Op1.pat.op0) (deg Alias.op0Op1.pat.op1) (deg Alias.op0Op1.pat.out))
    (h11 : ¬(deg Alias.op0Op1.pat.op0 = 1 ∧ deg Alias.op0Op1.pat.op1 = 1)) (σ : Store α) :
    let p := Alias.op0Op1.pat
    ∃ prog, tensorGenD bgv relin p deg = .ok (prog, tensorDegF bgv relin (deg p.op0) (deg p.op1)) ∧
      let σ' := run I prog σ
      (∀ i, i ≤ tensorDegF bgv relin (deg p.op0) (deg p.op1) → σ' (L p.out i) =
        tensorDF I bgv relin (deg p.op0) (deg p.op1) (fun i => σ (L p.op0 i)) (fun i => σ (L p.op1 i)) i) ∧
      σ' (L p.out fScale) = I.fn .smul [σ (L p.op0 fScale), σ (L p.op1 fScale)] ∧
      ∀ x, Untouched p x → σ' x = σ x := by
  unfold TensorAccepted at hacc
  have h1 := hdeg 1
  rcases le2 (hdeg 0) with h0 | h0 | h0 <;> rcases le2 (hdeg 2) with h2 | h2 | h2 <;>
  simp (config := {decide := true}) [Alias.pat, h0, h1, h2] at hacc h11 <;>
  cases bgv <;> cases relin <;>
  (try simp (config := {decide := true}) [Alias.pat, h0, h1, h2] at hacc) <;>
  simp (config := {decide := true}) [Alias.pat, tensorGenD, tensorDegF, tensorDF, preOf, resizeSteps, fromTo,
    h0, h1, h2, L, st, fScale, bq, bqp, bct, bqm, Step.exec, Untouched]
  all_goals (repeat' apply And.intro)
  all_goals first
    | frame_tac
    | (intro i hi
       rcases (by omega : i = 0 ∨ i = 1 ∨ i = 2) with rfl | rfl | rfl <;>
       simp (config := {decide := true}) at hi ⊢)

set_option maxHeartbeats 2000000 in
theorem tensorD_pt_allEq (I : Interp α) (bgv relin : Bool) (deg : Nat → Nat) (hdeg : ∀ o, deg o ≤ 2)
    (hacc : TensorAccepted bgv (deg Alias.allEq.pat.op0) (deg Alias.allEq.pat.op1) (deg Alias.allEq.pat.out))
    (h11 : ¬(deg Alias.allEq.pat.op0 = 1 ∧ deg Alias.allEq.pat.op1 = 1)) (σ : Store α) :
    let p := Alias.allEq.pat
    ∃ prog, tensorGenD bgv relin p deg = .ok (prog, tensorDegF bgv relin (deg p.op0) (deg p.op1)) ∧
      let σ' := run I prog σ
      (∀ i, i ≤ tensorDegF bgv relin (deg p.op0) (deg p.op1) → σ' (L p.out i) =
        tensorDF I bgv relin (deg p.op0) (deg p.op1) (fun i => σ (L p.op0 i)) (fun i => σ (L p.op1 i)) i) ∧
      σ' (L p.out fScale) = I.fn .smul [σ (L p.op0 fScale), σ (L p.op1 fScale)] ∧
      ∀ x, Untouched p x → σ' x = σ x := by
  unfold TensorAccepted at hacc
  have h1 := hdeg 1
  have h2 := hdeg 2
  rcases le2 (hdeg 0) with h0 | h0 | h0 <;>
  simp (config := {decide := true}) [Alias.pat, h0, h1, h2] at hacc h11 <;>
  cases bgv <;> cases relin <;>
  (try simp (config := {decide := true}) [Alias.pat, h0, h1, h2] at hacc) <;>
  simp (config := {decide := true}) [Alias.pat, tensorGenD, tensorDegF, tensorDF, preOf, resizeSteps, fromTo,
    h0, h1, h2, L, st, fScale, bq, bqp, bct, bqm, Step.exec, Untouched]
  all_goals (repeat' apply And.intro)
  all_goals first
    | frame_tac
    | (intro i hi
       rcases (by omega : i = 0 ∨ i = 1 ∨ i = 2) with rfl | rfl | rfl <;>
       simp (config := {decide := true}) at hi ⊢)

/-- 1 ⊗ 1 with a receiver of previous degree 1 or 2: `tensorProg` after the zero polynomial `Resize` appends -/
theorem tensorD_11 (I : Interp α) (bgv relin : Bool) (hT : TensorLaws I (preOf bgv)) (al : Alias)
    (deg : Nat → Nat) (hdeg : ∀ o, deg o ≤ 2)
    (h0 : deg al.pat.op0 = 1) (h1 : deg al.pat.op1 = 1) (ho : deg al.pat.out ≠ 0) (σ : Store α) :
    let p := al.pat
    ∃ prog, tensorGenD bgv relin p deg = .ok (prog, tensorDegF bgv relin (deg p.op0) (deg p.op1)) ∧
      let σ' := run I prog σ
      (∀ i, i ≤ tensorDegF bgv relin (deg p.op0) (deg p.op1) → σ' (L p.out i) =
        tensorDF I bgv relin (deg p.op0) (deg p.op1) (fun i => σ (L p.op0 i)) (fun i => σ (L p.op1 i)) i) ∧
      σ' (L p.out fScale) = I.fn .smul [σ (L p.op0 fScale), σ (L p.op1 fScale)] ∧
      ∀ x, Untouched p x → σ' x = σ x := by
  intro p
  have hgen : tensorGenD bgv relin p deg =
      .ok ((if relin then [] else resizeSteps p.out (deg p.out) 2) ++ tensorProg (preOf bgv) relin p,
        tensorDegF bgv relin (deg p.op0) (deg p.op1)) := by
    unfold tensorGenD tensorDegF preOf
    simp only [p, h0, h1, ho]
    cases bgv <;> simp
  refine ⟨_, hgen, ?_⟩
  -- the store after the resize: only `out.Value[2]` may have been written
  generalize hσ1 : run I (if relin then [] else resizeSteps p.out (deg p.out) 2) σ = σ1
  have hσ1' : ∀ x : Loc, x ≠ L p.out 2 → σ1 x = σ x := by
    intro x hx
    subst hσ1
    apply run_frame
    intro s hs
    cases relin
    · rcases le2 (hdeg p.out) with h | h | h
      · exact absurd h ho
      · simp [resizeSteps, fromTo, h, st] at hs; subst hs; exact fun e => hx e.symm
      · simp [resizeSteps, fromTo, h] at hs
    · simp at hs
  have hfld : ∀ (o f : Nat), f ≠ 2 → σ1 (L o f) = σ (L o f) := by
    intro o f hf
    apply hσ1'
    intro e; simp [L] at e; exact hf e.2
  simp only [run_append, hσ1]
  cases relin
  · have h := tensor_alias_sound I (preOf bgv) hT al σ1
    simp only at h
    obtain ⟨e0, e1, e2, es, efr⟩ := h
    refine ⟨?_, ?_, ?_⟩
    · intro i hi
      simp only [tensorDegF, p, h0, h1] at hi
      simp only [tensorDF, p, h0, h1]
      rcases (by simpa using hi : i ≤ 2) with _
      rcases (by omega : i = 0 ∨ i = 1 ∨ i = 2) with rfl | rfl | rfl
      · simpa [hfld] using e0
      · simpa [hfld] using e1
      · simpa [hfld] using e2
    · simpa [hfld, fScale] using es
    · intro x hx
      rw [efr x hx]
      apply hσ1'
      intro e; exact hx.1 (by rw [e]; rfl)
  · have h := tensorRelin_alias_sound I (preOf bgv) hT al σ1
    simp only at h
    obtain ⟨e0, e1, es, efr⟩ := h
    refine ⟨?_, ?_, ?_⟩
    · intro i hi
      simp only [tensorDegF, p, h0, h1] at hi
      simp only [tensorDF, p, h0, h1]
      rcases (by simpa using hi : i ≤ 1) with _
      rcases (by omega : i = 0 ∨ i = 1) with rfl | rfl
      · simpa [hfld] using e0
      · simpa [hfld] using e1
    · simpa [hfld, fScale] using es
    · intro x hx
      rw [efr x hx]
      apply hσ1'
      intro e; exact hx.1 (by rw [e]; rfl)

/-- ALIAS SOUNDNESS of ckks.Mul/MulRelin and bgv.Mul/MulRelin (standard tensoring) for operands of degree
    0/1/2: whenever the code accepts the call, under every aliasing pattern and whatever degree the receiver
    had, the receiver gets the documented degree and the polynomials of the all-distinct closed form. -/
theorem tensorD_alias_sound (I : Interp α) (bgv relin : Bool) (hT : TensorLaws I (preOf bgv)) (al : Alias)
    (deg : Nat → Nat) (hdeg : ∀ o, deg o ≤ 2)
    (hacc : TensorAccepted bgv (deg al.pat.op0) (deg al.pat.op1) (deg al.pat.out)) (σ : Store α) :
    let p := al.pat
    ∃ prog, tensorGenD bgv relin p deg = .ok (prog, tensorDegF bgv relin (deg p.op0) (deg p.op1)) ∧
      let σ' := run I prog σ
      (∀ i, i ≤ tensorDegF bgv relin (deg p.op0) (deg p.op1) → σ' (L p.out i) =
        tensorDF I bgv relin (deg p.op0) (deg p.op1) (fun i => σ (L p.op0 i)) (fun i => σ (L p.op1 i)) i) ∧
      σ' (L p.out fScale) = I.fn .smul [σ (L p.op0 fScale), σ (L p.op1 fScale)] ∧
      ∀ x, Untouched p x → σ' x = σ x := by
  by_cases h11 : deg al.pat.op0 = 1 ∧ deg al.pat.op1 = 1
  · exact tensorD_11 I bgv relin hT al deg hdeg h11.1 h11.2 (fun h => hacc.2.2 ⟨h11.1, h11.2, h⟩) σ
  · cases al
    · exact tensorD_pt_distinct I bgv relin deg hdeg hacc h11 σ
    · exact tensorD_pt_outOp0 I bgv relin deg hdeg hacc h11 σ
    · exact tensorD_pt_outOp1 I bgv relin deg hdeg hacc h11 σ
    · exact tensorD_pt_op0Op1 I bgv relin deg hdeg hacc h11 σ
    · exact tensorD_pt_allEq I bgv relin deg hdeg hacc h11 σ

/-- 1 ⊗ 1 into a receiver of degree 0 PANICS -/
theorem tensorD_panic_of (bgv relin : Bool) (p : Pat) (deg : Nat → Nat)
    (h0 : deg p.op0 = 1) (h1 : deg p.op1 = 1) (ho : deg p.out = 0) : tensorGenD bgv relin p deg = .panic := by
  unfold tensorGenD
  simp [h0, h1, ho]

/-- … and nothing else does -/
theorem tensorD_panic_only (bgv relin : Bool) (p : Pat) (deg : Nat → Nat)
    (h : tensorGenD bgv relin p deg = .panic) : deg p.op0 = 1 ∧ deg p.op1 = 1 ∧ deg p.out = 0 := by
  unfold tensorGenD at h
  simp only at h
  split at h
  · cases h
  · split at h
    · cases h
    · split at h
      · rename_i hC
        split at h
        · rename_i hD; exact ⟨hC.1, hC.2, hD⟩
        · cases h
      · split at h <;> (try split at h) <;> cases h

/-- the operands the code rejects with an error -/
theorem tensorD_err_of (bgv relin : Bool) (p : Pat) (deg : Nat → Nat)
    (h : deg p.op0 + deg p.op1 = 0 ∨ deg p.op0 + deg p.op1 > 2 ∨ (bgv = true ∧ deg p.op0 = 0)) :
    tensorGenD bgv relin p deg = .err := by
  unfold tensorGenD
  simp only
  by_cases hA : deg p.op0 + deg p.op1 = 0 ∨ deg p.op0 + deg p.op1 > 2
  · rw [if_pos hA]
  · rw [if_neg hA]
    have hB : bgv = true ∧ deg p.op0 = 0 := by
      rcases h with h | h | h
      · exact absurd (Or.inl h) hA
      · exact absurd (Or.inr h) hA
      · exact h
    rw [if_pos hB]

/-- with patch fixes/C09-6 (receiver resized before `c0, c1` are taken) the routine never panics -/
theorem tensorDFixed_no_panic (bgv relin : Bool) (p : Pat) (deg : Nat → Nat) :
    tensorGenDFixed bgv relin p deg ≠ .panic := by
  unfold tensorGenDFixed
  split
  · intro h; cases h
  · rename_i hc
    intro h
    have := tensorD_panic_only bgv relin p deg h
    apply hc
    refine ⟨this.1, this.2.1, this.2.2, ?_⟩
    rintro ⟨_, h0⟩
    rw [this.1] at h0
    cases h0

/-- code WITH patch C09-6, 1 ⊗ 1 into a receiver of degree 0 (necessarily a distinct object): the receiver is
    extended by zero polynomials first, then `tensorProg` -/
theorem tensorDFixed_11_deg0 (I : Interp α) (bgv relin : Bool) (hT : TensorLaws I (preOf bgv)) (al : Alias)
    (deg : Nat → Nat) (h0 : deg al.pat.op0 = 1) (h1 : deg al.pat.op1 = 1) (ho : deg al.pat.out = 0) (σ : Store α) :
    let p := al.pat
    ∃ prog, tensorGenDFixed bgv relin p deg = .ok (prog, tensorDegF bgv relin (deg p.op0) (deg p.op1)) ∧
      let σ' := run I prog σ
      (∀ i, i ≤ tensorDegF bgv relin (deg p.op0) (deg p.op1) → σ' (L p.out i) =
        tensorDF I bgv relin (deg p.op0) (deg p.op1) (fun i => σ (L p.op0 i)) (fun i => σ (L p.op1 i)) i) ∧
      σ' (L p.out fScale) = I.fn .smul [σ (L p.op0 fScale), σ (L p.op1 fScale)] ∧
      ∀ x, Untouched p x → σ' x = σ x := by
  intro p
  have hoa : p.out ≠ p.op0 := fun e => by rw [← e] at h0; simp only [p] at h0; omega
  have hob : p.out ≠ p.op1 := fun e => by rw [← e] at h1; simp only [p] at h1; omega
  have hgen : tensorGenDFixed bgv relin p deg =
      .ok ((if relin then resizeSteps p.out 0 1 else resizeSteps p.out 0 2) ++ tensorProg (preOf bgv) relin p,
        tensorDegF bgv relin (deg p.op0) (deg p.op1)) := by
    unfold tensorGenDFixed tensorDegF preOf
    simp only [p, h0, h1, ho]
    cases bgv <;> simp
  refine ⟨_, hgen, ?_⟩
  generalize hσ1 : run I (if relin then resizeSteps p.out 0 1 else resizeSteps p.out 0 2) σ = σ1
  have hσ1' : ∀ x : Loc, x.obj ≠ p.out → σ1 x = σ x := by
    intro x hx
    subst hσ1
    apply run_frame
    intro s hs
    cases relin <;> simp [resizeSteps, fromTo, st, L] at hs <;>
      (rcases hs with rfl | rfl <;> (intro e; apply hx; rw [← e])) 
  have hfa : ∀ f, σ1 (L p.op0 f) = σ (L p.op0 f) := fun f => hσ1' _ (fun e => hoa e.symm)
  have hfb : ∀ f, σ1 (L p.op1 f) = σ (L p.op1 f) := fun f => hσ1' _ (fun e => hob e.symm)
  simp only [run_append, hσ1]
  cases relin
  · have h := tensor_alias_sound I (preOf bgv) hT al σ1
    simp only at h
    obtain ⟨e0, e1, e2, es, efr⟩ := h
    refine ⟨?_, ?_, ?_⟩
    · intro i hi
      simp only [tensorDegF, p, h0, h1] at hi
      simp only [tensorDF, p, h0, h1]
      rcases (by simpa using hi : i ≤ 2) with _
      rcases (by omega : i = 0 ∨ i = 1 ∨ i = 2) with rfl | rfl | rfl
      · simpa [hfa, hfb, p] using e0
      · simpa [hfa, hfb, p] using e1
      · simpa [hfa, hfb, p] using e2
    · simpa [hfa, hfb, p] using es
    · intro x hx
      rw [efr x hx]
      exact hσ1' x hx.1
  · have h := tensorRelin_alias_sound I (preOf bgv) hT al σ1
    simp only at h
    obtain ⟨e0, e1, es, efr⟩ := h
    refine ⟨?_, ?_, ?_⟩
    · intro i hi
      simp only [tensorDegF, p, h0, h1] at hi
      simp only [tensorDF, p, h0, h1]
      rcases (by simpa using hi : i ≤ 1) with _
      rcases (by omega : i = 0 ∨ i = 1) with rfl | rfl
      · simpa [hfa, hfb, p] using e0
      · simpa [hfa, hfb, p] using e1
    · simpa [hfa, hfb, p] using es
    · intro x hx
      rw [efr x hx]
      exact hσ1' x hx.1

/-- the fixed routine coincides with the code as written whenever that does not panic -/
theorem tensorGenDFixed_eq (bgv relin : Bool) (p : Pat) (deg : Nat → Nat)
    (h : ¬(deg p.op0 = 1 ∧ deg p.op1 = 1 ∧ deg p.out = 0)) :
    tensorGenDFixed bgv relin p deg = tensorGenD bgv relin p deg := by
  unfold tensorGenDFixed
  rw [if_neg]
  intro hc
  exact h ⟨hc.1, hc.2.1, hc.2.2.1⟩

/-- ALIAS SOUNDNESS with patch C09-6: for EVERY previous degree of the receiver -/
theorem tensorDFixed_alias_sound (I : Interp α) (bgv relin : Bool) (hT : TensorLaws I (preOf bgv)) (al : Alias)
    (deg : Nat → Nat) (hdeg : ∀ o, deg o ≤ 2)
    (hacc : ¬(deg al.pat.op0 + deg al.pat.op1 = 0 ∨ deg al.pat.op0 + deg al.pat.op1 > 2) ∧
      ¬(bgv = true ∧ deg al.pat.op0 = 0)) (σ : Store α) :
    let p := al.pat
    ∃ prog, tensorGenDFixed bgv relin p deg = .ok (prog, tensorDegF bgv relin (deg p.op0) (deg p.op1)) ∧
      let σ' := run I prog σ
      (∀ i, i ≤ tensorDegF bgv relin (deg p.op0) (deg p.op1) → σ' (L p.out i) =
        tensorDF I bgv relin (deg p.op0) (deg p.op1) (fun i => σ (L p.op0 i)) (fun i => σ (L p.op1 i)) i) ∧
      σ' (L p.out fScale) = I.fn .smul [σ (L p.op0 fScale), σ (L p.op1 fScale)] ∧
      ∀ x, Untouched p x → σ' x = σ x := by
  by_cases h : deg al.pat.op0 = 1 ∧ deg al.pat.op1 = 1 ∧ deg al.pat.out = 0
  · exact tensorDFixed_11_deg0 I bgv relin hT al deg h.1 h.2.1 h.2.2 σ
  · intro p
    rw [tensorGenDFixed_eq bgv relin p deg h]
    exact tensorD_alias_sound I bgv relin hT al deg hdeg ⟨hacc.1, hacc.2, h⟩ σ

end Lattigo.Store
