/-
  Full refinement for the four NTT-domain variants of the division by the last modulus (ring/scaling.go):
      DivFloorByLastModulusNTT, DivRoundByLastModulusNTT,
      DivFloorByLastModulusManyNTT, DivRoundByLastModulusManyNTT.

  If the rows of `p0` are the (bit-exact, `Model/NTT.lean`) forward NTTs of the residues of an integer
  coefficient vector `X`, the rows of the result are the forward NTTs of the residues of the quotient.

  Ingredients:
    * `Proofs/NTTInv.lean`   : `inttStd_nttStd`, `nttStd_cast` (the word-level NTT read in `Z_q` is the exact network),
    * `Proofs/NTTRangeBig.lean`: `nttCoreLazy_big` (no uint64 wrap of `NTTLazy` of ring `q_i` on the residues
      modulo the larger `q_ℓ`, resp. on values `< q_ℓ + q_i`), `fwdZ_zipWith_lin` (linearity of the network),
    * `Proofs/ScalingLimb.lean`: `divFloorLimb_spec'` (one limb = residue formula),
    * `Proofs/ScalingInt.lean` : `divFloorRes_spec` (residue formula = quotient),
    * `Proofs/ScalingRefine.lean`: `iterFloor_limbs`, `iterRound_limbs` (the coefficient-domain iteration).

  The single-division variants use `INTTLazy`, which for `N < 16` returns values in `[1, 2q_ℓ]` (`0 ↦ q_ℓ`):
  the theorems hold for EVERY ring degree `N = 2^K` (`nttCoreLazy_big_all`, Proofs/ScalingNTTRange.lean); before repair
  C02-4 of /repo they were false for `N < 16` (`divFloorNTT_small_ring_repaired`).
-/
import Lattigo.Proofs.ScalingNTTRange
import Lattigo.Proofs.NTTTables
import Lattigo.Proofs.ScalingRefine

set_option linter.unusedVariables false

namespace Lattigo.Scaling
open Lattigo Lattigo.Gen Lattigo.NTT

/-! ## helpers -/

/-- the residue formula read in `Z_q`: `(u − v)·c` -/
theorem divFloorRes_cast (q c u v : ℕ) (hq : 0 < q) :
    ((divFloorRes q c u v : ℕ) : ZMod q) = ((u : ZMod q) - (v : ZMod q)) * (c : ZMod q) := by
  unfold divFloorRes
  have hv : v % q ≤ u + q := by have := Nat.mod_lt v hq; omega
  rw [ZMod.natCast_mod, Nat.cast_mul, Nat.cast_sub hv, Nat.cast_add, ZMod.natCast_self, add_zero,
    ZMod.natCast_mod]

theorem divFloorRes_lt (q c u v : ℕ) (hq : 0 < q) : divFloorRes q c u v < q := by
  unfold divFloorRes; exact Nat.mod_lt _ hq

theorem natCast_inj_of_lt {q a b : ℕ} (ha : a < q) (hb : b < q)
    (h : ((a : ℕ) : ZMod q) = (b : ZMod q)) : a = b := by
  have := (ZMod.natCast_eq_natCast_iff' a b q).1 h
  rwa [Nat.mod_eq_of_lt ha, Nat.mod_eq_of_lt hb] at this

/-- for `N ≥ 16` `INTTStandardLazy` multiplies by `N⁻¹` with `MRed` (it IS `INTTStandard`) -/
theorem inttStdLazy_eq_inttStd (T : Tables) (h : ¬ T.n < unrollMin) (a : List ℕ) :
    inttStdLazy T a = inttStd T a := by
  unfold inttStdLazy inttStd
  simp only [if_neg h]

theorem not_lt_unrollMin {T : Tables} {K : ℕ} (hT : Valid T K) (hK : 4 ≤ K) : ¬ T.n < unrollMin := by
  rw [hT.n_eq, unrollMin_eq]
  intro h
  have := (two_pow_lt_16 K).1 h
  omega

/-! ## one row: the core -/

/-- **Core of the NTT-domain divisions.**  `a = NTT_i(g(X))` is the reduced NTT-domain row of ring `q_i`
(`g x < q_i`), `b1` is ANY word vector that, read in `Z_{q_i}`, is the exact network applied to `h(X)` and
whose entries satisfy `y + 2q_i < 2^64` (the lazy `NTT_i` of the last row moved to ring `q_i`).  Then
`SubThenMulScalarMontgomeryTwoModulus(b1, a, RescaleConstant)` is, limb for limb, the reduced NTT of the
coefficient-wise residue formula `(g x − h x)·[q_ℓ⁻¹]_{q_i} mod q_i`. -/
theorem divNTT_core (Ti : Tables) (K : ℕ) (hTi : Valid Ti K) (ql : ℕ) (X : List ℕ)
    (hX : X.length = 2 ^ K) (g h : ℕ → ℕ) (hg : ∀ x, g x < Ti.q) (hinv : invMod ql Ti.q < Ti.q)
    (b1 : List ℕ)
    (hb1c : b1.map (Nat.cast : ℕ → ZMod Ti.q)
      = fwdZ (rho Ti.q Ti.rootsF) K 1 ((X.map h).map (Nat.cast : ℕ → ZMod Ti.q)))
    (hb1 : ∀ y ∈ b1, y + 2 * Ti.q < W) :
    List.zipWith (divFloorLimb Ti.q ql) (nttStd Ti (X.map g)) b1
      = nttStd Ti (X.map fun x => divFloorRes Ti.q (invMod ql Ti.q) (g x) (h x)) := by
  have : Fact Ti.q.Prime := ⟨hTi.prime⟩
  have hq0 : 0 < Ti.q := hTi.q_pos
  obtain ⟨hac, halt⟩ := nttStd_cast hTi (X.map g) (by
    intro x hx; rw [List.mem_map] at hx; obtain ⟨y, _, rfl⟩ := hx; exact hg y)
  obtain ⟨hrc, hrlt⟩ := nttStd_cast hTi
    (X.map fun x => divFloorRes Ti.q (invMod ql Ti.q) (g x) (h x)) (by
    intro x hx; rw [List.mem_map] at hx; obtain ⟨y, _, rfl⟩ := hx; exact divFloorRes_lt _ _ _ _ hq0)
  have step1 : List.zipWith (divFloorLimb Ti.q ql) (nttStd Ti (X.map g)) b1
      = List.zipWith (divFloorRes Ti.q (invMod ql Ti.q)) (nttStd Ti (X.map g)) b1 :=
    zipWith_congr_mem _ _ _ _ (fun u hu v hv =>
      divFloorLimb_spec' Ti.q ql u v hTi.mont.odd hTi.prime.one_lt hinv (halt u hu) (hb1 v hv))
  rw [step1]
  apply map_cast_inj (q := Ti.q) _ _
    (forall_zipWith _ (fun z => z < Ti.q) _ _ (fun u _ v _ => divFloorRes_lt _ _ u v hq0)) hrlt
  rw [hrc, map_zipWith_mem (divFloorRes Ti.q (invMod ql Ti.q)) (Nat.cast : ℕ → ZMod Ti.q)
    (Nat.cast : ℕ → ZMod Ti.q) (fun u v => (u - v) * ((invMod ql Ti.q : ℕ) : ZMod Ti.q)) _ _
    (fun u _ v _ => divFloorRes_cast Ti.q _ u v hq0)]
  rw [hac, hb1c, ← fwdZ_zipWith_lin (rho Ti.q Ti.rootsF) _ K 1 _ _
    (by rw [List.length_map, List.length_map, hX]) (by rw [List.length_map, List.length_map, hX])]
  congr 1
  rw [List.map_map, List.map_map, zipWith_map_map, List.map_map]
  apply List.map_congr_left
  intro x _
  simp only [Function.comp]
  exact (divFloorRes_cast Ti.q _ (g x) (h x) hq0).symm

/-! ## one row of `DivFloorByLastModulusNTT` / `DivRoundByLastModulusNTT` -/

/-- one output row of `DivFloorByLastModulusNTT`, `N = 2^K ≥ 16` -/
theorem divFloorNTT_row (Ti : Tables) (K : ℕ) (hTi : Valid Ti K) (qi ql : ℕ)
    (hqi : Ti.q = qi) (hqi61 : qi < 2 ^ 61) (hql0 : 0 < ql) (hql61 : ql < 2 ^ 61)
    (hinv : (ql * invMod ql qi) % qi = 1) (X : List ℕ) (hX : X.length = 2 ^ K) :
    List.zipWith (divFloorLimb qi ql) (nttStd Ti (X.map (· % qi))) (nttStdLazy Ti (X.map (· % ql)))
      = nttStd Ti (X.map fun x => (x / ql) % qi) := by
  subst hqi
  have : Fact Ti.q.Prime := ⟨hTi.prime⟩
  have hq0 : 0 < Ti.q := hTi.q_pos
  obtain ⟨hc, hr⟩ := nttCoreLazy_big_all hTi ql (by unfold W; omega) (X.map (· % ql)) (by
    intro x hx; rw [List.mem_map] at hx; obtain ⟨y, _, rfl⟩ := hx; exact Nat.mod_lt _ hql0)
  have hmax : max ql (4 * Ti.q) ≤ 2 ^ 63 := Nat.max_le.2 ⟨by omega, by omega⟩
  rw [divNTT_core Ti K hTi ql X hX (· % Ti.q) (· % ql) (fun x => Nat.mod_lt _ hq0)
    (invMod_lt _ _ hq0) (nttStdLazy Ti (X.map (· % ql))) hc
    (fun y hy => by have := hr y hy; unfold W; omega)]
  congr 1
  apply List.map_congr_left
  intro x _
  exact divFloorRes_spec _ _ _ x hq0 hinv

/-- one entry of the input of the forward transform of ring `q_i` in `DivRoundByLastModulusNTT`:
`((x_ℓ + h) mod q_ℓ) + (q_i − h mod q_i)`, `h = (q_ℓ−1)/2`, no wrap -/
theorem roundInput_pt (qi ql : ℕ) (h1 : 1 < qi) (hqi61 : qi < 2 ^ 61) (hql0 : 0 < ql)
    (hql61 : ql < 2 ^ 61) (x : ℕ) :
    addscalarlazyvec_lane (roundLastLimb ql (x % ql)) (roundScalar qi ql) 0
      = (x % ql + half ql) % ql + (qi - half ql % qi) := by
  have hx : x % ql < ql := Nat.mod_lt _ hql0
  have hqlW : ql < W := by unfold W; omega
  have hqiW : qi < W := by unfold W; omega
  have hql2 : 2 * ql ≤ W := by unfold W; omega
  rw [roundLastLimb_spec ql _ hx hql2, roundScalar_spec qi ql h1 hqiW hql0 hqlW]
  have h3 : (x % ql + half ql) % ql < ql := Nat.mod_lt _ hql0
  have h4 : (x % ql + half ql) % ql + (qi - half ql % qi) < W := by unfold W; omega
  exact u64add_eq _ _ h4

theorem roundInput_eq (qi ql : ℕ) (h1 : 1 < qi) (hqi61 : qi < 2 ^ 61) (hql0 : 0 < ql)
    (hql61 : ql < 2 ^ 61) (X : List ℕ) :
    ((X.map (· % ql)).map (roundLastLimb ql)).map
        (fun x => addscalarlazyvec_lane x (roundScalar qi ql) 0)
      = X.map fun x => (x % ql + half ql) % ql + (qi - half ql % qi) := by
  induction X with
  | nil => simp only [List.map_nil]
  | cons x X ih =>
    simp only [List.map_cons, ih, roundInput_pt qi ql h1 hqi61 hql0 hql61 x]

/-- the residue formula on the shifted values is the residue of the rounded quotient -/
theorem divRoundRes_spec (qi ql c x : ℕ) (hqi : 0 < qi) (hc : (ql * c) % qi = 1) :
    divFloorRes qi c (x % qi) ((x % ql + half ql) % ql + (qi - half ql % qi))
      = ((x + half ql) / ql) % qi := by
  rw [← divFloorRes_spec qi ql c (x + half ql) hqi hc]
  apply natCast_inj_of_lt (divFloorRes_lt _ _ _ _ hqi) (divFloorRes_lt _ _ _ _ hqi)
  rw [divFloorRes_cast _ _ _ _ hqi, divFloorRes_cast _ _ _ _ hqi, Nat.mod_add_mod]
  congr 1
  have hle : half ql % qi ≤ qi := Nat.le_of_lt (Nat.mod_lt _ hqi)
  rw [Nat.cast_add, Nat.cast_sub hle, ZMod.natCast_self, ZMod.natCast_mod, ZMod.natCast_mod,
    ZMod.natCast_mod, Nat.cast_add]
  ring

/-- one output row of `DivRoundByLastModulusNTT`, `N = 2^K ≥ 16` -/
theorem divRoundNTT_row (Ti : Tables) (K : ℕ) (hTi : Valid Ti K) (qi ql : ℕ)
    (hqi : Ti.q = qi) (hqi61 : qi < 2 ^ 61) (hql0 : 0 < ql) (hql61 : ql < 2 ^ 61)
    (hinv : (ql * invMod ql qi) % qi = 1) (X : List ℕ) (hX : X.length = 2 ^ K) :
    List.zipWith (divFloorLimb qi ql) (nttStd Ti (X.map (· % qi)))
      (nttStdLazy Ti (((X.map (· % ql)).map (roundLastLimb ql)).map
        (fun x => addscalarlazyvec_lane x (roundScalar qi ql) 0)))
      = nttStd Ti (X.map fun x => ((x + half ql) / ql) % qi) := by
  subst hqi
  have : Fact Ti.q.Prime := ⟨hTi.prime⟩
  have hq0 : 0 < Ti.q := hTi.q_pos
  rw [roundInput_eq Ti.q ql hTi.prime.one_lt hqi61 hql0 hql61 X]
  obtain ⟨hc, hr⟩ := nttCoreLazy_big_all hTi (ql + Ti.q) (by unfold W; omega)
    (X.map fun x => (x % ql + half ql) % ql + (Ti.q - half ql % Ti.q)) (by
    intro x hx; rw [List.mem_map] at hx; obtain ⟨y, _, rfl⟩ := hx
    have : (y % ql + half ql) % ql < ql := Nat.mod_lt _ hql0
    omega)
  have hmax : max (ql + Ti.q) (4 * Ti.q) ≤ 2 ^ 63 := Nat.max_le.2 ⟨by omega, by omega⟩
  rw [divNTT_core Ti K hTi ql X hX (· % Ti.q)
    (fun x => (x % ql + half ql) % ql + (Ti.q - half ql % Ti.q)) (fun x => Nat.mod_lt _ hq0)
    (invMod_lt _ _ hq0)
    (nttStdLazy Ti (X.map fun x => (x % ql + half ql) % ql + (Ti.q - half ql % Ti.q))) hc
    (fun y hy => by have := hr y hy; unfold W; omega)]
  congr 1
  apply List.map_congr_left
  intro x _
  exact divRoundRes_spec _ _ _ x hq0 hinv

/-! ## the chain / table context -/

section
variable (T : Tabs) (qs : List ℕ) (level K : ℕ)

/-- the last row in the coefficient domain: the reducing `INTT` (repair C02-4 of /repo; before it the code
used `INTTLazy`, reduced only for `N ≥ 16`) returns the REDUCED residues, for every ring degree -/
theorem lastRow_intt (hC : Chain qs) (hl : level < qs.length)
    (hT : ∀ i, i ≤ level → Valid (tab T i) K ∧ (tab T i).q = modulus qs i)
    (p0 : Rows) (X : List ℕ) (hX : X.length = 2 ^ K)
    (hrows : ∀ i, i ≤ level → row p0 i = nttStd (tab T i) (X.map (· % modulus qs i))) :
    inttStd (tab T level) (row p0 level) = X.map (· % modulus qs level) := by
  obtain ⟨hTl, hql⟩ := hT level (Nat.le_refl _)
  have hp := (hC.prime _ (modulus_mem qs level hl)).pos
  rw [hrows level (Nat.le_refl _)]
  exact inttStd_nttStd hTl _ (by rw [List.length_map, hX, hTl.n_eq]) (by
    intro x hx; rw [List.mem_map] at hx; obtain ⟨y, _, rfl⟩ := hx
    rw [hql]; exact Nat.mod_lt _ hp)

/-- **`DivFloorByLastModulusNTT`, limb level = NTT of the integer quotient** (`N = 2^K ≥ 16`).  If row `i` of
`p0` is the (bit-exact) forward NTT of the residues `X mod q_i`, `i ≤ level`, then row `i < level` of the result
is, limb for limb, the forward NTT of `⌊x / q_level⌋ mod q_i`.  Every ring degree
`N = 2^K` (`nttCoreLazy_big_all`); false before repair C02-4 for `N < 16` (`divFloorNTT_small_ring_repaired`). -/
theorem divFloorNTT_limbs (hC : Chain qs) (hl : level < qs.length)
    (hT : ∀ i, i ≤ level → Valid (tab T i) K ∧ (tab T i).q = modulus qs i)
    (p0 : Rows) (X : List ℕ) (hX : X.length = 2 ^ K)
    (hrows : ∀ i, i ≤ level → row p0 i = nttStd (tab T i) (X.map (· % modulus qs i))) :
    divFloorNTT T qs level p0 = (List.range level).map fun i =>
      nttStd (tab T i) (X.map fun x => (x / modulus qs level) % modulus qs i) := by
  unfold divFloorNTT
  simp only []
  rw [lastRow_intt T qs level K hC hl hT p0 X hX hrows]
  apply List.map_congr_left
  intro i hi
  have hi' : i < level := List.mem_range.mp hi
  obtain ⟨hTi, hqi⟩ := hT i (Nat.le_of_lt hi')
  rw [hrows i (Nat.le_of_lt hi')]
  exact divFloorNTT_row (tab T i) K hTi _ _ hqi
    (hC.small _ (modulus_mem qs i (by omega)))
    (hC.prime _ (modulus_mem qs level hl)).pos (hC.small _ (modulus_mem qs level hl))
    (hC.inv i level (by omega) hl (by omega)).1 X hX

/-- **`DivRoundByLastModulusNTT`, limb level = NTT of the rounded quotient**
`⌊(x + (q_level−1)/2) / q_level⌋ mod q_i` (`N = 2^K ≥ 16`). -/
theorem divRoundNTT_limbs (hC : Chain qs) (hl : level < qs.length)
    (hT : ∀ i, i ≤ level → Valid (tab T i) K ∧ (tab T i).q = modulus qs i)
    (p0 : Rows) (X : List ℕ) (hX : X.length = 2 ^ K)
    (hrows : ∀ i, i ≤ level → row p0 i = nttStd (tab T i) (X.map (· % modulus qs i))) :
    divRoundNTT T qs level p0 = (List.range level).map fun i =>
      nttStd (tab T i)
        (X.map fun x => ((x + half (modulus qs level)) / modulus qs level) % modulus qs i) := by
  unfold divRoundNTT
  simp only []
  rw [lastRow_intt T qs level K hC hl hT p0 X hX hrows]
  apply List.map_congr_left
  intro i hi
  have hi' : i < level := List.mem_range.mp hi
  obtain ⟨hTi, hqi⟩ := hT i (Nat.le_of_lt hi')
  rw [hrows i (Nat.le_of_lt hi')]
  exact divRoundNTT_row (tab T i) K hTi _ _ hqi
    (hC.small _ (modulus_mem qs i (by omega)))
    (hC.prime _ (modulus_mem qs level hl)).pos (hC.small _ (modulus_mem qs level hl))
    (hC.inv i level (by omega) hl (by omega)).1 X hX

/-- rows of `r.INTT(p0, buff)` (the NON-lazy inverse transform, any `N`) -/
theorem inttRows_row (hC : Chain qs) (hl : level < qs.length)
    (hT : ∀ i, i ≤ level → Valid (tab T i) K ∧ (tab T i).q = modulus qs i)
    (p0 : Rows) (X : List ℕ) (hX : X.length = 2 ^ K)
    (hrows : ∀ i, i ≤ level → row p0 i = nttStd (tab T i) (X.map (· % modulus qs i)))
    (i : ℕ) (hi : i ≤ level) :
    row (inttRows T level p0) i = X.map (· % modulus qs i) := by
  obtain ⟨hTi, hqi⟩ := hT i hi
  have hp := (hC.prime _ (modulus_mem qs i (by omega))).pos
  unfold inttRows
  rw [row_map_range (level + 1) _ i (by omega), hrows i hi]
  exact inttStd_nttStd hTi _ (by rw [List.length_map, hX, hTi.n_eq]) (by
    intro x hx; rw [List.mem_map] at hx; obtain ⟨y, _, rfl⟩ := hx
    rw [hqi]; exact Nat.mod_lt _ hp)

/-- **`DivFloorByLastModulusManyNTT`, limb level** (any `N = 2^K`, every `nbRescales ≤ level`): no panic,
and row `i ≤ level − nb` of the result is the forward NTT of `⌊x / (q_level ⋯ q_{level−nb+1})⌋ mod q_i`. -/
theorem divFloorManyNTT_limbs (nb : ℕ) (hC : Chain qs) (hl : level < qs.length) (hnb : nb ≤ level)
    (hT : ∀ i, i ≤ level → Valid (tab T i) K ∧ (tab T i).q = modulus qs i)
    (p0 : Rows) (X : List ℕ) (hX : X.length = 2 ^ K)
    (hrows : ∀ i, i ≤ level → row p0 i = nttStd (tab T i) (X.map (· % modulus qs i))) :
    ∃ p1, divFloorManyNTT T qs level nb p0 = some p1 ∧ ∀ i, i ≤ level - nb →
      row p1 i = nttStd (tab T i) (X.map fun x => (x / lastProd qs level nb) % modulus qs i) := by
  unfold divFloorManyNTT
  by_cases h0 : nb = 0
  · subst h0
    refine ⟨p0.take (level + 1), by simp, ?_⟩
    intro i hi
    rw [row_take p0 (level + 1) i (by omega), hrows i (by omega)]
    simp [lastProd]
  · refine ⟨nttRows T (level - nb) (iterFloor qs nb level (inttRows T level p0)), ?_, ?_⟩
    · simp [h0, Nat.not_lt.mpr hnb]
    · intro i hi
      unfold nttRows
      rw [row_map_range (level - nb + 1) _ i (by omega),
        iterFloor_limbs qs hC nb level _ X hl hnb
          (inttRows_row T qs level K hC hl hT p0 X hX hrows) i hi]

/-- **`DivRoundByLastModulusManyNTT`, limb level** (every `nbRescales ≤ level`; the branch `nbRescales = 1` calls
`DivRoundByLastModulusNTT`, hence needs `N ≥ 16`; the other branches hold for any `N = 2^K`): no panic, and
row `i ≤ level − nb` of the result is the forward NTT of the `nb`-fold round-half-up quotient. -/
theorem divRoundManyNTT_limbs (nb : ℕ) (hC : Chain qs) (hl : level < qs.length)
    (hnb : nb ≤ level)
    (hT : ∀ i, i ≤ level → Valid (tab T i) K ∧ (tab T i).q = modulus qs i)
    (p0 : Rows) (X : List ℕ) (hX : X.length = 2 ^ K)
    (hrows : ∀ i, i ≤ level → row p0 i = nttStd (tab T i) (X.map (· % modulus qs i))) :
    ∃ p1, divRoundManyNTT T qs level nb p0 = some p1 ∧ ∀ i, i ≤ level - nb →
      row p1 i = nttStd (tab T i) (X.map fun x => roundSeq qs level nb x % modulus qs i) := by
  unfold divRoundManyNTT
  by_cases h0 : nb = 0
  · subst h0
    refine ⟨p0.take (level + 1), by simp, ?_⟩
    intro i hi
    simp only [roundSeq]
    rw [row_take p0 (level + 1) i (by omega), hrows i (by omega)]
  · by_cases h1 : nb = 1
    · subst h1
      refine ⟨divRoundNTT T qs level p0, by simp, ?_⟩
      intro i hi
      rw [divRoundNTT_limbs T qs level K hC hl hT p0 X hX hrows,
        row_map_range level _ i (by omega)]
      rfl
    · refine ⟨nttRows T (level - nb) (iterRound qs nb level (inttRows T level p0)), ?_, ?_⟩
      · simp [h0, h1, Nat.not_lt.mpr hnb]
      · intro i hi
        unfold nttRows
        rw [row_map_range (level - nb + 1) _ i (by omega),
          iterRound_limbs qs hC nb level _ X hl hnb
            (inttRows_row T qs level K hC hl hT p0 X hX hrows) i hi]

/-! ## corollaries: back in the coefficient domain -/

/-- `INTT_i(NTT_i(f(X) mod q_i)) = f(X) mod q_i` -/
theorem intt_ntt_residues (hC : Chain qs) (i : ℕ) (hi : i < qs.length)
    (hTi : Valid (tab T i) K ∧ (tab T i).q = modulus qs i) (X : List ℕ) (hX : X.length = 2 ^ K)
    (f : ℕ → ℕ) :
    inttStd (tab T i) (nttStd (tab T i) (X.map fun x => f x % modulus qs i))
      = X.map fun x => f x % modulus qs i := by
  obtain ⟨hTi, hqi⟩ := hTi
  have hp := (hC.prime _ (modulus_mem qs i hi)).pos
  exact inttStd_nttStd hTi _ (by rw [List.length_map, hX, hTi.n_eq]) (by
    intro x hx; rw [List.mem_map] at hx; obtain ⟨y, _, rfl⟩ := hx
    rw [hqi]; exact Nat.mod_lt _ hp)

/-- `INTT_i` of row `i < level` of `DivFloorByLastModulusNTT` = `⌊x / q_level⌋ mod q_i` -/
theorem divFloorNTT_coeffs (hC : Chain qs) (hl : level < qs.length)
    (hT : ∀ i, i ≤ level → Valid (tab T i) K ∧ (tab T i).q = modulus qs i)
    (p0 : Rows) (X : List ℕ) (hX : X.length = 2 ^ K)
    (hrows : ∀ i, i ≤ level → row p0 i = nttStd (tab T i) (X.map (· % modulus qs i)))
    (i : ℕ) (hi : i < level) :
    inttStd (tab T i) (row (divFloorNTT T qs level p0) i)
      = X.map fun x => (x / modulus qs level) % modulus qs i := by
  rw [divFloorNTT_limbs T qs level K hC hl hT p0 X hX hrows, row_map_range level _ i hi]
  exact intt_ntt_residues T qs K hC i (by omega) (hT i (by omega)) X hX _

/-- `INTT_i` of row `i < level` of `DivRoundByLastModulusNTT` = `⌊(x + (q_level−1)/2) / q_level⌋ mod q_i` -/
theorem divRoundNTT_coeffs (hC : Chain qs) (hl : level < qs.length)
    (hT : ∀ i, i ≤ level → Valid (tab T i) K ∧ (tab T i).q = modulus qs i)
    (p0 : Rows) (X : List ℕ) (hX : X.length = 2 ^ K)
    (hrows : ∀ i, i ≤ level → row p0 i = nttStd (tab T i) (X.map (· % modulus qs i)))
    (i : ℕ) (hi : i < level) :
    inttStd (tab T i) (row (divRoundNTT T qs level p0) i)
      = X.map fun x => ((x + half (modulus qs level)) / modulus qs level) % modulus qs i := by
  rw [divRoundNTT_limbs T qs level K hC hl hT p0 X hX hrows, row_map_range level _ i hi]
  exact intt_ntt_residues T qs K hC i (by omega) (hT i (by omega)) X hX _

/-- `INTT_i` of row `i ≤ level − nb` of `DivFloorByLastModulusManyNTT` -/
theorem divFloorManyNTT_coeffs (nb : ℕ) (hC : Chain qs) (hl : level < qs.length) (hnb : nb ≤ level)
    (hT : ∀ i, i ≤ level → Valid (tab T i) K ∧ (tab T i).q = modulus qs i)
    (p0 : Rows) (X : List ℕ) (hX : X.length = 2 ^ K)
    (hrows : ∀ i, i ≤ level → row p0 i = nttStd (tab T i) (X.map (· % modulus qs i))) :
    ∃ p1, divFloorManyNTT T qs level nb p0 = some p1 ∧ ∀ i, i ≤ level - nb →
      inttStd (tab T i) (row p1 i) = X.map fun x => (x / lastProd qs level nb) % modulus qs i := by
  obtain ⟨p1, h1, h2⟩ := divFloorManyNTT_limbs T qs level K nb hC hl hnb hT p0 X hX hrows
  refine ⟨p1, h1, fun i hi => ?_⟩
  rw [h2 i hi]
  exact intt_ntt_residues T qs K hC i (by omega) (hT i (by omega)) X hX _

/-- `INTT_i` of row `i ≤ level − nb` of `DivRoundByLastModulusManyNTT` -/
theorem divRoundManyNTT_coeffs (nb : ℕ) (hC : Chain qs)
    (hl : level < qs.length) (hnb : nb ≤ level)
    (hT : ∀ i, i ≤ level → Valid (tab T i) K ∧ (tab T i).q = modulus qs i)
    (p0 : Rows) (X : List ℕ) (hX : X.length = 2 ^ K)
    (hrows : ∀ i, i ≤ level → row p0 i = nttStd (tab T i) (X.map (· % modulus qs i))) :
    ∃ p1, divRoundManyNTT T qs level nb p0 = some p1 ∧ ∀ i, i ≤ level - nb →
      inttStd (tab T i) (row p1 i) = X.map fun x => roundSeq qs level nb x % modulus qs i := by
  obtain ⟨p1, h1, h2⟩ := divRoundManyNTT_limbs T qs level K nb hC hl hnb hT p0 X hX hrows
  refine ⟨p1, h1, fun i hi => ?_⟩
  rw [h2 i hi]
  exact intt_ntt_residues T qs K hC i (by omega) (hT i (by omega)) X hX _

end

/-! ## the small ring (`N = 8`) after repair C02-4 -/

theorem chain_97_193 : Chain [97, 193] :=
  ⟨by intro q hq; simp at hq; rcases hq with rfl | rfl <;> norm_num,
   by intro q hq; simp at hq; rcases hq with rfl | rfl <;> rfl,
   by intro q hq; simp at hq; rcases hq with rfl | rfl <;> norm_num,
   by decide⟩

/-- `N = 8` tables of `q = 97, 193` (`97 = 6·16+1`, `193 = 12·16+1`, `5` a primitive root of both) -/
theorem valid8_97 : Valid (mkTables 8 97 16 5) 3 :=
  (mkTables_valid 3 97 5 (by norm_num) (by decide) (by decide) (by decide +kernel)).1
theorem valid8_193 : Valid (mkTables 8 193 16 5) 3 :=
  (mkTables_valid 3 193 5 (by norm_num) (by decide) (by decide) (by decide +kernel)).1

/-- `N = 16` tables of `q = 97, 193` (`97 = 3·32+1`, `193 = 6·32+1`) -/
theorem valid16_97 : Valid (mkTables 16 97 32 5) 4 :=
  (mkTables_valid 4 97 5 (by norm_num) (by decide) (by decide) (by decide +kernel)).1
theorem valid16_193 : Valid (mkTables 16 193 32 5) 4 :=
  (mkTables_valid 4 193 5 (by norm_num) (by decide) (by decide) (by decide +kernel)).1

theorem tabs8_ok : ∀ i, i ≤ 1 → Valid (tab (mkTabs 8 [97, 193] [5, 5]) i) 3
    ∧ (tab (mkTabs 8 [97, 193] [5, 5]) i).q = modulus [97, 193] i
  | 0, _ => ⟨valid8_97, rfl⟩
  | 1, _ => ⟨valid8_193, rfl⟩
  | i + 2, h => absurd h (by omega)

theorem tabs16_ok : ∀ i, i ≤ 1 → Valid (tab (mkTabs 16 [97, 193] [5, 5]) i) 4
    ∧ (tab (mkTabs 16 [97, 193] [5, 5]) i).q = modulus [97, 193] i
  | 0, _ => ⟨valid16_97, rfl⟩
  | 1, _ => ⟨valid16_193, rfl⟩
  | i + 2, h => absurd h (by omega)

/-- **The small ring after repair C02-4.**  Before the repair `DivFloorByLastModulusNTT` fed the LAZY last row
(`INTTStandardLazy`, ring/ntt.go: `MRedLazy` for `N < 16`, values in `[1, 2q]`, `0 ↦ q`) to the other moduli and
returned `⌊x/q_ℓ⌋ − 1` (this very witness gave the constant `96 = −1 mod 97`; reproduced on /repo, and on the
conjugate-invariant ring for every `N`).  With the reducing `INTT` the witness — `N = 8`, `qs = [97, 193]`,
level 1, the ZERO polynomial in the NTT domain — gives
the zero polynomial.  (The limb theorems `divFloorNTT_limbs` / `divRoundNTT_limbs` now hold for every `K`, this witness included:
see the `K = 3` examples below.) -/
theorem divFloorNTT_small_ring_repaired :
    let T8 := mkTabs 8 [97, 193] [5, 5]
    let qs := [97, 193]
    let X := List.replicate 8 0
    let p0 : Rows := [nttStd (tab T8 0) (List.replicate 8 0), nttStd (tab T8 1) (List.replicate 8 0)]
    Chain qs ∧ 1 < qs.length
    ∧ (∀ i, i ≤ 1 → Valid (tab T8 i) 3 ∧ (tab T8 i).q = modulus qs i)
    ∧ X.length = 2 ^ 3
    ∧ (∀ i, i ≤ 1 → row p0 i = nttStd (tab T8 i) (X.map (· % modulus qs i)))
    ∧ (divFloorNTT T8 qs 1 p0).map (inttStd (tab T8 0)) = [List.replicate 8 0]
    ∧ divFloorNTT T8 qs 1 p0 = (List.range 1).map fun i =>
        nttStd (tab T8 i) (X.map fun x => (x / modulus qs 1) % modulus qs i) := by
  refine ⟨chain_97_193, by decide, tabs8_ok, rfl, ?_, by decide +kernel, by decide +kernel⟩
  intro i hi
  match i, hi with
  | 0, _ => decide +kernel
  | 1, _ => decide +kernel
  | i + 2, h => exact absurd h (by omega)

/-- the general theorems now cover the small ring: `N = 8` (`K = 3`), a NON-zero polynomial -/
def exX8 : List ℕ := (List.range 8).map fun j => 2000 * j + 193 * 5
def exT8 : Tabs := mkTabs 8 [97, 193] [5, 5]
def exP0_8 : Rows := [nttStd (tab exT8 0) (exX8.map (· % 97)), nttStd (tab exT8 1) (exX8.map (· % 193))]
theorem exP0_8_rows : ∀ i, i ≤ 1 → row exP0_8 i = nttStd (tab exT8 i) (exX8.map (· % modulus [97, 193] i))
  | 0, _ => rfl
  | 1, _ => rfl
  | i + 2, h => absurd h (by omega)
example : divFloorNTT exT8 [97, 193] 1 exP0_8 = [nttStd (tab exT8 0) (exX8.map fun x => (x / 193) % 97)] :=
  divFloorNTT_limbs exT8 [97, 193] 1 3 chain_97_193 (by decide) tabs8_ok exP0_8 exX8 rfl exP0_8_rows
example : divRoundNTT exT8 [97, 193] 1 exP0_8 = [nttStd (tab exT8 0) (exX8.map fun x => ((x + 96) / 193) % 97)] :=
  divRoundNTT_limbs exT8 [97, 193] 1 3 chain_97_193 (by decide) tabs8_ok exP0_8 exX8 rfl exP0_8_rows

/-! ## non-vacuity of the main theorems: `N = 16`, `qs = [97, 193]`, level 1 -/

/-- a test polynomial with 16 coefficients `< 97·193` -/
def exX : List ℕ := (List.range 16).map fun j => 1000 * j + 7
def exT16 : Tabs := mkTabs 16 [97, 193] [5, 5]
def exP0 : Rows := [nttStd (tab exT16 0) (exX.map (· % 97)), nttStd (tab exT16 1) (exX.map (· % 193))]

theorem exP0_rows : ∀ i, i ≤ 1 → row exP0 i = nttStd (tab exT16 i) (exX.map (· % modulus [97, 193] i))
  | 0, _ => by decide +kernel
  | 1, _ => by decide +kernel
  | i + 2, h => absurd h (by omega)

-- all hypotheses of `divFloorNTT_limbs` / `divRoundNTT_limbs` are met by a non-trivial instance
example : divFloorNTT exT16 [97, 193] 1 exP0
    = [nttStd (tab exT16 0) (exX.map fun x => (x / 193) % 97)] :=
  divFloorNTT_limbs exT16 [97, 193] 1 4 chain_97_193 (by decide) tabs16_ok exP0 exX rfl
    exP0_rows

example : divRoundNTT exT16 [97, 193] 1 exP0
    = [nttStd (tab exT16 0) (exX.map fun x => ((x + 96) / 193) % 97)] :=
  divRoundNTT_limbs exT16 [97, 193] 1 4 chain_97_193 (by decide) tabs16_ok exP0 exX rfl
    exP0_rows

example : ∃ p1, divFloorManyNTT exT16 [97, 193] 1 1 exP0 = some p1 ∧ ∀ i, i ≤ 1 - 1 →
    row p1 i = nttStd (tab exT16 i) (exX.map fun x => (x / lastProd [97, 193] 1 1) % modulus [97, 193] i) :=
  divFloorManyNTT_limbs exT16 [97, 193] 1 4 1 chain_97_193 (by decide) (by decide) tabs16_ok exP0 exX rfl
    exP0_rows

example : ∃ p1, divRoundManyNTT exT16 [97, 193] 1 1 exP0 = some p1 ∧ ∀ i, i ≤ 1 - 1 →
    row p1 i = nttStd (tab exT16 i) (exX.map fun x => roundSeq [97, 193] 1 1 x % modulus [97, 193] i) :=
  divRoundManyNTT_limbs exT16 [97, 193] 1 4 1 chain_97_193 (by decide) (by decide)
    tabs16_ok exP0 exX rfl exP0_rows

-- tests: the coefficient-domain view of the results on the instance (evaluated)
example : inttStd (tab exT16 0) (row (divFloorNTT exT16 [97, 193] 1 exP0) 0)
    = exX.map fun x => (x / 193) % 97 := by decide +kernel
example : inttStd (tab exT16 0) (row (divRoundNTT exT16 [97, 193] 1 exP0) 0)
    = exX.map fun x => ((x + 96) / 193) % 97 := by decide +kernel
-- test: the `Many` variants do NOT need `N ≥ 16` (non-lazy INTT): `N = 8`, zero polynomial, result `0`
example : (divFloorManyNTT (mkTabs 8 [97, 193] [5, 5]) [97, 193] 1 1
      [nttStd (tab (mkTabs 8 [97, 193] [5, 5]) 0) (List.replicate 8 0),
       nttStd (tab (mkTabs 8 [97, 193] [5, 5]) 1) (List.replicate 8 0)]).map
      (fun p => p.map (inttStd (tab (mkTabs 8 [97, 193] [5, 5]) 0)))
    = some [List.replicate 8 0] := by decide +kernel

-- test: at `N = 8` the ROUNDING variant on the zero polynomial
example : (divRoundNTT (mkTabs 8 [97, 193] [5, 5]) [97, 193] 1
      [nttStd (tab (mkTabs 8 [97, 193] [5, 5]) 0) (List.replicate 8 0),
       nttStd (tab (mkTabs 8 [97, 193] [5, 5]) 1) (List.replicate 8 0)]).map
      (inttStd (tab (mkTabs 8 [97, 193] [5, 5]) 0))
    = [List.replicate 8 0] := by decide +kernel

#print axioms divNTT_core
#print axioms divFloorNTT_row
#print axioms divRoundNTT_row
#print axioms divFloorNTT_limbs
#print axioms divRoundNTT_limbs
#print axioms divFloorManyNTT_limbs
#print axioms divRoundManyNTT_limbs
#print axioms divFloorNTT_coeffs
#print axioms divRoundNTT_coeffs
#print axioms divFloorManyNTT_coeffs
#print axioms divRoundManyNTT_coeffs
#print axioms divFloorNTT_small_ring_repaired

end Lattigo.Scaling
