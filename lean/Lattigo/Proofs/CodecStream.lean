/-
  C08 — transports that return short counts, `MarshalBinary`, and the field table.
    * `readFullLoop_flatten` / `decS_eq_dec`: a decoder whose fixed-width reads are `io.ReadFull`
      loops computes, on ANY sequence of short counts, what the flat decoder computes on the
      concatenation;
    * `readSingle_not_independent`: a single `Read` per block (the defect fixed by C08-B/C) does not;
    * `marshalBinary_exact`: `MarshalBinary` returns exactly the bytes `WriteTo` writes;
    * `fields_complete`: the field table has one Go field per leaf of every format.
-/
import Lattigo.Proofs.Codec

namespace Lattigo.Codec

/-! ### `io.ReadFull` over short counts -/

/-- `readFullLoop` is the `io.ReadFull` loop over `readOnce`. -/
theorem readFullLoop_step (n : Nat) (c : List Nat) (cs : List (List Nat)) :
    readFullLoop (n + 1) (c :: cs) =
      (if (readOnce (n + 1) (c :: cs)).1.length = n + 1 then
        some ((readOnce (n + 1) (c :: cs)).1, (readOnce (n + 1) (c :: cs)).2)
      else
        (readFullLoop (n + 1 - (readOnce (n + 1) (c :: cs)).1.length) (readOnce (n + 1) (c :: cs)).2).map
          (fun p => ((readOnce (n + 1) (c :: cs)).1 ++ p.1, p.2))) := by
  simp only [readFullLoop, readOnce]
  by_cases h : c.length ≤ n + 1
  · simp only [h, if_true]
    by_cases h2 : c.length = n + 1
    · simp [h2, readFullLoop]
    · simp only [h2, if_false]
      cases readFullLoop (n + 1 - c.length) cs <;> simp
  · simp only [h, if_false]
    have : (c.take (n + 1)).length = n + 1 := by simp; omega
    simp [this]

theorem readFlat_append_le (n : Nat) (c F : List Nat) (h : c.length ≤ n) :
    readFlat n (c ++ F) = (readFlat (n - c.length) F).map (fun p => (c ++ p.1, p.2)) := by
  unfold readFlat
  by_cases h2 : n - c.length ≤ F.length
  · have h3 : n ≤ (c ++ F).length := by simp; omega
    simp only [h2, h3, if_true, Option.map_some, Option.some.injEq, Prod.mk.injEq]
    constructor
    · rw [List.take_append, List.take_of_length_le h]
    · rw [List.drop_append, List.drop_of_length_le h, List.nil_append]
  · have h3 : ¬ n ≤ (c ++ F).length := by simp only [List.length_append]; omega
    simp only [h2, h3, if_false, Option.map_none]

theorem readFlat_append_gt (n : Nat) (c F : List Nat) (h : n < c.length) :
    readFlat n (c ++ F) = some (c.take n, c.drop n ++ F) := by
  unfold readFlat
  have h3 : n ≤ (c ++ F).length := by simp; omega
  have h0 : n - c.length = 0 := by omega
  simp only [h3, if_true, Option.some.injEq, Prod.mk.injEq]
  constructor
  · rw [List.take_append, h0, List.take_zero, List.append_nil]
  · rw [List.drop_append, h0, List.drop_zero]

/-- **`io.ReadFull` is independent of the short counts.** -/
theorem readFullLoop_flatten (n : Nat) (cs : List (List Nat)) :
    (readFullLoop n cs).map (fun p => (p.1, p.2.flatten)) = readFlat n cs.flatten := by
  induction cs generalizing n with
  | nil =>
    cases n with
    | zero => simp [readFullLoop, readFlat]
    | succ n => simp [readFullLoop, readFlat]
  | cons c cs ih =>
    cases n with
    | zero => simp [readFullLoop, readFlat]
    | succ n =>
      simp only [readFullLoop, List.flatten_cons]
      by_cases h : c.length ≤ n + 1
      · simp only [h, if_true]
        rw [readFlat_append_le (n + 1) c cs.flatten h, ← ih (n + 1 - c.length)]
        cases readFullLoop (n + 1 - c.length) cs <;> simp
      · simp only [h, if_false]
        rw [readFlat_append_gt (n + 1) c cs.flatten (by omega)]
        simp

/-- the decoder over short counts computes what the flat decoder computes on the concatenation. -/
theorem decS_eq_dec (f : Fmt) (cs : List (List Nat)) :
    (decS f cs).map (fun p => (p.1, p.2.flatten)) = dec f cs.flatten :=
  decG_hom readFullLoop readFlat List.flatten readFullLoop_flatten f cs

/-- a single `Read` per block is NOT independent of the short counts: the same two bytes, delivered
    in one piece or in two, decode to 258 or to 2. -/
theorem readSingle_not_independent :
    [[2, 1]].flatten = [[2], [1]].flatten ∧
    (decG readSingle u16 [[2, 1]]).map (fun p => p.1) = some (.num 258) ∧
    (decG readSingle u16 [[2], [1]]).map (fun p => p.1) = some (.num 2) := by
  refine ⟨rfl, rfl, rfl⟩

/-! ### `MarshalBinary` -/

/-- **`MarshalBinary` returns exactly what `WriteTo` writes**, `BinarySize()` bytes, for every
    value that has the shape of its type. -/
theorem marshalBinary_exact (f : Fmt) (v : Val) (h : Shape f v) :
    marshalBinary f v = some (enc f v) ∧ (enc f v).length = size f v := by
  have hs := size_exact_shape f v h
  refine ⟨?_, hs⟩
  simp [marshalBinary, hs]

/-! ### the field table -/

def fieldsOK (g : String) : Bool :=
  match goFields g with
  | some (ty, ser, _) =>
    match fmtOf ty with
    | some f => ser.length == leafCount f
    | none => false
  | none => false

/-- every serialisable Go type has a format, and its field list has exactly one Go field per
    value-carrying leaf of that format. -/
theorem fields_complete : ∀ g ∈ goTypes, fieldsOK g = true := by decide

end Lattigo.Codec
