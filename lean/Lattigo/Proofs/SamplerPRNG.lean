/-
  C17 — the keyed PRNG: reads are consecutive pieces of one stream, `Reset` and
  `NewKeyedPRNG(p.Key())` both replay it from the start.
-/
import Lattigo.Model.SamplerPRNG
namespace Lattigo.Sampler.PRNG

theorem read_pos (xof : XOF) (p : PRNG) (n : Nat) : (p.read xof n).2.pos = p.pos + n := rfl
theorem read_key (xof : XOF) (p : PRNG) (n : Nat) : (p.read xof n).2.key = p.key := rfl
theorem read_length (xof : XOF) (p : PRNG) (n : Nat) : (p.read xof n).1.length = n := by
  simp [read]

/-- a read is the piece `[pos, pos+n)` of the stream -/
theorem read_eq_stream (xof : XOF) (p : PRNG) (n : Nat) :
    (p.read xof n).1 = ((stream xof p (p.pos + n)).drop p.pos) := by
  unfold read stream
  apply List.ext_getElem
  · simp
  · intro i h1 h2
    simp only [List.getElem_map, List.getElem_range, List.getElem_drop]

/-- reading `a` then `b` bytes is reading `a + b` bytes -/
theorem read_read (xof : XOF) (p : PRNG) (a b : Nat) :
    (p.read xof a).1 ++ ((p.read xof a).2.read xof b).1 = (p.read xof (a + b)).1 ∧
    ((p.read xof a).2.read xof b).2 = (p.read xof (a + b)).2 := by
  constructor
  · unfold read
    simp only
    rw [List.range_add, List.map_append, List.map_map]
    congr 1
    apply List.map_congr_left
    intro i _
    simp [Nat.add_assoc]
  · simp [read, Nat.add_assoc]

/-- after `Reset()` the generator replays its stream from the start -/
theorem reset_replays (xof : XOF) (p : PRNG) (n : Nat) :
    (p.reset.read xof n).1 = stream xof p n := by
  simp [read, reset, stream]

/-- `NewKeyedPRNG(p.Key())` replays the stream of `p` from the start, whatever `p` has read -/
theorem rekey_replays (xof : XOF) (p : PRNG) (n : Nat) :
    ((new p.getKey).read xof n).1 = stream xof p n ∧ stream xof (new p.getKey) n = stream xof p n := by
  simp [read, new, getKey, stream]

/-- the key survives every operation, and a generator created from a key reports that key -/
theorem key_new (k : Bytes) : (new k).getKey = k := rfl
theorem key_read (xof : XOF) (p : PRNG) (n : Nat) : (p.read xof n).2.getKey = p.getKey := rfl
theorem key_reset (p : PRNG) : p.reset.getKey = p.getKey := rfl

end Lattigo.Sampler.PRNG
