/-
  C14 — the aggregate of the collective key-generation shares is EXACTLY the single-party key for the
  ideal secret `Σ s_i` with error `Σ e_i` (for every commutative ring).
-/
import Mathlib.Tactic.Ring
import Mathlib.Algebra.Ring.Hom.Defs
import Lattigo.Proofs.MPAgg

namespace Lattigo.MP

/-! ### generic list lemmas -/

section lists
variable {β γ δ ε : Type}

/-- adding two `map3`s over the same first two lists is `map3` over the added third lists -/
theorem map3_zipWith {ε' ε'' δ' δ'' : Type}
    (f : β → γ → δ → ε) (f' : β → γ → δ' → ε') (f'' : β → γ → δ'' → ε'')
    (g : ε → ε' → ε'') (h : δ → δ' → δ'')
    (hf : ∀ b c d d', g (f b c d) (f' b c d') = f'' b c (h d d')) :
    ∀ (B : List β) (C : List γ) (D : List δ) (D' : List δ'),
      List.zipWith g (map3 f B C D) (map3 f' B C D') = map3 f'' B C (List.zipWith h D D')
  | [], _, _, _ => by simp [map3]
  | _ :: _, [], _, _ => by simp [map3]
  | _ :: _, _ :: _, [], _ => by simp [map3]
  | _ :: _, _ :: _, _ :: _, [] => by simp [map3]
  | b :: B, c :: C, d :: D, d' :: D' => by
      simp [map3, hf, map3_zipWith f f' f'' g h hf B C D D']

end lists

section ring
variable {α : Type} [CommRing α]

/-! ### public key -/

theorem cpkShare_add (a s e s' e' : α) :
    cpkShare a s e + cpkShare a s' e' = cpkShare a (s + s') (e + e') := by
  unfold cpkShare; ring

theorem cpk_phase_single (a s e : α) : phase (cpkShare a s e) a s = e := by
  unfold phase cpkShare; ring

/-- fold of the shares of parties `(s_i, e_i)` = the single-party share of `(Σ s_i, Σ e_i)` -/
theorem cpk_fold (a : α) (p : α × α) (ps : List (α × α)) :
    aggList (cpkShare a p.1 p.2) (ps.map fun q => cpkShare a q.1 q.2) =
      cpkShare a (aggList p.1 (ps.map Prod.fst)) (aggList p.2 (ps.map Prod.snd)) := by
  unfold aggList
  induction ps generalizing p with
  | nil => rfl
  | cons q qs ih =>
    simp only [List.map_cons, List.foldl_cons, cpkShare_add]
    exact ih (p.1 + q.1, p.2 + q.2)

/-! ### evaluation key rows -/

theorem evkShareRow_add (a w so e si so' e' si' : α) :
    evkShareRow a so e w si + evkShareRow a so' e' w si' =
      evkShareRow a (so + so') (e + e') w (si + si') := by
  unfold evkShareRow; ring

theorem evk_row_phase (a w so e si : α) : phase (evkShareRow a so e w si) a so = w * si + e := by
  unfold phase evkShareRow; ring

/-- the value array written by `evkGenShare` -/
def evkVal (sIn sOut : α) (crp w e : Mat α) : Mat (List α) :=
  matMap3 (fun a w e => [evkShareRow a sOut e w sIn]) crp w e

theorem evkVal_add (sIn sOut sIn' sOut' : α) (crp w e e' : Mat α) :
    cubeAdd (evkVal sIn sOut crp w e) (evkVal sIn' sOut' crp w e') =
      evkVal (sIn + sIn') (sOut + sOut') crp w (matAdd e e') := by
  unfold evkVal matMap3 cubeAdd matAdd
  apply map3_zipWith
  intro ar wr er er'
  unfold vecAdd
  apply map3_zipWith
  intro a w e e'
  simp [evkShareRow_add]

/-! ### relinearisation key rows -/

theorem rkgRoundOneRow_add (a w s u e0 e1 s' u' e0' e1' : α) :
    vecAdd (rkgRoundOneRow a s u e0 e1 w) (rkgRoundOneRow a s' u' e0' e1' w) =
      rkgRoundOneRow a (s + s') (u + u') (e0 + e0') (e1 + e1') w := by
  unfold rkgRoundOneRow vecAdd
  simp only [List.zipWith_cons_cons, List.zipWith_nil_left, List.cons.injEq, and_true]
  constructor <;> ring

theorem rkgRoundTwoRow_add (h0 h1 s u e2 s' u' e2' : α) :
    rkgRoundTwoRow h0 h1 s u e2 + rkgRoundTwoRow h0 h1 s' u' e2' =
      rkgRoundTwoRow h0 h1 (s + s') (u + u') (e2 + e2') := by
  unfold rkgRoundTwoRow; ring

/-- After round two the key row `(r2, h1)` has phase `w·s² + s·E0 + u·E1 + E2` under `s`,
    where `(h0, h1)` is the aggregated round-one row for `(s, u, E0, E1)`. -/
theorem rkg_row_phase (a w s u E0 E1 E2 : α) :
    phase (rkgRoundTwoRow ((E0 + w * s) - u * a) (E1 + s * a) s u E2) (E1 + s * a) s =
      w * (s * s) + (s * E0 + u * E1 + E2) := by
  unfold phase rkgRoundTwoRow; ring

/-! ### sums along trees -/

theorem aggList_eq_sum (x : α) (xs : List α) : aggList x xs = (x :: xs).sum := by
  unfold aggList
  induction xs generalizing x with
  | nil => simp
  | cons y ys ih => rw [List.foldl_cons, ih]; simp [add_assoc]

theorem evk_tree_val (t : AggTree) (sIn sOut : Nat → α) (e : Nat → Mat α) (crp w : Mat α) :
    t.eval cubeAdd (fun i => evkVal (sIn i) (sOut i) crp w (e i)) =
      evkVal (t.eval (· + ·) sIn) (t.eval (· + ·) sOut) crp w (t.eval matAdd e) := by
  induction t with
  | leaf i => rfl
  | node l r ihl ihr => simp only [AggTree.eval, ihl, ihr, evkVal_add]

/-- an additive map commutes with aggregation along a tree -/
theorem tree_map_add (σ : α →+* α) (t : AggTree) (s : Nat → α) :
    t.eval (· + ·) (fun i => σ (s i)) = σ (t.eval (· + ·) s) := by
  induction t with
  | leaf i => rfl
  | node l r ihl ihr => simp only [AggTree.eval, ihl, ihr, map_add]

/-- value array of round one -/
def rkgVal1 (s u : α) (crp w : Mat α) (e : Mat (α × α)) : Mat (List α) :=
  matMap3 (fun a w (e : α × α) => rkgRoundOneRow a s u e.1 e.2 w) crp w e

def pairAdd (x y : α × α) : α × α := (x.1 + y.1, x.2 + y.2)

theorem rkgVal1_add (s u s' u' : α) (crp w : Mat α) (e e' : Mat (α × α)) :
    cubeAdd (rkgVal1 s u crp w e) (rkgVal1 s' u' crp w e') =
      rkgVal1 (s + s') (u + u') crp w (List.zipWith (List.zipWith pairAdd) e e') := by
  unfold rkgVal1 matMap3 cubeAdd
  apply map3_zipWith
  intro ar wr er er'
  apply map3_zipWith
  intro a w e e'
  simp [rkgRoundOneRow_add, pairAdd]

theorem rkg1_tree_val (t : AggTree) (s u : Nat → α) (e : Nat → Mat (α × α)) (crp w : Mat α) :
    t.eval cubeAdd (fun i => rkgVal1 (s i) (u i) crp w (e i)) =
      rkgVal1 (t.eval (· + ·) s) (t.eval (· + ·) u) crp w
        (t.eval (List.zipWith (List.zipWith pairAdd)) e) := by
  induction t with
  | leaf i => rfl
  | node l r ihl ihr => simp only [AggTree.eval, ihl, ihr, rkgVal1_add]

theorem zipWith_zipWith {β δ δ' δ'' ε ε' ε'' : Type}
    (f : β → δ → ε) (f' : β → δ' → ε') (f'' : β → δ'' → ε'')
    (g : ε → ε' → ε'') (h : δ → δ' → δ'')
    (hf : ∀ b d d', g (f b d) (f' b d') = f'' b (h d d')) :
    ∀ (B : List β) (D : List δ) (D' : List δ'),
      List.zipWith g (List.zipWith f B D) (List.zipWith f' B D') = List.zipWith f'' B (List.zipWith h D D')
  | [], _, _ => by simp
  | _ :: _, [], _ => by simp
  | _ :: _, _ :: _, [] => by simp
  | b :: B, d :: D, d' :: D' => by simp [hf, zipWith_zipWith f f' f'' g h hf B D D']

theorem rkgRoundTwoEntry_add (s u s' u' : α) (h : List α) (e2 e2' : α) :
    vecAdd (rkgRoundTwoEntry s u h e2) (rkgRoundTwoEntry s' u' h e2') =
      rkgRoundTwoEntry (s + s') (u + u') h (e2 + e2') := by
  match h with
  | [] => simp [rkgRoundTwoEntry, vecAdd]
  | [_] => simp [rkgRoundTwoEntry, vecAdd]
  | h0 :: h1 :: _ => simp [rkgRoundTwoEntry, vecAdd, rkgRoundTwoRow_add]

/-- value array of round two -/
def rkgVal2 (s u : α) (round1 : Mat (List α)) (e2 : Mat α) : Mat (List α) :=
  List.zipWith (List.zipWith (rkgRoundTwoEntry s u)) round1 e2

theorem rkgVal2_add (s u s' u' : α) (round1 : Mat (List α)) (e2 e2' : Mat α) :
    cubeAdd (rkgVal2 s u round1 e2) (rkgVal2 s' u' round1 e2') =
      rkgVal2 (s + s') (u + u') round1 (matAdd e2 e2') := by
  unfold rkgVal2 cubeAdd matAdd
  apply zipWith_zipWith
  intro hr er er'
  unfold vecAdd
  apply zipWith_zipWith
  intro h e e'
  exact rkgRoundTwoEntry_add s u s' u' h e e'

theorem rkg2_tree_val (t : AggTree) (s u : Nat → α) (e2 : Nat → Mat α) (round1 : Mat (List α)) :
    t.eval cubeAdd (fun i => rkgVal2 (s i) (u i) round1 (e2 i)) =
      rkgVal2 (t.eval (· + ·) s) (t.eval (· + ·) u) round1 (t.eval matAdd e2) := by
  induction t with
  | leaf i => rfl
  | node l r ihl ihr => simp only [AggTree.eval, ihl, ihr, rkgVal2_add]

end ring

/-! ### shapes -/

section shapes
variable {α : Type} [Add α] [Mul α] [Sub α]

theorem map3_singleton_length {β γ δ ε : Type} (f : β → γ → δ → ε) :
    ∀ (k : Nat) (a : List β) (w : List γ) (e : List δ), a.length = k → w.length = k → e.length = k →
      (map3 (fun a w e => [f a w e]) a w e).map List.length = List.replicate k 1
  | 0, a, _, _, ha, _, _ => by
      have : a = [] := List.length_eq_zero_iff.mp ha
      subst this; simp [map3]
  | k + 1, a :: as, w :: ws, e :: es, ha, hw, he => by
      simp only [List.length_cons, Nat.add_right_cancel_iff] at ha hw he
      simp [map3, List.replicate_succ, map3_singleton_length f k as ws es ha hw he]

theorem deg0_evkVal (sIn sOut : α) : ∀ (shape : List Nat) (crp w e : Mat α),
    shapeOf crp = shape → shapeOf w = shape → shapeOf e = shape →
    Deg0 shape (matMap3 (fun a w e => [evkShareRow a sOut e w sIn]) crp w e)
  | [], crp, _, _, hc, _, _ => by
      have : crp = [] := by simpa [shapeOf] using hc
      subst this; simp [Deg0, matMap3, map3]
  | k :: shape, c :: crp, w :: ws, e :: es, hc, hw, he => by
      simp only [shapeOf, List.map_cons, List.cons.injEq] at hc hw he
      have ih := deg0_evkVal sIn sOut shape crp ws es hc.2 hw.2 he.2
      simp only [Deg0, matMap3] at ih
      simp only [Deg0, matMap3, map3, List.map_cons, List.cons.injEq]
      exact ⟨map3_singleton_length _ k c w e hc.1 hw.1 he.1, ih⟩

/-- `evkGenShare` succeeds on well-formed inputs and writes `evkVal`-shaped data of degree zero -/
theorem evkGenShare_ok (skInLvl skOutLvl : Nat) (skInLvlP skOutLvlP : Int) (sIn sOut : α)
    (crp w e : Mat α) (out : GShare α)
    (hl : out.levelQ ≤ min skInLvl skOutLvl) (hlp : out.levelP ≤ min skInLvlP skOutLvlP)
    (hs : shapeOf out.val = shapeOf crp) :
    evkGenShare skInLvl skOutLvl skInLvlP skOutLvlP sIn sOut crp w e out =
      .ok { out with val := matMap3 (fun a w e => [evkShareRow a sOut e w sIn]) crp w e } := by
  have hlen : out.val.length = crp.length := by
    have := congrArg List.length hs
    simpa [shapeOf] using this
  simp [evkGenShare, Nat.not_lt.mpr hl, Int.not_lt.mpr hlp, hlen, hs]

/-! ### `GenEvaluationKey` copies every row -/

omit [Add α] [Mul α] [Sub α] in
theorem keyRow_ok : ∀ (k : Nat) (m : List (List α)) (p : List α) (kk : List (List α)),
    m.map List.length = List.replicate k 1 → p.length = k → kk.map List.length = List.replicate k 2 →
    keyRow m p kk = some (List.zipWith (fun m a => [m.headD a, a]) m p)
  | 0, m, p, kk, hm, hp, hk => by
      have : m = [] := by simpa using hm
      subst this
      have : kk = [] := by simpa using hk
      subst this
      simp [keyRow]
  | k + 1, m :: ms, p :: ps, e :: es, hm, hp, hk => by
      simp only [List.map_cons, List.replicate_succ, List.cons.injEq, List.length_cons,
        Nat.add_right_cancel_iff] at hm hp hk
      obtain ⟨m0, rfl⟩ := List.length_eq_one_iff.mp hm.1
      obtain ⟨b, a, rfl⟩ := List.length_eq_two.mp hk.1
      simp [keyRow, setKeyEntry, keyRow_ok k ms ps es hm.2 hp hk.2]

omit [Add α] [Mul α] [Sub α] in
/-- for ANY decomposition shape (ragged or not) -/
theorem keyRows_ok : ∀ (shape : List Nat) (m : Mat (List α)) (p : Mat α) (kk : Mat (List α)),
    Deg0 shape m → shapeOf p = shape →
    kk.map (fun row => row.map List.length) = shape.map (fun k => List.replicate k 2) →
    keyRows m p kk = some (evkAssemble m p)
  | [], m, p, kk, hm, _, hk => by
      have : m = [] := by simpa [Deg0] using hm
      subst this
      have : kk = [] := by simpa using hk
      subst this
      simp [keyRows, evkAssemble]
  | k :: shape, m :: ms, p :: ps, e :: es, hm, hp, hk => by
      simp only [Deg0, shapeOf, List.map_cons, List.cons.injEq] at hm hp hk
      have h1 := keyRow_ok k m p e hm.1 hp.1 hk.1
      have h2 := keyRows_ok shape ms ps es (by simpa [Deg0] using hm.2) (by simpa [shapeOf] using hp.2) hk.2
      simp [keyRows, h1, h2, evkAssemble]

end shapes

end Lattigo.MP
