/-
  C09 — frame and history-freeness as GENERAL theorems over the program syntax of the Store model:
    * `writesWithin_frame`: a program all of whose steps write into objects of a list leaves every other object intact;
      `modelled_frame`: every modelled operation (`Op.prog`, any assignment of objects to the roles — not only the five
      aliasing patterns — any scale comparison, any `n`, any number of digits) writes only the receiver and the
      evaluator / encryptor / decryptor / protocol buffers; the degree-aware programs likewise, for EVERY degree.
    * `readsFrom_history_free`: a program each step of which reads only input objects or locations written by an
      earlier step computes, in every location it writes, a value that depends on the input objects only — not on
      the previous content of the receiver or of any buffer; `modelled_history_free` instantiates it for every
      modelled operation.
-/
import Lattigo.Proofs.StorePTS
import Lattigo.Proofs.StoreMeta

set_option linter.unusedSimpArgs false
set_option linter.unusedVariables false
namespace Lattigo.Store

variable {α : Type}

/-! ## frame -/

/-- every step writes into one of the listed objects (decidable on the syntax) -/
def Prog.writesWithin (objs : List Nat) (p : Prog) : Bool := p.all fun s => objs.contains s.dst.obj

theorem writesWithin_frame (I : Interp α) (p : Prog) (objs : List Nat) (h : p.writesWithin objs = true)
    (σ : Store α) (x : Loc) (hx : x.obj ∉ objs) : run I p σ x = σ x := by
  apply run_frame
  intro s hs e
  unfold Prog.writesWithin at h
  rw [List.all_eq_true] at h
  have := h s hs
  rw [e] at this
  exact hx (by simpa using this)

theorem writesWithin_append (objs : List Nat) (p q : Prog) :
    (p ++ q).writesWithin objs = (p.writesWithin objs && q.writesWithin objs) := by
  simp [Prog.writesWithin, List.all_append]

theorem writesWithin_of_forall (objs : List Nat) (p : Prog) (h : ∀ s ∈ p, s.dst.obj ∈ objs) :
    p.writesWithin objs = true := by
  unfold Prog.writesWithin
  rw [List.all_eq_true]
  intro s hs
  simpa using h s hs

/-- the buffers of the evaluators, of the encryptor, of the decryptor and of the key-generation protocol -/
def scratchObjs : List Nat := [bq, bqp, bct, bqm, heapTmp, encBuf, decBuf, protoBuf]

theorem ptsLoop_writes (o n : Nat) (fuel i j : Nat) (cp stt : Bool) :
    (ptsLoop o n fuel i j cp stt).writesWithin (o :: scratchObjs) = true := by
  apply writesWithin_of_forall
  intro s hs
  rcases ptsLoop_dst o n fuel i j cp stt s hs with h | h | h <;> rw [h] <;> simp [scratchObjs]

theorem evkDigits_writes (hasP : Bool) (skOut o work : Nat) (js : List Nat) :
    ∀ s ∈ js.flatMap (evkDigit hasP skOut o work), s.dst.obj = o ∨ s.dst.obj = work := by
  intro s hs
  rw [List.mem_flatMap] at hs
  obtain ⟨j, _, hj⟩ := hs
  unfold evkDigit at hj
  cases hasP <;> simp [L, st] at hj <;>
    (rcases hj with rfl | rfl | rfl | rfl | rfl | rfl | rfl <;> simp)

set_option maxHeartbeats 1000000 in
theorem modelled_frame (I : Interp α) (op : Op) (p : Pat) (σ : Store α) :
    (op.prog I p σ).writesWithin (p.out :: scratchObjs) = true := by
  cases op
  case rlwePTS n =>
    simp only [Op.prog, Op.metaProg, Op.valueProg, rlwePTSProg, List.nil_append, writesWithin_append]
    rw [Bool.and_eq_true]
    constructor
    · simp (config := {decide := true}) [Prog.writesWithin, scratchObjs, L, st, bct]
    · split
      · split <;> simp (config := {decide := true}) [Prog.writesWithin, L, st]
      · exact ptsLoop_writes _ _ _ _ _ _ _
  case evkGenShare hasP digits =>
    apply writesWithin_of_forall
    intro s hs
    simp only [Op.prog, Op.metaProg, Op.valueProg, evkGenShareProg, List.nil_append, List.mem_append] at hs
    rcases hs with hs | hs
    · cases hasP <;> simp [L, st] at hs <;> subst hs <;> simp [scratchObjs, protoBuf]
    · rcases evkDigits_writes _ _ _ _ _ s hs with h | h <;> rw [h] <;> simp [scratchObjs, protoBuf]
  case ckksEval =>
    simp only [Op.prog, Op.metaProg, Op.valueProg, ckksEvalProg]
    generalize I.cmp _ _ = c
    cases c <;> (repeat' split) <;>
      simp_all (config := {decide := true}) [Prog.writesWithin, initBinaryMeta, ckksMulInt, scratchObjs, L, st, bct]
  all_goals
    simp only [Op.prog, Op.metaProg, Op.valueProg, ckksMulRelinProg, bgvTensorStandardProg, tensorProg, bgvTensorSIProg,
      bgvMatchScaleProg, bgvAddBigProg, bgvMulBigProg, rlweAutProg, divRoundProg, divRoundNTTProg, encryptSkProg,
      decryptProg, ckgGenShareProg, initBinaryMeta, initUnaryMeta]
    (repeat' split) <;>
      simp_all (config := {decide := true}) [Prog.writesWithin, scratchObjs, L, st, bq, bqp, bct, bqm, heapTmp, encBuf,
        decBuf, protoBuf]

/-- the corollary in the shape of the property text: whatever objects play the roles, whatever the store, every
    location outside the receiver and the buffers is unchanged by a modelled operation -/
theorem modelled_inputs_unchanged (I : Interp α) (op : Op) (p : Pat) (σ : Store α) (x : Loc)
    (hx : x.obj ≠ p.out) (hs : x.obj ∉ scratchObjs) : op.exec I p σ x = σ x := by
  unfold Op.exec
  apply writesWithin_frame I _ _ (modelled_frame I op p σ)
  simp only [List.mem_cons, not_or]
  exact ⟨hx, by simpa [List.mem_cons] using hs⟩

/-! ### degree-aware programs: EVERY degree -/

theorem map_writes (objs : List Nat) (l : List Nat) (f : Nat → Step) (h : ∀ i, (f i).dst.obj ∈ objs) :
    Prog.writesWithin objs (l.map f) = true := by
  apply writesWithin_of_forall
  intro s hs
  rw [List.mem_map] at hs
  obtain ⟨i, _, rfl⟩ := hs
  exact h i

theorem resizeSteps_writes (o d degree : Nat) (objs : List Nat) (ho : o ∈ objs) :
    Prog.writesWithin objs (resizeSteps o d degree) = true := by
  unfold resizeSteps
  exact map_writes objs _ _ (fun _ => ho)

theorem ckksScaleInto_writes (src dst d : Nat) (b : Bool) (objs : List Nat) (hd : dst ∈ objs) :
    Prog.writesWithin objs (ckksScaleInto src dst d b) = true := by
  unfold ckksScaleInto
  rw [writesWithin_append, map_writes objs _ _ (fun _ => hd)]
  cases b <;> simp [Prog.writesWithin, L, st, hd]

theorem ckksAlign_writes (p : Pat) (d0 d1 : Nat) (cmp : Ordering) :
    Prog.writesWithin (p.out :: scratchObjs) (ckksAlign p d0 d1 cmp).1 = true := by
  have hb : bct ∈ p.out :: scratchObjs := by simp [scratchObjs]
  have ho : p.out ∈ p.out :: scratchObjs := by simp
  unfold ckksAlign
  cases cmp <;> simp only [] <;> (repeat' split) <;>
    simp only [writesWithin_append, Bool.and_eq_true] <;>
    (repeat' constructor) <;>
    first
      | exact ckksScaleInto_writes _ _ _ _ _ hb
      | exact ckksScaleInto_writes _ _ _ _ _ ho
      | (rename_i h; rw [← h]; exact ckksScaleInto_writes _ _ _ _ _ ho)
      | (rename_i h _; rw [← h]; exact ckksScaleInto_writes _ _ _ _ _ ho)
      | simp (config := {decide := true}) [Prog.writesWithin, L, st, scratchObjs, bct]

/-- ckks.Add / ckks.Sub with an element operand, EVERY degree of the operands and of the receiver, every assignment
    of objects to the roles: only the receiver and BuffCt are written -/
theorem ckksAddProg_frame (sub : Bool) (p : Pat) (deg : Nat → Nat) (cmp : Ordering) :
    Prog.writesWithin (p.out :: scratchObjs) (ckksAddProg sub p deg cmp) = true := by
  have ho : p.out ∈ p.out :: scratchObjs := by simp
  unfold ckksAddProg
  simp only [writesWithin_append, Bool.and_eq_true]
  refine ⟨⟨⟨⟨⟨resizeSteps_writes _ _ _ _ ho, ckksAlign_writes _ _ _ _⟩, map_writes _ _ _ (fun _ => ho)⟩, ?_⟩, ?_⟩, ?_⟩
  · simp [Prog.writesWithin, L, st]
  · split
    · exact map_writes _ _ _ (fun _ => ho)
    · split
      · exact map_writes _ _ _ (fun _ => ho)
      · rfl
  · split
    · exact map_writes _ _ _ (fun _ => ho)
    · rfl

theorem tensorProg_frame (pre : Fn) (relin : Bool) (p : Pat) :
    Prog.writesWithin (p.out :: scratchObjs) (tensorProg pre relin p) = true := by
  unfold tensorProg
  cases relin <;> simp only [] <;> (repeat' split) <;>
    simp_all (config := {decide := true}) [Prog.writesWithin, scratchObjs, L, st, bq, bqp]

/-- ckks.mulRelin / bgv.tensorStandard (HEAD and the code before commit e9e846c), EVERY degree: whenever a program is
    produced it writes only the receiver and the buffers -/
theorem tensorGenD_frame (bgv relin : Bool) (p : Pat) (deg : Nat → Nat) (prog : Prog) (d : Nat)
    (h : tensorGenD bgv relin p deg = .ok (prog, d)) : Prog.writesWithin (p.out :: scratchObjs) prog = true := by
  have ho : p.out ∈ p.out :: scratchObjs := by simp
  have hq : bq ∈ p.out :: scratchObjs := by simp [scratchObjs]
  unfold tensorGenD at h
  simp only at h
  (repeat' split at h) <;> (try cases h) <;>
    simp only [writesWithin_append, Bool.and_eq_true] <;>
    (repeat' constructor) <;>
    first
      | exact resizeSteps_writes _ _ _ _ ho
      | exact tensorProg_frame _ _ _
      | exact map_writes _ _ _ (fun _ => ho)
      | rfl
      | simp (config := {decide := true}) [Prog.writesWithin, scratchObjs, L, st, bq]

theorem tensorGenDFixed_frame (bgv relin : Bool) (p : Pat) (deg : Nat → Nat) (prog : Prog) (d : Nat)
    (h : tensorGenDFixed bgv relin p deg = .ok (prog, d)) : Prog.writesWithin (p.out :: scratchObjs) prog = true := by
  have ho : p.out ∈ p.out :: scratchObjs := by simp
  unfold tensorGenDFixed at h
  split at h
  · cases h
    simp only [writesWithin_append, Bool.and_eq_true]
    refine ⟨?_, tensorProg_frame _ _ _⟩
    split <;> exact resizeSteps_writes _ _ _ _ ho
  · exact tensorGenD_frame bgv relin p deg prog d h

/-! ## history-freeness from the syntax -/

/-- every step reads only objects of `ins` or locations written by an earlier step (`w` = written so far) -/
def Prog.readsFrom (ins : List Nat) : List Loc → Prog → Bool
  | _, [] => true
  | w, s :: p => s.args.all (fun a => ins.contains a.obj || w.contains a) && Prog.readsFrom ins (s.dst :: w) p

theorem readsFrom_Reads (ins : List Nat) : ∀ (p : Prog) (w : List Loc), Prog.readsFrom ins w p = true →
    Reads (fun x => x.obj ∈ ins ∨ x ∈ w) p
  | [], _, _ => trivial
  | s :: p, w, h => by
    simp only [Prog.readsFrom, Bool.and_eq_true, List.all_eq_true] at h
    refine ⟨fun a ha => ?_, ?_⟩
    · have := h.1 a ha
      simpa using this
    · refine Reads_mono p _ _ ?_ (readsFrom_Reads ins p (s.dst :: w) h.2)
      intro x hx
      rcases hx with hx | hx
      · exact Or.inl (Or.inl hx)
      · rcases List.mem_cons.mp hx with rfl | hx
        · exact Or.inr rfl
        · exact Or.inl (Or.inr hx)

/-- GENERAL HISTORY-FREENESS: if every step of a program reads only input objects or what an earlier step wrote,
    then two runs from stores that agree on the input objects agree on every location the program writes — the
    previous content of the receiver and of every buffer is irrelevant. -/
theorem readsFrom_history_free (I : Interp α) (p : Prog) (ins : List Nat) (h : Prog.readsFrom ins [] p = true)
    (σ σ' : Store α) (hagree : ∀ x : Loc, x.obj ∈ ins → σ x = σ' x) (x : Loc) (hx : Written p x) :
    run I p σ x = run I p σ' x := by
  have hr := readsFrom_Reads ins p [] h
  refine run_sim_id I p _ σ σ' hr ?_ x (Or.inr hx)
  intro y hy
  rcases hy with hy | hy
  · exact hagree y hy
  · cases hy

/-- the input objects of a call -/
def Pat.ins (p : Pat) : List Nat := [p.op0, p.op1, bigArg, crpArg]

set_option maxHeartbeats 2000000 in
/-- every modelled operation with a fixed program (all but PartialTracesSum, whose general-`n` statement is
    `rlwePTS_history_free`, and EvaluationKeyGenProtocol.GenShare with more than 3 digits), under every aliasing
    pattern and every outcome of the scale comparison, reads only its inputs or what it wrote before -/
theorem modelled_readsFrom (I : Interp α) (op : Op) (hop : ∀ n, op ≠ .rlwePTS n)
    (hev : ∀ b d, op = .evkGenShare b d → d ≤ 3) (al : Alias) (σ : Store α) :
    Prog.readsFrom al.pat.ins [] (op.prog I al.pat σ) = true := by
  cases op
  case rlwePTS n => exact absurd rfl (hop n)
  case evkGenShare b d =>
    have := hev b d rfl
    have hd : d = 0 ∨ d = 1 ∨ d = 2 ∨ d = 3 := by omega
    rcases hd with rfl | rfl | rfl | rfl <;> cases b <;> cases al <;>
      simp only [Op.prog, Op.metaProg, Op.valueProg] <;> decide
  case ckksEval =>
    simp only [Op.prog, Op.metaProg, Op.valueProg]
    generalize I.cmp _ _ = c
    cases c <;> cases al <;> decide
  case decrypt b => cases b <;> cases al <;> simp only [Op.prog, Op.metaProg, Op.valueProg] <;> decide
  all_goals cases al <;> simp only [Op.prog, Op.metaProg, Op.valueProg] <;> decide

/-- HISTORY-FREENESS of every such operation: the fields it writes depend on the input objects only -/
theorem modelled_history_free (I : Interp α) (op : Op) (hop : ∀ n, op ≠ .rlwePTS n)
    (hev : ∀ b d, op = .evkGenShare b d → d ≤ 3) (al : Alias) (σ σ' : Store α)
    (hagree : ∀ x : Loc, x.obj ∈ al.pat.ins → σ x = σ' x) (x : Loc)
    (hx : Written (op.prog I al.pat σ) x) : op.exec I al.pat σ x = op.exec I al.pat σ' x := by
  have hprog : op.prog I al.pat σ' = op.prog I al.pat σ := by
    cases op <;> try rfl
    -- ckksEval: the comparison reads the scales of the operands, which are inputs
    simp only [Op.prog, Op.valueProg]
    rw [hagree (L al.pat.op0 fScale) (by simp [Pat.ins, L]), hagree (L al.pat.op1 fScale) (by simp [Pat.ins, L])]
  unfold Op.exec
  rw [hprog]
  exact readsFrom_history_free I _ _ (modelled_readsFrom I op hop hev al σ) σ σ' hagree x hx

/-- the in-place variant of EvaluationKeyGenProtocol.GenShare (shape of a seeded regression) rewrites the caller's
    secret key: `inputs_unchanged` is not vacuous for the protocol programs -/
theorem evkGenShareInPlace_inputs_counterexample :
    ∃ σ : Store Int, run intI (evkGenShareProgInPlace 1 Alias.distinct.pat) σ (L 0 0) ≠ σ (L 0 0) :=
  ⟨testStore, by decide⟩

end Lattigo.Store
