/-
  C17 — known finding C17/ternary-ky-sign-bit-reused: in `kysampling` the sign bit of a
  coefficient is ALSO the first random bit of the next coefficient's Knuth–Yao walk.
-/
import Lattigo.Proofs.SamplerTernary
namespace Lattigo.Sampler
open Lattigo Lattigo.Gen

/-- the bit of the random buffer the walk looks at -/
def kyBit (k : KY) (i : Nat) : Nat := u64and (u64shr (k.rb.getD k.bp 0) i) 1

/-- a hit at bit `i < 7` takes the sign from bit `i+1` and hands back the pointer `i+1`:
    the state is unchanged and the next walk starts ON the sign bit -/
theorem kyHit_reuses (N row i : Nat) (k : KY) (hi : i < 7) :
    kyHit N row i k = .ok (row, kyBit k (i + 1), i + 1, k) := by
  unfold kyHit kyBit
  rw [if_neg (by omega)]

/-- a walk that starts (fresh: `d = 0`, `col = 0`) on a bit equal to 1 ends at once, in the row
    decided by the first column of the matrix -/
theorem kyWalk_first_bit_one (M : List Nat × List Nat) (N fuel p : Nat) (k : KY) (hp : p < 8)
    (hbit : kyBit k p = 1) (hM : M.2.getD 0 0 = 1) :
    kyWalk M N (fuel + 1) p 0 0 k = kyHit N 1 p k := by
  unfold kyWalk
  rw [if_neg (by omega)]
  unfold kyBit at hbit
  simp only [hbit, hM]
  rw [if_neg (by unfold ternPrec; omega)]
  simp

/-- **witness.**  Whenever a coefficient's sign bit is 1 (the coefficient, if non-zero, is −1)
    and was not the last bit of its byte, the NEXT coefficient is non-zero with certainty for every
    density whose matrix has `M.2[0] = 1` (i.e. `P ≥ 1/2`, e.g. `rlwe.DefaultXs = Ternary{P: 2/3}`):
    its walk returns row 1 on the very bit that was the sign, whatever the other random bits. -/
theorem ky_sign_bit_reused (M : List Nat × List Nat) (N fuel row i : Nat) (k : KY) (hi : i < 7)
    (hM : M.2.getD 0 0 = 1) (hsign : kyBit k (i + 1) = 1) :
    ∃ sg p k', kyHit N row i k = .ok (row, sg, p, k') ∧ sg = 1 ∧
      kyWalk M N (fuel + 1) p 0 0 k' = kyHit N 1 p k' :=
  ⟨kyBit k (i + 1), i + 1, k, kyHit_reuses N row i k hi, hsign,
    kyWalk_first_bit_one M N fuel (i + 1) k (by omega) hsign hM⟩

end Lattigo.Sampler
