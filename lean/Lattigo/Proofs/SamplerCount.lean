/-
  C17 — the counting statement behind rejection sampling under a power-of-two mask: every
  residue has the same number of 64-bit preimages under `w ↦ w & mask`, so conditioning on
  acceptance (`w & mask < q`) maps uniform words to uniform residues.  No probability theory.
-/
import Lattigo.Model.Sampler
import Mathlib.Data.Finset.Card
import Mathlib.Data.Finset.Image
import Mathlib.Data.Finset.Range
import Mathlib.Tactic.Ring
import Mathlib.Tactic.Linarith
namespace Lattigo.Sampler
open Lattigo Finset

/-- among the `d*m` first naturals exactly `m` are `≡ r (mod d)` (`r < d`) -/
theorem card_filter_mod (d m r : Nat) (hr : r < d) :
    ((range (d * m)).filter (fun w => w % d = r)).card = m := by
  have hd : 0 < d := by omega
  have himg : (range (d * m)).filter (fun w => w % d = r) = (range m).image (fun t => r + d * t) := by
    ext w
    simp only [mem_filter, mem_range, mem_image]
    constructor
    · rintro ⟨hw, hm⟩
      refine ⟨w / d, ?_, ?_⟩
      · exact (Nat.div_lt_iff_lt_mul hd).mpr (by rw [Nat.mul_comm]; exact hw)
      · have := Nat.div_add_mod w d
        rw [hm] at this
        omega
    · rintro ⟨t, ht, rfl⟩
      constructor
      · calc r + d * t < d + d * t := by omega
          _ = d * (t + 1) := by ring
          _ ≤ d * m := Nat.mul_le_mul_left d ht
      · rw [Nat.add_mul_mod_self_left, Nat.mod_eq_of_lt hr]
  rw [himg, card_image_of_injective, card_range]
  intro a b hab
  simp only at hab
  have : d * a = d * b := by omega
  exact Nat.eq_of_mul_eq_mul_left hd this

/-- `len64 x` bits are enough for `x` -/
theorem lt_two_pow_len64 (x : Nat) : x < 2 ^ len64 x := by
  unfold len64
  split
  · rename_i h; subst h; decide
  · rename_i h
    exact Nat.lt_log2_self

/-- the mask of a modulus `1 ≤ q ≤ 2^63`: `2^k - 1` with `k = bits.Len64(q-1)`, and `q ≤ 2^k` -/
theorem maskOf_eq (q : Nat) (hq : 0 < q) (hq' : q ≤ 2 ^ 63) :
    maskOf q = 2 ^ len64 (q - 1) - 1 ∧ q ≤ 2 ^ len64 (q - 1) ∧ len64 (q - 1) ≤ 63 := by
  have hW : W = 2 ^ 64 := W_eq
  have hlt := lt_two_pow_len64 (q - 1)
  have hk : len64 (q - 1) ≤ 63 := by
    unfold len64
    split
    · omega
    · rename_i h
      have : Nat.log2 (q - 1) < 63 := by
        apply (Nat.log2_lt h).mpr
        omega
      omega
  have hp : 2 ^ len64 (q - 1) ≤ 2 ^ 63 := Nat.pow_le_pow_right (by decide) hk
  have hp1 : 0 < 2 ^ len64 (q - 1) := Nat.two_pow_pos _
  have h63 : (2:Nat) ^ 63 = 9223372036854775808 := by norm_num
  refine ⟨?_, by omega, hk⟩
  unfold maskOf u64sub u64shl
  have e1 : (q + W - 1 % W) % W = q - 1 := by
    unfold W; omega
  rw [e1, Nat.one_mul]
  have e2 : 2 ^ len64 (q - 1) % W = 2 ^ len64 (q - 1) := by
    apply Nat.mod_eq_of_lt; unfold W; omega
  rw [e2]
  unfold W; omega

/-- **accept_fibre_card.**  For a modulus `1 ≤ q ≤ 2^63` and its mask, every value `r ≤ mask`
    (in particular every residue `r < q`) is the masked image of exactly `2^64 / (mask+1)` of the
    `2^64` possible words — the same number for all `r`. -/
theorem accept_fibre_card_aux (q : Nat) (hq : 0 < q) (hq' : q ≤ 2 ^ 63) (r : Nat) (hr : r ≤ maskOf q) :
    ((range W).filter (fun w => u64and w (maskOf q) = r)).card = W / (maskOf q + 1) := by
  obtain ⟨hm, hqk, hk⟩ := maskOf_eq q hq hq'
  have hp1 : 0 < 2 ^ len64 (q - 1) := Nat.two_pow_pos _
  have hm1 : maskOf q + 1 = 2 ^ len64 (q - 1) := by omega
  have hpt : ∀ w, (u64and w (maskOf q) = r) ↔ (w % 2 ^ len64 (q - 1) = r) := by
    intro w
    unfold u64and
    rw [hm, Nat.and_two_pow_sub_one_eq_mod]
  have hWd : W = 2 ^ len64 (q - 1) * 2 ^ (64 - len64 (q - 1)) := by
    have e : len64 (q - 1) + (64 - len64 (q - 1)) = 64 := by omega
    rw [W_eq, ← Nat.pow_add, e]
  have hrange : range W = range (2 ^ len64 (q - 1) * 2 ^ (64 - len64 (q - 1))) := congrArg range hWd
  have hdiv : W / (maskOf q + 1) = 2 ^ (64 - len64 (q - 1)) := by
    rw [hm1]
    exact Nat.div_eq_of_eq_mul_right hp1 hWd
  rw [hdiv, hrange, filter_congr (fun w _ => hpt w)]
  exact card_filter_mod _ _ _ (by omega)

end Lattigo.Sampler
