/-
  C20 — the partition of the Q primes into RNS digits (`Par.group` of Model/RGSW.lean) is the greedy one:
  row `k` belongs to digit `k / gw` and to no other, and that digit exists.
-/
import Lattigo.Model.RGSW
import Mathlib.Tactic.Ring
import Mathlib.Tactic.Linarith

namespace Lattigo.RGSW

theorem Par.gw_pos (p : Par) : 0 < p.gw := by
  unfold Par.gw; split <;> omega

/-- membership in a digit: `k` is a Q row and `k / gw = i` -/
theorem Par.mem_group_iff (p : Par) (i k : Nat) :
    k ∈ p.group i ↔ k < p.qsQ.length ∧ k / p.gw = i := by
  have hg := p.gw_pos
  unfold Par.group
  simp only [List.mem_filter, List.mem_map, List.mem_range, decide_eq_true_eq]
  constructor
  · rintro ⟨⟨r, hr, rfl⟩, hk⟩
    refine ⟨hk, ?_⟩
    rw [Nat.mul_comm, Nat.mul_add_div hg, Nat.div_eq_of_lt hr, Nat.add_zero]
  · rintro ⟨hk, rfl⟩
    refine ⟨⟨k % p.gw, Nat.mod_lt _ hg, ?_⟩, hk⟩
    rw [Nat.mul_comm]; exact Nat.div_add_mod k p.gw

/-- every Q row lies in exactly one digit, `k / gw`, and that digit is one of the `rnsSize` digits -/
theorem Par.group_partition (p : Par) (k : Nat) (hk : k < p.qsQ.length) :
    k ∈ p.group (k / p.gw) ∧ k / p.gw < p.rnsSize ∧ ∀ i, k ∈ p.group i → i = k / p.gw := by
  refine ⟨(p.mem_group_iff _ _).mpr ⟨hk, rfl⟩, ?_, fun i hi => ((p.mem_group_iff _ _).mp hi).2.symm⟩
  unfold Par.rnsSize Par.gw
  by_cases h0 : p.nP = 0
  · simp only [h0, if_true, Nat.div_one]; exact hk
  · simp only [h0, if_false]
    have hp : 0 < p.nP := Nat.pos_of_ne_zero h0
    have h1 : k + p.nP ≤ p.qsQ.length - 1 + p.nP := by omega
    have h2 : (k + p.nP) / p.nP = k / p.nP + 1 := Nat.add_div_right k hp
    have h3 := Nat.div_le_div_right (c := p.nP) h1
    omega

/-- the shapes where greedy and balanced differ (tests) -/
example : (Par.group { qsQ := [3, 5, 7, 11], qsP := [13, 17, 19], n := 2, w := 0 } 0 = [0, 1, 2]) ∧
    (Par.group { qsQ := [3, 5, 7, 11], qsP := [13, 17, 19], n := 2, w := 0 } 1 = [3]) ∧
    (Par.rnsSize { qsQ := [3, 5, 7, 11], qsP := [13, 17, 19], n := 2, w := 0 } = 2) ∧
    (Par.group { qsQ := [3, 5, 7, 11, 23, 29, 31], qsP := [13, 17, 19, 37, 41], n := 2, w := 0 } 1 = [5, 6]) := by
  decide

end Lattigo.RGSW
