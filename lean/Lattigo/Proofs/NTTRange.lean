import Lattigo.Model.NTT
import Lattigo.Proofs.ModRed
/-!
  # Range / no-wrap invariant of the lazy NTT networks (`ring/ntt.go`), property C01, WP-N

  `fwdRec`/`invRec` of `Model/NTT.lean` are compared with *ideal* networks `fwdRecN`/`invRecN` whose
  butterflies are computed with unbounded natural numbers (no `% 2^64` outside `MRedLazy`).
  The invariant `FwdOK` says, for every node of the recursion: all values entering the node are
  below the per-depth bound `B d · q`, the stage's word-level butterflies coincide with the ideal
  ones (NO uint64 wrap-around), and the stage's outputs are `≤ B (d+1) · q − 2`.
  Everything needs exactly `8q ≤ 2^64`.
-/
namespace Lattigo.NTT
open Lattigo Lattigo.Gen

/-! ### list helpers (core only) -/

theorem forall_zipWith {α β γ : Type} (f : α → β → γ) (P : γ → Prop) :
    ∀ (l1 : List α) (l2 : List β), (∀ u ∈ l1, ∀ v ∈ l2, P (f u v)) →
      ∀ x ∈ List.zipWith f l1 l2, P x
  | [], _, _, x, hx => by simp at hx
  | _ :: _, [], _, x, hx => by simp at hx
  | u :: l1, v :: l2, h, x, hx => by
    rw [List.zipWith_cons_cons, List.mem_cons] at hx
    rcases hx with rfl | hx
    · exact h u (List.mem_cons_self ..) v (List.mem_cons_self ..)
    · exact forall_zipWith f P l1 l2
        (fun u' hu' v' hv' => h u' (List.mem_cons_of_mem _ hu') v' (List.mem_cons_of_mem _ hv')) x hx

theorem zipWith_congr_mem {α β γ : Type} (f g : α → β → γ) :
    ∀ (l1 : List α) (l2 : List β), (∀ u ∈ l1, ∀ v ∈ l2, f u v = g u v) →
      List.zipWith f l1 l2 = List.zipWith g l1 l2
  | [], _, _ => by simp
  | _ :: _, [], _ => by simp
  | u :: l1, v :: l2, h => by
    rw [List.zipWith_cons_cons, List.zipWith_cons_cons,
      h u (List.mem_cons_self ..) v (List.mem_cons_self ..),
      zipWith_congr_mem f g l1 l2
        (fun u' hu' v' hv' => h u' (List.mem_cons_of_mem _ hu') v' (List.mem_cons_of_mem _ hv'))]

theorem mem_take_of {α : Type} {l : List α} {n : Nat} {x : α} (h : x ∈ l.take n) : x ∈ l :=
  List.mem_of_mem_take h
theorem mem_drop_of {α : Type} {l : List α} {n : Nat} {x : α} (h : x ∈ l.drop n) : x ∈ l :=
  List.mem_of_mem_drop h

/-! ### ideal butterflies -/

theorem twoQ_eq (q : Nat) (h : 2 * q < W) : twoQ q = 2 * q := by
  unfold twoQ u64mul; exact Nat.mod_eq_of_lt h
theorem fourQ_eq (q : Nat) (h : 4 * q < W) : fourQ q = 4 * q := by
  unfold fourQ u64mul; exact Nat.mod_eq_of_lt h

/-- forward butterfly over ℕ (no wrap): `U' = U − 4q` if reducing and `U ≥ 4q`; `V' = MRedLazy V ψ`;
    `(U' + V', U' + 2q − V')`. -/
def bflyN (reduce : Bool) (psi q qinv : Nat) (u v : Nat) : Nat × Nat :=
  let u' := if reduce && decide (4 * q ≤ u) then u - 4 * q else u
  let v' := MRedLazy v psi q qinv
  (u' + v', u' + 2 * q - v')

/-- inverse (Gentleman–Sande) butterfly over ℕ: `X = U + V (− 2q if ≥ 2q)`, `Y = MRedLazy (U + 4q − V) ψ`. -/
def ibflyN (psi q qinv : Nat) (u v : Nat) : Nat × Nat :=
  (if 2 * q ≤ u + v then u + v - 2 * q else u + v, MRedLazy (u + 4 * q - v) psi q qinv)

/-- One forward butterfly, reducing (`r = true`, needs `u < 8q`) or not (`r = false`, needs
`u < bu`, `bu + 2q ≤ 2^64`): the word-level result is the ideal one and both outputs are
`≤ (min bu 4q) + 2q − 2` resp. `≤ bu + 2q − 2`. -/
theorem bfly_eq_bflyN (r : Bool) (psi q qinv u v bu : Nat) (h8 : 8 * q ≤ W)
    (hm : MontConst q qinv) (hpsi : psi < q) (hv : v < W) (hu : u < bu)
    (hb : if r then bu ≤ 8 * q else bu + 2 * q ≤ 8 * q) :
    bfly r psi q qinv u v = bflyN r psi q qinv u v
    ∧ (bflyN r psi q qinv u v).1 + 2 ≤ (if r then min bu (4 * q) else bu) + 2 * q
    ∧ (bflyN r psi q qinv u v).2 + 2 ≤ (if r then min bu (4 * q) else bu) + 2 * q := by
  have hq0 := hm.pos
  have hVP : v * psi < q * W := by
    rw [Nat.mul_comm q W]; exact Nat.mul_lt_mul'' hv hpsi
  obtain ⟨_, hlt, hpos⟩ := MRedLazy_eq v psi q qinv (by unfold W at *; omega) hm hVP
  have h2 := twoQ_eq q (by unfold W at *; omega)
  have h4 := fourQ_eq q (by unfold W at *; omega)
  unfold bfly bflyN butterfly
  rw [h2, h4]
  simp only []
  generalize MRedLazy v psi q qinv = v' at *
  cases r with
  | true =>
    simp only [if_true, Bool.true_and] at hb ⊢
    by_cases h : 4 * q ≤ u
    · have hU' : u64sub u (4 * q) = u - 4 * q := by
        simp only [u64sub]; unfold W at *; omega
      rw [if_pos (decide_eq_true h), if_pos (decide_eq_true h), hU']
      simp only [u64add, u64sub, Nat.min_def]
      unfold W at *
      refine ⟨?_, ?_, ?_⟩
      · congr 1 <;> omega
      · split <;> omega
      · split <;> omega
    · rw [if_neg (by simpa using h), if_neg (by simpa using h)]
      simp only [u64add, u64sub, Nat.min_def]
      unfold W at *
      refine ⟨?_, ?_, ?_⟩
      · congr 1 <;> omega
      · split <;> omega
      · split <;> omega
  | false =>
    simp only [Bool.false_and, if_false, Bool.false_eq_true] at hb ⊢
    simp only [u64add, u64sub]
    unfold W at *
    refine ⟨?_, ?_, ?_⟩
    · congr 1 <;> omega
    · omega
    · omega

/-- One inverse butterfly: inputs `< 2q`, `6q ≤ 2^64` ⊢ word-level = ideal, outputs `< 2q`
(`Y > 0`). `U + 4q − V` does not wrap because `U + 4q < 6q ≤ 2^64`. -/
theorem ibfly_eq_ibflyN (psi q qinv u v : Nat) (h6 : 6 * q ≤ W)
    (hm : MontConst q qinv) (hpsi : psi < q) (hu : u < 2 * q) (hv : v < 2 * q) :
    ibfly psi q qinv u v = ibflyN psi q qinv u v
    ∧ (ibflyN psi q qinv u v).1 < 2 * q
    ∧ (ibflyN psi q qinv u v).2 < 2 * q ∧ 0 < (ibflyN psi q qinv u v).2 := by
  have hq0 := hm.pos
  have hD : u64sub (u64add u (4 * q)) v = u + 4 * q - v := by
    simp only [u64add, u64sub]; unfold W at *; omega
  have hDW : u + 4 * q - v < W := by unfold W at *; omega
  have hDP : (u + 4 * q - v) * psi < q * W := by
    rw [Nat.mul_comm q W]; exact Nat.mul_lt_mul'' hDW hpsi
  obtain ⟨_, hlt, hpos⟩ := MRedLazy_eq (u + 4 * q - v) psi q qinv (by unfold W at *; omega) hm hDP
  have h2 := twoQ_eq q (by unfold W at *; omega)
  have h4 := fourQ_eq q (by unfold W at *; omega)
  have hX : u64add u v = u + v := by simp only [u64add]; unfold W at *; omega
  unfold ibfly ibflyN invbutterfly
  rw [h2, h4]
  simp only []
  rw [hD, hX]
  by_cases h : 2 * q ≤ u + v
  · have : u64sub (u + v) (2 * q) = u + v - 2 * q := by
      simp only [u64sub]; unfold W at *; omega
    rw [if_pos (decide_eq_true h), if_pos h, this]
    exact ⟨rfl, by omega, hlt, hpos⟩
  · rw [if_neg (by simpa using h), if_neg h]
    exact ⟨rfl, by omega, hlt, hpos⟩

/-! ### ideal networks -/

/-- `fwdRec` with the ideal butterflies -/
def fwdRecN (roots : Array Nat) (q qinv : Nat) (flag : Nat → Bool) :
    (k : Nat) → (d : Nat) → (j : Nat) → List Nat → List Nat
  | 0, _, _, a => a
  | k + 1, d, j, a =>
    let h := a.length / 2
    let xy := List.zipWith (bflyN (flag d) roots[j]! q qinv) (a.take h) (a.drop h)
    fwdRecN roots q qinv flag k (d + 1) (2 * j) (xy.map Prod.fst)
      ++ fwdRecN roots q qinv flag k (d + 1) (2 * j + 1) (xy.map Prod.snd)

/-- `invRec` with the ideal butterflies -/
def invRecN (roots : Array Nat) (q qinv : Nat) :
    (k : Nat) → (j : Nat) → List Nat → List Nat
  | 0, _, a => a
  | k + 1, j, a =>
    let h := a.length / 2
    let l := invRecN roots q qinv k (2 * j) (a.take h)
    let r := invRecN roots q qinv k (2 * j + 1) (a.drop h)
    let xy := List.zipWith (ibflyN roots[j]! q qinv) l r
    xy.map Prod.fst ++ xy.map Prod.snd

/-- the stage executed at a node: the list of butterfly outputs -/
def fwdStage (roots : Array Nat) (q qinv : Nat) (flag : Nat → Bool) (d j : Nat) (a : List Nat) :
    List (Nat × Nat) :=
  List.zipWith (bfly (flag d) roots[j]! q qinv) (a.take (a.length / 2)) (a.drop (a.length / 2))

def fwdStageN (roots : Array Nat) (q qinv : Nat) (flag : Nat → Bool) (d j : Nat) (a : List Nat) :
    List (Nat × Nat) :=
  List.zipWith (bflyN (flag d) roots[j]! q qinv) (a.take (a.length / 2)) (a.drop (a.length / 2))

theorem fwdRec_succ (roots : Array Nat) (q qinv : Nat) (flag : Nat → Bool) (k d j : Nat) (a : List Nat) :
    fwdRec roots q qinv flag (k + 1) d j a =
      fwdRec roots q qinv flag k (d + 1) (2 * j) ((fwdStage roots q qinv flag d j a).map Prod.fst)
      ++ fwdRec roots q qinv flag k (d + 1) (2 * j + 1) ((fwdStage roots q qinv flag d j a).map Prod.snd) := rfl

theorem fwdRecN_succ (roots : Array Nat) (q qinv : Nat) (flag : Nat → Bool) (k d j : Nat) (a : List Nat) :
    fwdRecN roots q qinv flag (k + 1) d j a =
      fwdRecN roots q qinv flag k (d + 1) (2 * j) ((fwdStageN roots q qinv flag d j a).map Prod.fst)
      ++ fwdRecN roots q qinv flag k (d + 1) (2 * j + 1) ((fwdStageN roots q qinv flag d j a).map Prod.snd) := rfl

/-- every entry of the table is `< q` (out-of-range reads return `0`) -/
def RootsLt (roots : Array Nat) (q : Nat) : Prop := ∀ i : Nat, roots[i]! < q

/-- the per-depth bounds `B d · q` are compatible with the reduce schedule `flag` on depths `< K`:
a reducing stage needs inputs `< 8q` and yields `< (min (B d) 4 + 2) q`; a non-reducing stage yields
`< (B d + 2) q` which must not exceed `8q` (this is where `8q ≤ 2^64` is used). -/
def BoundOK (flag : Nat → Bool) (B : Nat → Nat) (K : Nat) : Prop :=
  ∀ d, d < K →
    (flag d = true → B d ≤ 8 ∧ min (B d) 4 + 2 ≤ B (d + 1)) ∧
    (flag d = false → B d + 2 ≤ B (d + 1) ∧ B (d + 1) ≤ 8)

/-- **Node invariant of the forward network.** At node `(k,d,j)` on input `a`:
all inputs are `< B d · q`; the stage's word-level butterflies equal the ideal ones (no wrap);
all outputs of the stage are `≤ B (d+1) · q − 2`; and recursively for both children. -/
def FwdOK (roots : Array Nat) (q qinv : Nat) (flag : Nat → Bool) (B : Nat → Nat) :
    (k : Nat) → (d : Nat) → (j : Nat) → List Nat → Prop
  | 0, d, _, a => ∀ x ∈ a, x < B d * q
  | k + 1, d, j, a =>
    (∀ x ∈ a, x < B d * q)
    ∧ fwdStage roots q qinv flag d j a = fwdStageN roots q qinv flag d j a
    ∧ (∀ p ∈ fwdStageN roots q qinv flag d j a, p.1 + 2 ≤ B (d + 1) * q ∧ p.2 + 2 ≤ B (d + 1) * q)
    ∧ FwdOK roots q qinv flag B k (d + 1) (2 * j) ((fwdStage roots q qinv flag d j a).map Prod.fst)
    ∧ FwdOK roots q qinv flag B k (d + 1) (2 * j + 1) ((fwdStage roots q qinv flag d j a).map Prod.snd)

theorem min_mul_le (b q : Nat) : min (b * q) (4 * q) ≤ min b 4 * q := by
  rcases Nat.le_total b 4 with h | h
  · rw [Nat.min_eq_left h]; exact Nat.min_le_left _ _
  · rw [Nat.min_eq_right h]; exact Nat.min_le_right _ _

/-- one stage: ranges and no-wrap -/
theorem fwdStage_ok (roots : Array Nat) (q qinv : Nat) (flag : Nat → Bool) (B : Nat → Nat) (K : Nat)
    (h8 : 8 * q ≤ W) (hm : MontConst q qinv) (hr : RootsLt roots q) (hB : BoundOK flag B K)
    (d j : Nat) (hd : d < K) (a : List Nat) (ha : ∀ x ∈ a, x < B d * q) :
    fwdStage roots q qinv flag d j a = fwdStageN roots q qinv flag d j a
    ∧ (∀ p ∈ fwdStageN roots q qinv flag d j a, p.1 + 2 ≤ B (d + 1) * q ∧ p.2 + 2 ≤ B (d + 1) * q) := by
  obtain ⟨hB1, hB2⟩ := hB d hd
  -- the numeric side conditions of `bfly_eq_bflyN`
  have hside : (if flag d then B d * q ≤ 8 * q else B d * q + 2 * q ≤ 8 * q)
      ∧ (if flag d then min (B d * q) (4 * q) else B d * q) + 2 * q ≤ B (d + 1) * q := by
    cases hf : flag d with
    | true =>
      obtain ⟨h1, h2⟩ := hB1 hf
      simp only [if_true]
      refine ⟨Nat.mul_le_mul_right q h1, ?_⟩
      calc min (B d * q) (4 * q) + 2 * q ≤ min (B d) 4 * q + 2 * q :=
            Nat.add_le_add_right (min_mul_le _ _) _
        _ = (min (B d) 4 + 2) * q := (Nat.add_mul _ _ _).symm
        _ ≤ B (d + 1) * q := Nat.mul_le_mul_right q h2
    | false =>
      obtain ⟨h1, h2⟩ := hB2 hf
      simp only [Bool.false_eq_true, if_false]
      have e : B d * q + 2 * q = (B d + 2) * q := (Nat.add_mul _ _ _).symm
      rw [e]
      exact ⟨Nat.mul_le_mul_right q (Nat.le_trans h1 h2), Nat.mul_le_mul_right q h1⟩
  have hlt8 : ∀ x ∈ a, x < W := by
    intro x hx
    have := ha x hx
    have h88 : B d * q ≤ 8 * q := by
      cases hf : flag d with
      | true => exact Nat.mul_le_mul_right q (hB1 hf).1
      | false =>
        have := (hB2 hf); exact Nat.mul_le_mul_right q (by omega)
    omega
  have key : ∀ u ∈ a.take (a.length / 2), ∀ v ∈ a.drop (a.length / 2),
      bfly (flag d) roots[j]! q qinv u v = bflyN (flag d) roots[j]! q qinv u v
      ∧ (bflyN (flag d) roots[j]! q qinv u v).1 + 2 ≤ B (d + 1) * q
      ∧ (bflyN (flag d) roots[j]! q qinv u v).2 + 2 ≤ B (d + 1) * q := by
    intro u hu v hv
    obtain ⟨e, b1, b2⟩ := bfly_eq_bflyN (flag d) roots[j]! q qinv u v (B d * q) h8 hm (hr j)
      (hlt8 v (mem_drop_of hv)) (ha u (mem_take_of hu)) hside.1
    exact ⟨e, Nat.le_trans b1 hside.2, Nat.le_trans b2 hside.2⟩
  constructor
  · exact zipWith_congr_mem _ _ _ _ (fun u hu v hv => (key u hu v hv).1)
  · exact forall_zipWith _ (fun p : Nat × Nat => p.1 + 2 ≤ B (d + 1) * q ∧ p.2 + 2 ≤ B (d + 1) * q) _ _
      (fun u hu v hv => (key u hu v hv).2)

/-- **ntt_range, general form.** For any reduce schedule `flag` and any bound sequence `B`
compatible with it up to depth `K`, every node `(k,d,j)` with `d + k ≤ K` whose inputs are
`< B d · q` satisfies the invariant `FwdOK`. -/
theorem fwdRec_ok (roots : Array Nat) (q qinv : Nat) (flag : Nat → Bool) (B : Nat → Nat) (K : Nat)
    (h8 : 8 * q ≤ W) (hm : MontConst q qinv) (hr : RootsLt roots q) (hB : BoundOK flag B K) :
    ∀ (k d j : Nat) (a : List Nat), d + k ≤ K → (∀ x ∈ a, x < B d * q) →
      FwdOK roots q qinv flag B k d j a
  | 0, _, _, _, _, ha => ha
  | k + 1, d, j, a, hdk, ha => by
    obtain ⟨e, hb⟩ := fwdStage_ok roots q qinv flag B K h8 hm hr hB d j (by omega) a ha
    refine ⟨ha, e, hb, ?_, ?_⟩
    · apply fwdRec_ok roots q qinv flag B K h8 hm hr hB k (d + 1) (2 * j) _ (by omega)
      intro x hx
      rw [e, List.mem_map] at hx
      obtain ⟨p, hp, rfl⟩ := hx
      have := (hb p hp).1; omega
    · apply fwdRec_ok roots q qinv flag B K h8 hm hr hB k (d + 1) (2 * j + 1) _ (by omega)
      intro x hx
      rw [e, List.mem_map] at hx
      obtain ⟨p, hp, rfl⟩ := hx
      have := (hb p hp).2; omega

/-- the invariant implies that the word-level network IS the ideal one -/
theorem fwdRec_eq_fwdRecN_of_ok (roots : Array Nat) (q qinv : Nat) (flag : Nat → Bool) (B : Nat → Nat) :
    ∀ (k d j : Nat) (a : List Nat), FwdOK roots q qinv flag B k d j a →
      fwdRec roots q qinv flag k d j a = fwdRecN roots q qinv flag k d j a
  | 0, _, _, _, _ => rfl
  | k + 1, d, j, a, ⟨_, e, _, h1, h2⟩ => by
    rw [fwdRec_succ, fwdRecN_succ,
      fwdRec_eq_fwdRecN_of_ok roots q qinv flag B k _ _ _ h1,
      fwdRec_eq_fwdRecN_of_ok roots q qinv flag B k _ _ _ h2, e]

/-- outputs of an OK node are `< B (d+k) q` -/
theorem fwdRec_out_lt (roots : Array Nat) (q qinv : Nat) (flag : Nat → Bool) (B : Nat → Nat) :
    ∀ (k d j : Nat) (a : List Nat), FwdOK roots q qinv flag B k d j a →
      ∀ y ∈ fwdRec roots q qinv flag k d j a, y < B (d + k) * q
  | 0, _, _, _, h => h
  | k + 1, d, j, a, ⟨_, _, _, h1, h2⟩ => by
    intro y hy
    rw [fwdRec_succ, List.mem_append] at hy
    have e : d + (k + 1) = d + 1 + k := by omega
    rw [e]
    rcases hy with hy | hy
    · exact fwdRec_out_lt roots q qinv flag B k _ _ _ h1 y hy
    · exact fwdRec_out_lt roots q qinv flag B k _ _ _ h2 y hy

/-- outputs of an OK node with at least one stage are `≤ B (d+k) q − 2` -/
theorem fwdRec_out_le (roots : Array Nat) (q qinv : Nat) (flag : Nat → Bool) (B : Nat → Nat) :
    ∀ (k d j : Nat) (a : List Nat), FwdOK roots q qinv flag B (k + 1) d j a →
      ∀ y ∈ fwdRec roots q qinv flag (k + 1) d j a, y + 2 ≤ B (d + (k + 1)) * q
  | 0, d, j, a, ⟨_, e, hb, _, _⟩ => by
    intro y hy
    rw [fwdRec_succ, List.mem_append] at hy
    simp only [fwdRec] at hy
    rw [e] at hy
    rcases hy with hy | hy
    · rw [List.mem_map] at hy; obtain ⟨p, hp, rfl⟩ := hy; exact (hb p hp).1
    · rw [List.mem_map] at hy; obtain ⟨p, hp, rfl⟩ := hy; exact (hb p hp).2
  | k + 1, d, j, a, ⟨_, _, _, h1, h2⟩ => by
    intro y hy
    rw [fwdRec_succ, List.mem_append] at hy
    have e : d + (k + 1 + 1) = d + 1 + (k + 1) := by omega
    rw [e]
    rcases hy with hy | hy
    · exact fwdRec_out_le roots q qinv flag B k _ _ _ h1 y hy
    · exact fwdRec_out_le roots q qinv flag B k _ _ _ h2 y hy

/-! ### inverse network -/

/-- **Node invariant of the inverse network**: inputs `< 2q`, both children OK, the node's
word-level butterflies equal the ideal ones (no wrap) and their outputs are `< 2q`. -/
def InvOK (roots : Array Nat) (q qinv : Nat) : (k : Nat) → (j : Nat) → List Nat → Prop
  | 0, _, a => ∀ x ∈ a, x < 2 * q
  | k + 1, j, a =>
    (∀ x ∈ a, x < 2 * q)
    ∧ InvOK roots q qinv k (2 * j) (a.take (a.length / 2))
    ∧ InvOK roots q qinv k (2 * j + 1) (a.drop (a.length / 2))
    ∧ List.zipWith (ibfly roots[j]! q qinv)
          (invRec roots q qinv k (2 * j) (a.take (a.length / 2)))
          (invRec roots q qinv k (2 * j + 1) (a.drop (a.length / 2)))
        = List.zipWith (ibflyN roots[j]! q qinv)
          (invRec roots q qinv k (2 * j) (a.take (a.length / 2)))
          (invRec roots q qinv k (2 * j + 1) (a.drop (a.length / 2)))
    ∧ (∀ p ∈ List.zipWith (ibflyN roots[j]! q qinv)
          (invRec roots q qinv k (2 * j) (a.take (a.length / 2)))
          (invRec roots q qinv k (2 * j + 1) (a.drop (a.length / 2))), p.1 < 2 * q ∧ p.2 < 2 * q)

theorem invRec_succ (roots : Array Nat) (q qinv : Nat) (k j : Nat) (a : List Nat) :
    invRec roots q qinv (k + 1) j a =
      (List.zipWith (ibfly roots[j]! q qinv)
          (invRec roots q qinv k (2 * j) (a.take (a.length / 2)))
          (invRec roots q qinv k (2 * j + 1) (a.drop (a.length / 2)))).map Prod.fst
      ++ (List.zipWith (ibfly roots[j]! q qinv)
          (invRec roots q qinv k (2 * j) (a.take (a.length / 2)))
          (invRec roots q qinv k (2 * j + 1) (a.drop (a.length / 2)))).map Prod.snd := rfl

theorem invRecN_succ (roots : Array Nat) (q qinv : Nat) (k j : Nat) (a : List Nat) :
    invRecN roots q qinv (k + 1) j a =
      (List.zipWith (ibflyN roots[j]! q qinv)
          (invRecN roots q qinv k (2 * j) (a.take (a.length / 2)))
          (invRecN roots q qinv k (2 * j + 1) (a.drop (a.length / 2)))).map Prod.fst
      ++ (List.zipWith (ibflyN roots[j]! q qinv)
          (invRecN roots q qinv k (2 * j) (a.take (a.length / 2)))
          (invRecN roots q qinv k (2 * j + 1) (a.drop (a.length / 2)))).map Prod.snd := rfl

/-- **intt_range, general form**: inputs `< 2q`, `6q ≤ 2^64` ⊢ invariant at every node, outputs `< 2q`. -/
theorem invRec_ok (roots : Array Nat) (q qinv : Nat) (h6 : 6 * q ≤ W) (hm : MontConst q qinv)
    (hr : RootsLt roots q) :
    ∀ (k j : Nat) (a : List Nat), (∀ x ∈ a, x < 2 * q) →
      InvOK roots q qinv k j a ∧ ∀ y ∈ invRec roots q qinv k j a, y < 2 * q
  | 0, _, _, ha => ⟨ha, ha⟩
  | k + 1, j, a, ha => by
    obtain ⟨okl, hl⟩ := invRec_ok roots q qinv h6 hm hr k (2 * j) (a.take (a.length / 2))
      (fun x hx => ha x (mem_take_of hx))
    obtain ⟨okr, hr'⟩ := invRec_ok roots q qinv h6 hm hr k (2 * j + 1) (a.drop (a.length / 2))
      (fun x hx => ha x (mem_drop_of hx))
    have key : ∀ u ∈ invRec roots q qinv k (2 * j) (a.take (a.length / 2)),
        ∀ v ∈ invRec roots q qinv k (2 * j + 1) (a.drop (a.length / 2)),
        ibfly roots[j]! q qinv u v = ibflyN roots[j]! q qinv u v
        ∧ (ibflyN roots[j]! q qinv u v).1 < 2 * q ∧ (ibflyN roots[j]! q qinv u v).2 < 2 * q := by
      intro u hu v hv
      obtain ⟨e, b1, b2, _⟩ := ibfly_eq_ibflyN roots[j]! q qinv u v h6 hm (hr j) (hl u hu) (hr' v hv)
      exact ⟨e, b1, b2⟩
    have e := zipWith_congr_mem _ _ _ _ (fun u hu v hv => (key u hu v hv).1)
    have hb := forall_zipWith _ (fun p : Nat × Nat => p.1 < 2 * q ∧ p.2 < 2 * q) _ _
      (fun u hu v hv => (key u hu v hv).2)
    refine ⟨⟨ha, okl, okr, e, hb⟩, ?_⟩
    intro y hy
    rw [invRec_succ, e, List.mem_append] at hy
    rcases hy with hy | hy
    · rw [List.mem_map] at hy; obtain ⟨p, hp, rfl⟩ := hy; exact (hb p hp).1
    · rw [List.mem_map] at hy; obtain ⟨p, hp, rfl⟩ := hy; exact (hb p hp).2

theorem invRec_eq_invRecN_of_ok (roots : Array Nat) (q qinv : Nat) :
    ∀ (k j : Nat) (a : List Nat), InvOK roots q qinv k j a →
      invRec roots q qinv k j a = invRecN roots q qinv k j a
  | 0, _, _, _ => rfl
  | k + 1, j, a, ⟨_, h1, h2, e, _⟩ => by
    rw [invRec_succ, invRecN_succ, e,
      invRec_eq_invRecN_of_ok roots q qinv k _ _ h1, invRec_eq_invRecN_of_ok roots q qinv k _ _ h2]

/-! ### the concrete schedules of `ring/ntt.go` -/

/-- Bound (in units of `q`) on the values ENTERING depth `d` of the standard forward transform of
degree `n`, for inputs `< b0·q` (`b0 = 1`: reduced input, `b0 = 2`: lazy input).
`n < 16` (every stage reduces): `b0, b0+2, …` capped at `6`.
`n ≥ 16` (unrolled schedule): `b0, b0+2, b0+4`, then `6` at odd depths, `8` at even depths,
and `6` after the last stage:  for `b0 = 1` this is the `q, 3q, 5q / 6q, 8q` alternation. -/
def BStd (n b0 d : Nat) : Nat :=
  if n < 16 then min (b0 + 2 * d) 6
  else if d ≤ 2 then b0 + 2 * d
  else if 2 ^ d = n then 6
  else if d % 2 = 1 then 6 else 8

/-- Same for the conjugate-invariant forward transform (after the twist, so `b0 = 3` for reduced
and `b0 = 4` for lazy input): `b0, b0+2`, then `6` at even depths, `8` at odd depths, `6` at the end. -/
def BCI (n b0 d : Nat) : Nat :=
  if n < 16 then min (b0 + 2 * d) 6
  else if d ≤ 1 then b0 + 2 * d
  else if 2 ^ d = n then 6
  else if d % 2 = 0 then 6 else 8

theorem two_pow_eq_iff (e K : Nat) : 2 ^ e = 2 ^ K ↔ e = K :=
  ⟨fun h => Nat.pow_right_injective (Nat.le_refl 2) h, fun h => by rw [h]⟩

theorem two_pow_lt_16 (K : Nat) : 2 ^ K < 16 ↔ K < 4 := by
  have : (16 : Nat) = 2 ^ 4 := rfl
  rw [this]
  exact Nat.pow_lt_pow_iff_right (by decide)

theorem unrollMin_eq : unrollMin = 16 := rfl

theorem BStd_ok (K b0 : Nat) (hb0 : b0 ≤ 2) : BoundOK (flagStd (2 ^ K)) (BStd (2 ^ K) b0) K := by
  intro d hd
  unfold flagStd BStd
  rw [unrollMin_eq]
  by_cases hK : K < 4
  · have := (two_pow_lt_16 K).2 hK
    simp only [this, if_true, Nat.min_def]
    constructor
    · intro _; constructor <;> (repeat' split) <;> omega
    · intro h; exact absurd h (by simp)
  · have h16 : ¬ 2 ^ K < 16 := fun h => hK ((two_pow_lt_16 K).1 h)
    simp only [h16, if_false, two_pow_eq_iff, Nat.min_def]
    by_cases h0 : d = 0
    · subst h0; simp; omega
    by_cases h1 : d = 1
    · subst h1
      have : ¬ (1 + 1 = K) := by omega
      simp [this]; omega
    by_cases h2 : d = 2
    · subst h2
      have : ¬ (2 + 1 = K) := by omega
      have h3 : ¬ (3 = K) := by omega
      simp [this]
      (repeat' split) <;> omega
    have hd2 : ¬ d ≤ 2 := by omega
    have hd1 : ¬ d + 1 ≤ 2 := by omega
    have hdK : ¬ d = K := by omega
    simp only [h0, hd2, hd1, hdK, if_false]
    by_cases hl : d + 1 = K
    · simp only [hl, if_true]
      constructor
      · intro _; constructor <;> (repeat' split) <;> omega
      · intro h; exact absurd h (by simp)
    · simp only [hl, if_false, decide_eq_true_eq, decide_eq_false_iff_not]
      constructor
      · intro hf; constructor <;> (repeat' split) <;> omega
      · intro hf; constructor <;> (repeat' split) <;> omega

theorem BCI_ok (K b0 : Nat) (hb0 : b0 ≤ 4) : BoundOK (flagCI (2 ^ K)) (BCI (2 ^ K) b0) K := by
  intro d hd
  unfold flagCI BCI
  rw [unrollMin_eq]
  by_cases hK : K < 4
  · have := (two_pow_lt_16 K).2 hK
    simp only [this, if_true, Nat.min_def]
    constructor
    · intro _; constructor <;> (repeat' split) <;> omega
    · intro h; exact absurd h (by simp)
  · have h16 : ¬ 2 ^ K < 16 := fun h => hK ((two_pow_lt_16 K).1 h)
    simp only [h16, if_false, two_pow_eq_iff, Nat.min_def]
    by_cases h0 : d = 0
    · subst h0
      have : ¬ (0 + 1 = K) := by omega
      simp [this]; omega
    by_cases h1 : d = 1
    · subst h1
      have : ¬ (1 + 1 = K) := by omega
      have h3 : ¬ (2 = K) := by omega
      simp [this]
      (repeat' split) <;> omega
    have hd2 : ¬ d ≤ 1 := by omega
    have hd1 : ¬ d + 1 ≤ 1 := by omega
    have hdK : ¬ d = K := by omega
    simp only [hd2, hd1, hdK, if_false]
    by_cases hl : d + 1 = K
    · simp only [hl, if_true]
      constructor
      · intro _; constructor <;> (repeat' split) <;> omega
      · intro h; exact absurd h (by simp)
    · simp only [hl, if_false, decide_eq_true_eq, decide_eq_false_iff_not]
      constructor
      · intro hf; constructor <;> (repeat' split) <;> omega
      · intro hf; constructor <;> (repeat' split) <;> omega

theorem BStd_zero (n b0 : Nat) (hb0 : b0 ≤ 6) : BStd n b0 0 = b0 := by
  unfold BStd; simp only [Nat.mul_zero, Nat.add_zero, Nat.zero_le, if_true, Nat.min_def]
  repeat' split <;> omega

theorem BCI_zero (n b0 : Nat) (hb0 : b0 ≤ 6) : BCI n b0 0 = b0 := by
  unfold BCI; simp only [Nat.mul_zero, Nat.add_zero, Nat.zero_le, if_true, Nat.min_def]
  repeat' split <;> omega

/-- after the last stage the bound is `6` (for `n ≥ 2`) -/
theorem BStd_last (K b0 : Nat) (_hK : 1 ≤ K) (_hb0 : b0 ≤ 2) : BStd (2 ^ K) b0 K ≤ 6 := by
  unfold BStd
  by_cases hK4 : K < 4
  · simp only [(two_pow_lt_16 K).2 hK4, if_true]; exact Nat.min_le_right _ _
  · have h16 : ¬ 2 ^ K < 16 := fun h => hK4 ((two_pow_lt_16 K).1 h)
    have : ¬ K ≤ 2 := by omega
    simp [h16, this]

theorem BCI_last (K b0 : Nat) (_hK : 1 ≤ K) (_hb0 : b0 ≤ 4) : BCI (2 ^ K) b0 K ≤ 6 := by
  unfold BCI
  by_cases hK4 : K < 4
  · simp only [(two_pow_lt_16 K).2 hK4, if_true]; exact Nat.min_le_right _ _
  · have h16 : ¬ 2 ^ K < 16 := fun h => hK4 ((two_pow_lt_16 K).1 h)
    have : ¬ K ≤ 1 := by omega
    simp [h16, this]

/-- the documented alternation, `n ≥ 16`, reduced input: `q, 3q, 5q`, then `6q` (odd depth) / `8q` (even depth) -/
theorem BStd_values (K d : Nat) (hK : 4 ≤ K) (hd : d < K) :
    BStd (2 ^ K) 1 d = if d = 0 then 1 else if d = 1 then 3 else if d = 2 then 5
      else if d % 2 = 1 then 6 else 8 := by
  unfold BStd
  have h16 : ¬ 2 ^ K < 16 := fun h => by have := (two_pow_lt_16 K).1 h; omega
  have hdK : ¬ d = K := by omega
  simp only [h16, if_false, two_pow_eq_iff, hdK]
  (repeat' split) <;> omega


/-! ### the conjugate-invariant twist -/

theorem toArray_getElem!_lt (a : List Nat) (b : Nat) (hb : 0 < b) (ha : ∀ x ∈ a, x < b) (i : Nat) :
    a.toArray[i]! < b := by
  by_cases h : i < a.length
  · have : a.toArray[i]! = a[i] := by simp [h]
    rw [this]; exact ha _ (List.getElem_mem h)
  · have : a.toArray[i]! = 0 := by simp [h]
    rw [this]; exact hb

/-- ideal twist (no wrap) -/
def twistN (T : Tables) (roots : Array Nat) (a : List Nat) : List Nat :=
  let n := a.length
  let arr := a.toArray
  let f := roots[1]!
  (List.range n).map fun j =>
    if j = 0 then arr[0]!
    else arr[j]! + 2 * T.q - MRedLazy arr[n - j]! f T.q T.qinv

theorem twist_entry (x v' q bu : Nat) (hx : x < bu) (h2 : bu + 2 * q ≤ W) (hv : v' < 2 * q)
    (hpos : 0 < v') :
    u64sub (u64add x (2 * q)) v' = x + 2 * q - v' ∧ x + 2 * q - v' < bu + 2 * q := by
  simp only [u64add, u64sub]
  unfold W at *
  omega

theorem twist_entry' (T : Tables) (roots : Array Nat) (x y bu : Nat)
    (h2 : bu + 2 * T.q ≤ W) (hm : MontConst T.q T.qinv) (hr : RootsLt roots T.q)
    (hx : x < bu) (hy : y < bu) :
    u64sub (u64add x (twoQ T.q)) (MRedLazy y roots[1]! T.q T.qinv)
      = x + 2 * T.q - MRedLazy y roots[1]! T.q T.qinv
    ∧ x + 2 * T.q - MRedLazy y roots[1]! T.q T.qinv < bu + 2 * T.q := by
  have hq0 := hm.pos
  have hyW : y < W := by unfold W at *; omega
  have hVP : y * roots[1]! < T.q * W := by
    rw [Nat.mul_comm T.q W]; exact Nat.mul_lt_mul'' hyW (hr 1)
  obtain ⟨_, hlt, hpos⟩ := MRedLazy_eq y roots[1]! T.q T.qinv (by unfold W at *; omega) hm hVP
  rw [twoQ_eq T.q (by unfold W at *; omega)]
  exact twist_entry x _ T.q bu hx h2 hlt hpos

theorem twist_ok1 (T : Tables) (roots : Array Nat) (a : List Nat) (bu : Nat)
    (h2 : bu + 2 * T.q ≤ W) (hm : MontConst T.q T.qinv) (hr : RootsLt roots T.q)
    (ha : ∀ x ∈ a, x < bu) (hbu : 0 < bu) :
    twist T roots a = twistN T roots a := by
  unfold twist twistN
  simp only []
  apply List.map_congr_left
  intro j _
  by_cases hj0 : j = 0
  · rw [if_pos hj0, if_pos hj0]
  · rw [if_neg hj0, if_neg hj0]
    exact (twist_entry' T roots _ _ bu h2 hm hr (toArray_getElem!_lt a bu hbu ha j)
          (toArray_getElem!_lt a bu hbu ha (a.length - j))).1
theorem twistN_lt (T : Tables) (roots : Array Nat) (a : List Nat) (bu : Nat)
    (h2 : bu + 2 * T.q ≤ W) (hm : MontConst T.q T.qinv) (hr : RootsLt roots T.q)
    (ha : ∀ x ∈ a, x < bu) (hbu : 0 < bu) :
    ∀ y ∈ twistN T roots a, y < bu + 2 * T.q := by
  intro y hy
  unfold twistN at hy
  simp only [List.mem_map] at hy
  obtain ⟨j, _, rfl⟩ := hy
  by_cases hj0 : j = 0
  · rw [if_pos hj0]
    have h0 := toArray_getElem!_lt a bu hbu ha 0
    omega
  · rw [if_neg hj0]
    exact (twist_entry' T roots _ _ bu h2 hm hr (toArray_getElem!_lt a bu hbu ha j)
          (toArray_getElem!_lt a bu hbu ha (a.length - j))).2

/-- **twist range**: inputs `< bu` with `bu + 2q ≤ 2^64` ⊢ no wrap and outputs `< bu + 2q`. -/
theorem twist_ok (T : Tables) (roots : Array Nat) (a : List Nat) (bu : Nat)
    (h2 : bu + 2 * T.q ≤ W) (hm : MontConst T.q T.qinv) (hr : RootsLt roots T.q)
    (ha : ∀ x ∈ a, x < bu) :
    twist T roots a = twistN T roots a ∧ ∀ y ∈ twistN T roots a, y < bu + 2 * T.q := by
  by_cases hbu : 0 < bu
  · exact ⟨twist_ok1 T roots a bu h2 hm hr ha hbu, twistN_lt T roots a bu h2 hm hr ha hbu⟩
  · have : a = [] := by
      cases a with
      | nil => rfl
      | cons x _ => have := ha x (List.mem_cons_self ..); omega
    subst this
    exact ⟨by simp [twist, twistN], by intro y hy; simp [twistN] at hy⟩

/-! ### the entry points -/

theorem log2n_two_pow (K : Nat) : log2n (2 ^ K) = K := by
  unfold log2n; exact Nat.log2_two_pow

/-- **ntt_range** (standard ring). `n = 2^K` (any `K`; `K ≥ 4` is the unrolled schedule, `K < 4`
reduces at every stage), `8q ≤ 2^64`, Montgomery constant, all roots `< q`, inputs `< b0·q` with
`b0 ≤ 2` (`b0 = 1` reduced inputs, `b0 = 2` lazy inputs).  Then the invariant `FwdOK` holds at the
root (hence at every node: bounds `BStd`, no wrap), `nttCoreLazy` equals the ideal network, and
(for `n ≥ 2`) every output is `≤ 6q − 2`. -/
theorem nttCoreLazy_range (T : Tables) (K : Nat) (hn : T.n = 2 ^ K) (h8 : 8 * T.q ≤ W)
    (hm : MontConst T.q T.qinv) (hr : RootsLt T.rootsF T.q) (b0 : Nat) (hb0 : b0 ≤ 2)
    (a : List Nat) (ha : ∀ x ∈ a, x < b0 * T.q) :
    FwdOK T.rootsF T.q T.qinv (flagStd T.n) (BStd T.n b0) K 0 1 a
    ∧ nttCoreLazy T a = fwdRecN T.rootsF T.q T.qinv (flagStd T.n) K 0 1 a
    ∧ (1 ≤ K → ∀ y ∈ nttCoreLazy T a, y + 2 ≤ 6 * T.q) := by
  have hB : BoundOK (flagStd T.n) (BStd T.n b0) K := by rw [hn]; exact BStd_ok K b0 hb0
  have ha' : ∀ x ∈ a, x < BStd T.n b0 0 * T.q := by
    rw [BStd_zero _ _ (by omega)]; exact ha
  have ok := fwdRec_ok T.rootsF T.q T.qinv (flagStd T.n) (BStd T.n b0) K h8 hm hr hB K 0 1 a
    (by omega) ha'
  have e : nttCoreLazy T a = fwdRec T.rootsF T.q T.qinv (flagStd T.n) K 0 1 a := by
    unfold nttCoreLazy; rw [hn, log2n_two_pow]
  refine ⟨ok, ?_, ?_⟩
  · rw [e]; exact fwdRec_eq_fwdRecN_of_ok _ _ _ _ _ _ _ _ _ ok
  · intro hK y hy
    rw [e] at hy
    obtain ⟨k, rfl⟩ : ∃ k, K = k + 1 := ⟨K - 1, by omega⟩
    have := fwdRec_out_le _ _ _ _ _ k 0 1 a ok y hy
    have h6 : BStd T.n b0 (0 + (k + 1)) * T.q ≤ 6 * T.q := by
      apply Nat.mul_le_mul_right
      rw [hn, Nat.zero_add]; exact BStd_last (k + 1) b0 (by omega) hb0
    omega

/-- **ntt_range** (conjugate-invariant ring): twist, then the network from node index `2` with the
schedule `flagCI`. Inputs `< b0·q`, `b0 ≤ 2`; after the twist `< (b0+2)·q`; bounds `BCI n (b0+2)`. -/
theorem nttCICoreLazy_range (T : Tables) (K : Nat) (hn : T.n = 2 ^ K) (h8 : 8 * T.q ≤ W)
    (hm : MontConst T.q T.qinv) (hr : RootsLt T.rootsF T.q) (b0 : Nat) (hb0 : b0 ≤ 2)
    (a : List Nat) (ha : ∀ x ∈ a, x < b0 * T.q) :
    twist T T.rootsF a = twistN T T.rootsF a
    ∧ FwdOK T.rootsF T.q T.qinv (flagCI T.n) (BCI T.n (b0 + 2)) K 0 2 (twistN T T.rootsF a)
    ∧ nttCICoreLazy T a = fwdRecN T.rootsF T.q T.qinv (flagCI T.n) K 0 2 (twistN T T.rootsF a)
    ∧ (1 ≤ K → ∀ y ∈ nttCICoreLazy T a, y + 2 ≤ 6 * T.q) := by
  have hb0q : b0 * T.q + 2 * T.q ≤ W := by
    have : b0 * T.q ≤ 2 * T.q := Nat.mul_le_mul_right _ hb0
    omega
  obtain ⟨et, ht⟩ := twist_ok T T.rootsF a (b0 * T.q) hb0q hm hr ha
  have hB : BoundOK (flagCI T.n) (BCI T.n (b0 + 2)) K := by rw [hn]; exact BCI_ok K (b0 + 2) (by omega)
  have ha' : ∀ x ∈ twistN T T.rootsF a, x < BCI T.n (b0 + 2) 0 * T.q := by
    rw [BCI_zero _ _ (by omega), Nat.add_mul]; exact ht
  have ok := fwdRec_ok T.rootsF T.q T.qinv (flagCI T.n) (BCI T.n (b0 + 2)) K h8 hm hr hB K 0 2 _
    (by omega) ha'
  have e : nttCICoreLazy T a = fwdRec T.rootsF T.q T.qinv (flagCI T.n) K 0 2 (twistN T T.rootsF a) := by
    unfold nttCICoreLazy; rw [hn, log2n_two_pow, ← hn, et]
  refine ⟨et, ok, ?_, ?_⟩
  · rw [e]; exact fwdRec_eq_fwdRecN_of_ok _ _ _ _ _ _ _ _ _ ok
  · intro hK y hy
    rw [e] at hy
    obtain ⟨k, rfl⟩ : ∃ k, K = k + 1 := ⟨K - 1, by omega⟩
    have := fwdRec_out_le _ _ _ _ _ k 0 2 _ ok y hy
    have h6 : BCI T.n (b0 + 2) (0 + (k + 1)) * T.q ≤ 6 * T.q := by
      apply Nat.mul_le_mul_right
      rw [hn, Nat.zero_add]; exact BCI_last (k + 1) (b0 + 2) (by omega) (by omega)
    omega

/-- **intt_range**: `n = 2^K`, `6q ≤ 2^64`, inputs `< 2q` ⊢ invariant `InvOK` at every node (all
intermediates `< 2q`, no wrap), `inttCoreLazy` equals the ideal network, outputs `< 2q`. -/
theorem inttCoreLazy_range (T : Tables) (K : Nat) (hn : T.n = 2 ^ K) (h6 : 6 * T.q ≤ W)
    (hm : MontConst T.q T.qinv) (hr : RootsLt T.rootsB T.q)
    (a : List Nat) (ha : ∀ x ∈ a, x < 2 * T.q) :
    InvOK T.rootsB T.q T.qinv K 1 a
    ∧ inttCoreLazy T a = invRecN T.rootsB T.q T.qinv K 1 a
    ∧ ∀ y ∈ inttCoreLazy T a, y < 2 * T.q := by
  have e : inttCoreLazy T a = invRec T.rootsB T.q T.qinv K 1 a := by
    unfold inttCoreLazy; rw [hn, log2n_two_pow]
  obtain ⟨ok, hlt⟩ := invRec_ok T.rootsB T.q T.qinv h6 hm hr K 1 a ha
  exact ⟨ok, by rw [e]; exact invRec_eq_invRecN_of_ok _ _ _ _ _ _ ok, by rw [e]; exact hlt⟩

/-- **intt_range, conjugate-invariant ring** (`inttCICoreLazy`): inverse network from node `2`
(all values `< 2q`, no wrap), twist by `rootsB[1]` (no wrap, `< 4q`), and `p[0] ← CRed(2·p[0])`
(`2·p[0] < 4q` does not wrap; the result is `< 3q`).  All outputs are `< 4q` — NOT the `[0, 2q−1]`
of the Go comment on `inttCoreConjugateInvariantLazy`; the callers multiply by `N⁻¹` with
`MRed`/`MRedLazy`, which restores `< q` / `< 2q` (`inttCI_lt`, `inttCILazy_lt`). -/
theorem inttCICoreLazy_range (T : Tables) (K : Nat) (hn : T.n = 2 ^ K) (h6 : 6 * T.q ≤ W)
    (hm : MontConst T.q T.qinv) (hr : RootsLt T.rootsB T.q)
    (a : List Nat) (ha : ∀ x ∈ a, x < 2 * T.q) :
    InvOK T.rootsB T.q T.qinv K 2 a
    ∧ twist T T.rootsB (invRec T.rootsB T.q T.qinv K 2 a)
        = twistN T T.rootsB (invRec T.rootsB T.q T.qinv K 2 a)
    ∧ ∀ y ∈ inttCICoreLazy T a, y < 4 * T.q := by
  have hq0 := hm.pos
  obtain ⟨ok, hlt⟩ := invRec_ok T.rootsB T.q T.qinv h6 hm hr K 2 a ha
  obtain ⟨et, ht⟩ := twist_ok T T.rootsB _ (2 * T.q) (by omega) hm hr hlt
  refine ⟨ok, et, ?_⟩
  intro y hy
  unfold inttCICoreLazy at hy
  rw [hn, log2n_two_pow] at hy
  simp only [] at hy
  rw [et] at hy
  generalize hb : invRec T.rootsB T.q T.qinv K 2 a = b at *
  cases hc : twistN T T.rootsB b with
  | nil => rw [hc] at hy; simp at hy
  | cons c0 rest =>
    rw [hc] at hy ht
    simp only [List.mem_cons] at hy
    rcases hy with rfl | hy
    · have hh : b.headD 0 < 2 * T.q := by
        cases b with
        | nil => simp; omega
        | cons x _ => simp; exact hlt x (List.mem_cons_self ..)
      generalize b.headD 0 = x at hh
      have e : u64shl x 1 = 2 * x := by
        simp only [u64shl]; rw [Nat.mod_eq_of_lt (by unfold W at *; omega)]; omega
      rw [e]
      unfold CRed
      split
      · rename_i hge
        have hge' : T.q ≤ 2 * x := by simpa using hge
        have hqW : T.q % W = T.q := Nat.mod_eq_of_lt (by unfold W at *; omega)
        have e2 : 2 * x + W - T.q = (2 * x - T.q) + W := by omega
        simp only [u64sub]
        rw [hqW, e2, Nat.add_mod_right, Nat.mod_eq_of_lt (by unfold W at *; omega)]
        omega
      · omega
    · have := ht y (List.mem_cons_of_mem _ hy); omega

/-- `inttCI` (multiplication by `nInv` with `MRed`): outputs `< q`. -/
theorem inttCI_lt (T : Tables) (K : Nat) (hn : T.n = 2 ^ K) (h6 : 6 * T.q ≤ W)
    (hm : MontConst T.q T.qinv) (hr : RootsLt T.rootsB T.q) (hN : T.nInv < T.q)
    (a : List Nat) (ha : ∀ x ∈ a, x < 2 * T.q) : ∀ y ∈ inttCI T a, y < T.q := by
  intro y hy
  unfold inttCI at hy
  rw [List.mem_map] at hy
  obtain ⟨x, hx, rfl⟩ := hy
  have hx4 := (inttCICoreLazy_range T K hn h6 hm hr a ha).2.2 x hx
  exact (MRed_spec x T.nInv T.q T.qinv (by unfold W at *; omega) hm
    (by rw [Nat.mul_comm T.q W]; exact Nat.mul_lt_mul'' (by unfold W at *; omega) hN)).2

/-- `inttCILazy` (multiplication by `nInv` with `MRedLazy`): outputs `< 2q`. -/
theorem inttCILazy_lt (T : Tables) (K : Nat) (hn : T.n = 2 ^ K) (h6 : 6 * T.q ≤ W)
    (hm : MontConst T.q T.qinv) (hr : RootsLt T.rootsB T.q) (hN : T.nInv < T.q)
    (a : List Nat) (ha : ∀ x ∈ a, x < 2 * T.q) : ∀ y ∈ inttCILazy T a, y < 2 * T.q := by
  intro y hy
  unfold inttCILazy at hy
  rw [List.mem_map] at hy
  obtain ⟨x, hx, rfl⟩ := hy
  have hx4 := (inttCICoreLazy_range T K hn h6 hm hr a ha).2.2 x hx
  exact (MRedLazy_eq x T.nInv T.q T.qinv (by unfold W at *; omega) hm
    (by rw [Nat.mul_comm T.q W]; exact Nat.mul_lt_mul'' (by unfold W at *; omega) hN)).2.1

end Lattigo.NTT
