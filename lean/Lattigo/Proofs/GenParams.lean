/-
  The regenerated derived quantities of core/rlwe/params.go (`Lattigo/Gen/Params.lean`, printed by
  tools/go2lean on every run) against closed forms and the hand-written models that use them
  (`Lattigo.KS` digit counts of C04, `Model.LinTrans.Lazy.overflowMargin` of C12).

  Go `int`s are two's-complement words (`i64toInt`); the theorems are stated for all inputs in the
  stated ranges (lengths and levels below `2^62`, moduli below `2^64`).
-/
import Lattigo.Gen.Params
import Lattigo.Model.Gadget
import Lattigo.Model.LinTransLazy
import Mathlib.Tactic.Ring
import Mathlib.Tactic.Linarith
import Mathlib.Data.Nat.Prime.Basic

namespace Lattigo.Proofs.GenParams
open Lattigo Lattigo.Gen.Params

/-! ### Go `int` words of small non-negative numbers -/

theorem i64toInt_small (a : Nat) (h : a < 2 ^ 63) : i64toInt a = (a : Int) := by
  unfold i64toInt; rw [if_pos (by omega)]

theorem i64ofInt_nat (n : Nat) (h : n < W) : i64ofInt (n : Int) = n := by
  unfold i64ofInt; unfold W at h; omega

theorem i64ofInt_neg_one : i64ofInt (-1) = W - 1 := by decide

theorem i64toInt_neg_one : i64toInt (W - 1) = -1 := by decide

/-- the word of the `int` `n - 1` (`n = 0` gives `-1`). -/
theorem i64ofInt_pred (n : Nat) (h : n < 2 ^ 63) : i64ofInt ((n : Int) - 1) = u64sub n 1 := by
  unfold i64ofInt u64sub; unfold W; omega

theorem i64div_small (a b : Nat) (ha : a < 2 ^ 63) (hb : b < 2 ^ 63) : i64div a b = a / b := by
  unfold i64div
  rw [i64toInt_small a ha, i64toInt_small b hb]
  have : Int.tdiv (a : Int) (b : Int) = ((a / b : Nat) : Int) := rfl
  rw [this, i64ofInt_nat]
  have := Nat.div_le_self a b
  unfold W; omega

theorem i64gt_small (a b : Nat) (ha : a < 2 ^ 63) (hb : b < 2 ^ 63) : i64gt a b = decide (b < a) := by
  simp only [i64gt, i64toInt_small a ha, i64toInt_small b hb, Nat.cast_lt]

theorem u64add_small (a b : Nat) (h : a + b < W) : u64add a b = a + b := by
  unfold u64add; exact Nat.mod_eq_of_lt h

theorem u64sub_small (a b : Nat) (hb : b ≤ a) (ha : a < W) : u64sub a b = a - b := by
  unfold u64sub; unfold W at *; omega

theorem len64_eq (q : Nat) : len64 q = KS.bitLen q := rfl

theorem len64_le (q : Nat) (hq : q < W) : len64 q ≤ 64 := by
  unfold len64
  split
  · omega
  · next h =>
    have : Nat.log2 q < 64 := (Nat.log2_lt h).2 (by simpa [W] using hq)
    omega

/-! ### counts and levels -/

theorem QCount_eq (qs : List Nat) : QCount qs = qs.length := rfl
theorem PCount_eq (ps : List Nat) : PCount ps = ps.length := rfl

/-- `MaxLevelQ() = QCount() - 1` as a Go `int` (`-1` for an empty chain). -/
theorem MaxLevelQ_eq (qs : List Nat) (h : qs.length < 2 ^ 63) :
    i64toInt (MaxLevelQ qs) = (qs.length : Int) - 1 := by
  unfold MaxLevelQ
  rw [QCount_eq, ← i64ofInt_pred _ h]
  by_cases h0 : qs.length = 0
  · rw [h0]; decide
  · have : ((qs.length : Int) - 1) = ((qs.length - 1 : Nat) : Int) := by omega
    rw [this, i64ofInt_nat _ (by unfold W; omega), i64toInt_small _ (by omega)]

theorem MaxLevelP_eq (ps : List Nat) (h : ps.length < 2 ^ 63) :
    i64toInt (MaxLevelP ps) = (ps.length : Int) - 1 := MaxLevelQ_eq ps h

theorem MaxLevel_eq (qs : List Nat) : MaxLevel qs = MaxLevelQ qs := rfl

/-! ### digit counts (C04) -/

/-- **`BaseRNSDecompositionVectorSize`, regenerated = the C04 model**; `levelP` is the word of the
    `int` `nP - 1` (`nP = 0`: the code's `levelP == -1`). -/
theorem BaseRNS_eq (levelQ nP : Nat) (hq : levelQ < 2 ^ 62) (hp : nP < 2 ^ 62) :
    BaseRNSDecompositionVectorSize levelQ (i64ofInt ((nP : Int) - 1))
      = KS.baseRNSDecompositionVectorSize levelQ nP := by
  unfold BaseRNSDecompositionVectorSize KS.baseRNSDecompositionVectorSize
  rw [i64ofInt_pred nP (by omega)]
  by_cases h0 : nP = 0
  · subst h0
    have h1 : u64eq (u64sub 0 1) (u64neg 1) = true := by decide
    rw [h1, if_pos rfl, if_pos rfl]
    exact u64add_small _ _ (by unfold W; omega)
  · have hs : u64sub nP 1 = nP - 1 := u64sub_small _ _ (by omega) (by unfold W; omega)
    have hne : ¬ (nP - 1 = u64neg 1) := by
      have : u64neg 1 = W - 1 := by decide
      rw [this]; unfold W; omega
    rw [hs]
    simp only [decide_eq_true_eq, if_neg hne, if_neg h0]
    have h2 : u64add levelQ (nP - 1) = levelQ + (nP - 1) := u64add_small _ _ (by unfold W; omega)
    have h3 : u64add (levelQ + (nP - 1)) 1 = levelQ + nP := by
      rw [u64add_small _ _ (by unfold W; omega)]; omega
    have h4 : u64add (nP - 1) 1 = nP := by
      rw [u64add_small _ _ (by unfold W; omega)]; omega
    rw [h2, h3, h4, i64div_small _ _ (by omega) (by omega)]

/-- it is the ceiling of `(levelQ+1)/(levelP+1)`. -/
theorem BaseRNS_ceil (levelQ nP : Nat) (hq : levelQ < 2 ^ 62) (hp : nP < 2 ^ 62) (h0 : 0 < nP) :
    let d := BaseRNSDecompositionVectorSize levelQ (i64ofInt ((nP : Int) - 1))
    (levelQ + 1) ≤ d * nP ∧ d * nP < (levelQ + 1) + nP := by
  intro d
  have hd : d = (levelQ + nP) / nP := by
    show BaseRNSDecompositionVectorSize _ _ = _
    rw [BaseRNS_eq levelQ nP hq hp]
    unfold KS.baseRNSDecompositionVectorSize
    rw [if_neg (by omega)]
  have h1 := Nat.div_add_mod (levelQ + nP) nP
  have h2 := Nat.mod_lt (levelQ + nP) h0
  rw [hd, Nat.mul_comm]
  constructor <;> omega

theorem range_map_getD {α : Type} (xs : List Nat) (f : Nat → α) :
    (List.range xs.length).map (fun i => f (xs.getD i 0)) = xs.map f := by
  apply List.ext_getElem
  · simp
  · intro i h1 h2
    simp only [List.length_map, List.length_range] at h1
    simp [List.getD_eq_getElem?_getD, List.getElem?_eq_getElem h1]

/-- **`BaseTwoDecompositionVectorSize`, regenerated = the C04 model** (`⌈bitlen(q)/w⌉` per prime of the
    full chain; all ones for `w = 0` or `levelP > 0`; `levelQ` is ignored by the code). -/
theorem BaseTwo_eq (qs : List Nat) (levelQ nP w : Nat) (hp : nP < 2 ^ 62) (hw : w < 2 ^ 62)
    (hqs : ∀ q ∈ qs, q < W) :
    BaseTwoDecompositionVectorSize qs levelQ (i64ofInt ((nP : Int) - 1)) w
      = KS.baseTwoDecompositionVectorSize qs nP w := by
  unfold BaseTwoDecompositionVectorSize KS.baseTwoDecompositionVectorSize
  rw [i64ofInt_pred nP (by omega)]
  have hlen : sliceLen (sliceMake (sliceLen qs)) = qs.length := by
    simp [sliceLen, sliceMake]
  have hcond : ((u64eq w 0) || (i64gt (u64sub nP 1) 0)) = decide (w = 0 ∨ nP ≥ 2) := by
    by_cases h0 : nP = 0
    · subst h0
      have : i64gt (u64sub 0 1) 0 = false := by decide
      rw [this]; simp
    · rw [u64sub_small _ _ (by omega) (by unfold W; omega), i64gt_small _ _ (by omega) (by omega)]
      simp only [Bool.decide_or]
      congr 1
      simp only [decide_eq_decide]
      omega
  simp only [hcond, hlen]
  by_cases hc : w = 0 ∨ nP ≥ 2
  · simp only [decide_eq_true hc, if_true, if_pos hc]
    exact range_map_getD qs (fun _ => 1)
  · simp only [decide_eq_false hc, if_neg hc, Bool.false_eq_true, if_false]
    have hw0 : 0 < w := by omega
    have key : ∀ q, q ∈ qs → (i64div (u64sub (u64add (len64 q) w) 1) w) = KS.baseTwoDigits q w := by
      intro q hq
      have hl := len64_le q (hqs q hq)
      rw [u64add_small _ _ (by unfold W; omega), u64sub_small _ _ (by omega) (by unfold W; omega),
        i64div_small _ _ (by omega) (by omega)]
      rfl
    have : (List.range qs.length).map (fun i => i64div (u64sub (u64add (len64 (sliceAt qs i)) w) 1) w)
        = qs.map (fun q => i64div (u64sub (u64add (len64 q) w) 1) w) :=
      range_map_getD qs (fun q => i64div (u64sub (u64add (len64 q) w) 1) w)
    rw [this]
    exact List.map_congr_left key

/-! ### `MaxBit` (range-fold loops) -/

theorem Max_int_small (a b : Nat) (ha : a < 2 ^ 63) (hb : b < 2 ^ 63) : Max_int a b = max a b := by
  unfold Max_int
  have : i64ge a b = decide (b ≤ a) := by
    simp only [i64ge, i64toInt_small a ha, i64toInt_small b hb, Nat.cast_le]
  simp only [this, decide_eq_true_eq]
  split <;> omega

/-- the maximal bit length of a list of moduli. -/
def maxBitLen (c : Nat) (qs : List Nat) : Nat := qs.foldl (fun c q => max c (KS.bitLen q)) c

theorem maxBitLen_le (qs : List Nat) (hqs : ∀ q ∈ qs, q < W) : ∀ c, c ≤ 64 → maxBitLen c qs ≤ 64 := by
  induction qs with
  | nil => intro c hc; exact hc
  | cons q t ih =>
    intro c hc
    unfold maxBitLen
    rw [List.foldl_cons]
    apply ih (fun x hx => hqs x (List.mem_cons_of_mem _ hx))
    have := len64_le q (hqs q List.mem_cons_self)
    rw [len64_eq] at this
    omega

theorem fold_Max_int (qs : List Nat) (hqs : ∀ q ∈ qs, q < W) : ∀ c, c ≤ 64 →
    List.foldl (fun (st_ : Nat) (q : Nat) => Max_int st_ (len64 q)) c qs = maxBitLen c qs := by
  induction qs with
  | nil => intro c _; rfl
  | cons q t ih =>
    intro c hc
    unfold maxBitLen
    rw [List.foldl_cons, List.foldl_cons]
    have hl := len64_le q (hqs q List.mem_cons_self)
    rw [Max_int_small _ _ (by omega) (by omega), len64_eq]
    apply ih (fun x hx => hqs x (List.mem_cons_of_mem _ hx))
    rw [len64_eq] at hl
    omega

/-- **`MaxBit(levelQ, levelP)`, regenerated = `max(max bitLen(Q[:levelQ+1]), max bitLen(P[:levelP+1]))`**
    (the P part only if there is a P). -/
theorem MaxBit_eq (qs ps : List Nat) (lq lp : Nat) (hlq : lq < 2 ^ 62) (hlp : lp < 2 ^ 62)
    (hqs : ∀ q ∈ qs, q < W) (hps : ∀ q ∈ ps, q < W) :
    MaxBit qs ps lq lp
      = if ps.length ≠ 0 then maxBitLen (maxBitLen 0 (qs.take (lq + 1))) (ps.take (lp + 1))
        else maxBitLen 0 (qs.take (lq + 1)) := by
  unfold MaxBit
  simp only [Q, P, PCount_eq, sliceTake, u64add_small lq 1 (by unfold W; omega),
    u64add_small lp 1 (by unfold W; omega)]
  have hq' : ∀ q ∈ qs.take (lq + 1), q < W := fun q h => hqs q (List.mem_of_mem_take h)
  have hp' : ∀ q ∈ ps.take (lp + 1), q < W := fun q h => hps q (List.mem_of_mem_take h)
  rw [fold_Max_int _ hq' 0 (by omega)]
  by_cases h0 : ps.length = 0
  · simp [h0]
  · have hle := maxBitLen_le _ hq' 0 (by omega)
    simp only [decide_eq_true_eq, ne_eq, h0, not_false_eq_true, if_true]
    rw [fold_Max_int _ hp' _ hle]

/-! ### float64 arithmetic (the PRE-FIX formula `int(math.Exp2(64) / float64(max))` of the margins,
     still printed by go2lean should it come back) and the margins -/

theorem f64ofU64_exact (n : Nat) (h : n < 2 ^ 53) : f64ofU64 n = n := by
  unfold f64ofU64; rw [if_pos (by omega)]

/-- rounding error of `float64(n)`: at most half a unit in the last place `2^s`, `s = ⌊log2 n⌋ - 52`. -/
theorem f64ofU64_near (n : Nat) (h : 2 ^ 53 ≤ n) :
    2 * f64ofU64 n ≤ 2 * n + 2 ^ (Nat.log2 n - 52) ∧ 2 * n ≤ 2 * f64ofU64 n + 2 ^ (Nat.log2 n - 52) := by
  unfold f64ofU64
  rw [if_neg (by omega)]
  simp only
  have hSpos : 0 < 2 ^ (Nat.log2 n - 52) := Nat.two_pow_pos _
  generalize 2 ^ (Nat.log2 n - 52) = S at *
  have hdm := Nat.div_add_mod n S
  have hr := Nat.mod_lt n hSpos
  rw [Nat.mul_comm] at hdm
  generalize n / S = m at *
  generalize n % S = r at *
  split
  · next hc =>
    rw [Nat.add_mul, Nat.one_mul]
    generalize m * S = X at *
    rcases hc with hc | ⟨hc, _⟩ <;> omega
  · next hc =>
    have : ¬ (S < 2 * r) := fun h => hc (Or.inl h)
    generalize m * S = X at *
    omega

/-- the arithmetic core of `f64quoToInt_bounds`. -/
theorem quo_aux (k m p E m' : Nat) (hE0 : 0 < E) (hpE : p ≤ E) (hlo : k * E ≤ m * p)
    (hhi : m * p < (k + 1) * E) (hm' : m' = m ∨ m' = m + 1) :
    k ≤ m' * p / E ∧ m' * p / E ≤ k + 1 := by
  have hle : m * p ≤ m' * p := Nat.mul_le_mul_right _ (by omega)
  have hge : m' * p ≤ m * p + p := by
    rcases hm' with rfl | rfl
    · omega
    · rw [Nat.add_mul, Nat.one_mul]
  constructor
  · rw [Nat.le_div_iff_mul_le hE0]; omega
  · apply Nat.le_of_lt_succ
    rw [Nat.div_lt_iff_lt_mul hE0, Nat.succ_mul]
    omega

/-- `int(a / b)` in float64 is the integer quotient, or one more (quotients below `2^53`). -/
theorem f64quoToInt_bounds (a b : Nat) (hb : 0 < b) (hab : b ≤ a) (h53 : a / b < 2 ^ 53) :
    a / b ≤ f64quoToInt a b ∧ f64quoToInt a b ≤ a / b + 1 := by
  have hk1 : 1 ≤ a / b := (Nat.one_le_div_iff hb).2 hab
  have hk0 : a / b ≠ 0 := by omega
  have he1 : 2 ^ Nat.log2 (a / b) ≤ a / b := Nat.log2_self_le hk0
  have he52 : Nat.log2 (a / b) ≤ 52 := by
    have := (Nat.log2_lt hk0).2 h53
    omega
  unfold f64quoToInt
  simp only
  generalize he : Nat.log2 (a / b) = e at *
  have hE : (4503599627370496 : Nat) = 2 ^ (52 - e) * 2 ^ e := by
    have h52 : (4503599627370496 : Nat) = 2 ^ 52 := by norm_num
    rw [h52, ← Nat.pow_add]; congr 1; omega
  have hEpos : 0 < 2 ^ e := Nat.two_pow_pos e
  have hdpos : 0 < b * 2 ^ e := Nat.mul_pos hb hEpos
  have hkb : a / b * b ≤ a := Nat.div_mul_le_self a b
  -- lower bound on m
  have hm_lo : a / b * 2 ^ (52 - e) ≤ a * 4503599627370496 / (b * 2 ^ e) := by
    rw [Nat.le_div_iff_mul_le hdpos, hE]
    calc a / b * 2 ^ (52 - e) * (b * 2 ^ e) = (a / b * b) * (2 ^ (52 - e) * 2 ^ e) := by ring
      _ ≤ a * (2 ^ (52 - e) * 2 ^ e) := Nat.mul_le_mul_right _ hkb
  have hE0 : (0 : Nat) < 4503599627370496 := by norm_num
  have hpE : 2 ^ e ≤ 4503599627370496 := by
    have : (4503599627370496 : Nat) = 2 ^ 52 := by norm_num
    rw [this]; exact Nat.pow_le_pow_right (by norm_num) he52
  -- k·E ≤ m·p
  have hlo : a / b * 4503599627370496 ≤ a * 4503599627370496 / (b * 2 ^ e) * 2 ^ e := by
    calc a / b * 4503599627370496 = (a / b * 2 ^ (52 - e)) * 2 ^ e := by rw [hE]; ring
      _ ≤ _ := Nat.mul_le_mul_right _ hm_lo
  -- m·p < (k+1)·E
  have h1 : a * 4503599627370496 / (b * 2 ^ e) * (b * 2 ^ e) ≤ a * 4503599627370496 := Nat.div_mul_le_self _ _
  have h2 : a < b * (a / b + 1) := Nat.lt_mul_div_succ a hb
  have hhi : a * 4503599627370496 / (b * 2 ^ e) * 2 ^ e < (a / b + 1) * 4503599627370496 := by
    apply Nat.lt_of_mul_lt_mul_left (a := b)
    calc b * (a * 4503599627370496 / (b * 2 ^ e) * 2 ^ e)
        = a * 4503599627370496 / (b * 2 ^ e) * (b * 2 ^ e) := by ring
      _ ≤ a * 4503599627370496 := h1
      _ < (b * (a / b + 1)) * 4503599627370496 := Nat.mul_lt_mul_of_pos_right h2 hE0
      _ = b * ((a / b + 1) * 4503599627370496) := by ring
  have := quo_aux (a / b) (a * 4503599627370496 / (b * 2 ^ e)) (2 ^ e) 4503599627370496
  split
  · exact this _ hE0 hpE hlo hhi (Or.inr rfl)
  · exact this _ hE0 hpE hlo hhi (Or.inl rfl)

/-- `float64(n) ≤ 2^64` as a value (the rounding never leaves the binade structure of `2^64`). -/
theorem f64ofU64_le_W (n : Nat) (h : n < W) : f64ofU64 n ≤ W := by
  by_cases h53 : n < 2 ^ 53
  · rw [f64ofU64_exact n h53]; omega
  · unfold f64ofU64
    rw [if_neg (by omega)]
    simp only
    have hn0 : n ≠ 0 := by omega
    have hl : Nat.log2 n < 64 := (Nat.log2_lt hn0).2 (by simpa [W] using h)
    have hdvd : W = 2 ^ (64 - (Nat.log2 n - 52)) * 2 ^ (Nat.log2 n - 52) := by
      rw [← Nat.pow_add, W_eq]; congr 1; omega
    generalize hS : 2 ^ (Nat.log2 n - 52) = S at *
    have hSpos : 0 < S := by rw [← hS]; exact Nat.two_pow_pos _
    generalize 2 ^ (64 - (Nat.log2 n - 52)) = C at *
    have hlt : n / S < C := by
      rw [Nat.div_lt_iff_lt_mul hSpos, ← hdvd]; exact h
    have : ∀ m', m' ≤ n / S + 1 → m' * S ≤ W := by
      intro m' hm'
      rw [hdvd]; exact Nat.mul_le_mul_right _ (by omega)
    split
    · exact this _ (Nat.le_refl _)
    · exact this _ (by omega)

theorem f64ofU64_ge (n : Nat) (h12 : 2 ^ 12 ≤ n) (hW : n < W) : 2 ^ 12 ≤ f64ofU64 n := by
  by_cases h53 : n < 2 ^ 53
  · rw [f64ofU64_exact n h53]; exact h12
  · have hn := f64ofU64_near n (by omega)
    have hn0 : n ≠ 0 := by omega
    have hl : Nat.log2 n < 64 := (Nat.log2_lt hn0).2 (by simpa [W] using hW)
    have : 2 ^ (Nat.log2 n - 52) ≤ 2 ^ 11 := Nat.pow_le_pow_right (by norm_num) (by omega)
    omega

/-- **the float64 margin is the integer quotient by the ROUNDED modulus, or one more**
    (`2^12 ≤ M < 2^64`). -/
theorem margin_bounds (M : Nat) (h12 : 2 ^ 12 ≤ M) (hW : M < W) :
    W / f64ofU64 M ≤ f64quoToInt W (f64ofU64 M) ∧ f64quoToInt W (f64ofU64 M) ≤ W / f64ofU64 M + 1 := by
  have hf := f64ofU64_ge M h12 hW
  apply f64quoToInt_bounds W (f64ofU64 M) (by omega) (f64ofU64_le_W M hW)
  have : W / f64ofU64 M ≤ W / 2 ^ 12 := Nat.div_le_div_left hf (by norm_num)
  have h2 : W / 2 ^ 12 = 2 ^ 52 := by decide
  omega

theorem slicesMax_take (qs : List Nat) (k : Nat) : slicesMax (sliceTake qs k) = (qs.take k).foldl max 0 := rfl

/-- **`QiOverflowMargin(level)`, regenerated** (after fix c11167e): `-1` for an empty chain, else the
    integer quotient `(2^64 - 1) / max(Q[:level+1])`. -/
theorem QiOverflowMargin_eq (qs : List Nat) (level : Nat) (hl : level < 2 ^ 62) :
    QiOverflowMargin qs level
      = if qs = [] then W - 1 else (W - 1) / (qs.take (level + 1)).foldl max 0 := by
  unfold QiOverflowMargin
  rw [u64add_small level 1 (by unfold W; omega), slicesMax_take]
  by_cases h : qs = []
  · subst h; simp [sliceLen]; decide
  · have : qs.length ≠ 0 := by simpa using h
    simp [sliceLen, this, h, u64div, W]

/-- **`PiOverflowMargin(level)`, regenerated**: `-1` without `P` (or for a negative level, below). -/
theorem PiOverflowMargin_eq (ps : List Nat) (level : Nat) (hl : level < 2 ^ 62) :
    PiOverflowMargin ps level
      = if ps = [] then W - 1 else (W - 1) / (ps.take (level + 1)).foldl max 0 := by
  unfold PiOverflowMargin
  rw [u64add_small level 1 (by unfold W; omega), slicesMax_take]
  have hneg : i64lt level 0 = false := by
    have h0 : i64toInt 0 = 0 := by decide
    simp only [i64lt, i64toInt_small level (by omega), h0, decide_eq_false_iff_not]
    omega
  by_cases h : ps = []
  · subst h; simp [sliceLen]; decide
  · have : ps.length ≠ 0 := by simpa using h
    simp [sliceLen, this, h, hneg, u64div, W]

theorem PiOverflowMargin_neg (ps : List Nat) : PiOverflowMargin ps (W - 1) = W - 1 := by
  unfold PiOverflowMargin
  have : i64lt (W - 1) 0 = true := by decide
  simp only [this, Bool.or_true, if_true]
  decide

/-- `(2^64 - 1) / M = 2^64 / M` unless `M` divides `2^64`; in particular for every odd `M > 1`. -/
theorem pred_div_odd (M : Nat) (hodd : M % 2 = 1) (h1 : 1 < M) : (W - 1) / M = W / M := by
  have hM0 : 0 < M := by omega
  have hnd : W % M ≠ 0 := by
    intro h0
    have hdvd : M ∣ W := Nat.dvd_of_mod_eq_zero h0
    rw [W_eq] at hdvd
    obtain ⟨j, _, hj⟩ := (Nat.dvd_prime_pow Nat.prime_two).1 hdvd
    cases j with
    | zero => rw [Nat.pow_zero] at hj; omega
    | succ j =>
      have : M % 2 = 0 := by rw [hj, Nat.pow_succ]; exact Nat.mul_mod_left _ _
      omega
  have h1 := Nat.div_add_mod W M
  have h2 := Nat.mod_lt W hM0
  apply Nat.div_eq_of_lt_le
  · rw [Nat.mul_comm]; omega
  · rw [Nat.add_mul, Nat.one_mul, Nat.mul_comm]; omega

/-- the C12 model's margin (`floor(2^64 / max)`) is the regenerated one at the top level of the chain,
    for every chain whose largest modulus is odd and `> 1`. -/
theorem overflowMargin_eq (qs : List Nat) (hlen : qs.length < 2 ^ 62)
    (hodd : qs ≠ [] → (qs.foldl max 0) % 2 = 1) (hM : qs ≠ [] → 2 < qs.foldl max 0) :
    i64toInt (QiOverflowMargin qs (qs.length - 1)) = Model.LinTrans.Lazy.overflowMargin qs := by
  rw [QiOverflowMargin_eq qs _ (by omega)]
  unfold Model.LinTrans.Lazy.overflowMargin
  by_cases h : qs = []
  · subst h; decide
  · have hl : qs.length ≠ 0 := by simpa using h
    have ht : qs.take (qs.length - 1 + 1) = qs := by
      rw [Nat.sub_add_cancel (by omega)]; exact List.take_length
    have he : qs.isEmpty = false := by simpa using h
    have hM' := hM h
    rw [if_neg h, ht, he, pred_div_odd _ (hodd h) (by omega)]
    simp only [Bool.false_eq_true, if_false]
    have hW : (2 : Nat) ^ 64 = W := by decide
    rw [hW]
    apply i64toInt_small
    have : W / qs.foldl max 0 ≤ W / 3 := Nat.div_le_div_left (by omega) (by norm_num)
    have h3 : W / 3 < 2 ^ 63 := by decide
    omega

end Lattigo.Proofs.GenParams
