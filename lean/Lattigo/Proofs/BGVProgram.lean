/-
  `step_sound` (all single-result operations) and `program_sound` (straight-line programs).
-/
import Lattigo.Proofs.BGVStep

namespace Lattigo.BGV

/-- the Z_t interpreter of one operation on messages (`mo` = message of the accumulator) -/
def sem (t : Nat) (op : Op) (ma mb mo : List (ZMod t)) : List (ZMod t) :=
  match op with
  | .add => zadd ma mb
  | .sub => zsub ma mb
  | .mul | .mulRelin | .mulSI | .mulRelinSI => zmul ma mb
  | .mta | .mrta => zadd mo (zmul ma mb)
  | .rescale | .relin | .drop | .matchSL => ma

structure StepHyp (c : Cfg) (op : Op) (o : Out) (a : Reg) (b : Arg) : Prop where
  ha  : (a.scale : ZMod c.t) ≠ 0
  hb  : ∀ rb, b.reg? a = some rb → (rb.scale : ZMod c.t) ≠ 0
  hR  : ∀ R, o = .into R → (R.scale : ZMod c.t) ≠ 0

/-- **step_sound.** Every call that returns a single result register decodes to the Z_t operation on
    the decoded operands, and the recorded scale stays invertible. -/
theorem step_sound (c : Cfg) [Fact c.t.Prime] (ht : c.t < 2 ^ 64) (hQ : ∀ q ∈ c.qs, (q : ZMod c.t) ≠ 0)
    (op : Op) (o : Out) (a : Reg) (b : Arg) (r : Reg) (H : StepHyp c op o a b)
    (h : step c op o a b = .ok [r]) :
    msg c.t r = sem c.t op (msg c.t a) (argMsg c.t c.n a b) (msg c.t (outReg c o a 0 0))
    ∧ (r.scale : ZMod c.t) ≠ 0 := by
  cases op
  case add =>
    have h' : addSub c false o a b = .ok [r] := h
    exact ⟨by simpa [sem] using addSub_sound c ht false o a b r H.ha H.hb h',
      addSub_scale_ne c ht false o a b r H.ha H.hb h'⟩
  case sub =>
    have h' : addSub c true o a b = .ok [r] := h
    exact ⟨by simpa [sem] using addSub_sound c ht true o a b r H.ha H.hb h',
      addSub_scale_ne c ht true o a b r H.ha H.hb h'⟩
  case mul => exact mulOp_sound c ht hQ .mul o a b r H.ha H.hb h
  case mulRelin => exact mulOp_sound c ht hQ .mulRelin o a b r H.ha H.hb h
  case mulSI => exact mulOp_sound c ht hQ .mulSI o a b r H.ha H.hb h
  case mulRelinSI => exact mulOp_sound c ht hQ .mulRelinSI o a b r H.ha H.hb h
  case mta =>
    have h' : accOp c false o a b = .ok [r] := h
    obtain ⟨R, ho, hm, hne⟩ := accOp_sound c ht false o a b r H.ha H.hb H.hR h'
    subst ho
    exact ⟨hm, hne⟩
  case mrta =>
    have h' : accOp c true o a b = .ok [r] := h
    obtain ⟨R, ho, hm, hne⟩ := accOp_sound c ht true o a b r H.ha H.hb H.hR h'
    subst ho
    exact ⟨hm, hne⟩
  case rescale =>
    have h' : rescaleOp c o a = .ok [r] := h
    have := rescaleOp_sound c ht hQ o a r H.ha h'
    exact ⟨this.1, this.2.1⟩
  case relin =>
    have h' : relinOp c o a = .ok [r] := h
    have := relinOp_sound c o a r h'
    exact ⟨this.1, by rw [this.2.1]; exact H.ha⟩
  case drop =>
    cases b
    case k k =>
      have h' : dropOp a k = .ok [r] := h
      have := dropOp_sound c.t a k r h'
      exact ⟨this.1, by rw [this.2.1]; exact H.ha⟩
    all_goals (exact absurd h (by simp [step]))
  case matchSL =>
    cases b
    case reg rb => exact absurd h (by simp [step, matchOp])
    all_goals (exact absurd h (by simp [step]))

/-! ### programs -/

/-- message of an instruction's second operand, read from the message file -/
def argMsgZ (t n : Nat) (mf : List (List (ZMod t))) (ma : List (ZMod t)) (i : Instr) : List (ZMod t) :=
  match i.b with
  | .idx j => if j = i.a then ma else mf.getD j []
  | .imm b =>
    if b.isScalar then List.replicate ma.length ((b.scalar t : Nat) : ZMod t)
    else cz t ((b.vec? t n).getD [])

def dstOf (i : Instr) : Nat :=
  match i.out with
  | .new d => d
  | .inp => i.a
  | .into j => j

/-- the Z_t interpreter of one instruction -/
def execZ (t n : Nat) (mf : List (List (ZMod t))) (i : Instr) : List (List (ZMod t)) :=
  let ma := mf.getD i.a []
  mf.set (dstOf i) (sem t i.op ma (argMsgZ t n mf ma i) (mf.getD (dstOf i) []))

def runZ (t n : Nat) : List Instr → List (List (ZMod t)) → List (List (ZMod t))
  | [], mf => mf
  | i :: is, mf => runZ t n is (execZ t n mf i)

def AllGood (t : Nat) (rf : List Reg) : Prop := ∀ r ∈ rf, (r.scale : ZMod t) ≠ 0

theorem msg_length (t : Nat) (r : Reg) : (msg t r).length = r.slots.length := by simp [msg, cz]

theorem getD_map_msg (t : Nat) (rf : List Reg) (k : Nat) (a : Reg) (h : rf[k]? = some a) :
    (rf.map (msg t)).getD k [] = msg t a := by
  simp [List.getD_eq_getElem?_getD, List.getElem?_map, h]

theorem sem_mo (t : Nat) (op : Op) (ma mb mo mo' : List (ZMod t)) (h1 : op ≠ .mta) (h2 : op ≠ .mrta) :
    sem t op ma mb mo = sem t op ma mb mo' := by
  cases op <;> simp [sem] at h1 h2 ⊢

theorem arg_spec (c : Cfg) (rf : List Reg) (i : Instr) (a : Reg) (b : Arg) (hg : AllGood c.t rf)
    (ha : rf[i.a]? = some a) (hb : i.arg rf = some b) :
    (∀ rb, b.reg? a = some rb → (rb.scale : ZMod c.t) ≠ 0)
    ∧ argMsg c.t c.n a b = argMsgZ c.t c.n (rf.map (msg c.t)) (msg c.t a) i := by
  unfold Instr.arg at hb
  unfold argMsgZ
  cases hib : i.b with
  | idx j =>
    simp only [hib] at hb ⊢
    by_cases hj : j = i.a
    · rw [if_pos hj] at hb
      cases hb
      refine ⟨?_, ?_⟩
      · intro rb h; simp only [Arg.reg?] at h; cases h; exact hg a (List.mem_of_getElem? ha)
      · simp [argMsg, Arg.reg?, hj]
    · rw [if_neg hj] at hb
      cases hrj : rf[j]? with
      | none => simp [hrj] at hb
      | some rj =>
        simp only [hrj, Option.map_some] at hb
        cases hb
        refine ⟨?_, ?_⟩
        · intro rb h; simp only [Arg.reg?] at h; cases h; exact hg rj (List.mem_of_getElem? hrj)
        · simp [argMsg, Arg.reg?, hj, hrj]
  | imm b0 =>
    simp only [hib] at hb ⊢
    cases b0 <;> simp at hb <;> subst hb <;>
      exact ⟨by intro rb h; simp [Arg.reg?] at h, by simp [argMsg, Arg.reg?, msg_length]⟩

theorem exec_sound (c : Cfg) [Fact c.t.Prime] (ht : c.t < 2 ^ 64) (hQ : ∀ q ∈ c.qs, (q : ZMod c.t) ≠ 0)
    (rf rf' : List Reg) (i : Instr) (hg : AllGood c.t rf)
    (h : exec c rf i = .ok rf') :
    rf'.map (msg c.t) = execZ c.t c.n (rf.map (msg c.t)) i ∧ AllGood c.t rf' := by
  unfold exec at h
  cases ha : rf[i.a]? with
  | none => simp [ha] at h
  | some a =>
    cases hb : i.arg rf with
    | none => simp [ha, hb] at h
    | some b =>
      cases ho : i.outSpec rf with
      | none => simp [ha, hb, ho] at h
      | some od =>
        obtain ⟨o, dst⟩ := od
        simp only [ha, hb, ho] at h
        by_cases hgd : guardOK c i.op o a b = true
        · rw [if_pos hgd] at h
          obtain ⟨hbs, hbm⟩ := arg_spec c rf i a b hg ha hb
          -- facts about the output placement
          have hdst : dst = dstOf i ∧ (∀ R, o = .into R → rf[dst]? = some R) := by
            unfold Instr.outSpec at ho
            unfold dstOf
            cases hio : i.out with
            | new d => simp only [hio] at ho; cases ho; exact ⟨rfl, by intro R h; cases h⟩
            | inp => simp only [hio] at ho; cases ho; exact ⟨rfl, by intro R h; cases h⟩
            | into j =>
              simp only [hio] at ho
              cases hrj : rf[j]? with
              | none => simp [hrj] at ho
              | some rj =>
                simp only [hrj, Option.map_some] at ho
                cases ho
                exact ⟨rfl, by intro R h; cases h; exact hrj⟩
          have hgd' := hgd
          simp only [guardOK, Bool.and_eq_true, Bool.or_eq_true, Bool.not_eq_true', bne_iff_ne, ne_eq,
            beq_iff_eq] at hgd'
          have H : StepHyp c i.op o a b :=
            { ha := hg a (List.mem_of_getElem? ha)
              hb := hbs
              hR := fun R hR => hg R (List.mem_of_getElem? (hdst.2 R hR))
            }
          cases hs : step c i.op o a b with
          | error e => simp [hs] at h
          | ok rs =>
            rcases rs with _ | ⟨r, _ | ⟨r2, rs⟩⟩
            · simp [hs] at h
            · simp only [hs] at h
              cases h
              obtain ⟨hm, hne⟩ := step_sound c ht hQ i.op o a b r H hs
              refine ⟨?_, ?_⟩
              · unfold execZ
                rw [List.map_set, hdst.1, getD_map_msg c.t rf i.a a ha, hm, hbm]
                congr 1
                by_cases hacc : i.op = .mta ∨ i.op = .mrta
                · -- accumulator: the output register is `into R`
                  have : ∃ R, o = .into R := by
                    rcases hacc with h1 | h1 <;> rw [h1] at hs <;> simp only [step, accOp] at hs <;>
                      cases o <;> simp at hs ⊢
                  obtain ⟨R, hR⟩ := this
                  subst hR
                  rw [← hdst.1, getD_map_msg c.t rf dst R (hdst.2 R rfl)]
                  rfl
                · exact sem_mo _ _ _ _ _ _ (fun h => hacc (Or.inl h)) (fun h => hacc (Or.inr h))
              · intro r' hr'
                rcases List.mem_or_eq_of_mem_set hr' with h1 | h1
                · exact hg r' h1
                · rw [h1]; exact hne
            · simp [hs] at h
        · rw [if_neg hgd] at h; cases h

/-- **program_sound.** A straight-line program that runs on the (guarded) register machine computes,
    on the decoded messages, exactly what the Z_t interpreter computes. -/
theorem program_sound (c : Cfg) [Fact c.t.Prime] (ht : c.t < 2 ^ 64) (hQ : ∀ q ∈ c.qs, (q : ZMod c.t) ≠ 0) :
    ∀ (prog : List Instr) (rf rf' : List Reg), AllGood c.t rf → run c prog rf = .ok rf' →
      rf'.map (msg c.t) = runZ c.t c.n prog (rf.map (msg c.t)) ∧ AllGood c.t rf' := by
  intro prog
  induction prog with
  | nil =>
    intro rf rf' hg h
    simp only [run] at h
    cases h
    exact ⟨rfl, hg⟩
  | cons i is ih =>
    intro rf rf' hg h
    simp only [run] at h
    cases he : exec c rf i with
    | error e => simp [he] at h
    | ok rf1 =>
      simp only [he] at h
      obtain ⟨hm, hg1⟩ := exec_sound c ht hQ rf rf1 i hg he
      obtain ⟨hm2, hg2⟩ := ih rf1 rf' hg1 h
      exact ⟨by rw [hm2, hm]; rfl, hg2⟩

end Lattigo.BGV
