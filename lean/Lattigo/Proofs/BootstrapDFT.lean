/-
  C18 — the factorised homomorphic DFT with exact entries:
  a matrix in diagonal form times the next layer is the composition of the operators; every merge
  schedule gives the same operator (the composition of all butterfly layers); each decoding layer
  undoes the encoding layer of the same size up to the factor 2; hence S2C ∘ C2S = 2^logSlots · σ… · id.
-/
import Lattigo.Proofs.BootstrapIndex
import Mathlib.Tactic.Ring
import Mathlib.Tactic.Linarith
import Mathlib.Algebra.Ring.Basic
import Mathlib.Tactic.LinearCombination

namespace Lattigo.Model.Bootstrap

/-- interpretation of an entry in a ring with a root `ζ` -/
def RootEnt.eval {R : Type} [CommRing R] (ζ : R) : RootEnt → R
  | .zero => 0
  | .pos k => ζ ^ k
  | .neg k => -ζ ^ k

/-- a layer with its entries interpreted -/
def Layer.eval {R : Type} [CommRing R] (ζ : R) (l : Layer RootEnt) : Layer R :=
  { rot := l.rot, a := fun x => (l.a x).eval ζ, b := fun x => (l.b x).eval ζ, c := fun x => (l.c x).eval ζ }

end Lattigo.Model.Bootstrap

namespace Lattigo.Proofs.Bootstrap
open Lattigo.Model.Bootstrap

variable {R : Type} [CommRing R]

/-- the operator of one layer: `y_i = a_i x_i + b_i x_{i+rot} + c_i x_{i-rot}` (indices mod `n`) -/
def applyLayer (n : Nat) (l : Layer R) (x : Nat → R) : Nat → R :=
  fun i => l.a i * x i + l.b i * x ((i + l.rot % n) % n) + l.c i * x ((i + (n - l.rot % n)) % n)

/-- `cnt` layers applied one after the other, starting with level `lvl` and going down -/
def applyLayersDown (n : Nat) (layer : Nat → Layer R) : (cnt lvl : Nat) → (Nat → R) → (Nat → R)
  | 0, _, x => x
  | c + 1, lvl, x => applyLayersDown n layer c (lvl - 1) (applyLayer n (layer lvl) x)

/-- the matrices applied in sequence (`EvaluateSequential`) -/
def applyMats (n : Nat) (Ms : List (DiagMat R)) (x : Nat → R) : Nat → R :=
  Ms.foldl (fun y M => applyDiag n M y) x

/-! ### diagonal form -/

theorem applyDiag_addToDiag (n : Nat) (x : Nat → R) (j : Nat) :
    ∀ (M : DiagMat R) (i : Nat) (v : Nat → R),
      applyDiag n (addToDiag M i v) x j = applyDiag n M x j + v j * x ((j + i) % n)
  | [], i, v => by simp [addToDiag, applyDiag]
  | (k, w) :: rest, i, v => by
    unfold addToDiag
    split
    · rename_i h
      subst h
      simp only [applyDiag, List.foldr_cons]
      ring
    · have ih := applyDiag_addToDiag n x j rest i v
      simp only [applyDiag, List.foldr_cons] at ih ⊢
      rw [ih]; ring

theorem applyDiag_nil (n : Nat) (x : Nat → R) (j : Nat) : applyDiag n ([] : DiagMat R) x j = 0 := rfl

theorem applyDiag_cons (n : Nat) (iv : Nat × (Nat → R)) (M : DiagMat R) (x : Nat → R) (j : Nat) :
    applyDiag n (iv :: M) x j = iv.2 j * x ((j + iv.1) % n) + applyDiag n M x j := rfl

/-- `genFFTDiagMatrix` is the layer operator -/
theorem applyDiag_layerDiag (n : Nat) (l : Layer R) (hr : l.rot < n) (x : Nat → R) (j : Nat) (hj : j < n) :
    applyDiag n (layerDiag n l) x j = applyLayer n l x j := by
  unfold layerDiag applyLayer
  rw [applyDiag_addToDiag, applyDiag_addToDiag, applyDiag_addToDiag, applyDiag_nil,
    Nat.mod_eq_of_lt hr, Nat.add_zero, Nat.mod_eq_of_lt hj]
  ring

/-- the accumulating loop of `multiplyFFTMatrixWithNextFFTLevel` -/
theorem applyDiag_mulNext_aux (n : Nat) (l : Layer R) (x : Nat → R) (j : Nat) :
    ∀ (M acc : DiagMat R),
      applyDiag n (M.foldl (fun acc iv =>
        addToDiag
          (addToDiag
            (addToDiag acc iv.1 (fun x => l.a x * iv.2 x))
            ((iv.1 + l.rot % n) % n) (fun x => l.b x * iv.2 ((x + l.rot % n) % n)))
          ((iv.1 + (n - l.rot % n)) % n) (fun x => l.c x * iv.2 ((x + (n - l.rot % n)) % n))) acc) x j
      = applyDiag n acc x j + (l.a j * applyDiag n M x j + l.b j * applyDiag n M x ((j + l.rot % n) % n)
          + l.c j * applyDiag n M x ((j + (n - l.rot % n)) % n))
  | [], acc => by simp [applyDiag_nil]
  | iv :: M, acc => by
    rw [List.foldl_cons, applyDiag_mulNext_aux n l x j M, applyDiag_addToDiag, applyDiag_addToDiag,
      applyDiag_addToDiag, applyDiag_cons, applyDiag_cons, applyDiag_cons]
    have e1 : (j + (iv.1 + l.rot % n) % n) % n = ((j + l.rot % n) % n + iv.1) % n := by
      rw [Nat.add_mod_mod, Nat.mod_add_mod]; congr 1; omega
    have e2 : (j + (iv.1 + (n - l.rot % n)) % n) % n = ((j + (n - l.rot % n)) % n + iv.1) % n := by
      rw [Nat.add_mod_mod, Nat.mod_add_mod]; congr 1; omega
    rw [e1, e2]
    ring

/-- **a matrix in diagonal form times the next layer is the composition of the operators** -/
theorem applyDiag_mulNextLayer (n : Nat) (M : DiagMat R) (l : Layer R) (x : Nat → R) (j : Nat) :
    applyDiag n (mulNextLayer n M l) x j = applyLayer n l (applyDiag n M x) j := by
  unfold mulNextLayer applyLayer
  simp only
  rw [applyDiag_mulNext_aux, applyDiag_nil]
  ring

/-- operators only read their argument at indices below `n` -/
theorem applyDiag_congr (n : Nat) (hn : 0 < n) (M : DiagMat R) (x y : Nat → R) (h : ∀ i < n, x i = y i) (j : Nat) :
    applyDiag n M x j = applyDiag n M y j := by
  induction M with
  | nil => rfl
  | cons iv M ih => rw [applyDiag_cons, applyDiag_cons, ih, h _ (Nat.mod_lt _ hn)]

theorem applyLayer_congr (n : Nat) (hn : 0 < n) (l : Layer R) (x y : Nat → R) (h : ∀ i < n, x i = y i)
    (j : Nat) (hj : j < n) : applyLayer n l x j = applyLayer n l y j := by
  unfold applyLayer
  rw [h j hj, h _ (Nat.mod_lt _ hn), h _ (Nat.mod_lt _ hn)]

theorem applyLayersDown_congr (n : Nat) (hn : 0 < n) (layer : Nat → Layer R) :
    ∀ (c lvl : Nat) (x y : Nat → R), (∀ i < n, x i = y i) →
      ∀ j < n, applyLayersDown n layer c lvl x j = applyLayersDown n layer c lvl y j
  | 0, _, _, _, h => h
  | c + 1, lvl, x, y, h => by
    intro j hj
    exact applyLayersDown_congr n hn layer c (lvl - 1) _ _
      (fun i hi => applyLayer_congr n hn _ x y h i hi) j hj

theorem applyLayer_smul (n : Nat) (l : Layer R) (s : R) (x : Nat → R) (j : Nat) :
    applyLayer n l (fun i => s * x i) j = s * applyLayer n l x j := by
  unfold applyLayer; ring

theorem applyLayersDown_smul (n : Nat) (hn : 0 < n) (layer : Nat → Layer R) (s : R) :
    ∀ (c lvl : Nat) (x : Nat → R), ∀ j < n,
      applyLayersDown n layer c lvl (fun i => s * x i) j = s * applyLayersDown n layer c lvl x j
  | 0, _, _, _, _ => rfl
  | c + 1, lvl, x, j, hj => by
    unfold applyLayersDown
    rw [applyLayersDown_congr n hn layer c (lvl - 1) _ (fun i => s * applyLayer n (layer lvl) x i)
      (fun i _ => applyLayer_smul n _ s x i) j hj]
    exact applyLayersDown_smul n hn layer s c (lvl - 1) _ j hj

theorem applyLayersDown_add (n : Nat) (layer : Nat → Layer R) :
    ∀ (a b lvl : Nat) (x : Nat → R),
      applyLayersDown n layer (a + b) lvl x = applyLayersDown n layer b (lvl - a) (applyLayersDown n layer a lvl x)
  | 0, b, lvl, x => by simp [applyLayersDown]
  | a + 1, b, lvl, x => by
    rw [show a + 1 + b = (a + b) + 1 by omega]
    simp only [applyLayersDown]
    rw [applyLayersDown_add n layer a b (lvl - 1), show lvl - 1 - a = lvl - (a + 1) by omega]

/-- peeling the LAST layer -/
theorem applyLayersDown_succ_last (n : Nat) (layer : Nat → Layer R) (c lvl : Nat) (x : Nat → R) :
    applyLayersDown n layer (c + 1) lvl x = applyLayer n (layer (lvl - c)) (applyLayersDown n layer c lvl x) := by
  rw [applyLayersDown_add n layer c 1 lvl x]
  rfl

/-! ### the merge loop and the factor matrices -/

theorem applyDiag_mergeLayers (n : Nat) (layer : Nat → Layer R) (x : Nat → R) :
    ∀ (c nl : Nat) (M : DiagMat R) (j : Nat),
      applyDiag n (mergeLayers n layer c nl M) x j = applyLayersDown n layer c nl (applyDiag n M x) j
  | 0, _, _, _ => rfl
  | c + 1, nl, M, j => by
    unfold mergeLayers applyLayersDown
    rw [applyDiag_mergeLayers n layer x c (nl - 1) _ j]
    congr 1
    funext i
    exact applyDiag_mulNextLayer n M (layer nl) x i

/-- **every merge schedule gives the composition of all its layers**: the matrices of `GenMatrices`
    (unscaled) applied in sequence are the `Σ ms` layers starting at `level`, whatever the grouping. -/
theorem applyMats_factorMats (n : Nat) (hn : 0 < n) (layer : Nat → Layer R) (L : Nat)
    (hrot : ∀ lvl, 1 ≤ lvl → lvl ≤ L → (layer lvl).rot < n) :
    ∀ (ms : List Nat) (level : Nat) (x : Nat → R), ms.sum ≤ level → (∀ m ∈ ms, 1 ≤ m) → level ≤ L →
      ∀ j < n, applyMats n (factorMats n layer level ms) x j = applyLayersDown n layer ms.sum level x j
  | [], _, _, _, _, _ => by intro j _; simp [applyMats, factorMats, applyLayersDown]
  | m :: ms, level, x, hsum, hpos, hle => by
    intro j hj
    have hm : 1 ≤ m := hpos m (List.mem_cons_self ..)
    have hsum' : m + ms.sum ≤ level := by simpa [List.sum_cons] using hsum
    simp only [factorMats, applyMats, List.foldl_cons, List.sum_cons]
    have ih := applyMats_factorMats n hn layer L hrot ms (level - m)
      (applyDiag n (mergeLayers n layer (m - 1) (level - 1) (layerDiag n (layer level))) x)
      (by omega) (fun y hy => hpos y (List.mem_cons_of_mem _ hy)) (by omega) j hj
    simp only [applyMats] at ih
    rw [ih, applyLayersDown_add n layer m ms.sum level x]
    apply applyLayersDown_congr n hn layer _ _ _ _ _ j hj
    intro i hi
    rw [applyDiag_mergeLayers]
    obtain ⟨m', rfl⟩ : ∃ m', m = m' + 1 := ⟨m - 1, by omega⟩
    simp only [Nat.add_sub_cancel, applyLayersDown]
    apply applyLayersDown_congr n hn layer _ _ _ _ _ i hi
    intro i' hi'
    exact applyDiag_layerDiag n (layer level) (hrot level (by omega) hle) x i' hi'

theorem applyDiag_scale (n : Nat) (M : DiagMat R) (σ : R) (x : Nat → R) (j : Nat) :
    applyDiag n (M.map fun iv => (iv.1, fun x => iv.2 x * σ)) x j = σ * applyDiag n M x j := by
  induction M with
  | nil => simp [applyDiag_nil]
  | cons iv M ih => rw [List.map_cons, applyDiag_cons, applyDiag_cons, ih]; ring

theorem applyMats_scale (n : Nat) (hn : 0 < n) (σ : R) :
    ∀ (Ms : List (DiagMat R)) (x : Nat → R), ∀ j < n,
      applyMats n (Ms.map fun M => M.map fun iv => (iv.1, fun x => iv.2 x * σ)) x j
        = σ ^ Ms.length * applyMats n Ms x j
  | [], _, _, _ => by simp [applyMats]
  | M :: Ms, x, j, hj => by
    simp only [applyMats, List.map_cons, List.foldl_cons, List.length_cons]
    have ih := applyMats_scale n hn σ Ms
    simp only [applyMats] at ih
    rw [ih _ j hj, pow_succ]
    -- pull the scalar of the first matrix through the remaining (linear) operators
    have hlin : ∀ (Ns : List (DiagMat R)) (y : Nat → R) (s : R), ∀ j < n,
        Ns.foldl (fun y M => applyDiag n M y) (fun i => s * y i) j = s * Ns.foldl (fun y M => applyDiag n M y) y j := by
      intro Ns
      induction Ns with
      | nil => intro y s j _; rfl
      | cons N Ns ihN =>
        intro y s j hj
        simp only [List.foldl_cons]
        have : ∀ i < n, applyDiag n N (fun i => s * y i) i = (fun i => s * applyDiag n N y i) i := by
          intro i _
          induction N with
          | nil => simp [applyDiag_nil]
          | cons iv N ih2 => simp only [applyDiag_cons] at ih2 ⊢; rw [ih2]; ring
        have hc : ∀ (Ks : List (DiagMat R)) (u v : Nat → R), (∀ i < n, u i = v i) → ∀ j < n,
            Ks.foldl (fun y M => applyDiag n M y) u j = Ks.foldl (fun y M => applyDiag n M y) v j := by
          intro Ks
          induction Ks with
          | nil => intro u v h j hj; exact h j hj
          | cons K Ks ihK =>
            intro u v h j hj
            simp only [List.foldl_cons]
            exact ihK _ _ (fun i _ => applyDiag_congr n hn K u v h i) j hj
        rw [hc Ns _ _ this j hj]
        exact ihN _ s j hj
    have h1 : ∀ i < n, applyDiag n (M.map fun iv => (iv.1, fun x => iv.2 x * σ)) x i
        = (fun i => σ * applyDiag n M x i) i := fun i _ => applyDiag_scale n M σ x i
    have hc : ∀ (Ks : List (DiagMat R)) (u v : Nat → R), (∀ i < n, u i = v i) → ∀ j < n,
        Ks.foldl (fun y M => applyDiag n M y) u j = Ks.foldl (fun y M => applyDiag n M y) v j := by
      intro Ks
      induction Ks with
      | nil => intro u v h j hj; exact h j hj
      | cons K Ks ihK =>
        intro u v h j hj
        simp only [List.foldl_cons]
        exact ihK _ _ (fun i _ => applyDiag_congr n hn K u v h i) j hj
    rw [hc Ms _ _ h1 j hj, hlin Ms _ σ j hj]
    ring

/-! ### one decoding layer undoes one encoding layer -/

theorem RootEnt.eval_pos (ζ : R) (k : Nat) : RootEnt.eval ζ (.pos k) = ζ ^ k := rfl
theorem RootEnt.eval_neg (ζ : R) (k : Nat) : RootEnt.eval ζ (.neg k) = -ζ ^ k := rfl
theorem RootEnt.eval_zero (ζ : R) : RootEnt.eval ζ .zero = 0 := rfl

/-- index arithmetic of a butterfly of size `m = 2·tt` inside `n = m·q` slots -/
theorem butterfly_lo {n m tt q j : Nat} (hm : m = 2 * tt) (hn : n = m * q) (htt : 0 < tt) (hj : j < n)
    (hlo : j % m < tt) :
    (j + tt % n) % n = j + tt ∧ (j + tt) % m = j % m + tt ∧ (j + tt + (n - tt % n)) % n = j ∧ tt < n := by
  have hq : 0 < q := by
    rcases Nat.eq_zero_or_pos q with h | h
    · subst h; simp at hn; omega
    · exact h
  have hmn : m ≤ n := by rw [hn]; exact Nat.le_mul_of_pos_right m hq
  have htn : tt < n := by omega
  have hdiv : j / m < q := by
    rw [Nat.div_lt_iff_lt_mul (by omega)]; rw [Nat.mul_comm]; omega
  have hdm := Nat.div_add_mod j m
  have hle : m * (j / m + 1) ≤ m * q := Nat.mul_le_mul_left m hdiv
  have hjt : j + tt < n := by rw [hn]; nlinarith
  refine ⟨?_, ?_, ?_, htn⟩
  · rw [Nat.mod_eq_of_lt htn, Nat.mod_eq_of_lt hjt]
  · rw [Nat.add_mod, Nat.mod_eq_of_lt (show tt < m by omega), Nat.mod_eq_of_lt (by omega)]
  · rw [Nat.mod_eq_of_lt htn, show j + tt + (n - tt) = j + n by omega, Nat.add_mod_right, Nat.mod_eq_of_lt hj]

theorem butterfly_hi {n m tt q j : Nat} (hm : m = 2 * tt) (hn : n = m * q) (htt : 0 < tt) (hj : j < n)
    (hhi : ¬ j % m < tt) :
    (j + (n - tt % n)) % n = j - tt ∧ (j - tt) % m = j % m - tt ∧ (j - tt + tt % n) % n = j ∧ tt ≤ j ∧ tt < n := by
  have hq : 0 < q := by
    rcases Nat.eq_zero_or_pos q with h | h
    · subst h; simp at hn; omega
    · exact h
  have hmn : m ≤ n := by rw [hn]; exact Nat.le_mul_of_pos_right m hq
  have htn : tt < n := by omega
  have hdm := Nat.div_add_mod j m
  have hmod : j % m < m := Nat.mod_lt _ (by omega)
  have htj : tt ≤ j := by
    have : j % m ≤ j := Nat.mod_le _ _
    omega
  refine ⟨?_, ?_, ?_, htj, htn⟩
  · rw [Nat.mod_eq_of_lt htn, show j + (n - tt) = (j - tt) + n by omega, Nat.add_mod_right,
      Nat.mod_eq_of_lt (by omega)]
  · have : j - tt = m * (j / m) + (j % m - tt) := by omega
    rw [this, Nat.mul_add_mod, Nat.mod_eq_of_lt (by omega)]
  · rw [Nat.mod_eq_of_lt htn, show j - tt + tt = j by omega, Nat.mod_eq_of_lt hj]

/-- **`F_m ∘ I_m = 2·id`**: the decoding butterfly layer of size `m` applied to the encoding layer of the same
    size doubles every slot, provided `ζ^(4n) = 1` (`n = m·q` slots, `m = 2·tt`). -/
theorem fft_ifft_layer (ζ : R) {n m tt q : Nat} (hm : m = 2 * tt) (hn : n = m * q) (htt : 0 < tt)
    (hζ : ζ ^ (4 * n) = 1) (x : Nat → R) (j : Nat) (hj : j < n) :
    applyLayer n ((fftLayer n m).eval ζ) (applyLayer n ((ifftLayer n m).eval ζ) x) j = 2 * x j := by
  have hm0 : 0 < m := by omega
  have htt' : m / 2 = tt := by omega
  have hgap : n / m = q := by rw [hn]; exact Nat.mul_div_cancel_left q hm0
  -- the two exponents add up to 4n
  have hk : ∀ p, p < 4 * m → ζ ^ (p * q) * ζ ^ ((4 * m - p) * q) = 1 := by
    intro p hp
    rw [← pow_add, ← Nat.add_mul, show p + (4 * m - p) = 4 * m by omega,
      show 4 * m * q = 4 * n by rw [hn]; ring, hζ]
  have hp5 : ∀ t, pow5mod t (4 * m) < 4 * m := by
    intro t
    unfold pow5mod
    -- every value of the loop is reduced modulo 4m
    have : ∀ (f i x r : Nat), r < 4 * m → modExpLoop (4 * m) f i x r < 4 * m := by
      intro f
      induction f with
      | zero => intro i x r hr; simpa [modExpLoop] using hr
      | succ f ih =>
        intro i x r hr
        unfold modExpLoop
        split
        · exact hr
        · apply ih
          split
          · exact Nat.mod_lt _ (by omega)
          · exact hr
    exact this _ _ _ _ (Nat.mod_lt _ (by omega))
  unfold applyLayer Layer.eval fftLayer ifftLayer
  simp only [htt', hgap]
  by_cases hlo : j % m < tt
  · obtain ⟨e1, e2, e3, _⟩ := butterfly_lo hm hn htt hj hlo
    have hhi' : ¬ (j + tt) % m < tt := by omega
    have ek : (j + tt) % m % tt = j % m % tt := by
      rw [e2, Nat.add_mod_right]
    simp only [e1, e3, hlo, hhi', if_true, if_false, ek, RootEnt.eval_pos, RootEnt.eval_neg,
      RootEnt.eval_zero, pow_zero]
    have := hk (pow5mod (j % m % tt) (4 * m)) (hp5 _)
    linear_combination (x j - x (j + tt)) * this
  · obtain ⟨e1, e2, e3, htj, _⟩ := butterfly_hi hm hn htt hj hlo
    have hlo' : (j - tt) % m < tt := by
      have : j % m < m := Nat.mod_lt _ hm0
      omega
    have ek : (j - tt) % m % tt = j % m % tt := by
      rw [e2]
      have h1 : j % m = (j % m - tt) + tt := by omega
      conv_rhs => rw [h1, Nat.add_mod_right]
    simp only [e1, e3, hlo, hlo', if_true, if_false, ek, RootEnt.eval_pos, RootEnt.eval_neg,
      RootEnt.eval_zero, pow_zero]
    have := hk (pow5mod (j % m % tt) (4 * m)) (hp5 _)
    linear_combination (x j - x (j - tt)) * this

/-! ### telescoping: S2C ∘ C2S -/

/-- the layers of CoeffsToSlots / SlotsToCoeffs with interpreted entries -/
def encLayers (ζ : R) (L : Nat) : Nat → Layer R := fun lvl => (dftLayer true L lvl).eval ζ
def decLayers (ζ : R) (L : Nat) : Nat → Layer R := fun lvl => (dftLayer false L lvl).eval ζ

theorem encLayers_rot (ζ : R) (L lvl : Nat) (h1 : 1 ≤ lvl) (h2 : lvl ≤ L) : (encLayers ζ L lvl).rot < 2 ^ L := by
  simp only [encLayers, dftLayer, if_true, Layer.eval, ifftLayer]
  obtain ⟨t, rfl⟩ : ∃ t, lvl = t + 1 := ⟨lvl - 1, by omega⟩
  rw [Nat.pow_succ, Nat.mul_div_cancel _ (by omega)]
  exact Nat.pow_lt_pow_right (by omega) (by omega)

theorem decLayers_rot (ζ : R) (L lvl : Nat) (h1 : 1 ≤ lvl) (h2 : lvl ≤ L) : (decLayers ζ L lvl).rot < 2 ^ L := by
  simp only [decLayers, dftLayer, Bool.false_eq_true, if_false, Layer.eval, fftLayer]
  rw [Nat.pow_succ, Nat.mul_div_cancel _ (by omega)]
  exact Nat.pow_lt_pow_right (by omega) (by omega)

/-- the last `k` decoding layers undo the last `k` encoding layers up to `2^k` -/
theorem dft_layers_inverse (ζ : R) (L : Nat) (hζ : ζ ^ (4 * 2 ^ L) = 1) :
    ∀ k, k ≤ L → ∀ (x : Nat → R), ∀ j < 2 ^ L,
      applyLayersDown (2 ^ L) (decLayers ζ L) k L (applyLayersDown (2 ^ L) (encLayers ζ L) k k x) j = 2 ^ k * x j
  | 0, _, x, j, _ => by simp [applyLayersDown]
  | k + 1, hk, x, j, hj => by
    have hn : 0 < 2 ^ L := two_pow_pos' L
    rw [applyLayersDown_succ_last]
    have hinner : ∀ i < 2 ^ L,
        applyLayersDown (2 ^ L) (decLayers ζ L) k L (applyLayersDown (2 ^ L) (encLayers ζ L) (k + 1) (k + 1) x) i
          = (fun i => 2 ^ k * applyLayer (2 ^ L) (encLayers ζ L (k + 1)) x i) i := by
      intro i hi
      simp only [applyLayersDown, Nat.add_sub_cancel]
      exact dft_layers_inverse ζ L hζ k (by omega) _ i hi
    rw [applyLayer_congr (2 ^ L) hn _ _ _ hinner j hj, applyLayer_smul]
    have e1 : decLayers ζ L (L - k) = (fftLayer (2 ^ L) (2 ^ (k + 1))).eval ζ := by
      simp only [decLayers, dftLayer, Bool.false_eq_true, if_false]
      rw [show L - (L - k) + 1 = k + 1 by omega]
    have e2 : encLayers ζ L (k + 1) = (ifftLayer (2 ^ L) (2 ^ (k + 1))).eval ζ := by
      simp only [encLayers, dftLayer, if_true]
    rw [e1, e2, fft_ifft_layer ζ (m := 2 ^ (k + 1)) (tt := 2 ^ k) (q := 2 ^ (L - (k + 1)))
      (by rw [Nat.pow_succ]; ring) (by rw [← Nat.pow_add]; congr 1; omega) (two_pow_pos' k) hζ x j hj, pow_succ]
    ring

theorem mergeDepths_sum_eq : ∀ (k level : Nat), 1 ≤ k → (mergeDepths k level).sum = level
  | 0, _, h => by omega
  | 1, level, _ => by simp [mergeDepths, ceilDiv]
  | k + 2, level, _ => by
    have h1 := ceilDiv_le level (k + 1)
    have h2 := mergeDepths_sum_eq (k + 1) (level - ceilDiv level (k + 1 + 1)) (by omega)
    simp only [mergeDepths, List.sum_cons] at h2 ⊢
    omega

theorem mergeDepths_length : ∀ (k level : Nat), (mergeDepths k level).length = k
  | 0, _ => rfl
  | k + 1, level => by simp [mergeDepths, mergeDepths_length k]

theorem mergeSched_sum_eq (d : MatLit) (h : 1 ≤ d.maxDepth) : (mergeSched d).sum = d.logSlots := by
  unfold mergeSched
  split
  · exact mergeDepths_sum_eq _ _ h
  · rw [List.sum_reverse]; exact mergeDepths_sum_eq _ _ h

theorem mergeSched_length (d : MatLit) : (mergeSched d).length = d.maxDepth := by
  unfold mergeSched
  split
  · exact mergeDepths_length _ _
  · rw [List.length_reverse]; exact mergeDepths_length _ _

theorem factorMats_length {α : Type} [Add α] [Mul α] (n : Nat) (layer : Nat → Layer α) :
    ∀ (ms : List Nat) (level : Nat), (factorMats n layer level ms).length = ms.length
  | [], _ => rfl
  | m :: ms, level => by simp [factorMats, factorMats_length n layer ms]

/-- **split independence.** For every accepted matrix literal (any `LogSlots`, any depth split, `σ` the
    per-matrix scaling) the matrices of `GenMatrices` applied in sequence are `σ^Depth` times the
    composition of ALL `LogSlots` butterfly layers, from level `LogSlots` down to 1. -/
theorem genMatrices_apply (d : MatLit) (layer : Nat → Layer R)
    (hrot : ∀ lvl, 1 ≤ lvl → lvl ≤ d.logSlots → (layer lvl).rot < 2 ^ d.logSlots)
    (hv : d.valid) (h1 : 1 ≤ d.maxDepth) (σ : R) (x : Nat → R) (j : Nat) (hj : j < 2 ^ d.logSlots) :
    applyMats (2 ^ d.logSlots) (genMatricesVals d layer σ) x j
      = σ ^ d.maxDepth * applyLayersDown (2 ^ d.logSlots) layer d.logSlots d.logSlots x j := by
  have hn := two_pow_pos' d.logSlots
  unfold genMatricesVals
  rw [applyMats_scale _ hn σ _ x j hj, factorMats_length, mergeSched_length,
    applyMats_factorMats _ hn layer d.logSlots hrot (mergeSched d) d.logSlots x (mergeSched_sum d)
      (mergeSched_pos d hv) le_rfl j hj, mergeSched_sum_eq d h1]

/-- **dft_inverse.** For every `LogSlots` and every pair of depth splits accepted by the literal:
    the SlotsToCoeffs matrices applied after the CoeffsToSlots matrices give
    `σ_s^depth_s · σ_c^depth_c · 2^LogSlots` times the identity, in any commutative ring with `ζ^(4·slots) = 1`
    (vectors of length `slots`). With `σ_c^depth_c = scaling_c / slots` (what `GenMatrices` multiplies in for the
    Encode type) the product is `scaling_s · scaling_c · id`. -/
theorem dft_inverse (ζ : R) (dC dS : MatLit)
    (hL : dS.logSlots = dC.logSlots) (hvC : dC.valid) (hvS : dS.valid) (h1C : 1 ≤ dC.maxDepth) (h1S : 1 ≤ dS.maxDepth)
    (hζ : ζ ^ (4 * 2 ^ dC.logSlots) = 1) (σc σs : R) (x : Nat → R) (j : Nat) (hj : j < 2 ^ dC.logSlots) :
    applyMats (2 ^ dC.logSlots) (genMatricesVals dS (decLayers ζ dC.logSlots) σs)
      (applyMats (2 ^ dC.logSlots) (genMatricesVals dC (encLayers ζ dC.logSlots) σc) x) j
      = σs ^ dS.maxDepth * σc ^ dC.maxDepth * 2 ^ dC.logSlots * x j := by
  have hn := two_pow_pos' dC.logSlots
  have hS' := genMatrices_apply dS (decLayers ζ dC.logSlots)
    (by rw [hL]; exact fun lvl a b => decLayers_rot ζ _ lvl a b) hvS h1S σs
  rw [hL] at hS'
  rw [hS' _ j hj]
  have hC' : ∀ i < 2 ^ dC.logSlots,
      applyMats (2 ^ dC.logSlots) (genMatricesVals dC (encLayers ζ dC.logSlots) σc) x i
        = (fun i => σc ^ dC.maxDepth *
            applyLayersDown (2 ^ dC.logSlots) (encLayers ζ dC.logSlots) dC.logSlots dC.logSlots x i) i :=
    fun i hi => genMatrices_apply dC (encLayers ζ dC.logSlots)
      (fun lvl a b => encLayers_rot ζ _ lvl a b) hvC h1C σc x i hi
  rw [applyLayersDown_congr _ hn _ _ _ _ _ hC' j hj, applyLayersDown_smul _ hn _ _ _ _ _ j hj,
    dft_layers_inverse ζ dC.logSlots hζ dC.logSlots le_rfl x j hj]
  ring

end Lattigo.Proofs.Bootstrap
