import Lattigo.Gen.VecLanes
import Lattigo.Proofs.ModRed
/-!
  Lane-level specifications of the 38 unrolled kernels of `ring/vec_ops.go`.

  `Gen/VecLanes.lean` (regenerated on every run) contains for each kernel `K` the 8 printed lanes
  `K_lanes`, the single-lane function `K_lane` and the generated `K_uniform : K_lanes … = lanes8
  (fun k => K_lane …)`; so a statement about `K_lane` is a statement about each of the 8 lanes of
  the Go loop body.  Below: `q` = `modulus`, `x, y` = lanes of `p1, p2`, `z` = previous content of
  the output lane (or the unused output argument), `qinv` = `mredconstant`, `brc q` = `bredconstant`.

  Every theorem is stated over `Nat`; a hypothesis `… < W` is the statement that the value is a
  `uint64` (or the *no-wrap side condition* of a lazy kernel).  Montgomery kernels: `out·2^64 ≡ …`.
-/
namespace Lattigo
open Lattigo.Gen

/-! ### helpers -/

theorem u64add_eq (a b : Nat) (h : a + b < W) : u64add a b = a + b := Nat.mod_eq_of_lt h

theorem u64sub_eq (a b : Nat) (hb : b ≤ a) (ha : a < W) : u64sub a b = a - b := by
  simp only [u64sub]; unfold W at *; omega

theorem u64shl_one (q : Nat) (h : 2 * q < W) : u64shl q 1 = 2 * q := by
  simp only [u64shl, Nat.pow_one]; rw [Nat.mul_comm]; exact Nat.mod_eq_of_lt h

theorem add_congr_right {a b q : Nat} (c : Nat) (h : a % q = b % q) : (c + a) % q = (c + b) % q := by
  rw [Nat.add_mod, h, ← Nat.add_mod]

theorem add_congr_left {a b q : Nat} (c : Nat) (h : a % q = b % q) : (a + c) % q = (b + c) % q := by
  rw [Nat.add_mod, h, ← Nat.add_mod]

/-- `2q ≤ 2^64` and `q` odd give `2q < 2^64`. -/
theorem two_q_lt (q qinv : Nat) (hq : 2 * q ≤ W) (hm : MontConst q qinv) : 2 * q < W := by
  have := hm.odd; unfold W at *; omega

/-- `(c + (M - r))·W + xy ≡ c·W (mod q)` when `r·W ≡ xy`, `r ≤ M`, `q ∣ M`: the shape of all
"then subtract / negate" Montgomery kernels. -/
theorem neg_mont_congr (c M r q xy : Nat) (hr : r ≤ M) (hM : M % q = 0)
    (h : (r * W) % q = xy % q) : ((c + (M - r)) * W + xy) % q = (c * W) % q := by
  rw [add_congr_right _ h.symm, ← Nat.add_mul, Nat.add_assoc, Nat.sub_add_cancel hr, Nat.add_mul,
    Nat.add_mod, Nat.mul_mod M, hM, Nat.zero_mul, Nat.zero_mod, Nat.add_zero, Nat.mod_mod]

/-- `CRed (z + r)` for `z ≤ q`, `r < q`: the shape of all "then add (mod q)" kernels. -/
theorem cred_add (z r q : Nat) (hq : 2 * q ≤ W) (hz : z ≤ q) (hr : r < q) :
    CRed (u64add z r) q = (z + r) % q := by
  rw [u64add_eq z r (by omega)]
  exact CRed_spec _ q (by omega) (by omega) (by omega)

/-! ### additions, subtractions, negation -/

/-- `addvec` (`Add`): `x + y < 2q` (e.g. `x, y < q`) ⊢ `out = (x + y) mod q`. -/
theorem addvec_lane_spec (x y z q : Nat) (hq : 0 < q) (h : x + y < 2 * q) (hW : x + y < W) :
    addvec_lane x y z q = (x + y) % q := by
  unfold addvec_lane
  rw [u64add_eq x y hW]
  exact CRed_spec _ q hq h hW

/-- `addlazyvec` (`AddLazy`): `out = (x + y) mod 2^64`; no wrap iff `x + y < 2^64`. -/
theorem addlazyvec_lane_spec (x y z : Nat) :
    addlazyvec_lane x y z = (x + y) % W ∧ (x + y < W → addlazyvec_lane x y z = x + y) :=
  ⟨rfl, fun h => u64add_eq x y h⟩

/-- `subvec` (`Sub`): for `y ≤ x + q < y + 2q` (e.g. `x, y < q`; more generally `x < 2q`, `y ≤ q`…)
`out = (x + q - y) mod q`, i.e. `out < q` and `out + y ≡ x (mod q)`. -/
theorem subvec_lane_spec (x y z q : Nat) (hq : 0 < q) (h1 : y ≤ x + q) (h2 : x + q < y + 2 * q)
    (hW : x + q < W) :
    subvec_lane x y z q = (x + q - y) % q
    ∧ subvec_lane x y z q < q
    ∧ (subvec_lane x y z q + y) % q = x % q := by
  unfold subvec_lane
  rw [u64add_eq x q hW, u64sub_eq _ y h1 hW, CRed_spec _ q hq (by omega) (by omega)]
  refine ⟨rfl, Nat.mod_lt _ hq, ?_⟩
  rw [Nat.mod_add_mod, Nat.sub_add_cancel h1, Nat.add_mod_right]

/-- `sublazyvec` (`SubLazy`): for `y ≤ x + q < 2^64`, `out = x + q - y` exactly (so `out ≡ x - y`,
`out ≤ x + q`). -/
theorem sublazyvec_lane_spec (x y z q : Nat) (h1 : y ≤ x + q) (hW : x + q < W) :
    sublazyvec_lane x y z q = x + q - y
    ∧ (sublazyvec_lane x y z q + y) % q = x % q := by
  unfold sublazyvec_lane
  rw [u64add_eq x q hW, u64sub_eq _ y h1 hW]
  refine ⟨rfl, ?_⟩
  rw [Nat.sub_add_cancel h1, Nat.add_mod_right]

/-- `negvec` (`Neg`): for `x ≤ q < 2^64`, `out = q - x`; so `out + x ≡ 0` and `out ≤ q`.
**The output range is `[0, q]`, not `[0, q)`: `x = 0 ↦ q`** (`negvec_lane_zero`). -/
theorem negvec_lane_spec (x z q : Nat) (hx : x ≤ q) (hW : q < W) :
    negvec_lane x z q = q - x
    ∧ (negvec_lane x z q + x) % q = 0
    ∧ negvec_lane x z q ≤ q
    ∧ (0 < x → negvec_lane x z q < q) := by
  unfold negvec_lane
  rw [u64sub_eq q x hx hW]
  refine ⟨rfl, ?_, Nat.sub_le _ _, fun h => by omega⟩
  rw [Nat.sub_add_cancel hx, Nat.mod_self]

/-- Discrepancy: `Neg` documents `p2 = -p1 (mod modulus)`, but `negvec` maps `0` to `q`
(not reduced). -/
theorem negvec_lane_zero (z q : Nat) (hW : q < W) : negvec_lane 0 z q = q := by
  have := (negvec_lane_spec 0 z q (Nat.zero_le _) hW).1
  simpa using this

/-- `addscalarvec` (`AddScalar`): `x + s < 2q` ⊢ `out = (x + s) mod q`. -/
theorem addscalarvec_lane_spec (x s z q : Nat) (hq : 0 < q) (h : x + s < 2 * q) (hW : x + s < W) :
    addscalarvec_lane x s z q = (x + s) % q := by
  unfold addscalarvec_lane
  rw [u64add_eq x s hW]
  exact CRed_spec _ q hq h hW

/-- `addscalarlazyvec` (`AddScalarLazy`): `out = (x + s) mod 2^64`; no wrap iff `x + s < 2^64`. -/
theorem addscalarlazyvec_lane_spec (x s z : Nat) :
    addscalarlazyvec_lane x s z = (x + s) % W ∧ (x + s < W → addscalarlazyvec_lane x s z = x + s) :=
  ⟨rfl, fun h => u64add_eq x s h⟩

/-- `addscalarlazythenNegTwoModuluslazyvec` (`AddScalarLazyThenNegTwoModulusLazy`):
for `x ≤ s + 2q < 2^64`, `out = s + 2q - x` exactly, `out + x ≡ s (mod q)`. -/
theorem addscalarlazythenNegTwoModuluslazyvec_lane_spec (x s z q : Nat) (hx : x ≤ s + 2 * q)
    (hW : s + 2 * q < W) :
    addscalarlazythenNegTwoModuluslazyvec_lane x s z q = s + 2 * q - x
    ∧ (addscalarlazythenNegTwoModuluslazyvec_lane x s z q + x) % q = s % q := by
  unfold addscalarlazythenNegTwoModuluslazyvec_lane
  simp only []
  rw [u64shl_one q (by omega), u64add_eq _ _ hW, u64sub_eq _ x hx hW]
  refine ⟨rfl, ?_⟩
  rw [Nat.sub_add_cancel hx, Nat.add_mul_mod_self_right]

/-- `subscalarvec` (`SubScalar`): for `s ≤ x + q < s + 2q`, `out = (x + q - s) mod q`. -/
theorem subscalarvec_lane_spec (x s z q : Nat) (hq : 0 < q) (h1 : s ≤ x + q) (h2 : x + q < s + 2 * q)
    (hW : x + q < W) :
    subscalarvec_lane x s z q = (x + q - s) % q
    ∧ subscalarvec_lane x s z q < q
    ∧ (subscalarvec_lane x s z q + s) % q = x % q := by
  unfold subscalarvec_lane
  rw [u64add_eq x q hW, u64sub_eq _ s h1 hW, CRed_spec _ q hq (by omega) (by omega)]
  refine ⟨rfl, Nat.mod_lt _ hq, ?_⟩
  rw [Nat.mod_add_mod, Nat.sub_add_cancel h1, Nat.add_mod_right]

/-! ### Barrett reductions and products -/

/-- `reducevec` (`Reduce`): every uint64 `x`, `q ≥ 2` ⊢ `out = x mod q`. -/
theorem reducevec_lane_spec (x z q : Nat) (hq : 1 < q) (hx : x < W) :
    reducevec_lane x z q (brc q) = x % q := BRedAdd_spec x q hq hx

/-- `reducelazyvec` (`ReduceLazy`): `out ≡ x`, `out < 2q` (doc: `[0, 2q-1]`). -/
theorem reducelazyvec_lane_spec (x z q : Nat) (hq : 1 < q) (hx : x < W) :
    reducelazyvec_lane x z q (brc q) % q = x % q ∧ reducelazyvec_lane x z q (brc q) < 2 * q :=
  BRedAddLazy_spec x q hq hx

/-- `mulcoeffslazyvec` (`MulCoeffsLazy`): `out = x·y mod 2^64`; no wrap iff `x·y < 2^64`. -/
theorem mulcoeffslazyvec_lane_spec (x y z : Nat) :
    mulcoeffslazyvec_lane x y z = (x * y) % W ∧ (x * y < W → mulcoeffslazyvec_lane x y z = x * y) :=
  ⟨rfl, fun h => Nat.mod_eq_of_lt h⟩

/-- `mulcoeffslazythenaddlazyvec` (`MulCoeffsLazyThenAddLazy`): `out = (z + x·y) mod 2^64`;
no wrap iff `z + x·y < 2^64`. -/
theorem mulcoeffslazythenaddlazyvec_lane_spec (x y z : Nat) :
    mulcoeffslazythenaddlazyvec_lane x y z = (z + x * y) % W
    ∧ (z + x * y < W → mulcoeffslazythenaddlazyvec_lane x y z = z + x * y) := by
  have h : mulcoeffslazythenaddlazyvec_lane x y z = (z + x * y) % W := by
    unfold mulcoeffslazythenaddlazyvec_lane
    simp only [u64add, u64mul, Nat.add_mod_mod]
  exact ⟨h, fun hlt => by rw [h, Nat.mod_eq_of_lt hlt]⟩

/-- `mulcoeffsbarrettvec` (`MulCoeffsBarrett`): ALL uint64 `x, y`, `2 ≤ q ≤ 2^63` ⊢ `out = x·y mod q`. -/
theorem mulcoeffsbarrettvec_lane_spec (x y z q : Nat) (hq : 1 < q) (h2q : 2 * q ≤ W) (hx : x < W)
    (hy : y < W) : mulcoeffsbarrettvec_lane x y z q (brc q) = (x * y) % q :=
  BRed_spec x y q hq h2q hx hy

/-- `mulcoeffsbarrettlazyvec` (`MulCoeffsBarrettLazy`): `out ≡ x·y`, `out < 2q` (doc: `[0, 2q-1]`). -/
theorem mulcoeffsbarrettlazyvec_lane_spec (x y z q : Nat) (hq : 1 < q) (h2q : 2 * q ≤ W)
    (hx : x < W) (hy : y < W) :
    mulcoeffsbarrettlazyvec_lane x y z q (brc q) % q = (x * y) % q
    ∧ mulcoeffsbarrettlazyvec_lane x y z q (brc q) < 2 * q :=
  BRedLazy_spec x y q hq h2q hx hy

/-- `mulcoeffsthenaddvec` (`MulCoeffsBarrettThenAdd`): `z ≤ q` ⊢ `out = (z + x·y) mod q`. -/
theorem mulcoeffsthenaddvec_lane_spec (x y z q : Nat) (hq : 1 < q) (h2q : 2 * q ≤ W) (hx : x < W)
    (hy : y < W) (hz : z ≤ q) :
    mulcoeffsthenaddvec_lane x y z q (brc q) = (z + x * y) % q := by
  unfold mulcoeffsthenaddvec_lane
  rw [cred_add z _ q h2q hz (BRed_lt x y q hq h2q hx hy), BRed_spec x y q hq h2q hx hy,
    Nat.add_mod_mod]

/-- `mulcoeffsbarrettthenaddlazyvec` (`MulCoeffsBarrettThenAddLazy`): under the no-wrap side
condition `z + q ≤ 2^64`, `out = z + (x·y mod q)` exactly; so `out ≡ z + x·y` and `z ≤ out < z + q`. -/
theorem mulcoeffsbarrettthenaddlazyvec_lane_spec (x y z q : Nat) (hq : 1 < q) (h2q : 2 * q ≤ W)
    (hx : x < W) (hy : y < W) (hz : z + q ≤ W) :
    mulcoeffsbarrettthenaddlazyvec_lane x y z q (brc q) = z + (x * y) % q
    ∧ mulcoeffsbarrettthenaddlazyvec_lane x y z q (brc q) % q = (z + x * y) % q
    ∧ mulcoeffsbarrettthenaddlazyvec_lane x y z q (brc q) < z + q := by
  have hlt : (x * y) % q < q := Nat.mod_lt _ (by omega)
  have h : mulcoeffsbarrettthenaddlazyvec_lane x y z q (brc q) = z + (x * y) % q := by
    unfold mulcoeffsbarrettthenaddlazyvec_lane
    rw [BRed_spec x y q hq h2q hx hy, u64add_eq _ _ (by omega)]
  rw [h]
  exact ⟨rfl, Nat.add_mod_mod _ _ _, by omega⟩

/-! ### Montgomery products -/

/-- `mulcoeffsmontgomeryvec` (`MulCoeffsMontgomery`): `x·y < q·2^64` (e.g. one factor `< q`)
⊢ `out·2^64 ≡ x·y (mod q)`, `out < q`. -/
theorem mulcoeffsmontgomeryvec_lane_spec (x y z q qinv : Nat) (hq : 2 * q ≤ W)
    (hm : MontConst q qinv) (hxy : x * y < q * W) :
    (mulcoeffsmontgomeryvec_lane x y z q qinv * W) % q = (x * y) % q
    ∧ mulcoeffsmontgomeryvec_lane x y z q qinv < q := MRed_spec x y q qinv hq hm hxy

/-- `mulcoeffsmontgomerylazyvec` (`MulCoeffsMontgomeryLazy`): `1 ≤ out ≤ 2q-1` (doc: `[0, 2q-1]`). -/
theorem mulcoeffsmontgomerylazyvec_lane_spec (x y z q qinv : Nat) (hq : 2 * q ≤ W)
    (hm : MontConst q qinv) (hxy : x * y < q * W) :
    (mulcoeffsmontgomerylazyvec_lane x y z q qinv * W) % q = (x * y) % q
    ∧ mulcoeffsmontgomerylazyvec_lane x y z q qinv < 2 * q
    ∧ 0 < mulcoeffsmontgomerylazyvec_lane x y z q qinv := MRedLazy_spec x y q qinv hq hm hxy

/-- shared: `CRed (z + MRed x y)` for `z ≤ q`. -/
theorem cred_add_mred (x y z q qinv : Nat) (hq : 2 * q ≤ W) (hm : MontConst q qinv)
    (hxy : x * y < q * W) (hz : z ≤ q) :
    (CRed (u64add z (MRed x y q qinv)) q * W) % q = (z * W + x * y) % q
    ∧ CRed (u64add z (MRed x y q qinv)) q < q := by
  obtain ⟨h1, h2⟩ := MRed_spec x y q qinv hq hm hxy
  rw [cred_add z _ q hq hz h2]
  refine ⟨?_, Nat.mod_lt _ hm.pos⟩
  rw [Nat.mod_mul_mod, Nat.add_mul]
  exact add_congr_right _ h1

/-- `mulcoeffsmontgomerythenaddvec` (`MulCoeffsMontgomeryThenAdd`): `z ≤ q` ⊢
`out·2^64 ≡ z·2^64 + x·y`, `out < q`. -/
theorem mulcoeffsmontgomerythenaddvec_lane_spec (x y z q qinv : Nat) (hq : 2 * q ≤ W)
    (hm : MontConst q qinv) (hxy : x * y < q * W) (hz : z ≤ q) :
    (mulcoeffsmontgomerythenaddvec_lane x y z q qinv * W) % q = (z * W + x * y) % q
    ∧ mulcoeffsmontgomerythenaddvec_lane x y z q qinv < q :=
  cred_add_mred x y z q qinv hq hm hxy hz

/-- `mulcoeffsmontgomerythenaddlazyvec` (`MulCoeffsMontgomeryThenAddLazy`): no-wrap side condition
`z + q ≤ 2^64` ⊢ `out = z + MRed x y`, `z ≤ out < z + q`, `out·2^64 ≡ z·2^64 + x·y`. -/
theorem mulcoeffsmontgomerythenaddlazyvec_lane_spec (x y z q qinv : Nat) (hq : 2 * q ≤ W)
    (hm : MontConst q qinv) (hxy : x * y < q * W) (hz : z + q ≤ W) :
    mulcoeffsmontgomerythenaddlazyvec_lane x y z q qinv = z + MRed x y q qinv
    ∧ (mulcoeffsmontgomerythenaddlazyvec_lane x y z q qinv * W) % q = (z * W + x * y) % q
    ∧ mulcoeffsmontgomerythenaddlazyvec_lane x y z q qinv < z + q := by
  obtain ⟨h1, h2⟩ := MRed_spec x y q qinv hq hm hxy
  have h : mulcoeffsmontgomerythenaddlazyvec_lane x y z q qinv = z + MRed x y q qinv := by
    unfold mulcoeffsmontgomerythenaddlazyvec_lane
    exact u64add_eq _ _ (by omega)
  rw [h]
  refine ⟨rfl, ?_, by omega⟩
  rw [Nat.add_mul]; exact add_congr_right _ h1

/-- `mulcoeffsmontgomerylazythenaddlazyvec` (`MulCoeffsMontgomeryLazyThenAddLazy`): no-wrap side
condition `z + 2q ≤ 2^64` ⊢ `out = z + MRedLazy x y`, `z < out < z + 2q` (so `z < q ⊢ out ≤ 3q-2`,
the documented range), `out·2^64 ≡ z·2^64 + x·y`. -/
theorem mulcoeffsmontgomerylazythenaddlazyvec_lane_spec (x y z q qinv : Nat) (hq : 2 * q ≤ W)
    (hm : MontConst q qinv) (hxy : x * y < q * W) (hz : z + 2 * q ≤ W) :
    mulcoeffsmontgomerylazythenaddlazyvec_lane x y z q qinv = z + MRedLazy x y q qinv
    ∧ (mulcoeffsmontgomerylazythenaddlazyvec_lane x y z q qinv * W) % q = (z * W + x * y) % q
    ∧ mulcoeffsmontgomerylazythenaddlazyvec_lane x y z q qinv < z + 2 * q
    ∧ z < mulcoeffsmontgomerylazythenaddlazyvec_lane x y z q qinv
    ∧ (z < q → mulcoeffsmontgomerylazythenaddlazyvec_lane x y z q qinv + 2 ≤ 3 * q) := by
  obtain ⟨h1, h2, h3⟩ := MRedLazy_spec x y q qinv hq hm hxy
  have h : mulcoeffsmontgomerylazythenaddlazyvec_lane x y z q qinv = z + MRedLazy x y q qinv := by
    unfold mulcoeffsmontgomerylazythenaddlazyvec_lane
    exact u64add_eq _ _ (by omega)
  rw [h]
  refine ⟨rfl, ?_, by omega, by omega, fun _ => by omega⟩
  rw [Nat.add_mul]; exact add_congr_right _ h1

/-- `mulcoeffsmontgomerythensubvec` (`MulCoeffsMontgomeryThenSub`): `z < q` ⊢
`out·2^64 + x·y ≡ z·2^64`, `out < q`. -/
theorem mulcoeffsmontgomerythensubvec_lane_spec (x y z q qinv : Nat) (hq : 2 * q ≤ W)
    (hm : MontConst q qinv) (hxy : x * y < q * W) (hz : z < q) :
    (mulcoeffsmontgomerythensubvec_lane x y z q qinv * W + x * y) % q = (z * W) % q
    ∧ mulcoeffsmontgomerythensubvec_lane x y z q qinv < q := by
  obtain ⟨h1, h2⟩ := MRed_spec x y q qinv hq hm hxy
  have hq0 := hm.pos
  unfold mulcoeffsmontgomerythensubvec_lane
  rw [u64sub_eq q _ (Nat.le_of_lt h2) (by omega), u64add_eq _ _ (by omega),
    CRed_spec _ q hq0 (by omega) (by omega)]
  refine ⟨?_, Nat.mod_lt _ hq0⟩
  rw [Nat.add_mod, Nat.mod_mul_mod, ← Nat.add_mod]
  exact neg_mont_congr z q _ q _ (Nat.le_of_lt h2) (Nat.mod_self q) h1

/-- `mulcoeffsmontgomerythensublazyvec` (`MulCoeffsMontgomeryThenSubLazy`): no-wrap side condition
`z + q < 2^64` ⊢ `out = z + (q - MRed x y)`, `z < out ≤ z + q`, `out·2^64 + x·y ≡ z·2^64`.
For `z < q` this gives `out ≤ 2q - 1`; **the doc comment says `[0, 2q-2]`, which is off by one**
(see `mulcoeffsmontgomerythensublazyvec_lane_max`). -/
theorem mulcoeffsmontgomerythensublazyvec_lane_spec (x y z q qinv : Nat) (hq : 2 * q ≤ W)
    (hm : MontConst q qinv) (hxy : x * y < q * W) (hz : z + q < W) :
    mulcoeffsmontgomerythensublazyvec_lane x y z q qinv = z + (q - MRed x y q qinv)
    ∧ (mulcoeffsmontgomerythensublazyvec_lane x y z q qinv * W + x * y) % q = (z * W) % q
    ∧ mulcoeffsmontgomerythensublazyvec_lane x y z q qinv ≤ z + q
    ∧ z < mulcoeffsmontgomerythensublazyvec_lane x y z q qinv := by
  obtain ⟨h1, h2⟩ := MRed_spec x y q qinv hq hm hxy
  have h : mulcoeffsmontgomerythensublazyvec_lane x y z q qinv = z + (q - MRed x y q qinv) := by
    unfold mulcoeffsmontgomerythensublazyvec_lane
    rw [u64sub_eq q _ (Nat.le_of_lt h2) (by omega), u64add_eq _ _ (by omega)]
  rw [h]
  exact ⟨rfl, neg_mont_congr z q _ q _ (Nat.le_of_lt h2) (Nat.mod_self q) h1, by omega, by omega⟩

/-- The bound `z + q` is attained: `x = 0` gives `MRed = 0`, so `z = q - 1 ↦ 2q - 1`
(outside the documented `[0, 2q-2]`). -/
theorem mulcoeffsmontgomerythensublazyvec_lane_max (z q qinv : Nat) (hq : 2 * q ≤ W)
    (hm : MontConst q qinv) (hz : z + q < W) :
    mulcoeffsmontgomerythensublazyvec_lane 0 0 z q qinv = z + q := by
  have hq0 := hm.pos
  have h00 : 0 * 0 < q * W := by
    rw [Nat.zero_mul]; exact Nat.mul_pos hq0 (by decide : 0 < W)
  have e := (mulcoeffsmontgomerythensublazyvec_lane_spec 0 0 z q qinv hq hm h00 hz).1
  have h0 : MRed 0 0 q qinv = 0 := by
    unfold MRed
    simp only [mul64, u64mul, u64add, u64sub, Nat.zero_mul, Nat.zero_mod, Nat.zero_div]
    have : (0 + W - 0) % W = 0 := by decide
    rw [this, Nat.zero_add, Nat.mod_eq_of_lt (by omega : q < W), if_pos (decide_eq_true (Nat.le_refl q))]
    unfold W at *; omega
  rw [e, h0]; rfl

/-- `mulcoeffsmontgomerylazythensublazyvec` (`MulCoeffsMontgomeryLazyThenSubLazy`): no-wrap side
condition `z + 2q ≤ 2^64` ⊢ `out = z + (2q - MRedLazy x y)`, `z < out < z + 2q` (so `z < q ⊢
1 ≤ out ≤ 3q-2`, the documented range), `out·2^64 + x·y ≡ z·2^64`. -/
theorem mulcoeffsmontgomerylazythensublazyvec_lane_spec (x y z q qinv : Nat) (hq : 2 * q ≤ W)
    (hm : MontConst q qinv) (hxy : x * y < q * W) (hz : z + 2 * q ≤ W) :
    mulcoeffsmontgomerylazythensublazyvec_lane x y z q qinv = z + (2 * q - MRedLazy x y q qinv)
    ∧ (mulcoeffsmontgomerylazythensublazyvec_lane x y z q qinv * W + x * y) % q = (z * W) % q
    ∧ mulcoeffsmontgomerylazythensublazyvec_lane x y z q qinv < z + 2 * q
    ∧ z < mulcoeffsmontgomerylazythensublazyvec_lane x y z q qinv
    ∧ (z < q → mulcoeffsmontgomerylazythensublazyvec_lane x y z q qinv + 2 ≤ 3 * q) := by
  obtain ⟨h1, h2, h3⟩ := MRedLazy_spec x y q qinv hq hm hxy
  have h2q := two_q_lt q qinv hq hm
  have h : mulcoeffsmontgomerylazythensublazyvec_lane x y z q qinv
      = z + (2 * q - MRedLazy x y q qinv) := by
    unfold mulcoeffsmontgomerylazythensublazyvec_lane
    simp only []
    rw [u64shl_one q h2q, u64sub_eq _ _ (Nat.le_of_lt h2) h2q, u64add_eq _ _ (by omega)]
  rw [h]
  refine ⟨rfl, neg_mont_congr z (2 * q) _ q _ (Nat.le_of_lt h2) (Nat.mul_mod_left _ _) h1,
    by omega, by omega, fun _ => by omega⟩

/-- `mulcoeffsmontgomerylazythenNegvec` (`MulCoeffsMontgomeryLazyThenNeg`):
`out = 2q - MRedLazy x y`, `1 ≤ out ≤ 2q-1`, `out·2^64 + x·y ≡ 0`.
**The doc comment says `[0, 2q-2]`; `2q-1` is attained** (`MRedLazy = 1` at `x = 1`,
`y = 2^64 mod q`, see `mulcoeffsmontgomerylazythenNegvec_lane_max`). -/
theorem mulcoeffsmontgomerylazythenNegvec_lane_spec (x y z q qinv : Nat) (hq : 2 * q ≤ W)
    (hm : MontConst q qinv) (hxy : x * y < q * W) :
    mulcoeffsmontgomerylazythenNegvec_lane x y z q qinv = 2 * q - MRedLazy x y q qinv
    ∧ (mulcoeffsmontgomerylazythenNegvec_lane x y z q qinv * W + x * y) % q = 0
    ∧ mulcoeffsmontgomerylazythenNegvec_lane x y z q qinv < 2 * q
    ∧ 0 < mulcoeffsmontgomerylazythenNegvec_lane x y z q qinv := by
  obtain ⟨h1, h2, h3⟩ := MRedLazy_spec x y q qinv hq hm hxy
  have h2q := two_q_lt q qinv hq hm
  have h : mulcoeffsmontgomerylazythenNegvec_lane x y z q qinv = 2 * q - MRedLazy x y q qinv := by
    unfold mulcoeffsmontgomerylazythenNegvec_lane
    simp only []
    rw [u64shl_one q h2q, u64sub_eq _ _ (Nat.le_of_lt h2) h2q]
  rw [h]
  refine ⟨rfl, ?_, by omega, by omega⟩
  have := neg_mont_congr 0 (2 * q) _ q _ (Nat.le_of_lt h2) (Nat.mul_mod_left _ _) h1
  simpa using this

/-- The bound `2q - 1` is attained for EVERY admissible modulus: `x = 1`, `y = 2^64 mod q` gives
`MRedLazy = 1` (`MRedLazy_one`), hence `out = 2q - 1`, outside the documented `[0, 2q-2]`. -/
theorem mulcoeffsmontgomerylazythenNegvec_lane_max (z q qinv : Nat) (hq : 2 * q ≤ W)
    (hm : MontConst q qinv) :
    mulcoeffsmontgomerylazythenNegvec_lane 1 (W % q) z q qinv = 2 * q - 1 := by
  have hxy : 1 * (W % q) < q * W := by
    rw [Nat.one_mul]
    exact Nat.lt_of_lt_of_le (Nat.mod_lt _ hm.pos) (Nat.le_mul_of_pos_right q (by decide))
  rw [(mulcoeffsmontgomerylazythenNegvec_lane_spec 1 (W % q) z q qinv hq hm hxy).1,
    MRedLazy_one q qinv hq hm]

/-! ### scalar kernels -/

/-- `addlazythenmulscalarmontgomeryvec` (`AddLazyThenMulScalarMontgomery`): no wrap of `x + y`
and `(x + y)·s < q·2^64` ⊢ `out·2^64 ≡ (x + y)·s`, `out < q`. -/
theorem addlazythenmulscalarmontgomeryvec_lane_spec (x y s z q qinv : Nat) (hq : 2 * q ≤ W)
    (hm : MontConst q qinv) (hW : x + y < W) (hs : (x + y) * s < q * W) :
    (addlazythenmulscalarmontgomeryvec_lane x y s z q qinv * W) % q = ((x + y) * s) % q
    ∧ addlazythenmulscalarmontgomeryvec_lane x y s z q qinv < q := by
  unfold addlazythenmulscalarmontgomeryvec_lane
  rw [u64add_eq x y hW]
  exact MRed_spec _ s q qinv hq hm hs

/-- `addscalarlazythenmulscalarmontgomeryvec` (`AddScalarLazyThenMulScalarMontgomery`):
`out·2^64 ≡ (x + s0)·s1`, `out < q`. -/
theorem addscalarlazythenmulscalarmontgomeryvec_lane_spec (x s0 s1 z q qinv : Nat)
    (hq : 2 * q ≤ W) (hm : MontConst q qinv) (hW : x + s0 < W) (hs : (x + s0) * s1 < q * W) :
    (addscalarlazythenmulscalarmontgomeryvec_lane x s0 s1 z q qinv * W) % q = ((x + s0) * s1) % q
    ∧ addscalarlazythenmulscalarmontgomeryvec_lane x s0 s1 z q qinv < q := by
  unfold addscalarlazythenmulscalarmontgomeryvec_lane
  rw [u64add_eq x s0 hW]
  exact MRed_spec _ s1 q qinv hq hm hs

/-- `mulscalarmontgomeryvec` (`MulScalarMontgomery`). -/
theorem mulscalarmontgomeryvec_lane_spec (x s z q qinv : Nat) (hq : 2 * q ≤ W)
    (hm : MontConst q qinv) (hxs : x * s < q * W) :
    (mulscalarmontgomeryvec_lane x s z q qinv * W) % q = (x * s) % q
    ∧ mulscalarmontgomeryvec_lane x s z q qinv < q := MRed_spec x s q qinv hq hm hxs

/-- `mulscalarmontgomerylazyvec` (`MulScalarMontgomeryLazy`): `1 ≤ out ≤ 2q-1`. -/
theorem mulscalarmontgomerylazyvec_lane_spec (x s z q qinv : Nat) (hq : 2 * q ≤ W)
    (hm : MontConst q qinv) (hxs : x * s < q * W) :
    (mulscalarmontgomerylazyvec_lane x s z q qinv * W) % q = (x * s) % q
    ∧ mulscalarmontgomerylazyvec_lane x s z q qinv < 2 * q
    ∧ 0 < mulscalarmontgomerylazyvec_lane x s z q qinv := MRedLazy_spec x s q qinv hq hm hxs

/-- `mulscalarmontgomerythenaddvec` (`MulScalarMontgomeryThenAdd`): `z ≤ q` ⊢
`out·2^64 ≡ z·2^64 + x·s`, `out < q`. -/
theorem mulscalarmontgomerythenaddvec_lane_spec (x s z q qinv : Nat) (hq : 2 * q ≤ W)
    (hm : MontConst q qinv) (hxs : x * s < q * W) (hz : z ≤ q) :
    (mulscalarmontgomerythenaddvec_lane x s z q qinv * W) % q = (z * W + x * s) % q
    ∧ mulscalarmontgomerythenaddvec_lane x s z q qinv < q :=
  cred_add_mred x s z q qinv hq hm hxs hz

/-- `mulscalarmontgomerythenaddscalarvec` (`MulScalarMontgomeryThenAddScalar`): `s0 ≤ q` ⊢
`out·2^64 ≡ s0·2^64 + x·s1`, `out < q`. -/
theorem mulscalarmontgomerythenaddscalarvec_lane_spec (x s0 s1 z q qinv : Nat) (hq : 2 * q ≤ W)
    (hm : MontConst q qinv) (hxs : x * s1 < q * W) (hs0 : s0 ≤ q) :
    (mulscalarmontgomerythenaddscalarvec_lane x s0 s1 z q qinv * W) % q = (s0 * W + x * s1) % q
    ∧ mulscalarmontgomerythenaddscalarvec_lane x s0 s1 z q qinv < q := by
  have := cred_add_mred x s1 s0 q qinv hq hm hxs hs0
  unfold mulscalarmontgomerythenaddscalarvec_lane
  have e : u64add (MRed x s1 q qinv) s0 = u64add s0 (MRed x s1 q qinv) := by
    simp only [u64add, Nat.add_comm]
  rw [e]; exact this

/-- `subthenmulscalarmontgomeryTwoModulusvec` (`SubThenMulScalarMontgomeryTwoModulus`):
`y ≤ 2q`, no wrap of `x + 2q - y`, `(x + 2q - y)·s < q·2^64` ⊢ `out·2^64 ≡ (x + 2q - y)·s`, `out < q`. -/
theorem subthenmulscalarmontgomeryTwoModulusvec_lane_spec (x y s z q qinv : Nat) (hq : 2 * q ≤ W)
    (hm : MontConst q qinv) (hy : y ≤ 2 * q) (hW : x + (2 * q - y) < W)
    (hs : (x + (2 * q - y)) * s < q * W) :
    (subthenmulscalarmontgomeryTwoModulusvec_lane x y s z q qinv * W) % q
      = ((x + (2 * q - y)) * s) % q
    ∧ subthenmulscalarmontgomeryTwoModulusvec_lane x y s z q qinv < q := by
  have h2q := two_q_lt q qinv hq hm
  unfold subthenmulscalarmontgomeryTwoModulusvec_lane
  simp only []
  rw [u64shl_one q h2q, u64sub_eq _ y hy h2q, Nat.add_comm x, u64add_eq _ _ (by omega)]
  rw [Nat.add_comm x] at hs
  exact MRed_spec _ s q qinv hq hm hs

/-! ### Montgomery form -/

/-- `mformvec` (`MForm`): every uint64 `x` ⊢ `out = x·2^64 mod q`. -/
theorem mformvec_lane_spec (x z q : Nat) (hq : 1 < q) (h2q : 2 * q ≤ W) (hx : x < W) :
    mformvec_lane x z q (brc q) = (x * W) % q := MForm_spec x q hq h2q hx

/-- `mformlazyvec` (`MFormLazy`): `out ≡ x·2^64`, `out < 2q`. -/
theorem mformlazyvec_lane_spec (x z q : Nat) (hq : 1 < q) (h2q : 2 * q ≤ W) (hx : x < W) :
    mformlazyvec_lane x z q (brc q) % q = (x * W) % q ∧ mformlazyvec_lane x z q (brc q) < 2 * q :=
  MFormLazy_spec x q hq h2q hx

/-- `imformvec` (`IMForm`): every uint64 `x` ⊢ `out·2^64 ≡ x`, `out < q`. -/
theorem imformvec_lane_spec (x z q qinv : Nat) (hqW : q < W) (hm : MontConst q qinv) (hx : x < W) :
    (imformvec_lane x z q qinv * W) % q = x % q ∧ imformvec_lane x z q qinv < q :=
  IMForm_spec x q qinv hqW hm hx

/-! ### shape-only kernels -/

/-- `ZeroVec`. -/
theorem ZeroVec_lane_spec (x : Nat) : ZeroVec_lane x = 0 := rfl

/-- `MaskVec`: `out = (x >> w) & mask`; for `mask = 2^k - 1` this is the `k`-bit digit at
offset `w`. -/
theorem MaskVec_lane_spec (x w k z : Nat) :
    MaskVec_lane x w (2 ^ k - 1) z = (x / 2 ^ w) % 2 ^ k
    ∧ MaskVec_lane x w (2 ^ k - 1) z < 2 ^ k := by
  have h : MaskVec_lane x w (2 ^ k - 1) z = (x / 2 ^ w) % 2 ^ k := by
    unfold MaskVec_lane
    simp only [u64and, u64shr, Nat.and_two_pow_sub_one_eq_mod]
  rw [h]
  exact ⟨rfl, Nat.mod_lt _ (Nat.two_pow_pos k)⟩

end Lattigo
