/-
  C18 — lemmas on the DFT index bookkeeping of `Lattigo.Model.Bootstrap`:
  duplicate-free lists, the merge schedule, bounds on the diagonal indices.
-/
import Lattigo.Model.Bootstrap
import Mathlib.Tactic.Linarith
import Mathlib.Data.List.Basic

namespace Lattigo.Proofs.Bootstrap
open Lattigo.Model.Bootstrap

/-! ### `dedupL` -/

theorem mem_dedupL {a : Nat} : ∀ {l : List Nat}, a ∈ dedupL l ↔ a ∈ l
  | [] => by simp [dedupL]
  | b :: l => by
    by_cases h : b ∈ l
    · have hc : l.contains b = true := by simpa using h
      simp only [dedupL, hc, if_true, List.mem_cons]
      rw [mem_dedupL (l := l)]
      constructor
      · intro h'; exact Or.inr h'
      · rintro (rfl | h')
        · exact h
        · exact h'
    · have hc : l.contains b = false := by simpa using h
      simp only [dedupL, hc, List.mem_cons]
      simp [mem_dedupL (l := l)]

theorem nodup_dedupL : ∀ (l : List Nat), (dedupL l).Nodup
  | [] => by simp [dedupL]
  | b :: l => by
    by_cases h : b ∈ l
    · have hc : l.contains b = true := by simpa using h
      simp only [dedupL, hc, if_true]
      exact nodup_dedupL l
    · have hc : l.contains b = false := by simpa using h
      simp only [dedupL, hc]
      refine List.nodup_cons.mpr ⟨?_, nodup_dedupL l⟩
      simpa [mem_dedupL] using h

/-- a duplicate-free list with fewer than three entries that contains `a ≠ b` contains nothing else -/
theorem small_nodup {l : List Nat} (hn : l.Nodup) (hl : l.length < 3) {a b : Nat}
    (ha : a ∈ l) (hb : b ∈ l) (hab : a ≠ b) : ∀ x ∈ l, x = a ∨ x = b := by
  match l, hn, hl, ha, hb with
  | [], _, _, ha, _ => simp at ha
  | [x], _, _, ha, hb =>
    simp at ha hb; exact absurd (ha.trans hb.symm) hab
  | [x, y], _, _, ha, hb =>
    intro z hz
    simp at ha hb hz
    rcases ha with rfl | rfl <;> rcases hb with rfl | rfl <;> rcases hz with rfl | rfl <;> simp_all
  | _ :: _ :: _ :: _, _, hl, _, _ => simp at hl; omega

/-! ### `sortL` is a permutation as far as membership goes -/

theorem mem_insSorted {a x : Nat} : ∀ {l : List Nat}, x ∈ insSorted a l ↔ x = a ∨ x ∈ l
  | [] => by simp [insSorted]
  | b :: l => by
    unfold insSorted
    by_cases h : a ≤ b
    · simp [h]
    · simp only [h, if_false, List.mem_cons, mem_insSorted (l := l)]
      tauto

theorem mem_sortL {x : Nat} : ∀ {l : List Nat}, x ∈ sortL l ↔ x ∈ l
  | [] => by simp [sortL]
  | b :: l => by
    have ih := mem_sortL (x := x) (l := l)
    unfold sortL at ih ⊢
    simp only [List.foldr_cons, mem_insSorted, ih, List.mem_cons]

/-! ### the merge schedule -/

theorem ceilDiv_le (a k : Nat) : ceilDiv a (k + 1) ≤ a := by
  unfold ceilDiv
  simp only [Nat.add_sub_cancel]
  rw [Nat.div_le_iff_le_mul_add_pred (by omega)]
  have : a ≤ (k + 1) * a := Nat.le_mul_of_pos_left a (by omega)
  omega

theorem ceilDiv_pos {a k : Nat} (h : 1 ≤ a) : 1 ≤ ceilDiv a (k + 1) := by
  unfold ceilDiv
  simp only [Nat.add_sub_cancel]
  rw [Nat.le_div_iff_mul_le (by omega)]
  omega

/-- the remaining depth still fits after one merge step:
    `k+1 ≤ level → k ≤ level - ceil(level/(k+1))` -/
theorem ceilDiv_room {a k : Nat} (h : k + 1 ≤ a) : ceilDiv a (k + 1) + k ≤ a := by
  unfold ceilDiv
  simp only [Nat.add_sub_cancel]
  obtain ⟨t, rfl⟩ : ∃ t, a = t + (k + 1) := ⟨a - (k + 1), by omega⟩
  have : (t + (k + 1) + k) / (k + 1) < t + 2 := by
    rw [Nat.div_lt_iff_lt_mul (by omega)]
    nlinarith
  omega

theorem mergeDepths_sum : ∀ (k level : Nat), (mergeDepths k level).sum ≤ level
  | 0, _ => by simp [mergeDepths]
  | k + 1, level => by
    have h1 := ceilDiv_le level k
    have h2 := mergeDepths_sum k (level - ceilDiv level (k + 1))
    simp only [mergeDepths, List.sum_cons]
    omega

theorem mergeDepths_pos : ∀ (k level : Nat), k ≤ level → ∀ m ∈ mergeDepths k level, 1 ≤ m
  | 0, _, _ => by simp [mergeDepths]
  | k + 1, level, h => by
    intro m hm
    simp only [mergeDepths, List.mem_cons] at hm
    rcases hm with rfl | hm
    · exact ceilDiv_pos (by omega)
    · have := ceilDiv_room h
      exact mergeDepths_pos k _ (by omega) m hm

theorem mergeSched_sum (d : MatLit) : (mergeSched d).sum ≤ d.logSlots := by
  unfold mergeSched
  split
  · exact mergeDepths_sum _ _
  · rw [List.sum_reverse]; exact mergeDepths_sum _ _

theorem mergeSched_pos (d : MatLit) (h : d.maxDepth ≤ d.logSlots) : ∀ m ∈ mergeSched d, 1 ≤ m := by
  intro m hm
  unfold mergeSched at hm
  split at hm
  · exact mergeDepths_pos _ _ h m hm
  · exact mergeDepths_pos _ _ h m (List.mem_reverse.mp hm)

/-! ### bounds and structure of the diagonal index sets -/

theorem two_pow_pos' (n : Nat) : 0 < 2 ^ n := Nat.pos_of_ne_zero (by positivity)

/-- `layerRot` is a power of two -/
theorem layerRot_pow (d : MatLit) (level : Nat) : ∃ e, layerRot d level = 2 ^ e := by
  unfold layerRot; split <;> exact ⟨_, rfl⟩

theorem layerRot_lt (d : MatLit) {level : Nat} (h1 : 1 ≤ level) (h2 : level ≤ d.logSlots) :
    layerRot d level < 2 ^ d.logSlots := by
  unfold layerRot
  split <;> exact Nat.pow_lt_pow_right (by omega) (by omega)

theorem mem_nextLevel {d : MatLit} {vec : List Nat} {n nl x : Nat} :
    x ∈ nextLevelfftIndexMap d vec n nl ↔
      ∃ i ∈ vec, x = i ∨ x = (i + layerRot d nl % n) % n ∨ x = (i + (n - layerRot d nl % n)) % n := by
  unfold nextLevelfftIndexMap
  simp only [mem_dedupL, List.mem_flatMap, List.mem_cons, List.not_mem_nil, or_false]

theorem nextLevel_extensive {d : MatLit} {vec : List Nat} {n nl x : Nat} (h : x ∈ vec) :
    x ∈ nextLevelfftIndexMap d vec n nl := mem_nextLevel.mpr ⟨x, h, Or.inl rfl⟩

theorem nextLevel_lt {d : MatLit} {vec : List Nat} {n nl : Nat} (hn : 0 < n) (hv : ∀ x ∈ vec, x < n) :
    ∀ x ∈ nextLevelfftIndexMap d vec n nl, x < n := by
  intro x hx
  obtain ⟨i, hi, rfl | rfl | rfl⟩ := mem_nextLevel.mp hx
  · exact hv _ hi
  · exact Nat.mod_lt _ hn
  · exact Nat.mod_lt _ hn

theorem nextLevel_nodup (d : MatLit) (vec : List Nat) (n nl : Nat) :
    (nextLevelfftIndexMap d vec n nl).Nodup := nodup_dedupL _

theorem mergeNext_extensive {d : MatLit} {n : Nat} : ∀ (c nl : Nat) {vec : List Nat} {x : Nat},
    x ∈ vec → x ∈ mergeNext d n c nl vec
  | 0, _, _, _, h => h
  | c + 1, nl, _, _, h => mergeNext_extensive c (nl - 1) (nextLevel_extensive h)

theorem mergeNext_lt {d : MatLit} {n : Nat} (hn : 0 < n) : ∀ (c nl : Nat) {vec : List Nat},
    (∀ x ∈ vec, x < n) → ∀ x ∈ mergeNext d n c nl vec, x < n
  | 0, _, _, h => h
  | c + 1, nl, _, h => mergeNext_lt hn c (nl - 1) (nextLevel_lt hn h)

theorem mergeNext_nodup {d : MatLit} {n : Nat} : ∀ (c nl : Nat) {vec : List Nat},
    vec.Nodup → (mergeNext d n c nl vec).Nodup
  | 0, _, _, h => h
  | c + 1, nl, _, _ => mergeNext_nodup c (nl - 1) (nextLevel_nodup _ _ _ _)

/-- bound of the indices of one matrix -/
def factorBound (d : MatLit) (special : Bool) : Nat :=
  if special then 2 * 2 ^ d.logSlots else 2 ^ d.logSlots

theorem factorIndex_lt (d : MatLit) (special : Bool) {level : Nat} (m : Nat)
    (h1 : 1 ≤ level) (h2 : level ≤ d.logSlots) :
    ∀ x ∈ factorIndex d special level m, x < factorBound d special := by
  have hp := two_pow_pos' d.logSlots
  unfold factorIndex factorBound
  cases special
  · simp only [Bool.false_eq_true, if_false]
    apply mergeNext_lt hp
    intro x hx
    unfold genWfftIndexMap at hx
    simp only [mem_dedupL, List.mem_cons, List.not_mem_nil, or_false] at hx
    have := layerRot_lt d h1 h2
    obtain ⟨e, he⟩ := layerRot_pow d level
    have := two_pow_pos' e
    rcases hx with rfl | rfl | rfl <;> omega
  · simp only [if_true]
    apply mergeNext_lt (by omega)
    apply nextLevel_lt (by omega)
    intro x hx
    unfold genWfftRepackIndexMap at hx
    simp only [List.mem_cons, List.not_mem_nil, or_false] at hx
    rcases hx with rfl | rfl <;> omega

theorem factorIndex_nodup (d : MatLit) (special : Bool) (level m : Nat) :
    (factorIndex d special level m).Nodup := by
  unfold factorIndex
  cases special
  · simp only [Bool.false_eq_true, if_false]
    exact mergeNext_nodup _ _ (nodup_dedupL _)
  · simp only [if_true]
    exact mergeNext_nodup _ _ (nextLevel_nodup _ _ _ _)

/-- every index set contains `0` and a power of two -/
theorem factorIndex_has (d : MatLit) (special : Bool) (level m : Nat) :
    0 ∈ factorIndex d special level m ∧ ∃ e, 2 ^ e ∈ factorIndex d special level m := by
  unfold factorIndex
  cases special
  · simp only [Bool.false_eq_true, if_false]
    obtain ⟨e, he⟩ := layerRot_pow d level
    refine ⟨mergeNext_extensive _ _ ?_, e, mergeNext_extensive _ _ ?_⟩
    · unfold genWfftIndexMap; simp [mem_dedupL]
    · unfold genWfftIndexMap; simp [mem_dedupL, he]
  · simp only [if_true]
    refine ⟨mergeNext_extensive _ _ (nextLevel_extensive ?_), d.logSlots,
      mergeNext_extensive _ _ (nextLevel_extensive ?_)⟩
    · simp [genWfftRepackIndexMap]
    · simp [genWfftRepackIndexMap]

/-- a matrix with fewer than three diagonals has the diagonals `0` and one power of two only -/
theorem factorIndex_narrow (d : MatLit) (special : Bool) (level m : Nat)
    (hl : (factorIndex d special level m).length < 3) :
    ∃ e, ∀ x ∈ factorIndex d special level m, x = 0 ∨ x = 2 ^ e := by
  obtain ⟨h0, e, he⟩ := factorIndex_has d special level m
  exact ⟨e, small_nodup (factorIndex_nodup d special level m) hl h0 he (two_pow_pos' e).ne⟩

/-! ### helper and evaluator walk over the same index sets -/

theorem genMatricesIndex_eq (d : MatLit) (logN : Nat) : genMatricesIndex d logN = computeIndexMap d logN := by
  unfold genMatricesIndex computeIndexMap MatLit.logdSlots
  congr 1
  by_cases h : d.logSlots < logN - 1 <;> cases hr : d.repack <;> simp [h]

theorem dslots_eq (d : MatLit) (logN : Nat) : 2 ^ d.logdSlots logN = d.dslots logN := by
  unfold MatLit.logdSlots MatLit.dslots MatLit.sparseRepack
  split
  · rw [Nat.pow_succ]; omega
  · rfl

end Lattigo.Proofs.Bootstrap
