/-
  Message-level soundness of the building blocks of `BGV.step`:
  with `msg r = slots r · (scale r)⁻¹ ∈ Z_t^n` (what `Decode` returns after decryption),
  every block computes the Z_t operation on messages.
-/
import Lattigo.Proofs.BGVScale
import Mathlib.Tactic.FieldSimp

namespace Lattigo.BGV

variable {t : Nat}

/-- slot vector as elements of `Z_t` -/
def cz (t : Nat) (l : List Nat) : List (ZMod t) := l.map fun (x : Nat) => (x : ZMod t)

/-- the decoded message of a register, in `Z_t` -/
def msg (t : Nat) (r : Reg) : List (ZMod t) := (cz t r.slots).map fun x => x * (r.scale : ZMod t)⁻¹

abbrev zadd (a b : List (ZMod t)) : List (ZMod t) := List.zipWith (fun x y => x + y) a b
abbrev zsub (a b : List (ZMod t)) : List (ZMod t) := List.zipWith (fun x y => x - y) a b
abbrev zmul (a b : List (ZMod t)) : List (ZMod t) := List.zipWith (fun x y => x * y) a b

theorem cz_vadd (a b : List Nat) : cz t (vadd t a b) = zadd (cz t a) (cz t b) := by
  simp only [cz, vadd, zadd, List.map_zipWith, List.zipWith_map, List.zipWith_map_left, List.zipWith_map_right]
  congr 1; funext x y; simp [ZMod.natCast_mod]

theorem cz_vsub [NeZero t] (a b : List Nat) : cz t (vsub t a b) = zsub (cz t a) (cz t b) := by
  simp only [cz, vsub, zsub, List.map_zipWith, List.zipWith_map, List.zipWith_map_left, List.zipWith_map_right]
  congr 1; funext x y
  have hle : y % t ≤ t := le_of_lt (Nat.mod_lt _ (Nat.pos_of_ne_zero (NeZero.ne t)))
  rw [ZMod.natCast_mod, Nat.cast_add, Nat.cast_sub hle, ZMod.natCast_mod]
  simp [sub_eq_add_neg]

theorem cz_vmul (a b : List Nat) : cz t (vmul t a b) = zmul (cz t a) (cz t b) := by
  simp only [cz, vmul, zmul, List.map_zipWith, List.zipWith_map, List.zipWith_map_left, List.zipWith_map_right]
  congr 1; funext x y; simp [ZMod.natCast_mod]

theorem cz_vscale (c : Nat) (a : List Nat) : cz t (vscale t c a) = (cz t a).map fun x => x * (c : ZMod t) := by
  simp only [cz, vscale, List.map_map]
  congr 1; funext x; simp [ZMod.natCast_mod]

theorem cz_replicate (n z : Nat) : cz t (List.replicate n z) = List.replicate n (z : ZMod t) := by
  simp [cz]

theorem cz_length (a : List Nat) : (cz t a).length = a.length := by simp [cz]

theorem zipWith_replicate_right {α β γ : Type} (f : α → β → γ) (l : List α) (z : β) (n : Nat)
    (hn : n = l.length) :
    List.zipWith f l (List.replicate n z) = l.map fun x => f x z := by
  subst hn
  induction l with
  | nil => rfl
  | cons x l ih => simp [List.replicate_succ, ih]

theorem ofInt_cast [NeZero t] (z : Int) : ((ofInt t z : Nat) : ZMod t) = (z : ZMod t) := by
  unfold ofInt
  have hpos : (0 : Int) < (t : Int) := by exact_mod_cast Nat.pos_of_ne_zero (NeZero.ne t)
  have hnn : 0 ≤ z % (t : Int) := Int.emod_nonneg _ (ne_of_gt hpos)
  have h1 : (((z % (t : Int)).toNat : Nat) : ZMod t) = (((z % (t : Int)).toNat : Int) : ZMod t) := by
    rw [Int.cast_natCast]
  rw [h1, Int.toNat_of_nonneg hnn, ZMod.intCast_mod]

/-! ### scale casts -/

theorem mulmod_cast (x y : Nat) : ((x * y % t : Nat) : ZMod t) = (x : ZMod t) * (y : ZMod t) := by
  rw [ZMod.natCast_mod, Nat.cast_mul]

/-! ### Add / Sub -/

/-- equal scales: slot-wise sum / difference of the messages -/
theorem addsub_same (s : Nat) (A B : List Nat) :
    (cz t (vadd t A B)).map (fun x => x * (s : ZMod t)⁻¹)
      = zadd ((cz t A).map fun x => x * (s : ZMod t)⁻¹) ((cz t B).map fun x => x * (s : ZMod t)⁻¹) := by
  rw [cz_vadd]
  simp only [zadd, List.map_zipWith, List.zipWith_map, List.zipWith_map_left, List.zipWith_map_right]
  congr 1; funext x y; ring

theorem sub_same [NeZero t] (s : Nat) (A B : List Nat) :
    (cz t (vsub t A B)).map (fun x => x * (s : ZMod t)⁻¹)
      = zsub ((cz t A).map fun x => x * (s : ZMod t)⁻¹) ((cz t B).map fun x => x * (s : ZMod t)⁻¹) := by
  rw [cz_vsub]
  simp only [zsub, List.map_zipWith, List.zipWith_map, List.zipWith_map_left, List.zipWith_map_right]
  congr 1; funext x y; ring

/-- mismatched scales: `r0·ct0 ± r1·ct1` at scale `s0·r0`, given `r0·s0 = r1·s1` -/
theorem add_matched [Fact t.Prime] (s0 s1 r0 r1 : Nat) (A B : List Nat)
    (h0 : (s0 : ZMod t) ≠ 0) (h1 : (s1 : ZMod t) ≠ 0) (hr0 : (r0 : ZMod t) ≠ 0)
    (hm : (r0 : ZMod t) * s0 = (r1 : ZMod t) * s1) :
    (cz t (vadd t (vscale t r0 A) (vscale t r1 B))).map (fun x => x * ((s0 * r0 % t : Nat) : ZMod t)⁻¹)
      = zadd ((cz t A).map fun x => x * (s0 : ZMod t)⁻¹) ((cz t B).map fun x => x * (s1 : ZMod t)⁻¹) := by
  rw [cz_vadd, cz_vscale, cz_vscale, mulmod_cast]
  simp only [zadd, List.map_zipWith, List.zipWith_map, List.zipWith_map_left, List.zipWith_map_right]
  congr 1; funext x y
  have hr1 : (r1 : ZMod t) = r0 * s0 * (s1 : ZMod t)⁻¹ := by rw [hm]; field_simp
  rw [hr1]; field_simp

theorem sub_matched [Fact t.Prime] (s0 s1 r0 r1 : Nat) (A B : List Nat)
    (h0 : (s0 : ZMod t) ≠ 0) (h1 : (s1 : ZMod t) ≠ 0) (hr0 : (r0 : ZMod t) ≠ 0)
    (hm : (r0 : ZMod t) * s0 = (r1 : ZMod t) * s1) :
    (cz t (vsub t (vscale t r0 A) (vscale t r1 B))).map (fun x => x * ((s0 * r0 % t : Nat) : ZMod t)⁻¹)
      = zsub ((cz t A).map fun x => x * (s0 : ZMod t)⁻¹) ((cz t B).map fun x => x * (s1 : ZMod t)⁻¹) := by
  have : NeZero t := ⟨(Fact.out : t.Prime).ne_zero⟩
  rw [cz_vsub, cz_vscale, cz_vscale, mulmod_cast]
  simp only [zsub, List.map_zipWith, List.zipWith_map, List.zipWith_map_left, List.zipWith_map_right]
  congr 1; funext x y
  have hr1 : (r1 : ZMod t) = r0 * s0 * (s1 : ZMod t)⁻¹ := by rw [hm]; field_simp
  rw [hr1]; field_simp

/-- scalar operand, encoded at op0's scale and the result read at op0's scale -/
theorem add_scalar [Fact t.Prime] (s z : Nat) (A : List Nat) (h0 : (s : ZMod t) ≠ 0) :
    (cz t (vadd t A (List.replicate A.length (z * s % t)))).map (fun x => x * (s : ZMod t)⁻¹)
      = zadd ((cz t A).map fun x => x * (s : ZMod t)⁻¹) (List.replicate A.length (z : ZMod t)) := by
  rw [cz_vadd, cz_replicate, mulmod_cast]
  simp only [zadd]
  rw [zipWith_replicate_right _ _ _ _ (by simp [cz]), zipWith_replicate_right _ _ _ _ (by simp [cz])]
  simp only [List.map_map]
  congr 1; funext x; simp only [Function.comp]; field_simp

theorem sub_scalar [Fact t.Prime] (s z : Nat) (A : List Nat) (h0 : (s : ZMod t) ≠ 0) :
    (cz t (vsub t A (List.replicate A.length (z * s % t)))).map (fun x => x * (s : ZMod t)⁻¹)
      = zsub ((cz t A).map fun x => x * (s : ZMod t)⁻¹) (List.replicate A.length (z : ZMod t)) := by
  have : NeZero t := ⟨(Fact.out : t.Prime).ne_zero⟩
  rw [cz_vsub, cz_replicate, mulmod_cast]
  simp only [zsub]
  rw [zipWith_replicate_right _ _ _ _ (by simp [cz]), zipWith_replicate_right _ _ _ _ (by simp [cz])]
  simp only [List.map_map]
  congr 1; funext x; simp only [Function.comp]; field_simp

/-- vector operand: `Encode` at op0's scale -/
theorem add_vec [Fact t.Prime] (s : Nat) (A V : List Nat) (h0 : (s : ZMod t) ≠ 0) :
    (cz t (vadd t A (vscale t s V))).map (fun x => x * (s : ZMod t)⁻¹)
      = zadd ((cz t A).map fun x => x * (s : ZMod t)⁻¹) (cz t V) := by
  rw [cz_vadd, cz_vscale]
  simp only [zadd, List.map_zipWith, List.zipWith_map, List.zipWith_map_left, List.zipWith_map_right]
  congr 1; funext x y; field_simp

theorem sub_vec [Fact t.Prime] (s : Nat) (A V : List Nat) (h0 : (s : ZMod t) ≠ 0) :
    (cz t (vsub t A (vscale t s V))).map (fun x => x * (s : ZMod t)⁻¹)
      = zsub ((cz t A).map fun x => x * (s : ZMod t)⁻¹) (cz t V) := by
  have : NeZero t := ⟨(Fact.out : t.Prime).ne_zero⟩
  rw [cz_vsub, cz_vscale]
  simp only [zsub, List.map_zipWith, List.zipWith_map, List.zipWith_map_left, List.zipWith_map_right]
  congr 1; funext x y; field_simp

/-! ### products -/

/-- `tensorStandard`: raw slots multiply, scales multiply -/
theorem mul_std [Fact t.Prime] (s0 s1 : Nat) (A B : List Nat) :
    (cz t (vmul t A B)).map (fun x => x * ((s0 * s1 % t : Nat) : ZMod t)⁻¹)
      = zmul ((cz t A).map fun x => x * (s0 : ZMod t)⁻¹) ((cz t B).map fun x => x * (s1 : ZMod t)⁻¹) := by
  rw [cz_vmul, mulmod_cast]
  simp only [zmul, List.map_zipWith, List.zipWith_map, List.zipWith_map_left, List.zipWith_map_right]
  congr 1; funext x y; rw [mul_inv]; ring

/-- `tensorScaleInvariant`: the factor `k = (−Q_ℓ)⁻¹` enters the slots and the scale alike -/
theorem mul_si [Fact t.Prime] (s0 s1 k : Nat) (A B : List Nat) (hk : (k : ZMod t) ≠ 0) :
    (cz t (vscale t k (vmul t A B))).map (fun x => x * ((s0 * s1 % t * k % t : Nat) : ZMod t)⁻¹)
      = zmul ((cz t A).map fun x => x * (s0 : ZMod t)⁻¹) ((cz t B).map fun x => x * (s1 : ZMod t)⁻¹) := by
  rw [cz_vscale, cz_vmul, mulmod_cast, mulmod_cast]
  simp only [zmul, List.map_zipWith, List.zipWith_map, List.zipWith_map_left, List.zipWith_map_right, List.map_map]
  congr 1; funext x y
  simp only [Function.comp, mul_inv]
  field_simp

/-- scalar branch of `Mul`, result read at op0's scale -/
theorem mul_scalar (s z : Nat) (A : List Nat) :
    (cz t (vscale t z A)).map (fun x => x * (s : ZMod t)⁻¹)
      = zmul ((cz t A).map fun x => x * (s : ZMod t)⁻¹) (List.replicate A.length (z : ZMod t)) := by
  rw [cz_vscale]
  simp only [zmul]
  rw [zipWith_replicate_right _ _ _ _ (by simp [cz])]
  simp only [List.map_map]
  congr 1; funext x; simp only [Function.comp]; ring

/-- vector operand of a product: plaintext at scale `ps`, `ptOf` -/
theorem msg_ptOf [Fact t.Prime] (l ps : Nat) (V : List Nat) (hps : (ps : ZMod t) ≠ 0) :
    msg t (ptOf l ps t V) = cz t V := by
  unfold msg ptOf
  simp only
  rw [cz_vscale, List.map_map]
  conv_rhs => rw [← List.map_id (cz t V)]
  congr 1; funext x; simp only [Function.comp, id]; field_simp

end Lattigo.BGV
