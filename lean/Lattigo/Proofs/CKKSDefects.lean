/-
  Concrete evaluations (by the kernel, on the executable model) of the calls where the bookkeeping of
  `ckks.Evaluator` and the content of the ciphertext disagree (known findings, not repaired), and of
  the calls repaired by the fixes C06-1 … C06-6 (now positive statements).  Toy moduli are used so
  that the numbers are readable; the harness exhibits the same behaviour on the real code
  (probes `program_precision` with the finding keys quoted below).
-/
import Lattigo.Model.CKKS

namespace Lattigo.CKKS

deriving instance DecidableEq for Except

/-- toy parameters: `q = (1009, 1013, 1019)`, one prime per rescale, 53-bit constants. -/
def toyP : Params := ⟨[1009, 1013, 1019], 1, 53, false, 64, 4, [5, 25], true⟩
/-- two primes per rescale -/
def toyP2 : Params := { toyP with lcpr := 2 }

def dy (m : Nat) (e : Int) : Dy := Dy.norm m e
def sd (z : Int) (e : Int) : SD := ⟨decide (z < 0), Dy.norm z.natAbs e⟩

/-- `C06/add-noninteger-scale-ratio`: scales `24 = 1.5·16` and `16`: the operand of scale 16 is
    multiplied by `⌊1.5⌋ = 1`, the result is recorded at scale 24. -/
theorem add_nonint_ratio_witness :
    addElt toyP false ⟨2, 1, dy 24 0, 4⟩ ⟨2, 1, dy 16 0, 4⟩ ⟨2, 1, dy 16 0, 4⟩
      = .ok ⟨⟨2, 1, dy 24 0, 4⟩, [1, 1, 0, 1, 1, 0]⟩ := by decide +kernel

/-- integer ratio: exact alignment (`16·3 = 48`). -/
theorem add_int_ratio_witness :
    addElt toyP false ⟨2, 1, dy 48 0, 4⟩ ⟨2, 1, dy 16 0, 4⟩ ⟨2, 1, dy 16 0, 4⟩
      = .ok ⟨⟨2, 1, dy 48 0, 4⟩, [1, 3, 0, 1, 3, 0]⟩ := by decide +kernel

/-- operands of different degree: `Add(ct of degree 2 @16, ct of degree 1 @48, fresh receiver)`: the
    component `c_2`, present in `op0` only, is the *scale-matched* one (`3·op0.c_2`, not `op0.c_2`). -/
theorem add_higher_degree_scaled_witness :
    addElt toyP false ⟨2, 2, dy 16 0, 4⟩ ⟨2, 1, dy 48 0, 4⟩ ⟨2, 2, dy 16 0, 4⟩
      = .ok ⟨⟨2, 2, dy 48 0, 4⟩, [3, 1, 0, 3, 1, 0, 3, 0, 0]⟩ ∧
    addElt toyP true ⟨2, 0, dy 48 0, 4⟩ ⟨2, 1, dy 16 0, 4⟩ ⟨2, 1, dy 16 0, 4⟩
      = .ok ⟨⟨2, 1, dy 48 0, 4⟩, [1, -3, 0, 0, -3, 0]⟩ := by decide +kernel

/-- fix C06-1 (was `C06/addsc-receiver-scale-not-set`): `AddNew(ct, 1)` with `ct.Scale = 64` and a
    receiver allocated at the default scale 16: the constant is added at scale 64 and the output is
    recorded at scale 64. -/
theorem addScalar_fresh_receiver_witness :
    addScalar toyP false ⟨2, 1, dy 64 0, 4⟩ ⟨2, 1, dy 16 0, 4⟩ (sd 1 0) (sd 0 0)
      = .ok ⟨⟨2, 1, dy 64 0, 4⟩, [64, 0, 1, 1]⟩ := by decide +kernel

/-- `C06/setscale-noninteger-ratio-ge2`: `SetScale(ct@16, 40)` (ratio 2.5): the content is multiplied
    by `round(2.5·1019) = 2548`, **no** prime is divided out (`16 < 40/2`), the scale is recorded as
    `40`: the content is `1019` times too large. -/
theorem setScale_ratio_ge2_witness :
    setScale toyP ⟨2, 1, dy 16 0, 4⟩ (dy 40 0) = .ok ⟨⟨2, 1, dy 40 0, 4⟩, [2548, 2548]⟩ := by decide +kernel

/-- ratio in `(2/q, 2)`: one prime consumed, content multiplied by `round(1.25·1019)/1019 ≈ 1.25`. -/
theorem setScale_ok_witness :
    setScale toyP ⟨2, 1, dy 16 0, 4⟩ (dy 20 0) = .ok ⟨⟨1, 1, dy 20 0, 4⟩, [1, 1]⟩ := by decide +kernel

/-- `C06/setscale-ratio-below-2-over-q`: `SetScale(ct@2^14, 16)`: the constant is scaled by one prime
    (`round(2^-10·1019) = 1`), but `RescaleTo` works on the recorded scale `2^14·1019` and divides by
    two primes (`2^14/1013 ≥ 8`): the ciphertext lands at level 0 and its content is `≈ 1013` times
    too small. -/
theorem setScale_ratio_small_witness :
    setScale toyP ⟨2, 1, dy 1 14, 4⟩ (dy 16 0) = .ok ⟨⟨0, 1, dy 16 0, 4⟩, [0, 0]⟩ := by decide +kernel

/-- `C06/mta-scaleup-noninteger-ratio`: `MulRelinThenAdd` with `opOut.Scale = 10`, product scale
    `16·4 = 64` (ratio 6.4): the receiver is multiplied by `round(6.4·1019) = 6522` and recorded at
    scale 64: its previous content is `1019` times too large. -/
theorem mulThenAdd_nonint_ratio_witness :
    mulThenAddElt toyP true .fresh ⟨2, 1, dy 16 0, 4⟩ ⟨2, 1, dy 4 0, 4⟩ ⟨2, 1, dy 10 0, 4⟩
      = .ok ⟨⟨2, 1, dy 64 0, 4⟩, [6522, 6522]⟩ := by decide +kernel

/-- integer ratio (`64/16 = 4`): exact. -/
theorem mulThenAdd_int_ratio_witness :
    mulThenAddElt toyP true .fresh ⟨2, 1, dy 16 0, 4⟩ ⟨2, 1, dy 4 0, 4⟩ ⟨2, 1, dy 16 0, 4⟩
      = .ok ⟨⟨2, 1, dy 64 0, 4⟩, [4, 4]⟩ := by decide +kernel

/-- fix C06-2 (was `C06/mtasc-receiver-level-kept`, `C06/mta-receiver-degree-cut`):
    `MulThenAdd(ct@level 1, 3, out@level 2 of degree 2)` is evaluated at level 1 and keeps degree 2. -/
theorem mulThenAddScalar_level_degree_witness :
    mulThenAddScalar toyP .fresh ⟨1, 1, dy 16 0, 4⟩ ⟨2, 2, dy 16 0, 4⟩ (sd 3 0) (sd 0 0)
      = .ok ⟨⟨1, 2, dy 16 0, 4⟩, [1, 3, 0, 1, 3, 0, 1, 0, 0]⟩ := by decide +kernel

/-- fix C06-3 (was `C06/mtasc-receiver-is-operand`): the receiver must differ from `op0`. -/
theorem mulThenAddScalar_alias_witness :
    mulThenAddScalar toyP .out0 ⟨2, 1, dy 16 0, 4⟩ ⟨2, 1, dy 16 0, 4⟩ (sd 1 (-1)) (sd 0 0) = .error .err := by
  decide +kernel

/-- `C06/scaleup-truncates-scale`: `ScaleUp(ct, 2.5)`: content times 2, recorded scale times 2.5. -/
theorem scaleUp_truncation_witness :
    scaleUp toyP ⟨2, 1, dy 16 0, 4⟩ ⟨2, 1, dy 16 0, 4⟩ (dy 5 (-1))
      = .ok ⟨⟨2, 1, dy 40 0, 4⟩, [2, 2]⟩ := by decide +kernel

/-- fix C06-5 (was `C06/panic:prec128-level0-constant-scaling`): with two primes per rescale a
    non-integer constant at level 0 is an error. -/
theorem mulScalar_prec128_level0_errors :
    mulScalar toyP2 ⟨0, 1, dy 16 0, 4⟩ ⟨0, 1, dy 16 0, 4⟩ (sd 1 (-1)) (sd 0 0) = .error .err := by
  decide +kernel

/-- fix C06-6 (was `C06/panic:rescaleto-consumes-all-levels`): a scale of the size of `Q` and a tiny
    minimum scale: the loop stops at level 0 (one prime consumed), `q_0` is kept. -/
theorem rescaleTo_stops_at_level0_witness :
    rescaleTo toyP ⟨1, 1, dy 1 30, 4⟩ (dy 1 0) = .ok ⟨⟨0, 1, sdiv (dy 1 30) (dy 1013 0), 4⟩, [1]⟩ := by
  decide +kernel

/-- a Gaussian-integer constant is not scaled; a non-integer one is scaled by the current prime. -/
theorem mulScalar_witness :
    mulScalar toyP ⟨2, 1, dy 16 0, 4⟩ ⟨2, 1, dy 16 0, 4⟩ (sd 3 0) (sd (-2) 0) = .ok ⟨⟨2, 1, dy 16 0, 4⟩, [3, -2, 3, -2]⟩
    ∧ mulScalar toyP ⟨2, 1, dy 16 0, 4⟩ ⟨2, 1, dy 16 0, 4⟩ (sd 1 (-1)) (sd (-1) (-2))
        = .ok ⟨⟨2, 1, dy (16 * 1019) 0, 4⟩, [510, -255, 510, -255]⟩ := by decide +kernel

/-- rescale: one prime (`16·1019 / 1019 = 16` exactly) resp. two primes. -/
theorem rescale_witness :
    rescale toyP ⟨2, 1, dy (16 * 1019) 0, 4⟩ = .ok ⟨⟨1, 1, dy 16 0, 4⟩, []⟩
    ∧ rescale toyP2 ⟨2, 1, dy (16 * 1019 * 1013) 0, 4⟩ = .ok ⟨⟨0, 1, dy 16 0, 4⟩, []⟩
    ∧ rescale toyP2 ⟨1, 1, dy 16 0, 4⟩ = .error .err := by decide +kernel

end Lattigo.CKKS
