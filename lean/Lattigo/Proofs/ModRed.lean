import Lattigo.Gen.ModRed
namespace Lattigo
open Lattigo.Gen

/-- The Montgomery constant hypothesis: `q * qinv ≡ 1 (mod 2^64)`. -/
def MontConst (q qinv : Nat) : Prop := (q * qinv) % W = 1

theorem mont_low (q qinv alo : Nat) (h : MontConst q qinv) (ha : alo < W) :
    ((alo * qinv) % W * q) % W = alo := by
  unfold MontConst at h
  have : ((alo * qinv) % W * q) % W = (alo * ((q * qinv) % W)) % W := by
    rw [Nat.mod_mul_mod, Nat.mul_mod_mod]
    congr 1
    rw [Nat.mul_assoc, Nat.mul_comm qinv q]
  rw [this, h, Nat.mul_one, Nat.mod_eq_of_lt ha]

theorem MRedLazy_eq (x y q qinv : Nat) (hq : 2 * q ≤ W) (hm : MontConst q qinv)
    (hxy : x * y < q * W) :
    MRedLazy x y q qinv * W + ((x * y) % W * qinv % W) * q = x * y + q * W
    ∧ MRedLazy x y q qinv < 2 * q ∧ 0 < MRedLazy x y q qinv := by
  unfold MRedLazy
  simp only [mul64, u64add, u64sub, u64mul]
  have hlow := mont_low q qinv ((x * y) % W) hm (Nat.mod_lt _ (by decide))
  generalize hP : x * y = P at *
  generalize hM : (P % W * qinv) % W = m at *
  have hmW : m < W := by rw [← hM]; exact Nat.mod_lt _ (by decide)
  have hmq : m * q < W * q := Nat.mul_lt_mul_of_pos_right hmW (by unfold W at *; omega)
  generalize hMq : m * q = Mq at *
  have h1 := Nat.div_add_mod P W
  have h2 := Nat.div_add_mod Mq W
  have hPq : P / W < q := by
    apply Nat.div_lt_of_lt_mul; rw [Nat.mul_comm]; exact hxy
  have hHq : Mq / W < q := by
    apply Nat.div_lt_of_lt_mul; exact hmq
  unfold W at *
  omega
