import Lattigo.Gen.ModRed
import Lattigo.Model.BRedConst
import Mathlib.Tactic.Linarith
import Mathlib.Tactic.Ring
namespace Lattigo
open Lattigo.Gen

/-- The Montgomery constant hypothesis: `q * qinv ≡ 1 (mod 2^64)`. -/
def MontConst (q qinv : Nat) : Prop := (q * qinv) % W = 1

theorem mont_low (q qinv alo : Nat) (h : MontConst q qinv) (ha : alo < W) :
    ((alo * qinv) % W * q) % W = alo := by
  unfold MontConst at h
  have : ((alo * qinv) % W * q) % W = (alo * ((q * qinv) % W)) % W := by
    rw [Nat.mod_mul_mod, Nat.mul_mod_mod]
    congr 1
    rw [Nat.mul_assoc, Nat.mul_comm qinv q]
  rw [this, h, Nat.mul_one, Nat.mod_eq_of_lt ha]

theorem MontConst.pos {q qinv : Nat} (h : MontConst q qinv) : 0 < q := by
  rcases Nat.eq_zero_or_pos q with h0 | h0
  · subst h0; unfold MontConst at h; simp at h
  · exact h0

/-- `a + k₁ q = b + k₂ q → a ≡ b (mod q)`; the form in which all congruences below are derived. -/
theorem mod_eq_of_add_mul_eq {a b k1 k2 q : Nat} (h : a + k1 * q = b + k2 * q) : a % q = b % q := by
  have := congrArg (· % q) h
  simpa [Nat.add_mul_mod_self_right] using this

theorem MRedLazy_eq (x y q qinv : Nat) (hq : 2 * q ≤ W) (hm : MontConst q qinv)
    (hxy : x * y < q * W) :
    MRedLazy x y q qinv * W + ((x * y) % W * qinv % W) * q = x * y + q * W
    ∧ MRedLazy x y q qinv < 2 * q ∧ 0 < MRedLazy x y q qinv := by
  unfold MRedLazy
  simp only [mul64, u64add, u64sub, u64mul]
  have hlow := mont_low q qinv ((x * y) % W) hm (Nat.mod_lt _ (by decide))
  generalize hP : x * y = P at *
  generalize hM : (P % W * qinv) % W = m at *
  have hmW : m < W := by rw [← hM]; exact Nat.mod_lt _ (by decide)
  have hmq : m * q < W * q := Nat.mul_lt_mul_of_pos_right hmW (by unfold W at *; omega)
  generalize hMq : m * q = Mq at *
  have h1 := Nat.div_add_mod P W
  have h2 := Nat.div_add_mod Mq W
  have hPq : P / W < q := by
    apply Nat.div_lt_of_lt_mul; rw [Nat.mul_comm]; exact hxy
  have hHq : Mq / W < q := by
    apply Nat.div_lt_of_lt_mul; exact hmq
  unfold W at *
  omega

/-- **MRedLazy** (`ring/modular_reduction.go`): for `2q ≤ 2^64`, `q·qinv ≡ 1 (mod 2^64)` and
`x·y < q·2^64`, the result `r` satisfies `r·2^64 ≡ x·y (mod q)` and `0 < r < 2q`.
(The Go comment says `[0, 2q-1]`; the value `0` is in fact never produced.) -/
theorem MRedLazy_spec (x y q qinv : Nat) (hq : 2 * q ≤ W) (hm : MontConst q qinv)
    (hxy : x * y < q * W) :
    (MRedLazy x y q qinv * W) % q = (x * y) % q
    ∧ MRedLazy x y q qinv < 2 * q ∧ 0 < MRedLazy x y q qinv := by
  obtain ⟨h, h2, h3⟩ := MRedLazy_eq x y q qinv hq hm hxy
  refine ⟨?_, h2, h3⟩
  exact mod_eq_of_add_mul_eq (k2 := W) (by rw [h]; ring)

/-- **CRed**: for `a < 2q` (and `a` a uint64) `CRed a q = a mod q`. `a < W` is needed because the
statement is over `Nat`: for `a ≥ 2^64` the `uint64` subtraction is not the integer one. -/
theorem CRed_spec (a q : Nat) (hq : 0 < q) (ha : a < 2 * q) (haW : a < W) : CRed a q = a % q := by
  unfold CRed
  simp only [u64sub]
  by_cases h : q ≤ a
  · rw [if_pos (decide_eq_true h)]
    rw [Nat.mod_eq_sub_mod h, Nat.mod_eq_of_lt (a := a - q) (by omega)]
    have : q % W = q := Nat.mod_eq_of_lt (by omega)
    rw [this]
    unfold W at *; omega
  · rw [if_neg (by simpa using h)]
    rw [Nat.mod_eq_of_lt (by omega)]

theorem CRed_lt (a q : Nat) (hq : 0 < q) (ha : a < 2 * q) (haW : a < W) : CRed a q < q := by
  rw [CRed_spec a q hq ha haW]; exact Nat.mod_lt _ hq

theorem MRed_eq_CRed (x y q c : Nat) : MRed x y q c = CRed (MRedLazy x y q c) q := rfl

/-- **MRed**: same hypotheses as `MRedLazy_spec`; result `< q`. -/
theorem MRed_spec (x y q qinv : Nat) (hq : 2 * q ≤ W) (hm : MontConst q qinv)
    (hxy : x * y < q * W) :
    (MRed x y q qinv * W) % q = (x * y) % q ∧ MRed x y q qinv < q := by
  obtain ⟨h1, h2, _⟩ := MRedLazy_spec x y q qinv hq hm hxy
  have hq0 := hm.pos
  rw [MRed_eq_CRed, CRed_spec _ q hq0 h2 (by omega)]
  exact ⟨by rw [Nat.mod_mul_mod]; exact h1, Nat.mod_lt _ hq0⟩

/-! ### Barrett -/

/-- The Barrett quotient estimate: with `u = ⌊N/q⌋` and `P ≤ N`, `t = ⌊P·u/N⌋` satisfies
`t·q ≤ P < t·q + 2q`. Used with `N = 2^64` (BRedAdd) and `N = 2^128` (BRed, MForm). -/
theorem barrett_quot (N q P : Nat) (hq : 0 < q) (hN : 0 < N) (hP : P ≤ N) :
    (P * (N / q) / N) * q ≤ P ∧ P < (P * (N / q) / N) * q + 2 * q := by
  have hu := Nat.div_add_mod N q
  have hr := Nat.mod_lt N hq
  generalize N / q = u at *
  generalize N % q = r0 at *
  have ht := Nat.div_add_mod (P * u) N
  have hs := Nat.mod_lt (P * u) hN
  generalize P * u / N = t at *
  generalize hS : P * u % N = s at *
  constructor
  · apply Nat.le_of_mul_le_mul_left _ hN
    nlinarith
  · apply Nat.lt_of_mul_lt_mul_left (a := N)
    nlinarith

theorem brc_fst (q : Nat) (hq : 1 < q) : (brc q).1 = W / q := by
  unfold brc
  simp only
  rw [Nat.div_div_eq_div_mul, Nat.mul_div_mul_right _ _ (by decide : 0 < W)]
  exact Nat.mod_eq_of_lt (Nat.div_lt_self (by decide) hq)

theorem brc_snd (q : Nat) : (brc q).2 = (W * W / q) % W := rfl

theorem brc_lt (q : Nat) : (brc q).1 < W ∧ (brc q).2 < W :=
  ⟨Nat.mod_lt _ (by decide), Nat.mod_lt _ (by decide)⟩

/-- For `q ≥ 2` the two words are the base-`2^64` digits of `⌊2^128/q⌋`. -/
theorem brc_combine (q : Nat) (hq : 1 < q) : (brc q).1 * W + (brc q).2 = W * W / q := by
  have h1 : (brc q).1 = W * W / q / W := by
    rw [brc_fst q hq, Nat.div_div_eq_div_mul, Nat.mul_div_mul_right _ _ (by decide : 0 < W)]
  rw [h1, brc_snd, Nat.mul_comm]
  exact Nat.div_add_mod _ _

theorem BRedAddLazy_eq (x q : Nat) (hq : 1 < q) (hx : x < W) :
    BRedAddLazy x q (brc q) + (x * (W / q) / W) * q = x ∧ BRedAddLazy x q (brc q) < 2 * q := by
  unfold BRedAddLazy
  simp only [mul64, u64sub, u64mul, brc_fst q hq]
  obtain ⟨h1, h2⟩ := barrett_quot W q x (by omega) (by decide) (Nat.le_of_lt hx)
  generalize x * (W / q) / W = t at *
  have htq : t ≤ t * q := Nat.le_mul_of_pos_right t (by omega)
  generalize hT : t * q = T at *
  have ht : t % W = t := Nat.mod_eq_of_lt (by omega)
  rw [ht, hT]
  unfold W at *
  omega

/-- **BRedAddLazy**: `x mod q` up to one multiple of `q`, for every uint64 `x`; only `q ≥ 2` is
needed (`GenBRedConstant 1` wraps to `[0,0]`). -/
theorem BRedAddLazy_spec (x q : Nat) (hq : 1 < q) (hx : x < W) :
    BRedAddLazy x q (brc q) % q = x % q ∧ BRedAddLazy x q (brc q) < 2 * q := by
  obtain ⟨h1, h2⟩ := BRedAddLazy_eq x q hq hx
  exact ⟨mod_eq_of_add_mul_eq (k2 := 0) (by rw [h1]; ring), h2⟩

theorem BRedAdd_eq_CRed (a q : Nat) (c : Nat × Nat) : BRedAdd a q c = CRed (BRedAddLazy a q c) q := rfl

/-- **BRedAdd**: `BRedAdd a q (GenBRedConstant q) = a mod q` for every uint64 `a`, every `q ≥ 2`. -/
theorem BRedAdd_spec (a q : Nat) (hq : 1 < q) (ha : a < W) : BRedAdd a q (brc q) = a % q := by
  obtain ⟨h1, h2⟩ := BRedAddLazy_spec a q hq ha
  obtain ⟨h3, _⟩ := BRedAddLazy_eq a q hq ha
  rw [BRedAdd_eq_CRed, CRed_spec _ q (by omega) h2 (by omega), h1]

/-- Last step shared by `BRedLazy`/`MFormLazy`: `(P - t·q) mod 2^64` is the integer `P - T·q`
as soon as `t ≡ T (mod 2^64)` and `0 ≤ P - T·q < 2q ≤ 2^64`. -/
theorem bred_final (Plo P T q t : Nat) (ht : t = T % W) (hlo : Plo = P % W) (h1 : T * q ≤ P)
    (h2 : P < T * q + 2 * q) (h2q : 2 * q ≤ W) :
    u64sub Plo (u64mul t q) + T * q = P ∧ u64sub Plo (u64mul t q) < 2 * q := by
  subst ht hlo
  simp only [u64sub, u64mul, Nat.mod_mul_mod]
  generalize T * q = X at *
  unfold W at *
  omega

/-- The 128×128→high-128 partial-product schedule of `BRed` computes `⌊P·u / 2^128⌋ mod 2^64`
exactly (`P = mhi·2^64 + mlo`, `u = uhi·2^64 + ulo`); products are atoms. -/
theorem bred_quot_words (A B C D Pu : Nat) (h : Pu = A * W * W + (B + D) * W + C)
    (hC : C < W * W) :
    u64add (u64add (u64add (u64add (A % W) (B / W % W)) (add64 (B % W) (C / W % W) 0).2)
        (D / W % W)) (add64 (D % W) (add64 (B % W) (C / W % W) 0).1 0).2
      = Pu / (W * W) % W := by
  simp only [u64add, add64]
  unfold W at *
  omega

theorem BRedLazy_eq (x y q : Nat) (hq : 1 < q) (h2q : 2 * q ≤ W) (hx : x < W) (hy : y < W) :
    BRedLazy x y q (brc q) + (x * y * (W * W / q) / (W * W)) * q = x * y
    ∧ BRedLazy x y q (brc q) < 2 * q := by
  have hP : x * y < W * W := Nat.mul_lt_mul'' hx hy
  obtain ⟨h1, h2⟩ := barrett_quot (W * W) q (x * y) (by omega) (by decide) (Nat.le_of_lt hP)
  unfold BRedLazy
  simp only [mul64, u64mul]
  refine bred_final _ _ _ _ _ ?_ rfl h1 h2 h2q
  have hu := brc_combine q hq
  obtain ⟨hu1, hu2⟩ := brc_lt q
  generalize (brc q).1 = uhi at *
  generalize (brc q).2 = ulo at *
  generalize W * W / q = u at *
  generalize x * y = P at *
  have hmhi : P / W % W = P / W := Nat.mod_eq_of_lt (Nat.div_lt_of_lt_mul hP)
  rw [hmhi]
  have hPd := Nat.div_add_mod P W
  have hm2 : P % W < W := Nat.mod_lt _ (by decide)
  generalize P / W = mhi at *
  generalize P % W = mlo at *
  have hPu : P * u = mhi * uhi * W * W + (mlo * uhi + mhi * ulo) * W + mlo * ulo := by
    rw [← hPd, ← hu]; ring
  exact bred_quot_words _ _ _ _ _ hPu (Nat.mul_lt_mul'' hm2 hu2)

/-- **BRedLazy**: for `2 ≤ q ≤ 2^63` and ALL uint64 `x, y` the result is `≡ x·y (mod q)` and `< 2q`.
`2q ≤ 2^64` is what makes `x·y - t·q ∈ [0,2q)` recoverable from its low word. -/
theorem BRedLazy_spec (x y q : Nat) (hq : 1 < q) (h2q : 2 * q ≤ W) (hx : x < W) (hy : y < W) :
    BRedLazy x y q (brc q) % q = (x * y) % q ∧ BRedLazy x y q (brc q) < 2 * q := by
  obtain ⟨h1, h2⟩ := BRedLazy_eq x y q hq h2q hx hy
  exact ⟨mod_eq_of_add_mul_eq (k2 := 0) (by rw [h1]; ring), h2⟩

theorem BRed_eq_CRed (x y q : Nat) (c : Nat × Nat) : BRed x y q c = CRed (BRedLazy x y q c) q := rfl

/-- **BRed**: `BRed x y q (GenBRedConstant q) = x·y mod q` for ALL uint64 `x, y`, `2 ≤ q ≤ 2^63`. -/
theorem BRed_spec (x y q : Nat) (hq : 1 < q) (h2q : 2 * q ≤ W) (hx : x < W) (hy : y < W) :
    BRed x y q (brc q) = (x * y) % q := by
  obtain ⟨h1, h2⟩ := BRedLazy_spec x y q hq h2q hx hy
  rw [BRed_eq_CRed, CRed_spec _ q (by omega) h2 (by omega), h1]

theorem BRed_lt (x y q : Nat) (hq : 1 < q) (h2q : 2 * q ≤ W) (hx : x < W) (hy : y < W) :
    BRed x y q (brc q) < q := by
  rw [BRed_spec x y q hq h2q hx hy]; exact Nat.mod_lt _ (by omega)

/-! ### Montgomery form -/

/-- Last step of `MFormLazy`: `(-t)·q mod 2^64 = a·2^64 - T·q` when `t ≡ T`, `P = a·2^64`. -/
theorem mform_final (P T q t : Nat) (ht : t = T % W) (hP : P % W = 0) (h1 : T * q ≤ P)
    (h2 : P < T * q + 2 * q) (h2q : 2 * q ≤ W) :
    u64mul (u64neg t) q + T * q = P ∧ u64mul (u64neg t) q < 2 * q := by
  subst ht
  simp only [u64mul, u64neg, Nat.mod_mod, Nat.mod_mul_mod]
  have hT := Nat.div_add_mod T W
  have ht0 : T % W < W := Nat.mod_lt _ (by decide)
  generalize T / W = t1 at *
  generalize T % W = t0 at *
  have hTq : T * q = t1 * q * W + t0 * q := by rw [← hT]; ring
  have hY : (W - t0) * q + t0 * q = W * q := by
    rw [← Nat.add_mul, Nat.sub_add_cancel (Nat.le_of_lt ht0)]
  generalize (W - t0) * q = Y at *
  generalize t0 * q = Z at *
  generalize t1 * q = K at *
  generalize T * q = X at *
  unfold W at *
  omega

theorem MFormLazy_eq (a q : Nat) (hq : 1 < q) (h2q : 2 * q ≤ W) (ha : a < W) :
    MFormLazy a q (brc q) + (a * W * (W * W / q) / (W * W)) * q = a * W
    ∧ MFormLazy a q (brc q) < 2 * q := by
  have hP : a * W ≤ W * W := Nat.mul_le_mul_right W (Nat.le_of_lt ha)
  obtain ⟨h1, h2⟩ := barrett_quot (W * W) q (a * W) (by omega) (by decide) hP
  unfold MFormLazy
  simp only [mul64]
  refine mform_final _ _ _ _ ?_ (Nat.mul_mod_left _ _) h1 h2 h2q
  have hu := brc_combine q hq
  generalize (brc q).1 = uhi at *
  generalize (brc q).2 = ulo at *
  generalize W * W / q = u at *
  have e1 : a * W * u / (W * W) = a * u / W := by
    rw [Nat.mul_right_comm a W u, Nat.mul_div_mul_right _ _ (by decide : 0 < W)]
  have e2 : a * u = a * uhi * W + a * ulo := by rw [← hu]; ring
  rw [e1, e2]
  simp only [u64add, u64mul]
  generalize a * uhi = E
  generalize a * ulo = F
  unfold W at *
  omega

/-- **MFormLazy**: `≡ a·2^64 (mod q)`, `< 2q`, for every uint64 `a`, `2 ≤ q ≤ 2^63`. -/
theorem MFormLazy_spec (a q : Nat) (hq : 1 < q) (h2q : 2 * q ≤ W) (ha : a < W) :
    MFormLazy a q (brc q) % q = (a * W) % q ∧ MFormLazy a q (brc q) < 2 * q := by
  obtain ⟨h1, h2⟩ := MFormLazy_eq a q hq h2q ha
  exact ⟨mod_eq_of_add_mul_eq (k2 := 0) (by rw [h1]; ring), h2⟩

theorem MForm_eq_CRed (a q : Nat) (c : Nat × Nat) : MForm a q c = CRed (MFormLazy a q c) q := rfl

/-- **MForm**: `MForm a q (GenBRedConstant q) = a·2^64 mod q`. -/
theorem MForm_spec (a q : Nat) (hq : 1 < q) (h2q : 2 * q ≤ W) (ha : a < W) :
    MForm a q (brc q) = (a * W) % q := by
  obtain ⟨h1, h2⟩ := MFormLazy_spec a q hq h2q ha
  rw [MForm_eq_CRed, CRed_spec _ q (by omega) h2 (by omega), h1]

theorem IMFormLazy_eq (a q qinv : Nat) (hqW : q < W) (hm : MontConst q qinv) (ha : a < W) :
    IMFormLazy a q qinv * W + ((a * qinv) % W) * q = a + q * W
    ∧ 0 < IMFormLazy a q qinv ∧ IMFormLazy a q qinv ≤ q := by
  have hlow := mont_low q qinv a hm ha
  unfold IMFormLazy
  simp only [mul64, u64sub, u64mul]
  generalize hM : (a * qinv) % W = m at *
  have hmW : m < W := by rw [← hM]; exact Nat.mod_lt _ (by decide)
  have hq0 := hm.pos
  have hmq : m * q < W * q := Nat.mul_lt_mul_of_pos_right hmW hq0
  generalize hMq : m * q = Mq at *
  have h2 := Nat.div_add_mod Mq W
  have hHq : Mq / W < q := Nat.div_lt_of_lt_mul hmq
  unfold W at *
  omega

/-- **IMFormLazy**: `r·2^64 ≡ a (mod q)` and `0 < r ≤ q` (the Go comment says `[0, 2q-1]`;
the true range is `[1, q]`; `r = q` is attained at `a = 0`, see `IMFormLazy_zero`). -/
theorem IMFormLazy_spec (a q qinv : Nat) (hqW : q < W) (hm : MontConst q qinv) (ha : a < W) :
    (IMFormLazy a q qinv * W) % q = a % q
    ∧ 0 < IMFormLazy a q qinv ∧ IMFormLazy a q qinv ≤ q := by
  obtain ⟨h, h2, h3⟩ := IMFormLazy_eq a q qinv hqW hm ha
  exact ⟨mod_eq_of_add_mul_eq (k2 := W) (by rw [h]; ring), h2, h3⟩

theorem IMForm_eq_CRed (a q c : Nat) : IMForm a q c = CRed (IMFormLazy a q c) q := rfl

/-- **IMForm**: `r·2^64 ≡ a (mod q)`, `r < q`. -/
theorem IMForm_spec (a q qinv : Nat) (hqW : q < W) (hm : MontConst q qinv) (ha : a < W) :
    (IMForm a q qinv * W) % q = a % q ∧ IMForm a q qinv < q := by
  obtain ⟨h1, h2, h3⟩ := IMFormLazy_spec a q qinv hqW hm ha
  have hq0 := hm.pos
  rw [IMForm_eq_CRed, CRed_spec _ q hq0 (by omega) (by omega)]
  exact ⟨by rw [Nat.mod_mul_mod]; exact h1, Nat.mod_lt _ hq0⟩

/-- `IMFormLazy 0 = q`: the lazy inverse Montgomery form of `0` is `q`, not `0`. -/
theorem IMFormLazy_zero (q qinv : Nat) (hqW : q < W) : IMFormLazy 0 q qinv = q := by
  unfold IMFormLazy
  simp only [mul64, u64sub, u64mul, Nat.zero_mul, Nat.zero_mod, Nat.zero_div]
  unfold W at *
  omega

/-! ### GenMRedConstant -/

theorem genMRed_loop (q : Nat) : ∀ n i : Nat,
    loopN n (fun t : Nat × Nat => (u64mul t.1 t.2, u64mul t.2 t.2))
      (q ^ (2 ^ i - 1) % W, q ^ (2 ^ i) % W)
    = (q ^ (2 ^ (i + n) - 1) % W, q ^ (2 ^ (i + n)) % W) := by
  intro n
  induction n with
  | zero => intro i; rfl
  | succ n ih =>
    intro i
    have h1 : 2 ^ i - 1 + 2 ^ i = 2 ^ (i + 1) - 1 := by
      have : 0 < 2 ^ i := Nat.two_pow_pos i
      rw [Nat.pow_succ]; omega
    have h2 : 2 ^ i + 2 ^ i = 2 ^ (i + 1) := by rw [Nat.pow_succ]; omega
    show loopN n _ (u64mul _ _, u64mul _ _) = _
    simp only [u64mul, ← Nat.mul_mod, ← Nat.pow_add, h1, h2] at ih ⊢
    rw [ih (i + 1)]
    have : i + 1 + n = i + (n + 1) := by omega
    rw [this]

theorem GenMRedConstant_eq (q : Nat) (hq : q < W) : GenMRedConstant q = q ^ (2 ^ 63 - 1) % W := by
  have h := genMRed_loop q 63 0
  simp only [Nat.pow_zero, Nat.sub_self, Nat.pow_one, Nat.zero_add,
    Nat.mod_eq_of_lt hq, Nat.mod_eq_of_lt (by decide : 1 < W)] at h
  unfold GenMRedConstant
  exact congrArg Prod.fst h

theorem sq_mod_double (x M h : Nat) (hM : M = 2 * h) (hh : 0 < h) (hx : x % M = 1) :
    (x * x) % (2 * M) = 1 := by
  have hd := Nat.div_add_mod x M
  rw [hx] at hd
  generalize x / M = c at hd
  have : x * x = 2 * M * (h * c * c + c) + 1 := by rw [← hd, hM]; ring
  rw [this, Nat.mul_add_mod]
  exact Nat.mod_eq_of_lt (by omega)

/-- For odd `q`, `q^(2^(k+1)) ≡ 1 (mod 2^(k+3))`. -/
theorem odd_pow_two_pow (q : Nat) (hodd : q % 2 = 1) : ∀ k : Nat, q ^ (2 ^ (k + 1)) % 2 ^ (k + 3) = 1 := by
  intro k
  induction k with
  | zero =>
    show q ^ 2 % 8 = 1
    have h8 : q % 8 = 1 ∨ q % 8 = 3 ∨ q % 8 = 5 ∨ q % 8 = 7 := by omega
    rw [Nat.pow_two, Nat.mul_mod]
    rcases h8 with h | h | h | h <;> rw [h]
  | succ k ih =>
    have e : q ^ 2 ^ (k + 1 + 1) = q ^ 2 ^ (k + 1) * q ^ 2 ^ (k + 1) := by
      rw [← Nat.pow_add]; congr 1; rw [Nat.pow_succ 2 (k + 1)]; omega
    have e2 : 2 ^ (k + 1 + 3) = 2 * 2 ^ (k + 3) := by rw [Nat.pow_succ]; omega
    rw [e, e2]
    exact sq_mod_double _ _ (2 ^ (k + 2)) (by rw [Nat.pow_succ]; omega) (Nat.two_pow_pos _) ih

theorem odd_pow_mod_W (q : Nat) (hodd : q % 2 = 1) : q ^ (2 ^ 63) % W = 1 := by
  have h := odd_pow_two_pow q hodd 62
  have hd : W ∣ 2 ^ (62 + 3) := ⟨2, by decide⟩
  rw [← Nat.mod_mod_of_dvd _ hd, h]
  decide

/-- **GenMRedConstant**: for odd `q < 2^64`, the 63-step square-and-multiply loop returns
`q^(2^63-1) mod 2^64`, which is the inverse of `q` modulo `2^64`. -/
theorem GenMRedConstant_spec (q : Nat) (hodd : q % 2 = 1) (hq : q < W) :
    MontConst q (GenMRedConstant q) ∧ GenMRedConstant q < W := by
  rw [GenMRedConstant_eq q hq]
  refine ⟨?_, Nat.mod_lt _ (by decide)⟩
  unfold MontConst
  rw [Nat.mul_mod_mod, ← Nat.pow_succ']
  have : (2 ^ 63 - 1).succ = 2 ^ 63 := by decide
  rw [this]
  exact odd_pow_mod_W q hodd

/-- Conversely a Montgomery constant exists only for odd `q`. -/
theorem MontConst.odd {q qinv : Nat} (h : MontConst q qinv) : q % 2 = 1 := by
  unfold MontConst at h
  have h2 : (q * qinv) % 2 = 1 := by
    have : (q * qinv) % W % 2 = (q * qinv) % 2 := Nat.mod_mod_of_dvd _ ⟨2 ^ 63, by decide⟩
    rw [← this, h]
  rcases Nat.mod_two_eq_zero_or_one q with h0 | h0
  · rw [Nat.mul_mod, h0] at h2; simp at h2
  · exact h0

theorem MontConst.coprime {q qinv : Nat} (hm : MontConst q qinv) : Nat.Coprime q W := by
  unfold MontConst at hm
  have hd := Nat.div_add_mod (q * qinv) W
  rw [hm] at hd
  have hg1 : Nat.gcd q W ∣ q * qinv := Nat.dvd_trans (Nat.gcd_dvd_left q W) (Nat.dvd_mul_right q qinv)
  have hg2 : Nat.gcd q W ∣ W * (q * qinv / W) := Nat.dvd_trans (Nat.gcd_dvd_right q W) (Nat.dvd_mul_right _ _)
  rw [← hd] at hg1
  exact Nat.eq_one_of_dvd_one ((Nat.dvd_add_right hg2).1 hg1)

/-- `MRedLazy 1 (2^64 mod q) = 1` for every admissible modulus: the value `1` (the minimum of the
range `[1, 2q-1]`) is attained. -/
theorem MRedLazy_one (q qinv : Nat) (hq : 2 * q ≤ W) (hm : MontConst q qinv) :
    MRedLazy 1 (W % q) q qinv = 1 := by
  have hq0 := hm.pos
  have hy : W % q < q := Nat.mod_lt _ hq0
  have hxy : 1 * (W % q) < q * W := by
    rw [Nat.one_mul]; exact Nat.lt_of_lt_of_le hy (Nat.le_mul_of_pos_right q (by decide))
  obtain ⟨he, hlt, hpos⟩ := MRedLazy_eq 1 (W % q) q qinv hq hm hxy
  generalize MRedLazy 1 (W % q) q qinv = r at *
  generalize (1 * (W % q)) % W * qinv % W = m at *
  have hW := Nat.div_add_mod W q
  have hdvd : q ∣ (r - 1) * W := by
    apply Nat.dvd_of_mod_eq_zero
    rw [← Nat.zero_mod q]
    apply mod_eq_of_add_mul_eq (k1 := m + W / q) (k2 := W)
    rw [Nat.add_mul, Nat.mul_comm (W / q) q]
    generalize m * q = A at *
    generalize q * (W / q) = B at *
    generalize W % q = C at *
    unfold W at *
    apply Nat.le_antisymm <;> omega
  obtain ⟨c, hc⟩ := hm.coprime.dvd_of_dvd_mul_right hdvd
  rcases Nat.lt_or_ge c 1 with h0 | h1
  · have : c = 0 := by omega
    subst this; omega
  · exfalso
    have hqc : q ≤ q * c := Nat.le_mul_of_pos_right q h1
    have hr : q + 1 ≤ r := by omega
    rcases Nat.lt_or_ge c 2 with h2 | h2
    · have : c = 1 := by omega
      subst this
      have hr' : r = q + 1 := by omega
      subst hr'
      generalize m * q = A at *
      generalize W % q = C at *
      unfold W at *
      omega
    · have : q * 2 ≤ q * c := Nat.mul_le_mul_left q h2
      omega

end Lattigo
