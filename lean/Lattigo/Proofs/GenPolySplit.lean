/-
  C13 — the regenerated integer scheduling arithmetic of the polynomial evaluator
  (`Lattigo/Gen/PolySplit.lean`: `bignum.OptimalSplit`, `polynomial.SplitDegree`,
  ckks `simEvaluator.PolynomialDepth`, printed by tools/go2lean on every run) against the hand-written
  model `Model/PolyEval.lean` (`optimalSplit`, `splitDegree`, `polynomialDepth`).
  Go `int`s are two's-complement words.
-/
import Lattigo.Gen.PolySplit
import Lattigo.Model.PolyEval
import Lattigo.Proofs.GenParams
import Lattigo.Proofs.InnerSumBasic
import Lattigo.Proofs.PolyEval

namespace Lattigo.Proofs.GenPolySplit
open Lattigo Lattigo.Gen.PolySplit Lattigo.Model.PolyEval Lattigo.Proofs.GenParams

theorem i64le_zero_small (n : Nat) (h1 : 1 ≤ n) (h : n < 2 ^ 63) : i64le n 0 = false := by
  have h0 : i64toInt 0 = 0 := by decide
  simp only [i64le, i64toInt_small n h, h0, decide_eq_false_iff_not]
  omega

theorem i64le_zero_neg (n : Nat) (h : 2 ^ 63 ≤ n) (hW : n < W) : i64le n 0 = true := by
  have h0 : i64toInt 0 = 0 := by decide
  have hn : i64toInt n = (n : Int) - 18446744073709551616 := by
    unfold i64toInt; rw [if_neg (by omega)]
  simp only [i64le, hn, h0, decide_eq_true_eq]
  unfold W at hW; omega

theorem u64shl_one (k : Nat) (hk : k < 64) : u64shl 1 k = 2 ^ k := by
  unfold u64shl
  rw [Nat.one_mul, Nat.mod_eq_of_lt]
  rw [W_eq]; exact Nat.pow_lt_pow_right (by norm_num) hk

theorem len64_bitLen (n : Nat) : len64 n = bitLen n := rfl

/-- Go's `n&(n-1) == 0` is the model's `isPow2` (for `n ≥ 1`). -/
theorem pow2_test (n : Nat) (h1 : 1 ≤ n) (hW : n < W) :
    u64eq (u64and n (u64sub n 1)) 0 = isPow2 n := by
  have hn0 : n ≠ 0 := by omega
  rw [u64sub_small n 1 h1 hW]
  have hiff := Proofs.InnerSum.and_pred_eq_zero_iff n (Nat.log2 n) (Nat.log2_self_le hn0) Nat.lt_log2_self
  have hm := Lattigo.Model.PolyEval.isPow2_iff n
  by_cases hp : n &&& (n - 1) = 0
  · have : isPow2 n = true := hm.2 ⟨hn0, (hiff.1 hp).symm⟩
    simp [u64and, hp, this]
  · have : isPow2 n = false := by
      rcases hb : isPow2 n with _ | _
      · rfl
      · exact absurd (hiff.2 (hm.1 hb).2.symm) hp
    simp [u64and, hp, this]

/-- **`SplitDegree`, regenerated = model** (`n ≥ 1`; Go panics for `n ≤ 0`). -/
theorem SplitDegree_eq (n : Nat) (h1 : 1 ≤ n) (h : n < 2 ^ 62) :
    SplitDegree n = some (splitDegree n) := by
  have hW : n < W := by unfold W; omega
  unfold SplitDegree splitDegree
  simp only [i64le_zero_small n h1 (by omega), Bool.false_eq_true, if_false, pow2_test n h1 hW]
  by_cases hp : isPow2 n = true
  · simp only [hp, if_true, i64div_small n 2 (by omega) (by norm_num)]
  · have hp' : isPow2 n = false := by simpa using hp
    simp only [hp', Bool.false_eq_true, if_false]
    have hn2 : 2 ≤ n := by
      rcases Nat.lt_or_ge n 2 with hlt | hge
      · have : n = 1 := by omega
        subst this
        exact absurd (by decide : isPow2 1 = true) hp
      · exact hge
    have hs : u64sub n 1 = n - 1 := u64sub_small n 1 h1 hW
    have hn1 : n - 1 ≠ 0 := by omega
    have hbl : bitLen (n - 1) = Nat.log2 (n - 1) + 1 := by simp [bitLen, hn1]
    have hlog : Nat.log2 (n - 1) < 62 := (Nat.log2_lt hn1).2 (by omega)
    have hk : u64sub (len64 (n - 1)) 1 = bitLen (n - 1) - 1 := by
      rw [len64_bitLen, hbl]
      exact u64sub_small _ _ (by omega) (by unfold W; omega)
    have hle : 2 ^ Nat.log2 (n - 1) ≤ n - 1 := Nat.log2_self_le hn1
    have hpos : 1 ≤ 2 ^ Nat.log2 (n - 1) := Nat.one_le_two_pow
    rw [hs, hk, hbl, Nat.add_sub_cancel, u64shl_one _ (by omega),
      u64sub_small _ 1 hpos (by unfold W; omega), u64add_small n 1 (by unfold W; omega),
      u64sub_small _ _ (by omega) (by unfold W; omega)]

/-- Go panics for `n ≤ 0`: the regenerated function returns `none`. -/
theorem SplitDegree_panic (n : Nat) (hW : n < W) (h : n = 0 ∨ 2 ^ 63 ≤ n) : SplitDegree n = none := by
  unfold SplitDegree
  have : i64le n 0 = true := by
    rcases h with rfl | h
    · decide
    · exact i64le_zero_neg n h hW
  simp [this]

/-- **`OptimalSplit`, regenerated = model**, for EVERY value `bits.Len64` can take except `0`
    (`logDegree = 0`, i.e. degree `0`, makes Go evaluate `1 << -1`: run-time panic).  The domain
    `1 … 64` is finite and complete (the only caller passes `bits.Len64(degree)`); proved by kernel
    evaluation of all 64 cases. -/
theorem OptimalSplit_eq : ∀ n, n < 65 → 1 ≤ n → OptimalSplit n = optimalSplit n := by
  decide +kernel

/-- **ckks `PolynomialDepth`, regenerated = model** (`levelsConsumedPerRescaling · (bits.Len64(d) − 1)`). -/
theorem PolynomialDepth_eq (l d : Nat) (hl : l < 2 ^ 32) (h1 : 1 ≤ d) (hd : d < 2 ^ 63) :
    PolynomialDepth l d = some (l * polynomialDepth d) := by
  unfold PolynomialDepth polynomialDepth
  simp only [i64le_zero_small d h1 hd, Bool.false_eq_true, if_false]
  have hd0 : d ≠ 0 := by omega
  have hbl : bitLen d = Nat.log2 d + 1 := by simp [bitLen, hd0]
  have hlog : Nat.log2 d < 63 := (Nat.log2_lt hd0).2 hd
  rw [len64_bitLen, hbl, u64sub_small _ 1 (by omega) (by unfold W; omega), Nat.add_sub_cancel]
  unfold u64mul
  rw [Nat.mod_eq_of_lt]
  have : l * Nat.log2 d < 2 ^ 32 * 63 := Nat.mul_lt_mul'' hl hlog
  unfold W; omega

theorem PolynomialDepth_panic (l d : Nat) (hW : d < W) (h : d = 0 ∨ 2 ^ 63 ≤ d) : PolynomialDepth l d = none := by
  unfold PolynomialDepth
  have : i64le d 0 = true := by
    rcases h with rfl | h
    · decide
    · exact i64le_zero_neg d h hW
  simp [this]

end Lattigo.Proofs.GenPolySplit
