/-
  C03 — algebra of the RLWE encryption model (`Model/RLWE.lean`) over an arbitrary commutative ring.
  Identities of the ring (norms are in `Proofs/RLWENorm.lean`, the conjugate-invariant carrier in `Proofs/RLWECI.lean`),
  plus, at the end, the exactness of `RQ.extSmall` on small integer polynomials and the acceptance rule
  `RQ.acceptsBounds` (`ext_coeff_exact`, `RQ.extSmall_ofInts`, `RQ.accepted_ext_exact`, `RQ.rejected_ext_wrong`).
-/
import Lattigo.Model.RLWE
import Mathlib.Tactic.Ring
import Mathlib.Algebra.Ring.Hom.Defs

set_option linter.unusedSectionVars false

namespace Lattigo.RLWE

variable {α : Type} [CommRing α]

/-- `M` really is the Montgomery conversion by the unit `R` -/
structure IsMont (M : Mont α) (R Rinv : α) : Prop where
  inv : R * Rinv = 1
  toM : ∀ x, M.toM x = x * R
  ofM : ∀ x, M.ofM x = x * Rinv

/-- the specification of decryption: `Σ c_i s^i` -/
def phase (s : α) : List α → α
  | [] => 0
  | c :: cs => c + s * phase s cs

/-- the polynomial a stored value denotes under the metadata: Montgomery factor removed iff flagged -/
def denote {μ : Type} (M : Mont α) (md : MetaData μ) (x : α) : α := if md.isMont then M.ofM x else x

theorem mulMont_toM {M : Mont α} {R Rinv : α} (h : IsMont M R Rinv) (x s : α) :
    mulMont M x (M.toM s) = x * s := by
  unfold mulMont
  rw [h.ofM, h.toM]
  calc x * (s * R) * Rinv = x * s * (R * Rinv) := by ring
    _ = x * s := by rw [h.inv, mul_one]

theorem ofM_toM {M : Mont α} {R Rinv : α} (h : IsMont M R Rinv) (x : α) : M.ofM (M.toM x) = x := by
  rw [h.ofM, h.toM, mul_assoc, h.inv, mul_one]

theorem toM_add {M : Mont α} {R Rinv : α} (h : IsMont M R Rinv) (x y : α) :
    M.toM (x + y) = M.toM x + M.toM y := by simp only [h.toM]; ring

theorem ofM_add {M : Mont α} {R Rinv : α} (h : IsMont M R Rinv) (x y : α) :
    M.ofM (x + y) = M.ofM x + M.ofM y := by simp only [h.ofM]; ring

theorem montIf_add {M : Mont α} {R Rinv : α} (h : IsMont M R Rinv) (b : Bool) (x y : α) :
    montIf M b (x + y) = montIf M b x + montIf M b y := by
  cases b <;> simp [montIf, toM_add h]

/-- what a value flagged by `b` denotes, after `montIf b` -/
theorem denote_montIf {μ : Type} {M : Mont α} {R Rinv : α} (h : IsMont M R Rinv) (md : MetaData μ) (x : α) :
    denote M md (montIf M md.isMont x) = x := by
  unfold denote montIf
  cases md.isMont <;> simp [ofM_toM h]

theorem denote_add {μ : Type} {M : Mont α} {R Rinv : α} (h : IsMont M R Rinv) (md : MetaData μ) (x y : α) :
    denote M md (x + y) = denote M md x + denote M md y := by
  unfold denote
  cases md.isMont <;> simp [ofM_add h]

theorem phase_clear (s : α) (l : List α) : phase s (l.map fun o => o - o) = 0 := by
  induction l with
  | nil => rfl
  | cons x xs ih =>
    show (x - x) + s * phase s (xs.map fun o => o - o) = 0
    rw [ih, sub_self, mul_zero, add_zero]

/-! ### decryption is Horner evaluation -/

theorem phase_snoc_step (s x c : α) (l : List α) :
    phase s (l ++ [x * s + c]) = phase s (l ++ [c, x]) := by
  induction l with
  | nil => simp [phase]; ring
  | cons d l ih => simp [phase, ih]

theorem foldl_horner {M : Mont α} {R Rinv : α} (h : IsMont M R Rinv) (s : α) (rest : List α) (top : α) :
    rest.foldl (fun acc c => mulMont M acc (M.toM s) + c) top = phase s (rest.reverse ++ [top]) := by
  induction rest generalizing top with
  | nil => simp [phase]
  | cons c r ih =>
    simp only [List.foldl_cons, List.reverse_cons, List.append_assoc, List.cons_append, List.nil_append]
    rw [ih, mulMont_toM h, phase_snoc_step]

/-- `Decryptor.Decrypt` computes `Σ c_i s^i` on the stored values (whatever the flags say) -/
theorem hornerMont_eq_phase {M : Mont α} {R Rinv : α} (h : IsMont M R Rinv) (s : α) (ct : List α)
    (hne : ct ≠ []) : hornerMont M (M.toM s) ct.reverse = some (phase s ct) := by
  cases hrev : ct.reverse with
  | nil => simp at hrev; exact absurd hrev hne
  | cons top rest =>
    have : ct = rest.reverse ++ [top] := by
      have := congrArg List.reverse hrev; simpa using this
    simp [hornerMont, foldl_horner h, this]

theorem decrypt_eq {μ : Type} {M : Mont α} {R Rinv : α} (h : IsMont M R Rinv) (s : α) (ct : Ct α μ)
    (hne : ct.value ≠ []) :
    decrypt M ct (M.toM s) = some { value := phase s ct.value, md := ct.md } := by
  simp [decrypt, hornerMont_eq_phase h s ct.value hne]

theorem decrypt_none {μ : Type} (M : Mont α) (sM : α) (md : MetaData μ) :
    decrypt M ({ value := [], md := md } : Ct α μ) sM = none := by
  simp [decrypt, hornerMont]

/-! ### secret-key encryption -/

theorem encryptZeroSk_deg0 {M : Mont α} {R Rinv : α} (h : IsMont M R Rinv) (isMont : Bool) (o0 a e s : α) :
    encryptZeroSk M isMont [o0] a e (M.toM s) = some [-(a * s) + montIf M isMont e] := by
  simp [encryptZeroSk, mulMont_toM h]

/-- every target of degree ≥ 1 receives `(−a·s + e', a)` in its first two components -/
theorem encryptZeroSk_degGe1 {M : Mont α} {R Rinv : α} (h : IsMont M R Rinv) (isMont : Bool)
    (o0 o1 a e s : α) (rest : List α) :
    encryptZeroSk M isMont (o0 :: o1 :: rest) a e (M.toM s)
      = some ((-(a * s) + montIf M isMont e) :: a :: rest) := by
  simp [encryptZeroSk, mulMont_toM h]

theorem ezSk_degGe1 {μ : Type} {M : Mont α} {R Rinv : α} (h : IsMont M R Rinv) (md : MetaData μ)
    (o0 o1 a e s : α) (rest : List α) :
    ezSk M a e (M.toM s) md (o0 :: o1 :: rest)
      = some ((-(a * s) + montIf M md.isMont e) :: a :: rest.map (fun o => o - o)) := by
  simp [ezSk, clearTail, encryptZeroSk_degGe1 h]

theorem ezSk_deg0 {μ : Type} {M : Mont α} {R Rinv : α} (h : IsMont M R Rinv) (md : MetaData μ) (o0 a e s : α) :
    ezSk M a e (M.toM s) md [o0] = some [-(a * s) + montIf M md.isMont e] := by
  simp [ezSk, clearTail, encryptZeroSk_deg0 h]

/-- phase of `(−a·s + e + m, a, 0, …, 0)` -/
theorem phase_encSk_tail (a e s m : α) (rest : List α) :
    phase s ((-(a * s) + e + m) :: a :: rest.map (fun o => o - o)) = m + e := by
  simp only [phase, phase_clear]; ring

theorem phase_encSk_wrong_key_tail (a e s s' m : α) (rest : List α) :
    phase s' ((-(a * s) + e + m) :: a :: rest.map (fun o => o - o)) - m = e + a * (s' - s) := by
  simp only [phase, phase_clear]; ring

theorem phase_encSk (a e s m : α) : phase s [-(a * s) + e + m, a] = m + e := by
  simp [phase]; ring

/-- decrypting under another key `s'` -/
theorem phase_encSk_wrong_key (a e s s' m : α) :
    phase s' [-(a * s) + e + m, a] - m = e + a * (s' - s) := by
  simp [phase]; ring

/-! ### public key -/

/-- `GenPublicKey`: the stored key is the Montgomery form of `(−a'·s + e, a')`, `a' = a·R⁻¹` -/
theorem genPublicKey_eq {β : Type} [CommRing β] {M : Mont β} {R Rinv : β} (h : IsMont M R Rinv)
    (ext : α → β) (a : β) (e : α) (s : β) :
    genPublicKey M ext a e (M.toM s) = (M.toM (-(M.ofM a * s) + ext e), M.toM (M.ofM a)) := by
  unfold genPublicKey encryptZeroSkQP
  have h1 : mulMont M a (M.toM s) = a * s := mulMont_toM h a s
  rw [h1]
  have h2 : M.toM (M.ofM a) = a := by
    rw [h.toM, h.ofM, mul_assoc, mul_comm Rinv R, h.inv, mul_one]
  rw [h2]
  congr 1
  rw [h.toM, h.toM, h.ofM]
  calc ext e * R - a * s = ext e * R - a * s * (R * Rinv) := by rw [h.inv, mul_one]
    _ = (-(a * Rinv * s) + ext e) * R := by ring

/-- the public-key relation `pk0 + pk1·s = e` (Montgomery factor stripped) -/
theorem genPublicKey_relation {β : Type} [CommRing β] {M : Mont β} {R Rinv : β} (h : IsMont M R Rinv)
    (ext : α → β) (a : β) (e : α) (s : β) :
    let pk := genPublicKey M ext a e (M.toM s)
    M.ofM pk.1 + M.ofM pk.2 * s = ext e := by
  intro pk
  have : pk = (M.toM (-(M.ofM a * s) + ext e), M.toM (M.ofM a)) := genPublicKey_eq h ext a e s
  rw [this]
  simp only [ofM_toM h]
  ring

theorem encryptZeroPkNoP_degGe1 {M : Mont α} {R Rinv : α} (h : IsMont M R Rinv) (isMont : Bool)
    (o0 o1 u e0 e1 pk0 pk1 : α) (rest : List α) :
    encryptZeroPkNoP M isMont (o0 :: o1 :: rest) u e0 e1 (M.toM pk0) (M.toM pk1)
      = some (montIf M isMont (u * pk0 + e0) :: montIf M isMont (u * pk1 + e1) :: rest) := by
  simp [encryptZeroPkNoP, mulMont_toM h]

theorem ezPkNoP_degGe1 {μ : Type} {M : Mont α} {R Rinv : α} (h : IsMont M R Rinv) (md : MetaData μ)
    (o0 o1 u e0 e1 pk0 pk1 : α) (rest : List α) :
    ezPkNoP M u e0 e1 (M.toM pk0) (M.toM pk1) md (o0 :: o1 :: rest)
      = some (montIf M md.isMont (u * pk0 + e0) :: montIf M md.isMont (u * pk1 + e1) ::
              rest.map (fun o => o - o)) := by
  simp [ezPkNoP, clearTail, encryptZeroPkNoP_degGe1 h]

theorem encryptZeroPkNoP_deg0 (M : Mont α) (isMont : Bool) (o : List α) (ho : o.length ≤ 1)
    (u e0 e1 pk0M pk1M : α) :
    encryptZeroPkNoP M isMont o u e0 e1 pk0M pk1M = none := by
  match o, ho with
  | [], _ => rfl
  | [_], _ => rfl

/-- phase of `(f(u·pk0 + e0) + m, f(u·pk1 + e1), 0, …, 0)`, `f = montIf b` -/
theorem phase_encPk_tail {M : Mont α} {R Rinv : α} (h : IsMont M R Rinv) (b : Bool)
    (u e0 e1 pk0 pk1 s epk m : α) (rest : List α) (hpk : pk0 + pk1 * s = epk) :
    phase s ((montIf M b (u * pk0 + e0) + m) :: montIf M b (u * pk1 + e1) :: rest.map (fun o => o - o))
      = m + montIf M b (u * epk + e0 + e1 * s) := by
  subst hpk
  simp only [phase, phase_clear]
  cases b
  · simp only [montIf, Bool.false_eq_true, if_false]; ring
  · simp only [montIf, if_true, h.toM]; ring

theorem phase_encPk (u e0 e1 pk0 pk1 s epk m : α) (hpk : pk0 + pk1 * s = epk) :
    phase s [u * pk0 + e0 + m, u * pk1 + e1] = m + u * epk + e0 + e1 * s := by
  subst hpk; simp [phase]; ring

/-! ### public key with the auxiliary modulus -/

section withP
variable {β : Type} [CommRing β]

theorem encryptZeroPk_degGe1 {MQ : Mont α} {MQP : Mont β} {R' Rinv' : β} (h' : IsMont MQP R' Rinv')
    (ext : α → β) (down : β → α) (isMont : Bool) (o0 o1 u e0 e1 : α) (rest : List α) (pk0 pk1 : β) :
    encryptZeroPk MQ MQP ext down isMont (o0 :: o1 :: rest) u e0 e1 (MQP.toM pk0) (MQP.toM pk1)
      = some (montIf MQ isMont (down (ext u * pk0 + ext e0)) ::
              montIf MQ isMont (down (ext u * pk1 + ext e1)) :: rest) := by
  simp [encryptZeroPk, mulMont_toM h']

theorem encryptZeroPk_deg0 (MQ : Mont α) (MQP : Mont β) (ext : α → β) (down : β → α) (isMont : Bool)
    (o : List α) (ho : o.length ≤ 1) (u e0 e1 : α) (pk0M pk1M : β) :
    encryptZeroPk MQ MQP ext down isMont o u e0 e1 pk0M pk1M = none := by
  match o, ho with
  | [], _ => rfl
  | [_], _ => rfl

/-- The rounded division: `P · down x = π x − π (rem x)`, `rem x` the centred residue of `x` mod `P`.
    Then `P · (phase − m)` is the QP-noise minus the two residues. -/
theorem phase_encPk_P (π : β →+* α) (P : α) (down : β → α) (rem : β → β)
    (hdown : ∀ x, P * down x = π x - π (rem x))
    (U E0 E1 pk0 pk1 sQP epk : β) (m : α) (hpk : pk0 + pk1 * sQP = epk) :
    P * (phase (π sQP) [down (U * pk0 + E0) + m, down (U * pk1 + E1)] - m)
      = π (U * epk + E0 + E1 * sQP) - π (rem (U * pk0 + E0)) - π (rem (U * pk1 + E1)) * π sQP := by
  subst hpk
  simp only [phase, mul_zero, add_zero]
  have e0 := hdown (U * pk0 + E0)
  have e1 := hdown (U * pk1 + E1)
  calc P * (down (U * pk0 + E0) + m + π sQP * down (U * pk1 + E1) - m)
      = P * down (U * pk0 + E0) + π sQP * (P * down (U * pk1 + E1)) := by ring
    _ = (π (U * pk0 + E0) - π (rem (U * pk0 + E0)))
          + π sQP * (π (U * pk1 + E1) - π (rem (U * pk1 + E1))) := by rw [e0, e1]
    _ = _ := by simp only [map_add, map_mul]; ring

end withP

/-! ### `Encrypt`, metadata -/

theorem addPtToCt_same {ntt intt : α → α} (b : Bool) (m c0 : α) (rest : List α) :
    addPtToCt ntt intt b b m (c0 :: rest) = (c0 + m) :: rest := by
  cases b <;> simp [addPtToCt]

/-- `Encrypt` copies the plaintext's metadata before `addPtToCt`, so the two flags agree there and the
    mixed (wrong-direction) branches are never taken: the result does not depend on `ntt`/`intt`. -/
theorem encrypt_flags_agree {μ : Type} (ez : MetaData μ → List α → Option (List α)) (ntt intt ntt' intt' : α → α)
    (pt : Option (Pt α μ)) (ct : Ct α μ) : encrypt ez ntt intt pt ct = encrypt ez ntt' intt' pt ct := by
  cases pt with
  | none => rfl
  | some pt =>
    simp only [encrypt]
    cases ez pt.md ct.value with
    | none => rfl
    | some v =>
      cases hb : pt.md.isNTT <;> cases v <;> simp [addPtToCt]

/-- what the mixed branch would do: an NTT-domain plaintext added to a coefficient-domain ciphertext is
    transformed by `ntt` once more (the correct transform is `intt`). -/
theorem addPtToCt_mixed (ntt intt : α → α) (m c0 : α) (rest : List α) :
    addPtToCt ntt intt true false m (c0 :: rest) = (c0 + ntt m) :: rest := by
  simp [addPtToCt]

theorem encrypt_md {μ : Type} (ez : MetaData μ → List α → Option (List α)) (ntt intt : α → α)
    (pt : Pt α μ) (ct ct' : Ct α μ) (h : encrypt ez ntt intt (some pt) ct = some ct') : ct'.md = pt.md := by
  simp only [encrypt, Option.map_eq_some_iff] at h
  obtain ⟨v, _, hv⟩ := h
  rw [← hv]

theorem encrypt_value {μ : Type} (ez : MetaData μ → List α → Option (List α)) (ntt intt : α → α)
    (pt : Pt α μ) (ct : Ct α μ) (c0 : α) (rest : List α) (h : ez pt.md ct.value = some (c0 :: rest)) :
    encrypt ez ntt intt (some pt) ct = some { value := (c0 + pt.value) :: rest, md := pt.md } := by
  simp [encrypt, h, addPtToCt_same]

theorem decrypt_md {μ : Type} (M : Mont α) (ct : Ct α μ) (sM : α) (pt : Pt α μ)
    (h : decrypt M ct sM = some pt) : pt.md = ct.md := by
  simp only [decrypt, Option.map_eq_some_iff] at h
  obtain ⟨v, _, hv⟩ := h
  rw [← hv]

/-! ### `ExtendBasisSmallNormAndCenter` is exact on small values; the acceptance rule guarantees smallness -/

/-- one coefficient: a value with `2|x| < q₀`, stored as its residue modulo `q₀`, is re-centred and reduced
    modulo `p` to its residue modulo `p` — for EVERY `p > 0` (since fix C03-9 the magnitude is reduced, so `|x|`
    may exceed `p`) -/
theorem ext_coeff_exact (q0 p : ℕ) (x : ℤ) (hp : 0 < p) (h1 : 2 * x.natAbs < q0) :
    (if (x % (q0 : ℤ)).toNat > q0 / 2 then (p - (q0 - (x % (q0 : ℤ)).toNat) % p) % p
      else (x % (q0 : ℤ)).toNat % p) = (x % (p : ℤ)).toNat := by
  rcases Int.lt_or_le x 0 with hneg | hpos
  · obtain ⟨m, hm⟩ : ∃ m : ℕ, x = -(m : ℤ) := ⟨x.natAbs, by omega⟩
    have hm1 : 0 < m := by omega
    have hm2 : 2 * m < q0 := by omega
    have e1 : x % (q0 : ℤ) = ((q0 - m : ℕ) : ℤ) := by
      rw [hm, show (-(m : ℤ)) = ((q0 - m : ℕ) : ℤ) + (q0 : ℤ) * (-1) by omega, Int.add_mul_emod_self_left]
      exact Int.emod_eq_of_lt (by omega) (by omega)
    rw [e1, Int.toNat_natCast, if_pos (by omega)]
    have e2 : q0 - (q0 - m) = m := by omega
    rw [e2]
    have hr : m % p < p := Nat.mod_lt _ hp
    have e4 : x % (p : ℤ) = (((p - m % p) % p : ℕ) : ℤ) := by
      have hdiv := Nat.div_add_mod m p
      rw [hm, Int.natCast_mod]
      have : (-(m : ℤ)) = ((p - m % p : ℕ) : ℤ) + (p : ℤ) * (-((m / p : ℕ) : ℤ) - 1) := by
        have : ((p - m % p : ℕ) : ℤ) = (p : ℤ) - ((m % p : ℕ) : ℤ) := by omega
        rw [this]
        have h3 : (m : ℤ) = (p : ℤ) * ((m / p : ℕ) : ℤ) + ((m % p : ℕ) : ℤ) := by exact_mod_cast hdiv.symm
        rw [h3]; ring
      rw [this, Int.add_mul_emod_self_left]
    rw [e4, Int.toNat_natCast]
  · obtain ⟨m, hm⟩ : ∃ m : ℕ, x = (m : ℤ) := ⟨x.natAbs, by omega⟩
    have hm2 : 2 * m < q0 := by omega
    have e1 : x % (q0 : ℤ) = (m : ℤ) := by rw [hm]; exact Int.emod_eq_of_lt (by omega) (by omega)
    rw [e1, Int.toNat_natCast, if_neg (by omega), hm, ← Int.natCast_mod, Int.toNat_natCast]

/-- **`extSmall` is exact on small integer polynomials**: for every chain `q0 :: qs` and every `ps` of positive
    moduli, every ring type and every integer vector with `2|x| < q₀`, the extension of its reduction modulo `Q`
    is its reduction modulo `Q ++ P` (all limbs, Q and P, are limbs of ONE integer polynomial). -/
theorem RQ.extSmall_ofInts (ci : Bool) (q0 : ℕ) (qs ps : List ℕ) (hps : ∀ p ∈ ps, 0 < p) (v : List ℤ)
    (h1 : ∀ x ∈ v, 2 * x.natAbs < q0) :
    RQ.extSmall ps ⟨ci, RPoly.ofInts (q0 :: qs) v⟩ = ⟨ci, RPoly.ofInts ((q0 :: qs) ++ ps) v⟩ := by
  show (⟨ci, { qs := (q0 :: qs) ++ ps, c := (RPoly.ofInts (q0 :: qs) v).c ++ ps.map _ }⟩ : RQ) = _
  show _ = (⟨ci, { qs := (q0 :: qs) ++ ps, c := ((q0 :: qs) ++ ps).map _ }⟩ : RQ)
  congr 2
  rw [List.map_append]
  congr 1
  apply List.map_congr_left
  intro p hp
  show ((RPoly.ofInts (q0 :: qs) v).c.headD []).map _ = _
  show (v.map fun (x : ℤ) => (x % (q0 : ℤ)).toNat).map _ = _
  rw [List.map_map]
  apply List.map_congr_left
  intro x hx
  exact ext_coeff_exact q0 p x (hps p hp) (h1 x hx)

/-- **accepted ⇒ extension exact** (fix C03-10 as a model theorem).  If `NewParameters` accepts the distribution
    bounds on a chain with an auxiliary modulus (`acceptsBounds q₀ true be2 bs2`), then every error polynomial
    within the error bound (`2|x| ≤ be2`) and every secret / ephemeral-secret polynomial within the secret bound
    (`2|x| ≤ bs2`) is extended to `P` EXACTLY by `extSmall` — at every level (limb 0 belongs to every level) and for
    both ring types. -/
theorem RQ.accepted_ext_exact (q0 : ℕ) (qs ps : List ℕ) (hps : ∀ p ∈ ps, 0 < p) (be2 bs2 : ℕ)
    (hacc : RQ.acceptsBounds q0 true be2 bs2 = true) (ci : Bool) (v : List ℤ)
    (hv : (∀ x ∈ v, 2 * x.natAbs ≤ be2) ∨ (∀ x ∈ v, 2 * x.natAbs ≤ bs2)) :
    RQ.extSmall ps ⟨ci, RPoly.ofInts (q0 :: qs) v⟩ = ⟨ci, RPoly.ofInts ((q0 :: qs) ++ ps) v⟩ := by
  simp only [RQ.acceptsBounds, Bool.not_true, Bool.false_or, Bool.and_eq_true, decide_eq_true_eq] at hacc
  apply RQ.extSmall_ofInts ci q0 qs ps hps v
  intro x hx
  rcases hv with h | h
  · exact Nat.lt_of_le_of_lt (h x hx) hacc.1
  · exact Nat.lt_of_le_of_lt (h x hx) hacc.2

/-- the rule is sharp: a bound that reaches `q₀/2` admits a value whose extension is WRONG
    (`q₀ = 5`, `p = 7`, `x = 3`: limb 0 holds 3 ≡ −2, the extension writes −2 mod 7 = 5 ≠ 3). -/
theorem RQ.rejected_ext_wrong :
    RQ.acceptsBounds 5 true 6 2 = false ∧
    RQ.extSmall [7] ⟨false, RPoly.ofInts [5] [3]⟩ ≠ ⟨false, RPoly.ofInts ([5] ++ [7]) [3]⟩ := by
  decide

end Lattigo.RLWE
