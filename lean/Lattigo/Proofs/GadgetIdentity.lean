/-
  C04 — the gadget identity `Σ_{i,j} d_{ij}·(P·g_{ij}) = P·c` for the gadget vector AS LAID OUT BY THE
  CODE on RNS rows: `P·g_{ij}` is `P·2^{wj}` on the rows of digit group `i` and `0` on every other row
  (`AddPolyTimesGadgetVectorToGadgetCiphertext`).

  Ring of the statement: a product `∀ k : ι, R k` of commutative rings (`k` = RNS row; for lattigo
  `R k = Z_{q_k}[X]/(X^N+1)`), so equality is row-wise.  On row `k` only the digit row `i = grp k`
  contributes, and the identity reduces to the per-row recombination
  `Σ_j d_{grp k, j}(k)·b_j(k) = c(k)` — which is `digits_recombine` for the power-of-two digits, and
  `d_i ≡ c (mod q_k)` for the RNS digits (`b_0 = 1`).
-/
import Lattigo.Proofs.KeySwitch
import Mathlib.Algebra.Ring.Pi

set_option linter.unusedSectionVars false

namespace Lattigo.KS

section oneRow
variable {R : Type} [CommRing R] {β : Type}

theorem wsumRow_zero_right (i : Nat) : ∀ (j : Nat) (row : List β) (d : List R),
    wsumRow 0 d (idxRowFrom (fun _ _ => (0 : R)) i j row) = 0
  | _, [], d => by cases d <;> simp [idxRowFrom, wsumRow]
  | _, _ :: _, [] => by simp [wsumRow]
  | j, _ :: rest, x :: xs => by
      simp only [idxRowFrom, wsumRow, wsumRow_zero_right i (j + 1) rest xs]; ring

theorem wsumRow_factor (P : R) (b : Nat → R) (i i' : Nat) : ∀ (j : Nat) (row : List β) (d : List R),
    wsumRow 0 d (idxRowFrom (fun _ j => P * b j) i j row)
      = P * wsumRow 0 d (idxRowFrom (fun _ j => b j) i' j row)
  | _, [], d => by cases d <;> simp [idxRowFrom, wsumRow]
  | _, _ :: _, [] => by simp [wsumRow]
  | j, _ :: rest, x :: xs => by
      simp only [idxRowFrom, wsumRow, wsumRow_factor P b i i' (j + 1) rest xs]; ring

theorem idxRowFrom_congr {f f' : Nat → Nat → R} (i : Nat) (h : ∀ j, f i j = f' i j) :
    ∀ (j : Nat) (row : List β), idxRowFrom f i j row = idxRowFrom f' i j row
  | _, [] => rfl
  | j, _ :: rest => by simp only [idxRowFrom, h j, idxRowFrom_congr i h (j + 1) rest]

/-- on a fixed RNS row whose digit group is `g`: only the digit row `g` of the matrix contributes -/
theorem gadget_identity_oneRow (P : R) (b : Nat → R) (g : Nat) :
    ∀ (i0 : Nat) (shape : List (List β)) (d : List (List R)),
      wsumMat 0 d (idxMatFrom (fun i j => if i = g then P * b j else 0) i0 shape)
        = if i0 ≤ g then
            P * wsumRow 0 (d.getD (g - i0) []) (idxRowFrom (fun _ j => b j) 0 0 (shape.getD (g - i0) []))
          else 0
  | i0, [], d => by
      cases d <;> simp [idxMatFrom, wsumMat, idxRowFrom, wsumRow]
  | i0, _ :: _, [] => by
      simp only [wsumMat, List.getD_nil]
      split <;> simp [wsumRow]
  | i0, row :: rest, di :: ds => by
      have ih := gadget_identity_oneRow P b g (i0 + 1) rest ds
      simp only [idxMatFrom, wsumMat]
      rw [ih]
      rcases Nat.lt_trichotomy i0 g with hlt | heq | hgt
      · -- i0 < g : this row contributes nothing
        have hne : ∀ j, (fun i j => if i = g then P * b j else (0 : R)) i0 j
            = (fun _ _ => (0 : R)) i0 j := by
          intro j; simp [Nat.ne_of_lt hlt]
        rw [idxRowFrom_congr (f' := fun _ _ => (0 : R)) i0 hne 0 row, wsumRow_zero_right]
        have h1 : i0 + 1 ≤ g := hlt
        have h2 : i0 ≤ g := Nat.le_of_lt hlt
        have h3 : g - i0 = (g - (i0 + 1)) + 1 := by omega
        simp only [h1, h2, if_true, h3, List.getD_cons_succ]
        ring
      · -- i0 = g : this is the row
        subst heq
        have hne : ∀ j, (fun i j => if i = i0 then P * b j else (0 : R)) i0 j
            = (fun _ j => P * b j) i0 j := by
          intro j; simp
        rw [idxRowFrom_congr (f' := fun _ j => P * b j) i0 hne 0 row, wsumRow_factor P b i0 0 0 row di]
        simp
      · -- i0 > g : nothing from here on
        have hne : ∀ j, (fun i j => if i = g then P * b j else (0 : R)) i0 j
            = (fun _ _ => (0 : R)) i0 j := by
          intro j; simp [Nat.ne_of_gt hgt]
        rw [idxRowFrom_congr (f' := fun _ _ => (0 : R)) i0 hne 0 row, wsumRow_zero_right]
        have h1 : ¬ i0 + 1 ≤ g := by omega
        have h2 : ¬ i0 ≤ g := by omega
        simp [h1, h2]

end oneRow

section pi
variable {ι : Type} {R : ι → Type} [∀ k, CommRing (R k)] {β : Type}

theorem wsumRow_apply (k : ι) : ∀ (d m : List (∀ k, R k)),
    (wsumRow 0 d m) k = wsumRow 0 (d.map fun x => x k) (m.map fun x => x k)
  | [], _ => by simp [wsumRow]
  | _ :: _, [] => by simp [wsumRow]
  | x :: xs, y :: ys => by
      simp only [wsumRow, List.map_cons, Pi.add_apply, Pi.mul_apply, wsumRow_apply k xs ys]

theorem wsumMat_apply (k : ι) : ∀ (d m : List (List (∀ k, R k))),
    (wsumMat 0 d m) k
      = wsumMat 0 (d.map fun r => r.map fun x => x k) (m.map fun r => r.map fun x => x k)
  | [], _ => by simp [wsumMat]
  | _ :: _, [] => by simp [wsumMat]
  | x :: xs, y :: ys => by
      simp only [wsumMat, List.map_cons, Pi.add_apply, wsumRow_apply, wsumMat_apply k xs ys]

theorem idxRowFrom_map (f : Nat → Nat → ∀ k, R k) (k : ι) (i : Nat) :
    ∀ (j : Nat) (row : List β),
      (idxRowFrom f i j row).map (fun x => x k) = idxRowFrom (fun i j => f i j k) i j row
  | _, [] => rfl
  | j, _ :: rest => by simp only [idxRowFrom, List.map_cons, idxRowFrom_map f k i (j + 1) rest]

theorem idxMatFrom_map (f : Nat → Nat → ∀ k, R k) (k : ι) :
    ∀ (i : Nat) (m : List (List β)),
      (idxMatFrom f i m).map (fun r => r.map fun x => x k) = idxMatFrom (fun i j => f i j k) i m
  | _, [] => rfl
  | i, row :: rest => by
      simp only [idxMatFrom, List.map_cons, idxRowFrom_map, idxMatFrom_map f k (i + 1) rest]

/-- **gadget_identity** (RNS rows): let `grp k` be the digit group of row `k`, the gadget vector be
    `P·g_{ij} = (k ↦ if grp k = i then P_k·b_j(k) else 0)` (the code's layout; `b_j = 2^{wj}`), and let the
    digits recombine ROW-WISE: on every row `k`, `Σ_j d_{grp k, j}(k)·b_j(k) = c(k)`.
    Then `Σ_{i,j} d_{ij}·P·g_{ij} = P·c` in the product ring. -/
theorem gadget_identity (grp : ι → Nat) (P : ∀ k, R k) (b : Nat → ∀ k, R k) (c : ∀ k, R k)
    (samples : List (List β)) (d : List (List (∀ k, R k)))
    (hrec : ∀ k, wsumRow 0 ((d.getD (grp k) []).map fun x => x k)
              (idxRowFrom (fun _ j => b j k) 0 0 (samples.getD (grp k) [])) = c k) :
    wsumMat 0 d (pgMat (fun i j => fun k => if grp k = i then P k * b j k else 0) samples) = P * c := by
  funext k
  rw [wsumMat_apply, pgMat, idxMatFrom_map]
  have hf : (fun i j => (fun k => if grp k = i then P k * b j k else (0 : R k)) k)
      = (fun i j => if i = grp k then P k * b j k else 0) := by
    funext i j
    by_cases h : grp k = i
    · simp [h]
    · simp [h, Ne.symm h]
  rw [hf, gadget_identity_oneRow (P k) (fun j => b j k) (grp k) 0 samples]
  simp only [Nat.zero_le, if_true, Nat.sub_zero, Pi.mul_apply]
  rw [← hrec k]
  congr 2
  -- (d.map …).getD g [] = (d.getD g []).map …
  cases h : d[grp k]? with
  | none => simp [List.getD, h]
  | some r => simp [List.getD, h]

end pi

end Lattigo.KS
