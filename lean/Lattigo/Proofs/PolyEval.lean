/-
  C13 — lemmas about `Lattigo.Model.PolyEval`: SplitDegree, the power basis (monomial and Chebyshev),
  the monomial factorisation, the Paterson–Stockmeyer recursion, depth arithmetic.
-/
import Lattigo.Model.PolyEval
import Mathlib.RingTheory.Polynomial.Chebyshev
import Mathlib.Tactic.Ring
import Mathlib.Tactic.Linarith

namespace Lattigo.Model.PolyEval

/-- the value operations of a commutative ring -/
def ringOps (R : Type) [CommRing R] : ValOps R :=
  { add := (· + ·), sub := (· - ·), mul := (· * ·), ofNat := fun n => (n : R) }

theorem intOps_eq : intOps = ringOps Int := rfl

/-! ## SplitDegree -/

theorem isPow2_iff (n : Nat) : isPow2 n = true ↔ n ≠ 0 ∧ 2 ^ Nat.log2 n = n := by
  simp [isPow2]

/-- `SplitDegree(n)` for `n ≥ 2`: the two parts are positive and ADD up to `n` -/
theorem splitDegree_spec (n : Nat) (hn : 2 ≤ n) :
    (splitDegree n).1 + (splitDegree n).2 = n ∧ 1 ≤ (splitDegree n).1 ∧ 1 ≤ (splitDegree n).2 := by
  unfold splitDegree
  by_cases hp : isPow2 n = true
  · rw [if_pos hp]
    obtain ⟨_, h2⟩ := (isPow2_iff n).1 hp
    have hk : 1 ≤ Nat.log2 n := by
      rcases Nat.eq_zero_or_pos (Nat.log2 n) with h | h
      · rw [h] at h2; omega
      · exact h
    obtain ⟨k, hk'⟩ : ∃ k, Nat.log2 n = k + 1 := ⟨Nat.log2 n - 1, by omega⟩
    rw [hk', pow_succ] at h2
    simp only
    omega
  · rw [if_neg hp]
    simp only
    have hn1 : n - 1 ≠ 0 := by omega
    have hb : bitLen (n - 1) - 1 = Nat.log2 (n - 1) := by simp [bitLen, hn1]
    rw [hb]
    have hle : 2 ^ Nat.log2 (n - 1) ≤ n - 1 := Nat.log2_self_le hn1
    have hpos : 1 ≤ 2 ^ Nat.log2 (n - 1) := Nat.one_le_two_pow
    have hk : 2 ≤ 2 ^ Nat.log2 (n - 1) := by
      -- otherwise `n - 1 < 2`, i.e. `n = 2`, a power of two
      by_contra hlt
      have h1 : 2 ^ Nat.log2 (n - 1) = 1 := by omega
      have h0 : Nat.log2 (n - 1) = 0 := by
        by_contra h
        have : 2 ≤ 2 ^ Nat.log2 (n - 1) := by
          calc 2 = 2 ^ 1 := rfl
            _ ≤ 2 ^ Nat.log2 (n - 1) := Nat.pow_le_pow_right (by norm_num) (by omega)
        omega
      have hlt2 : n - 1 < 2 ^ (Nat.log2 (n - 1) + 1) := Nat.lt_log2_self
      rw [h0] at hlt2
      have hn2 : n = 2 := by omega
      apply hp
      rw [hn2]; decide
    omega

/-! ## the power basis -/

section
variable {R : Type} [CommRing R]

/-- **monomial power basis**: index `n` holds `x^n` -/
theorem powVal_monomial (x : R) (fuel n : Nat) (h : n ≤ fuel) (h1 : 1 ≤ fuel) :
    powVal (ringOps R) false x fuel n = x ^ n := by
  induction fuel using Nat.strong_induction_on generalizing n with
  | _ fuel ih =>
    cases fuel with
    | zero => omega
    | succ f =>
      unfold powVal
      by_cases h0 : n = 0
      · simp [h0, ringOps]
      · by_cases hone : n = 1
        · simp [hone]
        · rw [if_neg h0, if_neg hone]
          obtain ⟨hs, ha, hb⟩ := splitDegree_spec n (by omega)
          simp only [Bool.false_eq_true, if_false]
          rw [ih f (by omega) _ (by omega) (by omega), ih f (by omega) _ (by omega) (by omega)]
          simp only [ringOps]
          rw [← pow_add, hs]

open Polynomial in
/-- **Chebyshev power basis**: index `n` holds `T_n(x)` (Chebyshev polynomial of the first kind),
    by `2·T_a·T_b = T_{a+b} + T_{a-b}` (`Polynomial.Chebyshev.T_mul_T`) -/
theorem powVal_chebyshev (x : R) (fuel n : Nat) (h : n ≤ fuel) (h1 : 1 ≤ fuel) :
    powVal (ringOps R) true x fuel n = (Chebyshev.T R (n : ℤ)).eval x := by
  induction fuel using Nat.strong_induction_on generalizing n with
  | _ fuel ih =>
    cases fuel with
    | zero => omega
    | succ f =>
      unfold powVal
      by_cases h0 : n = 0
      · simp [h0, ringOps]
      · by_cases hone : n = 1
        · simp [hone]
        · rw [if_neg h0, if_neg hone]
          obtain ⟨hs, ha, hb⟩ := splitDegree_spec n (by omega)
          simp only [if_true]
          set a := (splitDegree n).1 with hadef
          set b := (splitDegree n).2 with hbdef
          rw [ih f (by omega) a (by omega) (by omega), ih f (by omega) b (by omega) (by omega),
            ih f (by omega) _ (by split <;> omega) (by omega)]
          simp only [ringOps]
          have key := congrArg (Polynomial.eval x) (Chebyshev.T_mul_T R (a : ℤ) (b : ℤ))
          simp only [Polynomial.eval_mul, Polynomial.eval_add, Polynomial.eval_ofNat] at key
          have hsum : ((a : ℤ) + (b : ℤ)) = (n : ℤ) := by exact_mod_cast hs
          have hc : (Chebyshev.T R (((if a ≥ b then a - b else b - a : ℕ)) : ℤ))
              = Chebyshev.T R ((a : ℤ) - (b : ℤ)) := by
            split
            · rename_i hge
              congr 1; omega
            · rename_i hlt
              rw [← Chebyshev.T_neg]
              congr 1; omega
          rw [hc, ← hsum]
          have : ((2 : ℕ) : R) = 2 := by norm_cast
          rw [this]
          linear_combination key

/-! ## evaluation in the basis -/

theorem evalFrom_append (O : ValOps R) (cheb : Bool) (x : R) (k : Nat) (l1 l2 : List R)
    (hO : O = ringOps R) :
    evalFrom O cheb x k (l1 ++ l2) = evalFrom O cheb x k l1 + evalFrom O cheb x (k + l1.length) l2 := by
  subst hO
  induction l1 generalizing k with
  | nil => simp [evalFrom, ringOps]
  | cons c cs ih =>
    simp only [List.cons_append, evalFrom, List.length_cons]
    rw [ih (k + 1)]
    simp only [ringOps]
    have : k + 1 + cs.length = k + (cs.length + 1) := by omega
    rw [this]; ring

/-- monomial basis: shifting the exponents by `n` multiplies by `x^n` -/
theorem evalFrom_shift_monomial (x : R) (k n : Nat) (l : List R) :
    evalFrom (ringOps R) false x (k + n) l = evalFrom (ringOps R) false x k l * x ^ n := by
  induction l generalizing k with
  | nil => simp [evalFrom, ringOps]
  | cons c cs ih =>
    simp only [evalFrom]
    have : k + n + 1 = (k + 1) + n := by omega
    rw [this, ih (k + 1)]
    rw [powVal_monomial x _ _ (by omega) (by omega), powVal_monomial x _ _ (by omega) (by omega)]
    simp only [ringOps]
    rw [pow_add]; ring

/-- **factorize_spec (monomial)**: `p(x) = q(x)·x^n + r(x)` with `(q, r) = Factorize(n)`, and `r` has
    fewer than `n + 1` coefficients (degree `< n`), for EVERY coefficient list and every `n` -/
theorem factorize_monomial (x : R) (n : Nat) (p : List R) :
    evalBasis (ringOps R) false x p
      = evalBasis (ringOps R) false x (factorize (ringOps R) false n p).1 * x ^ n
        + evalBasis (ringOps R) false x (factorize (ringOps R) false n p).2
    ∧ (factorize (ringOps R) false n p).2.length ≤ n := by
  simp only [factorize, Bool.not_false, if_true, evalBasis]
  refine ⟨?_, by simp⟩
  conv_lhs => rw [← List.take_append_drop n p]
  rw [evalFrom_append _ _ _ _ _ _ rfl]
  by_cases hn : n ≤ p.length
  · rw [List.length_take, Nat.min_eq_left hn]
    have := evalFrom_shift_monomial x 0 n (p.drop n)
    rw [this]; ring
  · have hd : p.drop n = [] := List.drop_eq_nil_of_le (by omega)
    rw [hd]
    simp [evalFrom, ringOps]

/-- the power used for the giant step is the monomial `x^np` resp. `T_np(x)`; for the monomial basis
    the Paterson–Stockmeyer recursion returns `p(x)`: **ps_spec (monomial)**, every coefficient list
    (zero leading/trailing coefficients, odd, even, …), every `logSplit`, every fuel -/
theorem psRec_monomial (logSplit : Nat) (x : R) (fuel : Nat) (p : List R) :
    psRec (ringOps R) false logSplit x fuel p = evalBasis (ringOps R) false x p := by
  induction fuel generalizing p with
  | zero => rfl
  | succ f ih =>
    unfold psRec
    simp only
    split
    · rfl
    · rw [ih, ih, powVal_monomial x _ _ (by omega) (by omega)]
      have := (factorize_monomial x (nextPower logSplit (p.length - 1)) p).1
      simp only [ringOps] at this ⊢
      rw [this]

/-- Paterson–Stockmeyer for ANY basis, given the factorisation identity of that basis:
    **ps_spec** reduced to **factorize_spec** -/
theorem psRec_of_factorize (O : ValOps R) (hO : O = ringOps R) (cheb : Bool) (logSplit : Nat) (x : R)
    (hfac : ∀ (p : List R), 2 ^ logSplit ≤ p.length - 1 →
      evalBasis O cheb x p
        = evalBasis O cheb x (factorize O cheb (nextPower logSplit (p.length - 1)) p).1
            * powVal O cheb x (nextPower logSplit (p.length - 1) + 1) (nextPower logSplit (p.length - 1))
          + evalBasis O cheb x (factorize O cheb (nextPower logSplit (p.length - 1)) p).2)
    (fuel : Nat) (p : List R) :
    psRec O cheb logSplit x fuel p = evalBasis O cheb x p := by
  subst hO
  induction fuel generalizing p with
  | zero => rfl
  | succ f ih =>
    unfold psRec
    simp only
    split
    · rfl
    · rename_i hlt
      rw [ih, ih]
      have := hfac p (by omega)
      simp only [ringOps] at this ⊢
      rw [this]

end

/-! ## depth -/

theorem bitLen_pos (d : Nat) (hd : 1 ≤ d) : bitLen d = Nat.log2 d + 1 := by
  simp [bitLen, Nat.ne_of_gt hd]

/-- levels consumed by the recursion as coded: `PolynomialDepth(d) = bits.Len64(d) - 1` rescalings inside
    `recursePS` plus the final `Rescale` — exactly `⌈log2(d+1)⌉` -/
theorem depth_arith (d : Nat) (hd : 1 ≤ d) : polynomialDepth d + 1 = Nat.clog 2 (d + 1) := by
  unfold polynomialDepth
  rw [bitLen_pos d hd]
  have hne : d ≠ 0 := by omega
  have h1 : 2 ^ Nat.log2 d ≤ d := Nat.log2_self_le hne
  have h2 : d < 2 ^ (Nat.log2 d + 1) := Nat.lt_log2_self
  apply le_antisymm
  · -- log2 d + 1 ≤ clog: otherwise d + 1 ≤ 2^(log2 d)
    by_contra hlt
    have hle : Nat.clog 2 (d + 1) ≤ Nat.log2 d := by omega
    have := (Nat.clog_le_iff_le_pow (by norm_num : 1 < 2)).1 hle
    omega
  · have : Nat.clog 2 (d + 1) ≤ Nat.log2 d + 1 :=
      (Nat.clog_le_iff_le_pow (by norm_num : 1 < 2)).2 (by omega)
    omega

/-- the guard of `Evaluate` (`level < Depth()`, `Depth() = ⌈log2 d⌉`) is one short exactly on powers
    of two: for `d = 2^k`, `k ≥ 1`, it lets `level = k` through although `k + 1` levels are consumed -/
theorem depth_guard_gap (k : Nat) (hk : 1 ≤ k) :
    depthCheck (2 ^ k) = k ∧ polynomialDepth (2 ^ k) + 1 = k + 1 := by
  have hpos : 1 ≤ 2 ^ k := Nat.one_le_two_pow
  have h2 : 2 ≤ 2 ^ k := by
    calc 2 = 2 ^ 1 := rfl
      _ ≤ 2 ^ k := Nat.pow_le_pow_right (by norm_num) hk
  constructor
  · unfold depthCheck
    rw [if_neg (by omega)]
    have hne : 2 ^ k - 1 ≠ 0 := by omega
    have hlo : k - 1 ≤ Nat.log2 (2 ^ k - 1) := by
      rw [Nat.le_log2 hne]
      have : 2 ^ k = 2 * 2 ^ (k - 1) := by
        rw [← pow_succ']; congr 1; omega
      omega
    have hhi : Nat.log2 (2 ^ k - 1) < k := by
      rw [Nat.log2_lt hne]; omega
    omega
  · unfold polynomialDepth
    rw [bitLen_pos _ hpos, Nat.log2_two_pow]
    omega

/-! ## slots outside every mapping -/

theorem coeffVec_unmapped (env : Env) (m : List (List Nat)) (coeffs : List (List Int)) (k j : Nat)
    (hj : j < env.slots) (hun : ∀ l ∈ m, j ∉ l) :
    (coeffVec env (some m) coeffs k).getD j 0 = 0 := by
  simp only [coeffVec]
  have hfold : ∀ (l : List (List Nat × List Int)) (acc : Int), (∀ mc ∈ l, j ∉ mc.1) →
      l.foldl (fun acc mc => if mc.1.contains j = true then mc.2.getD k 0 else acc) acc = acc := by
    intro l
    induction l with
    | nil => intros; rfl
    | cons hd tl ih =>
      intro acc h
      simp only [List.foldl_cons]
      have : hd.1.contains j = false := by
        simpa using h hd (List.mem_cons_self ..)
      rw [this]
      exact ih acc (fun mc hmc => h mc (List.mem_cons_of_mem _ hmc))
  rw [List.getD_eq_getElem?_getD, List.getElem?_map, List.getElem?_range hj]
  simp only [Option.map_some, Option.getD_some]
  apply hfold
  intro mc hmc
  exact hun mc.1 (List.of_mem_zip hmc).1

end Lattigo.Model.PolyEval
